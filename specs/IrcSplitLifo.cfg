SPECIFICATION Spec
CONSTANT MaxLen = 2
CONSTANT MaxAvail = 2
CONSTANT Mode = "lifo"
CONSTANT MaxMsgs = 2
CONSTANT Kinds = {"msg"}
CONSTRAINT ReportQ
CHECK_DEADLOCK FALSE
