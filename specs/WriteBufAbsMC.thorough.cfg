SPECIFICATION Spec
CONSTANT Depth = 11
CONSTANT MaxW = 6
CONSTRAINT Bound
INVARIANT PrefixInv
INVARIANT ProdInv
INVARIANT CloseInv
CHECK_DEADLOCK FALSE
