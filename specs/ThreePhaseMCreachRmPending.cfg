SPECIFICATION Spec
CONSTANT MaxT = 3
CONSTANT MaxR = 0
CONSTANT MaxF = 1
CONSTANT KindSet = "reent"
INVARIANT ReachRmPending
CHECK_DEADLOCK FALSE
