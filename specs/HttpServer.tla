----------------------------- MODULE HttpServer -----------------------------
(* C18 / C19 / C21 -- the HTTP/1.1 server connection as coded in twisted.web.http.HTTPChannel
   on top of twisted.protocols.basic.LineReceiver, at item level (Impl layer).

   A stream is a sequence of UNITS: line tokens (the content of one line: request lines,
   field lines, chunk-size lines, valid and malformed), NL (CR LF) and B (an opaque body octet).
   Deliveries cut the stream anywhere between units -- in the middle of a line, between a
   line and its NL, inside a body, between pipelined requests.

   The machine is a transcription of the algorithm: LineReceiver's buffer / mode loop with the
   busy flag, HTTPChannel.lineReceived (first-line state, one swallowed empty line, header
   accumulation with delayed processing for continuation lines), headerReceived /
   _maybeChooseTransferDecoder, allHeadersReceived (persistence, 100-continue),
   rawDataReceived with the identity and chunked decoders, allContentReceived, the
   _handlingRequest / _dataBuffer head-of-line blocking, requestDone's replay through
   setLineMode(data), Request.finish/_cleanup/connectionLost with the notifyFinish list.

   Two copies run side by side: M receives the stream in arbitrary deliveries, R receives the
   same units one at a time.  SegInv (C18): after the same consumed prefix both have produced
   the same outputs -- so every split is equivalent to the finest one, hence to every other
   (in particular to one piece).  The framing invariants (C19) and the application-side
   invariants (C21) are stated on M's outputs.                                              *)
EXTENDS Naturals, Sequences, FiniteSets

VARIABLES cfg,      \* [plan |-> <<"now"|"later", ...>> per request, nd |-> notifyFinish Deferreds per request,
                    \*  units |-> the units the client may send, maxd |-> longest delivery]
          M, R,     \* the two machines
          sent      \* number of units delivered so far

vars == <<cfg, M, R, sent>>

NL == "NL"
FieldTokens == {"HP", "HC0", "HC1", "HC2", "HCB", "HTC", "HTX", "HEX", "HCC"}
LineTokens == FieldTokens \cup {"RL11", "RL10", "RLB", "HF", "HNC", "K0", "K1", "KB"}
AllUnits == LineTokens \cup {NL, "B"}

NoHdr == [t |-> "", f |-> FALSE]
NoDec == [k |-> "none", st |-> "", rem |-> 0, cbuf |-> <<>>]

NewMachine ==
    [buf |-> <<>>, line |-> TRUE, fl |-> 1, hdr |-> NoHdr, ver |-> "", hs |-> <<>>, len |-> 0,
     dec |-> NoDec, body |-> <<>>, persistent |-> TRUE, handling |-> FALSE, dbuf |-> <<>>,
     noop |-> FALSE, disc |-> FALSE, out |-> <<>>, nreq |-> 0, active |-> 0, nlog |-> <<>>, lost |-> FALSE]

InitWith(c) == cfg = c /\ M = NewMachine /\ R = NewMachine /\ sent = 0

Plan(r) == IF r <= Len(cfg.plan) THEN cfg.plan[r] ELSE "now"

IndexOf(u, s) == IF \E i \in 1..Len(s) : s[i] = u THEN CHOOSE i \in 1..Len(s) : s[i] = u /\ \A j \in 1..(i - 1) : s[j] # u ELSE 0
After(s, i) == SubSeq(s, i + 1, Len(s))
\* what a line's content is: one line token, empty, or junk (several tokens / body octets in line position)
Kind(c) == IF c = <<>> THEN "EMPTY" ELSE IF Len(c) = 1 /\ c[1] \in LineTokens THEN c[1] ELSE "JUNK"
HasTok(hs, t) == \E i \in 1..Len(hs) : hs[i].t = t
ClOf(t) == IF t = "HC0" THEN 0 ELSE IF t = "HC1" THEN 1 ELSE 2

\* _respondToBadRequestAndDisconnect
Bad(m) == [m EXCEPT !.out = Append(@, [k |-> "400"]), !.disc = TRUE]

RECURSIVE Loop(_)

(* Request.finish() -> _cleanup(): channel.requestDone(self) first, then the notifications.
   busy = we are underneath LineReceiver.dataReceived (its _busyReceiving flag is set).      *)
Finish(m, busy) ==
    LET r == m.active
        m1 == [m EXCEPT !.out = Append(@, [k |-> "resp", r |-> r]), !.active = 0]
        m2 == IF m1.persistent
              THEN LET data == m1.dbuf
                       m3 == [m1 EXCEPT !.handling = FALSE, !.dbuf = <<>>, !.line = TRUE]    \* setLineMode(data)
                   IN IF data = <<>> THEN m3
                      ELSE IF busy THEN [m3 EXCEPT !.buf = @ \o data]                        \* dataReceived while busy: append
                      ELSE Loop([m3 EXCEPT !.buf = @ \o data])
              ELSE [m1 EXCEPT !.disc = TRUE]                                                  \* loseConnection
    IN [m2 EXCEPT !.nlog = @ \o [d \in 1..cfg.nd |-> <<r, d, "none">>]]

(* allContentReceived: reset per-request state, go to raw mode, hand the request to the application. *)
AllContent(m) ==
    LET r == m.nreq + 1
        item == [k |-> "req", r |-> r, v |-> m.ver, hs |-> m.hs, body |-> m.body]
        m1 == [m EXCEPT !.len = 0, !.fl = 1, !.dec = NoDec, !.handling = TRUE, !.line = FALSE,
                        !.out = Append(@, item), !.nreq = r, !.active = r,
                        !.hs = <<>>, !.body = <<>>, !.ver = ""]
    IN IF Plan(r) = "now" THEN Finish(m1, TRUE) ELSE m1

(* headerReceived(h), h = [t |-> token, f |-> a continuation line was appended].  [ok, m]. *)
HeaderRecv(m, h) ==
    LET fail == [ok |-> FALSE, m |-> [Bad(m) EXCEPT !.len = 1]]          \* _failChooseTransferDecoder (length = None)
        keep(mm) == [ok |-> TRUE, m |-> [mm EXCEPT !.hs = Append(@, h)]]
    IN IF h.t \notin FieldTokens THEN [ok |-> FALSE, m |-> Bad(m)]       \* no colon / invalid name
       ELSE IF h.t \in {"HC0", "HC1", "HC2", "HCB"} THEN
            (IF h.t = "HCB" \/ h.f THEN fail                             \* not all digits
             ELSE IF m.dec # NoDec THEN fail                             \* a decoder was already chosen
             ELSE keep([m EXCEPT !.len = ClOf(h.t), !.dec = [NoDec EXCEPT !.k = "id", !.rem = ClOf(h.t)]]))
       ELSE IF h.t \in {"HTC", "HTX"} THEN
            (IF h.t = "HTX" \/ h.f THEN fail
             ELSE IF m.dec # NoDec THEN fail
             ELSE keep([m EXCEPT !.len = 1, !.dec = [NoDec EXCEPT !.k = "ch", !.st = "LEN"]]))
       ELSE keep(m)

Expect100(m) == m.ver = "RL11" /\ HasTok(m.hs, "HEX")

(* HTTPChannel.lineReceived(c), c = Kind of the line. *)
LineRecv(m, c) ==
    IF m.noop THEN m
    ELSE IF m.fl # 0 THEN
        (IF ~m.persistent THEN [m EXCEPT !.noop = TRUE]
         ELSE IF c = "EMPTY" /\ m.fl = 1 THEN [m EXCEPT !.fl = 2]
         ELSE IF c \in {"RL11", "RL10"} THEN [m EXCEPT !.fl = 0, !.ver = c]
         ELSE Bad([m EXCEPT !.fl = 0]))
    ELSE IF c = "EMPTY" THEN
        LET hr == IF m.hdr = NoHdr THEN [ok |-> TRUE, m |-> m] ELSE HeaderRecv(m, m.hdr) IN
        IF ~hr.ok THEN hr.m
        ELSE LET m1 == [hr.m EXCEPT !.hdr = NoHdr]
                 m2 == [m1 EXCEPT !.persistent = (m1.ver = "RL11" /\ ~HasTok(m1.hs, "HCC")),
                                  !.out = IF Expect100(m1) THEN Append(@, [k |-> "100"]) ELSE @]
             IN IF m2.len = 0 THEN AllContent(m2) ELSE [m2 EXCEPT !.line = FALSE]
    ELSE IF c = "HF" THEN
        [m EXCEPT !.hdr = IF m.hdr = NoHdr THEN [t |-> "F", f |-> TRUE] ELSE [m.hdr EXCEPT !.f = TRUE]]
    ELSE LET m1 == IF m.hdr = NoHdr THEN m ELSE HeaderRecv(m, m.hdr).m      \* result ignored for a non-final header
         IN [m1 EXCEPT !.hdr = [t |-> c, f |-> FALSE]]

(* _ChunkedTransferDecoder.dataReceived loop (CR LF of the chunk framing is one unit here; C22 covers its bytes). *)
RECURSIVE ChunkLoop(_)
ChunkLoop(m) ==
    LET d == m.dec IN
    IF d.cbuf = <<>> THEN m
    ELSE IF d.st = "LEN" THEN
        LET i == IndexOf(NL, d.cbuf) IN
        IF i = 0 THEN m
        ELSE LET c == Kind(SubSeq(d.cbuf, 1, i - 1))
                 rest == After(d.cbuf, i)
             IN IF c = "K0" THEN ChunkLoop([m EXCEPT !.dec.st = "TRAILER", !.dec.cbuf = rest])
                ELSE IF c = "K1" THEN ChunkLoop([m EXCEPT !.dec.st = "BODY", !.dec.rem = 1, !.dec.cbuf = rest])
                ELSE Bad(m)
    ELSE IF d.st = "BODY" THEN
        (IF Len(d.cbuf) >= d.rem
         THEN ChunkLoop([m EXCEPT !.body = @ \o SubSeq(d.cbuf, 1, d.rem), !.dec.cbuf = After(d.cbuf, d.rem), !.dec.st = "CRLF"])
         ELSE ChunkLoop([m EXCEPT !.body = @ \o d.cbuf, !.dec.rem = @ - Len(d.cbuf), !.dec.cbuf = <<>>]))
    ELSE IF d.st = "CRLF" THEN
        (IF d.cbuf[1] = NL THEN ChunkLoop([m EXCEPT !.dec.st = "LEN", !.dec.cbuf = Tail(d.cbuf)]) ELSE Bad(m))
    ELSE IF d.st = "TRAILER" THEN
        LET i == IndexOf(NL, d.cbuf) IN
        IF i = 0 THEN m
        ELSE IF i > 1 THEN ChunkLoop([m EXCEPT !.dec.cbuf = After(d.cbuf, i)])       \* a trailer field: collected, ignored
        ELSE AllContent([m EXCEPT !.dbuf = @ \o After(d.cbuf, 1), !.dec.st = "FIN", !.dec.cbuf = <<>>])   \* _finishRequestBody(rest)
    ELSE m

(* HTTPChannel.rawDataReceived(data) *)
RawRecv(m, data) ==
    IF m.handling THEN [m EXCEPT !.dbuf = @ \o data]
    ELSE IF m.dec.k = "id" THEN
        (IF Len(data) < m.dec.rem THEN [m EXCEPT !.dec.rem = @ - Len(data), !.body = @ \o data]
         ELSE LET n == m.dec.rem IN
              AllContent([m EXCEPT !.body = @ \o SubSeq(data, 1, n), !.dbuf = @ \o After(data, n), !.dec.rem = 0]))
    ELSE ChunkLoop([m EXCEPT !.dec.cbuf = @ \o data])

(* LineReceiver.dataReceived's while loop (line length limits are not modelled). *)
Loop(m) ==
    IF m.buf = <<>> THEN m
    ELSE IF m.line THEN
        LET i == IndexOf(NL, m.buf) IN
        IF i = 0 THEN m
        ELSE LET m1 == LineRecv([m EXCEPT !.buf = After(m.buf, i)], Kind(SubSeq(m.buf, 1, i - 1)))
             IN IF m1.disc THEN m1 ELSE Loop(m1)            \* "if why or self.transport.disconnecting: return"
    ELSE Loop(RawRecv([m EXCEPT !.buf = <<>>], m.buf))

DataRecv(m, data) == IF m.noop THEN m ELSE Loop([m EXCEPT !.buf = @ \o data])

\* the same units one at a time; a real transport delivers nothing after the server asked to close
RECURSIVE Feed1(_, _)
Feed1(m, data) == IF data = <<>> \/ m.disc THEN m ELSE Feed1(DataRecv(m, <<Head(data)>>), Tail(data))

(* HTTPChannel.connectionLost: every request still in the channel gets connectionLost(reason). *)
ConnLost(m) == [m EXCEPT !.lost = TRUE,
                         !.nlog = IF m.active # 0 THEN @ \o [d \in 1..cfg.nd |-> <<m.active, d, "fail">>] ELSE @]

-----------------------------------------------------------------------------
(* What the client sends next.  The grammar of the explored streams is driven by the parse state
   of R (the unit-at-a-time machine): at every position the client may send the items that are
   valid there AND the malformed / misplaced ones of the property's list (an empty line or a
   malformed line where a request line is expected; a continuation line, a line without colon,
   conflicting / repeated / non-numeric framing fields among the field lines; body octets that
   look like a request or a line end; chunk-size garbage, a missing CR LF after chunk data;
   pipelined data while the application holds a request), restricted to cfg.units.           *)
Allowed(r) ==
    cfg.units \cap
    (IF r.disc \/ r.noop THEN {}
     ELSE IF r.handling THEN (IF r.dbuf # <<>> /\ r.dbuf[Len(r.dbuf)] # NL THEN {NL} ELSE {"RL11", "RL10", NL, "HC1", "B"})
     ELSE IF r.line THEN
          (IF r.buf # <<>> THEN {NL}
           ELSE IF r.fl # 0 THEN {"RL11", "RL10", "RLB", NL}
           ELSE FieldTokens \cup {NL, "HF", "HNC"})
     ELSE IF r.dec.k = "id" THEN {"B", NL, "RL11"}
     ELSE IF r.dec.st = "LEN" THEN (IF r.dec.cbuf = <<>> THEN {"K0", "K1", "KB"} ELSE {NL})
     ELSE IF r.dec.st = "BODY" THEN {"B", NL}
     ELSE IF r.dec.st = "CRLF" THEN {NL, "B"}
     ELSE IF r.dec.st = "TRAILER" THEN (IF r.dec.cbuf = <<>> THEN {NL, "HP"} ELSE {NL})
     ELSE {})
\* the deliveries of up to d units the client can make from R's state
RECURSIVE Plaus(_, _)
Plaus(r, d) ==
    IF d = 0 THEN {}
    ELSE UNION {{<<u>>} \cup {<<u>> \o t : t \in Plaus(DataRecv(r, <<u>>), d - 1)} : u \in Allowed(r)}

(* The client's next units arrive in one delivery of up to cfg.maxd units -- the cut falls
   anywhere (inside a line, before its NL, inside a body, between requests).                *)
Deliver(data) ==
    /\ ~M.lost /\ ~M.disc
    /\ M' = DataRecv(M, data)
    /\ R' = Feed1(R, data)
    /\ sent' = sent + Len(data)
    /\ UNCHANGED cfg

\* a resource that answers later finishes now (outside any dataReceived call)
FinishLater ==
    /\ ~M.lost /\ M.active # 0
    /\ M' = Finish(M, FALSE)
    /\ R' = IF R.active # 0 THEN Finish(R, FALSE) ELSE R
    /\ UNCHANGED <<cfg, sent>>

Lose ==
    /\ ~M.lost
    /\ M' = ConnLost(M) /\ R' = ConnLost(R)
    /\ UNCHANGED <<cfg, sent>>

Next == \/ \E data \in Plaus(R, cfg.maxd) : Deliver(data)
        \/ FinishLater
        \/ Lose

-----------------------------------------------------------------------------
(* C18: the outputs (requests with all their parts, interim / error / final responses, in
   order), the closure and the notifications are a function of the consumed prefix.        *)
SegInv == M.out = R.out /\ M.disc = R.disc /\ M.nlog = R.nlog

(* C19 on the machine's outputs. *)
Reqs(o) == SelectSeq(o, LAMBDA x : x.k = "req")
NothingAfter400 == \A i \in 1..Len(M.out) : M.out[i].k = "400" => i = Len(M.out)
ClToks(hs) == SelectSeq(hs, LAMBDA h : h.t \in {"HC0", "HC1", "HC2", "HCB"})
WellFramed(q) ==
    /\ \A i \in 1..Len(q.hs) : q.hs[i].t \in FieldTokens \ {"HCB", "HTX"}                     \* only valid field lines
    /\ ~(ClToks(q.hs) # <<>> /\ HasTok(q.hs, "HTC"))                                         \* never both
    /\ Len(ClToks(q.hs)) <= 1                                                                 \* never repeated
    /\ \A i \in 1..Len(q.hs) : q.hs[i].t \in {"HC0", "HC1", "HC2", "HTC"} => ~q.hs[i].f       \* framing fields never folded
    /\ ClToks(q.hs) # <<>> => Len(q.body) = ClOf(ClToks(q.hs)[1].t)                          \* body = Content-Length octets
    /\ (ClToks(q.hs) = <<>> /\ ~HasTok(q.hs, "HTC")) => q.body = <<>>                         \* no framing field: no body
    /\ HasTok(q.hs, "HTC") => \A i \in 1..Len(q.body) : q.body[i] # "K0"                      \* chunk framing never in the body
DeliveredWellFramed == \A i \in 1..Len(M.out) : M.out[i].k = "req" => WellFramed(M.out[i])
Closing(q) == q.v # "RL11" \/ HasTok(q.hs, "HCC")
NothingAfterClose ==
    \A i, j \in 1..Len(M.out) : (i < j /\ M.out[i].k = "req" /\ Closing(M.out[i])) => M.out[j].k = "resp"

(* C21 on the machine's outputs. *)
OneAtATime ==
    \A i, j \in 1..Len(M.out) : (i < j /\ M.out[i].k = "req" /\ M.out[j].k = "req") =>
        \E x \in (i + 1)..(j - 1) : M.out[x].k = "resp" /\ M.out[x].r = M.out[i].r
RespInOrder ==
    /\ \A i \in 1..Len(M.out) : M.out[i].k = "resp" =>
          \E j \in 1..(i - 1) : M.out[j].k = "req" /\ M.out[j].r = M.out[i].r
    /\ \A i, j \in 1..Len(M.out) : (i < j /\ M.out[i].k = "resp" /\ M.out[j].k = "resp") => M.out[i].r < M.out[j].r
    /\ \A i \in 1..Len(M.out) : M.out[i].k = "req" => M.out[i].r = Len(Reqs(SubSeq(M.out, 1, i)))
Count(o, k) == Len(SelectSeq(o, LAMBDA x : x.k = k))
NoInterimInsideResponse ==      \* "100 Continue" / 400 never between a request's hand-over and its response
    \A i \in 1..Len(M.out) : M.out[i].k \in {"100", "400"} =>
        Count(SubSeq(M.out, 1, i), "req") = Count(SubSeq(M.out, 1, i), "resp")
Responded(r) == \E i \in 1..Len(M.out) : M.out[i].k = "resp" /\ M.out[i].r = r
NotifyOnce ==
    /\ \A i, j \in 1..Len(M.nlog) : (i # j) => ~(M.nlog[i][1] = M.nlog[j][1] /\ M.nlog[i][2] = M.nlog[j][2])
    /\ \A i \in 1..Len(M.nlog) :
          /\ M.nlog[i][3] = "none" => Responded(M.nlog[i][1])
          /\ M.nlog[i][3] = "fail" => (M.lost /\ ~Responded(M.nlog[i][1]))
NotifyComplete ==       \* every Deferred of a finished or interrupted request has fired
    \A r \in 1..M.nreq : (Responded(r) \/ (M.lost /\ r = M.active)) =>
        \A d \in 1..cfg.nd : \E i \in 1..Len(M.nlog) : M.nlog[i][1] = r /\ M.nlog[i][2] = d
Handled == M.active # 0 => M.handling       \* the channel knows it is blocked while the application holds a request
=============================================================================
