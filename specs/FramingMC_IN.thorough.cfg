SPECIFICATION MCSpec
CONSTANT L = 6
CONSTANT Kind = "IN"
VIEW View
INVARIANT Ok
INVARIANT Inv
CHECK_DEADLOCK FALSE
