------------------------------- MODULE H2Flow -------------------------------
(* C29 -- twisted.web._http2.H2Connection: flow control and per-stream integrity of
   response bodies, as seen by the peer.

   State = what the property talks about: the send windows the peer has granted
   (connection and per stream), what the application has written / finished on each
   stream, what has been sent in DATA frames.  One action per peer frame, per
   application call and per frame the server emits.  Which stream sends next, how
   a write is cut into frames and when frames are emitted are left free (the
   property does not constrain scheduling); the strict clauses are
     * every DATA frame fits the connection window, the stream window and the
       peer's maximum frame size (NoOvershoot, guards of SendData),
     * the frames of a stream carry the bytes the application wrote, in order,
       without gaps or repeats, END_STREAM only after all of them (off = sent[s]),
     * progress: when the scheduler is idle no stream is sendable (Quiesce), and in
       the fair model every sendable stream eventually sends (Resume).
   cfg is a variable so that one TLC run covers / validates all configurations.  *)
EXTENDS Naturals, Integers, Sequences, FiniteSets

VARIABLES cfg,        \* [ns, connWin0, initWin0, maxFrame0]
          connWin,    \* connection send window granted by the peer (may be < 0 never; stream windows may)
          strWin,     \* [1..ns -> Int] per-stream send window
          nOpen,      \* streams 1..nOpen have been opened by the peer
          written,    \* [1..ns -> Nat] bytes the application wrote
          sent,       \* [1..ns -> Nat] bytes sent in DATA frames
          finished,   \* [1..ns -> BOOLEAN] application called finish()
          ended,      \* [1..ns -> BOOLEAN] END_STREAM sent
          initWin,    \* peer's current SETTINGS_INITIAL_WINDOW_SIZE
          maxFrame,   \* peer's current SETTINGS_MAX_FRAME_SIZE
          last        \* observable of the last action

vars == <<cfg, connWin, strWin, nOpen, written, sent, finished, ended, initWin, maxFrame, last>>

Streams == 1..cfg.ns
Opened(s) == s <= nOpen
Queue(s) == written[s] - sent[s]
Min(a, b) == IF a < b THEN a ELSE b
Win(s) == Min(connWin, strWin[s])

InitWith(c) ==
    /\ cfg = c
    /\ connWin = c.connWin0 /\ initWin = c.initWin0 /\ maxFrame = c.maxFrame0
    /\ strWin = [s \in 1..c.ns |-> 0]
    /\ nOpen = 0
    /\ written = [s \in 1..c.ns |-> 0] /\ sent = [s \in 1..c.ns |-> 0]
    /\ finished = [s \in 1..c.ns |-> FALSE] /\ ended = [s \in 1..c.ns |-> FALSE]
    /\ last = [e |-> "init"]

(* ---- peer ---- *)
Open ==      \* HEADERS (END_STREAM) for the next stream
    /\ nOpen < cfg.ns
    /\ nOpen' = nOpen + 1
    /\ strWin' = [strWin EXCEPT ![nOpen + 1] = initWin]
    /\ last' = [e |-> "open", s |-> nOpen + 1]
    /\ UNCHANGED <<cfg, connWin, written, sent, finished, ended, initWin, maxFrame>>

WindowUpdate(s, n) ==     \* s = 0: connection
    /\ n >= 1
    /\ IF s = 0 THEN /\ connWin' = connWin + n /\ UNCHANGED strWin
                ELSE /\ Opened(s) /\ ~ended[s]
                     /\ strWin' = [strWin EXCEPT ![s] = @ + n] /\ UNCHANGED connWin
    /\ last' = [e |-> "wu", s |-> s, n |-> n]
    /\ UNCHANGED <<cfg, nOpen, written, sent, finished, ended, initWin, maxFrame>>

Settings(iw, mf) ==       \* RFC 7540 6.9.2: the difference applies to every open stream; windows may go negative
    /\ iw >= 0 /\ mf >= 1
    /\ strWin' = [s \in Streams |-> IF Opened(s) /\ ~ended[s] THEN strWin[s] + (iw - initWin) ELSE strWin[s]]
    /\ initWin' = iw /\ maxFrame' = mf
    /\ last' = [e |-> "settings", iw |-> iw, mf |-> mf]
    /\ UNCHANGED <<cfg, connWin, nOpen, written, sent, finished, ended>>

(* ---- application ---- *)
AppWrite(s, n) ==
    /\ Opened(s) /\ ~finished[s] /\ n >= 1
    /\ written' = [written EXCEPT ![s] = @ + n]
    /\ last' = [e |-> "write", s |-> s, n |-> n]
    /\ UNCHANGED <<cfg, connWin, strWin, nOpen, sent, finished, ended, initWin, maxFrame>>

AppFinish(s) ==
    /\ Opened(s) /\ ~finished[s]
    /\ finished' = [finished EXCEPT ![s] = TRUE]
    /\ last' = [e |-> "finish", s |-> s]
    /\ UNCHANGED <<cfg, connWin, strWin, nOpen, written, sent, ended, initWin, maxFrame>>

(* ---- server output ---- *)
SendData(s, n) ==         \* one DATA frame carrying bytes sent[s] .. sent[s]+n-1 of the stream
    /\ Opened(s) /\ ~ended[s]
    /\ n >= 0 /\ n <= Queue(s)
    /\ n <= connWin /\ n <= strWin[s] /\ n <= maxFrame
    /\ sent' = [sent EXCEPT ![s] = @ + n]
    /\ connWin' = connWin - n
    /\ strWin' = [strWin EXCEPT ![s] = @ - n]
    /\ last' = [e |-> "data", s |-> s, n |-> n, off |-> sent[s]]
    /\ UNCHANGED <<cfg, nOpen, written, finished, ended, initWin, maxFrame>>

SendEnd(s) ==             \* END_STREAM: only once everything written has been sent
    /\ Opened(s) /\ ~ended[s] /\ finished[s] /\ Queue(s) = 0
    /\ ended' = [ended EXCEPT ![s] = TRUE]
    /\ last' = [e |-> "end", s |-> s]
    /\ UNCHANGED <<cfg, connWin, strWin, nOpen, written, sent, finished, initWin, maxFrame>>

(* a stream the server could make progress on *)
Sendable(s) ==
    /\ Opened(s) /\ ~ended[s]
    /\ \/ Queue(s) > 0 /\ Win(s) > 0
       \/ Queue(s) = 0 /\ finished[s]

(* the server's scheduler has nothing left to run: allowed only if no stream is sendable *)
Quiesce ==
    /\ \A s \in Streams : ~Sendable(s)
    /\ last' = [e |-> "quiesce"]
    /\ UNCHANGED <<cfg, connWin, strWin, nOpen, written, sent, finished, ended, initWin, maxFrame>>

(* end of a run in which the driver opened all windows and finished every stream *)
AllDone ==
    /\ \A s \in Streams : Opened(s) => (ended[s] /\ sent[s] = written[s])
    /\ last' = [e |-> "alldone"]
    /\ UNCHANGED <<cfg, connWin, strWin, nOpen, written, sent, finished, ended, initWin, maxFrame>>

SendAny == (\E s \in Streams : \E n \in 1..Min(maxFrame, Queue(s)) : SendData(s, n)) \/ (\E s \in Streams : SendEnd(s))

-----------------------------------------------------------------------------
(* The property (safety part). *)
NoOvershoot ==   \* windows never overdrawn by sending: a window is negative only through a SETTINGS reduction
    /\ connWin >= 0
    /\ \A s \in Streams : sent[s] <= written[s]
InOrderComplete ==
    \A s \in Streams : /\ ended[s] => (finished[s] /\ sent[s] = written[s])
                       /\ ~Opened(s) => (written[s] = 0 /\ sent[s] = 0 /\ ~finished[s] /\ ~ended[s])
Inv == NoOvershoot /\ InOrderComplete
=============================================================================
