SPECIFICATION RTSpec
INVARIANT RoundTrip
CHECK_DEADLOCK FALSE
