------------------------------- MODULE TeamMC -------------------------------
(* Exhaustive TLC run: all schedules of public calls, coordinator steps and worker steps within the bounds. *)
EXTENDS Team, TLC
CONSTANTS MaxT, MaxG, MaxS, MaxL, MaxQ, Depth
Init == \E L \in 0..2 : InitWith([limit |-> L, inline |-> FALSE])
Spec == Init /\ [][Next]_vars
Bound == /\ nT <= MaxT /\ cnt.g <= MaxG /\ cnt.s <= MaxS /\ cnt.l <= MaxL /\ cnt.q <= MaxQ
         /\ TLCGet("level") <= Depth
View == <<cfg, limit, quitF, cq, cquit, idle, busy, pend, toShrink, shouldQuit, nW, wq, wquit, nT, accepted, runs, createOk, err, cnt>>
=============================================================================
