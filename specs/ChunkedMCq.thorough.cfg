SPECIFICATION MCSpec
CONSTANT L = 5
CONSTANT Mode = "quoted"
VIEW View
INVARIANT Ok
INVARIANT Inv
CHECK_DEADLOCK FALSE
