SPECIFICATION SSpec
CONSTANT L = 9
CONSTANT Kind = "LO"
CONSTANT LOBound = "repaired"
CONSTANT Depth = 13
CONSTRAINT Emit
CONSTRAINT Stop
CHECK_DEADLOCK FALSE
