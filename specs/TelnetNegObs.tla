---------------------------- MODULE TelnetNegObs ----------------------------
(* C39 -- the property, stated over OBSERVABLE events only (Abs layer).

   An execution of two telnet endpoints (1 and 2) is a sequence of events:
     req     endpoint p calls will/wont/do/dont(o); the call returns the Deferred
             numbered id; `sent` = negotiation messages p wrote, `fired` = the
             <<id, result>> pairs of request Deferreds that fired during the call,
             `exc` = class name of an exception escaping the call ("" = none)
     recv    the oldest in-flight message m = <<cmd, o>> is delivered to p
     quiet   no message is in flight; st[e][o] = <<enabled on e's side as seen by e,
             enabled on the peer's side as seen by e>>
     overrun the driver gave up delivering: negotiation did not terminate
   The observer state `obs` is the set of in-flight messages (FIFO per direction),
   the fired/unfired status of every request Deferred, and `viol`, the set of
   clauses of the property the execution has broken so far.  The property is
   obs.viol = {}.                                                            *)
EXTENDS Naturals, Sequences, FiniteSets

Other(e) == 3 - e

ObsInit == [chan |-> << <<>>, <<>> >>,   \* chan[e] = messages in flight TO endpoint e
            status |-> <<>>,             \* status[id] \in {"pending", "done"}
            msgs |-> 0,                  \* messages written so far
            viol |-> {}]

Flag(o, cond, name) == IF cond THEN [o EXCEPT !.viol = @ \cup {name}] ELSE o

(* "every request's Deferred fires exactly once": a fired id must be a pending request *)
RECURSIVE FireAll(_, _)
FireAll(o, fs) ==
    IF fs = <<>> THEN o
    ELSE LET id == Head(fs)[1]
             o1 == IF id \in 1..Len(o.status) /\ o.status[id] = "pending"
                   THEN [o EXCEPT !.status[id] = "done"]
                   ELSE Flag(o, TRUE, "fired-twice-or-unknown")
         IN FireAll(o1, Tail(fs))

Pending(o) == {i \in 1..Len(o.status) : o.status[i] = "pending"}

Agree(st, nopt) == \A op \in 1..nopt : /\ st[1][op][1] = st[2][op][2]
                                        /\ st[1][op][2] = st[2][op][1]

Observe(o, c, ev) ==
    CASE ev.e = "req" ->
           LET o0 == Flag(Flag(Flag(o, ev.id # Len(o.status) + 1, "harness-id"),
                               \/ (ev.k = "will" /\ ~c.accL[ev.p][ev.o])
                               \/ (ev.k = "do" /\ ~c.accR[ev.p][ev.o]), "harness-premise"),
                          ev.exc # "", "exception")
               o1 == [o0 EXCEPT !.status = Append(@, "pending"),
                                !.chan[Other(ev.p)] = @ \o ev.sent,
                                !.msgs = @ + Len(ev.sent)]
           IN FireAll(o1, ev.fired)
      [] ev.e = "recv" ->
           LET ok == o.chan[ev.p] # <<>> /\ Head(o.chan[ev.p]) = ev.m
               o0 == Flag(Flag(o, ~ok, "harness-fifo"), ev.exc # "", "exception")
               o1 == [o0 EXCEPT !.chan[ev.p] = IF o.chan[ev.p] = <<>> THEN <<>> ELSE Tail(o.chan[ev.p])]
               o2 == [o1 EXCEPT !.chan[Other(ev.p)] = @ \o ev.sent, !.msgs = @ + Len(ev.sent)]
           IN FireAll(o2, ev.fired)
      [] ev.e = "quiet" ->
           Flag(Flag(Flag(o, o.chan[1] # <<>> \/ o.chan[2] # <<>>, "harness-quiet"),
                     Pending(o) # {}, "request-never-fired"),
                ~Agree(ev.st, c.nopt), "sides-disagree")
      [] ev.e = "overrun" -> Flag(o, TRUE, "no-termination")
      [] OTHER -> Flag(o, TRUE, "harness-unknown-event")
=============================================================================
