------------------------------ MODULE ProxyHdrMC ------------------------------
(* Exhaustive check of ProxyHdr: header descriptors ranging over the nibbles of the v2 version/command
   and family/protocol bytes (valid and invalid values), declared lengths below / at / above each
   family's address block, damaged signatures; v1 lines over protocol words, address/port classes,
   missing and extra fields, damaged "PROXY ", over-long lines; no header at all -- each with three
   following bytes, EVERY segmentation of the stream and every admissible close timing.  The module
   ProxyHdr classifies each descriptor; the buffering design must stay inside the relation.      *)
EXTENDS ProxyHdr, TLC
CONSTANTS CN, FN, PN, LENS      \* nibble values and declared lengths enumerated for v2 (quick / thorough sets)

A(t, h, p) == <<t, h, p>>
RP == A("TCP", "10.0.0.2", "4321")
RH == A("TCP", "10.0.0.1", "1234")
S == A("TCP", "1.2.3.4", "1111")
D == A("TCP", "5.6.7.8", "2222")
NoV2 == [sigbad |-> 0, vn |-> 0, cn |-> 0, fn |-> 0, pn |-> 0, len |-> 0]
NoV1 == [w |-> 0, line |-> 0, toks |-> <<>>]
R3 == <<1, 2, 3>>

C2(sb, vn, cn, fn, pn, len) ==
    [ver |-> 2, v2 |-> [sigbad |-> sb, vn |-> vn, cn |-> cn, fn |-> fn, pn |-> pn, len |-> len], v1 |-> NoV1,
     src |-> S, dst |-> D, rpeer |-> RP, rhost |-> RH, rest |-> R3, total |-> 16 + len + 3]

T(c, p) == [cls |-> c, pos |-> p]
\* a v1 line "PROXY " + tokens of 4 bytes each separated by one space + CRLF
Toks(cs) == [j \in 1..Len(cs) |-> T(cs[j], 7 + 5 * (j - 1))]
LineLen(cs) == 6 + 5 * Len(cs) - 1 + 2
C1(w, cs, line) ==
    [ver |-> 1, v2 |-> NoV2, v1 |-> [w |-> w, line |-> line, toks |-> Toks(cs)],
     src |-> S, dst |-> D, rpeer |-> RP, rhost |-> RH, rest |-> R3,
     total |-> (IF line = 0 THEN 120 ELSE line) + 3]

V2Configs ==
         {C2(0, 2, cn, fn, pn, len) : cn \in CN, fn \in FN, pn \in PN, len \in LENS}
    \cup {C2(0, 2, 1, 3, pn, len) : pn \in {1, 2}, len \in {215, 216}}
    \cup {C2(0, vn, 1, 1, 1, 12) : vn \in {0, 1, 3, 15}}
    \cup {C2(sb, 2, 1, 1, 1, 12) : sb \in {2, 12}}

Words == {"TCP4", "TCP6", "UNKNOWN", "junk"}
Fields == {"ip4", "ip6", "port", "junk", "empty"}
V1Configs ==
         {C1(0, <<p>>, LineLen(<<p>>)) : p \in Words}
    \cup {C1(0, <<p, a>>, LineLen(<<p, a>>)) : p \in Words, a \in Fields}
    \cup {C1(0, <<p, a, b, "port", q>>, LineLen(<<p, a, b, "port", q>>)) :
              p \in {"TCP4", "TCP6"}, a \in {"ip4", "ip6", "junk"}, b \in {"ip4", "ip6"}, q \in {"port", "junk"}}
    \cup {C1(0, <<p, "ip4", "ip4", "port", "port", x>>, LineLen(<<p, "ip4", "ip4", "port", "port", x>>)) :
              p \in {"TCP4", "UNKNOWN"}, x \in {"junk", "empty"}}
    \cup {C1(w, <<"TCP4", "ip4", "ip4", "port", "port">>, 33) : w \in {2, 6}}
    \cup {C1(0, <<"UNKNOWN">>, l) : l \in {15, 107, 108, 0}}
    \cup {C1(0, <<"TCP4", "ip4", "ip4", "port", "port">>, 0)}

Garbage == [ver |-> 0, v2 |-> NoV2, v1 |-> NoV1, src |-> S, dst |-> D, rpeer |-> RP, rhost |-> RH,
            rest |-> <<>>, total |-> 40]

Configs == V2Configs \cup V1Configs \cup {Garbage}

Init == \E c \in Configs : InitWith(c)
\* one named action per kind of step, so that the coverage report shows none of them is vacuous
DeliverValidPartial == \E k \in 1..(cfg.total - consumed) : Valid /\ consumed + k < cfg.total /\ Deliver(k, FALSE)
DeliverValidLast    == \E k \in 1..(cfg.total - consumed) : Valid /\ consumed + k = cfg.total /\ Deliver(k, FALSE)
DeliverInvalidOpen  == \E k \in 1..(cfg.total - consumed) : ~Valid /\ Deliver(k, FALSE)
DeliverInvalidEarly == \E k \in 1..(cfg.total - consumed) : ~Valid /\ consumed + k < Dec /\ Deliver(k, TRUE)
DeliverInvalidClose == \E k \in 1..(cfg.total - consumed) : ~Valid /\ consumed + k >= Dec /\ Deliver(k, TRUE)
Next == DeliverValidPartial \/ DeliverValidLast \/ DeliverInvalidOpen \/ DeliverInvalidEarly \/ DeliverInvalidClose
Spec == Init /\ [][Next]_vars
View == <<cfg, consumed, delivered, closed, mst>>

\* the classification itself, spot-checked against the PROXY protocol specification's tables
ClassifyOK ==
    /\ (cfg.ver = 2 /\ V2.sigbad = 0 /\ V2.vn = 2 /\ V2.cn = 0 => Valid /\ ~HasAddr)                      \* LOCAL: always valid
    /\ (cfg.ver = 2 /\ V2.sigbad = 0 /\ V2.vn = 2 /\ V2.cn = 1 /\ (V2.fn > 3 \/ V2.pn > 2) => ~Valid)    \* undefined nibble
    /\ (cfg.ver = 2 /\ V2.cn > 1 => ~Valid)
    /\ (cfg.ver = 2 /\ Valid /\ HasAddr => V2.len >= AddrLen(V2.fn))
    /\ (cfg.ver = 1 /\ Valid => V1.line \in 1..107 /\ V1.w = 0)
    /\ (cfg.ver = 1 /\ Valid /\ HasAddr => NT = 5)
    /\ (cfg.ver = 0 => ~Valid)
=============================================================================
