------------------------------ MODULE ProxyHdrMC ------------------------------
(* Exhaustive check of ProxyHdr: every header kind below (real lengths, because the decision points
   depend on them), three payload bytes, EVERY segmentation of the stream, every admissible close
   timing.  The design machine must stay inside the relation (MachineOK).                      *)
EXTENDS ProxyHdr, TLC

A(t, h, p) == <<t, h, p>>
RP == A("TCP", "10.0.0.2", "4321")
RH == A("TCP", "10.0.0.1", "1234")
S4 == A("TCP", "1.2.3.4", "1111")   D4 == A("TCP", "5.6.7.8", "2222")
S6 == A("TCP", "::1", "1111")       D6 == A("TCP", "::2", "2222")
SU == A("UNIX", "/a", "")           DU == A("UNIX", "/b", "")
NA == A("", "", "")

Valid(ver, hlen, hasaddr, s, d) ==
    [valid |-> TRUE, ver |-> ver, hlen |-> hlen, hasaddr |-> hasaddr, src |-> s, dst |-> d,
     rpeer |-> RP, rhost |-> RH, bad |-> 0, dec |-> 0, payload |-> <<1, 2, 3>>, total |-> hlen + 3]
Invalid(ver, bad, dec, total) ==
    [valid |-> FALSE, ver |-> ver, hlen |-> 0, hasaddr |-> FALSE, src |-> NA, dst |-> NA,
     rpeer |-> RP, rhost |-> RH, bad |-> bad, dec |-> dec, payload |-> <<>>, total |-> total]

Configs ==
    {  Valid(1, 32, TRUE, S4, D4),      \* PROXY TCP4, short
       Valid(1, 56, TRUE, S4, D4),      \* PROXY TCP4, longest
       Valid(1, 104, TRUE, S6, D6),     \* PROXY TCP6, longest
       Valid(1, 15, FALSE, NA, NA),     \* "PROXY UNKNOWN\r\n"
       Valid(1, 107, FALSE, NA, NA),    \* PROXY UNKNOWN, longest allowed line
       Valid(2, 16, FALSE, NA, NA),     \* v2 LOCAL, no address block
       Valid(2, 28, TRUE, S4, D4),      \* v2 PROXY INET
       Valid(2, 35, TRUE, S4, D4),      \* v2 PROXY INET + one TLV
       Valid(2, 52, TRUE, S6, D6),      \* v2 PROXY INET6
       Valid(2, 232, TRUE, SU, DU),     \* v2 PROXY UNIX
       Valid(2, 21, FALSE, NA, NA) }    \* v2 PROXY UNSPEC with 5 ignored bytes
  \cup
    {  Invalid(0, 1, 16, 40),           \* not a PROXY stream at all
       Invalid(1, 5, 30, 40),           \* "PROXZ ..." line of 30 bytes
       Invalid(1, 10, 30, 40),          \* unknown protocol word
       Invalid(1, 20, 20, 40),          \* TCP4 line ending after the first address
       Invalid(1, 108, 108, 140),       \* no CRLF within 107 bytes
       Invalid(2, 3, 16, 40),           \* signature damaged at byte 3
       Invalid(2, 12, 16, 40),          \* signature damaged at byte 12
       Invalid(2, 13, 16, 40),          \* version nibble not 2
       Invalid(2, 13, 28, 40),          \* command nibble not LOCAL/PROXY
       Invalid(2, 14, 28, 40),          \* family / protocol nibble undefined
       Invalid(2, 16, 24, 40) }         \* declared length shorter than the family's address block

Init == \E c \in Configs : InitWith(c)
\* one named action per kind of step, so that the coverage report shows none of them is vacuous
DeliverValidPartial == \E k \in 1..(cfg.total - consumed) : cfg.valid /\ consumed + k < cfg.total /\ Deliver(k, FALSE)
DeliverValidLast    == \E k \in 1..(cfg.total - consumed) : cfg.valid /\ consumed + k = cfg.total /\ Deliver(k, FALSE)
DeliverInvalidOpen  == \E k \in 1..(cfg.total - consumed) : ~cfg.valid /\ Deliver(k, FALSE)
DeliverInvalidEarly == \E k \in 1..(cfg.total - consumed) : ~cfg.valid /\ consumed + k < cfg.dec /\ Deliver(k, TRUE)
DeliverInvalidClose == \E k \in 1..(cfg.total - consumed) : ~cfg.valid /\ consumed + k >= cfg.dec /\ Deliver(k, TRUE)
Next == DeliverValidPartial \/ DeliverValidLast \/ DeliverInvalidOpen \/ DeliverInvalidEarly \/ DeliverInvalidClose
Spec == Init /\ [][Next]_vars
View == <<cfg, consumed, delivered, closed, mst>>
=============================================================================
