---------------------------- MODULE DeferredImplMC ----------------------------
(* Exhaustive TLC run of the coded algorithm in lock step with the interpreter:
   every program of at most Ops operations over at most MaxD Deferreds.        *)
EXTENDS DeferredImpl
CONSTANTS Ops, MaxD, MaxPause, Modes, Plain

Behs(d) == Plain \cup {<<"retdef", t>> : t \in D \ {d}}
PlainFull  == {<<"pass", 0>>, <<"ret", 1>>, <<"raise", 1>>, <<"retfail", 2>>}
PlainSmall == {<<"ret", 1>>, <<"raise", 1>>}
PlainTiny  == {<<"ret", 1>>}

\* operations are offered only while the program is shorter than Ops
More == Len(prog) < Ops
MAddCb   == More /\ \E d \in D : \E b \in Behs(d) : IAdd(d, "cb", b, Thru)
MAddEb   == More /\ \E d \in D : \E b \in Behs(d) : IAdd(d, "eb", Thru, b)
MAddBoth == More /\ \E d \in D : \E b \in Behs(d) : IAdd(d, "both", b, b)
MFireOk  == More /\ \E d \in D : IFire(d, "ok", 1)
MFireErr == More /\ \E d \in D : IFire(d, "err", 1)
MPause   == More /\ \E d \in D : up[d] < MaxPause /\ IPause(d)
MUnpause == More /\ \E d \in D : IUnpause(d)

\* <<fixed, against>> pairs explored in one run
ModesBoth     == {<<FALSE, "known">>, <<TRUE, "abs">>}   \* must hold
ModesCodedAbs == {<<FALSE, "abs">>}                      \* expected to fail: finding F1
Init == \E n \in 1..MaxD, md \in Modes : IInit([nd |-> n, fixed |-> md[1], against |-> md[2]])
Next == \/ MAddCb \/ MAddEb \/ MAddBoth \/ MFireOk \/ MFireErr \/ MPause \/ MUnpause
        \/ Outer \/ Inner \/ After
Spec == Init /\ [][Next]_allvars

View == <<vars, ires, ipaused, icbs, chain, pc, finished, iinv, iran, depth>>
=============================================================================
