----------------------------- MODULE DnsRetryMC -----------------------------
EXTENDS DnsRetry
Init == \E ns \in 1..2, T \in {<<1>>, <<1, 2>>} : InitWith([ns |-> ns, T |-> T, idmax |-> 2])
Spec == Init /\ [][Next]_vars
Sizes == Len(hs) <= 3 /\ Len(jobs) <= 2 /\ Len(conns) <= 2 /\ now <= 14 /\ Len(tq) <= 3
\* breadth: two names, piggy-backing, two TCP connections, every kind of answer
Bound  == Sizes /\ TLCGet("level") <= 6
BoundT == Sizes /\ TLCGet("level") <= 8
\* depth: one job followed through the whole retransmission schedule (ns = 2, T = <<1,2>> needs 9 steps) and the TCP leg
Deep == Len(hs) <= 2 /\ Len(jobs) <= 1 /\ Len(conns) <= 1 /\ Len(tq) <= 1 /\ now <= 20
BoundDeep  == Deep /\ TLCGet("level") <= 13
BoundDeepT == Deep /\ TLCGet("level") <= 18
View == <<cfg, now, hs, jobs, att, timers, rr, conns, up, pend, tq>>
=============================================================================
