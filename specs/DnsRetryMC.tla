----------------------------- MODULE DnsRetryMC -----------------------------
EXTENDS DnsRetry
Init == \E ns \in 1..2, T \in {<<1>>, <<1, 2>>} : InitWith([ns |-> ns, T |-> T, idmax |-> 2])
Spec == Init /\ [][Next]_vars
Bound == /\ Len(hs) <= 3 /\ Len(jobs) <= 2 /\ Len(conns) <= 2 /\ now <= 14 /\ Len(tq) <= 3
         /\ TLCGet("level") <= 8
BoundDeep == Len(hs) <= 2 /\ Len(jobs) <= 1 /\ Len(conns) <= 1 /\ Len(tq) <= 1 /\ now <= 20 /\ TLCGet("level") <= 14
View == <<cfg, now, hs, jobs, att, timers, rr, conns, up, pend, tq>>
=============================================================================
