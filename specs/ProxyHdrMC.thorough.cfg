SPECIFICATION Spec
CONSTANT CN = {0, 1, 2, 15}
CONSTANT FN = {0, 1, 2, 3, 4, 15}
CONSTANT PN = {0, 1, 2, 3, 15}
CONSTANT LENS = {0, 11, 12, 19, 35, 36}
VIEW View
INVARIANT DeliveredOK
INVARIANT ClosedOK
INVARIANT CfgOK
INVARIANT MachineOK
INVARIANT ClassifyOK
CHECK_DEADLOCK FALSE
