------------------------------ MODULE MemCacheMC ------------------------------
(* Exhaustive exploration of MemCache.tla with a small alphabet of commands, answers and cuts.
   maxkey = 2 makes "bbb" a too-long key; keys with b = FALSE are str objects. *)
EXTENDS MemCache
CONSTANTS MaxCmds, MaxLevel, Group
K(s)  == [s |-> s, b |-> TRUE]
KS(s) == [s |-> s, b |-> FALSE]
NoVal == K("")
\* <<kind, keys, val, f, x, cas>>
AllIssues == <<
  {  \* group 1: storage commands and the single get, pipelined
    <<"set",     <<K("a")>>,   K("x\r\ny"), 1, 0, "">>,
    <<"get",     <<K("a")>>,   NoVal, 0, 0, "">>,
    <<"incr",    <<K("a")>>,   NoVal, 2, 0, "">>,
    <<"add",     <<K("bbb")>>, K("v"),      0, 0, "">> },      \* key too long
  {  \* group 2: multi-line answers
    <<"getm",    <<K("a"), K("b")>>, NoVal, 0, 0, "">>,
    <<"getsm",   <<K("b"), K("a"), K("b")>>, NoVal, 0, 0, "">>,
    <<"stats",   <<>>,         NoVal, 0, 0, "">>,
    <<"gets",    <<KS("a")>>,  NoVal, 0, 0, "">> },            \* key of the wrong type
  {  \* group 3: the rest
    <<"cas",     <<K("a")>>,   K(""),       0, 3, "77">>,
    <<"gets",    <<K("a")>>,   NoVal, 0, 0, "">>,
    <<"delete",  <<K("bbb")>>, NoVal, 0, 0, "">>,              \* accepted: delete does not check the length
    <<"version", <<>>,         NoVal, 0, 0, "">>,
    <<"replace", <<K("a")>>,   KS("v"),     0, 0, "">>,        \* value of the wrong type
    <<"getm",    <<K("a"), K("bbb")>>, NoVal, 0, 0, "">> } >>  \* second key too long
MCIssues == AllIssues[Group]

It(k, s, f, c, v, m) == [k |-> k, s |-> s, f |-> f, c |-> c, v |-> v, m |-> m]
L(k) == It(k, "", 0, "", "", 0)
Pair(key, f, cas, v) == <<It("VALUE", key, f, cas, "", Len(v)), It("DATA", "", 0, "", v, 0)>>
Tricky == "E\r\nEND\r\n"        \* a payload that looks like the end of the answer
MCAnswers(c) ==
    {<<L("ERROR")>>, <<It("SERVER_ERROR", "", 0, "", "no", 0)>>} \cup
    CASE c.kind \in (SetKinds \ {"cas"}) -> {<<L("STORED")>>, <<L("NOT_STORED")>>}
      [] c.kind = "cas"     -> {<<L("STORED")>>, <<L("EXISTS")>>}
      [] c.kind \in IncKinds -> {<<It("NUM", "", 12, "", "", 0)>>, <<L("NOT_FOUND")>>}
      [] c.kind = "delete"  -> {<<L("DELETED")>>}
      [] c.kind = "version" -> {<<It("VERSION", "", 0, "", "1.6", 0)>>}
      [] c.kind = "stats"   -> {<<L("END")>>,
                                <<It("STAT", "p", 0, "", "1", 0), It("STAT", "q", 0, "", "", 0), It("STAT", "p", 0, "", "2", 0), L("END")>>}
      [] c.kind = "get"     -> {<<L("END")>>, Pair("a", 5, "", Tricky) \o <<L("END")>>}
      [] c.kind = "gets"    -> {Pair("a", 0, "9", "") \o <<L("END")>>}
      [] c.kind = "getm"    -> {<<L("END")>>, Pair("b", 1, "", "") \o <<L("END")>>,
                                Pair("b", 1, "", "z") \o Pair("a", 2, "", Tricky) \o <<L("END")>>}
      [] c.kind = "getsm"   -> {Pair("a", 1, "8", "w") \o <<L("END")>>,
                                Pair("a", 1, "8", "w") \o Pair("a", 2, "9", "") \o <<L("END")>>}
      [] OTHER -> {}

\* interesting cut points: one byte, just short of / exactly at / one past the end of the head item, everything
Cuts == LET n1 == Head(stream).n - got IN {1, n1 - 1, n1, n1 + 1, Remaining} \cap (1..Remaining)

Init == \E p \in {2} : InitWith([P |-> p, maxkey |-> 2])
MCReject  == \E c \in MCIssues : IssueRejected(c[1], c[2], c[3], c[4], c[5], c[6])
MCAccept  == \E c \in MCIssues : IssueAccepted(c[1], c[2], c[3], c[4], c[5], c[6])
MCRespond == \E a \in (IF srvq = <<>> THEN {} ELSE MCAnswers(Head(srvq))) : Respond(a)
MCDeliver == \E d \in (IF stream = <<>> THEN {} ELSE Cuts) : Deliver(d)
MCTick    == \E d \in {1, 2} : Tick(d)
MCExpire  == \E d \in {1, 2} : Expire(d)
Next == \/ MCReject
        \/ MCAccept
        \/ MCRespond
        \/ MCDeliver
        \/ MCTick
        \/ MCExpire
        \/ Lose("ConnectionDone", "bye")
Spec == Init /\ [][Next]_vars
Bound == nextid <= MaxCmds + 1 /\ now <= 4 /\ TLCGet("level") <= MaxLevel
View == <<cfg, now, deadline, phase, queue, srvq, stream, got, nextid, count, accepted, byresp, expect, bad>>
=============================================================================
