----------------------------- MODULE ReactorLife -----------------------------
(* Extension X03 -- twisted.internet.base.ReactorBase life cycle: run / startRunning / mainLoop /
   stop / crash / callWhenRunning, the "startup" and "shutdown" three-phase system events, timed calls
   inside runUntilCurrent, and the run-after-stop / run-after-crash rules.

   Control is modelled as a stack of twisted frames plus a mode:
     mode = "user" : user code has control (top level when the stack is empty, otherwise a callback or
                     doIteration called from the top frame, whose `cur` names it);
     mode = "tw"   : the top frame runs.
   Every transfer of control is a logged event: twisted -> user (cb / iter / returned / cwrret /
   firedone), user -> twisted (end = the callback returns, or an operation that re-enters twisted).
   Steps of twisted that call no user code (built-in triggers, loop bookkeeping) are silent.

   Frames  [k, ev, st, acc, snap, cur]:
     loop    mainLoop of one run():  st = "top" | "ruc" (runUntilCurrent, snap = its `now`) | "to"
     before  fireEvent of ev: popping before-triggers; acc = triggers that returned a Deferred
     cont    _continueFiring of ev:  st = "during" | "after"
     call    callWhenRunning on a running reactor calling acc={f} at once: st = pending|calling|ran|raise
     fireop  a user firing a before-trigger's Deferred (its callbacks may run _continueFiring)     *)
EXTENDS Naturals, Integers, Sequences, FiniteSets

VARIABLES started, stopped, justStopped, startedBefore, running,   \* ReactorBase flags (running is public)
          trg,        \* [su|sd] -> [before|during|after] -> sequence of trigger ids
          dls,        \* [su|sd] -> set of outstanding DeferredLists (each the set of awaited trigger ids)
          fired,      \* user functions whose Deferred has fired
          pend, newc, \* _pendingTimedCalls / _newTimedCalls as sets of [t, f]
          now,
          stack, mode,
          nf,         \* number of user functions registered so far (ids 1..nf, fresh per registration)
          \* ---- observation / history (hidden by the VIEW)
          fnk,        \* id -> [k: "cwr"|"trig"|"later", ev, ph]
          ran,        \* id -> number of times called
          sdlog,      \* phases (1,2,3) of the user shutdown triggers in the order they ran
          sdMark,     \* nf when the shutdown event began firing (-1: not yet)
          userCrash,  \* the user called crash() inside the current outermost run()
          suCrash,    \* crash() (by anyone) happened while a startup event was in progress or awaiting a Deferred
          last
vars == <<started, stopped, justStopped, startedBefore, running, trg, dls, fired, pend, newc, now,
          stack, mode, nf, fnk, ran, sdlog, sdMark, userCrash, suCrash, last>>

RSR == 101       \* built-in during-startup trigger  _reallyStartRunning
CRASHB == 102    \* built-in during-shutdown trigger crash
DISC == 103      \* built-in during-shutdown trigger disconnectAll
ITER == 100      \* `cur` while doIteration has control
Evs == {"su", "sd"}
Phs == {"before", "during", "after"}
Outs == {"ret", "dfr", "raise"}

Fr(k, ev, st, acc, snap, cur) == [k |-> k, ev |-> ev, st |-> st, acc |-> acc, snap |-> snap, cur |-> cur]
Top == stack[Len(stack)]
Pop(s) == SubSeq(s, 1, Len(s) - 1)
RepTop(s, fr) == [s EXCEPT ![Len(s)] = fr]
InTw == mode = "tw" /\ stack # <<>>
OnStack(k, ev) == \E i \in 1..Len(stack) : stack[i].k = k /\ stack[i].ev = ev
Loops == Cardinality({i \in 1..Len(stack) : stack[i].k = "loop"})
MinT(S) == CHOOSE x \in {c.t : c \in S} : \A y \in {c.t : c \in S} : x <= y

Init ==
    /\ started = FALSE /\ stopped = TRUE /\ justStopped = FALSE /\ startedBefore = FALSE /\ running = FALSE
    /\ trg = [su |-> [before |-> <<>>, during |-> <<RSR>>, after |-> <<>>],
              sd |-> [before |-> <<>>, during |-> <<CRASHB, DISC>>, after |-> <<>>]]
    /\ dls = [su |-> {}, sd |-> {}] /\ fired = {} /\ pend = {} /\ newc = {} /\ now = 0
    /\ stack = <<>> /\ mode = "user" /\ nf = 0
    /\ fnk = <<>> /\ ran = <<>> /\ sdlog = <<>> /\ sdMark = -1 /\ userCrash = FALSE /\ suCrash = FALSE
    /\ last = [e |-> "init"]

flags == <<started, stopped, justStopped, startedBefore, running>>
timers == <<pend, newc, now>>
hist == <<sdlog, sdMark, userCrash, suCrash>>
SuBusy == dls.su # {} \/ \E i \in 1..Len(stack) : stack[i].ev = "su"
fns == <<nf, fnk, ran>>

NewFn(f, kind, ev, ph) ==
    /\ f = nf + 1 /\ nf' = f
    /\ fnk' = Append(fnk, [k |-> kind, ev |-> ev, ph |-> ph]) /\ ran' = Append(ran, 0)

-----------------------------------------------------------------------------
(* ---------------- operations of user code (mode = "user") ---------------- *)

(* callWhenRunning(f): at once when running, else an after-startup trigger *)
Cwr(f) ==
    /\ mode = "user" /\ NewFn(f, "cwr", "su", "after")
    /\ IF running
         THEN /\ stack' = Append(stack, Fr("call", "-", "pending", {f}, 0, 0)) /\ mode' = "tw"
              /\ last' = [e |-> "cwr", f |-> f, res |-> "ran", r |-> running]
              /\ UNCHANGED trg
         ELSE /\ trg' = [trg EXCEPT !.su.after = Append(@, f)]
              /\ last' = [e |-> "cwr", f |-> f, res |-> "queued", r |-> running]
              /\ UNCHANGED <<stack, mode>>
    /\ UNCHANGED <<flags, dls, fired, timers, hist>>

(* addSystemEventTrigger(ph, ev, f): never checks the reactor state *)
Trig(ev, ph, f) ==
    /\ mode = "user" /\ ev \in Evs /\ ph \in Phs /\ NewFn(f, "trig", ev, ph)
    /\ trg' = [trg EXCEPT ![ev][ph] = Append(@, f)]
    /\ last' = [e |-> "trig", ev |-> ev, ph |-> ph, f |-> f, r |-> running]
    /\ UNCHANGED <<flags, dls, fired, timers, stack, mode, hist>>

(* callLater(d, f): goes to _newTimedCalls, so it is not seen by a runUntilCurrent already in progress *)
Later(d, f) ==
    /\ mode = "user" /\ d \in Nat /\ NewFn(f, "later", "-", "-")
    /\ newc' = newc \cup {[t |-> now + d, f |-> f]}
    /\ last' = [e |-> "later", d |-> d, f |-> f, r |-> running]
    /\ UNCHANGED <<flags, trg, dls, fired, pend, now, stack, mode, hist>>

(* stop(): refused iff _stopped.  Deliberate deviation from the documented rule "raises ReactorNotRunning
   when the reactor is not running": _stopped is only set by stop() itself (and initially), so after a run
   ended by crash() a stop() is accepted although nothing is running (notes/X03.md, oddity 1). *)
Stop ==
    /\ mode = "user"
    /\ IF stopped
         THEN /\ last' = [e |-> "stop", res |-> "ReactorNotRunning", r |-> running]
              /\ UNCHANGED flags
         ELSE /\ stopped' = TRUE /\ justStopped' = TRUE /\ startedBefore' = TRUE
              /\ last' = [e |-> "stop", res |-> "ok", r |-> running]
              /\ UNCHANGED <<started, running>>
    /\ UNCHANGED <<trg, dls, fired, timers, stack, mode, fns, hist>>

(* crash(): never refused; re-arms _reallyStartRunning so that run() works again *)
Crash ==
    /\ mode = "user"
    /\ started' = FALSE /\ running' = FALSE
    /\ trg' = [trg EXCEPT !.su.during = Append(@, RSR)]
    /\ userCrash' = (userCrash \/ Loops > 0) /\ suCrash' = (suCrash \/ SuBusy)
    /\ last' = [e |-> "crash", r |-> running]
    /\ UNCHANGED <<stopped, justStopped, startedBefore, dls, fired, timers, stack, mode, fns, sdlog, sdMark>>

(* run(): startRunning's two refusals, else the startup event fires and the main loop is entered *)
Run ==
    /\ mode = "user"
    /\ IF started
         THEN /\ last' = [e |-> "run", res |-> "ReactorAlreadyRunning", r |-> running]
              /\ UNCHANGED <<started, stopped, stack, mode>>
         ELSE IF startedBefore
         THEN /\ last' = [e |-> "run", res |-> "ReactorNotRestartable", r |-> running]
              /\ UNCHANGED <<started, stopped, stack, mode>>
         ELSE /\ started' = TRUE /\ stopped' = FALSE
              /\ stack' = stack \o <<Fr("loop", "-", "top", {}, 0, 0), Fr("before", "su", "-", {}, 0, 0)>>
              /\ mode' = "tw"
              /\ last' = [e |-> "run", res |-> "in", r |-> running]
    /\ userCrash' = IF ~started /\ ~startedBefore /\ Loops = 0 THEN FALSE ELSE userCrash
    /\ UNCHANGED <<justStopped, startedBefore, running, trg, dls, fired, timers, fns, sdlog, sdMark, suCrash>>

(* the harness clock moves *)
Adv(d) ==
    /\ mode = "user" /\ d \in Nat
    /\ now' = now + d
    /\ last' = [e |-> "adv", d |-> d, r |-> running]
    /\ UNCHANGED <<flags, trg, dls, fired, pend, newc, stack, mode, fns, hist>>

(* the user fires the Deferred of function k.  If that completes a DeferredList of a fired event its
   _continueFiring runs synchronously inside the call. *)
Fire(k) ==
    /\ mode = "user" /\ k \in 1..nf /\ k \notin fired
    /\ fired' = fired \cup {k}
    /\ LET done == {ev \in Evs : {k} \in dls[ev]}
           fo == Fr("fireop", "-", "-", {}, 0, 0)
       IN /\ dls' = [ev \in Evs |-> {w \ {k} : w \in dls[ev]} \ {{}}]
          /\ stack' = IF done = {} THEN Append(stack, fo)
                      ELSE Append(Append(stack, fo), Fr("cont", CHOOSE ev \in done : TRUE, "during", {}, 0, 0))
    /\ mode' = "tw"
    /\ last' = [e |-> "fire", f |-> k, r |-> running]
    /\ UNCHANGED <<flags, trg, timers, fns, hist>>

(* the callback (or doIteration) that has control returns / returns a Deferred / raises.  Exceptions are
   logged and swallowed by every caller except callWhenRunning's immediate call. *)
End(out) ==
    /\ mode = "user" /\ stack # <<>> /\ Top.cur # 0 /\ out \in Outs
    /\ stack' = RepTop(stack, [Top EXCEPT !.cur = 0,
                                          !.acc = IF Top.k = "before" /\ out = "dfr" THEN @ \cup {Top.cur} ELSE @,
                                          !.st = IF Top.k = "call" THEN (IF out = "raise" THEN "raise" ELSE "ran") ELSE @])
    /\ mode' = "tw"
    /\ last' = [e |-> "end", out |-> out, r |-> running]
    /\ UNCHANGED <<flags, trg, dls, fired, timers, fns, hist>>

-----------------------------------------------------------------------------
(* ---------------- twisted calls user code (mode "tw" -> "user") ---------------- *)
CbCommon(f) ==
    /\ ran' = [ran EXCEPT ![f] = @ + 1]
    /\ mode' = "user"
    /\ last' = [e |-> "cb", f |-> f, r |-> running]
    /\ UNCHANGED <<flags, dls, fired, newc, now, nf, fnk, sdMark, userCrash, suCrash>>
Logged(ev, p) == IF ev = "sd" THEN Append(sdlog, p) ELSE sdlog

(* fireEvent: the next before-trigger (triggers added meanwhile are picked up by the same loop) *)
CallBefore(f) ==
    /\ InTw /\ Top.k = "before" /\ trg[Top.ev].before # <<>> /\ f = Head(trg[Top.ev].before)
    /\ trg' = [trg EXCEPT ![Top.ev].before = Tail(@)]
    /\ stack' = RepTop(stack, [Top EXCEPT !.cur = f])
    /\ sdlog' = Logged(Top.ev, 1)
    /\ CbCommon(f) /\ UNCHANGED pend

(* _continueFiring: the next user during-trigger, then (once the during list was found empty) after-triggers *)
CallPhase(f) ==
    /\ InTw /\ Top.k = "cont" /\ f < 100
    /\ \/ /\ Top.st = "during" /\ trg[Top.ev].during # <<>> /\ f = Head(trg[Top.ev].during)
          /\ trg' = [trg EXCEPT ![Top.ev].during = Tail(@)] /\ sdlog' = Logged(Top.ev, 2)
       \/ /\ Top.st = "after" /\ trg[Top.ev].after # <<>> /\ f = Head(trg[Top.ev].after)
          /\ trg' = [trg EXCEPT ![Top.ev].after = Tail(@)] /\ sdlog' = Logged(Top.ev, 3)
    /\ stack' = RepTop(stack, [Top EXCEPT !.cur = f])
    /\ CbCommon(f) /\ UNCHANGED pend

(* callWhenRunning on a running reactor *)
CallNow(f) ==
    /\ InTw /\ Top.k = "call" /\ Top.st = "pending" /\ f \in Top.acc
    /\ stack' = RepTop(stack, [Top EXCEPT !.st = "calling", !.cur = f])
    /\ CbCommon(f) /\ UNCHANGED <<trg, sdlog, pend>>

(* runUntilCurrent: a due timed call with the least time (order among equal times is the heap's: left open) *)
CallTimed(f) ==
    /\ InTw /\ Top.k = "loop" /\ Top.st = "ruc"
    /\ \E c \in pend : /\ c.f = f /\ c.t <= Top.snap /\ \A d \in pend : d.t >= c.t
                       /\ pend' = pend \ {c}
    /\ stack' = RepTop(stack, [Top EXCEPT !.cur = f])
    /\ CbCommon(f) /\ UNCHANGED <<trg, sdlog>>

(* mainLoop: timeout() adopts the new timed calls; doIteration gets None (-1) / the time to the next call,
   or 0 (False) whenever `running` is false -- i.e. the loop never blocks while starting or stopping *)
Iter ==
    /\ InTw /\ Top.k = "loop" /\ Top.st = "to"
    /\ pend' = pend \cup newc /\ newc' = {}
    /\ stack' = RepTop(stack, [Top EXCEPT !.st = "top", !.cur = ITER])
    /\ mode' = "user"
    /\ LET t2 == IF pend' = {} THEN -1 ELSE IF MinT(pend') > now THEN MinT(pend') - now ELSE 0
       IN last' = [e |-> "iter", t |-> IF running THEN t2 ELSE 0, r |-> running]
    /\ UNCHANGED <<flags, trg, dls, fired, now, fns, hist>>

(* run() returns: only when the loop finds _started false *)
Returned ==
    /\ InTw /\ Top.k = "loop" /\ Top.st = "top" /\ ~started
    /\ stack' = Pop(stack) /\ mode' = "user"
    /\ last' = [e |-> "returned", r |-> running]
    /\ UNCHANGED <<flags, trg, dls, fired, timers, fns, hist>>

CwrRet ==
    /\ InTw /\ Top.k = "call" /\ Top.st \in {"ran", "raise"}
    /\ stack' = Pop(stack) /\ mode' = "user"
    /\ last' = [e |-> "cwrret", exc |-> (Top.st = "raise"), r |-> running]
    /\ UNCHANGED <<flags, trg, dls, fired, timers, fns, hist>>

FireDone ==
    /\ InTw /\ Top.k = "fireop"
    /\ stack' = Pop(stack) /\ mode' = "user"
    /\ last' = [e |-> "firedone", r |-> running]
    /\ UNCHANGED <<flags, trg, dls, fired, timers, fns, hist>>

-----------------------------------------------------------------------------
(* ---------------- silent steps of twisted ---------------- *)
(* fireEvent after the last before-trigger: DeferredList of the returned Deferreds *)
BeforeDone ==
    /\ InTw /\ Top.k = "before" /\ trg[Top.ev].before = <<>>
    /\ LET w == Top.acc \ fired IN
       IF w = {} THEN /\ stack' = RepTop(stack, Fr("cont", Top.ev, "during", {}, 0, 0)) /\ UNCHANGED dls
                 ELSE /\ stack' = Pop(stack) /\ dls' = [dls EXCEPT ![Top.ev] = @ \cup {w}]
    /\ UNCHANGED <<flags, trg, fired, timers, mode, fns, hist, last>>

DuringHead(b) == InTw /\ Top.k = "cont" /\ Top.st = "during" /\ trg[Top.ev].during # <<>> /\ Head(trg[Top.ev].during) = b
DoReallyStart ==
    /\ DuringHead(RSR)
    /\ trg' = [trg EXCEPT ![Top.ev].during = Tail(@)]
    /\ running' = TRUE
    /\ UNCHANGED <<started, stopped, justStopped, startedBefore, dls, fired, timers, stack, mode, fns, hist, last>>
DoCrashTrigger ==
    /\ DuringHead(CRASHB)
    /\ trg' = [[trg EXCEPT ![Top.ev].during = Tail(@)] EXCEPT !.su.during = Append(@, RSR)]
    /\ started' = FALSE /\ running' = FALSE /\ suCrash' = (suCrash \/ SuBusy)
    /\ UNCHANGED <<stopped, justStopped, startedBefore, dls, fired, timers, stack, mode, fns, sdlog, sdMark, userCrash, last>>
DoDisconnectAll ==
    /\ DuringHead(DISC)
    /\ trg' = [trg EXCEPT ![Top.ev].during = Tail(@)]
    /\ UNCHANGED <<flags, dls, fired, timers, stack, mode, fns, hist, last>>
PhaseSwitch ==
    /\ InTw /\ Top.k = "cont" /\ Top.st = "during" /\ trg[Top.ev].during = <<>>
    /\ stack' = RepTop(stack, [Top EXCEPT !.st = "after"])
    /\ UNCHANGED <<flags, trg, dls, fired, timers, mode, fns, hist, last>>
ContDone ==
    /\ InTw /\ Top.k = "cont" /\ Top.st = "after" /\ trg[Top.ev].after = <<>>
    /\ stack' = Pop(stack)
    /\ UNCHANGED <<flags, trg, dls, fired, timers, mode, fns, hist, last>>
(* mainLoop: next turn; runUntilCurrent adopts the new timed calls and reads the clock once *)
LoopTop ==
    /\ InTw /\ Top.k = "loop" /\ Top.st = "top" /\ started
    /\ pend' = pend \cup newc /\ newc' = {}
    /\ stack' = RepTop(stack, [Top EXCEPT !.st = "ruc", !.snap = now])
    /\ UNCHANGED <<flags, trg, dls, fired, now, mode, fns, hist, last>>
(* end of runUntilCurrent: a stop() accepted since the last turn now fires the shutdown event *)
RucDone ==
    /\ InTw /\ Top.k = "loop" /\ Top.st = "ruc" /\ ~\E c \in pend : c.t <= Top.snap
    /\ IF justStopped
         THEN /\ justStopped' = FALSE
              /\ stack' = Append(RepTop(stack, [Top EXCEPT !.st = "to"]), Fr("before", "sd", "-", {}, 0, 0))
              /\ sdMark' = IF sdMark < 0 THEN nf ELSE sdMark
         ELSE /\ stack' = RepTop(stack, [Top EXCEPT !.st = "to"])
              /\ UNCHANGED <<justStopped, sdMark>>
    /\ UNCHANGED <<started, stopped, startedBefore, running, trg, dls, fired, timers, mode, fns, sdlog, userCrash, suCrash, last>>

Silent == BeforeDone \/ DoReallyStart \/ DoCrashTrigger \/ DoDisconnectAll \/ PhaseSwitch \/ ContDone \/ LoopTop \/ RucDone

Next == \/ Cwr(nf + 1)
        \/ \E ev \in Evs, ph \in Phs : Trig(ev, ph, nf + 1)
        \/ \E d \in 0..1 : Later(d, nf + 1)
        \/ Stop \/ Crash \/ Run \/ Adv(1)
        \/ \E k \in 1..nf : Fire(k)
        \/ \E out \in Outs : End(out)
        \/ \E f \in 1..nf : CallBefore(f)
        \/ \E f \in 1..nf : CallPhase(f)
        \/ \E f \in 1..nf : CallNow(f)
        \/ \E f \in 1..nf : CallTimed(f)
        \/ Iter \/ Returned \/ CwrRet \/ FireDone
        \/ BeforeDone \/ DoReallyStart \/ DoCrashTrigger \/ DoDisconnectAll \/ PhaseSwitch \/ ContDone \/ LoopTop \/ RucDone
-----------------------------------------------------------------------------
(* ---------------- what a user relies on ---------------- *)

\* run() has returned (no loop frame left) only if the reactor is neither started nor running
IdleAtTopLevel == Loops = 0 => ~started
\* `running` is true only between startup and crash -- except (deliberate deviation, notes/X03.md oddity 2) when crash()
\* overtakes a startup event still in progress or parked on a Deferred: its _reallyStartRunning then sets `running` on a
\* reactor that is not started
RunningImpliesStarted == running => (started \/ suCrash)
\* user code at a non-empty stack always sits in a callback of the top frame
UserInCallback == (mode = "user" /\ stack # <<>>) => Top.cur # 0
\* every registration is called at most once (timed call, trigger, callWhenRunning)
AtMostOnce == \A f \in 1..nf : ran[f] <= 1
\* shutdown triggers run in phase order
ShutdownPhaseOrder == \A i, j \in 1..Len(sdlog) : i < j => sdlog[i] <= sdlog[j]
\* a before-shutdown Deferred that has not fired holds back the during/after phases
BeforeDelays == OnStack("cont", "sd") => dls.sd = {}
\* a callWhenRunning function is never left queued on a running reactor (unless startup triggers are being run right now)
CwrNotLost == (running /\ ~OnStack("cont", "su") /\ ~OnStack("before", "su"))
                 => \A i \in 1..Len(trg.su.after) : fnk[trg.su.after[i]].k # "cwr"
\* once every run() has returned after a stop() -- and the user did not crash() that run, so that only the shutdown
\* event's own trigger ended it -- every shutdown trigger registered before the event began has run exactly once
StopShutsDown == (Loops = 0 /\ sdMark >= 0 /\ ~userCrash)
                    => \A f \in 1..sdMark : (fnk[f].k = "trig" /\ fnk[f].ev = "sd") => ran[f] = 1
\* the shutdown event fires at most once, and only after an accepted stop()
ShutdownNeedsStop == sdMark >= 0 => startedBefore
Inv == IdleAtTopLevel /\ RunningImpliesStarted /\ UserInCallback /\ AtMostOnce /\ ShutdownPhaseOrder
       /\ BeforeDelays /\ CwrNotLost /\ StopShutsDown /\ ShutdownNeedsStop

\* timed calls due in the iteration that saw stop() still run before the shutdown event begins
DueCallsBeforeShutdown == [][(sdMark < 0 /\ sdMark' >= 0) => \A c \in pend : c.t > Top.snap]_vars
\* no run() is entered once a stop() was accepted (ReactorNotRestartable)
NoRunAfterStop == [][startedBefore => Loops' <= Loops]_vars
\* run() returns only in a state reached through crash() (by the user or the shutdown event's own trigger)
ReturnOnlyAfterCrash == [][Loops' < Loops => ~started]_vars
=============================================================================
