SPECIFICATION SpecNeg
CONSTANT KeyLens = {0, 1}
CONSTANT ValLens = {0, 1}
CONSTANT NonBytesVals <- NBQuick
CONSTANT Shapes <- ShapesQuick
VIEW View
INVARIANT RoundTrip
CHECK_DEADLOCK FALSE
