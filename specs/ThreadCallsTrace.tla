--------------------------- MODULE ThreadCallsTrace ---------------------------
(* Batched trace validation for C13.  A trace is what the reactor side of one real reactor run
   observed: one "run" event per executed callback, in execution order, carrying the producer p,
   the per-producer sequence number i, the executing thread class, the idle flag the producer
   attached to the call and the latency class; then one "end" event written after the reactor
   stopped, carrying the number of callFromThread calls each producer made.

   The spec knows nothing about the order in which different threads issued their calls: the
   Issue steps are not logged; before a "run" event of (p, i) the trace spec lets producer p issue
   up to call i (silent steps, bounded by i - issued[p]); the "end" event issues whatever was never
   seen running and then demands Quiescent -- which fails iff a call was lost.        *)
EXTENDS ThreadCalls, TLC, Json, IOUtils

Traces == JsonDeserialize(IOEnv.TRACE_FILE)
VARIABLES tid, l
ASSUME \A t \in 1..Len(Traces) : TLCSet(t, 1)

T == Traces[tid]
E == T.ev[l]

TInit == /\ tid \in 1..Len(Traces) /\ l = 1
         /\ InitWith([n |-> Traces[tid].cfg.n])

\* silent: before call (p, i) can be seen running, producer p must have issued it.  Issue steps are not
\* logged (their order across threads is not observable); they are taken as late as possible, at most
\* i - issued[p] of them per logged event.  The logged idle flag belongs to call i itself.
TIssue ==
    /\ E.e = "run"
    /\ E.p \in P /\ issued[E.p] < E.i
    /\ Issue(E.p, E.idle /\ issued[E.p] + 1 = E.i)
    /\ UNCHANGED <<tid, l>>

\* "run": the design action with every logged field as its argument
TRun ==
    /\ E.e = "run"
    /\ Run(E.p, E.i, E.thr, E.lat)
    /\ E.idle = (<<E.p, E.i>> \in idl)
    /\ E.lat \in 0..3
    /\ l' = l + 1 /\ UNCHANGED tid

\* "end" (written after the reactor stopped): no callFromThread call raised, every producer made all its
\* calls, and every issued call has run (calls never seen running are lost calls: not Quiescent)
TEnd ==
    /\ E.e = "end"
    /\ E.exc = 0
    /\ E.issued = cfg.n
    /\ \A p \in P : issued[p] = done[p] /\ done[p] = cfg.n[p]
    /\ Quiescent
    /\ UNCHANGED vars
    /\ l' = l + 1 /\ UNCHANGED tid

TNext == (TIssue \/ TRun \/ TEnd) /\ Inv'

TSpec == TInit /\ [][l <= Len(T.ev) /\ TNext]_<<vars, tid, l>>

Progress == TLCSet(tid, IF TLCGet(tid) > l THEN TLCGet(tid) ELSE l)
Rejected == {<<t, TLCGet(t)>> : t \in {u \in 1..Len(Traces) : TLCGet(u) # Len(Traces[u].ev) + 1}}
Accepted == Rejected = {} \/ (PrintT(<<"REJECTED", Rejected>>) /\ FALSE)
=============================================================================
