SPECIFICATION Spec
CONSTANT Budget = 4
CONSTANT MaxField = 3
CONSTANT NegControl = FALSE
CONSTANT Rich = TRUE
VIEW View
INVARIANT OracleAccepts
INVARIANT OracleRejects
INVARIANT Inv
CHECK_DEADLOCK FALSE
