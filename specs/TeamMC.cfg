SPECIFICATION Spec
CONSTANT MaxT = 2
CONSTANT MaxG = 1
CONSTANT MaxS = 1
CONSTANT MaxL = 0
CONSTANT MaxQ = 1
CONSTANT Depth = 40
CONSTRAINT Bound
VIEW View
INVARIANT AtMostOnce
INVARIANT OnlyAccepted
INVARIANT CreateBelowLimit
INVARIANT OneTaskAtOnce
INVARIANT NoRaise
INVARIANT AllRun
INVARIANT QuitStopsAll
INVARIANT NoIdleBacklog
CHECK_DEADLOCK FALSE
