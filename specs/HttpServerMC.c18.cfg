SPECIFICATION Spec
CONSTANT Units = {"RL11", "RL10", "HC1", "HEX", "NL", "B"}
CONSTANT MaxD = 3
CONSTANT MaxReq = 2
CONSTANT MaxHdr = 1
CONSTANT MaxBuf = 3
CONSTANT MaxSent = 11
CONSTANT NDs = {1}
CONSTRAINT Bound
VIEW View
CHECK_DEADLOCK FALSE
INVARIANT SegInv
