SPECIFICATION Spec
CONSTANT Units = {"RL11", "RL10", "HC1", "HTC", "HEX", "HF", "HNC", "K0", "K1", "NL", "B"}
CONSTANT MaxD = 2
CONSTANT MaxReq = 2
CONSTANT MaxHdr = 2
CONSTANT MaxBuf = 3
CONSTANT MaxSent = 14
CONSTANT NDs = {1}
CONSTRAINT Bound
VIEW View
INVARIANT SegInv
CHECK_DEADLOCK FALSE
