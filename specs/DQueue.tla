------------------------------- MODULE DQueue -------------------------------
(* C07 -- twisted.internet.defer.DeferredQueue.
   State = what the property talks about: which objects were put, which gets are
   pending, which (get, object) deliveries happened, in which order.
   One action per public call outcome.  Objects and gets are numbered in call
   order (identity kept, values abstracted).  cfg is a VARIABLE so one TLC run
   covers / validates all configurations (None is -1).                       *)
EXTENDS Naturals, Integers, Sequences, FiniteSets

None == -1

VARIABLES cfg,        \* [size |-> -1 | n, backlog |-> -1 | n]
          pending,    \* sequence of object ids queued
          waiting,    \* sequence of get ids waiting
          deliv,      \* sequence of <<get id, object id>> in delivery order
          cancelled,  \* set of get ids cancelled while waiting
          nObj,       \* number of put calls so far (object ids 1..nObj)
          nGet,       \* number of get calls so far
          accepted,   \* set of object ids whose put did not overflow
          last        \* observable outcome of the last action (record)

vars == <<cfg, pending, waiting, deliv, cancelled, nObj, nGet, accepted, last>>

InitWith(c) ==
    /\ cfg = c
    /\ pending = <<>> /\ waiting = <<>> /\ deliv = <<>>
    /\ cancelled = {} /\ nObj = 0 /\ nGet = 0 /\ accepted = {}
    /\ last = [e |-> "init"]

SizeFull    == cfg.size # None /\ Len(pending) >= cfg.size
BacklogFull == cfg.backlog # None /\ Len(waiting) >= cfg.backlog

(* put(obj): the oldest pending get is served first; otherwise the object is
   queued unless the size limit is reached. *)
PutDeliver ==
    /\ waiting # <<>>
    /\ nObj' = nObj + 1
    /\ deliv' = Append(deliv, <<Head(waiting), nObj + 1>>)
    /\ waiting' = Tail(waiting)
    /\ accepted' = accepted \cup {nObj + 1}
    /\ last' = [e |-> "put", res |-> "ok", dl |-> << <<Head(waiting), nObj + 1>> >>]
    /\ UNCHANGED <<cfg, pending, cancelled, nGet>>

PutQueue ==
    /\ waiting = <<>> /\ ~SizeFull
    /\ nObj' = nObj + 1
    /\ pending' = Append(pending, nObj + 1)
    /\ accepted' = accepted \cup {nObj + 1}
    /\ last' = [e |-> "put", res |-> "ok", dl |-> <<>>]
    /\ UNCHANGED <<cfg, waiting, deliv, cancelled, nGet>>

PutOverflow ==
    /\ waiting = <<>> /\ SizeFull
    /\ nObj' = nObj + 1
    /\ last' = [e |-> "put", res |-> "overflow", dl |-> <<>>]
    /\ UNCHANGED <<cfg, pending, waiting, deliv, cancelled, nGet, accepted>>

GetNow ==
    /\ pending # <<>>
    /\ nGet' = nGet + 1
    /\ deliv' = Append(deliv, <<nGet + 1, Head(pending)>>)
    /\ pending' = Tail(pending)
    /\ last' = [e |-> "get", res |-> "now", dl |-> << <<nGet + 1, Head(pending)>> >>]
    /\ UNCHANGED <<cfg, waiting, cancelled, nObj, accepted>>

GetWait ==
    /\ pending = <<>> /\ ~BacklogFull
    /\ nGet' = nGet + 1
    /\ waiting' = Append(waiting, nGet + 1)
    /\ last' = [e |-> "get", res |-> "wait", dl |-> <<>>]
    /\ UNCHANGED <<cfg, pending, deliv, cancelled, nObj, accepted>>

GetUnderflow ==
    /\ pending = <<>> /\ BacklogFull
    /\ nGet' = nGet + 1
    /\ last' = [e |-> "get", res |-> "underflow", dl |-> <<>>]
    /\ UNCHANGED <<cfg, pending, waiting, deliv, cancelled, nObj, accepted>>

InSeq(x, s) == \E i \in 1..Len(s) : s[i] = x
Remove(x, s) == SelectSeq(s, LAMBDA y : y # x)

(* cancel() of the Deferred returned by get number g.  A waiting get is
   withdrawn (its Deferred fails with CancelledError); a get that already has
   its object, or was already cancelled, is unaffected. *)
CancelWaiting(g) ==
    /\ InSeq(g, waiting)
    /\ waiting' = Remove(g, waiting)
    /\ cancelled' = cancelled \cup {g}
    /\ last' = [e |-> "cancel", g |-> g, res |-> "cancelled", dl |-> <<>>]
    /\ UNCHANGED <<cfg, pending, deliv, nObj, nGet, accepted>>

CancelNoop(g) ==
    /\ g \in 1..nGet /\ ~InSeq(g, waiting)
    /\ last' = [e |-> "cancel", g |-> g, res |-> "noop", dl |-> <<>>]
    /\ UNCHANGED <<cfg, pending, waiting, deliv, cancelled, nObj, nGet, accepted>>

Next == \/ PutDeliver \/ PutQueue \/ PutOverflow
        \/ GetNow \/ GetWait \/ GetUnderflow
        \/ \E g \in 1..nGet : CancelWaiting(g)
        \/ \E g \in 1..nGet : CancelNoop(g)

-----------------------------------------------------------------------------
(* The property, as invariants over the delivery history. *)
DelivG == {deliv[i][1] : i \in 1..Len(deliv)}
DelivO == {deliv[i][2] : i \in 1..Len(deliv)}
Range(s) == {s[i] : i \in 1..Len(s)}

ExactlyOnce ==  \* no object and no get appears twice
    \A i, j \in 1..Len(deliv) : i # j => deliv[i][1] # deliv[j][1] /\ deliv[i][2] # deliv[j][2]
FifoOrder ==    \* objects leave in put order, gets are served oldest first
    \A i, j \in 1..Len(deliv) : i < j => deliv[i][2] < deliv[j][2] /\ deliv[i][1] < deliv[j][1]
NoLoss ==       \* every accepted object is either delivered or still queued, never both
    /\ accepted = DelivO \cup Range(pending)
    /\ DelivO \cap Range(pending) = {}
    /\ \A i, j \in 1..Len(pending) : i < j => pending[i] < pending[j]
    /\ \A o \in Range(pending) : \A d \in DelivO : d < o
NoCancelledDelivery == DelivG \cap cancelled = {}
NoIdleWaiter == ~(waiting # <<>> /\ pending # <<>>)   \* "to the oldest pending get or else to a later get"
Bounds == /\ (cfg.size # None => Len(pending) <= cfg.size)
          /\ (cfg.backlog # None => Len(waiting) <= cfg.backlog)
          /\ Range(waiting) \cap cancelled = {}

Inv == ExactlyOnce /\ FifoOrder /\ NoLoss /\ NoCancelledDelivery /\ NoIdleWaiter /\ Bounds
=============================================================================
