---------------------------- MODULE HttpServerMC ----------------------------
(* Exhaustive TLC runs of the channel-algorithm model.  Every run: all streams over the chosen
   units (valid and malformed items in any order), all deliveries of up to MaxD units, both
   resource timings per request, connection loss at every point; bounded by the number of
   requests handed over, field lines per request and units buffered.                        *)
EXTENDS HttpServer, TLC
CONSTANTS Units, MaxD, MaxReq, MaxHdr, MaxBuf, MaxSent, NDs
RECURSIVE Plans(_)
Plans(n) == IF n = 0 THEN {<<>>} ELSE {Append(p, x) : p \in Plans(n - 1), x \in {"now", "later"}}
Init == \E p \in Plans(MaxReq), nd \in NDs : InitWith([plan |-> p, nd |-> nd, units |-> Units, maxd |-> MaxD])
Spec == Init /\ [][Next]_vars
Small(m) == /\ m.nreq <= MaxReq /\ Len(m.hs) <= MaxHdr /\ Len(m.buf) <= MaxBuf /\ Len(m.dbuf) <= MaxBuf
            /\ Len(m.dec.cbuf) <= MaxBuf /\ Len(m.body) <= 2
Bound == Small(M) /\ Small(R) /\ sent <= MaxSent
View == <<cfg, M, R>>
=============================================================================
