-------------------------- MODULE HttpSrvWireTrace --------------------------
(* C19 trace validation.  A trace carries the octets sent to a real HTTPChannel and, for one
   or more prefixes of them delivered to a fresh connection, everything the server did
   (requests handed to the application with all their parts, octets the server wrote on its
   own, whether it asked the transport to close).  TLC parses the octets with the reference
   of HttpSrvWire and accepts the event iff the reference relation explains the outputs.   *)
EXTENDS HttpSrvWire, TLC, Json, IOUtils

Traces == JsonDeserialize(IOEnv.TRACE_FILE)
VARIABLES tid, l
ASSUME \A t \in 1..Len(Traces) : TLCSet(t, 1)

T == Traces[tid]
E == T.ev[l]

TInit == tid \in 1..Len(Traces) /\ l = 1

\* a refusal closes the connection (property: "answered with 400 and nothing after it is processed")
ClosedAfter400(o, closed) == LET n == NotApp(o) IN (Len(n) > 0 /\ IsRaw(n, Len(n), 400)) => closed

TOut == /\ E.e = "out"
        /\ Explains(Sub(T.stream, 1, E.n), E.o)
        /\ ClosedAfter400(E.o, E.closed)

TNext == l <= Len(T.ev) /\ TOut /\ l' = l + 1 /\ UNCHANGED tid

TSpec == TInit /\ [][TNext]_<<tid, l>>

Progress == TLCSet(tid, IF TLCGet(tid) > l THEN TLCGet(tid) ELSE l)
Rejected == {<<t, TLCGet(t)>> : t \in {u \in 1..Len(Traces) : TLCGet(u) # Len(Traces[u].ev) + 1}}
Accepted == Rejected = {} \/ (PrintT(<<"REJECTED", Rejected>>) /\ FALSE)
=============================================================================
