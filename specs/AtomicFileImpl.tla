---------------------------- MODULE AtomicFileImpl ----------------------------
(* C52, Impl layer: write-to-temporary-then-rename as coded in
     FilePath.setContent   (cfg.kind = "sc"):  temporarySibling -> a fresh random name,
                           created with O_CREAT|O_EXCL; write; close; rename over the target
     sob.Persistent.save   (cfg.kind = "sob"): fixed name "<final>-2", open(.., "wb") creates
                           or truncates a left-over; dump; close; rename over the target
   cfg.win = TRUE adds the Windows-only branch of both (remove the target before the
   rename), whose crash window the setContent docstring documents; it is model-checked
   separately and expected to violate the property (vacuity guard of the invariant).
   The content of one save reaches the file in nch write calls (0 for the empty
   content); a crash is possible between any two calls and inside every write.   *)
EXTENDS AtomicFile, FsModel

VARIABLES dir,    \* names: <<"tgt", 0>>, <<"tmp", n>>
          pc,
          tmp,    \* temporary name of the running save
          left,   \* write calls still to issue
          nchOf   \* content id -> number of write calls that make it complete
implvars == <<dir, pc, tmp, left, nchOf>>
vars == <<cfg, tgt, infl, mode, nop, ncr, ok, last, dir, pc, tmp, left, nchOf>>

Tgt == <<"tgt", 0>>
Fs(op, a, b, v, cls, good) == [e |-> "fs", op |-> op, a |-> a, b |-> b, v |-> v, cls |-> cls, ok |-> good]

ImplInitWith(c) ==
    /\ InitWith(c)
    /\ dir = IF c.init = 0 THEN FsEmptyDir ELSE FsWrite(FsCreate(FsEmptyDir, Tgt), Tgt, 1, "all")
    /\ pc = "idle" /\ tmp = Tgt /\ left = 0
    /\ nchOf = IF c.init = 0 THEN <<>> ELSE <<1>>

(* classification of file bytes, as the harness does it *)
Whole(c) == /\ c # <<>> /\ FsComplete(c)
            /\ \A i \in 1..Len(c) : c[i][1] = c[1][1]
            /\ c[1][1] \in DOMAIN nchOf /\ Len(c) = nchOf[c[1][1]]
ContV(c)   == IF c = <<>> THEN cfg.ve ELSE IF Whole(c) THEN c[1][1] ELSE 0
ContCls(c) == IF c = <<>> THEN (IF cfg.ve # 0 THEN "all" ELSE "part") ELSE IF Whole(c) THEN "all" ELSE "part"
TgtView(d) == IF FsExists(d, Tgt) THEN <<ContV(d[Tgt]), ContCls(d[Tgt])>> ELSE <<0, "absent">>
DirLs(d)   == {<<n, ContV(d[n]), ContCls(d[n])>> : n \in DOMAIN d}

V == infl[1]

ISave(v, nch) ==
    /\ pc = "idle" /\ ASave(v)
    /\ nch = 0 <=> v = cfg.ve
    /\ tmp' = IF cfg.kind = "sc" THEN <<"tmp", nop + 1>> ELSE <<"tmp", 0>>
    /\ left' = nch
    /\ nchOf' = [i \in 1..v |-> IF i = v THEN nch ELSE IF i \in DOMAIN nchOf THEN nchOf[i] ELSE 0]
    /\ pc' = "create"
    /\ UNCHANGED dir

Create ==
    /\ pc = "create"
    /\ cfg.kind = "sc" => FsCanCreateExcl(dir, tmp)
    /\ dir' = FsCreate(dir, tmp)
    /\ pc' = IF left = 0 THEN "rm" ELSE "write"
    /\ last' = Fs("open", tmp, tmp, 0, "", TRUE)
    /\ UNCHANGED <<cfg, tgt, infl, mode, nop, ncr, ok, tmp, left, nchOf>>

Write(cls) ==
    /\ pc = "write" /\ left > 0
    /\ dir' = FsWrite(dir, tmp, V, cls)
    /\ left' = left - 1
    /\ pc' = IF cls # "all" THEN "torn" ELSE IF left = 1 THEN "rm" ELSE "write"
    /\ last' = Fs("write", tmp, tmp, V, cls, TRUE)
    /\ UNCHANGED <<cfg, tgt, infl, mode, nop, ncr, ok, tmp, nchOf>>

WinRemove ==
    /\ pc = "rm" /\ cfg.win /\ FsExists(dir, Tgt)
    /\ dir' = FsRemove(dir, Tgt)
    /\ pc' = "ren"
    /\ last' = Fs("remove", Tgt, Tgt, 0, "", TRUE)
    /\ UNCHANGED <<cfg, tgt, infl, mode, nop, ncr, ok, tmp, left, nchOf>>

Rename ==
    /\ pc = "ren" \/ (pc = "rm" /\ ~(cfg.win /\ FsExists(dir, Tgt)))
    /\ dir' = FsRename(dir, tmp, Tgt)
    /\ pc' = "ret"
    /\ last' = Fs("rename", tmp, Tgt, 0, "", TRUE)
    /\ UNCHANGED <<cfg, tgt, infl, mode, nop, ncr, ok, tmp, left, nchOf>>

Ret == pc = "ret" /\ ARetOk /\ pc' = "idle" /\ UNCHANGED <<dir, tmp, left, nchOf>>

ICrash == pc # "idle" /\ ACrash /\ pc' = "idle" /\ UNCHANGED <<dir, tmp, left, nchOf>>

IView == pc = "idle" /\ AView(TgtView(dir)) /\ UNCHANGED implvars

IdleOk == pc = "idle" => Allowed(TgtView(dir))
=============================================================================
