SPECIFICATION Spec
CONSTANT NS = 2
CONSTANT MaxWrite = 2
CONSTANT MaxWU = 1
CONSTANT MaxSet = 1
CONSTANT CW = {2}
CONSTANT IW = {0, 1}
CONSTANT MF = {1}
VIEW View
INVARIANT NoOvershoot
INVARIANT InOrderComplete
PROPERTY Resume
CHECK_DEADLOCK FALSE
