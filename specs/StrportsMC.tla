----------------------------- MODULE StrportsMC -----------------------------
(* Exhaustive run: every text up to MaxLen over the class alphabet, in every slot of every
   NSlots-argument layout (each slot positional or keyword).
   Quoter = "ref"   : RoundTrip is an INVARIANT (the property is satisfiable on the grammar).
   Quoter = "coded" : Impl layer -- quoteStringArgument as coded; no invariant: every completed
                      behaviour is printed (Emit) with the predicted parse and whether the property
                      holds on it, and the harness replays each one on the real code.            *)
EXTENDS Strports, TLC, Json
CONSTANTS MaxLen, NSlots, Quoter

Alphabet == {COLON, EQUALS, BSLASH, 97, 233}
Layouts  == [1..NSlots -> {"p", "k"}]
MkCfg(lay, t) == [layout |-> lay, target |-> t,
                  keys   |-> [i \in 1..NSlots |-> IF lay[i] = "k" THEN <<107, 48 + i>> ELSE <<>>],
                  fill   |-> [i \in 1..NSlots |-> <<102, 48 + i>>],
                  prefix |-> <<118, 114, 102>>, off |-> 1, quoter |-> Quoter]

Init == \E lay \in Layouts, t \in 1..NSlots : InitWith(MkCfg(lay, t))
ExtendAny == /\ phase = "build" /\ Len(text) < MaxLen
             /\ \E s \in Alphabet : text' = Append(text, s)
             /\ UNCHANGED <<cfg, phase, desc, pos, m>>
Next == ExtendAny \/ DoQuote \/ TokEscaped \/ TokColon \/ TokEquals \/ TokBackslash \/ TokPlain \/ Finish
Spec == Init /\ [][Next]_vars

Emit == phase # "done"
        \/ PrintT(<<"BEH", ToJson([layout |-> cfg.layout, target |-> cfg.target, text |-> text, desc |-> desc,
                                   args |-> m.args, kw |-> m.kw, err |-> m.err,
                                   ok |-> (~m.err /\ Holds(cfg, text, m.args, m.kw))])>>)
=============================================================================
