------------------------------- MODULE AmpRPC -------------------------------
(* C31 -- AMP request/response matching (twisted.protocols.amp: BoxDispatcher.
   _sendBoxCommand / _answerReceived / _errorReceived / _commandReceived /
   failAllOutgoing, AMP.connectionLost) between two peers over an in-memory
   network whose delivery fragments, Deferred firings and disconnects are chosen
   by a scheduler.

   Pattern A.  Calls are numbered 1..ncall in the order the callRemote calls are
   made (identity kept, argument values abstracted to the call id).  Every action
   is one scheduler step; its observable is the ordered list `obs` of
       <<"resp", c, kind, q>>   the responder for call c ran at peer q (it received kind)
       <<"fire", c, cls, v>>    the Deferred returned by callRemote number c fired: cls = "OK"
                                 (v = the id echoed in the response), "DeclErr" (v = id carried by
                                 the declared error), "UnknownRemoteError" (v = 0), or "FatalErr" (declared fatal error, v = id), or the class of the
                                 connection-loss reason (v = peer to whose connectionLost it was given)
       <<"wr", p, "", size>>    p's protocol finished writing one complete box of size bytes to its transport
       <<"lose", p, "", 0>>     p's transport.loseConnection() was called
   (writes and loseConnection calls on a transport whose connectionLost was already delivered are
   not observations: nothing the property says depends on them)

   Network model (the harness transport obeys it; it is an ASSUMPTION, stated in
   the notes): bytes written by p travel in order to Other(p) and are delivered
   in fragments of any size while the net is up and the receiver is still
   reading (a side that called loseConnection stops reading); a write after the
   side's own loseConnection is kept iff cfg.wac (real TCP transports keep it,
   iosim drops it); connectionLost(p) happens (a) any time after the net went
   down, reason ConnectionLost, (b) any time after p's own loseConnection, reason
   ConnectionDone, (c) when the other side has closed and everything it wrote has
   been consumed, reason ConnectionDone.  Message sizes are free parameters (taken
   from the observed writes).                                                    *)
EXTENDS Naturals, Integers, Sequences, FiniteSets

Peers == {1, 2}
Other(p) == 3 - p

(* responder kinds = when x how:  Now / Later  x  Ok | Decl (raises exactly a class declared in Command.errors) |
   DeclSub (raises a strict SUBCLASS of it) | Fatal / FatalSub (the same for Command.fatalErrors) | Undecl;  and Never. *)
Outcomes == {"Ok", "Decl", "DeclSub", "Fatal", "FatalSub", "Undecl"}
Kinds == {"Now" \o o : o \in Outcomes} \cup {"Later" \o o : o \in Outcomes} \cup {"Never"}
IsLater(k) == k \in {"Later" \o o : o \in Outcomes}
IsNow(k) == k \in {"Now" \o o : o \in Outcomes}
OutcomeOf(k) == IF k = "Never" THEN "None" ELSE CHOOSE o \in Outcomes : k \in {"Now" \o o, "Later" \o o}
(* what goes on the wire: an answer, an error box with a declared code, a connection-ending error box with a
   declared code (fatal), or a connection-ending error box with the unknown-error code *)
MsgOf(k) == LET o == OutcomeOf(k) IN
            IF o = "Ok" THEN "ans" ELSE IF o \in {"Decl", "DeclSub"} THEN "err"
            ELSE IF o \in {"Fatal", "FatalSub"} THEN "ferr" ELSE "qerr"

VARIABLES cfg,     \* [wac |-> BOOLEAN]
          ncall,   \* number of callRemote calls made
          caller,  \* caller[c]
          kind,    \* kind[c]: how the responder for c behaves
          re,      \* re[c]: the caller's errback for c, when it receives a connection-loss reason, issues a NEW callRemote re-entrantly
          cst,     \* cst[c] \in {"pending", "fired"}
          res,     \* res[c] = <<cls, v>> the Deferred fired with (<<"", 0>> while pending)
          nfire,   \* nfire[c] = how many times it fired (history)
          rst,     \* rst[c] \in {"none", "running", "answered"}: responder side
          pipe,    \* pipe[p] = messages written by p and not yet completely delivered
          off,     \* off[p] = bytes of Head(pipe[p]) already delivered
          ts,      \* ts[p] \in {"open", "closing", "lost"}
          net,     \* "up" | "down"
          why,     \* why[p] = class of the reason given to p's connectionLost ("" before)
          last

vars == <<cfg, ncall, caller, kind, re, cst, res, nfire, rst, pipe, off, ts, net, why, last>>

InitWith(c) ==
    /\ cfg = c /\ ncall = 0
    /\ caller = <<>> /\ kind = <<>> /\ re = <<>> /\ cst = <<>> /\ res = <<>> /\ nfire = <<>> /\ rst = <<>>
    /\ pipe = [p \in Peers |-> <<>>] /\ off = [p \in Peers |-> 0]
    /\ ts = [p \in Peers |-> "open"] /\ net = "up" /\ why = [p \in Peers |-> ""]
    /\ last = [e |-> "init", obs |-> <<>>]

-----------------------------------------------------------------------------
(* The mutable part of the state as one record, threaded through a step. *)
Pack(ws, qc) == [cst |-> cst, res |-> res, nfire |-> nfire, rst |-> rst, pipe |-> pipe, ts |-> ts,
                 obs |-> <<>>, ws |-> ws, wi |-> 1, qc |-> qc]
Unpack(R) == /\ cst' = R.cst /\ res' = R.res /\ nfire' = R.nfire /\ rst' = R.rst
             /\ pipe' = R.pipe /\ ts' = R.ts

SizeAt(ws, i) == IF i <= Len(ws) THEN ws[i] ELSE 1

(* p's protocol emits one box.  Lost: sendBox raises ConnectionLost before touching the
   transport (swallowed by _safeEmit) -- nothing observable.  Otherwise transport.write is
   called; the transport keeps the bytes if it is open, or closing and cfg.wac.          *)
Emit(R, p, t, c) ==
    IF R.ts[p] = "lost" THEN R
    ELSE LET sz == SizeAt(R.ws, R.wi)
             keep == R.ts[p] = "open" \/ cfg.wac IN
         [R EXCEPT !.obs = Append(@, <<"wr", p, "", sz>>), !.wi = @ + 1,
                   !.pipe[p] = IF keep THEN Append(@, [sz |-> sz, t |-> t, c |-> c]) ELSE @]

(* the answer to an undeclared error or to a declared FATAL error.  The property only says what the caller gets;
   whether the responding side also closes the connection afterwards (amp.py does: QuitBox) is left free -- R.qc. *)
EmitQuit(R, p, t, c) ==
    IF R.ts[p] = "lost" THEN R
    ELSE LET R1 == Emit(R, p, t, c) IN
         IF R.qc THEN [R1 EXCEPT !.obs = Append(@, <<"lose", p, "", 0>>),
                                 !.ts[p] = IF @ = "open" THEN "closing" ELSE @]
         ELSE R1

Respond(R, q, c) ==      \* the responder's result for call c becomes available at q
    LET R1 == IF MsgOf(kind[c]) \in {"qerr", "ferr"} THEN EmitQuit(R, q, MsgOf(kind[c]), c)
              ELSE Emit(R, q, MsgOf(kind[c]), c) IN
    [R1 EXCEPT !.rst[c] = "answered"]

FireWith(R, c, cls, v) ==
    [R EXCEPT !.obs = Append(@, <<"fire", c, cls, v>>),
              !.cst[c] = "fired", !.res[c] = <<cls, v>>, !.nfire[c] = @ + 1]

(* peer q dispatches one complete box *)
Dispatch(R, q, msg) ==
    IF msg.t = "ask"
    THEN LET R1 == [R EXCEPT !.obs = Append(@, <<"resp", msg.c, kind[msg.c], q>>)] IN
         IF IsNow(kind[msg.c]) THEN Respond(R1, q, msg.c)
         ELSE [R1 EXCEPT !.rst[msg.c] = "running"]
    ELSE IF msg.t = "ans" THEN FireWith(R, msg.c, "OK", msg.c)
    ELSE IF msg.t = "err" THEN FireWith(R, msg.c, "DeclErr", msg.c)         \* the DECLARED class, also for a subclass
    ELSE IF msg.t = "ferr" THEN FireWith(R, msg.c, "FatalErr", msg.c)
    ELSE FireWith(R, msg.c, "UnknownRemoteError", 0)

RECURSIVE DispatchAll(_, _, _)
DispatchAll(R, q, msgs) == IF msgs = <<>> THEN R ELSE DispatchAll(Dispatch(R, q, Head(msgs)), q, Tail(msgs))

-----------------------------------------------------------------------------
(* callRemote number ncall+1, by p, of a command whose responder behaves as k; f = this call's errback re-enters
   callRemote when it is handed a connection-loss reason.  On an open/closing connection the ask box is written. *)
CallLive(p, k, f, ws) ==
    /\ ts[p] # "lost"
    /\ LET c == ncall + 1
           R0 == [Pack(ws, FALSE) EXCEPT !.cst = Append(@, "pending"), !.res = Append(@, <<"", 0>>),
                                  !.nfire = Append(@, 0), !.rst = Append(@, "none")] IN
       \E R \in {Emit(R0, p, "ask", c)} :                                \* (\E over a singleton: evaluated once)
       /\ Unpack(R)
       /\ last' = [e |-> "call", obs |-> R.obs]
    /\ ncall' = ncall + 1
    /\ caller' = Append(caller, p) /\ kind' = Append(kind, k) /\ re' = Append(re, f)
    /\ UNCHANGED <<cfg, off, net, why>>

(* After the loss the call fails at once with the reason given to p; if its errback re-enters callRemote (f), that
   nested call -- number ncall+2, never re-entering itself -- fails at once too, inside the first one's errback.    *)
CallLost(p, k, f) ==
    /\ ts[p] = "lost"
    /\ LET n == IF f THEN 2 ELSE 1
           c == ncall + 1 IN
       /\ ncall' = ncall + n
       /\ caller' = caller \o [i \in 1..n |-> p]
       /\ kind' = kind \o (IF f THEN <<k, "NowOk">> ELSE <<k>>)
       /\ re' = re \o (IF f THEN <<TRUE, FALSE>> ELSE <<FALSE>>)
       /\ cst' = cst \o [i \in 1..n |-> "fired"]
       /\ res' = res \o [i \in 1..n |-> <<why[p], p>>]
       /\ nfire' = nfire \o [i \in 1..n |-> 1]
       /\ rst' = rst \o [i \in 1..n |-> "none"]
       /\ last' = [e |-> "call", obs |-> [i \in 1..n |-> <<"fire", ncall + i, why[p], p>>]]
    /\ UNCHANGED <<cfg, pipe, off, ts, net, why>>

Call(p, k, f, ws) == CallLive(p, k, f, ws) \/ CallLost(p, k, f)

RECURSIVE SumSz(_)
SumSz(ms) == IF ms = <<>> THEN 0 ELSE ms[1].sz + SumSz(Tail(ms))
Avail(p) == SumSz(pipe[p]) - off[p]

RECURSIVE NDone(_, _)      \* how many leading messages are complete once b bytes of the sequence have arrived
NDone(ms, b) == IF ms = <<>> \/ ms[1].sz > b THEN 0 ELSE 1 + NDone(Tail(ms), b - ms[1].sz)

(* n bytes written by p reach Other(p) in one dataReceived call *)
Deliver(p, n, ws, qc) ==
    /\ net = "up" /\ ts[Other(p)] = "open"
    /\ n >= 1 /\ n <= Avail(p)
    /\ LET q == Other(p)
           b == off[p] + n
           k == NDone(pipe[p], b)
           done == SubSeq(pipe[p], 1, k)
           R0 == [Pack(ws, qc) EXCEPT !.pipe[p] = SubSeq(@, k + 1, Len(@))] IN
       \E R \in {DispatchAll(R0, q, done)} :
       /\ Unpack(R)
       /\ off' = [off EXCEPT ![p] = b - SumSz(done)]
       /\ last' = [e |-> "deliver", obs |-> R.obs]
    /\ UNCHANGED <<cfg, ncall, caller, kind, re, net, why>>

(* the scheduler fires the Deferred a Later responder returned for call c *)
Fire(c, ws, qc) ==
    /\ c \in 1..ncall /\ rst[c] = "running" /\ IsLater(kind[c])
    /\ \E R \in {Respond(Pack(ws, qc), Other(caller[c]), c)} :
       /\ Unpack(R)
       /\ last' = [e |-> "fire", obs |-> R.obs]
    /\ UNCHANGED <<cfg, ncall, caller, kind, re, off, net, why>>

(* application code calls p.transport.loseConnection() *)
UserClose(p) ==
    /\ ts[p] # "lost"
    /\ ts' = [ts EXCEPT ![p] = IF @ = "open" THEN "closing" ELSE @]
    /\ last' = [e |-> "close", obs |-> << <<"lose", p, "", 0>> >>]
    /\ UNCHANGED <<cfg, ncall, caller, kind, re, cst, res, nfire, rst, pipe, off, net, why>>

(* the network dies: everything in flight is gone *)
Drop ==
    /\ net = "up"
    /\ net' = "down"
    /\ last' = [e |-> "drop", obs |-> <<>>]
    /\ UNCHANGED <<cfg, ncall, caller, kind, re, cst, res, nfire, rst, pipe, off, ts, why>>

CanNotify(p, r) ==
    /\ ts[p] # "lost"
    /\ \/ net = "down" /\ r = "ConnectionLost"
       \/ net = "up" /\ ts[p] = "closing" /\ r = "ConnectionDone"
       \/ net = "up" /\ ts[p] = "open" /\ ts[Other(p)] # "open" /\ pipe[Other(p)] = <<>> /\ r = "ConnectionDone"

Pending(p) == {c \in 1..ncall : caller[c] = p /\ cst[c] = "pending"}

(* connectionLost(reason r) is delivered to p: every pending call of p fails with that reason.  The order of the
   failures is not part of the property: ord is any enumeration of Pending(p).  A failing call whose errback re-enters
   callRemote (re[c]) makes a NEW call inside its errback; the connection is lost, so that call fails at once with the
   same reason (observed right after its parent's failure); new calls are numbered in the order they are made.      *)
RECURSIVE NotifyObs(_, _, _, _)
NotifyObs(ord, next, r, p) ==
    IF ord = <<>> THEN <<>>
    ELSE IF re[ord[1]] THEN << <<"fire", ord[1], r, p>>, <<"fire", next, r, p>> >> \o NotifyObs(Tail(ord), next + 1, r, p)
    ELSE << <<"fire", ord[1], r, p>> >> \o NotifyObs(Tail(ord), next, r, p)

Notify(p, r, ord) ==
    /\ CanNotify(p, r)
    /\ Len(ord) = Cardinality(Pending(p)) /\ {ord[i] : i \in 1..Len(ord)} = Pending(p)
    /\ LET n == Cardinality({c \in Pending(p) : re[c]}) IN
       /\ ncall' = ncall + n
       /\ caller' = caller \o [i \in 1..n |-> p]
       /\ kind' = kind \o [i \in 1..n |-> "NowOk"]
       /\ re' = re \o [i \in 1..n |-> FALSE]
       /\ cst' = [c \in 1..ncall |-> IF c \in Pending(p) THEN "fired" ELSE cst[c]] \o [i \in 1..n |-> "fired"]
       /\ res' = [c \in 1..ncall |-> IF c \in Pending(p) THEN <<r, p>> ELSE res[c]] \o [i \in 1..n |-> <<r, p>>]
       /\ nfire' = [c \in 1..ncall |-> IF c \in Pending(p) THEN nfire[c] + 1 ELSE nfire[c]] \o [i \in 1..n |-> 1]
       /\ rst' = rst \o [i \in 1..n |-> "none"]
    /\ ts' = [ts EXCEPT ![p] = "lost"]
    /\ why' = [why EXCEPT ![p] = r]
    /\ last' = [e |-> "notify", obs |-> NotifyObs(ord, ncall + 1, r, p)]
    /\ UNCHANGED <<cfg, pipe, off, net>>

-----------------------------------------------------------------------------
(* The property *)
Calls == 1..ncall
ExactlyOnce == \A c \in Calls : nfire[c] <= 1 /\ (nfire[c] = 1 <=> cst[c] = "fired")
(* a fired Deferred carries its OWN command's response / error, or the loss reason given to its own peer *)
OwnResult == \A c \in Calls : cst[c] = "fired" =>
    \/ res[c] = <<"OK", c>> /\ OutcomeOf(kind[c]) = "Ok" /\ rst[c] = "answered"
    \/ res[c] = <<"DeclErr", c>> /\ OutcomeOf(kind[c]) \in {"Decl", "DeclSub"} /\ rst[c] = "answered"
    \/ res[c] = <<"FatalErr", c>> /\ OutcomeOf(kind[c]) \in {"Fatal", "FatalSub"} /\ rst[c] = "answered"
    \/ res[c] = <<"UnknownRemoteError", 0>> /\ OutcomeOf(kind[c]) = "Undecl" /\ rst[c] = "answered"
    \/ res[c] = <<why[caller[c]], caller[c]>> /\ ts[caller[c]] = "lost"
(* nothing stays pending once the caller's connection is lost (unanswered calls fail at disconnect, later calls at once) *)
NonePendingAfterLoss == \A c \in Calls : ts[caller[c]] = "lost" => cst[c] = "fired"
(* a "Never" responder's call can only end with the loss reason *)
NeverOnlyLoss == \A c \in Calls : (kind[c] = "Never" /\ cst[c] = "fired") => res[c][1] \in {"ConnectionDone", "ConnectionLost"}
WhyOK == \A p \in Peers : (ts[p] = "lost") <=> (why[p] # "")

Inv == ExactlyOnce /\ OwnResult /\ NonePendingAfterLoss /\ NeverOnlyLoss /\ WhyOK
=============================================================================
