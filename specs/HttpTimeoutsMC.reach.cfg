SPECIFICATION Spec
CONSTRAINT Bound
VIEW View
CONSTANT Configs <- ConfigsReach
CONSTANT MaxNow <- MaxNowThorough
CONSTANT Depth <- DepthReach
INVARIANT NoLeakEver
CHECK_DEADLOCK FALSE
