SPECIFICATION SSpec
CONSTANT Depth = 10
CONSTRAINT Stop
CHECK_DEADLOCK FALSE
