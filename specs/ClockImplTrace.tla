---------------------------- MODULE ClockImplTrace ----------------------------
(* Binds the Impl layer to the code: recorded executions of the real task.Clock are replayed through
   ClockImpl (deterministic: it also predicts the order among equal times).  A trace ClockImpl cannot
   reproduce while TimersAbs accepts it is reported as impl_drift, never as a violation.               *)
EXTENDS ClockImpl, TLC, Json, IOUtils

Traces == JsonDeserialize(IOEnv.TRACE_FILE)
VARIABLES tid, l
ASSUME \A t \in 1..Len(Traces) : TLCSet(t, 1)

T == Traces[tid]
E == T.ev[l]

TInit == /\ tid \in 1..Len(Traces) /\ l = 1
         /\ IInitWith([flavour |-> "clock", neg |-> Traces[tid].cfg.neg])

SameSet(s, S) == SeqSet(s) = S /\ Len(s) = Cardinality(S)
Matches ==
    /\ last'.e = E.e
    /\ E.e = "later"   => (last'.d = E.d /\ last'.id = E.id /\ last'.t = E.t)
    /\ E.e = "cancel"  => (last'.id = E.id /\ last'.res = E.res)
    /\ E.e \in {"reset", "delay"} => (last'.id = E.id /\ last'.d = E.d /\ last'.res = E.res /\ last'.t = E.t)
    /\ E.e = "gdc"     => SameSet(E.ids, last'.ids)
    /\ E.e = "adv"     => last'.d = E.d
    /\ E.e = "run"     => (last'.id = E.id /\ last'.now = E.now /\ SameSet(E.gdc, last'.gdc))

Step(A) == /\ l <= Len(T.ev) /\ A /\ Matches /\ l' = l + 1 /\ UNCHANGED tid

TNext == \/ (E.e = "later"   /\ Step(ICallLater(E.d)))
         \/ (E.e = "cancel"  /\ Step(ICancelOk(E.id) \/ ICancelRefused(E.id)))
         \/ (E.e = "reset"   /\ Step(IResetOk(E.id, E.d) \/ IResetRefused(E.id, E.d)))
         \/ (E.e = "delay"   /\ Step(IDelayOk(E.id, E.d) \/ IDelayRefused(E.id, E.d)))
         \/ (E.e = "gdc"     /\ Step(IGdc))
         \/ (E.e = "adv"     /\ Step(IAdvance(E.d)))
         \/ (E.e = "run"     /\ Step(ILoopRun))
         \/ (E.e = "ret"     /\ Step(IRunEnd))
         \/ (E.e = "iterend" /\ Step(IAdvanceEnd))

TSpec == TInit /\ [][l <= Len(T.ev) /\ TNext]_<<ivars, tid, l>>

Progress == TLCSet(tid, IF TLCGet(tid) > l THEN TLCGet(tid) ELSE l)
Rejected == {<<t, TLCGet(t)>> : t \in {u \in 1..Len(Traces) : TLCGet(u) # Len(Traces[u].ev) + 1}}
Accepted == Rejected = {} \/ (PrintT(<<"REJECTED", Rejected>>) /\ FALSE)
=============================================================================
