--------------------------- MODULE SecureStreamMC ---------------------------
(* Exhaustive TLC run of the property-level specification with a bounded environment. *)
EXTENDS SecureStream, TLC
CONSTANTS MaxBytes, Depth

Init == InitWith([variant |-> "buffered"])
MCWrite == \E p \in Sides, n \in 1..2 : Write(p, n) /\ may[p] + n <= MaxBytes
MCLose == \E p \in Sides : Lose(p) /\ ~loseCalled[p]
MCReg == \E p \in Sides : Reg(p)
MCUnreg == \E p \in Sides : Unreg(p)
MCXClose == \E p \in Sides : XClose(p)
MCEof == \E p \in Sides : Eof(p)
MCHs == \E p \in Sides : Hs(p)
MCAppData == \E p \in Sides, n \in 1..2 : AppData(p, n)
MCLost == \E p \in Sides, c \in BOOLEAN : Lost(p, c)
MCTClose == \E p \in Sides, a \in BOOLEAN : TClose(p, a)
MCQuiesce == Quiesce
Next == MCWrite \/ MCLose \/ MCReg \/ MCUnreg \/ MCXClose \/ MCEof \/ MCHs \/ MCAppData \/ MCLost \/ MCTClose \/ MCQuiesce
Spec == Init /\ [][Next]_vars
Bound == TLCGet("level") <= Depth
View == <<cfg, acc, may, rcvd, loseCalled, prod, hs, lost, tclosed, xclosed>>
=============================================================================
