SPECIFICATION Spec
CONSTANT MaxLen = 4
CONSTANT DescLen = 2
CONSTANT Symbols <- SymFull
CONSTANT DescSymbols <- SymFull
CONSTANT Modes = {"component"}
INVARIANT LastConfined
INVARIANT NothingOutside
INVARIANT LexLemmas
PROPERTY Refines
CHECK_DEADLOCK FALSE
