---------------------------- MODULE HttpReqWire ----------------------------
(* C24 -- HTTP client requests serialize to exactly the intended message.

   State = what the property talks about: the method, request target, header set
   and body the caller intends, and the octets written to the transport.
   Actions = the public calls and their outcomes: building the header set
   (Headers.addRawHeader), constructing the request (Request(method, uri, headers,
   bodyProducer)), writeTo(transport), the body producer's writes, completion of
   writeTo's Deferred.  The verdict is Judge: the octets written, parsed by the
   reference parser of HttpMsgSyntax, must be exactly one request with that
   method, target, headers and body, framed with Content-Length or chunked coding.
   A method or target with invalid characters must be refused (ValueError) with
   nothing written -- whether it is given at construction or assigned to the
   public attributes afterwards.
   cfg = [persistent |-> BOOLEAN].                                              *)
EXTENDS HttpMsgSyntax

VARIABLES cfg, phase, method, target, hdrs, bodyKind, produced, wire, last
vars == <<cfg, phase, method, target, hdrs, bodyKind, produced, wire, last>>

InitWith(c) ==
    /\ cfg = c
    /\ phase = "headers"         \* headers -> built -> writing -> done | refused
    /\ method = <<>> /\ target = <<>>
    /\ hdrs = <<>>               \* <<lower-case name, sequence of values>> in order of first addition
    /\ bodyKind = "none"         \* none | known | unknown
    /\ produced = <<>>
    /\ wire = <<>>
    /\ last = [e |-> "init", res |-> "ok"]

ValidMethod(m) == IsToken(m)
ValidTarget(t) == Len(t) > 0 /\ AllOf(t, IsVchar)
NameValid(n) == Len(n) > 0 /\ \A i \in 1..Len(n) : n[i] < 128 /\ IsTchar(n[i])
UserNames == {hdrs[i][1] : i \in 1..Len(hdrs)}
Body == Concat(produced, 1)

(* Headers.addRawHeader(name, value) *)
AddVal(n, v) ==
    IF \E i \in 1..Len(hdrs) : hdrs[i][1] = n
    THEN [i \in 1..Len(hdrs) |-> IF hdrs[i][1] = n THEN <<n, Append(hdrs[i][2], v)>> ELSE hdrs[i]]
    ELSE Append(hdrs, <<n, <<v>> >>)
AddHeaderOk(n, v, txt) ==
    /\ phase = "headers" /\ NameValid(n)
    /\ hdrs' = AddVal(LowerSeq(n), ValOctets(v, txt))
    /\ last' = [e |-> "hdr", res |-> "ok"]
    /\ UNCHANGED <<cfg, phase, method, target, bodyKind, produced, wire>>
AddHeaderRefused(n, v, txt) ==
    /\ phase = "headers" /\ (~NameValid(n) \/ HasUnsafe(ValOctets(v, txt)))
    /\ last' = [e |-> "hdr", res |-> "refused"]
    /\ UNCHANGED <<cfg, phase, method, target, hdrs, bodyKind, produced, wire>>

(* Request(method, uri, headers, bodyProducer) *)
ConstructOk(m, t, bk) ==
    /\ phase = "headers" /\ ValidMethod(m) /\ ValidTarget(t)
    /\ phase' = "built" /\ method' = m /\ target' = t /\ bodyKind' = bk
    /\ last' = [e |-> "construct", res |-> "ok"]
    /\ UNCHANGED <<cfg, hdrs, produced, wire>>
ConstructRefused(m, t, bk) ==
    /\ phase = "headers" /\ ~(ValidMethod(m) /\ ValidTarget(t))
    /\ phase' = "refused"
    /\ last' = [e |-> "construct", res |-> "refused"]
    /\ UNCHANGED <<cfg, method, target, hdrs, bodyKind, produced, wire>>

(* request.method = m; request.uri = t  (public attributes) *)
Assign(m, t) ==
    /\ phase = "built"
    /\ method' = m /\ target' = t
    /\ last' = [e |-> "assign", res |-> "ok"]
    /\ UNCHANGED <<cfg, phase, hdrs, bodyKind, produced, wire>>

(* writeTo(transport): out = octets written during the call *)
WriteToOk(out) ==
    /\ phase = "built" /\ ValidMethod(method) /\ ValidTarget(target)
    /\ phase' = "writing" /\ wire' = out
    /\ last' = [e |-> "writeTo", res |-> "ok"]
    /\ UNCHANGED <<cfg, method, target, hdrs, bodyKind, produced>>
WriteToRefused(out) ==      \* refused before anything is written
    /\ phase = "built" /\ ~(ValidMethod(method) /\ ValidTarget(target))
    /\ out = <<>>
    /\ phase' = "refused"
    /\ last' = [e |-> "writeTo", res |-> "refused"]
    /\ UNCHANGED <<cfg, method, target, hdrs, bodyKind, produced, wire>>

(* the body producer writes data to the consumer it was given; out = octets reaching the transport *)
Produce(data, out) ==
    /\ phase = "writing" /\ bodyKind # "none"
    /\ produced' = Append(produced, data) /\ wire' = wire \o out
    /\ last' = [e |-> "produce", res |-> "ok"]
    /\ UNCHANGED <<cfg, phase, method, target, hdrs, bodyKind>>

-----------------------------------------------------------------------------
(* The property. *)
HeadersOK(ph) ==
    /\ \A i \in 1..Len(hdrs) :
          LET vals == HdrVals(ph, hdrs[i][1])
          IN Len(vals) = Len(hdrs[i][2]) /\ \A k \in 1..Len(vals) : vals[k] \in ValueAlts(hdrs[i][2][k])
    /\ \A j \in 1..Len(ph) : ph[j][1] \in UserNames \cup FramingNames

Judge(w) ==
    LET r == ParseRequest(w)
    IN /\ r.ok
       /\ r.method = method /\ r.target = target /\ r.major = 1 /\ r.minor = 1
       /\ HeadersOK(r.hdrs)
       /\ r.body = Body
       /\ (bodyKind = "none" => r.kind \in {"none", "length"})
       /\ (bodyKind # "none" => r.kind \in {"length", "chunked"})

(* the Deferred returned by writeTo fires with success: out = octets written at completion *)
Done(out) ==
    /\ phase = "writing"
    /\ Judge(wire \o out)
    /\ phase' = "done" /\ wire' = wire \o out
    /\ last' = [e |-> "done", res |-> "ok"]
    /\ UNCHANGED <<cfg, method, target, hdrs, bodyKind, produced>>

Inv == /\ phase = "done" => Judge(wire)
       /\ phase = "refused" => wire = <<>>
=============================================================================
