SPECIFICATION Spec
CONSTRAINT Bound
VIEW View
INVARIANT Forest
INVARIANT RunConsistent
INVARIANT NoDouble
INVARIANT NameIndex
INVARIANT Watchers

CHECK_DEADLOCK FALSE
