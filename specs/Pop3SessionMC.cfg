SPECIFICATION Spec
CONSTANTS
  MaxN = 1
  MaxQ = 2
  MaxSess = 2
  MaxLater = 1
  Depth = 5
  Full = FALSE
CONSTRAINT Bound
VIEW View
INVARIANT ReplyConservation
INVARIANT NoStuckQueue
INVARIANT MarksSane
INVARIANT ExpungeOnlyAfterQuit
INVARIANT PendingMsgLive
INVARIANT LogoutDiscipline
PROPERTY Props
CHECK_DEADLOCK FALSE
