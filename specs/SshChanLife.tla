----------------------------- MODULE SshChanLife -----------------------------
(* Extension X20 -- twisted.conch.ssh.connection.SSHConnection: the life cycle of channels.
   Two connection services (sides 1 and 2) are joined by one lossless FIFO packet queue per direction
   (q[s] = packets in flight TO side s).  Each side's application may
     openChannel (type "ok" is accepted by the peer, "bad" is an unknown channel type),
     sendEOF / write one byte / loseConnection / sendRequest on any channel object it holds,
     fire the Deferred its request_defer handler returned, and stop the service (serviceStopped).
   A channel is named by (side, local id); ch[s][id+1] is its record:
     st = "opening" (in conn.channels only) | "open" (in channels and both id maps)
        | "failed" (openFailed was called)  | "closed" (closed() was called; id released)
   Implementation-shaped; deliberate deviations from what one might expect are marked ODDITY. *)
EXTENDS Naturals, Integers, Sequences, FiniteSets

VARIABLES cfg,      \* [auto |-> <<b1, b2>>]: side s's closeReceived() answers CLOSE by loseConnection() (the default) or not
          ch,       \* side -> sequence of channel records (index = local id + 1 = allocation order)
          q,        \* side -> sequence of packets in flight to that side
          stopped,  \* side -> serviceStopped was called
          oorder,   \* side -> local ids of the open channels in the order they became open
          dfr,      \* side -> sequence of [st, nf]: the Deferreds sendRequest(wantReply) returned, in creation order
          cnt,      \* counters of effective application calls (bounds the exhaustive run)
          last      \* observation of the latest step
vars == <<cfg, ch, q, stopped, oorder, dfr, cnt, last>>

S == {1, 2}
Other(s) == 3 - s
None == -1
ConnectionLostCode == 99     \* harness encoding of twisted.internet.error.ConnectionLost (has no SSH reason code)
UnknownChannelType == 3      \* OPEN_UNKNOWN_CHANNEL_TYPE
ReqKinds == {"ok", "no", "none", "defer"}

Msg(t, c, x, k) == [t |-> t, ch |-> c, x |-> x, k |-> k]
NewChan(st, org, rid, nopen) ==
    [st |-> st, org |-> org, rid |-> rid, lc |-> FALSE, rc |-> FALSE,
     closing |-> FALSE,  \* loseConnection() was called (remembered even when the call raised)
     dq |-> <<>>,        \* numbers of the pending want-reply Deferreds of requests WE sent on this channel (FIFO)
     pend |-> <<>>,      \* want_reply flags of received requests whose handler returned an unfired Deferred
     nopen |-> nopen, nfail |-> 0, nclosed |-> 0,   \* calls of channelOpen / openFailed / closed
     nsc |-> 0, nrc |-> 0, bystop |-> FALSE,         \* CLOSE sent / received; closed by serviceStopped
     nwant |-> 0, nrep |-> 0, nlost |-> 0]           \* want_reply requests received / replies sent / replies never sent

Exists(s, c) == c >= 0 /\ c < Len(ch[s])
C(s, c) == ch[s][c + 1]
InChannels(s, c) == Exists(s, c) /\ C(s, c).st \in {"opening", "open"}     \* c in conn.channels
Mapped(s, c) == Exists(s, c) /\ C(s, c).st = "open"                        \* c in localToRemoteChannel
NoRemote(s, c) == C(s, c).st \in {"opening", "failed"}                     \* channel not in channelsToRemoteChannel and not localClosed
Range(f) == {f[i] : i \in 1..Len(f)}
Without(f, x) == SelectSeq(f, LAMBDA y : y # x)
RemoveAt(f, i) == [j \in 1..(Len(f) - 1) |-> IF j < i THEN f[j] ELSE f[j + 1]]
SetChan(s, c, r) == [ch EXCEPT ![s][c + 1] = r]
Send(s, out) == [q EXCEPT ![Other(s)] = @ \o out]
Recv(s, out) == [q EXCEPT ![s] = Tail(@), ![Other(s)] = @ \o out]

InitWith(c) ==
    /\ cfg = c
    /\ ch = [s \in S |-> <<>>] /\ q = [s \in S |-> <<>>] /\ stopped = [s \in S |-> FALSE]
    /\ oorder = [s \in S |-> <<>>] /\ dfr = [s \in S |-> <<>>]
    /\ cnt = [open |-> 0, eof |-> 0, wr |-> 0, req |-> 0, close |-> 0, res |-> 0]
    /\ last = [e |-> "init", s |-> 0, sent |-> <<>>, cb |-> <<>>, exc |-> ""]

(* channelClosed(channel): the channel leaves all three maps, every pending request Deferred is errbacked
   ("Channel closed."), then closed() is called. *)
Finalize(r, stop) == [r EXCEPT !.st = "closed", !.lc = TRUE, !.rc = TRUE, !.nclosed = @ + 1, !.dq = <<>>, !.bystop = stop]
CloseCb(s, c) == [i \in 1..Len(C(s, c).dq) |-> <<"d_closed", C(s, c).dq[i], 0>>] \o << <<"closed", c, 0>> >>
Fire(d, ns, how) == [n \in 1..Len(d) |-> IF n \in ns THEN [st |-> how, nf |-> d[n].nf + 1] ELSE d[n]]

-----------------------------------------------------------------------------
(* conn.openChannel(channel): the next local id is allocated and CHANNEL_OPEN is sent *)
Open(s, k) ==
    /\ ~stopped[s] /\ k \in {"ok", "bad"}
    /\ LET id == Len(ch[s])  m == Msg("OPEN", id, 0, k) IN
       /\ ch' = [ch EXCEPT ![s] = Append(@, NewChan("opening", "local", None, 0))]
       /\ q' = Send(s, <<m>>)
       /\ last' = [e |-> "open", s |-> s, k |-> k, sent |-> <<m>>, cb |-> <<>>, exc |-> ""]
    /\ cnt' = [cnt EXCEPT !.open = @ + 1]
    /\ UNCHANGED <<cfg, stopped, oorder, dfr>>

DLast(s, m, out, cb) == [e |-> "deliver", s |-> s, m |-> m, sent |-> out, cb |-> cb, exc |-> ""]
CanDeliver(s) == ~stopped[s] /\ q[s] # <<>>

(* CHANNEL_OPEN: a known type gets a channel with the next local id, OPEN_CONFIRMATION, then channelOpen();
   an unknown type gets OPEN_FAILURE and consumes no id *)
DeliverOpen(s) ==
    /\ CanDeliver(s) /\ Head(q[s]).t = "OPEN"
    /\ LET m == Head(q[s])  id == Len(ch[s]) IN
       IF m.k = "ok"
       THEN LET out == <<Msg("CONF", m.ch, id, "")>> IN
            /\ ch' = [ch EXCEPT ![s] = Append(@, NewChan("open", "remote", m.ch, 1))]
            /\ oorder' = [oorder EXCEPT ![s] = Append(@, id)]
            /\ q' = Recv(s, out)
            /\ last' = DLast(s, m, out, << <<"channelOpen", id, 0>> >>)
       ELSE LET out == <<Msg("FAIL", m.ch, UnknownChannelType, "")>> IN
            /\ q' = Recv(s, out)
            /\ last' = DLast(s, m, out, <<>>)
            /\ UNCHANGED <<ch, oorder>>
    /\ UNCHANGED <<cfg, stopped, dfr, cnt>>

(* OPEN_CONFIRMATION: the id maps are filled in and channelOpen() is called *)
DeliverConf(s) ==
    /\ CanDeliver(s) /\ Head(q[s]).t = "CONF"
    /\ LET m == Head(q[s])  c == m.ch IN
       /\ Exists(s, c) /\ C(s, c).st = "opening"
       /\ ch' = SetChan(s, c, [C(s, c) EXCEPT !.st = "open", !.rid = m.x, !.nopen = @ + 1])
       /\ oorder' = [oorder EXCEPT ![s] = Append(@, c)]
       /\ q' = Recv(s, <<>>)
       /\ last' = DLast(s, m, <<>>, << <<"channelOpen", c, 0>> >>)
    /\ UNCHANGED <<cfg, stopped, dfr, cnt>>

(* OPEN_FAILURE: the id is released and openFailed(reason) is called *)
DeliverFail(s) ==
    /\ CanDeliver(s) /\ Head(q[s]).t = "FAIL"
    /\ LET m == Head(q[s])  c == m.ch IN
       /\ Exists(s, c) /\ C(s, c).st = "opening"
       /\ ch' = SetChan(s, c, [C(s, c) EXCEPT !.st = "failed", !.nfail = @ + 1])
       /\ q' = Recv(s, <<>>)
       /\ last' = DLast(s, m, <<>>, << <<"openFailed", c, m.x>> >>)
    /\ UNCHANGED <<cfg, stopped, oorder, dfr, cnt>>

(* CHANNEL_EOF / CHANNEL_DATA: handed to the channel as long as its id is registered.
   ODDITY: this includes a channel that already sent CLOSE itself (it is only half closed), and EOF is not
   de-duplicated: every EOF packet is an eofReceived() call. *)
DeliverEofData(s) ==
    /\ CanDeliver(s) /\ Head(q[s]).t \in {"EOF", "DATA"}
    /\ LET m == Head(q[s])  c == m.ch IN
       /\ Mapped(s, c)
       /\ q' = Recv(s, <<>>)
       /\ last' = DLast(s, m, <<>>, << IF m.t = "EOF" THEN <<"eof", c, 0>> ELSE <<"data", c, m.x>> >>)
    /\ UNCHANGED <<cfg, ch, stopped, oorder, dfr, cnt>>

(* CHANNEL_CLOSE: closeReceived(); the default closeReceived() answers with CLOSE (once); when CLOSE has been
   both sent and received the channel is closed *)
DeliverClose(s) ==
    /\ CanDeliver(s) /\ Head(q[s]).t = "CLOSE"
    /\ LET m == Head(q[s])  c == m.ch IN
       /\ Mapped(s, c)
       /\ LET r == C(s, c)
              answer == cfg.auto[s] /\ ~r.lc
              out == IF answer THEN <<Msg("CLOSE", r.rid, 0, "")>> ELSE <<>>
              r1 == [r EXCEPT !.rc = TRUE, !.nrc = @ + 1, !.lc = (r.lc \/ answer), !.nsc = @ + (IF answer THEN 1 ELSE 0)]
          IN /\ q' = Recv(s, out)
             /\ IF r1.lc
                  THEN /\ ch' = SetChan(s, c, Finalize(r1, FALSE))
                       /\ dfr' = [dfr EXCEPT ![s] = Fire(@, Range(r.dq), "closed")]
                       /\ oorder' = [oorder EXCEPT ![s] = Without(@, c)]
                       /\ last' = DLast(s, m, out, << <<"closeReceived", c, 0>> >> \o CloseCb(s, c))
                  ELSE /\ ch' = SetChan(s, c, r1)
                       /\ last' = DLast(s, m, out, << <<"closeReceived", c, 0>> >>)
                       /\ UNCHANGED <<dfr, oorder>>
    /\ UNCHANGED <<cfg, stopped, cnt>>

(* CHANNEL_REQUEST: requestReceived() dispatches to request_<name>; with want_reply the outcome is answered by
   CHANNEL_SUCCESS / CHANNEL_FAILURE - at once, or when the Deferred the handler returned fires (Resolve).
   "none" has no handler (answered FAILURE, no callback).
   ODDITY: the reply is sent even when this side already sent CLOSE (a packet for the channel after its CLOSE). *)
DeliverReq(s) ==
    /\ CanDeliver(s) /\ Head(q[s]).t = "REQ"
    /\ LET m == Head(q[s])  c == m.ch  w == m.x IN
       /\ Mapped(s, c) /\ m.k \in ReqKinds
       /\ LET r == C(s, c)
              reply == IF m.k = "ok" THEN "SUCC" ELSE "FAILR"
              out == IF w = 1 /\ m.k # "defer" THEN <<Msg(reply, r.rid, 0, "")>> ELSE <<>>
              cb == IF m.k = "none" THEN <<>> ELSE << <<"req_" \o m.k, c, 0>> >>
          IN /\ q' = Recv(s, out)
             /\ ch' = SetChan(s, c, [r EXCEPT !.nwant = @ + w, !.nrep = @ + Len(out),
                                              !.pend = IF m.k = "defer" THEN Append(@, w) ELSE @])
             /\ last' = DLast(s, m, out, cb)
    /\ UNCHANGED <<cfg, stopped, oorder, dfr, cnt>>

(* CHANNEL_SUCCESS / CHANNEL_FAILURE: fires the OLDEST pending request Deferred of that channel; ignored when none.
   ODDITY: replies are matched by position only, so a peer that answers a deferred request late completes the
   wrong Deferred - the model reproduces exactly that. *)
DeliverReply(s) ==
    /\ CanDeliver(s) /\ Head(q[s]).t \in {"SUCC", "FAILR"}
    /\ LET m == Head(q[s])  c == m.ch IN
       /\ Exists(s, c)
       /\ q' = Recv(s, <<>>)
       /\ IF C(s, c).dq # <<>>
            THEN LET n == Head(C(s, c).dq)  how == IF m.t = "SUCC" THEN "ok" ELSE "fail" IN
                 /\ ch' = SetChan(s, c, [C(s, c) EXCEPT !.dq = Tail(@)])
                 /\ dfr' = [dfr EXCEPT ![s] = Fire(@, {n}, how)]
                 /\ last' = DLast(s, m, <<>>, << <<"d_" \o how, n, 0>> >>)
            ELSE /\ last' = DLast(s, m, <<>>, <<>>)
                 /\ UNCHANGED <<ch, dfr>>
    /\ UNCHANGED <<cfg, stopped, oorder, cnt>>

Deliver(s) == \/ DeliverOpen(s) \/ DeliverConf(s) \/ DeliverFail(s) \/ DeliverEofData(s)
              \/ DeliverClose(s) \/ DeliverReq(s) \/ DeliverReply(s)

-----------------------------------------------------------------------------
(* Application calls on a channel object (named by its local id).  For a channel that never became open the
   connection has no remote id: the call raises KeyError and changes nothing (ODDITY: a channel cannot be closed,
   nor asked anything, before its OPEN_CONFIRMATION arrived or after its open failed).  For a channel that sent
   CLOSE (or is closed) every call is a silent no-op. *)
CallLast(e, s, c, out, cb, exc) == [e |-> e, s |-> s, c |-> c, sent |-> out, cb |-> cb, exc |-> exc]

(* conn.sendEOF(channel).  ODDITY: nothing remembers that EOF was sent; a second call sends a second EOF and
   data written afterwards is still sent. *)
Eof(s, c) ==
    /\ Exists(s, c)
    /\ LET r == C(s, c)  act == r.st = "open" /\ ~r.lc
           out == IF act THEN <<Msg("EOF", r.rid, 0, "")>> ELSE <<>> IN
       /\ q' = Send(s, out)
       /\ cnt' = IF act THEN [cnt EXCEPT !.eof = @ + 1] ELSE cnt
       /\ last' = CallLast("eof", s, c, out, <<>>, IF NoRemote(s, c) THEN "KeyError" ELSE "")
    /\ UNCHANGED <<cfg, ch, stopped, oorder, dfr>>

(* channel.write(one byte); the byte is a running number so that the receiver's log shows order and loss.
   ODDITY: loseConnection() on a channel that is still opening raises KeyError but leaves channel.closing set, so
   the first write() after the confirmation sends its data and then CLOSE by itself. *)
Write(s, c) ==
    /\ Exists(s, c) /\ C(s, c).st \in {"open", "closed"}     \* harness discipline: only after channelOpen()
    /\ LET r == C(s, c)  act == r.st = "open" /\ ~r.lc
           cl == act /\ r.closing
           out == IF act THEN <<Msg("DATA", r.rid, cnt.wr + 1, "")>> \o (IF cl THEN <<Msg("CLOSE", r.rid, 0, "")>> ELSE <<>>) ELSE <<>>
           r1 == [r EXCEPT !.lc = TRUE, !.nsc = @ + 1] IN
       /\ q' = Send(s, out)
       /\ cnt' = IF act THEN [cnt EXCEPT !.wr = @ + 1] ELSE cnt
       /\ IF cl /\ r.rc
            THEN /\ ch' = SetChan(s, c, Finalize(r1, FALSE))
                 /\ dfr' = [dfr EXCEPT ![s] = Fire(@, Range(r.dq), "closed")]
                 /\ oorder' = [oorder EXCEPT ![s] = Without(@, c)]
                 /\ last' = CallLast("write", s, c, out, CloseCb(s, c), "")
            ELSE /\ ch' = IF cl THEN SetChan(s, c, r1) ELSE ch
                 /\ last' = CallLast("write", s, c, out, <<>>, "")
                 /\ UNCHANGED <<dfr, oorder>>
    /\ UNCHANGED <<cfg, stopped>>

(* channel.loseConnection() (nothing buffered) -> conn.sendClose(channel): CLOSE is sent once; if the peer's CLOSE
   was already received the channel is closed now *)
Close(s, c) ==
    /\ Exists(s, c)
    /\ LET r == C(s, c)  act == r.st = "open" /\ ~r.lc
           out == IF act THEN <<Msg("CLOSE", r.rid, 0, "")>> ELSE <<>>
           r0 == [r EXCEPT !.closing = TRUE]
           r1 == [r0 EXCEPT !.lc = TRUE, !.nsc = @ + 1] IN
       /\ q' = Send(s, out)
       /\ cnt' = IF act THEN [cnt EXCEPT !.close = @ + 1] ELSE cnt
       /\ IF act /\ r.rc
            THEN /\ ch' = SetChan(s, c, Finalize(r1, FALSE))
                 /\ dfr' = [dfr EXCEPT ![s] = Fire(@, Range(r.dq), "closed")]
                 /\ oorder' = [oorder EXCEPT ![s] = Without(@, c)]
                 /\ last' = CallLast("close", s, c, out, CloseCb(s, c), "")
            ELSE /\ ch' = SetChan(s, c, IF act THEN r1 ELSE r0)
                 /\ last' = CallLast("close", s, c, out, <<>>, IF NoRemote(s, c) THEN "KeyError" ELSE "")
                 /\ UNCHANGED <<dfr, oorder>>
    /\ UNCHANGED <<cfg, stopped>>

(* conn.sendRequest(channel, k, b"", wantReply=w): returns a Deferred iff w and the request was sent.
   ODDITY: on a channel that already sent CLOSE it returns None even with wantReply. *)
Request(s, c, k, w) ==
    /\ Exists(s, c) /\ k \in ReqKinds /\ w \in {0, 1}
    /\ LET r == C(s, c)  act == r.st = "open" /\ ~r.lc
           out == IF act THEN <<Msg("REQ", r.rid, w, k)>> ELSE <<>>
           n == Len(dfr[s]) + 1 IN
       /\ q' = Send(s, out)
       /\ cnt' = IF act THEN [cnt EXCEPT !.req = @ + 1] ELSE cnt
       /\ IF act /\ w = 1
            THEN /\ dfr' = [dfr EXCEPT ![s] = Append(@, [st |-> "pending", nf |-> 0])]
                 /\ ch' = SetChan(s, c, [r EXCEPT !.dq = Append(@, n)])
            ELSE UNCHANGED <<dfr, ch>>
       /\ last' = [e |-> "request", s |-> s, c |-> c, k |-> k, w |-> w, sent |-> out, cb |-> <<>>,
                   exc |-> IF NoRemote(s, c) THEN "KeyError" ELSE "",
                   ret |-> IF act /\ w = 1 THEN "deferred" ELSE IF NoRemote(s, c) THEN "" ELSE "none"]
    /\ UNCHANGED <<cfg, stopped, oorder>>

(* the application fires the Deferred its i-th unresolved request_defer call returned, with True / False.
   With want_reply the reply goes out now - if the channel's id is still registered.
   ODDITY: otherwise (channel closed / service stopped meanwhile) the reply callback dies with KeyError inside
   the Deferred and no reply is ever sent. *)
Resolve(s, c, i, ok) ==
    /\ Exists(s, c) /\ i \in 1..Len(C(s, c).pend) /\ ok \in {0, 1}
    /\ LET r == C(s, c)  w == r.pend[i]
           can == w = 1 /\ r.st = "open"
           out == IF can THEN <<Msg(IF ok = 1 THEN "SUCC" ELSE "FAILR", r.rid, 0, "")>> ELSE <<>> IN
       /\ q' = Send(s, out)
       /\ ch' = SetChan(s, c, [r EXCEPT !.pend = RemoveAt(@, i), !.nrep = @ + Len(out),
                                        !.nlost = @ + (IF w = 1 /\ ~can THEN 1 ELSE 0)])
       /\ last' = [e |-> "resolve", s |-> s, c |-> c, i |-> i, ok |-> ok, sent |-> out, cb |-> <<>>, exc |-> "",
                   err |-> IF w = 1 /\ ~can THEN "KeyError" ELSE ""]
    /\ cnt' = [cnt EXCEPT !.res = @ + 1]
    /\ UNCHANGED <<cfg, stopped, oorder, dfr>>

(* serviceStopped(): every open channel is closed (pending request Deferreds errbacked, closed() called), every
   channel still opening gets openFailed(ConnectionLost).  Nothing is sent.  The order among channels is the
   code's (open channels in the order they became open, then opening ones newest first); the trace spec compares
   the callbacks of this event as a multiset because a user can only rely on exactly-once. *)
RECURSIVE StopCb(_, _)
StopCb(s, ids) == IF ids = <<>> THEN <<>> ELSE CloseCb(s, Head(ids)) \o StopCb(s, Tail(ids))
RECURSIVE FailCb(_, _)
FailCb(s, n) == IF n = 0 THEN <<>>
                ELSE (IF C(s, n - 1).st = "opening" THEN << <<"openFailed", n - 1, ConnectionLostCode>> >> ELSE <<>>) \o FailCb(s, n - 1)
Stop(s) ==
    /\ ~stopped[s]
    /\ stopped' = [stopped EXCEPT ![s] = TRUE]
    /\ ch' = [ch EXCEPT ![s] = [j \in 1..Len(ch[s]) |->
                 IF ch[s][j].st = "open" THEN Finalize(ch[s][j], TRUE)
                 ELSE IF ch[s][j].st = "opening" THEN [ch[s][j] EXCEPT !.st = "failed", !.nfail = @ + 1]
                 ELSE ch[s][j]]]
    /\ dfr' = [dfr EXCEPT ![s] = Fire(@, UNION {Range(ch[s][j].dq) : j \in {k \in 1..Len(ch[s]) : ch[s][k].st = "open"}}, "closed")]
    /\ oorder' = [oorder EXCEPT ![s] = <<>>]
    /\ last' = [e |-> "stop", s |-> s, sent |-> <<>>, cb |-> StopCb(s, oorder[s]) \o FailCb(s, Len(ch[s])), exc |-> ""]
    /\ UNCHANGED <<cfg, q, cnt>>

Ids(s) == {c \in 0..Len(ch[s]) : c < Len(ch[s])}
Next == \/ \E s \in S, k \in {"ok", "bad"} : Open(s, k)
        \/ \E s \in S : DeliverOpen(s)
        \/ \E s \in S : DeliverConf(s)
        \/ \E s \in S : DeliverFail(s)
        \/ \E s \in S : DeliverEofData(s)
        \/ \E s \in S : DeliverClose(s)
        \/ \E s \in S : DeliverReq(s)
        \/ \E s \in S : DeliverReply(s)
        \/ \E s \in S : \E c \in Ids(s) : Eof(s, c)
        \/ \E s \in S : \E c \in Ids(s) : Write(s, c)
        \/ \E s \in S : \E c \in Ids(s) : Close(s, c)
        \/ \E s \in S : \E c \in Ids(s) : \E k \in ReqKinds, w \in {0, 1} : Request(s, c, k, w)
        \/ \E s \in S : \E c \in Ids(s) : \E i \in 1..Len(C(s, c).pend), ok \in {0, 1} : Resolve(s, c, i, ok)
        \/ \E s \in S : Stop(s)

-----------------------------------------------------------------------------
(* What a user relies on *)
Chans(s) == {c \in 0..Len(ch[s]) : c < Len(ch[s])}

\* every channel object sees exactly one of channelOpen / openFailed once its open is decided, never both, never twice;
\* closed() at most once and only for a channel that was opened
OpenOutcomeOnce ==
    \A s \in S : \A c \in Chans(s) : LET r == C(s, c) IN
        /\ r.nopen + r.nfail <= 1 /\ r.nclosed <= 1
        /\ (r.st = "opening") = (r.nopen + r.nfail = 0)
        /\ (r.st = "failed") = (r.nfail = 1)
        /\ (r.st = "closed") = (r.nclosed = 1)
        /\ r.nclosed = 1 => r.nopen = 1

\* closed() only after CLOSE was both sent and received (or the service was stopped); CLOSE is sent at most once
ClosedAfterHandshake ==
    \A s \in S : \A c \in Chans(s) : LET r == C(s, c) IN
        /\ r.nsc <= 1 /\ r.nrc <= 1
        /\ r.st = "closed" => (r.bystop /\ stopped[s]) \/ (r.nsc = 1 /\ r.nrc = 1)
        /\ r.st = "open" => (r.lc = (r.nsc = 1)) /\ (r.rc = (r.nrc = 1)) /\ ~(r.lc /\ r.rc)
        /\ r.st \in {"opening", "failed"} => r.nsc = 0 /\ r.nrc = 0

\* the local<->remote id maps of the two sides agree, and no two live channels of a side talk to the same remote id
MapsAgree ==
    \A s \in S : \A c \in Chans(s) : LET r == C(s, c)  o == Other(s) IN
        /\ r.st \in {"open", "closed"} =>
              /\ Exists(o, r.rid)
              /\ C(o, r.rid).org # r.org
              /\ C(o, r.rid).st \in {"open", "closed"} => C(o, r.rid).rid = c
              /\ r.org = "local" => C(o, r.rid).st \in {"open", "closed"}
              /\ (r.st = "open" /\ C(o, r.rid).st \in {"opening", "failed"}) => r.org = "remote"
        /\ r.st = "open" => \A c2 \in Chans(s) : (c2 # c /\ C(s, c2).st = "open") => C(s, c2).rid # r.rid
        /\ r.st \in {"opening", "failed"} => r.org = "local"
OpenOrder == \A s \in S : /\ Range(oorder[s]) = {c \in Chans(s) : C(s, c).st = "open"}
                          /\ Len(oorder[s]) = Cardinality(Range(oorder[s]))

\* the packet at the head of a queue always finds its channel: packetReceived never raises, nothing arrives for a released id
\* (late request replies are addressed by the id alone and are dropped silently when the channel is closed)
Deliverable(s, m) ==
    CASE m.t = "OPEN" -> TRUE
      [] m.t \in {"CONF", "FAIL"} -> Exists(s, m.ch) /\ C(s, m.ch).st = "opening"
      [] m.t \in {"EOF", "DATA", "CLOSE", "REQ"} -> Mapped(s, m.ch)
      [] m.t \in {"SUCC", "FAILR"} -> Exists(s, m.ch) /\ C(s, m.ch).st \in {"open", "closed"}
HeadDeliverable == \A s \in S : (~stopped[s] /\ q[s] # <<>>) => Deliverable(s, Head(q[s]))

\* request Deferreds: fired at most once; pending exactly while queued on an open channel (so none leaks when the
\* channel closes or the service stops); never more replies than want_reply requests
Pending(s) == {n \in 1..Len(dfr[s]) : dfr[s][n].st = "pending"}
Queued(s) == UNION {Range(C(s, c).dq) : c \in Chans(s)}
RequestsSettle ==
    \A s \in S :
        /\ \A n \in 1..Len(dfr[s]) : dfr[s][n].nf <= 1 /\ ((dfr[s][n].st = "pending") = (dfr[s][n].nf = 0))
        /\ Pending(s) = Queued(s)
        /\ \A c \in Chans(s) : LET r == C(s, c) IN
              /\ r.dq # <<>> => r.st = "open"
              /\ \A i, j \in 1..Len(r.dq) : i < j => r.dq[i] < r.dq[j]
              /\ r.nrep + r.nlost + Cardinality({i \in 1..Len(r.pend) : r.pend[i] = 1}) = r.nwant
              /\ r.nlost > 0 => r.st = "closed"

\* serviceStopped leaves no live channel and no pending Deferred behind
StopCleans == \A s \in S : stopped[s] => /\ \A c \in Chans(s) : C(s, c).st \in {"failed", "closed"}
                                         /\ Pending(s) = {} /\ oorder[s] = <<>>

\* when nothing is in flight and nobody stopped, every open attempt has its outcome and every CLOSE that the peer
\* answers automatically has completed the handshake
Quiet == \A s \in S : ~stopped[s] /\ q[s] = <<>>
SettledWhenQuiet ==
    Quiet => \A s \in S : \A c \in Chans(s) : LET r == C(s, c) IN
                /\ r.st # "opening"
                /\ (r.st = "open" /\ r.lc) => ~cfg.auto[Other(s)]
                /\ (r.st = "open" /\ r.rc) => ~cfg.auto[s]
                /\ r.st = "open" => C(Other(s), r.rid).st = "open"
                /\ r.st = "closed" => C(Other(s), r.rid).st = "closed"

Inv == OpenOutcomeOnce /\ ClosedAfterHandshake /\ MapsAgree /\ OpenOrder /\ HeadDeliverable
       /\ RequestsSettle /\ StopCleans /\ SettledWhenQuiet

(* Step property: callbacks only reach channels whose id is registered before the step (or that the step creates);
   once closed()/openFailed() was called nothing more is delivered to the channel; a fired Deferred never changes;
   counters only grow; no public call raises except the documented KeyError of a never-opened channel. *)
ChanCb(x) == x[1] \notin {"d_ok", "d_fail", "d_closed"}
StepOK ==
    /\ \E a \in S : /\ a = last'.s
                    /\ \A i \in 1..Len(last'.cb) : \E x \in {last'.cb[i]} :
                          IF ChanCb(x)
                            THEN IF x[2] >= Len(ch[a]) THEN TRUE                         \* created by this step
                                 ELSE ch[a][x[2] + 1].st \in {"opening", "open"}
                            ELSE x[2] \in Pending(a)
    /\ \A s \in S : \A n \in 1..Len(dfr[s]) : dfr[s][n].st # "pending" => dfr'[s][n] = dfr[s][n]
    /\ \A s \in S : /\ Len(ch'[s]) >= Len(ch[s])
                    /\ \A c \in Chans(s) : LET r == C(s, c)  r2 == ch'[s][c + 1] IN
                          /\ r2.nopen >= r.nopen /\ r2.nfail >= r.nfail /\ r2.nclosed >= r.nclosed
                          /\ r.st \in {"failed", "closed"} => r2.st = r.st
                    /\ (stopped[s] => stopped'[s])
    /\ last'.e = "deliver" => last'.exc = ""
    /\ last'.exc # "" => (last'.exc = "KeyError" /\ last'.sent = <<>> /\ last'.cb = <<>> /\ q' = q /\ dfr' = dfr)
    /\ \A i \in 1..Len(last'.sent) : last'.sent[i].ch >= 0
=============================================================================
