--------------------------- MODULE DeferredCancelMC ---------------------------
EXTENDS DeferredCancel, TLC
CONSTANT Depth, MaxD
\* every assignment of the five canceller kinds to MaxD Deferreds
Configs == {[kinds |-> ks] : ks \in [1..MaxD -> CKinds]}
Init == \E c \in Configs : InitWith(c)
Spec == Init /\ [][Next]_vars
Bound == TLCGet("level") <= Depth + 1   \* Depth = number of calls
View == <<cfg, nD, called, suppress, ccalls, res, cbs, att, nfire, ign, rej, cu>>
=============================================================================
