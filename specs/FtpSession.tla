------------------------------ MODULE FtpSession ------------------------------
(* Extension X14 -- twisted.protocols.ftp.FTP: the control-connection state machine of the FTP server
   (UNAUTH -> INAUTH -> AUTHED -> RENAMING), login through a portal, command availability per state,
   the PASV / PORT data-connection (DTP) life cycle, RNFR/RNTO pairing, QUIT, connection loss and logout.

   One action per thing the environment does: a command line arrives (Cmd), a peer connects to the
   passive port / the active connect succeeds (DConn) or fails (DFail), time passes (Adv), the data
   transport drains (DPump), data arrives on it (DData), it is lost (DLost), the control connection is
   lost (CLost).  The server reads no further line while a command is outstanding (lineReceived pauses
   the transport), so lines that arrive meanwhile queue up and are executed, in order, as soon as the
   outstanding command completes -- inside the event that completes it (Drain).

   The whole protocol state is one record x; the fields under "observations" are reset at the start of
   every event and say what the event made visible at the boundary (reply codes, shell calls, ports
   opened / stopped, data transports closed / written, logouts).

   IMPLEMENTATION-SHAPED.  Deliberate deviations from what one would specify, all as coded (notes/X14.md):
     D1  RNTO without RNFR is answered 550 "internal server error" (AttributeError), not 503.
     D2  PASS after login (no USER) is answered 550, not 503.
     D3  PASV gets 227 at once and a second reply (550) if nobody connects in time; the listening port is
         NOT closed on that timeout, nor after a transfer: only by the next PASV/PORT or by connection loss.
     D4  PASV/PORT over an established, still open passive data connection drops the reference without
         closing it (the connection is orphaned); in active mode the connector is disconnected.
     D5  LIST refuses a lost data connection (503); RETR/STOR go ahead on it (150 then 426 / 150 then 226).
     D6  LIST on a data connection the server has already closed (peer's close not yet seen) runs again.
     D7  re-login replaces the avatar without logging the old one out; the portal's logout callable is
         never called (only avatar.logout(), once, at connection loss -- even after a failed re-login).
     D8  the line pipelined directly behind PASV/PORT is executed from inside DTP.connectionMade, before the DTP's
         receive buffer exists: a STOR there fails with 426 after opening the file (never closed), leaves its
         consumer registered (later data is written to it) and makes every later STOR on that connection fail.
     D9  control connection lost while PORT is connecting: the connect is aborted, PORT completes and the
         next pipelined line is executed from inside connectionLost (flag late).
     D10 a DTP stores into one file only: a second STOR on the same data connection fails with 426 after opening
         the file (the DTP's buffer is gone) -- D5's "150 then 226" is what the first STOR on a lost connection gets.
     D11 the peer closes the data connection during RETR: the transport stops the file sender (426) before the DTP
         hears of the loss, so the next pipelined line still sees "connected" (flag half).
*)
EXTENDS Naturals, Integers, Sequences, FiniteSets

VARIABLES cfg,    \* [T |-> DTP timeout]
          x,      \* protocol state + observations of the last event
          last    \* descriptor of the last event
vars == <<cfg, x, last>>

Public   == {"QUIT", "FEAT"}
DataCmds == {"LIST", "RETR", "STOR"}
NoEp == [id |-> 0, kind |-> "-", hasF |-> FALSE, fst |-> "-", cst |-> "-"]
NoDt == [id |-> 0, live |-> FALSE, att |-> FALSE, stuck |-> FALSE]

ObsReset(y) == [y EXCEPT !.codes = <<>>, !.sh = <<>>, !.op = <<>>, !.stop = <<>>, !.dcl = <<>>, !.dw = 0,
                         !.lo = <<>>, !.rlo = <<>>, !.login = <<>>, !.proc = <<>>, !.acc = FALSE]

X0 == [st |-> "NEW", alive |-> FALSE, quit |-> FALSE, pz |-> FALSE, busy |-> "none", queue |-> <<>>, user |-> "",
       nav |-> 0, cur |-> 0, louts |-> <<>>, nep |-> 0, ep |-> NoEp, tleft |-> 0, ndt |-> 0, dt |-> NoDt, buf |-> 0,
       late |-> FALSE, made |-> FALSE, half |-> FALSE, openEps |-> {}, sent |-> 0, started |-> 0, done |-> 0,
       \* observations
       codes |-> <<>>, sh |-> <<>>, op |-> <<>>, stop |-> <<>>, dcl |-> <<>>, dw |-> 0, lo |-> <<>>, rlo |-> <<>>,
       login |-> <<>>, proc |-> <<>>, acc |-> FALSE]

InitWith(c) == cfg = c /\ x = X0 /\ last = [e |-> "init"]

Reply(y, code) == [y EXCEPT !.codes = Append(@, code)]
Shell(y, s)    == [y EXCEPT !.sh = @ \o s]
Rep(n, v)      == [i \in 1..n |-> v]

(* cleanupDTP: stop the port / disconnect the connector (which closes an established active data connection),
   cancel the timeout, forget the factory and the DTP instance. *)
Cleanup(y) ==
    LET e == y.ep IN
    [y EXCEPT !.stop = Append(@, e.id),
              !.openEps = @ \ {e.id},
              !.dcl = IF e.kind = "C" /\ e.cst = "connected" THEN Append(@, y.dt.id) ELSE @,
              !.ep = [e EXCEPT !.hasF = FALSE, !.cst = IF e.kind = "C" /\ e.cst = "connecting" THEN "disc" ELSE @],
              !.tleft = 0,
              !.dt = [@ EXCEPT !.att = FALSE],
              !.buf = 0]

(* PASV / PORT in state AUTHED *)
NewEp2(z, kind, id) ==
    [z EXCEPT !.nep = id,
              !.ep = [id |-> id, kind |-> kind, hasF |-> TRUE, fst |-> "prog",
                      cst |-> IF kind = "C" THEN "connecting" ELSE "-"],
              !.op = Append(@, <<id, kind>>),
              !.openEps = @ \cup {id},
              !.tleft = cfg.T,
              !.busy = IF kind = "L" THEN "PASV" ELSE "PORT",
              !.codes = IF kind = "L" THEN Append(@, 227) ELSE @]
NewEp(y, kind) == NewEp2(IF y.ep.hasF THEN Cleanup(y) ELSE y, kind, y.nep + 1)

DoUser(y, a) == IF a = "" THEN Reply(y, 500) ELSE Reply([y EXCEPT !.user = a, !.st = "INAUTH"], 331)

DoPass(y, a) ==
    IF a = "" THEN Reply(y, 500)
    ELSE IF y.user = "anonymous" \/ (y.user = "alice" /\ a = "pw")
         THEN Reply([y EXCEPT !.user = "", !.st = "AUTHED", !.nav = @ + 1, !.cur = y.nav + 1,
                              !.login = Append(@, y.nav + 1)], 230)
         ELSE Reply([y EXCEPT !.user = "", !.st = "UNAUTH"], 530)

\* DTP.isConnected: the transport is up -- or (half) it has just died and DTP.connectionLost has not run yet
Conn(y) == y.dt.live \/ y.half

DoList(y) ==
    IF y.dt.att /\ Conn(y)
    THEN Reply(Reply([Shell(y, <<"list:">>) EXCEPT !.dw = IF y.dt.live THEN @ + 2 ELSE @,
                                                   !.dcl = IF y.dt.live THEN Append(@, y.dt.id) ELSE @], 125), 226)
    ELSE Reply(y, 503)

DoRetr(y, a) ==
    IF ~y.dt.att THEN Reply(y, 503)
    ELSE IF a # "f" THEN Reply(Shell(y, <<"openr:" \o a>>), 550)
    ELSE IF y.dt.live THEN [Reply(Shell(y, <<"openr:f", "send">>), 125) EXCEPT !.busy = "RETR"]
    ELSE Reply(Reply(Shell(y, <<"openr:f", "send">>), IF Conn(y) THEN 125 ELSE 150), 426)
                                                 \* D5: the producer is stopped at once by the dead transport

DoStor2(y, z) ==         \* z: file opened, consumer registered, early data flushed into it
    IF y.dt.live THEN [Reply(z, 125) EXCEPT !.busy = "STOR"]
    ELSE Reply(Shell(Reply(z, IF Conn(y) THEN 125 ELSE 150), <<"wclose">>), 226)      \* D5
DoStor(y, a) ==
    IF ~y.dt.att THEN Reply(y, 503)
    ELSE IF y.made \/ y.dt.stuck                                   \* D8, D10
         THEN Reply(Shell([y EXCEPT !.dt = [@ EXCEPT !.stuck = TRUE]], <<"openw:" \o a, "receive">>), 426)
    ELSE DoStor2(y, [Shell(y, <<"openw:" \o a, "receive">> \o Rep(y.buf, "wdata")) EXCEPT
                                 !.buf = 0, !.dt = [@ EXCEPT !.stuck = TRUE]])

Authed(y, c, a) ==
    CASE c = "USER" -> DoUser(y, a)
      [] c = "PASS" -> Reply(y, IF a = "" THEN 500 ELSE 550)      \* D2
      [] c = "PASV" -> NewEp(y, "L")
      [] c = "PORT" -> NewEp(y, "C")
      [] c = "LIST" -> DoList(y)
      [] c = "RETR" -> DoRetr(y, a)
      [] c = "STOR" -> DoStor(y, a)
      [] c = "RNFR" -> Reply([y EXCEPT !.st = "RENAMING"], 350)
      [] c = "RNTO" -> Reply(y, 550)                               \* D1
      [] c = "NOOP" -> Reply(y, 200)
      [] OTHER      -> Reply(y, 502)                               \* REIN is not implemented

(* processCommand *)
Proc(y, c, a) ==
    IF c = "QUIT" THEN Reply([y EXCEPT !.quit = TRUE], 221)
    ELSE IF c = "FEAT" THEN Reply(Reply(y, 211), 211)
    ELSE CASE y.st = "UNAUTH"   -> IF c = "USER" THEN DoUser(y, a) ELSE Reply(y, IF c = "PASS" THEN 503 ELSE 530)
           [] y.st = "INAUTH"   -> IF c = "PASS" THEN DoPass(y, a) ELSE Reply(y, 503)
           [] y.st = "AUTHED"   -> Authed(y, c, a)
           [] y.st = "RENAMING" -> IF c = "RNTO"
                                   THEN Reply(Shell([y EXCEPT !.st = "AUTHED"], <<"rename:a:" \o a>>), 250)
                                   ELSE Reply(y, 503)

\* (operator arguments are evaluated once by TLC; LET definitions at every use)
ProcW2(y, z, c) ==
    [z EXCEPT !.started = @ + 1, !.made = FALSE, !.half = FALSE,
              !.done = IF z.busy = "none" THEN @ + 1 ELSE @,
              !.proc = Append(@, [c |-> c, st0 |-> y.st, att0 |-> y.dt.att,
                                  codes |-> SubSeq(z.codes, Len(y.codes) + 1, Len(z.codes)),
                                  eff |-> Len(z.sh) # Len(y.sh) \/ Len(z.op) # Len(y.op) \/ Len(z.dcl) # Len(y.dcl)
                                          \/ z.dw # y.dw \/ Len(z.login) # Len(y.login)])]
ProcW(y, c, a) == ProcW2(y, Proc(y, c, a), c)

RECURSIVE Drain(_)
Drain(y) == IF y.busy = "none" /\ ~y.quit /\ y.queue # <<>>
            THEN Drain(ProcW([y EXCEPT !.queue = Tail(@)], Head(y.queue).c, Head(y.queue).a))
            ELSE y

(* the outstanding command completes with these replies; queued lines follow *)
Finish(y, cs) == Drain([y EXCEPT !.busy = "none", !.codes = @ \o cs, !.done = @ + 1])

End(y) == [y EXCEPT !.pz = (y.busy # "none" \/ y.quit), !.made = FALSE, !.half = FALSE]
Up == x.alive

-----------------------------------------------------------------------------
Open ==
    /\ x.st = "NEW"
    /\ x' = Reply([ObsReset(x) EXCEPT !.st = "UNAUTH", !.alive = TRUE], 220)
    /\ last' = [e |-> "open"]
    /\ UNCHANGED cfg

(* a command line reaches the server (it is read at once, or waits behind an outstanding command) *)
Cmd(c, a) ==
    /\ Up /\ ~x.quit
    /\ x' = End(Drain([ObsReset(x) EXCEPT !.queue = Append(@, [c |-> c, a |-> a]), !.sent = @ + 1]))
    /\ last' = [e |-> "cmd", c |-> c, a |-> a]
    /\ UNCHANGED cfg

(* a peer connects to the passive port / the active connect succeeds.  The DTP factory builds one protocol only. *)
DConn ==
    LET e == x.ep  y == ObsReset(x) IN
    /\ Up
    /\ (e.kind = "L" /\ e.hasF) \/ (e.kind = "C" /\ e.cst = "connecting")
    /\ x' = IF e.fst = "prog"
            THEN End(Finish([y EXCEPT !.ep = [e EXCEPT !.fst = "fin", !.cst = IF e.kind = "C" THEN "connected" ELSE @],
                                      !.tleft = 0, !.ndt = @ + 1, !.buf = 0, !.acc = TRUE, !.made = TRUE,
                                      !.dt = [id |-> y.ndt + 1, live |-> TRUE, att |-> TRUE, stuck |-> FALSE]],
                            IF e.kind = "C" THEN <<200>> ELSE <<>>))
            ELSE [y EXCEPT !.ep = [e EXCEPT !.cst = IF e.kind = "C" THEN "disc" ELSE @]]      \* refused
    /\ last' = [e |-> "dconn"]
    /\ UNCHANGED cfg

(* the active connect fails *)
DFail ==
    LET e == x.ep  y == [ObsReset(x) EXCEPT !.ep = [e EXCEPT !.cst = "disc"], !.tleft = 0] IN      \* doStop cancels the timeout
    /\ Up
    /\ e.kind = "C" /\ e.cst = "connecting"
    /\ x' = IF e.fst = "prog" THEN End(Finish([y EXCEPT !.ep = [@ EXCEPT !.fst = "fail"]], <<425>>))
            ELSE y
    /\ last' = [e |-> "dfail"]
    /\ UNCHANGED cfg

(* time passes; the DTP timeout may fire *)
Adv(d) ==
    LET y == ObsReset(x) IN
    /\ x.st # "NEW"
    /\ x' = IF y.tleft = 0 \/ d < y.tleft THEN [y EXCEPT !.tleft = IF @ = 0 THEN 0 ELSE @ - d]
            ELSE IF y.ep.fst = "prog"
                 THEN End(Finish([y EXCEPT !.tleft = 0, !.ep = [@ EXCEPT !.fst = "fail"]],
                                 IF y.ep.kind = "L" THEN <<550>> ELSE <<425>>))          \* D3
                 ELSE [y EXCEPT !.tleft = 0]
    /\ last' = [e |-> "adv", d |-> d]
    /\ UNCHANGED cfg

(* the data transport asks the file sender for more until the file is exhausted: RETR completes *)
DPump ==
    LET y == ObsReset(x) IN
    /\ Up /\ x.dt.live /\ x.busy = "RETR"
    /\ x' = End(Finish([y EXCEPT !.dw = @ + 1, !.dcl = Append(@, y.dt.id)], <<226>>))
    /\ last' = [e |-> "dpump"]
    /\ UNCHANGED cfg

(* a chunk arrives on the data connection: stored if STOR is in progress, kept for a later STOR otherwise *)
DData ==
    LET y == ObsReset(x) IN
    /\ Up /\ x.dt.live
    /\ x' = IF y.dt.stuck THEN Shell(y, <<"wdata">>)       \* a consumer is registered (STOR in progress, or D8 -- even orphaned)
            ELSE IF y.dt.att THEN [y EXCEPT !.buf = @ + 1]
            ELSE y
    /\ last' = [e |-> "ddata"]
    /\ UNCHANGED cfg

(* the data connection is gone (closed by the peer, or the close the server asked for has completed) *)
DLost ==
    LET y == [ObsReset(x) EXCEPT !.dt = [@ EXCEPT !.live = FALSE],
                                 !.ep = IF x.dt.att /\ x.ep.kind = "C" THEN [@ EXCEPT !.cst = "disc"] ELSE @] IN
    /\ Up /\ x.dt.live
    /\ x' = IF ~y.dt.att THEN y
            ELSE IF y.busy = "RETR" THEN End(Finish([y EXCEPT !.half = TRUE], <<426>>))      \* D11
            ELSE IF y.busy = "STOR" THEN End(Finish(Shell(y, <<"wclose">>), <<226>>))
            ELSE y
    /\ last' = [e |-> "dlost"]
    /\ UNCHANGED cfg

(* the control connection is lost: DTP cleaned up, avatar logged out.  Nothing written now can be read. *)
CLost ==
    LET y  == ObsReset(x)
        z  == IF y.ep.hasF THEN Cleanup(y) ELSE y
        pf == y.busy = "PORT"                          \* D9: the aborted connect completes PORT and resumes reading
        w  == IF pf THEN [z EXCEPT !.busy = "none", !.done = @ + 1, !.ep = [@ EXCEPT !.fst = "fail"],
                                   !.late = y.queue # <<>>,
                                   !.pz = y.queue # <<>>,
                                   !.quit = @ \/ (y.queue # <<>> /\ Head(y.queue).c = "QUIT")]
              ELSE z
    IN
    /\ Up
    /\ x' = [w EXCEPT !.alive = FALSE, !.codes = <<>>,
                      !.lo = IF y.cur > 0 THEN <<y.cur>> ELSE <<>>,
                      !.louts = IF y.cur > 0 THEN Append(@, y.cur) ELSE @]
    /\ last' = [e |-> "clost"]
    /\ UNCHANGED cfg

Users == {"alice", "anonymous", "bob", ""}
CmdSet == {<<"USER", u>> : u \in Users} \cup {<<"PASS", p>> : p \in {"pw", "bad", ""}}
          \cup {<<"RETR", "f">>, <<"RETR", "nx">>, <<"STOR", "f">>, <<"RNFR", "a">>, <<"RNTO", "b">>}
          \cup {<<c, "">> : c \in {"PASV", "PORT", "LIST", "NOOP", "REIN", "QUIT", "FEAT"}}

Next == \/ Open
        \/ \E ca \in CmdSet : Cmd(ca[1], ca[2])
        \/ DConn \/ DFail \/ DPump \/ DData \/ DLost \/ CLost
        \/ \E d \in 1..2 : Adv(d)

-----------------------------------------------------------------------------
(* What a user of the server relies on. *)

\* commands are refused with 530 before login, and nothing is touched
Gate530 == \A i \in 1..Len(x.proc) : LET p == x.proc[i] IN
              p.st0 = "UNAUTH" /\ p.c \notin Public \cup {"USER", "PASS"} => p.codes = <<530>> /\ ~p.eff
\* out-of-sequence commands are refused with 503, and nothing is touched  (RNTO without RNFR: see D1)
Seq503  == \A i \in 1..Len(x.proc) : LET p == x.proc[i] IN
              (\/ p.st0 = "UNAUTH" /\ p.c = "PASS"
               \/ p.st0 = "INAUTH" /\ p.c \notin Public \cup {"PASS"}
               \/ p.st0 = "RENAMING" /\ p.c \notin Public \cup {"RNTO"}) => p.codes = <<503>> /\ ~p.eff
\* a data command without a data connection set up by PASV/PORT is refused and the shell is not asked
NoDtp503 == \A i \in 1..Len(x.proc) : LET p == x.proc[i] IN
              p.c \in DataCmds /\ p.st0 = "AUTHED" /\ ~p.att0 => p.codes = <<503>> /\ ~p.eff
\* the shell, the realm and the DTP are only ever reached by an authenticated command
AuthOnly == \A i \in 1..Len(x.proc) : LET p == x.proc[i] IN
              p.eff => p.st0 \in {"AUTHED", "RENAMING"} \/ (p.st0 = "INAUTH" /\ p.c = "PASS")
\* every line is executed once, in arrival order, one at a time; each executed command has been answered
\* (PORT answers on completion only) and at most one is outstanding
Accounting == /\ x.sent = x.started + Len(x.queue)
              /\ x.started = x.done + (IF x.busy = "none" THEN 0 ELSE 1)
              /\ \A i \in 1..Len(x.proc) : x.proc[i].c # "PORT" \/ x.proc[i].st0 # "AUTHED" => x.proc[i].codes # <<>>
\* at most one listening port / connector exists at a time, it belongs to the current DTP factory, and a pending
\* DTP timeout belongs to it
OnePort == /\ Cardinality(x.openEps) <= 1
           /\ x.openEps = IF x.ep.hasF THEN {x.ep.id} ELSE {}
           /\ x.tleft > 0 => x.ep.hasF
\* after the control connection is gone nothing is left behind: no port, no connector, no timer -- and nothing more happens
NoLeak  == (x.st # "NEW" /\ ~x.alive) =>
              /\ x.openEps = {} /\ x.tleft = 0
              /\ last.e = "adv" => (x.codes = <<>> /\ x.sh = <<>> /\ x.op = <<>> /\ x.lo = <<>>)
\* each data endpoint accepts at most one data connection, and only while its command is waiting for it
AcceptOnce == /\ x.ndt <= x.nep
              /\ (x.acc /\ x.proc = <<>>) => (x.dt.att /\ x.dt.live /\ x.ep.fst = "fin")
\* a transfer is in progress only on the data connection of the current DTP
XferAttached == x.alive /\ x.busy \in {"RETR", "STOR"} => x.dt.att
\* waiting for the data connection <=> its factory is in progress
Waiting == x.alive => ((x.busy \in {"PASV", "PORT"}) <=> (x.ep.hasF /\ x.ep.fst = "prog"))
\* logout: never while connected, at most once per avatar, and the current avatar exactly once at connection loss (D7)
RECURSIVE Count(_, _)
Count(s, v) == IF s = <<>> THEN 0 ELSE (IF Head(s) = v THEN 1 ELSE 0) + Count(Tail(s), v)
LogoutOnce == /\ x.alive => x.louts = <<>>
              /\ \A a \in 1..x.nav : Count(x.louts, a) <= 1
              /\ (x.st # "NEW" /\ ~x.alive /\ x.cur > 0) => Count(x.louts, x.cur) = 1
              /\ x.rlo = <<>>
              /\ x.cur <= x.nav /\ (x.st \in {"AUTHED", "RENAMING"} => x.cur > 0)
\* reading is paused exactly while a command is outstanding (or after QUIT)
PauseInv == x.alive => (x.pz <=> (x.busy # "none" \/ x.quit))

Inv == /\ Gate530 /\ Seq503 /\ NoDtp503 /\ AuthOnly /\ Accounting /\ OnePort /\ NoLeak /\ AcceptOnce
       /\ XferAttached /\ Waiting /\ LogoutOnce /\ PauseInv

\* the session never comes back, avatars and endpoints are never reused
Monotone == [][/\ (x.st # "NEW" /\ ~x.alive => ~x'.alive)
               /\ x'.nav >= x.nav /\ x'.nep >= x.nep /\ x'.ndt >= x.ndt
               /\ Len(x'.louts) >= Len(x.louts)]_vars
=============================================================================
