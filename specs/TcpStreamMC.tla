------------------------------ MODULE TcpStreamMC ------------------------------
(* Exhaustive check of TcpStream: all interleavings of writes, deliveries, close requests and loss
   notifications for streams of up to MaxBytes bytes per direction; the clauses of C15 as state
   invariants (what holds whenever a protocol has been told the connection is lost). *)
EXTENDS TcpStream, TLC
CONSTANT MaxBytes

N == 0..MaxBytes
Init == \E a, b \in BOOLEAN : InitWith([hc |-> <<a, b>>])

WriteStep == \E s \in Sides, n \in 1..MaxBytes : sent[s] + n <= MaxBytes /\ Write(s, n)
RecvStep == \E s \in Sides, off \in N, len \in N : Recv(s, off, len)
ReqStep == \E s \in Sides, k \in {"half", "lose", "abort"} : Req(s, k)
ReadLostStep == \E s \in Sides : ReadLost(s)
WriteLostStep == \E s \in Sides : WriteLost(s)
ConnLostStep == \E s \in Sides, r \in Reasons : ConnLost(s, r)
MCNext == WriteStep \/ RecvStep \/ ReqStep \/ ReadLostStep \/ WriteLostStep \/ ConnLostStep
Spec == Init /\ [][MCNext]_vars

\* a protocol that was told of a loss while nobody had aborted was told ConnectionDone ...
CleanWhenOrderly == \A s \in Sides : (lost[s] = 1 /\ Orderly) => why[s] = "ConnectionDone"
\* ... and, unless it closed the connection itself, holds exactly the bytes the peer wrote (all of them, for good:
\* the peer cannot write any more)
CompleteWhenOrderly == \A s \in Sides : (lost[s] = 1 /\ Orderly /\ req[s] \in {"none", "half"}) =>
                           /\ rcvd[s] = sent[Peer(s)]
                           /\ ~ENABLED Write(Peer(s), 1)
\* the end of the peer's stream is announced only after all of it
EofAfterAll == \A s \in Sides : (rdl[s] /\ Orderly) => rcvd[s] = sent[Peer(s)] /\ ~ENABLED Write(Peer(s), 1)
\* once lost, nothing more happens on that side
QuietAfterLost == \A s \in Sides : lost[s] = 1 =>
                      /\ ~ENABLED (\E off \in N, len \in N : Recv(s, off, len))
                      /\ ~ENABLED (\E r \in Reasons : ConnLost(s, r))
                      /\ ~ENABLED ReadLost(s) /\ ~ENABLED WriteLost(s)
\* after an abort the peer holds a prefix
PrefixAlways == Integrity

\* reachability (each must be violated)
NeverEndedOrderlyBothData == ~(Ended /\ Orderly /\ rcvd[1] >= 1 /\ rcvd[2] >= 1 /\ \E s \in Sides : rdl[s] /\ wrl[Peer(s)])
NeverAbortPrefix == ~(Ended /\ ~Orderly /\ \E s \in Sides : rcvd[s] >= 1 /\ rcvd[s] < sent[Peer(s)] /\ why[s] = "ConnectionLost")
=============================================================================
