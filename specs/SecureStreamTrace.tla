-------------------------- MODULE SecureStreamTrace --------------------------
(* Batched trace validation of real TLSMemoryBIOFactory client/server executions. *)
EXTENDS SecureStream, TLC, Json, IOUtils

Traces == JsonDeserialize(IOEnv.TRACE_FILE)
VARIABLES tid, l
ASSUME \A t \in 1..Len(Traces) : TLCSet(t, 1)

T == Traces[tid]
E == T.ev[l]

TInit == /\ tid \in 1..Len(Traces) /\ l = 1
         /\ InitWith([variant |-> Traces[tid].cfg.variant])

Step(A) == /\ l <= Len(T.ev) /\ A /\ Inv' /\ l' = l + 1 /\ UNCHANGED tid
OkP(p) == p \in Sides

TNext == \/ (E.e = "write" /\ OkP(E.p) /\ Step(Write(E.p, E.n)))
         \/ (E.e = "lose" /\ OkP(E.p) /\ Step(Lose(E.p)))
         \/ (E.e = "reg" /\ OkP(E.p) /\ Step(Reg(E.p)))
         \/ (E.e = "unreg" /\ OkP(E.p) /\ Step(Unreg(E.p)))
         \/ (E.e = "deliver" /\ OkP(E.d) /\ Step(Deliver(E.d, E.k)))
         \/ (E.e = "tick" /\ Step(Tick))
         \/ (E.e = "xclose" /\ OkP(E.p) /\ Step(XClose(E.p)))
         \/ (E.e = "eof" /\ OkP(E.p) /\ Step(Eof(E.p)))
         \/ (E.e = "hs" /\ OkP(E.p) /\ Step(Hs(E.p)))
         \/ (E.e = "data" /\ OkP(E.p) /\ Step(AppData(E.p, E.n)) /\ last'.off = E.off)
         \/ (E.e = "lost" /\ OkP(E.p) /\ Step(Lost(E.p, E.clean)))
         \/ (E.e = "tclose" /\ OkP(E.p) /\ Step(TClose(E.p, E.abort)))
         \/ (E.e = "quiesce" /\ Step(Quiesce) /\ last'.open = E.open)

TSpec == TInit /\ [][l <= Len(T.ev) /\ TNext]_<<vars, tid, l>>

Progress == TLCSet(tid, IF TLCGet(tid) > l THEN TLCGet(tid) ELSE l)
Rejected == {<<t, TLCGet(t)>> : t \in {u \in 1..Len(Traces) : TLCGet(u) # Len(Traces[u].ev) + 1}}
Accepted == Rejected = {} \/ (PrintT(<<"REJECTED", Rejected>>) /\ FALSE)
=============================================================================
