------------------------------ MODULE AmpRPCMC ------------------------------
(* Exhaustive TLC run of AmpRPC: every interleaving of up to MaxCalls callRemote calls by
   either peer over the responder kinds in KindSet, every fragmentation of the two byte
   streams (each box is 2 units long, so a fragment boundary may fall inside any box),
   Later responders fired in any order, a network drop, application closes and the two
   connectionLost notifications at every point.                                          *)
EXTENDS AmpRPC, TLC
CONSTANTS MaxCalls, KindSet, MaxPerPeer, Flags, QC   \* QC: may an undeclared error close the connection? {TRUE}, {FALSE} or BOOLEAN

WS == [i \in 1..8 |-> 2]

Init == \E w \in BOOLEAN : InitWith([wac |-> w])

RECURSIVE Asc(_)
Asc(S) == IF S = {} THEN <<>> ELSE LET x == CHOOSE y \in S : \A z \in S : y <= z IN <<x>> \o Asc(S \ {x})

NCallsBy(p) == Cardinality({c \in 1..ncall : caller[c] = p})

(* the two peers are interchangeable: the first call is made by peer 1 (symmetry reduction by hand) *)
CallRemote == \E p \in Peers, k \in KindSet, f \in Flags : /\ ncall < MaxCalls /\ NCallsBy(p) < MaxPerPeer /\ (ncall = 0 => p = 1)
                                              /\ Call(p, k, f, WS)
DeliverSome == \E p \in Peers : \E n \in 1..Avail(p) : \E qc \in QC : Deliver(p, n, WS, qc)
FireLater == \E c \in 1..ncall : \E qc \in QC : Fire(c, WS, qc)
AppClose == \E p \in Peers : ts[p] = "open" /\ UserClose(p)
NetDrop == net = "up" /\ Drop
ConnLost == \E p \in Peers, r \in {"ConnectionDone", "ConnectionLost"} : Notify(p, r, Asc(Pending(p)))

Next == CallRemote \/ DeliverSome \/ FireLater \/ AppClose \/ NetDrop \/ ConnLost
Spec == Init /\ [][Next]_vars
View == <<cfg, ncall, caller, kind, re, cst, res, nfire, rst, pipe, off, ts, net, why>>

(* reachability witnesses used as negative controls (each must be VIOLATED, i.e. reachable) *)
NoAnswerAfterOwnClose == ~(\E c \in 1..ncall : res[c][1] = "OK" /\ ts[Other(caller[c])] = "lost")
=============================================================================
