SPECIFICATION SSpec
CONSTANT Depth = 14
CONSTANT MaxD = 9
CONSTRAINT Emit
CONSTRAINT Stop
CHECK_DEADLOCK FALSE
