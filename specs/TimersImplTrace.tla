--------------------------- MODULE TimersImplTrace ---------------------------
(* Binds the Impl layer to the code: recorded executions of the real ReactorBase are replayed through
   TimersImpl (the algorithm as transcribed, which is deterministic -- it also predicts the order among
   equal times and the exact timeout() value).  A trace TimersImpl cannot reproduce while TimersAbs accepts
   it means the transcription has drifted from the code: reported as impl_drift, never as a violation.   *)
EXTENDS TimersImpl, TLC, Json, IOUtils

Traces == JsonDeserialize(IOEnv.TRACE_FILE)
VARIABLES tid, l
ASSUME \A t \in 1..Len(Traces) : TLCSet(t, 1)

T == Traces[tid]
E == T.ev[l]

TInit == /\ tid \in 1..Len(Traces) /\ l = 1
         /\ IInitWith([flavour |-> "reactor", neg |-> Traces[tid].cfg.neg])

SameSet(s, S) == SeqSet(s) = S /\ Len(s) = Cardinality(S)
Matches ==
    /\ last'.e = E.e
    /\ E.e = "later"   => (last'.d = E.d /\ last'.id = E.id /\ last'.t = E.t)
    /\ E.e = "cancel"  => (last'.id = E.id /\ last'.res = E.res)
    /\ E.e \in {"reset", "delay"} => (last'.id = E.id /\ last'.d = E.d /\ last'.res = E.res /\ last'.t = E.t)
    /\ E.e = "gdc"     => SameSet(E.ids, last'.ids)
    /\ E.e = "timeout" => (last'.v = E.v /\ last'.none = E.none)
    /\ E.e = "adv"     => last'.d = E.d
    /\ E.e = "run"     => (last'.id = E.id /\ last'.now = E.now /\ SameSet(E.gdc, last'.gdc))

Step(A) == /\ l <= Len(T.ev) /\ A /\ Matches /\ l' = l + 1 /\ UNCHANGED tid
(* unlogged loop iterations of runUntilCurrent (drop a cancelled entry / re-activate a delayed one):
   each removes an entry or clears a delayed_time, so there are finitely many before the next logged event *)
Silent == /\ l <= Len(T.ev) /\ E.e \in {"run", "iterend"}
          /\ (ILoopSkipCancelled \/ ILoopReactivate)
          /\ UNCHANGED <<tid, l>>

TNext == \/ (E.e = "later"   /\ Step(ICallLater(E.d)))
         \/ (E.e = "cancel"  /\ Step(ICancelOk(E.id) \/ ICancelRefused(E.id)))
         \/ (E.e = "reset"   /\ Step(IResetOk(E.id, E.d) \/ IResetRefused(E.id, E.d)))
         \/ (E.e = "delay"   /\ Step(IDelayOk(E.id, E.d) \/ IDelayRefused(E.id, E.d)))
         \/ (E.e = "gdc"     /\ Step(IGdc))
         \/ (E.e = "timeout" /\ Step(ITimeout))
         \/ (E.e = "adv"     /\ Step(IAdvance(E.d)))
         \/ (E.e = "iter"    /\ Step(IIterBegin))
         \/ (E.e = "run"     /\ Step(ILoopRun))
         \/ (E.e = "ret"     /\ Step(IRunEnd))
         \/ (E.e = "iterend" /\ Step(IIterEndCompact \/ IIterEndPlain))
         \/ Silent

TSpec == TInit /\ [][l <= Len(T.ev) /\ TNext]_<<ivars, tid, l>>

Progress == TLCSet(tid, IF TLCGet(tid) > l THEN TLCGet(tid) ELSE l)
Rejected == {<<t, TLCGet(t)>> : t \in {u \in 1..Len(Traces) : TLCGet(u) # Len(Traces[u].ev) + 1}}
Accepted == Rejected = {} \/ (PrintT(<<"REJECTED", Rejected>>) /\ FALSE)
=============================================================================
