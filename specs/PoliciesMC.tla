------------------------------ MODULE PoliciesMC ------------------------------
(* Exhaustive exploration of Policies.tla.  Three focuses share this module (see the .cfg files):
     PoliciesMC.cfg      every kind of factory, every operation, shallow
     PoliciesMC.rd.cfg   ThrottlingFactory with a read limit: build/connect/data/lost/clock only, deep enough
                         for two sessions (ODDITY 2, 3) and overlapping throttles (ODDITY 4)
     PoliciesMC.wr.cfg   ThrottlingFactory with a write limit: producers and writes                        *)
EXTENDS Policies, TLC
Cfg(k, lim, ovf, rl, wl) == [kind |-> k, lim |-> lim, ovf |-> ovf, rl |-> rl, wl |-> wl]
ConfigsAll == {Cfg("limit", lim, ovf, None, None) : lim \in {None, 0, 1, 2}, ovf \in BOOLEAN}
              \cup {Cfg("throttle", lim, FALSE, rl, wl) : lim \in {None, 0, 1}, rl \in {None, 1}, wl \in {None, 1}}
              \cup {Cfg("wrap", None, FALSE, None, None)}
ConfigsRd == {Cfg("throttle", None, FALSE, rl, None) : rl \in {1, 2}}
ConfigsRdT == {Cfg("throttle", lim, FALSE, rl, None) : lim \in {None, 1, 2}, rl \in {1, 2}}
ConfigsWr == {Cfg("throttle", lim, FALSE, None, wl) : lim \in {None, 1}, wl \in {1, 2}}
OpsAll == {"build", "connect", "data", "write", "wseq", "lose", "regprod", "unregprod", "lost", "adv", "fire"}
OpsRd == {"build", "connect", "data", "lost", "adv", "fire"}
OpsWr == {"build", "connect", "write", "wseq", "regprod", "unregprod", "lost", "adv", "fire"}

\* overridden per .cfg
Configs == ConfigsAll
Ops == OpsAll
MSizes == {1, 3}
Advs == {1, 2}
Depth == 7
MaxConn == 3
MaxNow == 6
SizesRd == {3, 5}
DepthRd == 11
AdvsRd == {2, 3}
SizesWr == {3}
ConfigsReach == {Cfg("throttle", None, FALSE, 1, None)}
ConfigsReach2 == {Cfg("throttle", None, FALSE, 2, None)}
SizesReach == {5}
AdvsReach == {2}
DepthWr == 9
MaxConnWr == 2
\* thorough tier
DepthAllT == 9
DepthRdT == 13
DepthWrT == 11
MaxConnWrT == 3

MBuild == "build" \in Ops /\ Build
MConnect == "connect" \in Ops /\ \E c \in 1..nb : Connect(c)
MData == "data" \in Ops /\ \E c \in 1..nb, n \in MSizes : Data(c, n)
MWrite == "write" \in Ops /\ \E c \in 1..nb, n \in MSizes : Write(c, n, "write")
MWseq == "wseq" \in Ops /\ \E c \in 1..nb, n \in MSizes : Write(c, n, "wseq")
MLose == "lose" \in Ops /\ \E c \in 1..nb : Lose(c)
MRegProd == "regprod" \in Ops /\ \E c \in 1..nb : RegProd(c)
MUnregProd == "unregprod" \in Ops /\ \E c \in 1..nb : UnregProd(c)
MLost == "lost" \in Ops /\ \E c \in 1..nb : Lost(c)
MAdv == "adv" \in Ops /\ \E d \in Advs : Adv(d)
MFire == "fire" \in Ops /\ \E i \in 1..Len(timers) : Fire(i)
MNext == MBuild \/ MConnect \/ MData \/ MWrite \/ MWseq \/ MLose \/ MRegProd \/ MUnregProd \/ MLost \/ MAdv \/ MFire

Init == \E c \in Configs : InitWith(c)
Spec == Init /\ [][MNext]_vars
Bound == nb <= MaxConn /\ now <= MaxNow /\ TLCGet("level") <= Depth
\* dead timers matter only through the ids that still remember them
PendView == LET ix == PendIdx(timers) IN [j \in 1..Len(ix) |-> <<timers[ix[j]].k, timers[ix[j]].at>>]
IdView(i) == IF i = 0 THEN <<"none", 0>>
             ELSE IF timers[i].st = "pending" THEN <<"pending", Cardinality({j \in 1..i : timers[j].st = "pending"})>>
             ELSE <<timers[i].st, 0>>
View == <<cfg, now, nb, st, typ, count, regq, closing, prod, pz, bytes, PendView, crashed,
          [d \in Dirs |-> IdView(uID[d])], [d \in Dirs |-> IdView(cID[d])], swallowed>>
StepProp == [][StepInv]_vars

\* reachability witnesses (must be VIOLATED; vacuity guard): ODDITY 3 followed by a second chain of checks; ODDITY 4
NoLeakedChain == ~(swallowed # {} /\ Cardinality(PendingOf(1)) >= 2)
NoOrphanClobber == ~(uID["r"] = 0 /\ PendingOf(2) # {} /\ pz["r"] = {} /\ reg # {})
=============================================================================
