SPECIFICATION Spec
CONSTANT Depth = 1
CONSTANT Mode = "resolve"
CONSTRAINT Bound
INVARIANT LimitInv
INVARIANT ConfineInv
INVARIANT NoDotsInv
INVARIANT MethodInv
INVARIANT TargetInv
INVARIANT Idempotent
CHECK_DEADLOCK FALSE
