---------------------------- MODULE ServicesTrace ----------------------------
(* Batched trace validation: every event of every recorded execution of the real Service/MultiService
   objects must be a step of Services.tla (NextAll: the harness may leave the discipline, the ghost `wild`
   then relaxes RunConsistent/NoDouble), reproduce every logged field (outcome, return kind, call sequence,
   fired watchers) and the complete public state afterwards (running, parent, name, list(container),
   getServiceNamed for every name), and keep every invariant. *)
EXTENDS Services, TLC, Json, IOUtils
Traces == JsonDeserialize(IOEnv.TRACE_FILE)
VARIABLES tid, l
ASSUME \A t \in 1..Len(Traces) : TLCSet(t, 1)
T == Traces[tid]
E == T.ev[l]
C == Traces[tid].cfg
TInit == tid \in 1..Len(Traces) /\ l = 1 /\ InitWith([n |-> C.n, kind |-> C.kind, name |-> C.name, dfr |-> C.dfr])
Step(A) == /\ l <= Len(T.ev) /\ A /\ Inv'
           /\ last'.res = E.res /\ last'.ret = E.ret /\ last'.calls = E.calls /\ last'.fired = E.fired
           /\ run' = E.run /\ par' = E.par /\ name' = E.name /\ kids' = E.kids /\ named' = E.nm
           /\ l' = l + 1 /\ UNCHANGED tid
TNext == \/ (E.e = "add" /\ Step(Add(E.a, E.b)))
         \/ (E.e = "disown" /\ Step(Disown(E.a)))
         \/ (E.e = "priv" /\ Step(Priv(E.a)))
         \/ (E.e = "start" /\ Step(Start(E.a)))
         \/ (E.e = "stop" /\ Step(Stop(E.a)))
         \/ (E.e = "fire" /\ Step(Fire(E.a)))
         \/ (E.e = "setname" /\ Step(SetName(E.a, E.b)))
         \/ (E.e = "get" /\ Step(Get(E.a, E.b)) /\ last'.got = E.got)
TSpec == TInit /\ [][l <= Len(T.ev) /\ TNext]_<<vars, tid, l>>
Progress == TLCSet(tid, IF TLCGet(tid) > l THEN TLCGet(tid) ELSE l)
Rejected == {<<t, TLCGet(t)>> : t \in {u \in 1..Len(Traces) : TLCGet(u) # Len(Traces[u].ev) + 1}}
Accepted == Rejected = {} \/ (PrintT(<<"REJECTED", Rejected>>) /\ FALSE)
=============================================================================
