---------------------------- MODULE H2FlowImplMC ----------------------------
EXTENDS H2FlowImpl
CONSTANTS NS, MaxWrite, MaxWU, MaxSet, CW, IW, MF
VARIABLES nWU, nSet
mcvars == <<ivars, nWU, nSet>>
Cfgs == {[ns |-> NS, connWin0 |-> cw, initWin0 |-> iw, maxFrame0 |-> mf] : cw \in CW, iw \in IW, mf \in MF}
MCInit == (\E c \in Cfgs : IInitWith(c)) /\ nWU = 0 /\ nSet = 0
KOpen == IOpen /\ UNCHANGED <<nWU, nSet>>
KWindowUpdate == \E s \in 0..NS, n \in 1..2 : IWindowUpdate(s, n) /\ nWU < MaxWU /\ nWU' = nWU + 1 /\ UNCHANGED nSet
KSettings == \E iw \in 0..2, mf \in 1..2 : ISettings(iw, mf) /\ (iw # initWin \/ mf # maxFrame) /\ nSet < MaxSet /\ nSet' = nSet + 1 /\ UNCHANGED nWU
KWrite == \E s \in 1..NS, n \in 1..2 : IWrite(s, n) /\ written[s] + n <= MaxWrite /\ UNCHANGED <<nWU, nSet>>
KFinish == \E s \in 1..NS : IFinish(s) /\ UNCHANGED <<nWU, nSet>>
KLoop == ILoop /\ UNCHANGED <<nWU, nSet>>
MCNext == KOpen \/ KWindowUpdate \/ KSettings \/ KWrite \/ KFinish \/ KLoop
Spec == MCInit /\ [][MCNext]_mcvars /\ WF_mcvars(KLoop)
(* the chunk model keeps written - sent = sum of the queued chunks *)
RECURSIVE Sum(_)
Sum(q) == IF q = <<>> THEN 0 ELSE Head(q) + Sum(Tail(q))
QueueConsistent == dead \/ \A s \in 1..NS : Sum(chunks[s]) = written[s] - sent[s]
Resume == \A s \in 1..NS : []<>(~Sendable(s))
View == <<cfg, connWin, strWin, nOpen, written, sent, finished, ended, initWin, maxFrame, chunks, blocked, parked, armed, dead, nWU, nSet>>
=============================================================================
