SPECIFICATION SSpec
CONSTANT MaxBody = 10
CONSTANT Depth = 18
CONSTRAINT EmitBeh
CONSTRAINT Stop
CHECK_DEADLOCK FALSE
