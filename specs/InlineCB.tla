------------------------------- MODULE InlineCB -------------------------------
(* C05 -- twisted.internet.defer.inlineCallbacks / ensureDeferred(coroutine).

   An OPEN system.  The body of every generator / coroutine is the ENVIRONMENT: it
   may, whenever it is running, await a Deferred, yield a plain value, start a
   nested invocation, return or raise -- the specification does not constrain which.
   The SYSTEM (Twisted's machinery) is what the property constrains:

     Resume(g)      a waiting body is resumed with exactly the outcome of what it
                    awaits (value -> returned, failure -> raised), once per suspension;
     FireResult(g)  the Deferred returned for invocation g fires exactly once, with
                    the body's return value or uncaught exception;
     cancel         cancel() on a returned Deferred while its body waits cancels
                    exactly the Deferred at the end of the waiting chain; nothing else.

   Every driver call is bracketed by a call event and an "end" event; at "end" the
   system must be quiescent: no body that can be resumed is left suspended, every
   finished body's Deferred has fired.  Within a call the order of independent
   moves is not constrained.

   Identities: leaf Deferred d succeeds with value d / fails with error d; a
   canceller of kind 2 fires value 10+d, kind 3 error 10+d, kind 4 a non-Exception
   BaseException 10+d; kinds 0 (none) and 1 (does nothing) give CancelledError.
   Outcomes are pairs <<kind, id>>; failure kinds: "err" (an Exception subclass), "berr"
   (a BaseException subclass that is not an Exception), "acan" (asyncio.CancelledError),
   "cancelled" (twisted's CancelledError).  The specification treats them alike: whatever
   the body raises uncaught is what its Deferred must fire with.
   Scope (see notes/C05.md): every Deferred is awaited at most once; a nested
   invocation is awaited only by the body that started it; only the driver fires
   or cancels Deferreds, and only between calls.                              *)
EXTENDS Naturals, Integers, Sequences, FiniteSets

VARIABLES cfg,      \* [nd |-> number of leaf Deferreds, ng |-> bound on invocations]
          inCall,   \* a driver call is in progress
          stack,    \* invocations whose body is on the Python stack (last = running)
          nG,       \* invocations started so far (ids 1..nG; 1 is the top level)
          phase,    \* phase[g] \in {"none", "running", "waiting", "done"}
          on,       \* on[g]: what g awaits: <<"d", d>>, <<"g", c>>, <<"v", v>> or NoT
          out,      \* out[g]: outcome of the body (return value / uncaught exception)
          res,      \* res[g]: what the Deferred of g fired with (None2 = unfired)
          nres,     \* nres[g]: how many times the Deferred of g fired its callbacks
          par,      \* par[g]: the invocation whose body started g (0 for the top level)
          joined,   \* joined[g]: the parent has awaited g's Deferred
          hidden,   \* hidden[g]: g's Deferred is internal to the machinery (a coroutine object was yielded)
          dst,      \* dst[d]: outcome leaf d fired with (None2 = unfired)
          dAw,      \* dAw[d]: leaf d has been awaited
          creq,     \* pending step of a fire / cancel: [t, x, o]
          sysCanc,  \* leaves the machinery cancelled
          mayCanc,  \* leaves the property allowed the machinery to cancel (end of the waiting chain at cancel())
          last      \* the event just produced

vars == <<cfg, inCall, stack, nG, phase, on, out, res, nres, par, joined, hidden, dst, dAw, creq, sysCanc, mayCanc, last>>

None2 == <<"-", 0>>
NoT   == <<"-", 0>>
NoReq == [t |-> "-", x |-> 0, o |-> None2]
Kinds == 0..4
FailKinds == {"err", "berr", "acan"}   \* Exception subclass / BaseException subclass that is not an Exception / asyncio.CancelledError
Leaves == 1..cfg.nd
Invs   == 1..cfg.ng
COutcome(d, k) == IF k \in {0, 1} THEN <<"cancelled", 0>>
                  ELSE IF k = 2 THEN <<"ok", 10 + d>> ELSE IF k = 3 THEN <<"err", 10 + d>> ELSE <<"berr", 10 + d>>

Ev(e, g, x, k, v) == [e |-> e, g |-> g, x |-> x, k |-> k, v |-> v]

InitWith(c) ==
    /\ cfg = c /\ inCall = FALSE /\ stack = <<>> /\ nG = 0
    /\ phase = [g \in 1..c.ng |-> "none"] /\ on = [g \in 1..c.ng |-> NoT]
    /\ out = [g \in 1..c.ng |-> None2] /\ res = [g \in 1..c.ng |-> None2]
    /\ nres = [g \in 1..c.ng |-> 0] /\ par = [g \in 1..c.ng |-> 0]
    /\ joined = [g \in 1..c.ng |-> FALSE] /\ hidden = [g \in 1..c.ng |-> FALSE]
    /\ dst = [d \in 1..c.nd |-> None2] /\ dAw = [d \in 1..c.nd |-> FALSE]
    /\ creq = NoReq /\ sysCanc = {} /\ mayCanc = {}
    /\ last = Ev("init", 0, 0, "-", 0)

Top == stack[Len(stack)]
Pop == SubSeq(stack, 1, Len(stack) - 1)
Running(g) == inCall /\ stack # <<>> /\ Top = g /\ phase[g] = "running"

\* the outcome available from an awaited target (None2 if not yet available)
Outcome(t) == IF t[1] = "d" THEN dst[t[2]]
              ELSE IF t[1] = "v" THEN <<"ok", t[2]>>
              ELSE IF t[1] = "g" THEN (IF hidden[t[2]] THEN (IF phase[t[2]] = "done" THEN out[t[2]] ELSE None2)
                                       ELSE res[t[2]])
              ELSE None2

\* the Deferred at the end of the chain of awaits starting at target t
RECURSIVE ChainEnd(_)
ChainEnd(t) == IF t[1] = "g" /\ phase[t[2]] = "waiting" /\ Outcome(t) = None2 THEN ChainEnd(on[t[2]]) ELSE t

CanResume(g)    == phase[g] = "waiting" /\ Outcome(on[g]) # None2
CanFireResult(g) == phase[g] = "done" /\ ~hidden[g] /\ res[g] = None2
Quiescent == /\ stack = <<>> /\ creq = NoReq
             /\ \A g \in Invs : ~CanResume(g) /\ ~CanFireResult(g)

U1 == UNCHANGED <<cfg, nG, phase, on, out, res, nres, par, joined, hidden, dAw, sysCanc, mayCanc>>

-----------------------------------------------------------------------------
(* Driver calls (only when no call is in progress). *)
Start(m) ==
    /\ ~inCall /\ nG = 0
    /\ inCall' = TRUE /\ nG' = 1 /\ stack' = <<1>>
    /\ phase' = [phase EXCEPT ![1] = "running"]
    /\ last' = Ev("start", 1, 0, m, 0)
    /\ UNCHANGED <<cfg, on, out, res, nres, par, joined, hidden, dst, dAw, creq, sysCanc, mayCanc>>

DFire(d, o) ==          \* d.callback(value d) / d.errback(error d)
    /\ ~inCall /\ d \in Leaves /\ dst[d] = None2 /\ o \in {"ok"} \cup FailKinds
    /\ inCall' = TRUE /\ creq' = [t |-> "f", x |-> d, o |-> <<o, d>>]
    /\ last' = Ev("fire", 0, d, o, 0)
    /\ UNCHANGED <<stack, dst>> /\ U1

DCancel(g) ==           \* cancel() on the Deferred returned for invocation g
    /\ ~inCall /\ g \in 1..nG /\ ~hidden[g]
    /\ inCall' = TRUE
    /\ LET e == IF res[g] = None2 /\ phase[g] = "waiting" THEN ChainEnd(on[g]) ELSE NoT IN
       /\ creq' = IF e[1] = "d" /\ dst[e[2]] = None2 THEN [t |-> "d", x |-> e[2], o |-> None2] ELSE NoReq
       /\ mayCanc' = IF e[1] = "d" THEN mayCanc \cup {e[2]} ELSE mayCanc
    /\ last' = Ev("cancel", g, 0, "-", 0)
    /\ UNCHANGED <<cfg, stack, nG, phase, on, out, res, nres, par, joined, hidden, dst, dAw, sysCanc>>

DCancelLeaf(d) ==       \* the driver itself calls cancel() on leaf d
    /\ ~inCall /\ d \in Leaves
    /\ inCall' = TRUE
    /\ creq' = IF dst[d] = None2 THEN [t |-> "d", x |-> d, o |-> None2] ELSE NoReq
    /\ mayCanc' = mayCanc \cup {d}
    /\ last' = Ev("cancelleaf", 0, d, "-", 0)
    /\ UNCHANGED <<cfg, stack, nG, phase, on, out, res, nres, par, joined, hidden, dst, dAw, sysCanc>>

End ==
    /\ inCall /\ Quiescent
    /\ inCall' = FALSE
    /\ last' = Ev("end", 0, 0, "ok", 0)
    /\ UNCHANGED <<stack, dst, creq>> /\ U1

-----------------------------------------------------------------------------
(* Steps of a fire / cancel that user code observes. *)
CancellerCalled(d, k) ==   \* the canceller of leaf d runs (kinds 1..3)
    /\ inCall /\ creq.t = "d" /\ creq.x = d /\ k \in {1, 2, 3, 4}
    /\ creq' = [creq EXCEPT !.t = "c"]
    /\ last' = Ev("cc", 0, d, "-", 0)
    /\ UNCHANGED <<inCall, stack, dst>> /\ U1

LeafFires(d, k) ==         \* the first callback of leaf d sees what it fired with
    /\ inCall /\ creq.x = d /\ dst[d] = None2
    /\ \/ creq.t = "f"
       \/ creq.t = "d" /\ k = 0
       \/ creq.t = "c" /\ k \in {1, 2, 3, 4}
    /\ LET o == IF creq.t = "f" THEN creq.o ELSE COutcome(d, k) IN
       /\ dst' = [dst EXCEPT ![d] = o]
       /\ last' = Ev("in", 0, d, o[1], o[2])
    /\ sysCanc' = IF creq.t = "f" THEN sysCanc ELSE sysCanc \cup {d}
    /\ creq' = NoReq
    /\ UNCHANGED <<cfg, inCall, stack, nG, phase, on, out, res, nres, par, joined, hidden, dAw, mayCanc>>

-----------------------------------------------------------------------------
(* System moves. *)
Resume(g) ==
    /\ inCall /\ g \in Invs /\ CanResume(g)
    /\ LET o == Outcome(on[g]) IN last' = Ev("resume", g, 0, o[1], o[2])
    /\ phase' = [phase EXCEPT ![g] = "running"]
    /\ on' = [on EXCEPT ![g] = NoT]
    /\ stack' = Append(stack, g)
    /\ UNCHANGED <<cfg, inCall, nG, out, res, nres, par, joined, hidden, dst, dAw, creq, sysCanc, mayCanc>>

FireResult(g) ==
    /\ inCall /\ g \in Invs /\ CanFireResult(g)
    /\ res' = [res EXCEPT ![g] = out[g]]
    /\ nres' = [nres EXCEPT ![g] = @ + 1]
    /\ last' = Ev("res", g, 0, out[g][1], out[g][2])
    /\ UNCHANGED <<cfg, inCall, stack, nG, phase, on, out, par, joined, hidden, dst, dAw, creq, sysCanc, mayCanc>>

-----------------------------------------------------------------------------
(* Environment moves: the body that is running does what it likes. *)
Suspend(g, t) ==
    /\ phase' = [phase EXCEPT ![g] = "waiting"]
    /\ on' = [on EXCEPT ![g] = t]
    /\ stack' = Pop

YieldLeaf(g, d) ==
    /\ Running(g) /\ d \in Leaves /\ ~dAw[d]
    /\ Suspend(g, <<"d", d>>) /\ dAw' = [dAw EXCEPT ![d] = TRUE]
    /\ last' = Ev("yield", g, d, "d", 0)
    /\ UNCHANGED <<cfg, inCall, nG, out, res, nres, par, joined, hidden, dst, creq, sysCanc, mayCanc>>

YieldVal(g, v) ==
    /\ Running(g)
    /\ Suspend(g, <<"v", v>>)
    /\ last' = Ev("yield", g, v, "v", 0)
    /\ UNCHANGED <<cfg, inCall, nG, out, res, nres, par, joined, hidden, dst, dAw, creq, sysCanc, mayCanc>>

YieldChild(g, c) ==
    /\ Running(g) /\ c \in 1..nG /\ par[c] = g /\ ~joined[c] /\ ~hidden[c]
    /\ Suspend(g, <<"g", c>>) /\ joined' = [joined EXCEPT ![c] = TRUE]
    /\ last' = Ev("yield", g, c, "g", 0)
    /\ UNCHANGED <<cfg, inCall, nG, out, res, nres, par, hidden, dst, dAw, creq, sysCanc, mayCanc>>

Spawn(g, m) ==          \* the body calls an inlineCallbacks function / ensureDeferred(coroutine)
    /\ Running(g) /\ nG < cfg.ng
    /\ nG' = nG + 1
    /\ phase' = [phase EXCEPT ![nG + 1] = "running"]
    /\ par' = [par EXCEPT ![nG + 1] = g]
    /\ stack' = Append(stack, nG + 1)
    /\ last' = Ev("spawn", g, nG + 1, m, 0)
    /\ UNCHANGED <<cfg, inCall, on, out, res, nres, joined, hidden, dst, dAw, creq, sysCanc, mayCanc>>

SpawnYield(g, m) ==     \* the body yields a coroutine object: the machinery starts it and g awaits it
    /\ Running(g) /\ nG < cfg.ng
    /\ nG' = nG + 1
    /\ phase' = [phase EXCEPT ![g] = "waiting", ![nG + 1] = "running"]
    /\ on' = [on EXCEPT ![g] = <<"g", nG + 1>>]
    /\ par' = [par EXCEPT ![nG + 1] = g]
    /\ joined' = [joined EXCEPT ![nG + 1] = TRUE]
    /\ hidden' = [hidden EXCEPT ![nG + 1] = TRUE]
    /\ stack' = Append(Pop, nG + 1)
    /\ last' = Ev("spawnyield", g, nG + 1, m, 0)
    /\ UNCHANGED <<cfg, inCall, out, res, nres, dst, dAw, creq, sysCanc, mayCanc>>

Finish(g, e, o) ==      \* return value / uncaught exception
    /\ Running(g) /\ e \in {"return", "raise"}
    /\ phase' = [phase EXCEPT ![g] = "done"]
    /\ out' = [out EXCEPT ![g] = o]
    /\ stack' = Pop
    /\ last' = Ev(e, g, 0, o[1], o[2])
    /\ UNCHANGED <<cfg, inCall, nG, on, res, nres, par, joined, hidden, dst, dAw, creq, sysCanc, mayCanc>>

-----------------------------------------------------------------------------
(* The property as invariants. *)
TypeOK == /\ \A g \in Invs : phase[g] \in {"none", "running", "waiting", "done"}
          /\ \A k \in 1..Len(stack) : phase[stack[k]] = "running"

\* the returned Deferred fires at most once, and with the body's outcome
ResultOnce == \A g \in Invs : /\ nres[g] <= 1
                              /\ (res[g] # None2 => phase[g] = "done" /\ res[g] = out[g] /\ nres[g] = 1)

\* between calls nothing is owed: finished bodies have fired their Deferred, resumable bodies were resumed
NothingOwed == ~inCall => Quiescent /\ \A g \in Invs : phase[g] # "running"

\* only the awaited Deferred is ever cancelled by the machinery
CancelExact == sysCanc \subseteq mayCanc

Inv == TypeOK /\ ResultOnce /\ NothingOwed /\ CancelExact
=============================================================================
