SPECIFICATION Spec
CONSTANT MaxBody = 4
VIEW View
INVARIANT RefInv
INVARIANT SenderInv
INVARIANT NoLoss
INVARIANT EndOnlyAtTerminator
INVARIANT EndToEnd
INVARIANT ExpInv
INVARIANT RefInvSync
CHECK_DEADLOCK FALSE
