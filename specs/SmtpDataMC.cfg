SPECIFICATION Spec
CONSTANT MaxBody = 5
VIEW View
INVARIANT RefInv
INVARIANT SenderInv
INVARIANT NoLoss
INVARIANT EndOnlyAtTerminator
INVARIANT EndToEnd
INVARIANT ExpInv
INVARIANT RefInvSync
CHECK_DEADLOCK FALSE
