SPECIFICATION Spec
CONSTANT MaxSize = 5
CONSTANT MaxVal = 7
CONSTANT MinSpecs = 0
CONSTANT MaxSpecs = 2
CONSTANT WithBad = TRUE
CONSTANT EmitCases = TRUE
CONSTRAINT Emit
INVARIANT CanonAllowed
INVARIANT SomeResponse
INVARIANT Inv
CHECK_DEADLOCK FALSE
