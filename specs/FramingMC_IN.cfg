SPECIFICATION MCSpec
CONSTANT L = 4
CONSTANT Kind = "IN"
CONSTANT LOBound = "asis"
VIEW View
INVARIANT Ok
INVARIANT Inv
CHECK_DEADLOCK FALSE
