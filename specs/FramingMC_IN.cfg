SPECIFICATION MCSpec
CONSTANT L = 5
CONSTANT Kind = "IN"
VIEW View
INVARIANT Ok
INVARIANT Inv
CHECK_DEADLOCK FALSE
