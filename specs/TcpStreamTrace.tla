---------------------------- MODULE TcpStreamTrace ----------------------------
(* Batched trace validation for C15: every recorded loopback connection under a real reactor must be
   a behaviour of TcpStream, one design action per logged event with every logged field as an argument. *)
EXTENDS TcpStream, TLC, Json, IOUtils

Traces == JsonDeserialize(IOEnv.TRACE_FILE)
VARIABLES tid, l
ASSUME \A t \in 1..Len(Traces) : TLCSet(t, 1)

T == Traces[tid]
E == T.ev[l]

TInit == /\ tid \in 1..Len(Traces) /\ l = 1
         /\ InitWith([hc |-> Traces[tid].cfg.hc])

Act == \/ (E.e \in {"w", "ws"} /\ E.s \in Sides /\ E.n >= 0 /\ Write(E.s, E.n))
       \/ (E.e = "r" /\ E.s \in Sides /\ Recv(E.s, E.off, E.len))
       \/ (E.e = "req" /\ E.s \in Sides /\ Req(E.s, E.k))
       \/ (E.e = "rdl" /\ E.s \in Sides /\ ReadLost(E.s))
       \/ (E.e = "wrl" /\ E.s \in Sides /\ WriteLost(E.s))
       \/ (E.e = "lost" /\ E.s \in Sides /\ ConnLost(E.s, E.why))
       \/ (E.e = "end" /\ Ended /\ UNCHANGED vars)

TNext == l <= Len(T.ev) /\ Act /\ Inv' /\ l' = l + 1 /\ UNCHANGED tid

TSpec == TInit /\ [][TNext]_<<vars, tid, l>>

Progress == TLCSet(tid, IF TLCGet(tid) > l THEN TLCGet(tid) ELSE l)
Rejected == {<<t, TLCGet(t)>> : t \in {u \in 1..Len(Traces) : TLCGet(u) # Len(Traces[u].ev) + 1}}
Accepted == Rejected = {} \/ (PrintT(<<"REJECTED", Rejected>>) /\ FALSE)
=============================================================================
