SPECIFICATION SSpec
CONSTANT Depth = 16
CONSTANT MaxO = 5
CONSTANT MaxRaising = 3
CONSTRAINT Stop
CHECK_DEADLOCK FALSE
