----------------------------- MODULE ProducersMC -----------------------------
EXTENDS Producers, TLC
CONSTANT MaxPlan, MaxPc, MaxStops, Depth
Plans == UNION {[1..n -> {0, 1}] : n \in 0..MaxPlan}
Init == \E k \in Kinds, pl \in Plans, u \in {"stop", "raise", "forget"} :
          /\ (k # "p2p" => u = "stop")
          /\ InitWith([kind |-> k, plan |-> pl, rs |-> 1, unreg |-> u])
Spec == Init /\ [][Next]_vars
Bound == pc <= MaxPc /\ nstops <= MaxStops /\ ri <= MaxPlan + 1 /\ TLCGet("level") <= Depth
View == <<cfg, started, task, pc, ri, closed, closes, out, dst, dres, nfired, fsfile, lastSent, unregs, pstops, nstops, ustop, sched>>
=============================================================================
