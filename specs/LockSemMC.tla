------------------------------ MODULE LockSemMC ------------------------------
EXTENDS LockSem, TLC
CONSTANT Depth, MaxAcq
Configs == {[limit |-> 1, lock |-> TRUE]} \cup {[limit |-> n, lock |-> FALSE] : n \in 1..3}
Init == \E c \in Configs : InitWith(c)
Spec == Init /\ [][Next]_vars
Bound == NAcq <= MaxAcq /\ TLCGet("level") <= Depth + 1   \* Depth = number of calls
View == <<cfg, kinds, waitq, holders, cancelled, grants, relcount, resavail>>
=============================================================================
