------------------------------ MODULE ServicesMC ------------------------------
EXTENDS Services, TLC
(* exhaustive exploration of the disciplined environment (Next) over a few small pools:
   two containers + two leaves (depth 3), duplicate real names, the empty name, deferred and plain leaves *)
Configs == {
  [n |-> 4, kind |-> <<"m", "m", "l", "l">>, name |-> <<0, 2, 2, 3>>, dfr |-> <<FALSE, FALSE, TRUE, FALSE>>],
  [n |-> 4, kind |-> <<"m", "m", "l", "l">>, name |-> <<0, 0, 2, 2>>, dfr |-> <<FALSE, FALSE, TRUE, TRUE>>],
  [n |-> 3, kind |-> <<"m", "l", "l">>, name |-> <<0, 1, 1>>, dfr |-> <<FALSE, TRUE, FALSE>>] }
Init == \E c \in Configs : InitWith(c)
\* as Next, but renaming is tried once, on leaves, to None or the contested name (keeps the quick run small)
Renames == Cardinality({s \in S : name[s] # cfg.name[s]})
MCSetName == \E s \in S, k \in {0, 2} : Renames = 0 /\ ~Multi(s) /\ SetName(s, k)
MCNext == DAdd \/ DDisown \/ DPriv \/ DStart \/ DStop \/ DFire \/ MCSetName \/ DGet
Spec == Init /\ [][MCNext]_vars
\* the undisciplined environment: any service may be started/stopped at any time, running services attached
WildNext == \/ \E c, p \in S : Add(c, p)
            \/ \E c \in S : Disown(c)
            \/ \E s \in S : Priv(s) \/ Start(s) \/ Stop(s)
            \/ DFire \/ MCSetName \/ \E p \in S : Get(p, 2)
WildSpec == Init /\ [][WildNext]_vars
WildBound == ntok <= 3 /\ nw <= 2 /\ Renames <= 1 /\ TLCGet("level") <= 4
WildDeepBound == ntok <= 3 /\ nw <= 2 /\ Renames <= 1 /\ TLCGet("level") <= 5
DeepBound == ntok <= 4 /\ nw <= 3 /\ Renames <= 1 /\ TLCGet("level") <= 8
Bound == ntok <= 3 /\ nw <= 2 /\ Renames <= 1 /\ TLCGet("level") <= 7
View == <<cfg, name, par, kids, named, run, ntok, tokw, tokdone, nw, worig, wn, wdone, dang, corrupt, dstart, dstop, wild>>
\* reachability witnesses: TLC must report these VIOLATED (the ODDITY branches and late-firing watchers are reached)
NeverCorrupt == corrupt = {} \/ dang = {}
NeverLateFire == \A w \in wdone : worig[w] = {}
\* properties of the last call are checked on EVERY transition (the VIEW hides `last`)
StepInv == [][CallOrder' /\ AddStarts' /\ RemoveStops']_vars
WildStepInv == [][CallOrder' /\ AddStarts' /\ RemoveStops']_vars
=============================================================================
