SPECIFICATION Spec
CONSTRAINT Bound
VIEW View
INVARIANT TimerSound
INVARIANT LiveSound
INVARIANT IdsUnique
INVARIANT ResultSound
INVARIANT StoppedEmpty
PROPERTY ExactlyOnce
CHECK_DEADLOCK FALSE
