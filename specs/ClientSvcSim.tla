----------------------------- MODULE ClientSvcSim -----------------------------
(* Behaviour generator (spec -> code): ClientSvc plus a history variable recording the stimuli in the
   adapter's op vocabulary; printed as JSON once a behaviour reaches Depth.  Run with `tlc -simulate`;
   the harness issues each stimulus on the real ClientService and TLC validates what it observed.    *)
EXTENDS ClientSvc, TLC, Json
CONSTANT Depth
VARIABLE hist
Modes == {"async", "ok", "fail"}
SInit == /\ \E h \in BOOLEAN, sc \in BOOLEAN, cm \in Modes, hm \in Modes, p \in {<<1, 2>>, <<2, 3, 5>>, <<1, 1, 4>>} :
              InitWith([hook |-> h, syncClose |-> sc, pol |-> p, cmode |-> cm, hmode |-> hm])
         /\ hist = <<>>
H(op) == hist' = Append(hist, op)
SNext == \/ (Start /\ H(<<"start">>))
         \/ (\E t \in Thens : Stop(t) /\ H(<<"stop", t>>))
         \/ (\E k \in (0 - 1)..3, t \in Thens : When(k, t) /\ H(<<"when", ToString(k), t>>))
         \/ (Succeed /\ H(<<"succeed">>))
         \/ (Fail /\ H(<<"fail">>))
         \/ (\E c \in S.hooks : PrepOk(c) /\ H(<<"prepok", ToString(c)>>))
         \/ (\E c \in S.hooks : PrepFail(c) /\ H(<<"prepfail", ToString(c)>>))
         \/ (\E c \in {S.conn} : Drop(c) /\ H(<<"drop", ToString(c)>>))
         \/ (\E d \in 1..3 : Adv(d) /\ H(<<"adv", ToString(d)>>))
         \/ (\E m \in Modes : CMode(m) /\ H(<<"cmode", m>>))
         \/ (\E m \in Modes : HMode(m) /\ H(<<"hmode", m>>))
         \/ (Nested /\ UNCHANGED hist)
SSpec == SInit /\ [][SNext]_<<vars, hist>>
Emit == TLCGet("level") < Depth \/ S.todo # {} \/ PrintT(<<"BEH", ToJson([cfg |-> cfg, hist |-> hist])>>)
Stop1 == TLCGet("level") <= Depth
=============================================================================
