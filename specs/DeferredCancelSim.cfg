SPECIFICATION SSpec
CONSTANT Depth = 13
CONSTANT MaxD = 4
CONSTRAINT Emit
CONSTRAINT Stop
CHECK_DEADLOCK FALSE
