------------------------------ MODULE PathFtpMC ------------------------------
(* Exhaustive TLC run for C54: every FTP session of up to Depth path-taking
   commands, each with every path of up to MaxLen components over the hostile
   alphabet, on both shells; every step's accesses must be inside the root
   (action property StepConfined -- checked on every transition, also those
   leading to an already visited state; last/touched are outside the VIEW).   *)
EXTENDS PathFtp, Json
CONSTANTS MaxLen, Symbols, Modes, Depth, Anons, Wd0s, RnfrLen

VARIABLES n,       \* commands so far
          hist     \* the session so far, with the model's prediction for every command (outside the VIEW)
mcvars == <<fvars, n, hist>>

SymSmall == {"a", "e", "f", "nx", "rootbar", ".", "..", "", "nul"}
SymQuick == SymSmall \cup {"root"}
SymFull  == SymQuick \cup {"bs", "pct2e", "pct2f", "xff", "nx.ext"}
MCNul == {"nul"}
MCPP  == {<<"root", "rootbar">>, <<".", "..">>, <<"nx", "nx.ext">>}

RECURSIVE SeqsUpTo(_, _)
SeqsUpTo(S, k) == IF k = 0 THEN {<<>>} ELSE LET R == SeqsUpTo(S, k - 1) IN R \cup {Append(r, s) : r \in {x \in R : Len(x) = k - 1}, s \in S}
Paths == SeqsUpTo(Symbols, MaxLen) \ {<<>>}

WdAll == {<<>>, <<"a">>, <<"a", "a">>}
WdRoot == {<<>>}
D0 == {<<>>, <<"a">>, <<"a", "a">>, <<"a", "e">>}       \* a/e is empty
F0 == {<<"f">>, <<"nx.ext">>, <<"a", "f">>, <<"a", "index.html">>, <<"a", "a", "f">>}

(* Sessions start in one of the directories Wd0s (as if a successful "CWD /<wd0>" had just been handled --
   that command is the first entry of hist, so that printed sessions are self-contained). *)
Init == /\ n = 0
        /\ \E m \in Modes, an \in Anons, w \in Wd0s :
             /\ FtpInit([root |-> <<"", "P", "root">>, cwd |-> <<"", "w">>], m, an, D0, F0, w)
             /\ hist = IF w = <<>> THEN <<>>
                       ELSE << [cmd |-> "CWD", arg |-> <<"">> \o w, ok |-> TRUE, acc |-> << <<"list", cfg.root \o w>> >>] >>

Log  == hist' = Append(hist, [cmd |-> last'.cmd, arg |-> last'.arg, ok |-> last'.ok, acc |-> last'.acc])
Tick == n' = n + 1 /\ Log
DoCwd  == n < Depth /\ (\E p \in Paths : Cwd(p)) /\ Tick
DoList == n < Depth /\ (\E p \in Paths : List(p)) /\ Tick
DoRetr == n < Depth /\ (\E p \in Paths : Retr(p)) /\ Tick
DoStat == n < Depth /\ (\E p \in Paths : Stat(p)) /\ Tick
DoStor == n < Depth /\ (\E p \in Paths : Stor(p)) /\ Tick
DoMkd  == n < Depth /\ (\E p \in Paths : Mkd(p)) /\ Tick
DoRmd  == n < Depth /\ (\E p \in Paths : Rmd(p)) /\ Tick
DoDele == n < Depth /\ (\E p \in Paths : Dele(p)) /\ Tick
DoRnfr == n < Depth /\ (\E p \in SeqsUpTo(Symbols, RnfrLen) \ {<<>>} : Rnfr(p)) /\ n' = n /\ Log
DoRnto == n < Depth /\ (\E p \in Paths : Rnto(p)) /\ Tick
DoBadSeq == n < Depth /\ BadSeq("CWD", <<"a">>) /\ Tick

Next == DoCwd \/ DoList \/ DoRetr \/ DoStat \/ DoStor \/ DoMkd \/ DoRmd \/ DoDele \/ DoRnfr \/ DoRnto \/ DoBadSeq
Spec == Init /\ [][Next]_mcvars

View == <<cfg, mode, wd, rn, dirs, files, anon, n>>

(* The property on the design: whatever a command touches is inside the root. *)
StepConfined == [][ Confined(last'.acc, <<>>) ]_mcvars
(* spec -> code: every transition in which the model touches the tree or answers positively is printed as a
   session (the commands leading to the state it starts from, then the command) for replay on the real server. *)
EmitCover == ~(last'.ok \/ last'.acc # <<>>) \/ PrintT(<<"BEH", ToJson([anon |-> anon, hist |-> hist'])>>)

(* The tree stays a tree below an existing root (sanity of the model itself). *)
TreeOk == /\ dirs \cap files = {}
          /\ \A s \in dirs \cup files : s = <<>> \/ Parent(s) \in dirs \/ <<>> \notin dirs
=============================================================================
