SPECIFICATION Spec
CONSTANT Depth = 4
CONSTANT MaxW = 5
CONSTANT Small = TRUE
CONSTRAINT Bound
VIEW View
INVARIANT Accepted
INVARIANT Glue
INVARIANT PrefixInv
INVARIANT ProdInv
INVARIANT CloseInv
CHECK_DEADLOCK FALSE
