------------------------------ MODULE Producers ------------------------------
(* Extension X27 -- producer helpers.
   cfg.kind = "fbp"  twisted.web.client.FileBodyProducer: a cooperative task reads the file one chunk per work unit
                     and writes it to the consumer; pause/resume/stopProducing drive the task; the Deferred returned by
                     startProducing fires with None after the last chunk, with the error when read() raises, and is
                     parked on a never-firing Deferred when the producer is stopped.
              "fs"   twisted.protocols.basic.FileSender registered as a pull producer with a consumer that wraps it in
                     twisted.internet._producer_helpers._PullToPush (as the TLS and HTTP/2 transports do).
              "fsd"  FileSender pulled directly by its consumer.
              "p2p"  _PullToPush around a scripted pull producer whose resumeProducing writes a chunk or raises, with a
                     consumer whose unregisterProducer stops streaming / raises / forgets (cfg.unreg).
   cfg.plan = outcomes of successive reads (k > 0: a chunk of k bytes, 0: the read raises); after the plan: end of file
   (for "p2p": outcomes of successive resumeProducing calls; after the plan: a chunk every time).
   Chunk ids are read indexes.  One scheduler tick = one work unit of the cooperative task.

   Deliberate deviations from what one would expect (the code does this; see notes/X27.md "Oddities"):
   D1 FileBodyProducer does not close the file when read() raises.
   D2 FileBodyProducer.stopProducing closes the file every time it is called (also after completion).
   D3 cancelling the startProducing Deferred after the producer was stopped fires it with CancelledError.
   D4 pause/resume/stopProducing before startProducing raise AttributeError (stopProducing after closing the file).
   D5 FileSender behind _PullToPush: a read error is logged, the consumer is unregistered, the Deferred never fires.
   D6 FileSender fires with the str "" (not bytes) for an empty file; it never closes the file.
   D7 _PullToPush.pauseProducing after streaming stopped raises TaskStopped/TaskDone; stopProducing forwards to the
      pull producer every time it is called.                                                                       *)
EXTENDS Naturals, Integers, Sequences, FiniteSets

VARIABLES cfg, started,
          task,      \* cooperative task: "none" | "run" | "stopped" | "done" | "failed"
          pc,        \* pause count of the task
          ri,        \* reads (pulls) performed so far
          closed, closes,
          out,       \* chunk ids received by the consumer
          dst,       \* the Deferred: "none" | "pending" | "parked" | "fired"
          dres,      \* <<"none",0>> or what it fired with
          nfired,
          fsfile,    \* FileSender still has its file
          lastSent,  \* id of the last chunk FileSender wrote (0: none)
          unregs,    \* consumer.unregisterProducer calls
          pstops,    \* stopProducing calls received by the scripted pull producer
          nstops,    \* stop requests made by the user (stopProducing, cancel of a pending Deferred)
          ustop,     \* the user asked to stop
          sched,     \* the scheduler holds a tick request
          last
vars == <<cfg, started, task, pc, ri, closed, closes, out, dst, dres, nfired, fsfile, lastSent, unregs, pstops, nstops, ustop, sched, last>>

Kinds == {"fbp", "fs", "fsd", "p2p"}
PlanAt(i) == IF i <= Len(cfg.plan) THEN (IF cfg.plan[i] = 0 THEN "err" ELSE "c")
             ELSE IF cfg.kind = "p2p" THEN "c" ELSE "eof"
Outcome == PlanAt(ri + 1)
RECURSIVE ChunkIds(_)
ChunkIds(n) == IF n = 0 THEN <<>> ELSE ChunkIds(n - 1) \o (IF PlanAt(n) = "c" THEN <<n>> ELSE <<>>)
TaskErr == CASE task = "done" -> "TaskDone" [] task = "stopped" -> "TaskStopped" [] task = "failed" -> "TaskFailed" [] OTHER -> "?"

Rep(x, n) == [i \in 1..n |-> x]
\* the order in which one call touches the boundary: read the file (or pull the scripted producer), write to the consumer,
\* close the file, log the failure, unregister from the consumer, log a failing unregister, fire the Deferred, forward
\* stopProducing, register with the consumer.  In particular FileSender unregisters BEFORE it fires its Deferred and
\* FileBodyProducer closes the file BEFORE it fires.
Order(w, reads, fired, cl, un, ps, rg, lg) ==
    Rep("read", Len(reads)) \o Rep("write", Len(w)) \o Rep("close", cl) \o Rep("log", IF lg >= 1 THEN 1 ELSE 0)
    \o Rep("unreg", un) \o Rep("log", IF lg >= 2 THEN 1 ELSE 0) \o Rep("fire", Len(fired)) \o Rep("pstop", ps)
    \o Rep("reg", Len(rg))
L(e, res, w, reads, fired, cl, un, ps, rg, lg, p) ==
    [e |-> e, res |-> res, w |-> w, reads |-> reads, fired |-> fired, closes |-> cl, unreg |-> un, pstop |-> ps,
     reg |-> rg, logged |-> lg, p |-> p, seq |-> Order(w, reads, fired, cl, un, ps, rg, lg)]

InitWith(c) ==
    /\ cfg = c /\ started = FALSE /\ task = "none" /\ pc = 0 /\ ri = 0 /\ closed = FALSE /\ closes = 0
    /\ out = <<>> /\ dst = "none" /\ dres = <<"none", 0>> /\ nfired = 0 /\ fsfile = (c.kind \in {"fs", "fsd"})
    /\ lastSent = 0 /\ unregs = 0 /\ pstops = 0 /\ nstops = 0 /\ ustop = FALSE /\ sched = FALSE
    /\ last = [e |-> "init"]

Fire(r) == dst' = "fired" /\ dres' = r /\ nfired' = nfired + 1
NoFire == UNCHANGED <<dst, dres, nfired>>

(* startProducing(consumer) / beginFileTransfer(file, consumer) / _PullToPush.startStreaming() *)
Start ==
    /\ ~started /\ started' = TRUE
    /\ task' = IF cfg.kind = "fsd" THEN "none" ELSE "run"
    /\ sched' = (cfg.kind # "fsd")
    /\ dst' = IF cfg.kind = "p2p" THEN "none" ELSE "pending"
    /\ last' = L("start", "ok", <<>>, <<>>, <<>>, 0, 0, 0, IF cfg.kind \in {"fs", "fsd"} THEN <<"pull">> ELSE <<>>, 0, sched')
    /\ UNCHANGED <<cfg, pc, ri, closed, closes, out, dres, nfired, fsfile, lastSent, unregs, pstops, nstops, ustop>>

(* one work unit of FileBodyProducer._writeloop *)
FbpTick ==
    /\ cfg.kind = "fbp" /\ sched
    /\ IF closed THEN                       \* read() on a closed file raises ValueError (only after D4)
            /\ task' = "failed" /\ Fire(<<"ValueError", 0>>) /\ sched' = FALSE
            /\ last' = L("tick", "ok", <<>>, <<cfg.rs>>, <<<<"ValueError", 0>>>>, 0, 0, 0, <<>>, 0, FALSE)
            /\ UNCHANGED <<ri, closed, closes, out>>
       ELSE CASE Outcome = "c" ->
                 /\ ri' = ri + 1 /\ out' = Append(out, ri + 1) /\ NoFire
                 /\ last' = L("tick", "ok", <<ri + 1>>, <<cfg.rs>>, <<>>, 0, 0, 0, <<>>, 0, TRUE)
                 /\ UNCHANGED <<task, sched, closed, closes>>
              [] Outcome = "err" ->           \* D1: the file stays open
                 /\ ri' = ri + 1 /\ task' = "failed" /\ Fire(<<"IOError", 0>>) /\ sched' = FALSE
                 /\ last' = L("tick", "ok", <<>>, <<cfg.rs>>, <<<<"IOError", 0>>>>, 0, 0, 0, <<>>, 0, FALSE)
                 /\ UNCHANGED <<closed, closes, out>>
              [] Outcome = "eof" ->
                 /\ task' = "done" /\ Fire(<<"ok", 0>>) /\ sched' = FALSE /\ closed' = TRUE /\ closes' = closes + 1
                 /\ last' = L("tick", "ok", <<>>, <<cfg.rs>>, <<<<"ok", 0>>>>, 1, 0, 0, <<>>, 0, FALSE)
                 /\ UNCHANGED <<ri, out>>
    /\ UNCHANGED <<cfg, started, pc, fsfile, lastSent, unregs, pstops, nstops, ustop>>

(* pauseProducing on the push interface: CooperativeTask.pause *)
Pause ==
    /\ cfg.kind # "fsd" /\ (started \/ cfg.kind = "fbp")
    /\ IF ~started THEN /\ last' = L("pause", "AttributeError", <<>>, <<>>, <<>>, 0, 0, 0, <<>>, 0, sched)   \* D4
                        /\ UNCHANGED <<pc, sched>>
       ELSE IF task # "run" THEN /\ last' = L("pause", TaskErr, <<>>, <<>>, <<>>, 0, 0, 0, <<>>, 0, sched)    \* D7
                                 /\ UNCHANGED <<pc, sched>>
       ELSE /\ pc' = pc + 1 /\ sched' = FALSE
            /\ last' = L("pause", "ok", <<>>, <<>>, <<>>, 0, 0, 0, <<>>, 0, FALSE)
    /\ UNCHANGED <<cfg, started, task, ri, closed, closes, out, dst, dres, nfired, fsfile, lastSent, unregs, pstops, nstops, ustop>>

(* resumeProducing on the push interface: CooperativeTask.resume *)
Resume ==
    /\ cfg.kind # "fsd" /\ (started \/ cfg.kind = "fbp")
    /\ IF ~started THEN /\ last' = L("resume", "AttributeError", <<>>, <<>>, <<>>, 0, 0, 0, <<>>, 0, sched)
                        /\ UNCHANGED <<pc, sched>>
       ELSE IF pc = 0 THEN /\ last' = L("resume", "NotPaused", <<>>, <<>>, <<>>, 0, 0, 0, <<>>, 0, sched)
                           /\ UNCHANGED <<pc, sched>>
       ELSE /\ pc' = pc - 1 /\ sched' = (pc = 1 /\ task = "run")
            /\ last' = L("resume", "ok", <<>>, <<>>, <<>>, 0, 0, 0, <<>>, 0, sched')
    /\ UNCHANGED <<cfg, started, task, ri, closed, closes, out, dst, dres, nfired, fsfile, lastSent, unregs, pstops, nstops, ustop>>

(* FileBodyProducer.stopProducing: close the file (D2: every time), stop the task; the Deferred is parked *)
FbpStop ==
    /\ cfg.kind = "fbp"
    /\ closed' = TRUE /\ closes' = closes + 1 /\ ustop' = TRUE /\ nstops' = nstops + 1
    /\ IF task = "run" THEN task' = "stopped" /\ sched' = FALSE /\ dst' = "parked"
                       ELSE UNCHANGED <<task, sched, dst>>
    /\ last' = L("stop", IF started THEN "ok" ELSE "AttributeError", <<>>, <<>>, <<>>, 1, 0, 0, <<>>, 0, FALSE)
    /\ UNCHANGED <<cfg, started, pc, ri, out, dres, nfired, fsfile, lastSent, unregs, pstops>>

(* cancel() of the Deferred returned by startProducing *)
FbpCancel ==
    /\ cfg.kind = "fbp" /\ started
    /\ CASE dst = "pending" ->              \* behaves as stopProducing
              /\ closed' = TRUE /\ closes' = closes + 1 /\ ustop' = TRUE /\ nstops' = nstops + 1
              /\ task' = "stopped" /\ sched' = FALSE /\ dst' = "parked"
              /\ last' = L("cancel", "ok", <<>>, <<>>, <<>>, 1, 0, 0, <<>>, 0, FALSE)
              /\ UNCHANGED <<dres, nfired>>
         [] dst = "parked" ->               \* D3
              /\ Fire(<<"CancelledError", 0>>)
              /\ last' = L("cancel", "ok", <<>>, <<>>, <<<<"CancelledError", 0>>>>, 0, 0, 0, <<>>, 0, sched)
              /\ UNCHANGED <<closed, closes, ustop, nstops, task, sched>>
         [] OTHER ->
              /\ last' = L("cancel", "ok", <<>>, <<>>, <<>>, 0, 0, 0, <<>>, 0, sched)
              /\ UNCHANGED <<closed, closes, ustop, nstops, task, sched, dst, dres, nfired>>
    /\ UNCHANGED <<cfg, started, pc, ri, out, fsfile, lastSent, unregs, pstops>>

(* FileSender.resumeProducing, called by _PullToPush's task (viaP2P) or directly by the consumer *)
FsPull(e, viaP2P) ==
    /\ IF fsfile /\ Outcome = "c" THEN
            /\ ri' = ri + 1 /\ out' = Append(out, ri + 1) /\ lastSent' = ri + 1 /\ NoFire
            /\ last' = L(e, "ok", <<ri + 1>>, <<cfg.rs>>, <<>>, 0, 0, 0, <<>>, 0, sched)
            /\ UNCHANGED <<fsfile, unregs, task, sched>>
       ELSE IF fsfile /\ Outcome = "err" THEN
            /\ ri' = ri + 1 /\ NoFire
            /\ IF viaP2P THEN                \* D5: logged, consumer unregistered (it stops streaming), Deferred left pending
                    /\ unregs' = unregs + 1 /\ task' = "stopped" /\ sched' = FALSE
                    /\ last' = L(e, "ok", <<>>, <<cfg.rs>>, <<>>, 0, 1, 0, <<>>, 1, FALSE)
               ELSE /\ last' = L(e, "IOError", <<>>, <<cfg.rs>>, <<>>, 0, 0, 0, <<>>, 0, sched)
                    /\ UNCHANGED <<unregs, task, sched>>
            /\ UNCHANGED <<out, lastSent, fsfile>>
       ELSE                                  \* end of file (or the file was already given up): unregister, fire with the last byte
            /\ fsfile' = FALSE /\ unregs' = unregs + 1
            /\ IF dst = "pending" THEN Fire(<<"ok", lastSent>>) ELSE NoFire
            /\ IF viaP2P THEN task' = "stopped" /\ sched' = FALSE ELSE UNCHANGED <<task, sched>>
            /\ last' = L(e, "ok", <<>>, IF fsfile THEN <<cfg.rs>> ELSE <<>>,
                         IF dst = "pending" THEN <<<<"ok", lastSent>>>> ELSE <<>>, 0, 1, 0, <<>>, 0, sched')
            /\ UNCHANGED <<ri, out, lastSent>>
    /\ UNCHANGED <<cfg, started, pc, closed, closes, pstops, nstops, ustop>>

FsTick == cfg.kind = "fs" /\ sched /\ FsPull("tick", TRUE)

(* environment: a consumer does not pull a producer it has stopped or that unregistered itself *)
FsdPull == cfg.kind = "fsd" /\ started /\ unregs = 0 /\ ~ustop /\ FsPull("pull", FALSE)

FsdPause ==
    /\ cfg.kind = "fsd" /\ started
    /\ last' = L("pause", "ok", <<>>, <<>>, <<>>, 0, 0, 0, <<>>, 0, sched)
    /\ UNCHANGED <<cfg, started, task, pc, ri, closed, closes, out, dst, dres, nfired, fsfile, lastSent, unregs, pstops, nstops, ustop, sched>>

(* stopProducing reaching FileSender (through _PullToPush.stopProducing for "fs"): the Deferred fails, once *)
FsStop ==
    /\ cfg.kind \in {"fs", "fsd"} /\ started
    /\ ustop' = TRUE /\ nstops' = nstops + 1
    /\ IF task = "run" THEN task' = "stopped" /\ sched' = FALSE ELSE UNCHANGED <<task, sched>>
    /\ IF dst = "pending" THEN Fire(<<"Exception", 0>>) ELSE NoFire
    /\ last' = L("stop", "ok", <<>>, <<>>, IF dst = "pending" THEN <<<<"Exception", 0>>>> ELSE <<>>, 0, 0, 0, <<>>, 0, FALSE)
    /\ UNCHANGED <<cfg, started, pc, ri, closed, closes, out, fsfile, lastSent, unregs, pstops>>

(* the consumer unregisters the producer itself: _PullToPush.stopStreaming *)
Unregister ==
    /\ cfg.kind \in {"fs", "p2p"} /\ started
    /\ IF task = "run" THEN task' = "stopped" /\ sched' = FALSE ELSE UNCHANGED <<task, sched>>
    /\ last' = L("unreg", "ok", <<>>, <<>>, <<>>, 0, 0, 0, <<>>, 0, FALSE)
    /\ UNCHANGED <<cfg, started, pc, ri, closed, closes, out, dst, dres, nfired, fsfile, lastSent, unregs, pstops, nstops, ustop>>

(* one work unit of _PullToPush._pull around the scripted pull producer *)
P2pTick ==
    /\ cfg.kind = "p2p" /\ sched
    /\ ri' = ri + 1
    /\ IF Outcome = "c" THEN
            /\ out' = Append(out, ri + 1)
            /\ last' = L("tick", "ok", <<ri + 1>>, <<0>>, <<>>, 0, 0, 0, <<>>, 0, TRUE)
            /\ UNCHANGED <<unregs, task, sched>>
       ELSE /\ unregs' = unregs + 1 /\ UNCHANGED out
            /\ CASE cfg.unreg = "stop"   -> task' = "stopped" /\ sched' = FALSE
                 [] cfg.unreg = "raise"  -> task' = "done" /\ sched' = FALSE      \* the generator returns
                 [] cfg.unreg = "forget" -> UNCHANGED <<task, sched>>              \* streaming goes on
            /\ last' = L("tick", "ok", <<>>, <<0>>, <<>>, 0, 1, 0, <<>>, IF cfg.unreg = "raise" THEN 2 ELSE 1, sched')
    /\ UNCHANGED <<cfg, started, pc, closed, closes, dst, dres, nfired, fsfile, lastSent, pstops, nstops, ustop>>

(* _PullToPush.stopProducing: stop streaming and tell the pull producer (D7: every time) *)
P2pStop ==
    /\ cfg.kind = "p2p" /\ started
    /\ ustop' = TRUE /\ nstops' = nstops + 1 /\ pstops' = pstops + 1
    /\ IF task = "run" THEN task' = "stopped" /\ sched' = FALSE ELSE UNCHANGED <<task, sched>>
    /\ last' = L("stop", "ok", <<>>, <<>>, <<>>, 0, 0, 1, <<>>, 0, FALSE)
    /\ UNCHANGED <<cfg, started, pc, ri, closed, closes, out, dst, dres, nfired, fsfile, lastSent, unregs>>

Next == \/ Start \/ FbpTick \/ Pause \/ Resume \/ FbpStop \/ FbpCancel
        \/ FsTick \/ FsdPull \/ FsdPause \/ FsStop \/ Unregister \/ P2pTick \/ P2pStop
-----------------------------------------------------------------------------
(* What a user relies on *)
Errs(n) == {i \in 1..n : PlanAt(i) = "err"}
\* the consumer has received exactly the chunks read so far, in order, each once (nothing read is lost)
InOrderOnce == out = ChunkIds(ri)
\* a successful result means the whole file was delivered (and FileSender reports its last chunk and unregistered once)
Complete == dres[1] = "ok" =>
              /\ ri = Len(cfg.plan) /\ out = ChunkIds(Len(cfg.plan))
              /\ (cfg.kind \in {"fbp", "fs"} => Errs(Len(cfg.plan)) = {})
              /\ (cfg.kind = "fbp" => dres[2] = 0)
              /\ (cfg.kind \in {"fs", "fsd"} => unregs = 1 /\ dres[2] = (IF out = <<>> THEN 0 ELSE out[Len(out)]))
\* the Deferred fires at most once
FireOnce == nfired <= 1 /\ (nfired = 1 <=> dres[1] # "none") /\ (dst = "fired" <=> nfired = 1)
\* a tick is requested exactly while the task is runnable: nothing is scheduled when paused or finished, no stall otherwise
SchedExact == sched = (task = "run" /\ pc = 0)
\* FileBodyProducer: the file is closed once the body is complete or the producer was stopped; closes are accounted for
FileClosed == /\ (closed <=> closes > 0)
              /\ IF cfg.kind = "fbp"
                   THEN /\ ((task = "done" \/ ustop) => closed)
                        /\ closes = (IF task = "done" THEN 1 ELSE 0) + nstops
                   ELSE closes = 0
\* FileSender / _PullToPush unregister the producer at most once (scripted: once per failed resumeProducing)
UnregOnce == /\ (cfg.kind \in {"fs", "fsd"} => unregs <= 1)
             /\ (cfg.kind = "p2p" => unregs = Cardinality(Errs(ri)))
             /\ (cfg.kind = "fbp" => unregs = 0)
StopForwarded == pstops = (IF cfg.kind = "p2p" THEN nstops ELSE 0)
FailedMeansError == (dres[1] \in {"IOError"}) => Errs(ri) # {}
Inv == InOrderOnce /\ Complete /\ FireOnce /\ SchedExact /\ FileClosed /\ UnregOnce /\ StopForwarded /\ FailedMeansError

(* step properties *)
\* nothing is read or written while paused, after a stop request, or once the task has finished
QuietStep == ((cfg.kind # "fsd" /\ started /\ (pc > 0 \/ task # "run")) \/ ustop) => (out' = out /\ ri' = ri)
\* the result never changes
StableStep == dres[1] # "none" => dres' = dres
\* a stopped FileBodyProducer never fires its Deferred (except D3)
SilentStep == (cfg.kind = "fbp" /\ task = "stopped" /\ dres[1] = "none") => (dres'[1] \in {"none", "CancelledError"})
StepOK == QuietStep /\ StableStep /\ SilentStep
Quiet == [][QuietStep]_vars
Stable == [][StableStep]_vars
Silent == [][SilentStep]_vars
=============================================================================
