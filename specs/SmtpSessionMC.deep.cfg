SPECIFICATION SpecDeep
CONSTANT MaxLevel = 9
CONSTANT Deep = TRUE
CONSTRAINT Bound
VIEW View
INVARIANT EomOnce
INVARIANT EomXorLost
INVARIANT LostOnce
INVARIANT NoLeak
INVARIANT LiveClean
INVARIANT DataShape
INVARIANT SameBody
INVARIANT OnlyAccepted
INVARIANT SyncEnvelope
INVARIANT SyncSender
INVARIANT BatchShape
PROPERTY StepProp
CHECK_DEADLOCK FALSE
