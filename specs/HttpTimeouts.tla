------------------------------ MODULE HttpTimeouts ------------------------------
(* Extension X19 -- twisted.web.http.HTTPChannel: idle timeout (TimeoutMixin) and forced abort over the
   request life cycle, on a stepped clock (task.Clock as the HTTPFactory's reactor).

   One connection.  The peer's byte stream is a sequence of requests, each cut into NU = 6 units
       1 "POST /r HT"   2 "TP/1.v\r\n"   3 "Content-Length: 2\r\n"   4 "\r\n"   5 "a"   6 "b"
   (request r is complete when unit 6r has been parsed).  The application answers request r inside
   process() (cfg.mode[r] = 0) or later on command (1); cfg.ver[r] = 0 makes r an HTTP/1.0 request, after
   whose response the channel closes the connection.  Time is in whole seconds.

   What the channel does with its two kinds of delayed call:
     idle   the TimeoutMixin call: armed at connectionMade, pushed to now + timeOut by every received
            byte while armed, removed while a request is in progress, re-armed when the response is done
            (persistent connection only), removed by connectionLost;
     aq     forceAbortClient calls, one created abortTimeout after each idle timeout; connectionLost
            cancels the one the channel still remembers (trk).
   Deliberate deviations from what one would write down naively are marked ODDITY n (see notes/X19.md). *)
EXTENDS Naturals, Integers, Sequences, FiniteSets

None == -1
NU == 6

VARIABLES cfg,       \* [to |-> timeOut | None, ab |-> abortTimeout | None, mode |-> <<0|1..>>, ver |-> <<0|1..>>]
          now,
          pos,       \* units delivered so far
          cur,       \* requests handed to the application so far (process() calls)
          handling,  \* request cur is in progress
          st,        \* "open" | "closing" (loseConnection has been called) | "lost" (connectionLost delivered)
          np,        \* the response to a non-persistent request is done: the channel reads nothing any more
          bad,       \* a 400 was sent
          idle,      \* due time of the idle-timeout call, or None
          aq,        \* due times of the pending forced-abort calls, in creation (= due) order
          trk,       \* the channel remembers the newest forced-abort call (_abortingCall is not None)
          nlose, nabort, ntimeout,   \* loseConnection / abortConnection calls, idle timeouts fired so far
          tfirst,    \* time the first idle timeout fired (None before)
          lastAct,   \* time of the last received byte or finished response (connectionMade: 0)
          late,      \* history: bytes were delivered after the channel had asked the transport to close
          last       \* the event record of the step just taken, exactly as the harness logs it
vars == <<cfg, now, pos, cur, handling, st, np, bad, idle, aq, trk, nlose, nabort, ntimeout, tfirst, lastAct, late, last>>

NReq == Len(cfg.mode)
Armed == idle # None
Rearm == IF cfg.to = None THEN None ELSE now + cfg.to

\* the pending delayed calls as the clock shows them: due times, ascending
Ins(q, x) == LET n == Cardinality({j \in 1..Len(q) : q[j] <= x})
             IN SubSeq(q, 1, n) \o <<x>> \o SubSeq(q, n + 1, Len(q))
Timers(i, q) == IF i = None THEN q ELSE Ins(q, i)

Ev(e, a, proc, done, lose, abort, tc, i, q, t) ==
    [e |-> e, a |-> a, proc |-> proc, done |-> done, lose |-> lose, abort |-> abort, tc |-> tc,
     timers |-> Timers(i, q), now |-> t, exc |-> "none"]

InitWith(c) ==
    /\ cfg = c /\ now = 0 /\ pos = 0 /\ cur = 0 /\ handling = FALSE /\ st = "open" /\ np = FALSE /\ bad = FALSE
    /\ idle = c.to            \* connectionMade: setTimeout(timeOut) at time 0 (None stays None)
    /\ aq = <<>> /\ trk = FALSE /\ nlose = 0 /\ nabort = 0 /\ ntimeout = 0 /\ tfirst = None
    /\ lastAct = 0 /\ late = FALSE
    /\ last = [e |-> "init"]

(* The parser / dispatcher with p units available, c requests dispatched, nothing in progress: every complete
   request is handed to the application in order, head-of-line: stops at the first one answered later, and for
   good at a non-persistent one. *)
RECURSIVE Run(_, _)
Run(c, p) ==
    IF p < NU * (c + 1)
      THEN [cur |-> c, h |-> FALSE, np |-> FALSE, proc |-> <<>>, done |-> <<>>]
      ELSE LET r == c + 1 IN
           IF cfg.mode[r] = 1 THEN [cur |-> r, h |-> TRUE, np |-> FALSE, proc |-> <<r>>, done |-> <<>>]
           ELSE IF cfg.ver[r] = 0 THEN [cur |-> r, h |-> FALSE, np |-> TRUE, proc |-> <<r>>, done |-> <<r>>]
           ELSE LET x == Run(r, p) IN [x EXCEPT !.proc = <<r>> \o @, !.done = <<r>> \o @]

(* idle timer after a parse that started not handling: removed while a request is in progress and after a
   non-persistent response; re-armed by a finished response; else pushed back only if it was armed
   (ODDITY 1: after a timeout has fired received bytes do not re-arm it, a finished response does). *)
IdleAfter(x, anyDone) ==
    IF x.h \/ x.np THEN None
    ELSE IF anyDone THEN Rearm
    ELSE IF Armed THEN Rearm ELSE None

(* dataReceived(k units).  The harness delivers bytes on a closing transport only one unit at a time and only
   while no request is in progress (LineReceiver parses one line per call there), and none after an abort or a 400. *)
Data(k) ==
    /\ st \in {"open", "closing"} /\ nabort = 0 /\ ~bad
    /\ st = "closing" => (k = 1 /\ ~handling)
    /\ k >= 1 /\ pos + k <= NU * NReq
    /\ pos' = pos + k
    /\ late' = (late \/ st = "closing")
    /\ lastAct' = now
    /\ IF handling \/ np
         THEN \* buffered for later (a request is in progress) or for ever (np): nothing observable
              /\ idle' = IF Armed THEN Rearm ELSE None
              /\ last' = Ev("data", k, <<>>, <<>>, 0, 0, FALSE, idle', aq, now)
              /\ UNCHANGED <<cur, handling, st, np, nlose>>
         ELSE \E x \in {Run(cur, pos + k)} :
              /\ cur' = x.cur /\ handling' = x.h /\ np' = x.np
              /\ idle' = IdleAfter(x, x.done # <<>>)
              /\ st' = IF x.np THEN "closing" ELSE st
              /\ nlose' = IF x.np THEN nlose + 1 ELSE nlose
              /\ last' = Ev("data", k, x.proc, x.done, IF x.np THEN 1 ELSE 0, 0, x.done # <<>>, idle', aq, now)
    /\ UNCHANGED <<cfg, now, bad, aq, trk, nabort, ntimeout, tfirst>>

(* a malformed request line where a request may start: 400 + loseConnection.
   ODDITY 2: the idle timer is left running (pushed back by these bytes), so the timeout still fires later. *)
Bad ==
    /\ st = "open" /\ ~handling /\ pos = NU * cur
    /\ bad' = TRUE /\ st' = "closing" /\ nlose' = nlose + 1
    /\ idle' = IF Armed THEN Rearm ELSE None
    /\ lastAct' = now
    /\ last' = Ev("bad", 0, <<>>, <<>>, 1, 0, TRUE, idle', aq, now)
    /\ UNCHANGED <<cfg, now, pos, cur, handling, np, aq, trk, nabort, ntimeout, tfirst, late>>

(* the application writes part of the response of the request in progress: no timer is touched *)
Write(r) ==
    /\ handling /\ r = cur /\ st # "lost"
    /\ last' = Ev("write", r, <<>>, <<>>, 0, 0, TRUE, idle, aq, now)
    /\ UNCHANGED <<cfg, now, pos, cur, handling, st, np, bad, idle, aq, trk, nlose, nabort, ntimeout, tfirst, lastAct, late>>

(* the application finishes the response of the request in progress; buffered pipelined bytes are parsed now *)
Finish(r) ==
    /\ handling /\ r = cur /\ st # "lost"
    /\ lastAct' = now
    /\ IF cfg.ver[r] = 0
         THEN /\ np' = TRUE /\ st' = "closing" /\ nlose' = nlose + 1 /\ handling' = FALSE
              /\ last' = Ev("finish", r, <<>>, <<r>>, 1, 0, TRUE, idle, aq, now)
              /\ UNCHANGED <<cur, idle>>
         ELSE \E x \in {Run(cur, pos)} :
              /\ cur' = x.cur /\ handling' = x.h /\ np' = x.np
              /\ idle' = IdleAfter(x, TRUE)
              /\ st' = IF x.np THEN "closing" ELSE st
              /\ nlose' = IF x.np THEN nlose + 1 ELSE nlose
              /\ last' = Ev("finish", r, x.proc, <<r>> \o x.done, IF x.np THEN 1 ELSE 0, 0, TRUE, idle', aq, now)
    /\ UNCHANGED <<cfg, now, pos, bad, aq, trk, nabort, ntimeout, tfirst, late>>

(* clock.advance(d): the clock jumps to t, then every call due by t runs (they all see time t).
   The idle call: loseConnection, and a forced-abort call abortTimeout after *t*.  A forced-abort call:
   abortConnection, and the channel forgets whichever forced-abort call it remembered (ODDITY 4).
   When the idle call and a forced-abort call are due at the same instant their order is the clock's business. *)
Adv(d) ==
    LET t == now + d
        nA == Cardinality({j \in 1..Len(aq) : aq[j] <= t})
        fireT == Armed /\ idle <= t
        newA == fireT /\ cfg.ab # None
        rest == SubSeq(aq, nA + 1, Len(aq))
    IN
    /\ d \in Nat
    /\ now' = t
    /\ idle' = IF fireT THEN None ELSE idle
    /\ aq' = IF newA THEN Append(rest, t + cfg.ab) ELSE rest
    /\ nabort' = nabort + nA
    /\ nlose' = IF fireT THEN nlose + 1 ELSE nlose
    /\ ntimeout' = IF fireT THEN ntimeout + 1 ELSE ntimeout
    /\ tfirst' = IF fireT /\ tfirst = None THEN t ELSE tfirst
    /\ st' = IF fireT /\ st = "open" THEN "closing" ELSE st
    /\ trk' \in IF newA /\ nA > 0
                  THEN (IF idle > aq[nA] THEN {TRUE} ELSE IF idle < aq[nA] THEN {FALSE} ELSE {TRUE, FALSE})
                ELSE IF newA THEN {TRUE}
                ELSE IF nA > 0 THEN {FALSE}
                ELSE {trk}
    /\ last' = Ev("adv", d, <<>>, <<>>, IF fireT THEN 1 ELSE 0, nA, fireT \/ nA > 0, idle', aq', t)
    /\ UNCHANGED <<cfg, pos, cur, handling, np, bad, lastAct, late>>

(* the transport reports the connection gone: the idle call and the remembered forced-abort call are cancelled *)
ConnLost ==
    /\ st \in {"open", "closing"}
    /\ st' = "lost" /\ idle' = None /\ handling' = FALSE /\ trk' = FALSE
    /\ aq' = IF trk THEN SubSeq(aq, 1, Len(aq) - 1) ELSE aq
    /\ last' = Ev("lost", 0, <<>>, <<>>, 0, 0, FALSE, None, aq', now)
    /\ UNCHANGED <<cfg, now, pos, cur, np, bad, nlose, nabort, ntimeout, tfirst, lastAct, late>>

Next == \/ \E k \in 1..(2 * NU) : Data(k)
        \/ Bad
        \/ \E r \in 1..NReq : Write(r)
        \/ \E r \in 1..NReq : Finish(r)
        \/ \E d \in 0..4 : Adv(d)
        \/ ConnLost
-----------------------------------------------------------------------------
(* What a user relies on.  "~late" = the transport stopped delivering bytes once the channel asked it to
   close, as TCP transports do; with late bytes ODDITIES 1, 3, 4 apply and only the unguarded parts hold. *)
NTimers == Len(aq) + (IF Armed THEN 1 ELSE 0)

\* no idle timeout is pending while the application handles a request
NoIdleWhileHandling == handling => ~Armed
\* the idle deadline is exactly timeOut after the last received byte / finished response, and is never overdue
DeadlineExact == Armed => (cfg.to # None /\ idle = lastAct + cfg.to /\ idle > now)
\* a connection with nothing in progress is never left without a guard
Guarded == /\ (st = "open" /\ ~handling /\ cfg.to # None) => Armed
           /\ (~late /\ ntimeout > 0 /\ cfg.ab # None /\ st = "closing") => (aq # <<>> \/ nabort > 0)
\* forced abort: only after a timeout, not before abortTimeout has passed since, and at most once
AbortAfterTimeout == nabort > 0 => (ntimeout > 0 /\ cfg.ab # None /\ now >= tfirst + cfg.ab)
AbortOnce == ~late => (nabort <= 1 /\ ntimeout <= 1 /\ NTimers <= 1)
\* a timeout closes the connection
TimeoutCloses == ntimeout > 0 => st # "open"
\* no leak: nothing of this connection is left on the clock once it is gone
NoLeak == /\ st = "lost" => ~Armed
          /\ (st = "lost" /\ ~late) => aq = <<>>
TrkSane == trk => aq # <<>>
Inv == NoIdleWhileHandling /\ DeadlineExact /\ Guarded /\ AbortAfterTimeout /\ AbortOnce /\ TimeoutCloses /\ NoLeak /\ TrkSane

\* step properties (evaluated on every step, in MC as action properties and primed into every trace step)
TimeoutNotEarly == ntimeout' > ntimeout => (cfg.to # None /\ now' >= lastAct + cfg.to)
SilentAfterLost == (st = "lost" /\ ~late) => (~last'.tc /\ nlose' = nlose /\ nabort' = nabort)
LostIsFinal == st = "lost" => st' = "lost"
StepInv == TimeoutNotEarly /\ SilentAfterLost /\ LostIsFinal
StepProp == [][StepInv]_vars

\* reachability witnesses (expected to be VIOLATED by TLC: ODDITY 3 / 4 are reachable with late bytes)
NoLeakEver == st = "lost" => aq = <<>>
NeverTwoAborts == nabort <= 1
=============================================================================
