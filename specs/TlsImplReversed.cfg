SPECIFICATION Spec
CONSTANT MaxWrites = 2
CONSTANT Variant = "reversed"
VIEW View
INVARIANT OutInOrder
INVARIANT NothingAfterLose
INVARIANT CloseAfterData
INVARIANT ClosesWhenDone
INVARIANT AtMostOneClose
CHECK_DEADLOCK FALSE
