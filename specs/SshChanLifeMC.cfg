CONSTANT MaxOpen = 1
CONSTANT MaxReq = 1
CONSTANT MaxLevel = 9
SPECIFICATION Spec
CONSTRAINT Bound
VIEW View
INVARIANT OpenOutcomeOnce
INVARIANT ClosedAfterHandshake
INVARIANT MapsAgree
INVARIANT OpenOrder
INVARIANT HeadDeliverable
INVARIANT RequestsSettle
INVARIANT StopCleans
INVARIANT SettledWhenQuiet
PROPERTY StepProp
CHECK_DEADLOCK FALSE
