------------------------------ MODULE PathNSMC ------------------------------
(* Exhaustive TLC run for C26: every name of up to MaxLen components over the
   hostile alphabet is put through the algorithms of child / preauthChild /
   descendant (Impl layer of PathNS) and the outcome must be one the property
   allows (LastConfined).  The lexical library is cross-checked on the same
   enumeration: posix normpath/abspath (transcribed) agree with kernel-style
   resolution (Walk), which is what the trace spec classifies accesses with.

   Modes: "component" -- containment decided component-wise (reference);
          "string"    -- containment decided by str.startswith on the path
                         strings (as FilePath does at the time of writing).   *)
EXTENDS PathNS, TLC
CONSTANTS MaxLen, Symbols, Modes, DescLen, DescSymbols

VARIABLES mode, inp, pre     \* pre: first component of the enumerated name (chosen in Init: more initial states, more parallelism)
mcvars == <<vars, mode, inp, pre>>

SymCore == {"a", "f", "nx", "root", "rootbar", ".", "..", ""}
SymFull == SymCore \cup {"bs", "nul", "pct2e", "pct2f", "xff"}   \* opaque names: backslashes, NUL, literal %2e / %2f, non-UTF-8
SymQuick == SymCore \cup {"nul"}                                  \* the opaque names behave alike in these algorithms
SymSix == {"a", "root", "rootbar", ".", "..", ""}
PP == {<<"root", "rootbar">>, <<".", "..">>}                      \* proper string prefixes among the names

RECURSIVE SeqsUpTo(_, _)
SeqsUpTo(S, n) == IF n = 0 THEN {<<>>} ELSE LET R == SeqsUpTo(S, n - 1) IN R \cup {Append(r, s) : r \in {x \in R : Len(x) = n - 1}, s \in S}
Names == SeqsUpTo(Symbols, MaxLen) \ {<<>>}                        \* split path strings (<<"">> is the empty string)
DescNames == SeqsUpTo(DescSymbols, 2) \ {<<>>}
DescLists == SeqsUpTo(DescNames, DescLen)

Cwd == <<"", "w">>
Roots == {<<"", "P", "root">>, <<"", "P", "root", "a">>, <<"", "">>}
Init == /\ \E r \in Roots : InitWith([root |-> r, cwd |-> Cwd])
        /\ mode \in Modes
        /\ inp = <<>>
        /\ pre \in Symbols \cup DescSymbols

Outcome(op, r) == IF r.ok THEN [e |-> op, res |-> "ok", path |-> r.path] ELSE [e |-> op, res |-> "InsecurePath"]

CaseChild == inp = <<>> /\ \E n \in {x \in Names : x[1] = pre} :
    /\ inp' = <<"child", n>>
    /\ last' = Outcome("child", AlgChild(cfg.cwd, cfg.root, n, mode, PP))
    /\ UNCHANGED <<cfg, touched, mode, pre>>
CasePreauth == inp = <<>> /\ \E n \in {x \in Names : x[1] = pre} :
    /\ inp' = <<"preauthChild", n>>
    /\ last' = Outcome("preauthChild", AlgPreauth(cfg.cwd, cfg.root, n, mode, PP))
    /\ UNCHANGED <<cfg, touched, mode, pre>>
CaseDesc == inp = <<>> /\ \E ns \in {x \in DescLists : x = <<>> \/ x[1][1] = pre} :
    /\ inp' = <<"descendant", ns>>
    /\ last' = Outcome("descendant", AlgDesc(cfg.cwd, cfg.root, ns, mode, PP))
    /\ UNCHANGED <<cfg, touched, mode, pre>>

Next == CaseChild \/ CasePreauth \/ CaseDesc
Spec == Init /\ [][Next]_mcvars

(* Every step of the algorithms is a step the property allows. *)
Refines == [][ \/ (last'.e = "child" /\ last'.res = "ok" /\ ChildRet(last'.path))
               \/ (last'.e = "child" /\ last'.res = "InsecurePath" /\ ChildRaise)
               \/ (last'.e = "preauthChild" /\ last'.res = "ok" /\ PreauthRet(last'.path))
               \/ (last'.e = "preauthChild" /\ last'.res = "InsecurePath" /\ PreauthRaise)
               \/ (last'.e = "descendant" /\ last'.res = "ok" /\ DescRet(last'.path))
               \/ (last'.e = "descendant" /\ last'.res = "InsecurePath" /\ DescRaise) ]_mcvars

(* Lexical lemmas, evaluated on every enumerated name n (relative to the root and to cwd):
   normpath/abspath preserve kernel resolution; abspath output is in normal form. *)
NormalForm(p) == /\ IsAbs(p)
                 /\ LET body == SubSeq(p, Slashes(p) + 1, Len(p))     \* after the leading "/" (or the POSIX "//")
                    IN  body = <<"">> \/ \A i \in 1..Len(body) : body[i] \notin {"", ".", ".."}
LexLemmas ==
    inp # <<>> /\ inp[1] \in {"child", "preauthChild"} =>
      LET n == inp[2]
          j == Join(cfg.root, n)
      IN  /\ Walk(<<>>, Abspath(cfg.cwd, n)) = Loc(cfg.cwd, n)
          /\ Walk(<<>>, Abspath(cfg.cwd, j)) = Loc(cfg.cwd, j)
          /\ Loc(cfg.cwd, j) = (IF IsAbs(n) THEN Walk(<<>>, n) ELSE Walk(RootLoc, n))
          /\ NormalForm(Abspath(cfg.cwd, n))
          /\ Slashes(n) # 2 => NormP(NormP(n)) = NormP(n)
          /\ (~IsAbs(n) => Loc(cfg.cwd, Join(cfg.root, NormP(n))) = Loc(cfg.cwd, j))

(* Vacuity: both outcomes and the interesting regions are reachable (checked by the harness through
   coverage of these never-violated "witness" invariants being false somewhere is not possible in TLC;
   instead the harness requires the actions and inspects the counterexample of the string mode). *)
=============================================================================
