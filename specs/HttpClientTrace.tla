--------------------------- MODULE HttpClientTrace ---------------------------
(* Batched trace validation for C23: every recorded run of the real
   twisted.web._newclient.HTTP11ClientProtocol (request written to a
   StringTransport, the response stream delivered in segments, connection lost at
   some octet position, deliverBody now / later / never) must be a behaviour of
   HttpClient.  One event per environment step, carrying the callbacks observed
   during it (request Deferred: response code / failure; consumer: dataReceived
   octets, connectionLost reason class), in order.  The design invariants are
   conjoined, primed, into every step.                                          *)
EXTENDS HttpClient, TLC, Json, IOUtils

Traces == JsonDeserialize(IOEnv.TRACE_FILE)
VARIABLES tid, l
ASSUME \A t \in 1..Len(Traces) : TLCSet(t, 1)

T == Traces[tid]
E == T.ev[l]

TInit == /\ tid \in 1..Len(Traces) /\ l = 1
         /\ InitWith([stream |-> Traces[tid].cfg.stream, head |-> Traces[tid].cfg.head, dbody |-> Traces[tid].cfg.dbody])

Step(A) == /\ l <= Len(T.ev) /\ A /\ last'.e = E.e /\ Inv' /\ l' = l + 1 /\ UNCHANGED tid

TNext == \/ (E.e = "start" /\ Step(Start))
         \/ (E.e = "deliver" /\ \E o \in {E.obs} : Step(Deliver(E.n, o)))
         \/ (E.e = "deliverBody" /\ \E o \in {E.obs} : Step(DeliverBody(o)))
         \/ (E.e = "connLost" /\ \E o \in {E.obs} : Step(ConnLost(o)))

TSpec == TInit /\ [][l <= Len(T.ev) /\ TNext]_<<vars, tid, l>>

Progress == TLCSet(tid, IF TLCGet(tid) > l THEN TLCGet(tid) ELSE l)
Rejected == {<<t, TLCGet(t)>> : t \in {u \in 1..Len(Traces) : TLCGet(u) # Len(Traces[u].ev) + 1}}
Accepted == Rejected = {} \/ (PrintT(<<"REJECTED", Rejected>>) /\ FALSE)
=============================================================================
