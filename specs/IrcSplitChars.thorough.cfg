SPECIFICATION Spec
CONSTANT MaxLen = 4
CONSTANT MaxAvail = 5
CONSTANT Mode = "chars"
CONSTANT MaxMsgs = 2
CONSTANT Kinds = {"msg", "notice"}
CONSTRAINT Report
CHECK_DEADLOCK FALSE
