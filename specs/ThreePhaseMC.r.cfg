SPECIFICATION Spec
CONSTANT MaxT = 3
CONSTANT MaxR = 0
CONSTANT MaxF = 1
CONSTANT KindSet = "reent"
VIEW View
INVARIANT ExactlyOnce
INVARIANT OnlyRemaining
INVARIANT Accounted
INVARIANT PhaseOrder
INVARIANT DeferredGate
INVARIANT Complete
CHECK_DEADLOCK FALSE
