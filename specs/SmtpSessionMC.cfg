SPECIFICATION SpecWide
CONSTANT MaxLevel = 6
CONSTANT Deep = FALSE
CONSTRAINT Bound
VIEW View
INVARIANT EomOnce
INVARIANT EomXorLost
INVARIANT LostOnce
INVARIANT NoLeak
INVARIANT LiveClean
INVARIANT DataShape
INVARIANT SameBody
INVARIANT OnlyAccepted
INVARIANT SyncEnvelope
INVARIANT SyncSender
INVARIANT BatchShape
PROPERTY StepProp
CHECK_DEADLOCK FALSE
