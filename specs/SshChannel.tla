------------------------------ MODULE SshChannel ------------------------------
(* C36 -- SSH channel flow control as coded in twisted/conch/ssh/channel.py (SSHChannel.write,
   writeExtended, addWindowBytes, loseConnection) and connection.py (sendData, sendExtendedData,
   sendClose, adjustWindow, ssh_CHANNEL_DATA / _EXTENDED_DATA / _WINDOW_ADJUST / _CLOSE),
   transcribed statement by statement as functions on the channel's fields.

   snd = the sending side's SSHChannel:  rwin (remoteWindowLeft), buf, ext (extBuf: sequence of
         <<type, bytes>>), closing, lclosed / rclosed (localClosed / remoteClosed), gone (removed from
         conn.channels by channelClosed), out (messages emitted during the current call)
   rcv = the receiving side's SSHChannel: lwin (localWindowLeft), lclosed, rclosed, gone, out
   cfg = [win, pkt, maxops, maxn, maxadj]: R's localWindowSize and localMaxPacket (= S's
         remoteMaxPacket), bounds on application calls and on the sizes exhaustive runs choose.
   Every action produces the observable event `last` and feeds it to the property observer of
   SshChannelObs; the property is obs.viol = {}.                                              *)
EXTENDS SshChannelObs

VARIABLES cfg, snd, rcv, nops, obs, last
vars == <<cfg, snd, rcv, nops, obs, last>>

InitWith(c) ==
    /\ cfg = c
    /\ snd = [rwin |-> c.win, buf |-> <<>>, ext |-> <<>>, closing |-> FALSE, aw |-> TRUE,
              lclosed |-> FALSE, rclosed |-> FALSE, gone |-> FALSE, out |-> <<>>]
    /\ rcv = [lwin |-> c.win, lclosed |-> FALSE, rclosed |-> FALSE, gone |-> FALSE, out |-> <<>>]
    /\ nops = 0
    /\ obs = ObsInit(c)
    /\ last = [e |-> "init"]

Emit(ev) == /\ last' = ev
            /\ obs' = Observe(obs, cfg, ev)

-----------------------------------------------------------------------------
(* connection.py, sending side *)
SendData(ss, b) == IF ss.lclosed THEN ss ELSE [ss EXCEPT !.out = Append(@, <<"D", 0, b>>)]
SendExt(ss, t, b) == IF ss.lclosed THEN ss ELSE [ss EXCEPT !.out = Append(@, <<"X", t, b>>)]
SendClose(ss) ==                            \* also used for the receiving side's channel
    IF ss.lclosed THEN ss
    ELSE LET s1 == [ss EXCEPT !.out = Append(@, <<"C", 0, <<>>>>), !.lclosed = TRUE]
         IN IF s1.rclosed THEN [s1 EXCEPT !.gone = TRUE] ELSE s1

(* channel.py *)
LoseConn(ss) ==
    LET s1 == [ss EXCEPT !.closing = TRUE]
    IN IF s1.buf = <<>> /\ s1.ext = <<>> THEN SendClose(s1) ELSE s1

RECURSIVE Chunks(_, _)                      \* for offset in range(0, top, rmp): data[offset:offset+rmp]
Chunks(d, k) == IF d = <<>> THEN <<>>
                ELSE IF Len(d) <= k THEN <<d>>
                ELSE <<SubSeq(d, 1, k)>> \o Chunks(SubSeq(d, k + 1, Len(d)), k)
RECURSIVE SendDataAll(_, _)
SendDataAll(ss, cs) == IF cs = <<>> THEN ss ELSE SendDataAll(SendData(ss, Head(cs)), Tail(cs))

Write(ss, data) ==
    IF ss.buf # <<>> THEN [ss EXCEPT !.buf = @ \o data]
    ELSE LET over == Len(data) > ss.rwin
             d1 == IF over THEN SubSeq(data, 1, ss.rwin) ELSE data
             s1 == IF over THEN [ss EXCEPT !.buf = SubSeq(data, ss.rwin + 1, Len(data)), !.aw = FALSE] ELSE ss
             top == IF over THEN ss.rwin ELSE Len(data)
             s2 == SendDataAll(s1, Chunks(d1, cfg.pkt))
             s3 == [s2 EXCEPT !.rwin = @ - top]
         IN IF s3.closing /\ s3.buf = <<>> THEN LoseConn(s3) ELSE s3

RECURSIVE ExtLoop(_, _, _)                  \* while len(data) > rmp: send rmp bytes ...; if data: send it
ExtLoop(ss, t, d) ==
    IF Len(d) > cfg.pkt
    THEN ExtLoop([SendExt(ss, t, SubSeq(d, 1, cfg.pkt)) EXCEPT !.rwin = @ - cfg.pkt], t, SubSeq(d, cfg.pkt + 1, Len(d)))
    ELSE IF d # <<>> THEN [SendExt(ss, t, d) EXCEPT !.rwin = @ - Len(d)]
    ELSE ss

WriteExt(ss, t, data) ==
    IF ss.ext # <<>>
    THEN LET k == Len(ss.ext) IN
         IF ss.ext[k][1] = t THEN [ss EXCEPT !.ext[k] = <<t, ss.ext[k][2] \o data>>]
         ELSE [ss EXCEPT !.ext = Append(@, <<t, data>>)]
    ELSE LET over == Len(data) > ss.rwin
             d1 == IF over THEN SubSeq(data, 1, ss.rwin) ELSE data
             s1 == IF over THEN [ss EXCEPT !.ext = << <<t, SubSeq(data, ss.rwin + 1, Len(data))>> >>, !.aw = FALSE] ELSE ss
             s2 == ExtLoop(s1, t, d1)
         IN IF s2.closing THEN LoseConn(s2) ELSE s2

RECURSIVE ExtAll(_, _)                      \* for type, data in b: self.writeExtended(type, data)
ExtAll(ss, runs) == IF runs = <<>> THEN ss ELSE ExtAll(WriteExt(ss, Head(runs)[1], Head(runs)[2]), Tail(runs))

(* addWindowBytes (as of /repo 4fef648): while the buffered extended runs are re-sent `closing` is held
   back (closing, self.closing = self.closing, 0 ... finally restore), then loseConnection() once. *)
\* aw = areWriting.  "if not self.areWriting and not self.closing: self.areWriting = True; self.startWriting()"
\* happens BEFORE the buffers are flushed; hook = the application call made from startWriting() (<<>> = none).
Starts(ss) == ~ss.aw /\ ~ss.closing
ApplyHook(ss, h, data) ==
    IF h = <<>> THEN ss
    ELSE IF h[1] = "write" THEN (IF h[2] = 0 THEN Write(ss, data) ELSE WriteExt(ss, h[2], data))
    ELSE LoseConn(ss)
AddWindow(ss, n, h, data) ==
    LET s0 == [ss EXCEPT !.rwin = @ + n]
        s1 == IF Starts(s0) THEN ApplyHook([s0 EXCEPT !.aw = TRUE], h, data) ELSE s0
        s2 == IF s1.buf # <<>> THEN Write([s1 EXCEPT !.buf = <<>>], s1.buf) ELSE s1
    IN IF s2.ext # <<>>
       THEN LET s3 == ExtAll([s2 EXCEPT !.ext = <<>>, !.closing = FALSE], s2.ext)
                s4 == [s3 EXCEPT !.closing = s2.closing]
            IN IF s4.closing THEN LoseConn(s4) ELSE s4
       ELSE s2

(* ssh_CHANNEL_CLOSE on either side: closeReceived() -> loseConnection(); remoteClosed = True;
   if both closed: channelClosed *)
CloseReceived(ss, lose) ==
    LET s1 == [lose EXCEPT !.rclosed = TRUE]
    IN IF s1.lclosed THEN [s1 EXCEPT !.gone = TRUE] ELSE s1

-----------------------------------------------------------------------------
(* Actions.  Application calls on S. *)
Bytes(s, n) == Run(obs.written[s + 1], n)
CanOp == nops < cfg.maxops
Ev0(name) == [e |-> name, exc |-> ""]

AppWrite(s, n) ==
    /\ CanOp /\ s \in 0..2 /\ n \in 1..255 /\ ~obs.closeReq
    /\ LET s0 == [snd EXCEPT !.out = <<>>]
           s1 == IF s = 0 THEN Write(s0, Bytes(0, n)) ELSE WriteExt(s0, s, Bytes(s, n))
       IN /\ snd' = s1
          /\ Emit([e |-> "write", s |-> s, n |-> n, sent |-> s1.out, exc |-> ""])
    /\ nops' = nops + 1
    /\ UNCHANGED <<cfg, rcv>>

AppClose ==
    /\ CanOp
    /\ LET s1 == LoseConn([snd EXCEPT !.out = <<>>])
       IN /\ snd' = s1
          /\ Emit([e |-> "close", sent |-> s1.out, exc |-> ""])
    /\ nops' = nops + 1
    /\ UNCHANGED <<cfg, rcv>>

(* delivery of the oldest R->S message to S *)
SDeliverAdjust(h) ==
    /\ obs.qRS # <<>> /\ Head(obs.qRS)[1] = "A"
    /\ LET m == Head(obs.qRS)
           s0 == [snd EXCEPT !.out = <<>>]
           starts == ~snd.gone /\ Starts(s0)
           data == IF h # <<>> /\ h[1] = "write" THEN Bytes(h[2], h[3]) ELSE <<>>
           s1 == IF snd.gone THEN s0 ELSE AddWindow(s0, m[2], h, data)
       IN /\ h # <<>> => /\ starts /\ CanOp
                          /\ \/ h[1] = "close" /\ h[2] = 0 /\ h[3] = 0
                             \/ h[1] = "write" /\ h[2] \in 0..2 /\ h[3] \in 1..255 /\ ~obs.closeReq
          /\ snd' = s1
          /\ Emit([e |-> "sdeliver", m |-> m, hook |-> h, sw |-> starts, sent |-> s1.out,
                   exc |-> IF snd.gone THEN "KeyError" ELSE ""])
    /\ nops' = IF h = <<>> THEN nops ELSE nops + 1
    /\ UNCHANGED <<cfg, rcv>>
SDeliverClose ==
    /\ obs.qRS # <<>> /\ Head(obs.qRS)[1] = "C"
    /\ LET m == Head(obs.qRS)
           s0 == [snd EXCEPT !.out = <<>>]
           s1 == IF snd.gone THEN s0 ELSE CloseReceived(s0, LoseConn(s0))
       IN /\ snd' = s1
          /\ Emit([e |-> "sdeliver", m |-> m, hook |-> <<>>, sw |-> FALSE, sent |-> s1.out, exc |-> IF snd.gone THEN "KeyError" ELSE ""])
    /\ UNCHANGED <<cfg, rcv, nops>>

(* delivery of the oldest S->R message to R: ssh_CHANNEL_DATA / ssh_CHANNEL_EXTENDED_DATA *)
RAdjustTo(rr, n) == IF rr.lclosed THEN rr ELSE [rr EXCEPT !.out = Append(@, <<"A", n, <<>>>>), !.lwin = @ + n]
RDeliverData ==
    /\ obs.qSR # <<>> /\ Head(obs.qSR)[1] \in {"D", "X"}
    /\ LET m == Head(obs.qSR)  n == Len(m[3])
           r0 == [rcv EXCEPT !.out = <<>>]
           refuse == n > rcv.lwin \/ n > cfg.pkt
           r1 == IF rcv.gone THEN r0
                 ELSE IF refuse THEN SendClose(r0)
                 ELSE LET r2 == [r0 EXCEPT !.lwin = @ - n]
                      \* /repo 93887cc: "< size // 2  or  == 0"
                      IN IF r2.lwin < cfg.win \div 2 \/ r2.lwin = 0 THEN RAdjustTo(r2, cfg.win - r2.lwin) ELSE r2
       IN /\ rcv' = r1
          /\ Emit([e |-> "rdeliver", m |-> m,
                   got |-> IF rcv.gone \/ refuse THEN <<>> ELSE << <<m[2], m[3]>> >>,
                   sent |-> r1.out, exc |-> IF rcv.gone THEN "KeyError" ELSE ""])
    /\ UNCHANGED <<cfg, snd, nops>>
RDeliverClose ==
    /\ obs.qSR # <<>> /\ Head(obs.qSR)[1] = "C"
    /\ LET m == Head(obs.qSR)
           r0 == [rcv EXCEPT !.out = <<>>]
           r1 == IF rcv.gone THEN r0 ELSE CloseReceived(r0, SendClose(r0))   \* R never buffers: loseConnection = sendClose
       IN /\ rcv' = r1
          /\ Emit([e |-> "rdeliver", m |-> m, got |-> <<>>, sent |-> r1.out, exc |-> IF rcv.gone THEN "KeyError" ELSE ""])
    /\ UNCHANGED <<cfg, snd, nops>>

(* R's application grants window by hand: SSHConnection.adjustWindow(channel, n) *)
RAdjust(n) ==
    /\ CanOp /\ n \in 1..255
    /\ LET r1 == RAdjustTo([rcv EXCEPT !.out = <<>>], n)
       IN /\ rcv' = r1
          /\ Emit([e |-> "radjust", n |-> n, sent |-> r1.out, exc |-> ""])
    /\ nops' = nops + 1
    /\ UNCHANGED <<cfg, snd>>

Hooks == {<<>>, <<"close", 0, 0>>} \cup {<<"write", s, n>> : s \in 0..2, n \in 1..cfg.maxn}
SDeliver(h) == SDeliverAdjust(h) \/ (h = <<>> /\ SDeliverClose)
RDeliver == RDeliverData \/ RDeliverClose

(* cfg.maxn / cfg.maxadj bound the sizes the exhaustive runs choose; traces may carry any size *)
Next == \/ \E s \in 0..2, n \in 1..cfg.maxn : AppWrite(s, n)
        \/ AppClose
        \/ \E h \in Hooks : SDeliverAdjust(h)
        \/ SDeliverClose
        \/ RDeliverData
        \/ RDeliverClose
        \/ \E n \in 1..cfg.maxadj : RAdjust(n)

-----------------------------------------------------------------------------
NoViol == obs.viol = {}
(* bookkeeping facts of the transcription (not part of the property) *)
WindowsAgree == ~snd.lclosed => snd.rwin = obs.credit
Inv == NoViol
=============================================================================
