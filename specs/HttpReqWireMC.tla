--------------------------- MODULE HttpReqWireMC ---------------------------
(* Exhaustive TLC run for C24 on the specification itself: a reference client
   (ModelWires: every serialisation the property allows, built by a reference
   serialiser written here) is driven through all call sequences over
   representative octets of every class within a budget.  TLC checks
     OracleAccepts : Judge accepts every reference serialisation,
     OracleRejects : Judge rejects each listed wrong serialisation,
     Inv           : a refused request has written nothing,
   and the action guards state that an invalid method/target is never accepted. *)
EXTENDS HttpReqWire, TLC, Integers
CONSTANTS Budget, MaxField, NegControl, Rich
ASSUME Budget \in Nat /\ MaxField \in Nat

MethSyms == IF Rich THEN {71, 103, 32, 13, 58, 233, 0} ELSE {71, 32, 13, 58}
TargSyms == IF Rich THEN {47, 32, 13, 10, 0, 233, 127} ELSE {47, 32, 13, 233}
NameSyms == IF Rich THEN {97, 45, 32, 58, 233} ELSE {97, 32, 58}
ValSyms == IF Rich THEN {120, 32, 13, 10, 0, 233, 58, 9} ELSE {120, 32, 13, 10, 0}
BodySyms == IF Rich THEN {120, 13, 10, 48} ELSE {13, 48}
Seqs(S, n) == UNION {[1..k -> S] : k \in 0..n}

RECURSIVE SumCost(_, _)
SumCost(cs, i) == IF i > Len(cs) THEN 0 ELSE cs[i] + SumCost(cs, i + 1)
Used == Len(method) + Len(target)
        + SumCost([i \in 1..Len(hdrs) |-> SumCost([k \in 1..Len(hdrs[i][2]) |-> 1 + Len(hdrs[i][1]) + Len(hdrs[i][2][k])], 1)], 1)
        + SumCost([i \in 1..Len(produced) |-> 1 + Len(produced[i])], 1)
Left == Budget - Used
Lim == IF Left - 1 < MaxField THEN Left - 1 ELSE MaxField
LimF == IF Left < MaxField THEN Left ELSE MaxField

-----------------------------------------------------------------------------
(* reference serialiser *)
CRLF == <<CR, LF>>
RECURSIVE ToHex(_)
ToHex(n) == LET d == n % 16
                ch == IF d < 10 THEN 48 + d ELSE 87 + d
            IN IF n < 16 THEN <<ch>> ELSE ToHex(n \div 16) \o <<ch>>
RECURSIVE ToDec(_)
ToDec(n) == IF n < 10 THEN <<48 + n>> ELSE ToDec(n \div 10) \o <<48 + (n % 10)>>
HTTP11 == <<72, 84, 84, 80, 47, 49, 46, 49>>
ReqLine(m, t) == m \o <<SP>> \o t \o <<SP>> \o HTTP11 \o CRLF
HdrLine(n, v) == n \o <<COLON, SP>> \o v \o CRLF
ValLines(h, raw) == Concat([k \in 1..Len(h[2]) |-> HdrLine(h[1], IF raw THEN h[2][k] ELSE UnsafeToSpace(h[2][k], 1, TRUE))], 1)
HdrBytesOf(hs, raw) == Concat([i \in 1..Len(hs) |-> ValLines(hs[i], raw)], 1)
ConnLine == IF cfg.persistent THEN <<>> ELSE HdrLine(NConnection, <<99, 108, 111, 115, 101>>)
Chunk(d) == ToHex(Len(d)) \o CRLF \o d \o CRLF
LastChunk == <<48, CR, LF, CR, LF>>
ChunksPerWrite == Concat([i \in 1..Len(produced) |-> IF produced[i] = <<>> THEN <<>> ELSE Chunk(produced[i])], 1)
ChunkWhole(b) == IF b = <<>> THEN <<>> ELSE Chunk(b)
TELine == HdrLine(NTransferEncoding, VChunked)
CLLine(n) == HdrLine(NContentLength, ToDec(n))
HeadOf(m, t, hs, raw, extra) == ReqLine(m, t) \o ConnLine \o extra \o HdrBytesOf(hs, raw) \o CRLF
DefHead(extra) == HeadOf(method, target, hdrs, FALSE, extra)

ModelWires ==
    IF bodyKind = "none" THEN {DefHead(<<>>), DefHead(CLLine(0))}
    ELSE IF bodyKind = "known" THEN {DefHead(CLLine(Len(Body))) \o Body}
    ELSE {DefHead(TELine) \o b \o LastChunk : b \in {ChunksPerWrite, ChunkWhole(Body)}}

Framed(head(_), b) ==
    IF bodyKind = "none" THEN head(<<>>)
    ELSE IF bodyKind = "known" THEN head(CLLine(Len(b))) \o b
    ELSE head(TELine) \o ChunkWhole(b) \o LastChunk

BuggyWires ==
    (IF \E i \in 1..Len(hdrs) : \E k \in 1..Len(hdrs[i][2]) : HasUnsafe(hdrs[i][2][k])
     THEN {[tag |-> "value-verbatim", w |-> Framed(LAMBDA x : HeadOf(method, target, hdrs, TRUE, x), Body)]} ELSE {})
    \cup (IF bodyKind = "unknown"
          THEN {[tag |-> "no-last-chunk", w |-> DefHead(TELine) \o ChunkWhole(Body)],
                [tag |-> "chunk-size-off-by-one", w |-> DefHead(TELine) \o ToHex(Len(Body) + 1) \o CRLF \o Body \o CRLF \o LastChunk],
                [tag |-> "chunked-without-header", w |-> DefHead(<<>>) \o ChunkWhole(Body) \o LastChunk]}
          ELSE {})
    \cup (IF bodyKind = "known"
          THEN {[tag |-> "content-length-off-by-one", w |-> DefHead(CLLine(Len(Body) + 1)) \o Body]}
               \cup (IF Body # <<>> THEN {[tag |-> "body-without-framing", w |-> DefHead(<<>>) \o Body]} ELSE {})
          ELSE {})
    \cup (IF bodyKind # "none" /\ Len(produced) > 0 /\ produced[Len(produced)] # <<>>
          THEN {[tag |-> "write-duplicated", w |-> Framed(DefHead, Body \o produced[Len(produced)])],
                [tag |-> "write-dropped", w |-> Framed(DefHead, Concat(SubSeq(produced, 1, Len(produced) - 1), 1))]}
          ELSE {})
    \cup (IF Len(hdrs) > 0
          THEN {[tag |-> "header-dropped", w |-> Framed(LAMBDA x : HeadOf(method, target, SubSeq(hdrs, 1, Len(hdrs) - 1), FALSE, x), Body)],
                [tag |-> "header-duplicated", w |-> Framed(LAMBDA x : HeadOf(method, target, Append(hdrs, hdrs[1]), FALSE, x), Body)]}
          ELSE {})
    \cup (IF \E i \in 1..Len(hdrs) : Len(hdrs[i][2]) = 2 /\ ValueAlts(hdrs[i][2][1]) \cap ValueAlts(hdrs[i][2][2]) = {}
          THEN {[tag |-> "values-swapped",
                 w |-> Framed(LAMBDA x : HeadOf(method, target, [i \in 1..Len(hdrs) |-> IF Len(hdrs[i][2]) = 2 THEN <<hdrs[i][1], <<hdrs[i][2][2], hdrs[i][2][1]>> >> ELSE hdrs[i]], FALSE, x), Body)]}
          ELSE {})
    \cup {[tag |-> "extra-header", w |-> Framed(LAMBDA x : HeadOf(method, target, Append(hdrs, <<<<122, 122, 122>>, <<<<49>>>> >>), FALSE, x), Body)],
          [tag |-> "target-extended", w |-> Framed(LAMBDA x : HeadOf(method, target \o <<120>>, hdrs, FALSE, x), Body)],
          [tag |-> "method-case-changed", w |-> Framed(LAMBDA x : HeadOf([i \in 1..Len(method) |-> IF method[i] \in 65..90 THEN method[i] + 32 ELSE IF method[i] \in 97..122 THEN method[i] - 32 ELSE method[i]], target, hdrs, FALSE, x), Body)],
          [tag |-> "trailing-octet", w |-> Framed(DefHead, Body) \o <<120>>]}
    \cup (IF NegControl THEN {[tag |-> "neg-control", w |-> m] : m \in ModelWires} ELSE {})

MethodHasLetter == \E i \in 1..Len(method) : IsAlpha(method[i])
OracleAccepts == phase = "writing" => \A m \in ModelWires : Judge(m)
OracleRejects == phase = "writing" =>
                    \A m \in BuggyWires : (m.tag = "method-case-changed" /\ ~MethodHasLetter) \/ ~Judge(m.w)
                                          \/ (PrintT(<<"NOT-REJECTED", m.tag, m.w>>) /\ FALSE)

-----------------------------------------------------------------------------
ASSUME \A k \in 101..110 : TLCSet(k, 0)
Seen(k, name) == TLCGet(k) = 1 \/ (TLCSet(k, 1) /\ PrintT(<<"ACTION", name>>))

Init == \E p \in BOOLEAN : InitWith([persistent |-> p])

NVals == SumCost([i \in 1..Len(hdrs) |-> Len(hdrs[i][2])], 1)
DoAddHeaderOk == Left >= 2 /\ NVals < 2 /\ \E n \in Seqs(NameSyms, Lim) : \E v \in Seqs(ValSyms, Lim - Len(n)) :
                     AddHeaderOk(n, v, FALSE) /\ Seen(101, "DoAddHeaderOk")
DoAddHeaderRefused == Left >= 1 /\ NVals < 2 /\ \E n \in Seqs(NameSyms, Lim) : \E v \in Seqs(ValSyms, Lim - Len(n)) :
                          AddHeaderRefused(n, v, FALSE) /\ Seen(102, "DoAddHeaderRefused")
DoConstructOk == \E m \in Seqs(MethSyms, LimF) : \E t \in Seqs(TargSyms, LimF - Len(m)), bk \in {"none", "known", "unknown"} :
                     ConstructOk(m, t, bk) /\ Seen(103, "DoConstructOk")
DoConstructRefused == \E m \in Seqs(MethSyms, LimF) : \E t \in Seqs(TargSyms, LimF - Len(m)) :
                          ConstructRefused(m, t, "none") /\ Seen(104, "DoConstructRefused")
DoAssign == last.e = "construct" /\ \E m \in Seqs(MethSyms, MaxField) : \E t \in Seqs(TargSyms, MaxField) :
                Len(m) + Len(t) <= Len(method) + Len(target) + (IF Left > 0 THEN 1 ELSE 0) /\ (m # method \/ t # target)
                /\ Assign(m, t) /\ Seen(105, "DoAssign")
DoWriteToOk == WriteToOk(<<>>) /\ Seen(106, "DoWriteToOk")
DoWriteToRefused == WriteToRefused(<<>>) /\ Seen(107, "DoWriteToRefused")
DoProduce == Left >= 1 /\ Len(produced) < 2 /\ \E d \in Seqs(BodySyms, Lim) : Produce(d, <<>>) /\ Seen(108, "DoProduce")
DoDone == \E m \in ModelWires : Done(m) /\ Seen(109, "DoDone")

Next == DoAddHeaderOk \/ DoAddHeaderRefused \/ DoConstructOk \/ DoConstructRefused \/ DoAssign
        \/ DoWriteToOk \/ DoWriteToRefused \/ DoProduce \/ DoDone
Spec == Init /\ [][Next]_vars
View == <<cfg, phase, method, target, hdrs, bodyKind, produced, wire>>
=============================================================================
