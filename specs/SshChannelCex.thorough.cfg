SPECIFICATION Spec
CONSTANT MaxWin = 3
CONSTANT MaxPkt = 3
CONSTANT MaxOps = 4
CONSTANT MaxN = 3
CONSTANT MaxAdj = 2
VIEW View
CONSTRAINT Clean
INVARIANT NotClass
CHECK_DEADLOCK FALSE
