---------------------------- MODULE ClientSvcImplMC ----------------------------
(* TLC: is ClientService AS CODED (ClientSvcImpl: automat table, dispatch semantics, Deferred chain)
   accepted by the property (ClientSvc)?  Product: an op is executed by the Impl model, giving the
   event record the adapter would log; the property must accept it (ClientSvcGroup!Accept).

   The answer for the unrestricted environment is NO (see notes/C58.md; two more restrictions, A "no whenConnected
   before the first start" and B "no loss while preparing", were needed before the repairs 6c34093 / cfaca27).  `Assume`
   is a set of environment restrictions; TLC shows that under all of them the coded machine is
   accepted (for the bounds), and that each one is necessary: dropping it yields a counterexample,
   which the harness replays on the real ClientService.
     "C"  prepareConnection never fails
     "D"  stopService is not called while prepareConnection is pending
     "E"  callbacks of whenConnected / stopService Deferreds call nothing but startService        *)
EXTENDS ClientSvcGroup, TLC
CONSTANTS Depth, Assume
VARIABLES M, ok, ops
Impl == INSTANCE ClientSvcImpl

Modes == {"async", "ok", "fail"}
Init == \E h \in BOOLEAN, sc \in BOOLEAN, cm \in Modes, hm \in (IF "C" \in Assume THEN {"ok", "async"} ELSE Modes) :
          LET c == [hook |-> h, syncClose |-> sc, pol |-> <<1, 2>>, cmode |-> cm, hmode |-> hm]
          IN InitWith(c) /\ M = Impl!MInit(c) /\ ok = TRUE /\ ops = <<>>

O(op) == [op |-> op, k |-> 0, then |-> "none", c |-> 0, d |-> 0, m |-> "-"]
ThensA == IF "E" \in Assume THEN {"none", "start"} ELSE {"none", "start", "stop", "when"}
OpsOf(m) ==
    {O("start")}
    \cup (IF "D" \in Assume /\ m.hooks \cap m.conns # {} THEN {} ELSE {[O("stop") EXCEPT !.then = t] : t \in ThensA})
    \cup {[O("when") EXCEPT !.k = k, !.then = t] : k \in (0 - 1)..2, t \in ThensA}
    \cup (IF m.att # 0 THEN {O("succeed"), O("fail")} ELSE {})
    \cup {[O("prepok") EXCEPT !.c = c] : c \in m.hooks}
    \cup (IF "C" \in Assume THEN {} ELSE {[O("prepfail") EXCEPT !.c = c] : c \in m.hooks})
    \cup {[O("drop") EXCEPT !.c = c] : c \in m.conns}
    \cup {[O("adv") EXCEPT !.d = d] : d \in 1..2}
JOp(o) == CASE o.op \in {"start", "succeed", "fail"} -> <<o.op>>
            [] o.op = "stop" -> <<"stop", o.then>>
            [] o.op = "when" -> <<"when", o.k, o.then>>
            [] o.op \in {"prepok", "prepfail", "drop"} -> <<o.op, o.c>>
            [] OTHER -> <<"adv", o.d>>

Step == /\ ok
        /\ \E o \in OpsOf(M) :
             LET r   == Impl!Exec(M, o)
                 acc == Accept(S, r.ev)
             IN /\ M' = r.st /\ ops' = Append(ops, JOp(o)) /\ UNCHANGED cfg
                /\ IF acc = {} THEN ok' = FALSE /\ S' = S ELSE ok' = TRUE /\ S' \in acc
Spec == Init /\ [][Step]_<<vars, M, ok, ops>>

Accepted == ok
Bound == Len(ops) <= Depth /\ M.nW <= 2 /\ M.nS <= 2 /\ Len(M.chain) <= 3 /\ M.now <= 3
View == <<cfg, [S EXCEPT !.obs = {}, !.nres = <<>>], [M EXCEPT !.obs = {}, !.nres = <<>>], ok>>
=============================================================================
