SPECIFICATION Spec
CONSTANT MaxWin = 3
CONSTANT MaxPkt = 2
CONSTANT MaxOps = 3
CONSTANT MaxN = 3
CONSTANT MaxAdj = 2
VIEW View
CONSTRAINT Collect
POSTCONDITION Classes
INVARIANT WindowsAgree
CHECK_DEADLOCK FALSE
