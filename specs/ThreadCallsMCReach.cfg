SPECIFICATION Spec
CONSTANT MaxN = 2
INVARIANT NeverQuiescentNonTrivial
CHECK_DEADLOCK FALSE
