---------------------------- MODULE TelnetDataMC ----------------------------
(* Exhaustive check of TelnetData:
   mode "app" : every application string of up to MaxApp bytes over one representative per byte
                class, written byte by byte through write or writeSequence, every wire split;
   mode "wire": every RFC-valid token stream of up to MaxWire wire bytes (data, IAC IAC, CR LF,
                CR NUL, one-byte commands, option verbs, subnegotiations), every wire split.  *)
EXTENDS TelnetData, TLC
CONSTANTS MaxApp, MaxWire

AppAlphabet == {IAC, LF, NUL, 251, 65}       \* IAC, LF, NUL, a command byte (WILL), ordinary
Kinds == {"write", "seq"}

Payloads == {<<>>, <<65>>, <<IAC, IAC>>, <<65, IAC, IAC>>, <<CR>>}
Tokens ==      {<<b>> : b \in {65, NUL, LF, SE, 251}}
          \cup {<<IAC, IAC>>, <<CR, LF>>, <<CR, NUL>>}
          \cup {<<IAC, c>> : c \in {239, 241, 249}}
          \cup {<<IAC, c, o>> : c \in {251, 254}, o \in {1, CR}}
          \cup {<<IAC, SB, a>> \o p \o <<IAC, SE>> : a \in {1, SE}, p \in Payloads}

Init == \E m \in {"app", "wire"} : InitWith([mode |-> m])

WriteSym  == \E b \in AppAlphabet, kind \in Kinds :
                 /\ Len(app) < MaxApp
                 /\ WriteCall(kind, << <<b>> >>, Wire1(b))
InjectTok == \E t \in Tokens : Len(wire) + Len(t) <= MaxWire /\ Inject(t)
DeliverK  == \E k \in 1..(Len(wire) - consumed) : Deliver(k)

Next == WriteSym \/ InjectTok \/ DeliverK
Spec == Init /\ [][Next]_vars

RoundTrip == cfg.mode = "app" => Dec(Wire(app)) = DataItems(app) /\ wire = Wire(app)
View == <<cfg, app, wire, consumed, mach, out>>
=============================================================================
