SPECIFICATION Spec
CONSTANT Configs <- ConfigsSafe3
VIEW View
INVARIANT MutualExclusion
INVARIANT CanRelease
CHECK_DEADLOCK FALSE
