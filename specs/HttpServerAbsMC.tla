--------------------------- MODULE HttpServerAbsMC ---------------------------
(* Exhaustive TLC run of the C21 Abs layer: all closing patterns of up to MaxReq
   requests, every interleaving of arrival, hand-over, response segments,
   finish, notification, pause/resume and connection loss up to Depth steps.  *)
EXTENDS HttpServerAbs, TLC
CONSTANTS MaxReq, Depth
RECURSIVE BoolSeqs(_)
BoolSeqs(n) == IF n = 0 THEN {<<>>} ELSE {Append(s, b) : s \in BoolSeqs(n - 1), b \in BOOLEAN}
Init == \E n \in 1..MaxReq : \E c \in BoolSeqs(n) : InitWith([closing |-> c])
Spec == Init /\ [][Next]_vars
Bound == TLCGet("level") <= Depth /\ Len(wire) <= 6
View == <<cfg, avail, nRecv, active, tail, fin, lost, lostAct, ph, nf, wire, ended>>
(* reachability witnesses (vacuity): these must be VIOLATED when listed as invariants *)
NeverTwoDone == ~(ended /\ Cardinality(fin) >= 2 /\ ~lost)
NeverFail == \A r \in 1..nRecv : \A d \in 1..Len(nf[r]) : nf[r][d] # "fail"
=============================================================================
