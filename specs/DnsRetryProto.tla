---------------------------- MODULE DnsRetryProto ----------------------------
(* Extension X15, second layer -- one shared twisted.names.dns.DNSDatagramProtocol used directly:
   query(address, queries, timeout, id=None) / datagramReceived / removeResend / the port being stopped,
   with its liveMessages (id -> Deferred, timer) and resends (ids whose late duplicates are suppressed) tables.
   client.Resolver (module DnsRetry) uses a fresh protocol per datagram, so the tables only matter here.

   query(id=None) picks an id that is not live; query(id=k) re-uses k (the caller must know k is not live: the
   harness never passes a live id) and puts k into resends.  An arriving datagram fires the live query with that
   id exactly once; otherwise it is handed to controller.messageReceived unless its id is in resends.  The timer
   of a query fails it with DNSQueryTimeoutError(id).

   Deliberate deviation (the code does this; notes/X15.md "Oddities"): stopping the port empties both tables but
   leaves the timers of the queries that were live running; such a timer later deletes liveMessages[id] *whoever
   owns it*, so a query issued after a restart under the same id can lose its table entry (its answer is then
   "unexpected") and still times out at its own deadline.  Modelled as is: `live` maps an id to the query that owns
   the entry, and a timer clears the entry of its id.                                                          *)
EXTENDS Naturals, Integers, Sequences, FiniteSets, TLC

VARIABLES cfg,       \* [idmax |-> size of the id space]
          now,
          qs,        \* queries issued: seq of [id, res]   res = <<"none",0>> | <<"ok",v>> | <<"DNSQueryTimeoutError",id>>
          live,      \* liveMessages: [Ids -> query index or 0]
          resends,   \* set of ids
          timers,    \* pending delayed calls in insertion order: [ref |-> query, at]
          listening, \* the protocol has a transport
          stops,     \* number of times the port was stopped
          last
vars == <<cfg, now, qs, live, resends, timers, listening, stops, last>>
None2 == <<"none", 0>>
Ids == 1..cfg.idmax
RemoveAt(s, i) == SubSeq(s, 1, i - 1) \o SubSeq(s, i + 1, Len(s))
Obs0(e) == [e |-> e, sent |-> <<>>, listens |-> 0, fired |-> <<>>, unexpected |-> 0]

InitWith(c) == /\ cfg = c /\ now = 0 /\ qs = <<>> /\ live = [i \in 1..c.idmax |-> 0] /\ resends = {} /\ timers = <<>>
               /\ listening = FALSE /\ stops = 0 /\ last = Obs0("init")

Due == {x \in DOMAIN timers : timers[x].at <= now}
Quiet == Due = {}
NextDue == CHOOSE x \in Due : \A y \in Due : timers[x].at < timers[y].at \/ (timers[x].at = timers[y].at /\ x <= y)

(* proto.query(addr, queries, timeout=t, id = None if k = 0 else k) *)
Query(k, t) ==
    /\ Quiet /\ t \in Nat \ {0}
    /\ LET lv == IF listening THEN live ELSE [i \in Ids |-> 0]          \* (re)start: startProtocol resets the tables
           rs == IF listening THEN resends ELSE {} IN
       \E i \in Ids :
         /\ lv[i] = 0 /\ (k # 0 => i = k)
         /\ qs' = Append(qs, [id |-> i, res |-> None2])
         /\ live' = [lv EXCEPT ![i] = Len(qs) + 1]
         /\ resends' = IF k # 0 THEN rs \cup {k} ELSE rs
         /\ timers' = Append(timers, [ref |-> Len(qs) + 1, at |-> now + t])
         /\ last' = [Obs0("query") EXCEPT !.sent = <<i>>, !.listens = IF listening THEN 0 ELSE 1]
    /\ listening' = TRUE
    /\ UNCHANGED <<cfg, now, stops>>

(* a datagram with id i and answer payload v arrives while the port is open *)
Deliver(i, v) ==
    /\ Quiet /\ listening /\ i \in Ids
    /\ IF live[i] # 0
         THEN LET q == live[i] IN
              /\ qs' = [qs EXCEPT ![q].res = <<"ok", v>>]
              /\ live' = [live EXCEPT ![i] = 0]
              /\ timers' = RemoveAt(timers, CHOOSE x \in DOMAIN timers : timers[x].ref = q)
              /\ last' = [Obs0("deliver") EXCEPT !.fired = << <<q, "ok", v>> >>]
         ELSE /\ last' = [Obs0("deliver") EXCEPT !.unexpected = IF i \in resends THEN 0 ELSE 1]
              /\ UNCHANGED <<qs, live, timers>>
    /\ UNCHANGED <<cfg, now, resends, listening, stops>>

Garbage == Quiet /\ listening /\ last' = Obs0("garbage") /\ UNCHANGED <<cfg, now, qs, live, resends, timers, listening, stops>>

Advance(d) == Quiet /\ d \in Nat /\ now' = now + d /\ last' = Obs0("advance") /\ UNCHANGED <<cfg, qs, live, resends, timers, listening, stops>>

Fire ==
    /\ ~Quiet
    /\ LET q == timers[NextDue].ref   i == qs[q].id IN
       /\ qs' = [qs EXCEPT ![q].res = <<"DNSQueryTimeoutError", i>>]
       /\ live' = [live EXCEPT ![i] = 0]                  \* del liveMessages[id], whoever owns the entry
       /\ last' = [Obs0("fire") EXCEPT !.fired = << <<q, "DNSQueryTimeoutError", i>> >>]
    /\ timers' = RemoveAt(timers, NextDue)
    /\ UNCHANGED <<cfg, now, resends, listening, stops>>

RemoveResend(i) == Quiet /\ listening /\ resends' = resends \ {i} /\ last' = Obs0("rmresend")
                   /\ UNCHANGED <<cfg, now, qs, live, timers, listening, stops>>

(* the port is stopped (transport.stopListening -> stopProtocol) *)
Stop == /\ Quiet /\ listening /\ listening' = FALSE /\ live' = [i \in Ids |-> 0] /\ resends' = {} /\ stops' = stops + 1
        /\ last' = Obs0("stop") /\ UNCHANGED <<cfg, now, qs, timers>>

End == Quiet /\ last' = Obs0("end") /\ UNCHANGED <<cfg, now, qs, live, resends, timers, listening, stops>>

Next == \/ \E k \in {0} \cup Ids, t \in 1..2 : Query(k, t)
        \/ \E i \in Ids : Deliver(i, 7)
        \/ Garbage
        \/ \E d \in {1} \cup {timers[x].at - now : x \in DOMAIN timers} : Advance(d)
        \/ Fire
        \/ \E i \in Ids : RemoveResend(i)
        \/ Stop
-----------------------------------------------------------------------------
Unresolved == {q \in DOMAIN qs : qs[q].res = None2}
\* every unanswered query has exactly one timer, every timer belongs to an unanswered query: each query fires by its deadline, nothing leaks
TimerSound == /\ \A q \in Unresolved : Cardinality({x \in DOMAIN timers : timers[x].ref = q}) = 1
              /\ \A x \in DOMAIN timers : timers[x].ref \in Unresolved
\* the table only holds unanswered queries under their own id; as long as the port was never stopped it holds all of them
LiveSound == /\ \A i \in Ids : live[i] # 0 => (live[i] \in Unresolved /\ qs[live[i]].id = i)
             /\ stops = 0 => \A q \in Unresolved : live[qs[q].id] = q
\* ids in flight are unique (while the port was never stopped)
IdsUnique == stops = 0 => \A q1, q2 \in Unresolved : q1 # q2 => qs[q1].id # qs[q2].id
\* a result carries the query's own id / only exists for a matching datagram
ResultSound == \A q \in DOMAIN qs : qs[q].res[1] = "DNSQueryTimeoutError" => qs[q].res[2] = qs[q].id
StoppedEmpty == ~listening => (resends = {} /\ \A i \in Ids : live[i] = 0)
Inv == TimerSound /\ LiveSound /\ IdsUnique /\ ResultSound /\ StoppedEmpty
ExactlyOnceStep ==
    /\ \A q \in DOMAIN qs : qs[q].res # None2 => qs'[q].res = qs[q].res
    /\ LET got == {q \in DOMAIN qs' : qs'[q].res # None2 /\ (q \notin DOMAIN qs \/ qs[q].res = None2)} IN
       /\ got = {last'.fired[x][1] : x \in DOMAIN last'.fired} /\ Cardinality(got) = Len(last'.fired)
       /\ \A x \in DOMAIN last'.fired : qs'[last'.fired[x][1]].res = <<last'.fired[x][2], last'.fired[x][3]>>
ExactlyOnce == [][ExactlyOnceStep]_vars
=============================================================================
