SPECIFICATION Spec
CONSTRAINT Bound
VIEW View
INVARIANT NeverCorrupt
CHECK_DEADLOCK FALSE
