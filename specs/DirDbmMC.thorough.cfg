SPECIFICATION Spec
CONSTANT MaxOps = 5
CONSTANT MaxCrash = 3
CONSTANT NKeys = 2
CONSTRAINT Bound
VIEW View
INVARIANT Inv
INVARIANT IdleOk
INVARIANT PcMode
CHECK_DEADLOCK FALSE
