SPECIFICATION Spec
CONSTANT MaxOps = 4
CONSTANT MaxCrash = 4
CONSTANT Win = FALSE
CONSTRAINT Bound
VIEW View
INVARIANT Inv
INVARIANT IdleOk
CHECK_DEADLOCK FALSE
