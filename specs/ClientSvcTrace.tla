---------------------------- MODULE ClientSvcTrace ----------------------------
(* Batched trace validation: every recorded execution of the real ClientService must be a
   behaviour of ClientSvc with every logged field matched: the stimulus and its arguments,
   the outcome of the call (`res`, always "ok" in the specification: no event is rejected),
   the id of the Deferred it returned, the SET of effects observed during the event
   (endpoint.connect, attempt cancelled, policy consulted with n, hook called, loseConnection,
   whenConnected / stopService Deferreds fired and with what) and the re-entrant calls made
   by user callbacks with their outcomes.  One logged event = the top-level step plus one
   sub-step per re-entrant call (bounded by the logged `nested` list).                     *)
EXTENDS ClientSvc, TLC, Json, IOUtils

Traces == JsonDeserialize(IOEnv.TRACE_FILE)
VARIABLES tid, l
ASSUME \A t \in 1..Len(Traces) : TLCSet(t, 1)

T == Traces[tid]
E == T.ev[l]

TInit == /\ tid \in 1..Len(Traces) /\ l = 1
         /\ InitWith([hook |-> Traces[tid].cfg.hook, syncClose |-> Traces[tid].cfg.syncClose, pol |-> Traces[tid].cfg.pol,
                      cmode |-> Traces[tid].cfg.cmode, hmode |-> Traces[tid].cfg.hmode])

ObsSet == {E.obs[i] : i \in 1..Len(E.obs)}
Matches == /\ E.res = "ok"
           /\ ObsSet = S'.obs
           /\ Len(E.obs) = Cardinality(S'.obs)          \* nothing observed twice
           /\ E.nested = S'.nres

\* the event is complete when no re-entrant call is left to take
Finish == IF S'.todo = {} THEN Matches /\ l' = l + 1 ELSE l' = l

Outer(A, nid) == /\ l <= Len(T.ev) /\ A /\ E.newid = nid /\ Inv' /\ Finish /\ UNCHANGED tid

NestedT == /\ l <= Len(T.ev) /\ S.todo # {}
           /\ LET j == Len(S.nres) + 1
              IN /\ j <= Len(E.nested)
                 /\ \E n \in S.todo : /\ n.by = E.nested[j].by /\ n.id = E.nested[j].id /\ n.call = E.nested[j].call
                                      /\ UNCHANGED cfg /\ NestedCall(n)
           /\ Inv' /\ Finish /\ UNCHANGED tid

TNext == \/ (E.e = "start"    /\ Outer(Start, 0))
         \/ (E.e = "stop"     /\ Outer(Stop(E.then), S.nS + 1))
         \/ (E.e = "when"     /\ Outer(When(E.k, E.then), S.nW + 1))
         \/ (E.e = "succeed"  /\ E.a = S.att /\ Outer(Succeed, 0))
         \/ (E.e = "fail"     /\ E.a = S.att /\ Outer(Fail, 0))
         \/ (E.e = "prepok"   /\ Outer(PrepOk(E.a), 0))
         \/ (E.e = "prepfail" /\ Outer(PrepFail(E.a), 0))
         \/ (E.e = "drop"     /\ Outer(Drop(E.a), 0))
         \/ (E.e = "adv"      /\ Outer(Adv(E.a), 0))
         \/ (E.e = "cmode"    /\ Outer(CMode(E.m), 0))
         \/ (E.e = "hmode"    /\ Outer(HMode(E.m), 0))
         \/ NestedT

TSpec == TInit /\ [][l <= Len(T.ev) /\ TNext]_<<vars, tid, l>>

Progress == TLCSet(tid, IF TLCGet(tid) > l THEN TLCGet(tid) ELSE l)
RejectedT == {<<t, TLCGet(t)>> : t \in {u \in 1..Len(Traces) : TLCGet(u) # Len(Traces[u].ev) + 1}}
Accepted == RejectedT = {} \/ (PrintT(<<"REJECTED", RejectedT>>) /\ FALSE)
=============================================================================
