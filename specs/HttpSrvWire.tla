---------------------------- MODULE HttpSrvWire ----------------------------
(* C19 (and the reference side of C18) -- HTTP/1.1 request-stream syntax and
   framing for a server connection, RFC 9112 (message format, section 6 framing,
   section 7.1 chunked coding, section 9 persistence) and RFC 9110 (fields),
   written as pure TLA+ operators over octets 0..255.  This is the independent
   parser the property asks for: it shares nothing with twisted (and h11 is not
   used).  The byte classes are the grammar's own partition.

   Reference(stream) is a RELATION between the octets received so far and the
   outputs of the server (requests handed to the application, interim / error
   responses written by the server itself), because the RFC and the property
   leave some things to the implementation.  Strict clauses (property text):
     - a delivered request has exactly the method, target, version, field lines
       and body the grammar assigns, requests in stream order, nothing skipped;
     - body octets are never parsed as a request (the next request starts where
       section 6.3 says the body ends);
     - Content-Length together with Transfer-Encoding, repeated or non-numeric
       Content-Length, a transfer coding other than a final single "chunked",
       malformed chunk framing, an invalid request line / field name / line
       without colon => 400 and nothing after it is processed;
     - nothing is processed after a request that closes the connection.
   Implementation-defined (either reading accepted; flagged "opt"): empty lines
   before a request line (skip or reject), obs-fold (reject or unfold to SP),
   NUL / bare CR / bare LF in a field value (reject or replace by SP), other
   CTLs in a field value (reject or retain), printable non-URI octets in the
   target, lenient whitespace in the request line, an HTTP-version other than
   1.0 / 1.1, "identity" as a transfer coding (reject or ignore), empty list
   elements in Transfer-Encoding, chunk extensions that are not well-formed but
   contain only octets an extension can contain, quoted-pairs in a chunk
   extension value,
   Transfer-Encoding on an HTTP/1.0 request, BWS in a chunk-size line,
   syntax of trailer fields, keep-alive on HTTP/1.0.
   Timing: a 400 is REQUIRED only once the stream contains a complete line after
   the offending one (an implementation may validate a line when the next one
   arrives); "100 Continue" is allowed (never required) before an HTTP/1.1
   request whose Expect field says 100-continue.                              *)
EXTENDS Naturals, Sequences, FiniteSets

CR == 13
LF == 10
SP == 32
HT == 9

IsDigit(b) == b >= 48 /\ b <= 57
IsAlpha(b) == (b >= 65 /\ b <= 90) \/ (b >= 97 /\ b <= 122)
TcharPunct == {33, 35, 36, 37, 38, 39, 42, 43, 45, 46, 94, 95, 96, 124, 126}
IsTchar(b) == IsDigit(b) \/ IsAlpha(b) \/ b \in TcharPunct
IsVchar(b) == b >= 33 /\ b <= 126
IsObs(b) == b >= 128
IsWs(b) == b = SP \/ b = HT
IsHex(b) == IsDigit(b) \/ (b >= 65 /\ b <= 70) \/ (b >= 97 /\ b <= 102)
HexVal(b) == IF IsDigit(b) THEN b - 48 ELSE IF b <= 70 THEN b - 55 ELSE b - 87
Lower(b) == IF b >= 65 /\ b <= 90 THEN b + 32 ELSE b
LowerSeq(s) == [i \in 1..Len(s) |-> Lower(s[i])]
\* RFC 3986 characters that can occur in a request-target (origin / absolute / authority / asterisk form)
UriPunct == {45, 46, 95, 126, 37, 33, 36, 38, 39, 40, 41, 42, 43, 44, 59, 61, 58, 64, 47, 63}
IsUriChar(b) == IsAlpha(b) \/ IsDigit(b) \/ b \in UriPunct
\* octets that can occur somewhere in a well-formed chunk extension (token, "=", ";", quoted-string with quoted-pair, BWS)
IsExtChar(b) == b = HT \/ b = SP \/ IsVchar(b) \/ IsObs(b)

Sub(s, a, b) == IF a > b THEN <<>> ELSE SubSeq(s, a, b)
AllIn(s, a, b, P(_)) == \A i \in a..b : P(s[i])

B_HTTPSLASH == <<72, 84, 84, 80, 47>>    \* HTTP/
B_HTTP11 == <<72, 84, 84, 80, 47, 49, 46, 49>>    \* HTTP/1.1
B_HTTP10 == <<72, 84, 84, 80, 47, 49, 46, 48>>    \* HTTP/1.0
B_content_length == <<99, 111, 110, 116, 101, 110, 116, 45, 108, 101, 110, 103, 116, 104>>    \* content-length
B_transfer_encoding == <<116, 114, 97, 110, 115, 102, 101, 114, 45, 101, 110, 99, 111, 100, 105, 110, 103>>    \* transfer-encoding
B_chunked == <<99, 104, 117, 110, 107, 101, 100>>    \* chunked
B_identity == <<105, 100, 101, 110, 116, 105, 116, 121>>    \* identity
B_connection == <<99, 111, 110, 110, 101, 99, 116, 105, 111, 110>>    \* connection
B_close == <<99, 108, 111, 115, 101>>    \* close
B_keep_alive == <<107, 101, 101, 112, 45, 97, 108, 105, 118, 101>>    \* keep-alive
B_expect == <<101, 120, 112, 101, 99, 116>>    \* expect
B_100_continue == <<49, 48, 48, 45, 99, 111, 110, 116, 105, 110, 117, 101>>    \* 100-continue

\* L = CrLfs(s): positions of the CR of every CR LF pair, computed once per stream
CrLfs(s) == {j \in 1..(Len(s) - 1) : s[j] = CR /\ s[j + 1] = LF}
MinOf(S) == CHOOSE j \in S : \A k \in S : j <= k
\* position of the CR of the first CR LF at or after i (0 = none)
Eol(L, i) == LET S == {j \in L : j >= i} IN IF S = {} THEN 0 ELSE MinOf(S)

\* first position in a..b holding octet c (0 = none)
Find(s, a, b, c) == LET S == {j \in a..b : s[j] = c} IN IF S = {} THEN 0 ELSE MinOf(S)

RECURSIVE SkipWsL(_, _, _)
SkipWsL(s, a, b) == IF a <= b /\ IsWs(s[a]) THEN SkipWsL(s, a + 1, b) ELSE a
RECURSIVE SkipWsR(_, _, _)
SkipWsR(s, a, b) == IF a <= b /\ IsWs(s[b]) THEN SkipWsR(s, a, b - 1) ELSE b
Trim(s) == Sub(s, SkipWsL(s, 1, Len(s)), SkipWsR(s, 1, Len(s)))

\* whitespace-delimited words of s[a..b] as <<from, to>> pairs
RECURSIVE Words(_, _, _)
RECURSIVE WordEnd(_, _, _)
WordEnd(s, a, b) == IF a <= b /\ ~IsWs(s[a]) THEN WordEnd(s, a + 1, b) ELSE a - 1
Words(s, a, b) ==
    LET a1 == SkipWsL(s, a, b) IN
    IF a1 > b THEN <<>>
    ELSE LET e == WordEnd(s, a1, b) IN <<<<a1, e>>>> \o Words(s, e + 1, b)

\* collapse every run of SP / HTAB to one SP, drop leading and trailing ones
RECURSIVE Collapse1(_, _, _)
Collapse1(s, i, prevWs) ==
    IF i > Len(s) THEN <<>>
    ELSE IF IsWs(s[i]) THEN (IF prevWs THEN <<>> ELSE <<SP>>) \o Collapse1(s, i + 1, TRUE)
    ELSE <<s[i]>> \o Collapse1(s, i + 1, FALSE)
Collapse(s) == Trim(Collapse1(s, 1, TRUE))
ReplBad(s) == [i \in 1..Len(s) |-> IF s[i] = 0 \/ s[i] = CR \/ s[i] = LF THEN SP ELSE s[i]]

RECURSIVE DecVal(_, _)
DecVal(s, i) == IF i = 0 THEN 0 ELSE DecVal(s, i - 1) * 10 + (s[i] - 48)
RECURSIVE HexV(_, _, _)
HexV(s, a, b) == IF b < a THEN 0 ELSE HexV(s, a, b - 1) * 16 + HexVal(s[b])
Huge == 1000000000

-----------------------------------------------------------------------------
(* Request line (RFC 9112 section 3).  Result: [c |-> "ok" | "opt" | "bad", m, t, v]. *)
IsVersionSyntax(v) == /\ Len(v) = 8 /\ SubSeq(v, 1, 5) = B_HTTPSLASH
                      /\ IsDigit(v[6]) /\ v[7] = 46 /\ IsDigit(v[8])
Supported(v) == v = B_HTTP11 \/ v = B_HTTP10
IsToken(x) == Len(x) > 0 /\ \A i \in 1..Len(x) : IsTchar(x[i])
TargetClass(t) == IF Len(t) = 0 \/ \E i \in 1..Len(t) : ~IsVchar(t[i]) THEN "bad"
                  ELSE IF \A i \in 1..Len(t) : IsUriChar(t[i]) THEN "ok" ELSE "opt"
PartsClass(m, t, v) ==
    IF ~IsToken(m) \/ TargetClass(t) = "bad" \/ ~IsVersionSyntax(v) THEN "bad"
    ELSE IF TargetClass(t) = "opt" \/ ~Supported(v) THEN "opt" ELSE "ok"

RequestLine(s, a, b) ==
    LET w == Words(s, a, b)
        strict == /\ Len(w) = 3
                  /\ w[1][1] = a /\ w[3][2] = b
                  /\ w[2][1] = w[1][2] + 2 /\ s[w[1][2] + 1] = SP
                  /\ w[3][1] = w[2][2] + 2 /\ s[w[2][2] + 1] = SP
    IN IF Len(w) # 3 THEN [c |-> "bad"]
       ELSE LET m == Sub(s, w[1][1], w[1][2])
                t == Sub(s, w[2][1], w[2][2])
                v == Sub(s, w[3][1], w[3][2])
                pc == PartsClass(m, t, v)
            IN IF pc = "bad" THEN [c |-> "bad"]
               ELSE [c |-> IF strict THEN pc ELSE "opt", m |-> m, t |-> t, v |-> v]

(* Field line s[a..b] that does not start with SP / HTAB (RFC 9112 section 5, RFC 9110 5.5).
   Result: [c |-> "ok" | "opt" | "bad", n (lower-cased name), v (value, OWS stripped), fl (flags)]. *)
ValFlags(v) == (IF \E i \in 1..Len(v) : v[i] = 0 \/ v[i] = CR \/ v[i] = LF THEN {"repl"} ELSE {})
          \cup (IF \E i \in 1..Len(v) : (v[i] < 32 \/ v[i] = 127) /\ v[i] \notin {0, CR, LF, HT} THEN {"ctl"} ELSE {})
FieldLine(s, a, b) ==
    LET c == Find(s, a, b, 58) IN
    IF c = 0 THEN [c |-> "bad"]
    ELSE LET n == Sub(s, a, c - 1) IN
         IF ~IsToken(n) THEN [c |-> "bad"]
         ELSE LET v == Sub(s, SkipWsL(s, c + 1, b), SkipWsR(s, c + 1, b))
                  fl == ValFlags(v)
              IN [c |-> IF fl = {} THEN "ok" ELSE "opt", n |-> LowerSeq(n), v |-> v, fl |-> fl]

(* The field section starting at a.  acc = fields so far, opt = an implementation-defined choice was met.
   Result: [st |-> "inc", fs, opt] | [st |-> "bad", need] | [st |-> "done", fs, opt, next]. *)
RECURSIVE Fields(_, _, _, _, _)
Fields(s, L, a, acc, opt) ==
    LET e == Eol(L, a) IN
    IF e = 0 THEN [st |-> "inc", fs |-> acc, opt |-> opt]
    ELSE IF e = a THEN [st |-> "done", fs |-> acc, opt |-> opt, next |-> a + 2]
    ELSE IF IsWs(s[a]) THEN
        \* obs-fold (or whitespace before the first field): reject, or unfold / ignore the line
        IF acc = <<>> THEN Fields(s, L, e + 2, acc, TRUE)
        ELSE LET f == acc[Len(acc)]
                 piece == Sub(s, SkipWsL(s, a, e - 1), SkipWsR(s, a, e - 1))
                 g == [f EXCEPT !.v = Trim(f.v \o <<SP>> \o piece), !.fl = f.fl \cup {"fold"} \cup ValFlags(piece)]
             IN Fields(s, L, e + 2, [acc EXCEPT ![Len(acc)] = g], TRUE)
    ELSE LET f == FieldLine(s, a, e - 1) IN
         IF f.c = "bad" THEN [st |-> "bad", need |-> Eol(L, e + 2) # 0]
         ELSE Fields(s, L, e + 2, Append(acc, [n |-> f.n, v |-> f.v, fl |-> f.fl]), opt \/ f.c = "opt")

ValuesOf(fs, name) == SelectSeq(fs, LAMBDA f : f.n = name)

\* comma-separated list elements of v, OWS-trimmed, lower-cased, empty elements dropped
RECURSIVE ListElems(_, _)
ListElems(v, a) ==
    IF a > Len(v) THEN <<>>
    ELSE LET c == Find(v, a, Len(v), 44)
             b == IF c = 0 THEN Len(v) ELSE c - 1
             el == LowerSeq(Sub(v, SkipWsL(v, a, b), SkipWsR(v, a, b)))
         IN (IF el = <<>> THEN <<>> ELSE <<el>>) \o ListElems(v, b + 2)
RECURSIVE CountCommas(_, _)
CountCommas(v, i) == IF i > Len(v) THEN 0 ELSE (IF v[i] = 44 THEN 1 ELSE 0) + CountCommas(v, i + 1)
HasEmptyElem(v) == Len(ListElems(v, 1)) # CountCommas(v, 1) + 1
RECURSIVE AllElems(_, _)
AllElems(vals, i) == IF i > Len(vals) THEN <<>> ELSE ListElems(vals[i].v, 1) \o AllElems(vals, i + 1)

(* Message body length, RFC 9112 section 6.3, for a request.
   Result: [k |-> "bad"] | [k |-> "none" | "chunked", opt] | [k |-> "len", n, opt]. *)
Framing(fs, ver) ==
    LET cl == ValuesOf(fs, B_content_length)
        te == ValuesOf(fs, B_transfer_encoding)
        codings == AllElems(te, 1)
        real == SelectSeq(codings, LAMBDA c : c # B_identity)     \* "identity": reject or ignore
        idopt == Len(real) # Len(codings)
        teopt == idopt \/ (te # <<>> /\ ver # B_HTTP11)
        teopt2 == teopt \/ (te # <<>> /\ real = <<>>) \/ (\E i \in 1..Len(te) : HasEmptyElem(te[i].v))   \* "", ", chunked"        \* Transfer-Encoding with no coding at all: reject or ignore
    IN IF real # <<>> /\ cl # <<>> THEN [k |-> "bad"]                      \* both
       ELSE IF real # <<>> THEN
            (IF real = <<B_chunked>> THEN [k |-> "chunked", opt |-> teopt2] ELSE [k |-> "bad"])
       ELSE IF cl = <<>> THEN [k |-> "none", opt |-> teopt2]
       ELSE IF Len(cl) > 1 THEN [k |-> "bad"]                               \* repeated
       ELSE LET v == cl[1].v IN
            IF Len(v) = 0 \/ \E i \in 1..Len(v) : ~IsDigit(v[i]) THEN [k |-> "bad"]   \* non-numeric
            ELSE [k |-> "len", n |-> IF Len(v) > 9 THEN Huge ELSE DecVal(v, Len(v)), opt |-> teopt2]

(* Chunked body starting at q (RFC 9112 section 7.1).
   Result: [st |-> "inc", opt] | [st |-> "bad", need] | [st |-> "done", body, next, opt]. *)
RECURSIVE Trailers(_, _, _, _, _)
Trailers(s, L, q, body, opt) ==
    LET e == Eol(L, q) IN
    IF e = 0 THEN [st |-> "inc", opt |-> opt]
    ELSE IF e = q THEN [st |-> "done", body |-> body, next |-> q + 2, opt |-> opt]
    ELSE Trailers(s, L, e + 2, body, opt \/ IsWs(s[q]) \/ FieldLine(s, q, e - 1).c # "ok")

(* chunk-ext = *( BWS ";" BWS chunk-ext-name [ BWS "=" BWS chunk-ext-val ] ), s[i..b] starting at a ";".
   st: "semi" after ";" (BWS, then a name must start) | "name" | "aname" after a name | "eq" after "=" |
       "tok" in a token value | "q" in a quoted-string | "qp" after a backslash | "aval" after a value.   *)
RECURSIVE ExtWF(_, _, _, _)
ExtWF(s, i, b, st) ==
    IF i > b THEN st \in {"name", "aname", "tok", "aval"}
    ELSE LET c == s[i] IN
      IF st = "semi" THEN (IF IsWs(c) THEN ExtWF(s, i + 1, b, "semi") ELSE IsTchar(c) /\ ExtWF(s, i + 1, b, "name"))
      ELSE IF st = "name" THEN
           (IF IsTchar(c) THEN ExtWF(s, i + 1, b, "name")
            ELSE IF IsWs(c) THEN ExtWF(s, i + 1, b, "aname")
            ELSE IF c = 59 THEN ExtWF(s, i + 1, b, "semi")
            ELSE c = 61 /\ ExtWF(s, i + 1, b, "eq"))
      ELSE IF st = "aname" THEN
           (IF IsWs(c) THEN ExtWF(s, i + 1, b, "aname")
            ELSE IF c = 59 THEN ExtWF(s, i + 1, b, "semi")
            ELSE c = 61 /\ ExtWF(s, i + 1, b, "eq"))
      ELSE IF st = "eq" THEN
           (IF IsWs(c) THEN ExtWF(s, i + 1, b, "eq")
            ELSE IF c = 34 THEN ExtWF(s, i + 1, b, "q")
            ELSE IsTchar(c) /\ ExtWF(s, i + 1, b, "tok"))
      ELSE IF st = "tok" THEN
           (IF IsTchar(c) THEN ExtWF(s, i + 1, b, "tok")
            ELSE IF IsWs(c) THEN ExtWF(s, i + 1, b, "aval")
            ELSE c = 59 /\ ExtWF(s, i + 1, b, "semi"))
      ELSE IF st = "q" THEN
           (IF c = 34 THEN ExtWF(s, i + 1, b, "aval")
            ELSE IF c = 92 THEN ExtWF(s, i + 1, b, "qp")
            ELSE (c = HT \/ c = SP \/ c = 33 \/ (c >= 35 /\ c <= 91) \/ (c >= 93 /\ c <= 126) \/ IsObs(c)) /\ ExtWF(s, i + 1, b, "q"))
      ELSE IF st = "qp" THEN (c = HT \/ c = SP \/ IsVchar(c) \/ IsObs(c)) /\ ExtWF(s, i + 1, b, "q")
      ELSE \* "aval"
           (IF IsWs(c) THEN ExtWF(s, i + 1, b, "aval") ELSE c = 59 /\ ExtWF(s, i + 1, b, "semi"))

RECURSIVE Chunks(_, _, _, _, _)
Chunks(s, L, q, body, opt) ==
    LET e == Eol(L, q) IN
    IF e = 0 THEN [st |-> "inc", opt |-> opt]
    ELSE LET semi == Find(s, q, e - 1, 59)
             rawEnd == IF semi = 0 THEN e - 1 ELSE semi - 1
             hexEnd == IF semi = 0 THEN rawEnd ELSE SkipWsR(s, q, rawEnd)      \* BWS before ";"
             sizeOK == hexEnd >= q /\ AllIn(s, q, hexEnd, IsHex)
             extOK == semi = 0 \/ AllIn(s, semi + 1, e - 1, IsExtChar)
         IN IF ~sizeOK \/ ~extOK THEN [st |-> "bad", need |-> TRUE]
            ELSE LET n == IF hexEnd - q + 1 > 7 THEN Huge ELSE HexV(s, q, hexEnd)
                     \* BWS before ";" and extensions that are not well-formed (but made of octets an
                     \* extension can contain): the implementation may refuse or ignore them
                     \* A quoted-pair inside a quoted extension value is well-formed, but a server may bound what
                     \* extensions it takes and answer 4xx (RFC 9112 7.1.1): refuse or ignore.
                     opt2 == opt \/ hexEnd # rawEnd
                                 \/ (semi # 0 /\ (~ExtWF(s, semi + 1, e - 1, "semi") \/ Find(s, semi + 1, e - 1, 92) # 0))
                 IN IF n = 0 THEN Trailers(s, L, e + 2, body, opt2)
                    ELSE IF Len(s) < e + 1 + n + 2 THEN [st |-> "inc", opt |-> opt2]
                    ELSE IF s[e + 2 + n] = CR /\ s[e + 3 + n] = LF
                         THEN Chunks(s, L, e + 4 + n, body \o SubSeq(s, e + 2, e + 1 + n), opt2)
                         ELSE [st |-> "bad", need |-> TRUE]

ConnTokens(fs) == AllElems(ValuesOf(fs, B_connection), 1)
HasTok(toks, t) == \E i \in 1..Len(toks) : toks[i] = t
Closes(fs, ver) == IF ver = B_HTTP11 THEN (IF HasTok(ConnTokens(fs), B_close) THEN "yes" ELSE "no")
                   ELSE IF ver = B_HTTP10 /\ HasTok(ConnTokens(fs), B_keep_alive) /\ ~HasTok(ConnTokens(fs), B_close) THEN "either"
                   ELSE "yes"
Expects100(fs, ver) == ver = B_HTTP11 /\ \E i \in 1..Len(fs) : fs[i].n = B_expect /\ LowerSeq(Trim(fs[i].v)) = B_100_continue

(* One request starting at p (p is not at an empty line).
   [st |-> "inc", opt, e100] | [st |-> "bad", need, e100] | [st |-> "ok", opt, m, t, v, fs, body, next, e100, closes] *)
ReqAt(s, L, p) ==
    LET e == Eol(L, p) IN
    IF e = 0 THEN [st |-> "inc", opt |-> FALSE, e100 |-> FALSE]
    ELSE LET rl == RequestLine(s, p, e - 1) IN
    IF rl.c = "bad" THEN [st |-> "bad", need |-> Eol(L, e + 2) # 0, e100 |-> FALSE]
    ELSE LET h == Fields(s, L, e + 2, <<>>, rl.c = "opt") IN
    IF h.st = "inc" THEN
        \* the fields seen so far may already make the framing invalid for good: 400 allowed, not yet required
        (IF Framing(h.fs, rl.v).k = "bad" THEN [st |-> "bad", need |-> FALSE, e100 |-> FALSE]
         ELSE [st |-> "inc", opt |-> h.opt, e100 |-> FALSE])
    ELSE IF h.st = "bad" THEN [st |-> "bad", need |-> h.need, e100 |-> FALSE]
    ELSE LET fr == Framing(h.fs, rl.v)
             e100 == Expects100(h.fs, rl.v)
             cls == Closes(h.fs, rl.v)
         IN
    IF fr.k = "bad" THEN [st |-> "bad", need |-> TRUE, e100 |-> FALSE]
    ELSE LET opt == h.opt \/ fr.opt IN
    IF fr.k = "none" THEN
        [st |-> "ok", opt |-> opt, m |-> rl.m, t |-> rl.t, v |-> rl.v, fs |-> h.fs, body |-> <<>>,
         next |-> h.next, e100 |-> e100, closes |-> cls]
    ELSE IF fr.k = "len" THEN
        (IF Len(s) - h.next + 1 < fr.n THEN [st |-> "inc", opt |-> opt, e100 |-> e100]
         ELSE [st |-> "ok", opt |-> opt, m |-> rl.m, t |-> rl.t, v |-> rl.v, fs |-> h.fs,
               body |-> Sub(s, h.next, h.next + fr.n - 1), next |-> h.next + fr.n, e100 |-> e100, closes |-> cls])
    ELSE LET c == Chunks(s, L, h.next, <<>>, FALSE) IN
        IF c.st = "inc" THEN [st |-> "inc", opt |-> opt \/ c.opt, e100 |-> e100]
        ELSE IF c.st = "bad" THEN [st |-> "bad", need |-> c.need, e100 |-> e100]
        ELSE [st |-> "ok", opt |-> opt \/ c.opt, m |-> rl.m, t |-> rl.t, v |-> rl.v, fs |-> h.fs,
              body |-> c.body, next |-> c.next, e100 |-> e100, closes |-> cls]

-----------------------------------------------------------------------------
(* Field lines as the application sees them: grouped by (lower-cased) name in order of first
   appearance, values of one name in stream order (the order HTTP makes significant).        *)
RECURSIVE NamesOf(_, _, _)
NamesOf(fs, i, seen) == IF i > Len(fs) THEN <<>>
                        ELSE IF fs[i].n \in seen THEN NamesOf(fs, i + 1, seen)
                        ELSE <<fs[i].n>> \o NamesOf(fs, i + 1, seen \cup {fs[i].n})
RECURSIVE GroupBy(_, _, _)
GroupBy(fs, names, i) == IF i > Len(names) THEN <<>> ELSE ValuesOf(fs, names[i]) \o GroupBy(fs, names, i + 1)
Grouped(fs) == GroupBy(fs, NamesOf(fs, 1, {}), 1)

\* a delivered value against a reference field: exact, except where the implementation may have
\* unfolded / replaced octets (then whitespace runs are not compared)
ValEq(real, f) ==
    IF f.fl \cap {"fold", "repl"} = {} THEN real = f.v
    ELSE Collapse(ReplBad(real)) = Collapse(ReplBad(f.v))

(* Server outputs.  An output item is [k |-> "req", m, t, v, h, b] (request handed to the application,
   h = sequence of <<name, value>>), [k |-> "raw", w] (octets the server wrote on its own),
   [k |-> "app"] (octets written by the application for the request it holds -- not compared).  *)
Code(w) == IF Len(w) >= 12 /\ SubSeq(w, 1, 5) = B_HTTPSLASH /\ w[9] = SP
              /\ IsDigit(w[10]) /\ IsDigit(w[11]) /\ IsDigit(w[12])
           THEN (w[10] - 48) * 100 + (w[11] - 48) * 10 + (w[12] - 48) ELSE 0
IsRaw(o, k, code) == k <= Len(o) /\ o[k].k = "raw" /\ Code(o[k].w) = code
Skip100(o, k, allowed) == IF allowed /\ IsRaw(o, k, 100) THEN k + 1 ELSE k
\* the request is refused: 400 is the last thing that happens; not yet required while need is false
Rej(o, k, need) == (k = Len(o) /\ IsRaw(o, k, 400)) \/ (~need /\ k > Len(o))

ReqMatches(it, r) ==
    /\ it.m = r.m /\ it.t = r.t /\ it.v = r.v /\ it.b = r.body
    /\ LET g == Grouped(r.fs) IN
       /\ Len(it.h) = Len(g)
       /\ \A i \in 1..Len(g) : LowerSeq(it.h[i][1]) = g[i].n /\ ValEq(it.h[i][2], g[i])

(* Ex(s, L, p, o, k): the outputs o[k..] are what RFC 9112 allows for the octets s[p..]. *)
RECURSIVE Ex(_, _, _, _, _)
Ex(s, L, p, o, k) ==
    IF p > Len(s) THEN k > Len(o)
    ELSE IF p < Len(s) /\ s[p] = CR /\ s[p + 1] = LF THEN
        \* empty line where a request line is expected: ignore it, or refuse it
        Ex(s, L, p + 2, o, k) \/ Rej(o, k, Eol(L, p + 2) # 0)
    ELSE LET r == ReqAt(s, L, p)
             k2 == Skip100(o, k, r.e100)
         IN IF r.st = "inc" THEN k2 > Len(o) \/ (r.opt /\ Rej(o, k, FALSE))
            ELSE IF r.st = "bad" THEN Rej(o, k2, r.need)
            ELSE \/ (r.opt /\ Rej(o, k2, TRUE))
                 \/ /\ k2 <= Len(o) /\ o[k2].k = "req" /\ ReqMatches(o[k2], r)
                    /\ IF r.closes = "yes" THEN k2 = Len(o)
                       ELSE IF r.closes = "either" THEN k2 = Len(o) \/ Ex(s, L, r.next, o, k2 + 1)
                       ELSE Ex(s, L, r.next, o, k2 + 1)

NotApp(o) == SelectSeq(o, LAMBDA x : x.k # "app")
Explains(s, o) == Ex(s, CrLfs(s), 1, NotApp(o), 1)

(* The deterministic reading (every implementation-defined choice taken as "accept", no
   empty line skipped more than the grammar needs): complete requests of s in order,
   stopping at the first incomplete / refused request or at a closing one.  Used by the
   model-checked consistency properties of this reference.                              *)
RECURSIVE RequestsFrom(_, _, _)
RequestsFrom(s, L, p) ==
    IF p > Len(s) THEN <<>>
    ELSE IF p < Len(s) /\ s[p] = CR /\ s[p + 1] = LF THEN RequestsFrom(s, L, p + 2)
    ELSE LET r == ReqAt(s, L, p) IN
         IF r.st # "ok" THEN <<>>
         ELSE <<r>> \o (IF r.closes = "yes" THEN <<>> ELSE RequestsFrom(s, L, r.next))
Requests(s) == RequestsFrom(s, CrLfs(s), 1)
RECURSIVE VerdictFrom(_, _, _)
VerdictFrom(s, L, p) ==       \* "inc" | "bad" | "closed" | "end" after the complete requests
    IF p > Len(s) THEN "end"
    ELSE IF p < Len(s) /\ s[p] = CR /\ s[p + 1] = LF THEN VerdictFrom(s, L, p + 2)
    ELSE LET r == ReqAt(s, L, p) IN
         IF r.st # "ok" THEN r.st
         ELSE IF r.closes = "yes" THEN "closed" ELSE VerdictFrom(s, L, r.next)
Verdict(s) == VerdictFrom(s, CrLfs(s), 1)
=============================================================================
