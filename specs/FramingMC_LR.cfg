SPECIFICATION MCSpec
CONSTANT L = 4
CONSTANT Kind = "LR"
VIEW View
INVARIANT Ok
INVARIANT Inv
CHECK_DEADLOCK FALSE
