SPECIFICATION MCSpec
CONSTANT L = 4
CONSTANT Kind = "LR"
CONSTANT LOBound = "asis"
VIEW View
INVARIANT Ok
INVARIANT Inv
CHECK_DEADLOCK FALSE
