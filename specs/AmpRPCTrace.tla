---------------------------- MODULE AmpRPCTrace ----------------------------
(* Batched trace validation for C31: every recorded run of two real AMP peers over the
   scheduler-controlled in-memory network must be a behaviour of AmpRPC, with the complete
   ordered observation list of every step (responder invocations, Deferred firings with
   class and value, transport writes with size, loseConnection calls) matched.            *)
EXTENDS AmpRPC, TLC, Json, IOUtils

Traces == JsonDeserialize(IOEnv.TRACE_FILE)
VARIABLES tid, l
ASSUME \A t \in 1..Len(Traces) : TLCSet(t, 1)

T == Traces[tid]
E == T.ev[l]

TInit == /\ tid \in 1..Len(Traces) /\ l = 1
         /\ InitWith([wac |-> Traces[tid].cfg.wac])

WSof(obs) == LET w == SelectSeq(obs, LAMBDA o : o[1] = "wr") IN [i \in 1..Len(w) |-> w[i][4]]
QCof(obs) == \E i \in 1..Len(obs) : obs[i][1] = "lose"
OrdOf(obs) == LET old == SelectSeq(obs, LAMBDA o : o[2] <= ncall) IN [i \in 1..Len(old) |-> old[i][2]]   \* calls that existed before the step

Matches == last'.e = E.e /\ last'.obs = E.obs

Step(A) == /\ l <= Len(T.ev) /\ A /\ Matches /\ Inv' /\ l' = l + 1 /\ UNCHANGED tid

TNext == \/ (E.e = "call" /\ E.k \in Kinds /\ E.p \in Peers /\ Step(Call(E.p, E.k, E.f, WSof(E.obs))))
         \/ (E.e = "deliver" /\ E.p \in Peers /\ Step(Deliver(E.p, E.n, WSof(E.obs), QCof(E.obs))))
         \/ (E.e = "fire" /\ Step(Fire(E.c, WSof(E.obs), QCof(E.obs))))
         \/ (E.e = "close" /\ E.p \in Peers /\ Step(UserClose(E.p)))
         \/ (E.e = "drop" /\ Step(Drop))
         \/ (E.e = "notify" /\ E.p \in Peers /\ Step(Notify(E.p, E.r, OrdOf(E.obs))))

TSpec == TInit /\ [][l <= Len(T.ev) /\ TNext]_<<vars, tid, l>>

Progress == TLCSet(tid, IF TLCGet(tid) > l THEN TLCGet(tid) ELSE l)
Rejected == {<<t, TLCGet(t)>> : t \in {u \in 1..Len(Traces) : TLCGet(u) # Len(Traces[u].ev) + 1}}
Accepted == Rejected = {} \/ (PrintT(<<"REJECTED", Rejected>>) /\ FALSE)
=============================================================================
