----------------------------- MODULE ClockImplMC -----------------------------
(* TLC: task.Clock's algorithm (ClockImpl) refines the abstract timer semantics (TimersAbs, "clock"). *)
EXTENDS ClockImpl, TLC
CONSTANTS MaxCalls, Ds, NegMax, MaxNow, Depth
NegDs == {0 - k : k \in 1..NegMax}

Init == \E n \in BOOLEAN : IInitWith([flavour |-> "clock", neg |-> n])

NCallLater     == \E d \in Ds : ICallLater(d)
NCancelOk      == \E i \in 1..N : ICancelOk(i)
NCancelRefused == \E i \in 1..N : ICancelRefused(i)
NResetOk       == \E i \in 1..N, d \in Ds : IResetOk(i, d)
NResetRefused  == \E i \in 1..N : IResetRefused(i, 1)
NDelayOk       == \E i \in 1..N, d \in Ds \cup NegDs : IDelayOk(i, d)
NDelayRefused  == \E i \in 1..N : IDelayRefused(i, 1)
NGdc           == IGdc
NAdvance       == \E d \in Ds : IAdvance(d)
NLoopRun       == ILoopRun
NRunEnd        == IRunEnd
NAdvanceEnd    == IAdvanceEnd

Next == \/ NCallLater \/ NCancelOk \/ NCancelRefused \/ NResetOk \/ NResetRefused
        \/ NDelayOk \/ NDelayRefused \/ NGdc \/ NAdvance \/ NLoopRun \/ NRunEnd \/ NAdvanceEnd
Spec == Init /\ [][Next]_ivars

View == <<cfg, now, cs, lst, iter, pc, running>>
Bound == N <= MaxCalls /\ now <= MaxNow /\ TLCGet("level") <= Depth

A == INSTANCE TimersAbs
Refines == [][\/ UNCHANGED A!avars
              \/ (last'.e = "later"   /\ A!CallLater(last'.d))
              \/ (last'.e = "cancel"  /\ (A!CancelOk(last'.id) \/ A!CancelRefused(last'.id)))
              \/ (last'.e = "reset"   /\ (A!ResetOk(last'.id, last'.d) \/ A!ResetRefused(last'.id, last'.d)))
              \/ (last'.e = "delay"   /\ (A!DelayOk(last'.id, last'.d) \/ A!DelayRefused(last'.id, last'.d)))
              \/ (last'.e = "gdc"     /\ A!Gdc)
              \/ (last'.e = "adv"     /\ A!AdvanceClock(last'.d))
              \/ (last'.e = "run"     /\ A!RunBegin(last'.id))
              \/ (last'.e = "ret"     /\ A!RunEnd)
              \/ (last'.e = "iterend" /\ A!IterEnd)]_ivars
=============================================================================
