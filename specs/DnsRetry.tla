------------------------------- MODULE DnsRetry -------------------------------
(* Extension X15 -- twisted.names.client.Resolver query scheduling (lookupAddress -> _lookup -> queryUDP ->
   _reissue -> filterAnswers -> queryTCP) together with the per-attempt dns.DNSDatagramProtocol and the
   dns.DNSProtocol TCP connections, on a stepped clock.

   A *handle* is one Deferred returned to a caller.  A *job* is the network activity for one name: the first
   lookup of a name starts it, lookups of the same name while it is outstanding piggy-back on it.  A job sends
   UDP *attempts*: attempt k (1-based) goes to server ((k-1) mod ns)+1 with timeout T[((k-1) div ns)+1] -- every
   server is tried with T[1], then every server with T[2], ... -- always with the id chosen for attempt 1, each
   from a port of its own, which is closed when the attempt is answered or times out.  After ns*Len(T)
   attempts the job fails with TimeoutError.  A truncated answer moves the job to TCP (a connection is opened
   if none is up; the query waits in `pend`), where it has a fixed 10 s timeout and no retry.

   Time: Advance(d) only moves the clock; every delayed call that is due is then run by its own Fire step,
   earliest deadline first, insertion order among equals (task.Clock), and nothing else happens before the
   due calls are drained.

   Deliberate deviations from what one might expect (the code does this; see notes/X15.md "Oddities"):
   answers are matched by (port, id) only -- the source address is not looked at (field `spoof` of a reply is
   ignored by the spec); ids are unique per port / per TCP connection only, so two jobs may use the same id
   concurrently; pickServer() pre-increments, so the first TCP connection goes to the *second* server; every
   truncated answer that finds no connection up opens one more connection; one failed connection attempt
   fails every pending TCP query; nobody ever closes a TCP connection; the TCP leg has its own fixed timeout
   and ends with DNSQueryTimeoutError while the UDP schedule ends with plain TimeoutError.                 *)
EXTENDS Naturals, Integers, Sequences, FiniteSets, TLC

TcpTimeout == 10
VARIABLES cfg,      \* [ns |-> number of servers, T |-> timeout sequence, idmax |-> size of the id space]
          now,
          hs,       \* handles: seq of [name, job, res]    res = <<"none",0>> | <<"ok",r>> | <<ExceptionName,0>>
          jobs,     \* seq of [name, hs (originator first), id, k (attempts made), stage, t0, tn (name asked over TCP)]
          att,      \* UDP attempts = ports = datagrams: seq of [job, srv, id, k, t, open]
          timers,   \* pending delayed calls in insertion order: [k |-> "udp"|"tcp", ref, at]
          rr,       \* Resolver.index (pickServer round robin)
          conns,    \* TCP connection attempts in connectTCP order: [srv, st]  st: connecting|up|failed|lost
          up,       \* Resolver.connections (order of connectionMade)
          pend,     \* Resolver.pending: jobs waiting for a TCP connection
          tq,       \* TCP queries written: [job, conn, id, live]
          last      \* observation of the last step
vars == <<cfg, now, hs, jobs, att, timers, rr, conns, up, pend, tq, last>>

None2 == <<"none", 0>>
Ids == 1..cfg.idmax
MaxAtt == cfg.ns * Len(cfg.T)
SrvOf(k) == ((k - 1) % cfg.ns) + 1
ToOf(k) == cfg.T[((k - 1) \div cfg.ns) + 1]
Range(s) == {s[i] : i \in DOMAIN s}
RemoveAt(s, i) == SubSeq(s, 1, i - 1) \o SubSeq(s, i + 1, Len(s))
RECURSIVE SumSeq(_)
SumSeq(s) == IF s = <<>> THEN 0 ELSE Head(s) + SumSeq(Tail(s))

ErrName(rc) == CASE rc = 1 -> "DNSFormatError" [] rc = 2 -> "DNSServerError" [] rc = 3 -> "DNSNameError"
                 [] rc = 4 -> "DNSNotImplementedError" [] rc = 5 -> "DNSQueryRefusedError" [] OTHER -> "DNSUnknownError"

Obs0(e) == [e |-> e, sent |-> <<>>, closed |-> <<>>, connects |-> <<>>, tcpsent |-> <<>>, fired |-> <<>>, unexpected |-> 0]

InitWith(c) ==
    /\ cfg = c /\ now = 0 /\ hs = <<>> /\ jobs = <<>> /\ att = <<>> /\ timers = <<>> /\ rr = 0
    /\ conns = <<>> /\ up = <<>> /\ pend = <<>> /\ tq = <<>> /\ last = Obs0("init")

Due == {i \in DOMAIN timers : timers[i].at <= now}
Quiet == Due = {}
NextDue == CHOOSE i \in Due : \A j \in Due : timers[i].at < timers[j].at \/ (timers[i].at = timers[j].at /\ i <= j)
RemoveTimer(k, ref) == RemoveAt(timers, CHOOSE i \in DOMAIN timers : timers[i].k = k /\ timers[i].ref = ref)
Active(n) == {j \in DOMAIN jobs : jobs[j].name = n /\ jobs[j].stage # "done"}
LiveIds(c, q) == {q[x].id : x \in {y \in DOMAIN q : q[y].live /\ q[y].conn = c}}

(* cbResult: the piggy-backed handles fire first, in order, then the originator *)
FiredSeq(j, rv) == LET h == jobs[j].hs IN [i \in 1..Len(h) |-> <<IF i < Len(h) THEN h[i + 1] ELSE h[1], rv[1], rv[2]>>]
RECURSIVE FiredCat(_, _)
FiredCat(js, rv) == IF js = <<>> THEN <<>> ELSE FiredSeq(Head(js), rv) \o FiredCat(Tail(js), rv)

(* B = [tm |-> timers after the caller's cancellation, tq |-> tq after the caller's update] *)
CompleteMany(js, rv, B, obs) ==
    LET H == UNION {Range(jobs[js[i]].hs) : i \in DOMAIN js} IN
    /\ hs' = [h \in DOMAIN hs |-> IF h \in H THEN [hs[h] EXCEPT !.res = rv] ELSE hs[h]]
    /\ jobs' = [j \in DOMAIN jobs |-> IF j \in Range(js) THEN [jobs[j] EXCEPT !.stage = "done"] ELSE jobs[j]]
    /\ timers' = B.tm /\ tq' = B.tq
    /\ last' = [obs EXCEPT !.fired = FiredCat(js, rv)]
Complete(j, rv, B, obs) == CompleteMany(<<j>>, rv, B, obs) /\ UNCHANGED <<rr, conns, pend>>

(* Resolver.queryTCP(message.queries) for job j: the question section qn of the truncated *response* is what is asked over TCP *)
QueryTCP(j, qn, B, obs) ==
    IF up = <<>>
      THEN LET r2 == (rr + 1) % cfg.ns IN
           /\ rr' = r2
           /\ conns' = Append(conns, [srv |-> r2 + 1, st |-> "connecting"])
           /\ pend' = Append(pend, j)
           /\ jobs' = [jobs EXCEPT ![j].stage = "pend", ![j].tn = qn]
           /\ timers' = B.tm /\ tq' = B.tq
           /\ last' = [obs EXCEPT !.connects = <<r2 + 1>>]
           /\ UNCHANGED hs
      ELSE LET c == Head(up) IN
           \E i \in Ids \ LiveIds(c, B.tq) :
             /\ tq' = Append(B.tq, [job |-> j, conn |-> c, id |-> i, live |-> TRUE])
             /\ timers' = Append(B.tm, [k |-> "tcp", ref |-> Len(B.tq) + 1, at |-> now + TcpTimeout])
             /\ jobs' = [jobs EXCEPT ![j].stage = "tcp", ![j].tn = qn]
             /\ last' = [obs EXCEPT !.tcpsent = << <<c, i, qn>> >>]
             /\ UNCHANGED <<hs, rr, conns, pend>>

(* Resolver.filterAnswers on a matching answer *)
FilterAnswers(j, kind, rc, v, qn, B, obs) ==
    CASE kind = "ok"    -> Complete(j, <<"ok", v>>, B, obs)
      [] kind = "err"   -> Complete(j, <<ErrName(rc), 0>>, B, obs)
      [] kind = "trunc" -> QueryTCP(j, qn, B, obs)
-----------------------------------------------------------------------------
(* resolver.lookupAddress(name n, timeout = cfg.T) *)
Lookup(n) ==
    /\ Quiet
    /\ IF Active(n) # {}
         THEN LET j == CHOOSE j \in Active(n) : TRUE IN
              /\ hs' = Append(hs, [name |-> n, job |-> j, res |-> None2])
              /\ jobs' = [jobs EXCEPT ![j].hs = Append(@, Len(hs) + 1)]
              /\ last' = Obs0("lookup")
              /\ UNCHANGED <<att, timers>>
         ELSE \E i \in Ids :
              LET j == Len(jobs) + 1   a == Len(att) + 1 IN
              /\ hs' = Append(hs, [name |-> n, job |-> j, res |-> None2])
              /\ jobs' = Append(jobs, [name |-> n, hs |-> <<Len(hs) + 1>>, id |-> i, k |-> 1, stage |-> "udp", t0 |-> now, tn |-> n])
              /\ att' = Append(att, [job |-> j, srv |-> 1, id |-> i, k |-> 1, t |-> now, open |-> TRUE])
              /\ timers' = Append(timers, [k |-> "udp", ref |-> a, at |-> now + ToOf(1)])
              /\ last' = [Obs0("lookup") EXCEPT !.sent = << <<a, 1, i, n>> >>]
    /\ UNCHANGED <<cfg, now, rr, conns, up, pend, tq>>

(* a datagram with id i, question section qn (and, if kind = "ok", an answer record with payload v) arrives at the port of attempt a *)
Reply(a, i, kind, rc, v, qn) ==
    /\ Quiet /\ a \in DOMAIN att
    /\ IF ~att[a].open \/ kind = "garbage"          \* closed port: the OS drops it; undecodable: ignored
         THEN /\ last' = Obs0("reply")
              /\ UNCHANGED <<hs, jobs, att, timers, rr, conns, pend, tq>>
         ELSE IF att[a].id # i                       \* unknown id: handed to Resolver.messageReceived, which logs it
         THEN /\ last' = [Obs0("reply") EXCEPT !.unexpected = 1]
              /\ UNCHANGED <<hs, jobs, att, timers, rr, conns, pend, tq>>
         ELSE /\ att' = [att EXCEPT ![a].open = FALSE]
              /\ FilterAnswers(att[a].job, kind, rc, v, qn, [tm |-> RemoveTimer("udp", a), tq |-> tq],
                               [Obs0("reply") EXCEPT !.closed = <<a>>])
    /\ UNCHANGED <<cfg, now, up>>

Advance(d) ==
    /\ Quiet /\ d \in Nat
    /\ now' = now + d
    /\ last' = Obs0("advance")
    /\ UNCHANGED <<cfg, hs, jobs, att, timers, rr, conns, up, pend, tq>>

(* the earliest due delayed call runs *)
FireUdp(t, tm) ==
    LET a == t.ref   j == att[a].job   k == jobs[j].k   closed == [att EXCEPT ![a].open = FALSE]
        obs == [Obs0("fire") EXCEPT !.closed = <<a>>] IN
    IF k = MaxAtt
      THEN /\ att' = closed
           /\ Complete(j, <<"TimeoutError", 0>>, [tm |-> tm, tq |-> tq], obs)
      ELSE LET b == Len(att) + 1 IN
           /\ att' = Append(closed, [job |-> j, srv |-> SrvOf(k + 1), id |-> jobs[j].id, k |-> k + 1, t |-> now, open |-> TRUE])
           /\ timers' = Append(tm, [k |-> "udp", ref |-> b, at |-> now + ToOf(k + 1)])
           /\ jobs' = [jobs EXCEPT ![j].k = k + 1]
           /\ last' = [obs EXCEPT !.sent = << <<b, SrvOf(k + 1), jobs[j].id, jobs[j].name>> >>]
           /\ UNCHANGED <<hs, rr, conns, pend, tq>>
FireTcp(t, tm) ==
    /\ Complete(tq[t.ref].job, <<"DNSQueryTimeoutError", 0>>, [tm |-> tm, tq |-> [tq EXCEPT ![t.ref].live = FALSE]], Obs0("fire"))
    /\ UNCHANGED att
Fire ==
    /\ ~Quiet
    /\ LET t == timers[NextDue]   tm == RemoveAt(timers, NextDue) IN
       IF t.k = "udp" THEN FireUdp(t, tm) ELSE FireTcp(t, tm)
    /\ UNCHANGED <<cfg, now, up>>

(* TCP connection attempt c succeeds: every pending query is written to connections[0] *)
ConnUp(c) ==
    /\ Quiet /\ c \in DOMAIN conns /\ conns[c].st = "connecting"
    /\ conns' = [conns EXCEPT ![c].st = "up"]
    /\ up' = Append(up, c)
    /\ pend' = <<>>
    /\ LET tgt == Head(Append(up, c))   m == Len(pend) IN
       \E f \in [1..m -> Ids] :
         /\ \A x, y \in 1..m : x # y => f[x] # f[y]
         /\ \A x \in 1..m : f[x] \notin LiveIds(tgt, tq)
         /\ tq' = tq \o [x \in 1..m |-> [job |-> pend[x], conn |-> tgt, id |-> f[x], live |-> TRUE]]
         /\ timers' = timers \o [x \in 1..m |-> [k |-> "tcp", ref |-> Len(tq) + x, at |-> now + TcpTimeout]]
         /\ jobs' = [j \in DOMAIN jobs |-> IF j \in Range(pend) THEN [jobs[j] EXCEPT !.stage = "tcp"] ELSE jobs[j]]
         /\ last' = [Obs0("connup") EXCEPT !.tcpsent = [x \in 1..m |-> <<tgt, f[x], jobs[pend[x]].tn>>]]
    /\ UNCHANGED <<cfg, now, hs, att, rr>>

(* TCP connection attempt c fails: EVERY pending query fails with the reason *)
ConnFail(c) ==
    /\ Quiet /\ c \in DOMAIN conns /\ conns[c].st = "connecting"
    /\ conns' = [conns EXCEPT ![c].st = "failed"]
    /\ pend' = <<>>
    /\ CompleteMany(pend, <<"ConnectionRefusedError", 0>>, [tm |-> timers, tq |-> tq], Obs0("connfail"))
    /\ UNCHANGED <<cfg, now, att, rr, up>>

(* an established TCP connection closes: its live queries are left to their timers *)
ConnLost(c) ==
    /\ Quiet /\ c \in DOMAIN conns /\ conns[c].st = "up"
    /\ conns' = [conns EXCEPT ![c].st = "lost"]
    /\ up' = SelectSeq(up, LAMBDA x : x # c)
    /\ last' = Obs0("connlost")
    /\ UNCHANGED <<cfg, now, hs, jobs, att, timers, rr, pend, tq>>

(* a message with id i arrives on established connection c *)
TcpReply(c, i, kind, rc, v, qn) ==
    /\ Quiet /\ c \in DOMAIN conns /\ conns[c].st = "up"
    /\ LET Q == {q \in DOMAIN tq : tq[q].live /\ tq[q].conn = c /\ tq[q].id = i} IN
       IF Q = {}
         THEN /\ last' = [Obs0("tcpreply") EXCEPT !.unexpected = 1]
              /\ UNCHANGED <<hs, jobs, timers, rr, conns, pend, tq>>
         ELSE LET q == CHOOSE q \in Q : TRUE IN
              FilterAnswers(tq[q].job, kind, rc, v, qn, [tm |-> RemoveTimer("tcp", q), tq |-> [tq EXCEPT ![q].live = FALSE]], Obs0("tcpreply"))
    /\ UNCHANGED <<cfg, now, att, up>>

(* end of a recorded history: nothing may still be due *)
End == Quiet /\ last' = Obs0("end") /\ UNCHANGED <<cfg, now, hs, jobs, att, timers, rr, conns, up, pend, tq>>

MCNames == 1..2
\* (no-op variants pruned: one wrong-id, one garbage, one closed-port datagram per attempt; one unknown-id TCP message)
ReplyAny == \E a \in DOMAIN att, i \in Ids, kind \in {"ok", "err", "trunc", "garbage"} :
              /\ (i # att[a].id \/ ~att[a].open) => kind = "ok"
              /\ kind = "garbage" => i = att[a].id
              /\ ~att[a].open => (a = 1 /\ i = att[a].id)
              /\ Reply(a, i, kind, IF kind = "err" THEN 3 ELSE 0, 7, jobs[att[a].job].name)      \* a sane server echoes the question
TcpReplyAny == \E c \in DOMAIN conns, i \in Ids, kind \in {"ok", "err", "trunc"} :
              /\ (i \notin LiveIds(c, tq)) => kind = "ok"
              /\ LET Q == {q \in DOMAIN tq : tq[q].live /\ tq[q].conn = c /\ tq[q].id = i} IN
                 TcpReply(c, i, kind, IF kind = "err" THEN 2 ELSE 0, 8, IF Q = {} THEN 1 ELSE jobs[tq[CHOOSE q \in Q : TRUE].job].tn)
LookupAny == \E n \in MCNames : Lookup(n)
AdvanceAny == \E d \in {1} \cup {timers[x].at - now : x \in DOMAIN timers} : Advance(d)     \* one tick, or up to some deadline
ConnUpAny == \E c \in DOMAIN conns : ConnUp(c)
ConnFailAny == \E c \in DOMAIN conns : ConnFail(c)
ConnLostAny == \E c \in DOMAIN conns : ConnLost(c)
Next == LookupAny \/ ReplyAny \/ AdvanceAny \/ Fire \/ ConnUpAny \/ ConnFailAny \/ ConnLostAny \/ TcpReplyAny
-----------------------------------------------------------------------------
(* What a user relies on *)
AttOf(j) == {a \in DOMAIN att : att[a].job = j}
OpenOf(j) == {a \in AttOf(j) : att[a].open}
LiveOf(j) == {q \in DOMAIN tq : tq[q].job = j /\ tq[q].live}
InPend(j) == {x \in DOMAIN pend : pend[x] = j}

\* a job is in exactly one place: one open UDP port, or waiting for a connection, or one live TCP query, or finished
OnePlace == \A j \in DOMAIN jobs :
    /\ Cardinality(OpenOf(j)) = (IF jobs[j].stage = "udp" THEN 1 ELSE 0)
    /\ Cardinality(InPend(j)) = (IF jobs[j].stage = "pend" THEN 1 ELSE 0)
    /\ Cardinality(LiveOf(j)) = (IF jobs[j].stage = "tcp" THEN 1 ELSE 0)

\* a handle has a result iff its job is finished; all handles of a job carry the same result
ResultIffDone == \A h \in DOMAIN hs :
    /\ (hs[h].res # None2) = (jobs[hs[h].job].stage = "done")
    /\ hs[h].res = hs[jobs[hs[h].job].hs[1]].res
    /\ \E x \in DOMAIN jobs[hs[h].job].hs : jobs[hs[h].job].hs[x] = h

\* no leak: every delayed call belongs to an open port / live TCP query and each of those has exactly one; a finished
\* job holds nothing; when every handle has its result, no timer and no open port is left
TimerSound ==
    /\ \A x \in DOMAIN timers : IF timers[x].k = "udp" THEN att[timers[x].ref].open ELSE tq[timers[x].ref].live
    /\ \A a \in DOMAIN att : att[a].open => Cardinality({x \in DOMAIN timers : timers[x].k = "udp" /\ timers[x].ref = a}) = 1
    /\ \A q \in DOMAIN tq : tq[q].live => Cardinality({x \in DOMAIN timers : timers[x].k = "tcp" /\ timers[x].ref = q}) = 1
NoLeak == (\A h \in DOMAIN hs : hs[h].res # None2) => (timers = <<>> /\ pend = <<>> /\ \A a \in DOMAIN att : ~att[a].open)

\* retransmission schedule: the k-th datagram of a job goes to server ((k-1) mod ns)+1 with the job's id, its timer
\* is exactly the k-th timeout of the schedule, and never more than ns*Len(T) datagrams are sent
Schedule == \A a \in DOMAIN att :
    LET j == att[a].job   k == att[a].k IN
    /\ k = Cardinality({b \in AttOf(j) : b <= a}) /\ k <= MaxAtt /\ k <= jobs[j].k
    /\ att[a].srv = SrvOf(k) /\ att[a].id = jobs[j].id
    /\ att[a].open => \E x \in DOMAIN timers : timers[x].k = "udp" /\ timers[x].ref = a /\ timers[x].at = att[a].t + ToOf(k)
\* TimeoutError only after the whole schedule was tried, never early
TimeoutAfterAll == \A h \in DOMAIN hs : hs[h].res[1] = "TimeoutError" =>
    /\ jobs[hs[h].job].k = MaxAtt /\ Cardinality(AttOf(hs[h].job)) = MaxAtt
    /\ now >= jobs[hs[h].job].t0 + cfg.ns * SumSeq(cfg.T)
\* at most one outstanding job per name (the birthday-attack defence of _waiting)
OnePerName == \A j1, j2 \in DOMAIN jobs : (j1 # j2 /\ jobs[j1].name = jobs[j2].name) => (jobs[j1].stage = "done" \/ jobs[j2].stage = "done")
\* ids in flight on one TCP connection are unique
TcpIdsUnique == \A q1, q2 \in DOMAIN tq : (q1 # q2 /\ tq[q1].live /\ tq[q2].live /\ tq[q1].conn = tq[q2].conn) => tq[q1].id # tq[q2].id
\* a query waiting for TCP always has a connection attempt in flight and no connection is up
PendHasConn == pend # <<>> => (up = <<>> /\ \E c \in DOMAIN conns : conns[c].st = "connecting")
UpSound == \A c \in DOMAIN conns : (conns[c].st = "up") = (c \in Range(up))
Inv == OnePlace /\ ResultIffDone /\ TimerSound /\ NoLeak /\ Schedule /\ TimeoutAfterAll /\ OnePerName /\ TcpIdsUnique /\ PendHasConn /\ UpSound

\* exactly once: a result never changes, and the handles reported as fired in a step are exactly those that got their
\* result in that step, each once
ExactlyOnceStep ==
    /\ \A h \in DOMAIN hs : hs[h].res # None2 => hs'[h].res = hs[h].res
    /\ LET got == {h \in DOMAIN hs' : hs'[h].res # None2 /\ (h \notin DOMAIN hs \/ hs[h].res = None2)} IN
       /\ got = {last'.fired[x][1] : x \in DOMAIN last'.fired}
       /\ Cardinality(got) = Len(last'.fired)
       /\ \A x \in DOMAIN last'.fired : hs'[last'.fired[x][1]].res = <<last'.fired[x][2], last'.fired[x][3]>>
ExactlyOnce == [][ExactlyOnceStep]_vars
\* an answer is only ever delivered for a datagram/message carrying the id that was sent on that very port/connection
\* (by construction of Reply/TcpReply); time never goes back
TimeMonotone == [][now' >= now]_vars
=============================================================================
