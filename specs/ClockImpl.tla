------------------------------ MODULE ClockImpl ------------------------------
(* C09 -- task.Clock as coded (src/twisted/internet/task.py) with the DelayedCall of base.py:

     lst      Clock.calls : list of pending DelayedCalls; callLater appends and stable-sorts by
              getTime(); cancel removes; reset/delay only change the DelayedCall (the resetter is a
              no-op), order is re-established by the sort in callLater / advance
     advance  rightNow += d; sort; while calls[0].getTime() <= now: pop(0); call; sort

   ClockImplMC checks that this refines TimersAbs (flavour "clock").                                  *)
EXTENDS Naturals, Integers, Sequences, FiniteSets

VARIABLES cfg, now, cs, lst, iter, pc, running, last
ivars == <<cfg, now, cs, lst, iter, pc, running, last>>

N == Len(cs)
SeqSet(s) == {s[k] : k \in 1..Len(s)}
GetTime(c, i) == c[i].time + c[i].dt

(* list.sort(key=getTime): stable; transcribed as insertion sort from the left *)
RECURSIVE InsertSorted(_, _, _)
InsertSorted(s, c, x) ==            \* s sorted; x goes after every element with key <= key(x)
    IF s = <<>> THEN <<x>>
    ELSE IF GetTime(c, Head(s)) <= GetTime(c, x) THEN <<Head(s)>> \o InsertSorted(Tail(s), c, x)
         ELSE <<x>> \o s
RECURSIVE SortFrom(_, _, _)
SortFrom(done, rest, c) == IF rest = <<>> THEN done ELSE SortFrom(InsertSorted(done, c, Head(rest)), Tail(rest), c)
Sort(s, c) == SortFrom(<<>>, s, c)
Remove(s, x) == SelectSeq(s, LAMBDA y : y # x)

IInitWith(c) ==
    /\ cfg = c /\ now = 0 /\ cs = <<>> /\ lst = <<>> /\ iter = 0 /\ pc = "idle" /\ running = 0
    /\ last = [e |-> "init"]

UserCtx == pc = "idle" \/ running # 0
Live(i) == ~cs[i].canc /\ ~cs[i].called
Refused(i) == IF cs[i].canc THEN "AlreadyCancelled" ELSE "AlreadyCalled"

ICallLater(d) ==
    /\ UserCtx /\ d >= 0
    /\ cs' = Append(cs, [time |-> now + d, dt |-> 0, canc |-> FALSE, called |-> FALSE, born |-> iter, moved |-> FALSE])
    /\ lst' = Sort(Append(lst, N + 1), cs')
    /\ last' = [e |-> "later", d |-> d, id |-> N + 1, t |-> now + d]
    /\ UNCHANGED <<cfg, now, iter, pc, running>>

ICancelOk(i) ==
    /\ UserCtx /\ i \in 1..N /\ Live(i)
    /\ lst' = Remove(lst, i)
    /\ cs' = [cs EXCEPT ![i].canc = TRUE]
    /\ last' = [e |-> "cancel", id |-> i, res |-> "ok"]
    /\ UNCHANGED <<cfg, now, iter, pc, running>>
ICancelRefused(i) ==
    /\ UserCtx /\ i \in 1..N /\ ~Live(i)
    /\ last' = [e |-> "cancel", id |-> i, res |-> Refused(i)]
    /\ UNCHANGED <<cfg, now, cs, lst, iter, pc, running>>

IResetOk(i, d) ==
    /\ UserCtx /\ i \in 1..N /\ Live(i) /\ d >= 0
    /\ LET newTime == now + d IN
       cs' = IF newTime < cs[i].time
             THEN [cs EXCEPT ![i].dt = 0, ![i].time = newTime, ![i].moved = TRUE]
             ELSE [cs EXCEPT ![i].dt = newTime - cs[i].time, ![i].moved = TRUE]
    /\ last' = [e |-> "reset", id |-> i, d |-> d, res |-> "ok", t |-> GetTime(cs', i)]
    /\ UNCHANGED <<cfg, now, lst, iter, pc, running>>
IResetRefused(i, d) ==
    /\ UserCtx /\ i \in 1..N /\ ~Live(i)
    /\ last' = [e |-> "reset", id |-> i, d |-> d, res |-> Refused(i), t |-> 0]
    /\ UNCHANGED <<cfg, now, cs, lst, iter, pc, running>>

IDelayOk(i, d) ==
    /\ UserCtx /\ i \in 1..N /\ Live(i) /\ (d < 0 => cfg.neg)
    /\ LET nd == cs[i].dt + d IN
       cs' = IF nd < 0
             THEN [cs EXCEPT ![i].time = cs[i].time + nd, ![i].dt = 0, ![i].moved = TRUE]
             ELSE [cs EXCEPT ![i].dt = nd, ![i].moved = TRUE]
    /\ last' = [e |-> "delay", id |-> i, d |-> d, res |-> "ok", t |-> GetTime(cs', i)]
    /\ UNCHANGED <<cfg, now, lst, iter, pc, running>>
IDelayRefused(i, d) ==
    /\ UserCtx /\ i \in 1..N /\ ~Live(i)
    /\ last' = [e |-> "delay", id |-> i, d |-> d, res |-> Refused(i), t |-> 0]
    /\ UNCHANGED <<cfg, now, cs, lst, iter, pc, running>>

IGdc ==                     \* getDelayedCalls() returns the list itself
    /\ UserCtx
    /\ last' = [e |-> "gdc", ids |-> SeqSet(lst)]
    /\ UNCHANGED <<cfg, now, cs, lst, iter, pc, running>>

IAdvance(d) ==
    /\ pc = "idle" /\ d >= 0
    /\ now' = now + d
    /\ lst' = Sort(lst, cs)
    /\ pc' = "loop" /\ iter' = iter + 1
    /\ last' = [e |-> "adv", d |-> d]
    /\ UNCHANGED <<cfg, cs, running>>

LoopOn == pc = "loop" /\ running = 0 /\ (IF lst = <<>> THEN FALSE ELSE GetTime(cs, lst[1]) <= now)
ILoopRun ==
    /\ LoopOn
    /\ lst' = Tail(lst)
    /\ cs' = [cs EXCEPT ![lst[1]].called = TRUE]
    /\ running' = lst[1]
    /\ last' = [e |-> "run", id |-> lst[1], now |-> now, gdc |-> SeqSet(lst')]
    /\ UNCHANGED <<cfg, now, iter, pc>>

IRunEnd ==                  \* the function returns; advance() re-sorts
    /\ running # 0
    /\ running' = 0
    /\ lst' = Sort(lst, cs)
    /\ last' = [e |-> "ret"]
    /\ UNCHANGED <<cfg, now, cs, iter, pc>>

IAdvanceEnd ==
    /\ pc = "loop" /\ running = 0 /\ (IF lst = <<>> THEN TRUE ELSE GetTime(cs, lst[1]) > now)
    /\ pc' = "idle"
    /\ last' = [e |-> "iterend"]
    /\ UNCHANGED <<cfg, now, cs, lst, iter, running>>

---------------------------------------------------------------------------
calls == [i \in 1..N |-> [t |-> cs[i].time + cs[i].dt,
                          st |-> IF cs[i].canc THEN "C" ELSE IF cs[i].called THEN "R" ELSE "P",
                          born |-> cs[i].born, moved |-> cs[i].moved]]
phase == IF pc = "idle" THEN "idle" ELSE "iter"

ListIsLive   == SeqSet(lst) = {i \in 1..N : Live(i)} /\ Len(lst) = Cardinality(SeqSet(lst))
SortedInLoop == (pc = "loop" /\ running = 0) =>
                   \A p \in 1..(Len(lst) - 1) : GetTime(cs, lst[p]) <= GetTime(cs, lst[p + 1])
DelayNonNeg  == \A i \in 1..N : cs[i].dt >= 0
=============================================================================
