SPECIFICATION Spec
CONSTANT Budget = 3
CONSTANT MaxField = 2
CONSTANT NegControl = TRUE
CONSTANT Rich = FALSE
VIEW View
INVARIANT OracleRejects
CHECK_DEADLOCK FALSE
