--------------------------- MODULE SmtpSessionTrace ---------------------------
EXTENDS SmtpSession, TLC, Json, IOUtils
Traces == JsonDeserialize(IOEnv.TRACE_FILE)
VARIABLES tid, l
ASSUME \A t \in 1..Len(Traces) : TLCSet(t, 1)
T == Traces[tid]
E == T.ev[l]
TInit == /\ tid \in 1..Len(Traces) /\ l = 1
         /\ InitWith([esmtp |-> Traces[tid].cfg.esmtp, mk |-> Traces[tid].cfg.mk,
                      eom |-> Traces[tid].cfg.eom, picky |-> Traces[tid].cfg.picky])
\* every logged field is compared: the user-code calls (with their arguments), the replies written, the transport's closing flag
Step(A) == /\ l <= Len(T.ev) /\ A /\ Inv' /\ StepOK
           /\ last'.calls = E.calls /\ last'.out = E.out /\ closing' = E.closing
           /\ l' = l + 1 /\ UNCHANGED tid
TNext == \/ (E.e = "connect" /\ Step(Connect))
         \/ (E.e = "helo" /\ Step(Helo(E.h)))
         \/ (E.e = "ehlo" /\ Step(Ehlo(E.h)))
         \/ (E.e = "mail" /\ Step(Mail(E.s, E.v)))
         \/ (E.e = "rcpt" /\ Step(Rcpt(E.r, E.v)))
         \/ (E.e = "data" /\ Step(Data))
         \/ (E.e = "rset" /\ Step(Rset))
         \/ (E.e = "quit" /\ Step(Quit))
         \/ (E.e = "dot" /\ Step(Dot))
         \/ (E.e = "body" /\ Step(Body(E.c)))
         \/ (E.e = "long" /\ Step(Long))
         \/ (E.e = "idle" /\ Step(Idle))
         \/ (E.e = "fire" /\ Step(Fire(E.i, E.ok)))
         \/ (E.e = "lost" /\ Step(Lost))
TSpec == TInit /\ [][l <= Len(T.ev) /\ TNext]_<<vars, tid, l>>
Progress == TLCSet(tid, IF TLCGet(tid) > l THEN TLCGet(tid) ELSE l)
Rejected == {<<t, TLCGet(t)>> : t \in {u \in 1..Len(Traces) : TLCGet(u) # Len(Traces[u].ev) + 1}}
Accepted == Rejected = {} \/ (PrintT(<<"REJECTED", Rejected>>) /\ FALSE)
=============================================================================
