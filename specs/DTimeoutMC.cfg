CONSTANT MaxNow = 2
CONSTANT MaxLevel = 5
SPECIFICATION Spec
CONSTRAINT Bound
VIEW View
INVARIANT NoLeak
INVARIANT AllOrNone
INVARIANT CancellerOnce
INVARIANT OneExpiry
INVARIANT Timely
INVARIANT TimeoutIsReal
INVARIANT ResultWins
INVARIANT UserCancel
INVARIANT TimeoutWins
INVARIANT Later
PROPERTY Stable
CHECK_DEADLOCK FALSE
