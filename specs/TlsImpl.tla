------------------------------- MODULE TlsImpl -------------------------------
(* C17, Impl layer: the sending side of twisted.protocols.tls as coded -- BufferingTLSTransport
   (_AggregateSmallWrites with its callLater(0) flush, MAX_BUFFER_SIZE) on top of
   TLSMemoryBIOProtocol (_handshakeDone, _appSendBuffer, disconnecting, _producer,
   _lostTLSConnection, _aborted).  OpenSSL is an environment: before the handshake is done
   Connection.send raises WantReadError (the write is buffered), afterwards it accepts the bytes;
   the handshake completes inside a dataReceived call; the peer's close_notify surfaces as
   ZeroReturnError.

   Each application write call has an identity 1, 2, 3.. (and a size in units); `out` is what has
   been handed to OpenSSL for the wire, in order: write ids, and "close" (0) for our close_notify.
   TLC checks the clauses of SecureStream that concern the sender:
     OutInOrder       what goes out is 1, 2, 3.. without gap, repeat or reordering (only a tail is ever dropped),
     NothingAfterLose no byte written after the effective loseConnection goes out,
     CloseAfterData   close_notify only after every byte written before loseConnection,
     ClosesWhenDone   once the handshake is done and nothing is pending, a closing connection has sent close_notify.
   One model unit = 20 000 bytes; MAX_BUFFER_SIZE = 64 000 bytes = 3.2 units: the aggregator flushes by itself
   when it holds more than 3 units.                                                               *)
EXTENDS Naturals, Sequences, FiniteSets, TLC

CONSTANTS MaxWrites,
          Variant     \* "coded" | "noflush" (loseConnection without aggregator flush) | "reversed" (pending writes unbuffered in reverse): vacuity guards
VARIABLES hs,         \* _handshakeDone
          agg,        \* _AggregateSmallWrites._buffer: sequence of <<id, size>>
          sched,      \* a callLater(0, _scheduledFlush) is pending
          appBuf,     \* _appSendBuffer: sequence of chunks, each a sequence of <<id, size>>
          disc,       \* disconnecting
          prod,       \* _producer is not None
          lostTLS,    \* _lostTLSConnection
          aborted,    \* _aborted
          shutSent,   \* we sent close_notify
          out,        \* ids handed to OpenSSL (0 = close_notify), in order
          nW,         \* number of application write calls so far
          loseAt,     \* 0, or nW at the time loseConnection was called
          lateOK,     \* ids written after loseConnection while a producer was registered (may go out)
          last        \* last action, for replay on the real code

vars == <<hs, agg, sched, appBuf, disc, prod, lostTLS, aborted, shutSent, out, nW, loseAt, lateOK, last>>
MaxBuf == 3

Init == /\ hs = FALSE /\ agg = <<>> /\ sched = FALSE /\ appBuf = <<>> /\ disc = FALSE /\ prod = FALSE
        /\ lostTLS = FALSE /\ aborted = FALSE /\ shutSent = FALSE /\ out = <<>> /\ nW = 0 /\ loseAt = 0 /\ lateOK = {}
        /\ last = [e |-> "init"]

RECURSIVE SumSize(_)
SumSize(c) == IF c = <<>> THEN 0 ELSE Head(c)[2] + SumSize(Tail(c))
Ids(c) == [i \in 1..Len(c) |-> c[i][1]]
RECURSIVE Flatten(_)
Flatten(cs) == IF cs = <<>> THEN <<>> ELSE Ids(Head(cs)) \o Flatten(Tail(cs))

(* TLSMemoryBIOProtocol._shutdownTLS on state (h = hs, sent = shutSent, o = out) *)
ShutOut(h, sent, o) == IF h /\ ~sent THEN Append(o, 0) ELSE o
ShutSent(h, sent) == sent \/ h

(* TLSMemoryBIOProtocol.write(chunk) then _write: returns [ab, o] *)
ActualWrite(chunk, d, p, lost, h, ab, o) ==
    IF chunk = <<>> THEN [ab |-> ab, o |-> o]
    ELSE IF d /\ ~p THEN [ab |-> ab, o |-> o]                 \* write after loseConnection: dropped
    ELSE IF lost THEN [ab |-> ab, o |-> o]                    \* _write: TLS connection gone
    ELSE IF ~h THEN [ab |-> Append(ab, chunk), o |-> o]       \* WantReadError: _bufferedWrite
    ELSE [ab |-> ab, o |-> o \o Ids(chunk)]

Write(n) ==          \* application: transport.write(n units)  ->  _AggregateSmallWrites.write
    /\ nW < MaxWrites
    /\ nW' = nW + 1
    /\ lateOK' = IF loseAt > 0 /\ prod THEN lateOK \cup {nW + 1} ELSE lateOK
    /\ LET a == Append(agg, <<nW + 1, n>>) IN
         IF SumSize(a) > MaxBuf
         THEN LET r == ActualWrite(a, disc, prod, lostTLS, hs, appBuf, out) IN     \* flush()
                /\ agg' = <<>> /\ appBuf' = r.ab /\ out' = r.o /\ sched' = sched
         ELSE /\ agg' = a /\ sched' = TRUE /\ UNCHANGED <<appBuf, out>>
    /\ last' = [e |-> "write", n |-> n]
    /\ UNCHANGED <<hs, disc, prod, lostTLS, aborted, shutSent, loseAt>>

Tick ==              \* the reactor runs _scheduledFlush
    /\ sched
    /\ sched' = FALSE
    /\ LET r == ActualWrite(agg, disc, prod, lostTLS, hs, appBuf, out) IN
         /\ agg' = <<>> /\ appBuf' = r.ab /\ out' = r.o
    /\ last' = [e |-> "tick"]
    /\ UNCHANGED <<hs, disc, prod, lostTLS, aborted, shutSent, nW, loseAt, lateOK>>

Lose ==              \* BufferingTLSTransport.loseConnection: flush, then TLSMemoryBIOProtocol.loseConnection
    /\ loseAt = 0 /\ ~lostTLS
    /\ loseAt' = nW + 1000          \* (marks "called"; nW of the call = loseAt - 1000)
    /\ LET r == IF Variant = "noflush" THEN [ab |-> appBuf, o |-> out] ELSE ActualWrite(agg, disc, prod, lostTLS, hs, appBuf, out) IN
         /\ agg' = (IF Variant = "noflush" THEN agg ELSE <<>>) /\ appBuf' = r.ab
         /\ IF disc THEN /\ out' = r.o /\ UNCHANGED <<disc, aborted, shutSent>>
            ELSE IF ~hs /\ r.ab = <<>>
                 THEN \* connection set-up not finished and nothing to send: abortConnection()
                      /\ aborted' = TRUE /\ disc' = TRUE /\ out' = r.o /\ shutSent' = shutSent
                 ELSE /\ disc' = TRUE /\ aborted' = aborted
                      /\ IF r.ab = <<>> /\ ~prod
                         THEN out' = ShutOut(hs, shutSent, r.o) /\ shutSent' = ShutSent(hs, shutSent)
                         ELSE out' = r.o /\ shutSent' = shutSent
    /\ last' = [e |-> "lose"]
    /\ UNCHANGED <<hs, sched, prod, lostTLS, nW, lateOK>>

HandshakeDone ==     \* a dataReceived call completes the handshake: _unbufferPendingWrites
    /\ ~hs /\ ~aborted /\ ~lostTLS
    /\ hs' = TRUE
    /\ LET Rev(q) == [i \in 1..Len(q) |-> q[Len(q) + 1 - i]]
           o1 == out \o Flatten(IF Variant = "reversed" THEN Rev(appBuf) ELSE appBuf) IN          \* every pending chunk goes through _write, in order
         /\ appBuf' = <<>>
         /\ IF appBuf # <<>> /\ ~prod /\ disc
            THEN out' = ShutOut(TRUE, shutSent, o1) /\ shutSent' = TRUE
            ELSE out' = o1 /\ shutSent' = shutSent
    /\ last' = [e |-> "handshake"]
    /\ UNCHANGED <<agg, sched, disc, prod, lostTLS, aborted, nW, loseAt, lateOK>>

PeerClose ==         \* the peer's close_notify: ZeroReturnError -> _shutdownTLS (reply), _tlsShutdownFinished
    /\ hs /\ ~lostTLS /\ ~aborted
    /\ out' = ShutOut(hs, shutSent, out) /\ shutSent' = TRUE
    /\ lostTLS' = TRUE
    /\ last' = [e |-> "peerclose"]
    /\ UNCHANGED <<hs, agg, sched, appBuf, disc, prod, aborted, nW, loseAt, lateOK>>

Reg ==               \* registerProducer (before loseConnection only, as the driver does)
    /\ ~prod /\ loseAt = 0 /\ ~lostTLS
    /\ prod' = TRUE
    /\ last' = [e |-> "reg"]
    /\ UNCHANGED <<hs, agg, sched, appBuf, disc, lostTLS, aborted, shutSent, out, nW, loseAt, lateOK>>

Unreg ==             \* unregisterProducer: a closing connection with nothing buffered shuts down now
    /\ prod
    /\ prod' = FALSE
    /\ IF disc /\ appBuf = <<>> /\ ~aborted
       THEN out' = ShutOut(hs, shutSent, out) /\ shutSent' = ShutSent(hs, shutSent)
       ELSE UNCHANGED <<out, shutSent>>
    /\ last' = [e |-> "unreg"]
    /\ UNCHANGED <<hs, agg, sched, appBuf, disc, lostTLS, aborted, nW, loseAt, lateOK>>

Next == (\E n \in 1..2 : Write(n)) \/ Tick \/ Lose \/ HandshakeDone \/ PeerClose \/ Reg \/ Unreg
Spec == Init /\ [][Next]_vars

-----------------------------------------------------------------------------
DataOut == SelectSeq(out, LAMBDA x : x # 0)
LoseN == IF loseAt = 0 THEN nW ELSE loseAt - 1000        \* writes 1..LoseN were made before loseConnection
OutInOrder == \A i \in 1..Len(DataOut) : DataOut[i] = i
NothingAfterLose == \A i \in 1..Len(DataOut) : DataOut[i] <= LoseN \/ DataOut[i] \in lateOK
CloseAfterData ==
    \A j \in 1..Len(out) : out[j] = 0 =>
        \* unless the peer closed first (then the tail is legitimately dropped) everything written before
        \* loseConnection precedes our close_notify
        (lostTLS \/ \A w \in 1..LoseN : \E i \in 1..(j - 1) : out[i] = w)
ClosesWhenDone ==
    (loseAt > 0 /\ hs /\ ~aborted /\ ~lostTLS /\ appBuf = <<>> /\ ~prod) => shutSent
AtMostOneClose == Cardinality({j \in 1..Len(out) : out[j] = 0}) <= 1
View == <<hs, agg, sched, appBuf, disc, prod, lostTLS, aborted, shutSent, out, nW, loseAt, lateOK>>
=============================================================================
