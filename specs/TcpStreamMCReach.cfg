SPECIFICATION Spec
CONSTANT MaxBytes = 2
INVARIANT NeverEndedOrderlyBothData
CHECK_DEADLOCK FALSE
