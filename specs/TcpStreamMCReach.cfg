SPECIFICATION Spec
CONSTANT MaxBytes = 1
INVARIANT NeverEndedOrderlyBothData
CHECK_DEADLOCK FALSE
