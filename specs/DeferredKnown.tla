---------------------------- MODULE DeferredKnown ----------------------------
(* NOT the property.  Classification aid for C01 only: executions that DeferredAbsTrace
   has already REJECTED are run through this variant of the interpreter, which deviates
   from the documented rules in exactly one way (finding C01-F1):

     when a Deferred x is resumed by the Deferred it waited for while x carries a user
     pause(), the whole run stops there: the callbacks still pending on the resuming
     Deferred (and on every Deferred that resumed that one) are left unrun until some later
     operation touches those Deferreds.

   A rejected execution that this variant explains completely is reported with the
   fingerprint of finding C01-F1; anything else keeps its own fingerprint (VIOLATION).
   No verdict is ever derived from this module.                                      *)
EXTENDS DeferredAbs

RECURSIVE RunK(_, _)
\* as Run, plus the field stop: TRUE once a user-paused Deferred was resumed
RunK(st, d) ==
    IF ~Runnable(st, d) \/ st.cbs[d] = <<>> THEN [st |-> st, inv |-> <<>>, ran |-> {}, stop |-> FALSE]
    ELSE
      LET c   == Head(st.cbs[d])
          st1 == [st EXCEPT !.cbs[d] = Tail(@)]
      IN IF c.cont # 0 THEN
           LET x   == c.cont
               st2 == [st1 EXCEPT !.res[x] = st.res[d], !.res[d] = PyNone]
           IN IF st2.up[x] > 0 THEN [st |-> st2, inv |-> <<>>, ran |-> {}, stop |-> TRUE]
              ELSE LET r1 == RunK(st2, x) IN
                   IF r1.stop THEN r1
                   ELSE LET r2 == RunK(r1.st, d)
                        IN [st |-> r2.st, inv |-> r1.inv \o r2.inv, ran |-> r1.ran \cup r2.ran, stop |-> r2.stop]
         ELSE
           LET in   == st.res[d]
               b    == IF in[1] = "ok" THEN c.ok ELSE c.err
               out  == Outcome(b, in)
               this == IF b = Thru THEN <<>> ELSE << <<c.id, SideName(c, in[1]), in[1], in[2]>> >>
               st2  == IF out[1] = "def" THEN
                         LET t == out[2] IN
                         IF Runnable(st1, t)
                         THEN [st1 EXCEPT !.res[d] = st1.res[t], !.res[t] = PyNone]
                         ELSE [st1 EXCEPT !.res[d] = <<"wait", t>>,
                                          !.cbs[t] = Append(@, ContEntry(d))]
                       ELSE [st1 EXCEPT !.res[d] = out]
               r    == RunK(st2, d)
           IN [st |-> r.st, inv |-> this \o r.inv, ran |-> {c.id} \cup r.ran, stop |-> r.stop]
=============================================================================
