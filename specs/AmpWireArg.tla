------------------------------ MODULE AmpWireArg ------------------------------
(* C30, second part -- the STRUCTURE of the AMP argument codecs that a class-level
   specification can decide: String (identity on byte strings), Unicode (UTF-8, written
   out arithmetically), Boolean ("True"/"False"), ListOf (16-bit length-prefixed
   elements), AmpList (a concatenation of boxes, optional fields omitted), and how an
   argument lands in a command box (one key/value pair; the encoded value must fit a box
   value).  Integer, Float, Decimal, DateTime and Path are NOT specified here.

   A type is   <<"Str">> | <<"Uni">> | <<"Bool">> | <<"List", T>> | <<"AmpList", fields>>
               with fields = sequence of <<name (run list), T, optional (0/1)>>.
   A value is  <<"S", run list>> | <<"U", sequence of code points>> | <<"B", 0|1>> |
               <<"L", sequence of values>> | <<"A", sequence of rows>> | <<"N", <<>> >> (None);
               a row is a sequence of values aligned with the fields.                    *)
EXTENDS AmpWireOps

Bytes(s) == [i \in 1..Len(s) |-> <<s[i], 1>>]
TrueB == Norm(Bytes(<<84, 114, 117, 101>>))            \* "True"
FalseB == Norm(Bytes(<<70, 97, 108, 115, 101>>))       \* "False"

(* ---- UTF-8 *)
IsScalar(cp) == cp >= 0 /\ cp <= 1114111 /\ ~(cp >= 55296 /\ cp <= 57343)     \* not a surrogate
Utf8(cp) == IF cp < 128 THEN <<cp>>
            ELSE IF cp < 2048 THEN <<192 + (cp \div 64), 128 + (cp % 64)>>
            ELSE IF cp < 65536 THEN <<224 + (cp \div 4096), 128 + ((cp \div 64) % 64), 128 + (cp % 64)>>
            ELSE <<240 + (cp \div 262144), 128 + ((cp \div 4096) % 64), 128 + ((cp \div 64) % 64), 128 + (cp % 64)>>
RECURSIVE Utf8Seq(_)
Utf8Seq(cps) == IF cps = <<>> THEN <<>> ELSE Bytes(Utf8(cps[1])) \o Utf8Seq(Tail(cps))

Cont(b) == b >= 128 /\ b < 192
RECURSIVE Utf8Dec(_)        \* run list -> sequence of code points, or <<-1>> appended on malformed input
Utf8Dec(r) ==
    IF r = <<>> THEN <<>>
    ELSE LET n == RLen(r)
             b1 == RByte(r, 1) IN
         IF b1 < 128 THEN <<b1>> \o Utf8Dec(RDrop(r, 1))
         ELSE IF b1 >= 194 /\ b1 < 224 /\ n >= 2 /\ Cont(RByte(r, 2))
              THEN <<(b1 - 192) * 64 + (RByte(r, 2) - 128)>> \o Utf8Dec(RDrop(r, 2))
         ELSE IF b1 >= 224 /\ b1 < 240 /\ n >= 3 /\ Cont(RByte(r, 2)) /\ Cont(RByte(r, 3))
              THEN <<(b1 - 224) * 4096 + (RByte(r, 2) - 128) * 64 + (RByte(r, 3) - 128)>> \o Utf8Dec(RDrop(r, 3))
         ELSE IF b1 >= 240 /\ b1 < 245 /\ n >= 4 /\ Cont(RByte(r, 2)) /\ Cont(RByte(r, 3)) /\ Cont(RByte(r, 4))
              THEN <<(b1 - 240) * 262144 + (RByte(r, 2) - 128) * 4096 + (RByte(r, 3) - 128) * 64 + (RByte(r, 4) - 128)>>
                   \o Utf8Dec(RDrop(r, 4))
         ELSE <<-1>>

(* ---- encoding *)
RECURSIVE Encodable(_, _), Enc(_, _), EncRow(_, _, _), RowOK(_, _, _)

Present(f, v) == ~(f[3] = 1 /\ v[1] = "N")             \* an optional field holding None is omitted

RowOK(fields, row, i) ==
    IF i > Len(fields) THEN TRUE
    ELSE /\ (Present(fields[i], row[i]) =>
                /\ row[i][1] # "N"                     \* a required field cannot be None
                /\ Encodable(fields[i][2], row[i])
                /\ RLen(Enc(fields[i][2], row[i])) <= MaxVal
                /\ RLen(fields[i][1]) >= 1 /\ RLen(fields[i][1]) <= MaxKey)
         /\ RowOK(fields, row, i + 1)

Encodable(T, v) ==
    IF T[1] = "Str" THEN v[1] = "S"
    ELSE IF T[1] = "Uni" THEN v[1] = "U" /\ \A i \in 1..Len(v[2]) : IsScalar(v[2][i])
    ELSE IF T[1] = "Bool" THEN v[1] = "B"
    ELSE IF T[1] = "List" THEN v[1] = "L" /\ \A i \in 1..Len(v[2]) :
                                   Encodable(T[2], v[2][i]) /\ RLen(Enc(T[2], v[2][i])) <= MaxVal
    ELSE v[1] = "A" /\ \A i \in 1..Len(v[2]) : Len(v[2][i]) = Len(T[2]) /\ RowOK(T[2], v[2][i], 1)

RECURSIVE EncList(_, _)
EncList(T, vs) == IF vs = <<>> THEN <<>>
                  ELSE LET e == Enc(T, vs[1]) IN Int2(RLen(e)) \o e \o EncList(T, Tail(vs))

(* a row as a box: the present fields in schema order (the receiver does not depend on the order) *)
EncRow(fields, row, i) ==
    IF i > Len(fields) THEN Int2(0)
    ELSE IF Present(fields[i], row[i])
         THEN LET e == Enc(fields[i][2], row[i]) IN
              Int2(RLen(fields[i][1])) \o fields[i][1] \o Int2(RLen(e)) \o e \o EncRow(fields, row, i + 1)
         ELSE EncRow(fields, row, i + 1)

RECURSIVE EncRows(_, _)
EncRows(fields, rows) == IF rows = <<>> THEN <<>> ELSE EncRow(fields, rows[1], 1) \o EncRows(fields, Tail(rows))

Enc(T, v) == Norm(
    IF T[1] = "Str" THEN v[2]
    ELSE IF T[1] = "Uni" THEN Utf8Seq(v[2])
    ELSE IF T[1] = "Bool" THEN (IF v[2] = 1 THEN TrueB ELSE FalseB)
    ELSE IF T[1] = "List" THEN EncList(T[2], v[2])
    ELSE EncRows(T[2], v[2]))

(* ---- decoding *)
RECURSIVE Dec(_, _), DecList(_, _), DecRow(_, _, _)

Lookup(box, k) == LET hits == SelectSeq(box, LAMBDA p : p[1] = k) IN
                  IF hits = <<>> THEN <<"N", <<>> >> ELSE <<"V", hits[1][2]>>

DecRow(fields, box, i) ==
    IF i > Len(fields) THEN <<>>
    ELSE LET h == Lookup(box, Norm(fields[i][1])) IN
         << IF h[1] = "N" THEN <<"N", <<>> >> ELSE Dec(fields[i][2], h[2]) >> \o DecRow(fields, box, i + 1)

DecList(T, r) ==
    IF RLen(r) < 2 THEN <<>>
    ELSE LET len == RByte(r, 1) * 256 + RByte(r, 2) IN
         IF RLen(r) < 2 + len THEN <<>>
         ELSE <<Dec(T, Norm(RTake(RDrop(r, 2), len)))>> \o DecList(T, RDrop(r, 2 + len))

Dec(T, r) ==
    IF T[1] = "Str" THEN <<"S", r>>
    ELSE IF T[1] = "Uni" THEN <<"U", Utf8Dec(r)>>
    ELSE IF T[1] = "Bool" THEN (IF r = TrueB THEN <<"B", 1>> ELSE IF r = FalseB THEN <<"B", 0>> ELSE <<"X", <<>> >>)
    ELSE IF T[1] = "List" THEN <<"L", DecList(T[2], r)>>
    ELSE LET boxes == Drain([M0 EXCEPT !.buf = r]).out IN
         <<"A", [j \in 1..Len(boxes) |-> DecRow(T[2], boxes[j], 1)]>>

-----------------------------------------------------------------------------
VARIABLES acfg,     \* [name |-> run list, t |-> type, v |-> value]
          phase,    \* "start" | "sent" | "refused" | "decoded"
          awire,    \* the serialised command box (run list)
          adec,     \* the decoded value
          alast

avars == <<acfg, phase, awire, adec, alast>>

AInitWith(c) == acfg = c /\ phase = "start" /\ awire = <<>> /\ adec = <<"N", <<>> >> /\ alast = [e |-> "init"]

Fits == /\ Encodable(acfg.t, acfg.v)
        /\ RLen(Enc(acfg.t, acfg.v)) <= MaxVal
        /\ RLen(acfg.name) >= 1 /\ RLen(acfg.name) <= MaxKey

Canon == LET e == Enc(acfg.t, acfg.v) IN
         Norm(Int2(RLen(acfg.name)) \o acfg.name \o Int2(RLen(e)) \o e \o Int2(0))

(* w is an acceptable serialisation of the command box: exactly one box holding exactly the one
   argument, of the canonical length, whose value the reference decoder maps back to acfg.v
   (for every type but AmpList this forces w = Canon; inside an AmpList row the order of the
   fields is not part of the property).                                                       *)
WireOK(w) ==
    LET mm == Drain([M0 EXCEPT !.buf = w]) IN
    /\ RLen(w) = RLen(Canon)
    /\ ~mm.closed /\ mm.buf = <<>> /\ mm.st = "init" /\ Len(mm.out) = 1
    /\ Len(mm.out[1]) = 1 /\ mm.out[1][1][1] = Norm(acfg.name)
    /\ Dec(acfg.t, mm.out[1][1][2]) = acfg.v

(* the argument is put into a command box and the box is serialised as w *)
EncodeOk(w) ==
    /\ phase = "start" /\ Fits /\ WireOK(w)
    /\ awire' = w
    /\ phase' = "sent"
    /\ alast' = [e |-> "enc", res |-> "ok", wr |-> w]
    /\ UNCHANGED <<acfg, adec>>

EncodeRefuse ==
    /\ phase = "start" /\ ~Fits
    /\ phase' = "refused"
    /\ alast' = [e |-> "enc", res |-> "refused", wr |-> <<>>]
    /\ UNCHANGED <<acfg, awire, adec>>

(* the box is parsed back (one piece) and the argument decoded *)
Decode ==
    /\ phase = "sent"
    /\ LET boxes == Drain([M0 EXCEPT !.buf = awire]).out
           h == IF Len(boxes) = 1 THEN Lookup(boxes[1], Norm(acfg.name)) ELSE <<"N", <<>> >> IN
       adec' = IF h[1] = "V" THEN Dec(acfg.t, h[2]) ELSE <<"X", <<>> >>
    /\ phase' = "decoded"
    /\ alast' = [e |-> "dec", v |-> adec']
    /\ UNCHANGED <<acfg, awire>>

(* The property: what was encoded decodes to an equal value *)
ArgRoundTrip == phase = "decoded" => adec = acfg.v
ArgInv == ArgRoundTrip
=============================================================================
