------------------------------- MODULE Services -------------------------------
(* Extension X10 -- twisted.application.service: Service / MultiService hierarchy.
   A pool of cfg.n services (MultiService containers "m" and recording leaves "l") is driven through
   the public API: setServiceParent, disownServiceParent, privilegedStartService, startService,
   stopService, setName, getServiceNamed, and the harness fires the Deferreds that "deferred"
   leaves return from stopService.  Names are small ints: 0 = None, 1 = "" (empty string), 2.. = real.
   Implementation-shaped: the container keeps TWO structures (the list `services` = kids and the dict
   `namedServices` = named) and the code's asymmetries between them are modelled as coded; every
   deliberate deviation from what a user would expect is marked ODDITY and listed in notes/X10.md. *)
EXTENDS Naturals, Integers, Sequences, FiniteSets

VARIABLES cfg,      \* [n, kind : seq of "m"/"l", name : initial names, dfr : leaf stopService returns a Deferred]
          name,     \* service -> name id (public attribute `name`)
          par,      \* service -> parent service or 0 (public attribute `parent`)
          kids,     \* container -> sequence of children, insertion order (list(container))
          named,    \* container -> [1..K -> service or 0]  (getServiceNamed)
          run,      \* service -> BOOLEAN (public attribute `running`)
          ntok,     \* stop-Deferreds handed out by deferred leaves so far (tokens 1..ntok, creation order)
          tokw,     \* token -> watcher that (transitively) waits for it, 0 = result was discarded
          tokdone,  \* tokens the harness has fired
          nw,       \* Deferreds returned to the caller by stopService/disownServiceParent (watchers 1..nw)
          worig,    \* watcher -> set of tokens it was built from
          wn,       \* watcher -> length of the DeferredList result (-1: a leaf's own Deferred)
          wdone,    \* watchers that have fired
          dang,     \* ghost: services left with parent set but not listed (failed duplicate-name add)
          corrupt,  \* ghost: containers whose name index lost an entry of a listed child
          dstart,   \* ghost: services that received startService while running
          dstop,    \* ghost: services that received stopService while not running
          wild,     \* ghost: the environment left the discipline (see Disciplined below)
          last      \* observation of the last call
vars == <<cfg, name, par, kids, named, run, ntok, tokw, tokdone, nw, worig, wn, wdone,
          dang, corrupt, dstart, dstop, wild, last>>

K == 3
S == 1..cfg.n
Multi(s) == cfg.kind[s] = "m"
Dfr(s) == cfg.kind[s] = "l" /\ cfg.dfr[s]

InitWith(c) ==
    /\ cfg = c /\ name = c.name
    /\ par = [s \in 1..c.n |-> 0]
    /\ kids = [s \in 1..c.n |-> <<>>]
    /\ named = [s \in 1..c.n |-> IF c.kind[s] = "m" THEN [k \in 1..K |-> 0] ELSE <<>>]
    /\ run = [s \in 1..c.n |-> FALSE]
    /\ ntok = 0 /\ tokw = <<>> /\ tokdone = {}
    /\ nw = 0 /\ worig = <<>> /\ wn = <<>> /\ wdone = {}
    /\ dang = {} /\ corrupt = {} /\ dstart = {} /\ dstop = {} /\ wild = FALSE
    /\ last = [e |-> "init", a |-> 0, b |-> 0, res |-> "ok", ret |-> "none", calls |-> <<>>, fired |-> <<>>]

Range(q) == {q[i] : i \in 1..Len(q)}
Without(q, x) == SelectSeq(q, LAMBDA y : y # x)
Reverse(q) == [i \in 1..Len(q) |-> q[Len(q) + 1 - i]]
Tag(t, q) == [i \in 1..Len(q) |-> <<t, q[i]>>]
Index(q, x) == CHOOSE i \in 1..Len(q) : q[i] = x

(* call order of startService / privilegedStartService below a service: itself, then each child's
   whole subtree in insertion order; of stopService: itself, then each child's subtree in REVERSE order *)
RECURSIVE PreList(_), RevList(_)
PreList(q) == IF q = <<>> THEN <<>> ELSE <<Head(q)>> \o PreList(kids[Head(q)]) \o PreList(Tail(q))
RevList(q) == IF q = <<>> THEN <<>> ELSE <<Head(q)>> \o RevList(Reverse(kids[Head(q)])) \o RevList(Tail(q))
Pre(s) == PreList(<<s>>)
StopOrd(s) == RevList(<<s>>)
Sub(s) == Range(Pre(s))
Listed(c) == \E p \in S : c \in Range(kids[p])

-----------------------------------------------------------------------------
(* removeService(c) on the container p = par[c], as coded:
     if c.name: del namedServices[c.name]       -- KeyError when absent; deletes WHATEVER is filed there
     services.remove(c)                         -- ValueError when c is not listed
     if running: return c.stopService()                                                            *)
RKey(c)  == name[c] >= 2 /\ named[par[c]][name[c]] = 0
RNamed(c) == IF name[c] >= 2 /\ ~RKey(c) THEN [named EXCEPT ![par[c]][name[c]] = 0] ELSE named
RVal(c)  == ~RKey(c) /\ c \notin Range(kids[par[c]])
ROk(c)   == ~RKey(c) /\ ~RVal(c)
RKids(c) == IF ROk(c) THEN [kids EXCEPT ![par[c]] = Without(@, c)] ELSE kids
RStops(c) == ROk(c) /\ run[par[c]]
ROrd(c)  == IF RStops(c) THEN StopOrd(c) ELSE <<>>
RRes(c)  == IF RKey(c) THEN "KeyError" ELSE IF RVal(c) THEN "ValueError" ELSE "ok"
\* ODDITY: the name entry deleted may belong to a sibling (c itself was never filed): the index is corrupted
RCorrupt(c) == IF name[c] >= 2 /\ ~RKey(c) /\ named[par[c]][name[c]] # c THEN corrupt \cup {par[c]} ELSE corrupt

StopRun(ord, r) == [s \in S |-> IF s \in Range(ord) THEN FALSE ELSE r[s]]
NewToks(ord) == Len(SelectSeq(ord, Dfr))
\* what stopService of c hands back: None for a plain leaf, a Deferred otherwise
Gives(c) == Multi(c) \/ Dfr(c)

(* bookkeeping of a stopService call sequence `ord` rooted at c whose result is watched (w = TRUE) or dropped *)
TokFx(ord, c, w) ==
    LET k == NewToks(ord)  watched == w /\ ord # <<>> /\ Gives(c) IN
    /\ ntok' = ntok + k
    /\ tokw' = tokw \o [i \in 1..k |-> IF watched THEN nw + 1 ELSE 0]
    /\ IF watched
         THEN /\ nw' = nw + 1
              /\ worig' = Append(worig, (ntok + 1)..(ntok + k))
              /\ wn' = Append(wn, IF Multi(c) THEN Len(kids[c]) ELSE 0 - 1)
              /\ wdone' = IF k = 0 THEN wdone \cup {nw + 1} ELSE wdone
         ELSE UNCHANGED <<nw, worig, wn, wdone>>
    /\ UNCHANGED tokdone
FiredNow(ord, c) == IF ord # <<>> /\ Gives(c) /\ NewToks(ord) = 0
                      THEN <<<<nw + 1, IF Multi(c) THEN Len(kids[c]) ELSE 0 - 1>>>> ELSE <<>>

-----------------------------------------------------------------------------
(* c.setServiceParent(p):  if c.parent is not None: c.disownServiceParent()  [result DISCARDED]
                           c.parent = p ; p.addService(c)
   (heavy values are bound once with \E x \in {..}: TLC re-evaluates LET definitions at every use) *)
Add(c, p) ==
    /\ c \in S /\ p \in S /\ Multi(p) /\ c # p
    /\ \E sub \in {Pre(c)} : \E ordA \in {IF par[c] # 0 THEN ROrd(c) ELSE <<>>} :
       \E named1 \in {IF par[c] # 0 THEN RNamed(c) ELSE named} : \E run1 \in {StopRun(ordA, run)} :
       LET att   == par[c] # 0
           aok   == ~att \/ ROk(c)
           kids1 == IF att THEN RKids(c) ELSE kids
           dup   == aok /\ name[c] # 0 /\ named1[p][name[c]] # 0
           okB   == aok /\ ~dup
           goB   == okB /\ run1[p]
       IN
       /\ p \notin Range(sub)
       \* ODDITY: parent is assigned before addService may raise: the service is left dangling
       /\ par' = IF aok THEN [par EXCEPT ![c] = p] ELSE par
       /\ dang' = IF dup THEN dang \cup {c} ELSE dang
       /\ named' = IF okB /\ name[c] # 0 THEN [named1 EXCEPT ![p][name[c]] = c] ELSE named1
       /\ kids' = IF okB THEN [kids1 EXCEPT ![p] = Append(@, c)] ELSE kids1
       /\ corrupt' = IF att THEN RCorrupt(c) ELSE corrupt
       /\ run' = [s \in S |-> IF goB /\ s \in Range(sub) THEN TRUE ELSE run1[s]]
       /\ dstop' = dstop \cup {s \in Range(ordA) : ~run[s]}
       /\ dstart' = IF goB THEN dstart \cup {s \in Range(sub) : run1[s]} ELSE dstart
       \* ODDITY: the Deferred of the implicit disown is dropped; the new start does not wait for the old stop
       /\ TokFx(ordA, c, FALSE)
       /\ wild' = (wild \/ (par[c] = 0 /\ run[c]))
       /\ last' = [e |-> "add", a |-> c, b |-> p,
                   res |-> IF att /\ ~ROk(c) THEN RRes(c) ELSE IF dup THEN "RuntimeError" ELSE "ok",
                   ret |-> "none",
                   calls |-> Tag("stop", ordA) \o (IF goB THEN Tag("priv", sub) \o Tag("start", sub) ELSE <<>>),
                   fired |-> <<>>]
    /\ UNCHANGED <<cfg, name>>

(* c.disownServiceParent():  d = c.parent.removeService(c) ; c.parent = None ; return d *)
Disown(c) ==
    /\ c \in S /\ par[c] # 0
    /\ \E ord \in {ROrd(c)} :
       /\ par' = IF ROk(c) THEN [par EXCEPT ![c] = 0] ELSE par
       /\ named' = RNamed(c)
       /\ kids' = RKids(c)
       /\ corrupt' = RCorrupt(c)
       /\ run' = StopRun(ord, run)
       /\ dstop' = dstop \cup {s \in Range(ord) : ~run[s]}
       /\ TokFx(ord, c, TRUE)
       /\ last' = [e |-> "disown", a |-> c, b |-> par[c], res |-> RRes(c),
                   ret |-> IF ord # <<>> /\ Gives(c) THEN "deferred" ELSE "none",
                   calls |-> Tag("stop", ord), fired |-> FiredNow(ord, c)]
    /\ UNCHANGED <<cfg, name, dang, dstart, wild>>

Priv(s) ==
    /\ s \in S
    /\ wild' = (wild \/ par[s] # 0 \/ run[s])
    /\ last' = [e |-> "priv", a |-> s, b |-> 0, res |-> "ok", ret |-> "none", calls |-> Tag("priv", Pre(s)), fired |-> <<>>]
    /\ UNCHANGED <<cfg, name, par, kids, named, run, ntok, tokw, tokdone, nw, worig, wn, wdone, dang, corrupt, dstart, dstop>>

Start(s) ==
    /\ s \in S
    /\ \E sub \in {Pre(s)} :
       /\ run' = [x \in S |-> x \in Range(sub) \/ run[x]]
       /\ dstart' = dstart \cup {x \in Range(sub) : run[x]}
       /\ last' = [e |-> "start", a |-> s, b |-> 0, res |-> "ok", ret |-> "none", calls |-> Tag("start", sub), fired |-> <<>>]
    /\ wild' = (wild \/ par[s] # 0 \/ run[s])
    /\ UNCHANGED <<cfg, name, par, kids, named, ntok, tokw, tokdone, nw, worig, wn, wdone, dang, corrupt, dstop>>

Stop(s) ==
    /\ s \in S
    /\ \E ord \in {StopOrd(s)} :
       /\ run' = StopRun(ord, run)
       /\ dstop' = dstop \cup {x \in Range(ord) : ~run[x]}
       /\ TokFx(ord, s, TRUE)
       /\ last' = [e |-> "stop", a |-> s, b |-> 0, res |-> "ok", ret |-> IF Gives(s) THEN "deferred" ELSE "none",
                   calls |-> Tag("stop", ord), fired |-> FiredNow(ord, s)]
    /\ wild' = (wild \/ par[s] # 0 \/ ~run[s])
    /\ UNCHANGED <<cfg, name, par, kids, named, dang, corrupt, dstart>>

(* the harness fires the Deferred a leaf returned from stopService *)
Fire(t) ==
    LET w == tokw[t]
        hit == w # 0 /\ worig[w] \subseteq (tokdone \cup {t}) IN
    /\ t \in 1..ntok /\ t \notin tokdone
    /\ tokdone' = tokdone \cup {t}
    /\ wdone' = IF hit THEN wdone \cup {w} ELSE wdone
    /\ last' = [e |-> "fire", a |-> t, b |-> 0, res |-> "ok", ret |-> "none", calls |-> <<>>,
                fired |-> IF hit THEN <<<<w, wn[w]>>>> ELSE <<>>]
    /\ UNCHANGED <<cfg, name, par, kids, named, run, ntok, tokw, nw, worig, wn, dang, corrupt, dstart, dstop, wild>>

SetName(s, k) ==
    /\ s \in S /\ k \in 0..K
    /\ name' = IF par[s] = 0 THEN [name EXCEPT ![s] = k] ELSE name
    /\ last' = [e |-> "setname", a |-> s, b |-> k, res |-> IF par[s] = 0 THEN "ok" ELSE "RuntimeError", ret |-> "none",
                calls |-> <<>>, fired |-> <<>>]
    /\ UNCHANGED <<cfg, par, kids, named, run, ntok, tokw, tokdone, nw, worig, wn, wdone, dang, corrupt, dstart, dstop, wild>>

Get(p, k) ==
    /\ p \in S /\ Multi(p) /\ k \in 1..K
    /\ last' = [e |-> "get", a |-> p, b |-> k, res |-> IF named[p][k] = 0 THEN "KeyError" ELSE "ok", ret |-> "none",
                calls |-> <<>>, fired |-> <<>>, got |-> named[p][k]]
    /\ UNCHANGED <<cfg, name, par, kids, named, run, ntok, tokw, tokdone, nw, worig, wn, wdone, dang, corrupt, dstart, dstop, wild>>

NextAll == \/ \E c, p \in S : Add(c, p)
           \/ \E c \in S : Disown(c)
           \/ \E s \in S : Priv(s)
           \/ \E s \in S : Start(s)
           \/ \E s \in S : Stop(s)
           \/ \E t \in 1..ntok : Fire(t)
           \/ \E s \in S, k \in 0..K : SetName(s, k)
           \/ \E p \in S, k \in 1..K : Get(p, k)
(* Disciplined environment: start/stop only parentless services, start only stopped ones, stop only running
   ones, and never attach a parentless service that is already running (exactly the steps with ~wild'). *)
DAdd    == \E c, p \in S : ~(par[c] = 0 /\ run[c]) /\ Add(c, p)
DDisown == \E c \in S : Disown(c)
DPriv   == \E s \in S : par[s] = 0 /\ ~run[s] /\ Priv(s)
DStart  == \E s \in S : par[s] = 0 /\ ~run[s] /\ Start(s)
DStop   == \E s \in S : par[s] = 0 /\ run[s] /\ Stop(s)
DFire   == \E t \in 1..ntok : Fire(t)
DSetName == \E s \in S, k \in 0..K : SetName(s, k)
DGet    == \E p \in S, k \in 1..K : Get(p, k)
Next == DAdd \/ DDisown \/ DPriv \/ DStart \/ DStop \/ DFire \/ DSetName \/ DGet

-----------------------------------------------------------------------------
(* What a user relies on. *)
Anc(x, y) == x # y /\ y \in Sub(x)                       \* x is a proper ancestor of y
\* the listing is a forest that agrees with the parent attributes (dangling services excepted, ODDITY)
Forest ==
    /\ \A p \in S : ~Multi(p) => kids[p] = <<>>
    /\ \A p \in S : \A i, j \in 1..Len(kids[p]) : i # j => kids[p][i] # kids[p][j]
    /\ \A p, q \in S : p # q => Range(kids[p]) \cap Range(kids[q]) = {}
    /\ \A p \in S : \A c \in Range(kids[p]) : par[c] = p
    /\ \A c \in S : par[c] # 0 => (c \in Range(kids[par[c]]) \/ c \in dang)
    /\ \A c \in dang : par[c] # 0 /\ ~Listed(c)
    /\ \A s \in S : ~Anc(s, s)
\* running flags: a listed child runs iff its container runs; a dangling service never runs
RunConsistent == ~wild =>
    /\ \A p \in S : \A c \in Range(kids[p]) : run[c] = run[p]
    /\ \A c \in dang : ~run[c]
\* no service is started twice without a stop in between, none is stopped while already stopped
NoDouble == ~wild => dstart = {} /\ dstop = {}
\* the name index files exactly the listed children that have a real name; real names are unique.
\* ODDITY: the empty name "" (id 1) is filed by addService but never unfiled by removeService.
NameIndex == \A p \in S : Multi(p) /\ p \notin corrupt =>
    /\ \A c \in Range(kids[p]) : name[c] # 0 => named[p][name[c]] = c
    /\ \A k \in 2..K : named[p][k] # 0 => named[p][k] \in Range(kids[p]) /\ name[named[p][k]] = k
    /\ \A c, d \in Range(kids[p]) : c # d /\ name[c] # 0 => name[c] # name[d]
\* a Deferred handed to the caller fires exactly when every stop-Deferred below it has fired
Watchers ==
    /\ \A w \in 1..nw : (w \in wdone) <=> (worig[w] \subseteq tokdone)
    /\ \A t \in 1..ntok : tokw[t] # 0 => t \in worig[tokw[t]]
    /\ \A w \in 1..nw : \A t \in worig[w] : tokw[t] = w
\* per call: nobody is told the same thing twice; containers before their children; start in insertion
\* order, stop in reverse insertion order; a child started by an add got privilegedStartService first
CallsOf(t) == SelectSeq(last.calls, LAMBDA x : x[1] = t)
Ordered(q, rev) == \A i, j \in 1..Len(q) : i < j =>
    /\ q[i] # q[j]
    /\ ~Anc(q[j][2], q[i][2])
    /\ \A p \in S : (q[i][2] \in Range(kids[p]) /\ q[j][2] \in Range(kids[p])) =>
            IF rev THEN Index(kids[p], q[i][2]) > Index(kids[p], q[j][2])
                   ELSE Index(kids[p], q[i][2]) < Index(kids[p], q[j][2])
CallOrder ==
    /\ Ordered(CallsOf("start"), FALSE) /\ Ordered(CallsOf("priv"), FALSE) /\ Ordered(CallsOf("stop"), TRUE)
    /\ last.e = "add" => \A j \in 1..Len(last.calls) : last.calls[j][1] = "start" =>
            \E i \in 1..(j - 1) : last.calls[i] = <<"priv", last.calls[j][2]>>
Count(x) == Len(SelectSeq(last.calls, LAMBDA y : y = x))
\* a child added to a running container is started exactly once and listed last; to a stopped one, not at all
AddStarts == last.e = "add" /\ last.res = "ok" =>
    /\ kids[last.b] # <<>> /\ kids[last.b][Len(kids[last.b])] = last.a /\ par[last.a] = last.b
    /\ Count(<<"start", last.a>>) = (IF run[last.b] THEN 1 ELSE 0)
    /\ Count(<<"priv", last.a>>) = (IF run[last.b] THEN 1 ELSE 0)
\* a child removed from a running container is stopped exactly once, from a stopped one not at all
RemoveStops == last.e = "disown" /\ last.res = "ok" =>
    /\ par[last.a] = 0 /\ ~Listed(last.a)
    /\ Count(<<"stop", last.a>>) = (IF run[last.b] THEN 1 ELSE 0)
    /\ (last.ret = "deferred") = (run[last.b] /\ Gives(last.a))
Inv == Forest /\ RunConsistent /\ NoDouble /\ NameIndex /\ Watchers /\ CallOrder /\ AddStarts /\ RemoveStops
=============================================================================
