SPECIFICATION Spec
CONSTANT MaxReqs = 1
CONSTANT Level = 2
INVARIANT RoundTrip
INVARIANT Accepts
INVARIANT Rejects
INVARIANT Prefixes
CHECK_DEADLOCK FALSE
