---------------------------- MODULE SshChannelObs ----------------------------
(* C36 -- the property, stated over OBSERVABLE events only (Abs layer, verdicts).

   One SSH channel between a sending side S and a receiving side R (two connection
   objects joined by two FIFO message queues).  R advertised, when the channel was
   opened, a window of c.win bytes and a maximum packet size of c.pkt bytes.
   Streams: 0 = normal data, 1 and 2 = two extended-data type codes.  The i-th
   byte an application writes to a stream is the byte "i" (identity is kept, so
   order / loss / duplication are decidable).

   Messages  S -> R : <<"D", 0, bytes>>   CHANNEL_DATA
                      <<"X", t, bytes>>   CHANNEL_EXTENDED_DATA of type t
                      <<"C", 0, <<>>>>    CHANNEL_CLOSE
             R -> S : <<"A", n, <<>>>>    CHANNEL_WINDOW_ADJUST by n
                      <<"C", 0, <<>>>>    CHANNEL_CLOSE
   Events  write    S's application writes ev.n bytes to stream ev.s   (sent = messages S emitted)
           close    S's application calls loseConnection
           sdeliver the oldest R->S message ev.m is delivered to S; ev.hook = <<>> or the application call
                    <<"write", s, n>> / <<"close", 0, 0>> made re-entrantly from S's startWriting() callback
           rdeliver the oldest S->R message ev.m is delivered to R; got = <<stream, bytes>> runs handed
                    to R's application; sent = messages R emitted
           radjust  R's application grants ev.n more bytes of window
   obs.viol collects the clauses of the property the execution has broken.   *)
EXTENDS Naturals, Integers, Sequences, FiniteSets

ObsInit(c) == [written |-> <<0, 0, 0>>,    \* bytes written by S's application, per stream (index s+1)
               sent |-> <<0, 0, 0>>,       \* bytes S has put into data messages, per stream
               credit |-> c.win,           \* R's window as S is entitled to see it: granted - sent
               closeReq |-> FALSE,         \* a close of S's side was requested
               closeSent |-> FALSE,
               qSR |-> <<>>, qRS |-> <<>>, \* messages in flight
               adv |-> c.win,              \* R's advertised window: granted by R - accepted by R
               recvd |-> <<0, 0, 0>>,      \* bytes handed to R's application, per stream
               rclosed |-> FALSE,          \* R has sent CLOSE
               viol |-> {}]

Flag(o, cond, name) == IF cond THEN [o EXCEPT !.viol = @ \cup {name}] ELSE o
Run(from, n) == [i \in 1..n |-> from + i]
Unsent(o) == (o.written[1] - o.sent[1]) + (o.written[2] - o.sent[2]) + (o.written[3] - o.sent[3])

(* every message S emits, in emission order *)
RECURSIVE SendAll(_, _, _)
SendAll(o, c, ms) ==
    IF ms = <<>> THEN o
    ELSE LET m == Head(ms) IN
         IF m[1] \in {"D", "X"} /\ m[2] \in 0..2
         THEN LET s == m[2]  b == m[3]  n == Len(b)
                  o1 == Flag(o, (m[1] = "D") # (s = 0), "harness-stream-kind")
                  \* each data stream is delivered ... in order: the next bytes of the stream, nothing invented
                  o2 == Flag(o1, b # Run(o.sent[s + 1], n) \/ o.sent[s + 1] + n > o.written[s + 1], "stream-out-of-order")
                  \* never exceed the peer's remaining window or maximum packet size
                  o3 == Flag(o2, n > o.credit, "exceeds-window")
                  o4 == Flag(o3, n > c.pkt, "exceeds-max-packet")
                  o5 == Flag(o4, o.closeSent, "data-after-close")
              IN SendAll([o5 EXCEPT !.sent[s + 1] = @ + n, !.credit = @ - n, !.qSR = Append(@, m)], c, Tail(ms))
         ELSE IF m[1] = "C"
         THEN LET \* a requested close is sent only after all buffered data has been sent
                  o1 == Flag(o, Unsent(o) > 0, "close-before-flush")
                  o2 == Flag(o1, ~o.closeReq, "close-not-requested")
                  o3 == Flag(o2, o.closeSent, "close-twice")
              IN SendAll([o3 EXCEPT !.closeSent = TRUE, !.qSR = Append(@, m)], c, Tail(ms))
         ELSE SendAll(Flag(o, TRUE, "harness-unknown-message"), c, Tail(ms))

(* after S has finished a step (the code is synchronous: nothing more happens until the next event) *)
Settle(o) ==
    LET \* each data stream is delivered complete once enough window is granted
        o1 == Flag(o, ~o.closeSent /\ Unsent(o) > 0 /\ o.credit >= Unsent(o), "data-held-back")
        \* the requested close IS sent once everything is flushed
    IN Flag(o1, o.closeReq /\ Unsent(o) = 0 /\ ~o.closeSent, "close-not-sent")

(* every message R emits *)
RECURSIVE RSendAll(_, _)
RSendAll(o, ms) ==
    IF ms = <<>> THEN o
    ELSE LET m == Head(ms) IN
         IF m[1] = "A" THEN RSendAll([o EXCEPT !.adv = @ + m[2], !.qRS = Append(@, m)], Tail(ms))
         ELSE IF m[1] = "C" THEN RSendAll([o EXCEPT !.rclosed = TRUE, !.qRS = Append(@, m)], Tail(ms))
         ELSE RSendAll(Flag(o, TRUE, "harness-unknown-message"), Tail(ms))

Kinds(ms) == {ms[i][1] : i \in 1..Len(ms)}

Observe(o, c, ev) ==
    LET o0 == Flag(o, ev.exc # "", "exception") IN
    CASE ev.e = "write" ->
           Settle(SendAll([Flag(o0, o.closeReq \/ ev.s \notin 0..2, "harness-write-after-close")
                             EXCEPT !.written[ev.s + 1] = @ + ev.n], c, ev.sent))
      [] ev.e = "close" ->
           Settle(SendAll([o0 EXCEPT !.closeReq = TRUE], c, ev.sent))
      [] ev.e = "sdeliver" ->
           LET ok == o.qRS # <<>> /\ Head(o.qRS) = ev.m
               o1 == Flag(o0, ~ok, "harness-fifo")
               o2 == [o1 EXCEPT !.qRS = IF o.qRS = <<>> THEN <<>> ELSE Tail(o.qRS)]
               o3 == IF ev.m[1] = "A" THEN [o2 EXCEPT !.credit = @ + ev.m[2]]
                     ELSE IF ev.m[1] = "C" THEN [o2 EXCEPT !.closeReq = TRUE]     \* SSHChannel.closeReceived requests the close
                     ELSE o2
               \* an application call issued from the channel's startWriting() callback (before anything is flushed)
               o4 == IF ev.hook = <<>> THEN o3
                     ELSE IF ev.hook[1] = "write"
                     THEN [Flag(o3, o3.closeReq \/ ev.hook[2] \notin 0..2, "harness-write-after-close")
                             EXCEPT !.written[ev.hook[2] + 1] = @ + ev.hook[3]]
                     ELSE [o3 EXCEPT !.closeReq = TRUE]
           IN Settle(SendAll(o4, c, ev.sent))
      [] ev.e = "rdeliver" ->
           LET ok == o.qSR # <<>> /\ Head(o.qSR) = ev.m
               o1 == Flag(o0, ~ok, "harness-fifo")
               o2 == [o1 EXCEPT !.qSR = IF o.qSR = <<>> THEN <<>> ELSE Tail(o.qSR)]
               isData == ev.m[1] \in {"D", "X"}
               s == ev.m[2]  b == ev.m[3]  n == Len(b)
               \* the peer respected what R advertised
               respects == isData /\ n <= o.adv /\ n <= c.pkt /\ ~o.rclosed
               accepted == isData /\ ev.got = << <<s, b>> >>
               \* ... so it is never refused
               o3 == Flag(o2, respects /\ (~accepted \/ "C" \in Kinds(ev.sent)), "compliant-data-refused")
               o4 == Flag(o3, ~isData /\ ev.got # <<>>, "data-invented")
               o5 == Flag(o4, accepted /\ b # Run(o.recvd[s + 1], n), "delivered-out-of-order")
               o6 == IF accepted THEN [o5 EXCEPT !.adv = @ - n, !.recvd[s + 1] = @ + n] ELSE o5
               o7 == RSendAll(o6, ev.sent)
               \* A receiver replenishes its advertised window: it never leaves an open channel with nothing advertised
           IN Flag(o7, respects /\ accepted /\ ~o7.rclosed /\ o7.adv < 1, "window-not-replenished")
      [] ev.e = "radjust" -> RSendAll(o0, ev.sent)
      [] OTHER -> Flag(o, TRUE, "harness-unknown-event")
=============================================================================
