------------------------------ MODULE PbBrokerMC ------------------------------
(* Exhaustive TLC run of PbBroker: every interleaving of up to MaxCalls callRemote calls by either side
   (kinds in KindSet, on the root or on any held reference), every fragmentation of the two byte streams
   (each message is 2 bytes long in the model, so a fragment boundary may fall inside any message and one
   delivery may complete several), Later responders fired in any order with any outcome, references
   released at any point, connectionLost at either side at any point.                                    *)
EXTENDS PbBroker, TLC
CONSTANTS MaxCalls, MaxHandles, KindSet, Flags, Hows, Reasons, NObj, Depth

WS == [i \in 1..8 |-> 2]

Init == \E n \in NObj : InitWith([nobj |-> n])

CallRemote == \E p \in Sides, t \in 0..Len(handles), k \in KindSet, j \in 0..cfg.nobj, f \in Flags :
                 /\ NCalls < MaxCalls
                 /\ (k \in {"Give", "GiveLater", "Take"} => Len(handles) + Cardinality(later) < MaxHandles)
                 /\ Call(p, t, k, j, f, WS)
DeliverSome == \E p \in Sides : \E n \in 1..(Total(pipe[p]) - off[p]) : Deliver(p, n, WS)
FireLater   == \E c \in later, how \in Hows : Fire(c, how, WS)
DropRef     == \E h \in 1..Len(handles) : Release(h, WS)
ConnLost    == \E p \in Sides, r \in Reasons : Lose(p, r)

Next == CallRemote \/ DeliverSome \/ FireLater \/ DropRef \/ ConnLost
Spec == Init /\ [][Next]_vars
Bound == TLCGet("level") <= Depth
View == <<cfg, disc, nreq, nluid, exp, waiting, pipe, off, calls, later, handles, broken>>

(* reachability witnesses (negative controls: each must be VIOLATED, i.e. the situation is reachable) *)
NeverOutOfOrder == ~(\E c, d \in 1..NCalls : c < d /\ calls[c].p = calls[d].p /\ calls[c].res = NoRes /\ calls[d].res[1] = "OK")
NeverReexported == \A p \in Sides : nluid[p] <= 1
NeverQuietAgain == ~(Connected /\ pipe[1] = <<>> /\ pipe[2] = <<>> /\ Len(handles) >= 1 /\ Lo = <<0, 0>>)
=============================================================================
