SPECIFICATION Spec
CONSTANT MaxCh = 2
CONSTANT MaxNow = 2
INVARIANT Equiv
INVARIANT OnePassword
INVARIANT NoncesUnique
VIEW View
CHECK_DEADLOCK FALSE
