SPECIFICATION Spec
CONSTANT MaxCh = 2
CONSTANT MaxNow = 2
INVARIANT Equiv
INVARIANT OnePassword
INVARIANT NoncesUnique
CHECK_DEADLOCK FALSE
