---------------------------- MODULE TimeoutTrace ----------------------------
EXTENDS Timeout, TLC, Json, IOUtils
Traces == JsonDeserialize(IOEnv.TRACE_FILE)
VARIABLES tid, l
ASSUME \A t \in 1..Len(Traces) : TLCSet(t, 1)
T == Traces[tid]
E == T.ev[l]
TInit == tid \in 1..Len(Traces) /\ l = 1 /\ Init
Step(A) == l <= Len(T.ev) /\ A /\ Inv' /\ last'.fired = E.fired /\ l' = l + 1 /\ UNCHANGED tid
TNext == \/ (E.e = "set" /\ Step(SetTimeout(E.p)) /\ last'.prev = E.prev)
         \/ (E.e = "reset" /\ Step(Reset))
         \/ (E.e = "advance" /\ Step(Advance(E.d)))
TSpec == TInit /\ [][l <= Len(T.ev) /\ TNext]_<<vars, tid, l>>
Progress == TLCSet(tid, IF TLCGet(tid) > l THEN TLCGet(tid) ELSE l)
Rejected == {<<t, TLCGet(t)>> : t \in {u \in 1..Len(Traces) : TLCGet(u) # Len(Traces[u].ev) + 1}}
Accepted == Rejected = {} \/ (PrintT(<<"REJECTED", Rejected>>) /\ FALSE)
=============================================================================
