SPECIFICATION Spec
CONSTANT Clock = "coarse"
CONSTANT MaxN = 3
INVARIANT AExactlyOnce
INVARIANT APerProducerOrder
INVARIANT HeapOK
CHECK_DEADLOCK FALSE
