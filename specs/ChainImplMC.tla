----------------------------- MODULE ChainImplMC -----------------------------
(* C02, algorithm level, Deferred chains: the coded _runCallbacks loop (DeferredImpl, as
   in the tree) driven along the chain-shaped programs of ChainProp.tla for every length
   1..MaxN: link_i returns d_(i+1), probes after every link; fired outermost first (S1),
   innermost first (S2), fired while paused and driven by unpause in both orders (S3, S4);
   ending in a value or a raised exception; S1E: failures throughout.
   TLC checks: never more than one activation of _runCallbacks (DepthOne) -- the chain is
   walked with the explicit list, whose length stays within the number of Deferreds --
   and, in lock step, that the invocations are those the reference interpreter predicts. *)
EXTENDS DeferredImpl
CONSTANT MaxN
VARIABLE script

RECURSIVE Cat(_)
Cat(ss) == IF ss = <<>> THEN <<>> ELSE Head(ss) \o Cat(Tail(ss))
Rev(s) == [i \in 1..Len(s) |-> s[Len(s) - i + 1]]
Seq1(n) == [i \in 1..n |-> i]

LinkBeh(shape, kind, i, n) ==
    IF i < n THEN <<"retdef", i + 1>>
    ELSE IF shape = "S1E" \/ kind = "err" THEN <<"raise", 1>> ELSE <<"ret", 1>>
Adds(shape, kind, n) ==
    Cat([i \in 1..n |->
          << IF shape = "S1E" THEN <<"add", i, "eb", Thru, LinkBeh(shape, kind, i, n)>>
                             ELSE <<"add", i, "cb", LinkBeh(shape, kind, i, n), Thru>>,
             <<"add", i, "both", <<"pass", 0>>, <<"pass", 0>>>> >>])
Fires(order, k) == [j \in 1..Len(order) |-> <<"fire", order[j], k, 1>>]
Script(shape, kind, n) ==
    Adds(shape, kind, n) \o
    CASE shape = "S1"  -> Fires(Seq1(n), "ok")
      [] shape = "S1E" -> Fires(Seq1(n), "err")
      [] shape = "S2"  -> Fires(Rev(Seq1(n)), "ok")
      [] shape \in {"S3", "S4"} ->
             Cat([i \in 1..n |-> << <<"pause", i>>, <<"fire", i, "ok", 1>> >>])
             \o [j \in 1..n |-> <<"unpause", IF shape = "S3" THEN j ELSE n - j + 1>>]

Init == \E n \in 1..MaxN, shape \in {"S1", "S2", "S3", "S4", "S1E"}, kind \in {"ok", "err"} :
            /\ IInit([nd |-> n, fixed |-> FALSE, against |-> "abs"])
            /\ script = Script(shape, kind, n)

Op == Head(script)
DoAdd     == pc = "idle" /\ script # <<>> /\ Op[1] = "add" /\ IAdd(Op[2], Op[3], Op[4], Op[5]) /\ script' = Tail(script)
DoFire    == pc = "idle" /\ script # <<>> /\ Op[1] = "fire" /\ IFire(Op[2], Op[3], Op[4]) /\ script' = Tail(script)
DoPause   == pc = "idle" /\ script # <<>> /\ Op[1] = "pause" /\ IPause(Op[2]) /\ script' = Tail(script)
DoUnpause == pc = "idle" /\ script # <<>> /\ Op[1] = "unpause" /\ IUnpause(Op[2]) /\ script' = Tail(script)
LoopOuter == Outer /\ UNCHANGED script
LoopInner == Inner /\ UNCHANGED script
LoopAfter == After /\ UNCHANGED script
Next == DoAdd \/ DoFire \/ DoPause \/ DoUnpause \/ LoopOuter \/ LoopInner \/ LoopAfter
Spec == Init /\ [][Next]_<<allvars, script>>

\* the whole chain is resolved at the end: every callback ran, the outermost Deferred holds the final result
Done == (script = <<>> /\ pc = "idle") => (ran = 1..nId /\ \A d \in D : cbs[d] = <<>> /\ res[d][1] \in {"ok", "err"})
\* witness (must be violated): the chain list really grows with the chain
ChainShort == maxchain <= 2
=============================================================================
