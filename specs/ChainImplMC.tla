----------------------------- MODULE ChainImplMC -----------------------------
(* C02, algorithm level, Deferred chains: the coded _runCallbacks loop (DeferredImpl, as
   in the tree) driven along the chain-shaped programs of ChainProp.tla for every length
   1..MaxN: link_i returns d_(i+1), probes after every link; fired outermost first (S1),
   innermost first (S2), fired while paused and driven by unpause in both orders (S3, S4);
   ending in a value or a raised exception; S1E: failures throughout; with and without extra
   callbacks before each link and after each link has been returned by its waiter's callback.
   TLC checks: never more than one activation of _runCallbacks (DepthOne) -- the chain is
   walked with the explicit list, whose length stays within the number of Deferreds --
   and, in lock step, that the invocations are those the reference interpreter predicts. *)
EXTENDS DeferredImpl
CONSTANT MaxN
VARIABLE script

RECURSIVE Cat(_)
Cat(ss) == IF ss = <<>> THEN <<>> ELSE Head(ss) \o Cat(Tail(ss))
Rev(s) == [i \in 1..Len(s) |-> s[Len(s) - i + 1]]
Seq1(n) == [i \in 1..n |-> i]

LinkBeh(shape, kind, i, n) ==
    IF i < n THEN <<"retdef", i + 1>>
    ELSE IF shape = "S1E" \/ kind = "err" THEN <<"raise", 1>> ELSE <<"ret", 1>>
Probe == <<"pass", 0>>
HasPre(x)  == x \in {"pre", "both"}
HasPost(x) == x \in {"post", "both"}
\* build: (pre_i,) link_i, probe_i on every d_i
Adds(shape, kind, x, n) ==
    Cat([i \in 1..n |->
          (IF HasPre(x) THEN << <<"add", i, "both", Probe, Probe>> >> ELSE <<>>) \o
          << IF shape = "S1E" THEN <<"add", i, "eb", Thru, LinkBeh(shape, kind, i, n)>>
                             ELSE <<"add", i, "cb", LinkBeh(shape, kind, i, n), Thru>>,
             <<"add", i, "both", Probe, Probe>> >>])
\* after link_i has returned d_(i+1): one more callback for d_(i+1)
Late(x, i, n) == IF HasPost(x) /\ i < n THEN << <<"add", i + 1, "both", Probe, Probe>> >> ELSE <<>>
Steps(order, op(_), x, n) == Cat([j \in 1..Len(order) |-> << op(order[j]) >> \o Late(x, order[j], n)])
FireOk(i)  == <<"fire", i, "ok", 1>>
FireErr(i) == <<"fire", i, "err", 1>>
Unp(i)     == <<"unpause", i>>
Script(shape, kind, x, n) ==
    Adds(shape, kind, x, n) \o
    CASE shape = "S1"  -> Steps(Seq1(n), FireOk, x, n)
      [] shape = "S1E" -> Steps(Seq1(n), FireErr, x, n)
      [] shape = "S2"  -> Steps(Rev(Seq1(n)), FireOk, x, n)
      [] shape \in {"S3", "S4"} ->
             Cat([i \in 1..n |-> << <<"pause", i>>, <<"fire", i, "ok", 1>> >>])
             \o Steps(IF shape = "S3" THEN Seq1(n) ELSE Rev(Seq1(n)), Unp, x, n)

Init == \E n \in 1..MaxN, shape \in {"S1", "S2", "S3", "S4", "S1E"}, kind \in {"ok", "err"},
           x \in {"none", "pre", "post", "both"} :
            /\ IInit([nd |-> n, fixed |-> FALSE, against |-> "abs"])
            /\ script = Script(shape, kind, x, n)

Op == Head(script)
DoAdd     == pc = "idle" /\ script # <<>> /\ Op[1] = "add" /\ IAdd(Op[2], Op[3], Op[4], Op[5]) /\ script' = Tail(script)
DoFire    == pc = "idle" /\ script # <<>> /\ Op[1] = "fire" /\ IFire(Op[2], Op[3], Op[4]) /\ script' = Tail(script)
DoPause   == pc = "idle" /\ script # <<>> /\ Op[1] = "pause" /\ IPause(Op[2]) /\ script' = Tail(script)
DoUnpause == pc = "idle" /\ script # <<>> /\ Op[1] = "unpause" /\ IUnpause(Op[2]) /\ script' = Tail(script)
LoopOuter == Outer /\ UNCHANGED script
LoopInner == Inner /\ UNCHANGED script
LoopAfter == After /\ UNCHANGED script
Next == DoAdd \/ DoFire \/ DoPause \/ DoUnpause \/ LoopOuter \/ LoopInner \/ LoopAfter
Spec == Init /\ [][Next]_<<allvars, script>>

\* the whole chain is resolved at the end: every callback ran, the outermost Deferred holds the final result
Done == (script = <<>> /\ pc = "idle") => (ran = 1..nId /\ \A d \in D : cbs[d] = <<>> /\ res[d][1] \in {"ok", "err"})
\* witness (must be violated): the chain list really grows with the chain
ChainShort == maxchain <= 2
=============================================================================
