---------------------------- MODULE DnsCacheTrace ----------------------------
(* Batched trace validation of real CacheResolver executions against DnsCache.tla.
   Every logged field is compared: outcome, served records (ttl, payload id, auth bit) per section,
   KeyErrors escaping the reactor, and after EVERY event the times of the reactor's pending calls. *)
EXTENDS DnsCache, TLC, Json, IOUtils
Traces == JsonDeserialize(IOEnv.TRACE_FILE)
VARIABLES tid, l
ASSUME \A t \in 1..Len(Traces) : TLCSet(t, 1)
T == Traces[tid]
E == T.ev[l]
TInit == tid \in 1..Len(Traces) /\ l = 1 /\ Init
Step(A) == l <= Len(T.ev) /\ A /\ Inv' /\ last'.pend = E.pend /\ l' = l + 1 /\ UNCHANGED tid
TNext == \/ (E.e = "cache" /\ Step(CacheResult(E.q, E.pl, E.ct)) /\ last'.out = E.out)
         \/ (E.e = "lookup" /\ Step(Lookup(E.q, E.all)) /\ last'.res = E.res /\ last'.recs = E.recs)
         \/ (E.e = "clear" /\ Step(ClearEntry(E.q)) /\ last'.out = E.out)
         \/ (E.e = "advance" /\ Step(Advance(E.d)) /\ last'.errs = E.errs)
TSpec == TInit /\ [][l <= Len(T.ev) /\ TNext]_<<vars, tid, l>>
Progress == TLCSet(tid, IF TLCGet(tid) > l THEN TLCGet(tid) ELSE l)
Rejected == {<<t, TLCGet(t)>> : t \in {u \in 1..Len(Traces) : TLCGet(u) # Len(Traces[u].ev) + 1}}
Accepted == Rejected = {} \/ (PrintT(<<"REJECTED", Rejected>>) /\ FALSE)
=============================================================================
