------------------------------- MODULE PathFtp -------------------------------
(* C54 -- an FTP session against a shell rooted at cfg.root (Impl layer on top
   of PathNS): the protocol interpreter's working directory, the path handling
   of every command that takes a path (toSegments, then FilePath.descendant
   under the shell root) and the file-system accesses the shell then makes, on
   a small model of the directory tree below the root.

   The property itself (PathNS!FtpCmd: every access of every command is inside
   the root) is what the trace spec checks on real sessions; here TLC checks it
   on the design, for every session up to the bound (PathFtpMC!StepConfined).

   Directory tree: dirs / files are sets of locations *relative to the shell
   root* (<<>> is the root).  Existence only decides which branch a command
   takes; paths are resolved lexically, as the code does.                    *)
EXTENDS PathNS, TLC

CONSTANTS Nul,          \* component names that contain a NUL character
          PP            \* proper string prefixes among component names (string mode)

VARIABLES mode,         \* containment test used by FilePath.child: "component" | "string"
          wd,           \* working directory: sequence of names below the shell root
          rn,           \* <<>> or <<p>>: RNFR p is pending
          dirs, files,  \* the tree below the root
          anon          \* anonymous (read-only) shell
fvars == <<vars, mode, wd, rn, dirs, files, anon>>

Exists(s) == s \in dirs \cup files
IsDir(s)  == s \in dirs
IsFile(s) == s \in files
Parent(s) == Front(s)
Kids(s)   == {t \in dirs \cup files : Len(t) = Len(s) + 1 /\ IsPrefixSeq(s, t)}
Under(s)  == {t \in dirs \cup files : IsPrefixSeq(s, t)}

(* FTPAnonymousShell._path: filesystemRoot.descendant(segments) -- each segment one name. *)
Names1(segs) == [i \in 1..Len(segs) |-> <<segs[i]>>]
PathOf(segs) == AlgDesc(cfg.cwd, cfg.root, Names1(segs), mode, PP)

Reply(cmd, p, ok, acc) == [e |-> "ftp", cmd |-> cmd, arg |-> p, ok |-> ok, acc |-> acc, served |-> <<>>]
Touch(acc) == touched' = touched \cup AccLocs(acc)
Same == UNCHANGED <<cfg, mode, anon>>

(* A command whose path argument toSegments refuses (or, for RNTO, either argument), or whose
   segments FilePath.descendant refuses: error reply, nothing touched. *)
Refused(cmd, p) ==
    /\ last' = Reply(cmd, p, FALSE, <<>>) /\ Touch(<<>>) /\ Same
    /\ UNCHANGED <<wd, dirs, files>>

Resolve(p) == LET ts == ToSegments(wd, p, Nul)
              IN  IF ~ts.ok THEN [ok |-> FALSE, segs |-> <<>>, path |-> <<>>]
                  ELSE LET r == PathOf(ts.segs) IN [ok |-> r.ok, segs |-> ts.segs, path |-> r.path]

Cwd(p) ==
    /\ rn = <<>> /\ rn' = rn
    /\ LET r == Resolve(p) IN
       IF ~r.ok THEN Refused("CWD", p)
       ELSE IF ~Exists(r.segs) THEN Refused("CWD", p)
       ELSE LET acc == << <<"list", r.path>> >> IN          \* access(): os.listdir(p)
            /\ last' = Reply("CWD", p, IsDir(r.segs), acc) /\ Touch(acc) /\ Same
            /\ wd' = IF IsDir(r.segs) THEN r.segs ELSE wd
            /\ UNCHANGED <<dirs, files>>

(* LIST / NLST: a directory is listed, a file only stat'ed.  (NLST drops a globbing last segment first;
   the argument here is the path after that.) *)
List(p) ==
    /\ rn = <<>> /\ rn' = rn
    /\ LET r == Resolve(p) IN
       IF ~r.ok THEN Refused("LIST", p)
       ELSE LET acc == IF IsDir(r.segs) THEN << <<"list", r.path>> >> ELSE <<>> IN
            /\ last' = Reply("LIST", p, Exists(r.segs), acc) /\ Touch(acc) /\ Same
            /\ UNCHANGED <<wd, dirs, files>>

Retr(p) ==
    /\ rn = <<>> /\ rn' = rn
    /\ LET r == Resolve(p) IN
       IF ~r.ok THEN Refused("RETR", p)
       ELSE LET acc == IF IsDir(r.segs) THEN <<>> ELSE << <<"open", r.path>> >> IN
            /\ last' = Reply("RETR", p, IsFile(r.segs), acc) /\ Touch(acc) /\ Same
            /\ UNCHANGED <<wd, dirs, files>>

(* SIZE / MDTM: stat only. *)
Stat(p) ==
    /\ rn = <<>> /\ rn' = rn
    /\ LET r == Resolve(p) IN
       IF ~r.ok THEN Refused("SIZE", p)
       ELSE /\ last' = Reply("SIZE", p, Exists(r.segs), <<>>) /\ Touch(<<>>) /\ Same
            /\ UNCHANGED <<wd, dirs, files>>

Denied(cmd, p) ==          \* anonymous shell: mutating commands are refused before any path handling
    /\ last' = Reply(cmd, p, FALSE, <<>>) /\ Touch(<<>>) /\ Same
    /\ UNCHANGED <<wd, dirs, files>>

Stor(p) ==
    /\ rn = <<>> /\ rn' = rn
    /\ LET r == Resolve(p) IN
       IF ~r.ok THEN Refused("STOR", p)
       ELSE IF anon THEN Denied("STOR", p)
       ELSE IF IsDir(r.segs) THEN Refused("STOR", p)
       ELSE LET acc == << <<"open", r.path>> >>
                ok  == r.segs # <<>> /\ IsDir(Parent(r.segs))
            IN  /\ last' = Reply("STOR", p, ok, acc) /\ Touch(acc) /\ Same
                /\ files' = IF ok THEN files \cup {r.segs} ELSE files
                /\ UNCHANGED <<wd, dirs>>

(* MKD: os.makedirs -- missing ancestors are created top-down, then the directory itself. *)
Missing(segs) == {k \in 1..Len(segs) : ~Exists(SubSeq(segs, 1, k))}
Mkd(p) ==
    /\ rn = <<>> /\ rn' = rn
    /\ IF anon THEN Denied("MKD", p) ELSE
       LET r == Resolve(p) IN
       IF ~r.ok THEN Refused("MKD", p)
       ELSE LET segs == r.segs
                \* ancestors are looked at from the bottom up; creation stops being attempted at the first existing one
                low  == IF Len(segs) \notin Missing(segs) THEN Len(segs) + 1        \* start of the missing suffix
                        ELSE CHOOSE k \in Missing(segs) : (\A j \in k..Len(segs) : j \in Missing(segs)) /\ (k = 1 \/ k - 1 \notin Missing(segs))
                okanc == low = 1 \/ IsDir(SubSeq(segs, 1, low - 1))
                ok   == low <= Len(segs) /\ okanc
                made == IF ok THEN {SubSeq(segs, 1, k) : k \in low..Len(segs)} ELSE {}
                path(k) == PathOf(SubSeq(segs, 1, k)).path
                acc  == IF low > Len(segs) THEN << <<"create", r.path>> >>           \* exists already: mkdir fails
                        ELSE IF okanc THEN [i \in 1..(Len(segs) - low + 1) |-> <<"create", path(low + i - 1)>>]
                        ELSE << <<"create", path(low)>> >>                          \* below a file: first mkdir fails
            IN  /\ last' = Reply("MKD", p, ok, acc) /\ Touch(acc) /\ Same
                /\ dirs' = dirs \cup made
                /\ UNCHANGED <<wd, files>>

Rmd(p) ==
    /\ rn = <<>> /\ rn' = rn
    /\ IF anon THEN Denied("RMD", p) ELSE
       LET r == Resolve(p) IN
       IF ~r.ok THEN Refused("RMD", p)
       ELSE IF IsFile(r.segs) THEN Refused("RMD", p)
       ELSE LET acc == << <<"delete", r.path>> >>
                ok  == IsDir(r.segs) /\ Kids(r.segs) = {}
            IN  /\ last' = Reply("RMD", p, ok, acc) /\ Touch(acc) /\ Same
                /\ dirs' = IF ok THEN dirs \ {r.segs} ELSE dirs
                /\ UNCHANGED <<wd, files>>

Dele(p) ==
    /\ rn = <<>> /\ rn' = rn
    /\ IF anon THEN Denied("DELE", p) ELSE
       LET r == Resolve(p) IN
       IF ~r.ok THEN Refused("DELE", p)
       ELSE IF IsDir(r.segs) THEN Refused("DELE", p)
       ELSE LET acc == << <<"delete", r.path>> >>
            IN  /\ last' = Reply("DELE", p, IsFile(r.segs), acc) /\ Touch(acc) /\ Same
                /\ files' = files \ {r.segs}
                /\ UNCHANGED <<wd, dirs>>

Rnfr(p) ==
    /\ rn = <<>> /\ rn' = <<p>>
    /\ last' = Reply("RNFR", p, TRUE, <<>>) /\ Touch(<<>>) /\ Same
    /\ UNCHANGED <<wd, dirs, files>>

Moved(s, a, b) == IF IsPrefixSeq(a, s) THEN b \o SubSeq(s, Len(a) + 1, Len(s)) ELSE s
Rnto(q) ==
    /\ rn # <<>> /\ rn' = <<>>
    /\ LET p == rn[1]
           f == Resolve(p)
           t == Resolve(q)
       IN  IF ~f.ok \/ ~t.ok THEN Refused("RNTO", q)
           ELSE IF anon THEN Denied("RNTO", q)
           ELSE LET acc == << <<"rename", f.path>>, <<"rename", t.path>> >>
                    a == f.segs
                    b == t.segs
                    ok == /\ Exists(a)
                          /\ \/ a = b                                            \* rename onto itself succeeds
                             \/ /\ b # <<>> /\ a # <<>> /\ IsDir(Parent(b))
                                /\ ~IsPrefixSeq(a, b)                             \* not into itself
                                /\ (IsFile(a) => ~IsDir(b))
                                /\ (IsDir(a) => (~Exists(b) \/ (IsDir(b) /\ Kids(b) = {})))
                IN  /\ last' = Reply("RNTO", q, ok, acc) /\ Touch(acc) /\ Same
                    /\ dirs'  = IF ok /\ a # b THEN {Moved(s, a, b) : s \in dirs \ (IF IsDir(a) THEN {b} ELSE {})} ELSE dirs
                    /\ files' = IF ok /\ a # b THEN {Moved(s, a, b) : s \in files \ (IF IsFile(a) THEN {b} ELSE {})} ELSE files
                    /\ UNCHANGED wd

(* Any other command while RNFR is pending: refused, and the pending rename stays. *)
BadSeq(cmd, p) ==
    /\ rn # <<>> /\ rn' = rn
    /\ last' = Reply(cmd, p, FALSE, <<>>) /\ Touch(<<>>) /\ Same
    /\ UNCHANGED <<wd, dirs, files>>

FtpInit(c, m, an, D, F, w) ==
    /\ InitWith(c) /\ mode = m /\ anon = an
    /\ wd = w /\ rn = <<>> /\ dirs = D /\ files = F

(* Design-level invariants. *)
WdInside == Inside(LocOf(cfg.root \o wd))
FtpInv == NothingOutside /\ WdInside
=============================================================================
