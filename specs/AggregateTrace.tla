--------------------------- MODULE AggregateTrace ---------------------------
(* Batched trace validation: every recorded execution of the real DeferredList /
   gatherResults / race must be a behaviour of Aggregate, every logged field matched.
   The order in which the aggregate cancelled inputs inside one call is read from
   the logged "in" entries (the specification leaves it free) and then checked. *)
EXTENDS Aggregate, TLC, Json, IOUtils

Traces == JsonDeserialize(IOEnv.TRACE_FILE)
VARIABLES tid, l
ASSUME \A t \in 1..Len(Traces) : TLCSet(t, 1)

T == Traces[tid]
E == T.ev[l]

TInit == /\ tid \in 1..Len(Traces) /\ l = 1
         /\ InitWith([kind |-> Traces[tid].cfg.kind, foc |-> Traces[tid].cfg.foc, foe |-> Traces[tid].cfg.foe,
                      ce |-> Traces[tid].cfg.ce, n |-> Traces[tid].cfg.n])

KS == [j \in 1..T.cfg.n |-> T.cfg.ck[j]]
InIds(ins) == LET s == SelectSeq(ins, LAMBDA x : x[1] = "in") IN [k \in 1..Len(s) |-> s[k][2]]
\* ids of the inputs that fired in this call after the first np (those fired by the caller itself)
OrderAfter(np) == LET ids == InIds(E.ins) IN IF Len(ids) > np THEN SubSeq(ids, np + 1, Len(ids)) ELSE <<>>

Matches == /\ last'.e = E.e /\ last'.i = E.i /\ last'.o = E.o /\ last'.ret = E.ret
           /\ last'.ins = E.ins
           /\ last'.agg = E.agg
           /\ Len(E.late) = Cardinality(last'.late)
           /\ {E.late[k] : k \in 1..Len(E.late)} = last'.late

Step(A) == /\ l <= Len(T.ev) /\ A /\ Matches /\ Inv' /\ l' = l + 1 /\ UNCHANGED tid

TNext == \/ (E.e = "fire" /\ Step(Fire(E.i, E.o, OrderAfter(1), KS)))
         \/ (E.e = "cancelin" /\ Step(CancelInput(E.i, KS[E.i], OrderAfter(1), KS) \/ CancelInputNoop(E.i)))
         \/ (E.e = "construct" /\ Step(Construct(OrderAfter(0), KS)))
         \/ (E.e = "cancelagg" /\ Step(CancelAgg(OrderAfter(0), KS)))

TSpec == TInit /\ [][l <= Len(T.ev) /\ TNext]_<<vars, tid, l>>

Progress == TLCSet(tid, IF TLCGet(tid) > l THEN TLCGet(tid) ELSE l)
Rejected == {<<t, TLCGet(t)>> : t \in {u \in 1..Len(Traces) : TLCGet(u) # Len(Traces[u].ev) + 1}}
Accepted == Rejected = {} \/ (PrintT(<<"REJECTED", Rejected>>) /\ FALSE)
=============================================================================
