---------------------------- MODULE ThreePhaseSim ----------------------------
(* Behaviour generator (spec -> code): ThreePhase plus a history of the predicted
   observable of every step; the harness performs the same calls on the real object. *)
EXTENDS ThreePhase, TLC, Json
CONSTANTS Depth, MaxT
VARIABLE hist
Act(op, ph, ret, h, more) == [op |-> op, ph |-> ph, ret |-> ret, h |-> h, more |-> more]
Adds1 == {Act("add", ph, r, 0, <<>>) : ph \in Phases, r \in {"plain", "raise", "defer"}}
Rms   == {Act("rm", "-", "-", h, <<>>) : h \in 1..(MaxT + 2)}
\* a registered trigger may itself register / remove (one level of nesting)
Adds2 == {Act("add", ph, "plain", 0, <<a>>) : ph \in Phases, a \in {Act("add", p2, "plain", 0, <<>>) : p2 \in Phases} \cup {Act("rm", "-", "-", h, <<>>) : h \in 1..3}}
Scripts == {<<a>> : a \in Adds1 \cup Rms \cup Adds2} \cup {<<a, b>> : a \in Adds1 \cup Rms, b \in Rms \cup {Act("add", ph, "plain", 0, <<>>) : ph \in Phases}}
SimKinds == {K(r) : r \in Rets} \cup {[ret |-> r, acts |-> sc] : r \in {"plain", "raise", "defer"}, sc \in Scripts}
SInit == /\ \E a \in {"raw", "reactor"} : InitWith([api |-> a])
         /\ hist = <<>>
Case == /\ Len(hist) < Depth
        /\ \/ (nT < MaxT /\ \E ph \in Phases : \E k \in (IF RandomElement(1..3) = 1 THEN SimKinds ELSE {K(r) : r \in Rets}) : Add(ph, k))
           \/ \E h \in 1..nT : RemoveOk(h)
           \/ Fire
           \/ \E d \in pend, how \in {"ok", "err"} : FireDeferred(d, how)
           \/ \E d \in loose, how \in {"ok", "err"} : FireLoose(d, how)
        /\ hist' = Append(hist, last')
Finish == /\ Len(hist) = Depth
          /\ PrintT(<<"BEH", ToJson([cfg |-> cfg, hist |-> hist])>>)
          /\ hist' = <<>> /\ last' = [e |-> "done"]
          /\ UNCHANGED <<cfg, before, during, after, kind, phase, nT, state, pend, loose, ran, cur, removed>>
SNext == Case \/ Finish
SSpec == SInit /\ [][SNext]_<<vars, hist>>
Stop == last.e # "done"
=============================================================================
