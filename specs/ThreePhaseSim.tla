---------------------------- MODULE ThreePhaseSim ----------------------------
(* Behaviour generator (spec -> code): ThreePhase plus a history of the predicted
   observable of every step; the harness performs the same calls on the real object. *)
EXTENDS ThreePhase, TLC, Json
CONSTANTS Depth, MaxT
VARIABLE hist
SInit == /\ \E a \in {"raw", "reactor"} : InitWith([api |-> a])
         /\ hist = <<>>
Case == /\ Len(hist) < Depth
        /\ \/ (nT < MaxT /\ \E ph \in Phases, k \in Kinds : Add(ph, k))
           \/ \E h \in 1..nT : RemoveOk(h)
           \/ Fire
           \/ \E d \in pend, how \in {"ok", "err"} : FireDeferred(d, how)
           \/ \E d \in loose, how \in {"ok", "err"} : FireLoose(d, how)
        /\ hist' = Append(hist, last')
Finish == /\ Len(hist) = Depth
          /\ PrintT(<<"BEH", ToJson([cfg |-> cfg, hist |-> hist])>>)
          /\ hist' = <<>> /\ last' = [e |-> "done"]
          /\ UNCHANGED <<cfg, before, during, after, kind, phase, nT, state, pend, loose, ran, cur, removed>>
SNext == Case \/ Finish
SSpec == SInit /\ [][SNext]_<<vars, hist>>
Stop == last.e # "done"
=============================================================================
