--------------------------- MODULE WebSessionTrace ---------------------------
(* Batched trace validation for X08: every event of a recorded execution of the real Site/Session/Request must be
   explained by the corresponding WebSession action with the same observable outcome: result / exception class,
   callbacks and reactor-level exceptions in order, the set of sessions Site.getSession still finds, and the
   deadlines of the calls pending on the clock.  The design invariants are conjoined primed into every step. *)
EXTENDS WebSession, TLC, Json, IOUtils
Traces == JsonDeserialize(IOEnv.TRACE_FILE)
VARIABLES tid, l
ASSUME \A t \in 1..Len(Traces) : TLCSet(t, 1)
T == Traces[tid]
E == T.ev[l]
TInit == tid \in 1..Len(Traces) /\ l = 1 /\ InitWith([timeout |-> Traces[tid].cfg.timeout])
Step(A) == /\ l <= Len(T.ev) /\ A /\ Inv' /\ FinalStep
           /\ last'.res = E.res /\ last'.out = E.out
           /\ LiveSeq' = E.live /\ TimerSeq' = E.timers /\ now' = E.now
           /\ l' = l + 1 /\ UNCHANGED tid
TNext == \/ (E.e = "make" /\ Step(Make) /\ last'.fresh = E.fresh /\ last'.n = E.n)
         \/ (E.e = "get" /\ Step(Get(E.u)))
         \/ (E.e = "touch" /\ Step(Touch(E.s)) /\ last'.lm = E.lm)
         \/ (E.e = "expire" /\ Step(Expire(E.s)))
         \/ (E.e = "notify" /\ Step(Notify(E.s, E.bad)) /\ ncb' = E.c)
         \/ (E.e = "settmo" /\ Step(SetTmo(E.s, E.t)))
         \/ (E.e = "advance" /\ \E o \in Orders(DueAt(now + E.d)) : Step(Advance(E.d, o)))
         \/ (E.e = "newreq" /\ Step(NewReq(E.c)))
         \/ (E.e = "rget" /\ Step(RGet(E.r)) /\ last'.new = E.new /\ last'.cookie = E.cookie)
TSpec == TInit /\ [][l <= Len(T.ev) /\ TNext]_<<vars, tid, l>>
Progress == TLCSet(tid, IF TLCGet(tid) > l THEN TLCGet(tid) ELSE l)
Rejected == {<<t, TLCGet(t)>> : t \in {u \in 1..Len(Traces) : TLCGet(u) # Len(Traces[u].ev) + 1}}
Accepted == Rejected = {} \/ (PrintT(<<"REJECTED", Rejected>>) /\ FALSE)
=============================================================================
