----------------------------- MODULE AmpWireArgMC -----------------------------
(* Exhaustive TLC evaluation of AmpWireArg over a family of (type, value) cases built
   from boundary classes: byte-string lengths {0,1,3,65533,65534,65535,65536}, code points at
   every UTF-8 width boundary and the surrogate range, both booleans, lists of up to 3
   elements whose total crosses the 65535 limit, nested lists, AmpLists with required /
   optional fields.  For every case: either the argument does not fit and is refused, or
   Dec(Enc(v)) = v and the canonical wire passes WireOK.                                *)
EXTENDS AmpWireArg, TLC

S(n) == <<"S", Norm(<< <<0, n>> >>)>>
Name == Bytes(<<97>>)                                   \* "a"
Str == <<"Str">>
Uni == <<"Uni">>
Bool == <<"Bool">>
List(T) == <<"List", T>>

StrLens == {0, 1, 3, 65533, 65534, 65535, 65536}
CPs == {0, 65, 127, 128, 2047, 2048, 55295, 55296, 57343, 57344, 65535, 65536, 1114111}

SeqsUpTo(S0, n) == UNION {[1..k -> S0] : k \in 0..n}

Fields1 == << <<Bytes(<<97>>), Str, 0>>, <<Bytes(<<98>>), Str, 1>> >>                 \* a: String, b: String optional
Fields2 == << <<Bytes(<<97>>), Uni, 1>>, <<Bytes(<<98>>), List(Bool), 0>> >>
Fields0 == <<>>
None == <<"N", <<>> >>

Cases ==
       {<<Str, S(n)>> : n \in StrLens}
  \cup {<<Uni, <<"U", cps>> >> : cps \in SeqsUpTo(CPs, 2)}
  \cup {<<Bool, <<"B", b>> >> : b \in {0, 1}}
  \cup {<<List(Str), <<"L", es>> >> : es \in SeqsUpTo({S(n) : n \in {0, 1, 65531, 65533, 65534, 65536}}, 2)}
  \cup {<<List(Str), <<"L", <<S(0), S(1), S(n)>> >> >> : n \in {65527, 65528, 65529}}
  \cup {<<List(Bool), <<"L", es>> >> : es \in SeqsUpTo({<<"B", 0>>, <<"B", 1>>}, 3)}
  \cup {<<List(Uni), <<"L", es>> >> : es \in SeqsUpTo({<<"U", <<>> >>, <<"U", <<65536>> >>, <<"U", <<128, 55296>> >>}, 2)}
  \cup {<<List(List(Str)), <<"L", ls>> >> : ls \in SeqsUpTo({<<"L", es>> : es \in SeqsUpTo({S(0), S(1)}, 2)}, 2)}
  \cup {<<List(List(Str)), <<"L", << <<"L", <<S(n)>> >> >> >> >> : n \in {65530, 65531, 65532}}
  \cup {<< <<"AmpList", Fields1>>, <<"A", rows>> >> :
            rows \in SeqsUpTo({<<a, b>> : a \in {S(0), S(1), None}, b \in {S(0), S(3), None}}, 2)}
  \cup {<< <<"AmpList", Fields1>>, <<"A", << <<S(n), S(m)>> >> >> >> : n \in {65525, 65526, 65535, 65536}, m \in {0, 1}}
  \cup {<< <<"AmpList", Fields2>>, <<"A", rows>> >> :
            rows \in SeqsUpTo({<<a, b>> : a \in {<<"U", <<2048>> >>, None}, b \in {<<"L", <<>> >>, <<"L", << <<"B", 1>> >> >>}}, 2)}
  \cup {<< <<"AmpList", Fields0>>, <<"A", rows>> >> : rows \in SeqsUpTo({<<>>}, 3)}
  \cup {<< <<"AmpList", << <<Bytes(<<120>>), <<"AmpList", Fields1>>, 0>> >> >>,
           <<"A", << << <<"A", rows>> >> >> >> >> : rows \in SeqsUpTo({<<S(1), None>>, <<S(0), S(1)>>}, 2)}

AInit == \E c \in Cases : AInitWith([name |-> Norm(Name), t |-> c[1], v |-> c[2]])
Encode == EncodeOk(Canon)
Refuse == EncodeRefuse
Decoding == Decode
ANext == Encode \/ Refuse \/ Decoding
ASpec == AInit /\ [][ANext]_avars

(* vacuity: the canonical wire is always acceptable *)
CanonOK == (phase = "start" /\ Fits) => WireOK(Canon)
(* sanity: refusals happen exactly for the cases that do not fit *)
RefusedOnlyIfUnfit == phase = "refused" => ~Fits
=============================================================================
