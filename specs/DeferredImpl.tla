---------------------------- MODULE DeferredImpl ----------------------------
(* C01 (and the chain part of C02), Impl layer: Deferred._runCallbacks AS CODED --
   the iterative loop with its explicit `chain` list, _CONTINUE entries appended directly
   to the awaited Deferred's callback list, the single `paused` counter shared by user
   pause() and chaining, result stealing -- one action per loop iteration.

   Refinement against the reference interpreter is checked in lock step: the abstract
   variables of DeferredAbs (res, up, cbs, nId, ran, last) are carried along and updated,
   atomically at the start of every top-level operation, by the interpreter's own action;
   the coded algorithm then runs its micro-steps on the i* variables; whenever the
   algorithm is idle again the two must agree (Refines): same invocation sequence for the
   operation, same result held by every Deferred, same pause counts, same unrun callbacks.

   cfg.fixed  FALSE: the loop as it is in the tree (`if current.paused: return`)
              TRUE : the proposed repair (`chain.pop(); continue`)
   cfg.against "abs": lock step with the reference interpreter Run
               "known": lock step with RunK (DeferredKnown.tla), i.e. the interpreter plus
                        exactly the deviation of finding C01-F1.
   Expected (and checked by the harness): coded/known and fixed/abs hold; coded/abs fails
   with the F1 counterexample, which is replayed on the real code.                    *)
EXTENDS DeferredKnown, TLC

VARIABLES ires,     \* result attribute: <<"none",0>> | <<"ok",v>> | <<"err",e>> | <<"def",t>>
          ipaused,  \* the `paused` counter (user pauses + 1 while chained)
          icbs,     \* the `callbacks` list
          chain,    \* local variable `chain` of the running _runCallbacks (<<>> when idle)
          pc,       \* "idle" | "outer" | "inner" | "after"
          finished, \* local variable `finished`
          iinv,     \* user-callback invocations of the operation in progress
          iran,     \* entry ids consumed
          depth,    \* nested activations of _runCallbacks (C02: never more than one)
          maxchain, \* longest `chain` list seen in the operation in progress
          prog      \* history: the program so far (excluded from the VIEW)

ivars == <<ires, ipaused, icbs, chain, pc, finished, iinv, iran, depth, maxchain, prog>>
allvars == <<vars, ivars>>

IInit(c) ==
    /\ InitWith(c)
    /\ ires = [d \in 1..c.nd |-> NoneRes]
    /\ ipaused = [d \in 1..c.nd |-> 0]
    /\ icbs = [d \in 1..c.nd |-> <<>>]
    /\ chain = <<>> /\ pc = "idle" /\ finished = TRUE
    /\ iinv = <<>> /\ iran = {} /\ depth = 0 /\ maxchain = 0 /\ prog = <<>>

\* the interpreter the lock step is run against
AbsAdd(d, m, ok, err) == IF cfg.against = "known" THEN AddWith(RunK, d, m, ok, err) ELSE AddWith(Run, d, m, ok, err)
AbsFire(d, k, v)      == IF cfg.against = "known" THEN FireWith(RunK, d, k, v) ELSE FireWith(Run, d, k, v)
AbsUnpause(d)         == IF cfg.against = "known" THEN UnpauseWith(RunK, d) ELSE UnpauseWith(Run, d)

\* entering _runCallbacks on d (the _runningCallbacks guard is never hit: callbacks of the
\* program grammar do not call back into Deferreds)
Enter(d) == /\ chain' = <<d>> /\ pc' = "outer" /\ depth' = depth + 1 /\ maxchain' = 1
Stay     == /\ chain' = <<>> /\ pc' = "idle" /\ UNCHANGED <<depth, maxchain>>

\* ---- top-level operations (only when idle)
IAdd(d, m, ok, err) ==
    /\ pc = "idle"
    /\ AbsAdd(d, m, ok, err)
    /\ icbs' = [icbs EXCEPT ![d] = Append(@, UserEntry(nId + 1, m, ok, err))]
    /\ IF ires[d] # NoneRes THEN Enter(d) ELSE Stay          \* `if self.called: self._runCallbacks()`
    /\ iinv' = <<>> /\ prog' = Append(prog, <<"add", d, m, ok, err>>)
    /\ UNCHANGED <<ires, ipaused, finished, iran>>

IFire(d, k, v) ==
    /\ pc = "idle"
    /\ AbsFire(d, k, v)
    /\ ires' = [ires EXCEPT ![d] = <<k, v>>]                  \* _startRunCallbacks
    /\ Enter(d)
    /\ iinv' = <<>> /\ prog' = Append(prog, <<"fire", d, k, v>>)
    /\ UNCHANGED <<ipaused, icbs, finished, iran>>

IPause(d) ==
    /\ pc = "idle"
    /\ Pause(d)
    /\ ipaused' = [ipaused EXCEPT ![d] = @ + 1]
    /\ iinv' = <<>> /\ prog' = Append(prog, <<"pause", d>>)
    /\ UNCHANGED <<ires, icbs, chain, pc, finished, iran, depth, maxchain>>

IUnpause(d) ==
    /\ pc = "idle"
    /\ AbsUnpause(d)
    /\ ipaused' = [ipaused EXCEPT ![d] = @ - 1]
    /\ IF ipaused[d] - 1 = 0 /\ ires[d] # NoneRes THEN Enter(d) ELSE Stay
    /\ iinv' = <<>> /\ prog' = Append(prog, <<"unpause", d>>)
    /\ UNCHANGED <<ires, icbs, finished, iran>>

\* ---- the loop, one iteration per action
Cur == chain[Len(chain)]
Pop(s) == SubSeq(s, 1, Len(s) - 1)

\* `while chain:` ... `if current.paused:`
Outer ==
    /\ pc = "outer"
    /\ IF chain = <<>> THEN
          /\ pc' = "idle" /\ depth' = depth - 1 /\ UNCHANGED <<chain, finished>>
       ELSE IF ipaused[Cur] > 0 THEN
          IF cfg.fixed
          THEN /\ chain' = Pop(chain) /\ pc' = "outer" /\ UNCHANGED <<finished, depth>>   \* repair
          ELSE /\ chain' = <<>> /\ pc' = "idle" /\ depth' = depth - 1 /\ UNCHANGED finished  \* `return`
       ELSE
          /\ finished' = TRUE /\ pc' = "inner" /\ UNCHANGED <<chain, depth>>
    /\ UNCHANGED <<vars, ires, ipaused, icbs, iinv, iran, maxchain, prog>>

\* `while current.callbacks:` one item
Inner ==
    /\ pc = "inner"
    /\ LET cur == Cur IN
       IF icbs[cur] = <<>> THEN
          /\ pc' = "after"
          /\ UNCHANGED <<ires, ipaused, icbs, chain, finished, iinv, iran, maxchain>>
       ELSE
         LET c == Head(icbs[cur])
             in == ires[cur]
         IN IF c.cont # 0 THEN
              \* _CONTINUE: give the waiting Deferred our result, forget it, put it on the chain
              /\ ires' = [ires EXCEPT ![c.cont] = in, ![cur] = PyNone]
              /\ ipaused' = [ipaused EXCEPT ![c.cont] = @ - 1]
              /\ icbs' = [icbs EXCEPT ![cur] = Tail(@)]
              /\ chain' = Append(chain, c.cont)
              /\ maxchain' = IF Len(chain) + 1 > maxchain THEN Len(chain) + 1 ELSE maxchain
              /\ finished' = FALSE
              /\ pc' = "after"
              /\ UNCHANGED <<iinv, iran>>
            ELSE
              LET b    == IF in[1] = "err" THEN c.err ELSE c.ok      \* isinstance(result, Failure)
                  out  == Outcome(b, in)
                  isD  == out[1] = "def"
                  t    == out[2]
                  \* no usable result: unfired, itself holding a Deferred, or paused
                  wait == isD /\ (ires[t][1] \in {"none", "def"} \/ ipaused[t] > 0)
              IN
              /\ iinv' = IF b = Thru THEN iinv ELSE Append(iinv, <<c.id, SideName(c, in[1]), in[1], in[2]>>)
              /\ iran' = iran \cup {c.id}
              /\ IF ~isD THEN
                    /\ ires' = [ires EXCEPT ![cur] = out]
                    /\ icbs' = [icbs EXCEPT ![cur] = Tail(@)]
                    /\ pc' = "inner" /\ UNCHANGED ipaused
                 ELSE IF wait THEN
                    \* `current.pause(); currentResult.callbacks.append(current._continuation()); break`
                    /\ ires' = [ires EXCEPT ![cur] = <<"def", t>>]
                    /\ ipaused' = [ipaused EXCEPT ![cur] = @ + 1]
                    /\ icbs' = [icbs EXCEPT ![cur] = Tail(@), ![t] = Append(@, ContEntry(cur))]
                    /\ pc' = "after"
                 ELSE
                    \* steal it
                    /\ ires' = [ires EXCEPT ![cur] = ires[t], ![t] = PyNone]
                    /\ icbs' = [icbs EXCEPT ![cur] = Tail(@)]
                    /\ pc' = "inner" /\ UNCHANGED ipaused
              /\ UNCHANGED <<chain, finished, maxchain>>
    /\ UNCHANGED <<vars, depth, prog>>

\* `if finished: chain.pop()`
After ==
    /\ pc = "after"
    /\ chain' = IF finished THEN Pop(chain) ELSE chain
    /\ pc' = "outer"
    /\ UNCHANGED <<vars, ires, ipaused, icbs, finished, iinv, iran, depth, maxchain, prog>>

-----------------------------------------------------------------------------
\* refinement mapping (meaningful when idle)
MapRes(d) == IF ires[d][1] = "def" THEN <<"wait", ires[d][2]>> ELSE ires[d]
MapUp(d)  == ipaused[d] - (IF ires[d][1] = "def" THEN 1 ELSE 0)

\* observable part: the invocations caused by the operation
RefinesObs == pc = "idle" => iinv = last.inv
\* state part: results held, pause counts, unrun callbacks
Refines ==
    pc = "idle" =>
      /\ \A d \in D : MapRes(d) = res[d] /\ MapUp(d) = up[d] /\ icbs[d] = cbs[d]
      /\ iinv = last.inv
      /\ iran = ran
\* C02 at the level of the algorithm: one activation, whatever the chain length
DepthOne == depth <= 1
ChainBounded == Len(chain) <= cfg.nd + 1
ITypeOK == /\ pc \in {"idle", "outer", "inner", "after"}
           /\ \A d \in D : ipaused[d] >= 0
=============================================================================
