----------------------------- MODULE ChainPropMC -----------------------------
EXTENDS ChainProp, TLC
CONSTANTS MaxN, MaxF
Extras == {"none", "pre", "post", "both"}
Init == \E s \in Shapes, k \in {"ok", "err"}, x \in Extras :
            (s \in Cascade \cup Stepwise \/ x = "none") /\ InitWith([shape |-> s, kind |-> k, extra |-> x])
DoBegin == \E m \in 1..MaxN : Begin(m)
DoObserve == \E f \in 1..MaxF : Observe(f)
DoEnd == End
Next == DoBegin \/ DoObserve \/ DoEnd
Spec == Init /\ [][Next]_vars
Bound == Cardinality(runs) <= 2
View == <<cfg, n, pos, base, runs>>
\* witnesses (must be violated): a second run of a different length reuses the base
NoSecondRun == ~(Cardinality(runs) = 1 /\ n > 0 /\ pos > 0)
=============================================================================
