SPECIFICATION Spec
CONSTANT Depth = 6
CONSTANT MaxW = 7
CONSTANT Small = FALSE
CONSTRAINT Bound
VIEW View
INVARIANT Accepted
INVARIANT Glue
INVARIANT PrefixInv
INVARIANT ProdInv
INVARIANT CloseInv
CHECK_DEADLOCK FALSE
