SPECIFICATION Spec
CONSTANT Depth = 5
CONSTANT MaxW = 6
CONSTANT Small = FALSE
CONSTRAINT Bound
VIEW View
INVARIANT Accepted
INVARIANT Glue
INVARIANT PrefixInv
INVARIANT ProdInv
INVARIANT CloseInv
CHECK_DEADLOCK FALSE
