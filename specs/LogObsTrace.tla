---------------------------- MODULE LogObsTrace ----------------------------
(* Batched trace validation: every recorded execution of the real LogPublisher /
   FilteringLogObserver+LogLevelFilterPredicate / LimitedHistoryLogObserver must be a
   behaviour of LogObs with every logged field matching.  For publish the logged
   delivery sequence itself is the action's argument: it is accepted iff it satisfies
   the property (ValidDelivery).                                                   *)
EXTENDS LogObs, TLC, Json, IOUtils

Traces == JsonDeserialize(IOEnv.TRACE_FILE)
VARIABLES tid, l
ASSUME \A t \in 1..Len(Traces) : TLCSet(t, 1)

T == Traces[tid]
E == T.ev[l]

TInit == /\ tid \in 1..Len(Traces) /\ l = 1
         /\ InitWith([default |-> Traces[tid].cfg.default, size |-> Traces[tid].cfg.size])

Step(A, M) == /\ l <= Len(T.ev) /\ E.res = "ok" /\ A /\ M /\ Inv' /\ l' = l + 1 /\ UNCHANGED tid

\* the filtering observer hands a passing event to the wrapped observer (once) and a failing one
\* to the negative observer (once); the predicate itself says "no" exactly for the failing ones
MFilter == /\ E.pos = (IF last'.pass THEN 1 ELSE 0)
           /\ E.neg = (IF last'.pass THEN 0 ELSE 1)
           /\ E.no = ~last'.pass

TNext == \/ (E.e = "addobs"  /\ Step(AddObs(E.o, E.kd), TRUE))
         \/ (E.e = "rmobs"   /\ Step(RemoveObs(E.o), TRUE))
         \/ (E.e = "publish" /\ Step(Publish(E.dl), last'.ev = E.ev))
         \/ (E.e = "setlevel" /\ Step(SetLevel(E.ns, E.lv), TRUE))
         \/ (E.e = "clearlevels" /\ Step(ClearLevels, TRUE))
         \/ (E.e = "filter"  /\ Step(FilterEvent(E.ns, E.lv), MFilter))
         \/ (E.e = "level"   /\ Step(QueryLevel(E.ns), last'.lv = E.lv))
         \/ (E.e = "buf"     /\ Step(BufEvent, last'.ev = E.ev))
         \/ (E.e = "replay"  /\ Step(Replay, last'.dl = E.dl))

TSpec == TInit /\ [][l <= Len(T.ev) /\ TNext]_<<vars, tid, l>>

Progress == TLCSet(tid, IF TLCGet(tid) > l THEN TLCGet(tid) ELSE l)
Rejected == {<<t, TLCGet(t)>> : t \in {u \in 1..Len(Traces) : TLCGet(u) # Len(Traces[u].ev) + 1}}
Accepted == Rejected = {} \/ (PrintT(<<"REJECTED", Rejected>>) /\ FALSE)
=============================================================================
