---------------------------- MODULE TPoolTrace ----------------------------
(* Batched validation of event logs of the real ThreadPool run with real threads. *)
EXTENDS TPool, TLC, Json, IOUtils

Traces == JsonDeserialize(IOEnv.TRACE_FILE)
VARIABLES tid, l
ASSUME \A t \in 1..Len(Traces) : TLCSet(t, 1)

T == Traces[tid]
E == T.ev[l]

TInit == /\ tid \in 1..Len(Traces) /\ l = 1
         /\ InitWith([max |-> Traces[tid].cfg.max])

\* every event carries e, t, th, ok (unused fields are 0 / FALSE); they are the actions' arguments
Step(A) == /\ l <= Len(T.ev) /\ A /\ Inv' /\ l' = l + 1 /\ UNCHANGED tid

TNext == \/ (E.e = "start" /\ Step(Start))
         \/ (E.e = "adjust" /\ Step(Adjust(E.t)))
         \/ (E.e = "submit" /\ Step(Submit(E.t)))
         \/ (E.e = "spawn" /\ Step(Spawn(E.th)))
         \/ (E.e = "begin" /\ Step(Begin(E.t, E.th)))
         \/ (E.e = "end" /\ Step(End(E.t, E.th, E.ok)))
         \/ (E.e = "result" /\ Step(Result(E.t, E.th, E.ok)))
         \/ (E.e = "exit" /\ Step(Exit(E.th)))
         \/ (E.e = "stop_call" /\ Step(StopCall))
         \/ (E.e = "stop_ret" /\ Step(StopRet(E.t)))

TSpec == TInit /\ [][l <= Len(T.ev) /\ TNext]_<<vars, tid, l>>

Progress == TLCSet(tid, IF TLCGet(tid) > l THEN TLCGet(tid) ELSE l)
Rejected == {<<t, TLCGet(t)>> : t \in {u \in 1..Len(Traces) : TLCGet(u) # Len(Traces[u].ev) + 1}}
Accepted == Rejected = {} \/ (PrintT(<<"REJECTED", Rejected>>) /\ FALSE)
=============================================================================
