SPECIFICATION Spec
CONSTRAINT Bound
VIEW View
CONSTANT Configs <- ConfigsReach
CONSTANT Ops <- OpsRd
CONSTANT MSizes <- SizesReach
CONSTANT Depth <- DepthRd
CONSTANT Advs <- AdvsRd
INVARIANT NoOrphanClobber
CHECK_DEADLOCK FALSE
