SPECIFICATION Spec
CONSTRAINT Bound
VIEW View
CONSTANT Configs <- ConfigsReach2
CONSTANT Ops <- OpsRd
CONSTANT MSizes <- SizesReach
CONSTANT Depth <- DepthRd
CONSTANT Advs <- AdvsReach
INVARIANT NoOrphanClobber
CHECK_DEADLOCK FALSE
