------------------------------- MODULE PathNS -------------------------------
(* C26 / C54 -- confinement of path-taking operations to a directory tree.

   A *path* is the sequence of components of a path string split at "/"
   ("/a/b" = <<"", "a", "b">>, "a//b" = <<"a", "", "b">>, "/" = <<"", "">>,
   "" = <<"">>).  Components are opaque strings; only "", "." and ".." have a
   meaning.  A *location* is a sequence of names below the file-system root
   (<<>> is "/").

   Layers
     * lexical library: Walk (what a POSIX kernel resolves a path to, symbolic
       links aside), NormP / Join / Abspath (posixpath.normpath / join /
       abspath transcribed);
     * the property (Abs): which outcomes of child / preauthChild / descendant
       and which file-system accesses of a web request or an FTP command are
       allowed -- nothing about *which* allowed outcome is chosen;
     * the algorithms (Impl, used by the MC modules only): child, preauthChild,
       descendant, File.getChild lookup, toSegments, with the containment test
       either component-wise or the string prefix test.

   cfg is a VARIABLE: [root |-> path of the confined root, cwd |-> path of the
   process working directory (absolute), rootloc, cwdloc |-> their locations].                                     *)
EXTENDS Naturals, Sequences, FiniteSets

-----------------------------------------------------------------------------
(* Lexical library *)
Front(s) == SubSeq(s, 1, Len(s) - 1)
Last(s)  == s[Len(s)]
IsAbs(p) == Len(p) >= 2 /\ p[1] = ""          \* the string starts with "/"
IsPrefixSeq(a, b) == Len(a) <= Len(b) /\ SubSeq(b, 1, Len(a)) = a

(* Resolution as the kernel does it, symbolic links aside: walk the components
   from the starting location; "" and "." stay, ".." goes to the parent (the
   parent of "/" is "/").  If a path resolves at all it resolves to this.     *)
WalkStep(loc, c) == IF c = "" \/ c = "." THEN loc
                    ELSE IF c = ".." THEN (IF loc = <<>> THEN loc ELSE Front(loc))
                    ELSE Append(loc, c)
RECURSIVE WalkFrom(_, _, _)
WalkFrom(loc, p, i) == IF i > Len(p) THEN loc ELSE WalkFrom(WalkStep(loc, p[i]), p, i + 1)
Walk(loc, p) == WalkFrom(loc, p, 1)
Loc(cwd, p) == IF IsAbs(p) THEN Walk(<<>>, p) ELSE Walk(Walk(<<>>, cwd), p)

(* posixpath.normpath, transcribed.  Result is again a split path string. *)
Slashes(p) == IF ~IsAbs(p) THEN 0
              ELSE IF Len(p) >= 3 /\ p[2] = "" /\ ~(Len(p) >= 4 /\ p[3] = "") THEN 2
              ELSE 1
NormPush(acc, c, abs) ==
    IF c = "" \/ c = "." THEN acc
    ELSE IF c # ".." \/ (~abs /\ acc = <<>>) \/ (acc # <<>> /\ Last(acc) = "..") THEN Append(acc, c)
    ELSE IF acc # <<>> THEN Front(acc) ELSE acc
RECURSIVE NormFold(_, _, _)
NormFold(acc, p, abs) == IF p = <<>> THEN acc ELSE NormFold(NormPush(acc, Head(p), abs), Tail(p), abs)
NormP(p) ==
    IF p = <<"">> THEN <<".">>                                   \* normpath("") == "."
    ELSE LET n  == Slashes(p)
             cs == NormFold(<<>>, p, n > 0)
         IN  IF n = 0 THEN (IF cs = <<>> THEN <<".">> ELSE cs)
             ELSE IF n = 1 THEN (IF cs = <<>> THEN <<"", "">> ELSE <<"">> \o cs)
             ELSE (IF cs = <<>> THEN <<"", "", "">> ELSE <<"", "">> \o cs)

(* posixpath.join(a, b) *)
Join(a, b) == IF IsAbs(b) THEN b
              ELSE IF a = <<"">> THEN b
              ELSE IF Last(a) = "" THEN Front(a) \o b
              ELSE a \o b
(* posixpath.abspath(p) with working directory cwd *)
Abspath(cwd, p) == NormP(IF IsAbs(p) THEN p ELSE Join(cwd, p))

-----------------------------------------------------------------------------
(* The property *)
VARIABLES cfg,      \* [root, cwd]
          touched,  \* history: set of <<kind, location>> accessed so far
          last      \* observable outcome of the last action

vars == <<cfg, touched, last>>

RootLoc == cfg.rootloc                      \* = Loc(cfg.cwd, cfg.root), computed once in InitWith
LocOf(p) == IF IsAbs(p) THEN Walk(<<>>, p) ELSE Walk(cfg.cwdloc, p)     \* = Loc(cfg.cwd, p)

Inside(loc)       == IsPrefixSeq(RootLoc, loc)                   \* in the root's subtree (the root included)
DirectOrSelf(loc) == Inside(loc) /\ Len(loc) <= Len(RootLoc) + 1   \* the root itself or directly inside it

InitWith(c) == /\ cfg = [root |-> c.root, cwd |-> c.cwd, rootloc |-> Loc(c.cwd, c.root), cwdloc |-> Walk(<<>>, c.cwd)]
               /\ touched = {} /\ last = [e |-> "init"]

(* FilePath.child(name) on the root: a path that is the parent itself or
   directly inside it, or InsecurePath. *)
ChildRet(p) ==
    /\ DirectOrSelf(LocOf(p))
    /\ last' = [e |-> "child", res |-> "ok", path |-> p]
    /\ UNCHANGED <<cfg, touched>>
ChildRaise ==
    /\ last' = [e |-> "child", res |-> "InsecurePath"]
    /\ UNCHANGED <<cfg, touched>>

(* FilePath.preauthChild(name), FilePath.descendant(segments): inside the
   parent's subtree, or InsecurePath. *)
PreauthRet(p) ==
    /\ Inside(LocOf(p))
    /\ last' = [e |-> "preauthChild", res |-> "ok", path |-> p]
    /\ UNCHANGED <<cfg, touched>>
PreauthRaise ==
    /\ last' = [e |-> "preauthChild", res |-> "InsecurePath"]
    /\ UNCHANGED <<cfg, touched>>
DescRet(p) ==
    /\ Inside(LocOf(p))
    /\ last' = [e |-> "descendant", res |-> "ok", path |-> p]
    /\ UNCHANGED <<cfg, touched>>
DescRaise ==
    /\ last' = [e |-> "descendant", res |-> "InsecurePath"]
    /\ UNCHANGED <<cfg, touched>>

(* One web request against a static file resource rooted at cfg.root, or one
   FTP command against a shell rooted at cfg.root.  acc is the sequence of
   <<kind, path>> file-system accesses it made (kind in open / list / create /
   rename / delete / other), served the sequence of paths of the files whose
   content went out on the wire.  What is opened, listed, created, renamed,
   deleted or served must be inside the root.                                 *)
AccLocs(acc) == {<<acc[i][1], LocOf(acc[i][2])>> : i \in 1..Len(acc)}
Constrained == {"open", "list", "create", "rename", "delete"}      \* the verbs the property names; kind "other"
                                                                  \* (chmod, utime, ...) is logged but not constrained
Confined(acc, served) ==
    /\ \A i \in 1..Len(acc) : acc[i][1] \in Constrained => Inside(LocOf(acc[i][2]))
    /\ \A i \in 1..Len(served) : Inside(LocOf(served[i]))
WebReq(acc, served) ==
    /\ Confined(acc, served)
    /\ touched' = touched \cup AccLocs(acc) \cup {<<"served", LocOf(served[i])>> : i \in 1..Len(served)}
    /\ last' = [e |-> "web", acc |-> acc, served |-> served]
    /\ UNCHANGED cfg
FtpCmd(acc, served) ==
    /\ Confined(acc, served)
    /\ touched' = touched \cup AccLocs(acc) \cup {<<"served", LocOf(served[i])>> : i \in 1..Len(served)}
    /\ last' = [e |-> "ftp", acc |-> acc, served |-> served]
    /\ UNCHANGED cfg

(* Invariants (conjoined primed into every trace step). *)
NothingOutside == \A t \in touched : t[1] \in Constrained \cup {"served"} => Inside(t[2])
LastConfined ==
    /\ (last.e = "child" /\ last.res = "ok" => DirectOrSelf(LocOf(last.path)))
    /\ (last.e \in {"preauthChild", "descendant"} /\ last.res = "ok" => Inside(LocOf(last.path)))
Inv == NothingOutside /\ LastConfined

-----------------------------------------------------------------------------
(* Algorithms (Impl layer; evaluated by the MC modules).
   mode = "component": containment decided component-wise;
   mode = "string":    containment decided by newpath.startswith(ourPath) on
                       the path strings.  PrefixPairs (a set of <<x, y>> with
                       x a proper string prefix of y) tells which component
                       names are string prefixes of which.                   *)
NamePrefix(x, y, PrefixPairs) == x = y \/ x = "" \/ <<x, y>> \in PrefixPairs
StartsWith(s, pre, mode, PrefixPairs) ==
    IF mode = "component"
    THEN IsPrefixSeq(Walk(<<>>, pre), Walk(<<>>, s))
    ELSE /\ Len(s) >= Len(pre)
         /\ SubSeq(s, 1, Len(pre) - 1) = Front(pre)
         /\ NamePrefix(Last(pre), s[Len(pre)], PrefixPairs)

Raise == [ok |-> FALSE, path |-> <<>>]
Ret(p) == [ok |-> TRUE, path |-> p]

(* FilePath.child: norm = normpath(name); sep in norm -> raise;
   newpath = abspath(join(ourPath, norm)); not startswith -> raise. *)
AlgChild(cwd, our, name, mode, PP) ==
    LET norm == NormP(name)
        new  == Abspath(cwd, Join(our, norm))
    IN  IF Len(norm) > 1 THEN Raise
        ELSE IF ~StartsWith(new, our, mode, PP) THEN Raise
        ELSE Ret(new)
AlgPreauth(cwd, our, name, mode, PP) ==
    LET new == Abspath(cwd, Join(our, NormP(name)))
    IN  IF ~StartsWith(new, our, mode, PP) THEN Raise ELSE Ret(new)
RECURSIVE AlgDesc(_, _, _, _, _)
AlgDesc(cwd, our, names, mode, PP) ==
    IF names = <<>> THEN Ret(our)
    ELSE LET r == AlgChild(cwd, our, Head(names), mode, PP)
         IN  IF ~r.ok THEN Raise ELSE AlgDesc(cwd, r.path, Tail(names), mode, PP)

(* twisted.protocols.ftp.toSegments(cwd, path): cwdsegs a sequence of names,
   path a split path string, nul the set of component names that contain a
   NUL character.  Result [ok, segs]. *)
RECURSIVE SegFold(_, _, _)
SegFold(segs, p, nul) ==
    IF p = <<>> THEN [ok |-> TRUE, segs |-> segs]
    ELSE LET s == Head(p)
         IN  IF s = "." \/ s = "" THEN SegFold(segs, Tail(p), nul)
             ELSE IF s = ".." THEN (IF segs # <<>> THEN SegFold(Front(segs), Tail(p), nul)
                                    ELSE [ok |-> FALSE, segs |-> <<>>])
             ELSE IF s \in nul THEN [ok |-> FALSE, segs |-> <<>>]
             ELSE SegFold(Append(segs, s), Tail(p), nul)
ToSegments(cwdsegs, p, nul) == SegFold(IF IsAbs(p) THEN <<>> ELSE cwdsegs, p, nul)
=============================================================================
