---------------------------- MODULE WriteBufImplMC ----------------------------
(* TLC: the buffer algorithm as coded (WriteBufImpl) is accepted by the property (WriteBufAbs).
   Product construction: an op is executed atomically by Exec and its micro-events are queued in q
   (IOp); they are then fed one per step to the acceptor (IEmit).  ok = every micro-event so far was
   accepted.  Invariants: ok, the acceptor's Inv, and the gluing relation between the two layers.   *)
EXTENDS WriteBufAbs, TLC
CONSTANTS Depth, MaxW, Small      \* Small = TRUE: reduced op alphabet (quick tier)
VARIABLES I, q, ok, nops
Impl == INSTANCE WriteBufImpl

Cfgs == {[bufferSize |-> 2, sendLimit |-> 3], [bufferSize |-> 3, sendLimit |-> 1]}
Init == \E c \in Cfgs : /\ InitWith([bufferSize |-> c.bufferSize]) /\ I = Impl!IInit(c)
                        /\ q = <<>> /\ ok = TRUE /\ nops = 0

A(w, n) == [a |-> w, n |-> n, ns |-> <<>>]
Scripts == {<<>>, <<A("w", 2)>>, <<A("w", 3), A("fin", 0)>>, <<[a |-> "ws", n |-> 0, ns |-> <<1, 1>>], A("-", 0), A("w", 1)>>}
O(op) == [op |-> op, n |-> 0, ns |-> <<>>, kind |-> "-", script |-> <<>>, acc |-> 0]
Ops == {[O("write") EXCEPT !.n = n] : n \in IF Small THEN {1, 3} ELSE 0..3}
       \cup {[O("writeseq") EXCEPT !.ns = s] : s \in IF Small THEN {<<1, 2>>} ELSE {<<>>, <<1, 2>>, <<0, 3>>}}
       \cup {[O("reg") EXCEPT !.kind = "push"]}
       \cup {[O("reg") EXCEPT !.kind = "pull", !.script = s] : s \in IF Small THEN {<<A("w", 3), A("fin", 0)>>} ELSE Scripts}
       \cup {O("unreg"), O("lose"), O("losew"), O("ppause")}
DoWrites == {[O("dowrite") EXCEPT !.acc = k] : k \in (0 - 1)..Len(Impl!Offered(I))}

Do(o) == /\ q = <<>> /\ ok
         /\ LET res == Impl!Exec(I, o) IN I' = [res EXCEPT !.evs = <<>>] /\ q' = res.evs
         /\ nops' = nops + 1
         /\ UNCHANGED <<vars, ok>>
IWrite    == q = <<>> /\ \E o \in {x \in Ops : x.op = "write"} : Do(o)
IWriteSeq == q = <<>> /\ \E o \in {x \in Ops : x.op = "writeseq"} : Do(o)
IReg      == q = <<>> /\ \E o \in {x \in Ops : x.op = "reg"} : Do(o)
IUnreg    == q = <<>> /\ Do(O("unreg"))
ILose     == q = <<>> /\ Do(O("lose"))
ILoseW    == q = <<>> /\ Do(O("losew"))
IOther    == q = <<>> /\ Do(O("ppause"))
IDoWrite  == Impl!CanDoWrite(I) /\ \E o \in DoWrites : Do(o)

\* the acceptor's action for one micro-event
Mon(e) == CASE e.e = "write"    -> Write(e.n) /\ e.d = Len(stack)
            [] e.e = "writeseq" -> WriteSeq(e.ns) /\ e.d = Len(stack)
            [] e.e = "reg"      -> Reg(e.r) /\ e.d = Len(stack)
            [] e.e = "unreg"    -> Unreg /\ e.d = Len(stack)
            [] e.e = "lose"     -> Lose /\ e.d = Len(stack)
            [] e.e = "losew"    -> LoseW /\ e.d = Len(stack)
            [] e.e \in {"ppause", "presume"} -> Other(e.e) /\ e.d = Len(stack)
            [] e.e = "dowrite"  -> DoWrite /\ e.d = Len(stack)
            [] e.e = "lost"     -> Lost /\ e.d = Len(stack)
            [] e.e = "wsd"      -> Wsd(e.off, e.len, e.acc, e.contig)
            [] e.e = "pause"    -> Pause
            [] e.e = "resume"   -> Resume
            [] e.e = "pstop"    -> PStop
            [] e.e = "addw"     -> AddW
            [] e.e = "rmw"      -> RmW
            [] e.e = "wclose"   -> WClose
            [] e.e = "closed"   -> Closed
            [] e.e = "end"      -> End(e.of, e.r) /\ e.d = Len(stack')
            [] OTHER            -> FALSE
IEmit == /\ q # <<>> /\ ok
         /\ q' = Tail(q) /\ UNCHANGED <<I, nops>>
         /\ IF ENABLED Mon(Head(q)) THEN Mon(Head(q)) /\ ok' = TRUE
                                    ELSE ok' = FALSE /\ UNCHANGED vars

Next == IWrite \/ IWriteSeq \/ IReg \/ IUnreg \/ ILose \/ ILoseW \/ IOther \/ IDoWrite \/ IEmit
Spec == Init /\ [][Next]_<<vars, I, q, ok, nops>>

Accepted == ok            \* every micro-event of the coded algorithm is allowed by the property
\* gluing: between calls the acceptor's view equals the algorithm's bookkeeping
Glue == (q = <<>> /\ ok) =>
          /\ written - handed = (Len(I.buf) - I.off) + I.tlen
          /\ connected = I.conn /\ inW = I.inW /\ prod = I.prod /\ wclosed = I.wded
          /\ Impl!Consecutive(SubSeq(I.buf, I.off + 1, Len(I.buf)) \o Impl!Flat(I.tmp))
Bound == I.next <= MaxW /\ nops <= Depth
View == <<vars, [I EXCEPT !.d = 0], q, ok>>
=============================================================================
