SPECIFICATION SSpec
CONSTANT MaxWrites = 5
CONSTANT Variant = "coded"
CONSTANT Depth = 6
CONSTRAINT Emit
CONSTRAINT Stop
CHECK_DEADLOCK FALSE
