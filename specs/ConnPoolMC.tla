------------------------------ MODULE ConnPoolMC ------------------------------
EXTENDS ConnPool, TLC
Init == \E m \in 1..2, t \in {1, 3} : InitWith([max |-> m, timeout |-> t])
Spec == Init /\ [][Next]_vars
Bound == nconn <= 3 /\ now <= 4 /\ TLCGet("level") <= 8
View == <<cfg, now, cached, deadline, inuse, dead, closed, keyOf, nconn, putseq, korder>>
=============================================================================
