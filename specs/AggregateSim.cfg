SPECIFICATION SSpec
CONSTANT Depth = 8
CONSTANT MaxN = 5
CONSTRAINT Emit
CONSTRAINT Stop
CHECK_DEADLOCK FALSE
