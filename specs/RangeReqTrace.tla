---------------------------- MODULE RangeReqTrace ----------------------------
(* Batched trace validation: one real request/response per trace.  The response recorded from
   the real twisted.web.static.File (through a real Site + HTTPChannel) must be one of the
   responses RangeReq allows for that case; the pointwise statement (Inv) is evaluated too. *)
EXTENDS RangeReq, TLC, Json, IOUtils

Traces == JsonDeserialize(IOEnv.TRACE_FILE)
VARIABLES tid, l
ASSUME \A t \in 1..Len(Traces) : TLCSet(t, 1)

T == Traces[tid]
E == T.ev[l]

TInit == /\ tid \in 1..Len(Traces) /\ l = 1
         /\ InitWith(Traces[tid].cfg)

\* every logged field is either compared by Allowed or (416 body) left free by the property
TNext == /\ l <= Len(T.ev)
         /\ E.e = "resp" /\ resp.e = "init"
         /\ (Allowed(cfg, E) = TRUE)      \* evaluated as a state predicate (short-circuit), not split into sub-actions
         /\ resp' = E
         /\ l' = l + 1 /\ UNCHANGED <<tid, cfg>>
         /\ Inv'

TSpec == TInit /\ [][TNext]_<<vars, tid, l>>

Progress == TLCSet(tid, IF TLCGet(tid) > l THEN TLCGet(tid) ELSE l)
Rejected == {<<t, TLCGet(t)>> : t \in {u \in 1..Len(Traces) : TLCGet(u) # Len(Traces[u].ev) + 1}}
Accepted == Rejected = {} \/ (PrintT(<<"REJECTED", Rejected>>) /\ FALSE)
=============================================================================
