SPECIFICATION Spec
CONSTRAINT Bound
VIEW View
CONSTANT Configs <- ConfigsReach
CONSTANT Ops <- OpsRd
CONSTANT MSizes <- SizesReach
CONSTANT Depth <- DepthRd
CONSTANT Advs <- AdvsReach
INVARIANT NoLeakedChain
CHECK_DEADLOCK FALSE
