SPECIFICATION SSpec
CONSTANT Depth = 12
CONSTRAINT Emit
CONSTRAINT Stop
CHECK_DEADLOCK FALSE
