SPECIFICATION Spec
CONSTANT Depth = 9
CONSTANT MaxW = 4
CONSTRAINT Bound
INVARIANT PrefixInv
INVARIANT ProdInv
INVARIANT CloseInv
CHECK_DEADLOCK FALSE
