SPECIFICATION Spec
CONSTANT MaxO = 3
CONSTANT MaxE = 2
CONSTANT MaxOps = 5
CONSTANT Segs = {"a", "b"}
CONSTANT NsDepth = 2
CONSTANT MaxS = 3
CONSTANT MCLevels = {1, 2, 3}
CONSTANT MaxSize = 3
CONSTANT MaxB = 5
INVARIANT PubExactlyOnce
INVARIANT PubNoDuplicates
INVARIANT FilterDecision
INVARIANT BufferLastN
CHECK_DEADLOCK FALSE
