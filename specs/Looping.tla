------------------------------- MODULE Looping -------------------------------
(* C10 -- twisted.internet.task.LoopingCall on a stepped clock (task.Clock).

   State = what the property talks about: the clock, the grid of boundaries
   base + k*iv, when the previous call completed, whether its Deferred is still
   unfired, the calls made (time, count), and the results delivered to the
   Deferred returned by start().  One action per public call outcome; the
   function's behaviour (returns / raises / returns a Deferred fired later) is
   chosen by the environment.  Times are integer ticks (the harness scales
   dyadic floats).  cfg is a VARIABLE so one TLC run covers all configurations.

   Freedom the property leaves, kept nondeterministic here:
   * when start()'s Deferred fires if stop() is called while a call's Deferred is
     outstanding (at once, or when that Deferred fires), and with what if that
     Deferred then fails (the loop itself, or the failure);
   * whether reset() while a call's Deferred is outstanding re-bases the grid;
   * with withCount, how many of the boundaries that elapsed *before* a reset()
     are still reported by the first call after it (0 .. all of them);
   * the result of stop()/reset() on a loop that is not running.

   reset() is NOT part of property C10 (it quantifies over intervals, start mode, clock
   advances, function behaviours and stop()), and the property does not say what the
   boundaries or the "boundaries elapsed" are once the timer was reset.  With
   cfg.strict = FALSE (the verdict) a history is therefore checked, from its first
   effective reset() on, only for the clauses that stay well defined: no overlap, no call
   after start()'s Deferred fired, that Deferred exactly once.  Call times and counts after
   a reset are then free.  cfg.strict = TRUE keeps the re-based grid described above; the
   harness uses it only to report where the implementation differs (impl_drift).      *)
EXTENDS Naturals, Integers, Sequences, FiniteSets

VARIABLES cfg,      \* [iv |-> interval > 0, nowFlag |-> BOOLEAN, wc |-> BOOLEAN (withCount), t0 |-> time of start(),
                    \*  strict |-> BOOLEAN (see header)]
          now,      \* clock
          run,      \* "idle" | "running" | "stopreq" | "stopped" | "failed"
          inner,    \* TRUE while the Deferred returned by the latest call is unfired
          base,     \* origin of the current boundary grid (start time, or time of last reset)
          due,      \* boundary the next call is scheduled for (meaningful when running /\ ~inner)
          lastDone, \* time the previous call completed (-1: none yet)
          missed,   \* boundaries elapsed since the previous call (the count the next call must report)
          fuzzy,    \* a reset happened since the previous call (see header)
          nreset,   \* an effective reset happened (0/1)
          lc,       \* the latest call (record, see CallEff; t = -1: none yet) -- every call is checked when made
          ncalls,   \* number of calls so far
          sumc,     \* sum of the counts passed so far
          sd,       \* results delivered to start()'s Deferred, in order
          last      \* observable outcome of the last action

vars == <<cfg, now, run, inner, base, due, lastDone, missed, fuzzy, nreset, lc, ncalls, sumc, sd, last>>

\* what the function does when called; "stop..." = it first calls stop() on the loop itself
Behs == {"ret", "raise", "defer", "stopret", "stopraise", "stopdefer"}

NoCall == [t |-> -1, cnt |-> 0, beh |-> "none", due |-> 0, base |-> 0, prevDone |-> -1, prevNow |-> -1,
           nsd |-> 0, ovl |-> FALSE, rb |-> FALSE, loose |-> FALSE]

InitWith(c) ==
    /\ cfg = c /\ now = c.t0
    /\ run = "idle" /\ inner = FALSE /\ base = c.t0 /\ due = 0 /\ lastDone = -1
    /\ missed = 0 /\ fuzzy = FALSE /\ nreset = 0
    /\ lc = NoCall /\ ncalls = 0 /\ sumc = 0 /\ sd = <<>>
    /\ last = [e |-> "init"]

\* number of boundaries of the grid (b, iv) in (b, x]
Bnd(b, x) == (x - b) \div cfg.iv
\* first boundary of the grid strictly after c  (c >= b)
NextB(b, c) == b + cfg.iv * (((c - b) \div cfg.iv) + 1)

\* the count a call at time t may be given when m boundaries elapsed since the previous call
\* a reset() happened and the verdict does not extend to timing/counts after it
Loose == ~cfg.strict /\ nreset = 1

CntOK(cnt, m, t, b, fz) ==
    IF ~cfg.wc THEN cnt = 0
    ELSE IF Loose THEN cnt >= 0
    ELSE IF fz THEN cnt \in Bnd(b, t)..m
    ELSE cnt = m

\* the function is invoked at time t (clock reading) with count cnt and behaves as bh.
\* b = grid origin in force, dueWas = boundary it was scheduled for (t for an immediate first call).
CallEff(t, cnt, bh, b, dueWas, rb) ==
    /\ lc' = [t |-> t, cnt |-> cnt, beh |-> bh, due |-> dueWas, base |-> b,
              prevDone |-> lastDone, prevNow |-> now, nsd |-> Len(sd), ovl |-> inner, rb |-> rb, loose |-> Loose]
    /\ ncalls' = ncalls + 1 /\ sumc' = sumc + cnt
    /\ missed' = 0 /\ fuzzy' = FALSE
    /\ CASE bh = "ret"   -> /\ lastDone' = t /\ due' = NextB(b, t) /\ inner' = FALSE
                            /\ run' = "running" /\ sd' = sd
         [] bh = "raise" -> /\ lastDone' = t /\ due' = due /\ inner' = FALSE
                            /\ run' = "failed" /\ sd' = Append(sd, "fail")
         [] bh = "defer" -> /\ lastDone' = lastDone /\ due' = due /\ inner' = TRUE
                            /\ run' = "running" /\ sd' = sd
         [] bh = "stopret" -> /\ lastDone' = t /\ due' = due /\ inner' = FALSE
                              /\ run' = "stopped" /\ sd' = Append(sd, "self")
         [] bh = "stopraise" -> /\ lastDone' = t /\ due' = due /\ inner' = FALSE
                                /\ \/ (run' = "stopped" /\ sd' = Append(sd, "self"))
                                   \/ (run' = "failed" /\ sd' = Append(sd, "fail"))
         [] bh = "stopdefer" -> /\ lastDone' = lastDone /\ due' = due /\ inner' = TRUE
                                /\ \/ (run' = "stopreq" /\ sd' = sd)
                                   \/ (run' = "stopped" /\ sd' = Append(sd, "self"))

NewSd == SubSeq(sd', Len(sd) + 1, Len(sd'))
Obs(t, cnt, bh) == << [t |-> t, c |-> cnt, b |-> bh] >>

(* start(interval, now=nowFlag) at time cfg.t0 *)
StartNow(bh) ==
    /\ run = "idle" /\ cfg.nowFlag
    /\ \E cnt \in 0..1 :
          /\ CntOK(cnt, 1, now, now, FALSE)
          /\ CallEff(now, cnt, bh, now, now, FALSE)
          /\ last' = [e |-> "start", res |-> "ok", calls |-> Obs(now, cnt, bh), sd |-> NewSd]
    /\ base' = now
    /\ UNCHANGED <<cfg, now, nreset>>

StartLater ==
    /\ run = "idle" /\ ~cfg.nowFlag
    /\ run' = "running" /\ base' = now /\ due' = now + cfg.iv
    /\ last' = [e |-> "start", res |-> "ok", calls |-> <<>>, sd |-> <<>>]
    /\ UNCHANGED <<cfg, now, inner, lastDone, missed, fuzzy, nreset, lc, ncalls, sumc, sd>>

Active == run \in {"running", "stopreq"}

(* clock.advance(d): the call scheduled for `due` runs in the first advance that reaches it,
   and observes the time at the end of the advance.  (xc: how far above the elapsed boundaries a
   count is considered at all -- only matters when Loose.) *)
AdvanceCall(d, bh, xc) ==
    /\ run = "running" /\ ~inner /\ (due <= now + d \/ Loose)
    /\ now' = now + d
    /\ LET m == missed + Bnd(base, now + d) - Bnd(base, now) IN
       \E cnt \in 0..(m + xc) :
          /\ CntOK(cnt, m, now + d, base, fuzzy)
          /\ CallEff(now + d, cnt, bh, base, due, fuzzy)
          /\ last' = [e |-> "adv", d |-> d, res |-> "ok", calls |-> Obs(now + d, cnt, bh), sd |-> NewSd]
    /\ UNCHANGED <<cfg, base, nreset>>

AdvanceQuiet(d) ==
    /\ run # "idle"      \* start() happens at cfg.t0
    /\ (~(run = "running" /\ ~inner /\ due <= now + d) \/ Loose)
    /\ now' = now + d
    /\ missed' = IF Active THEN missed + Bnd(base, now + d) - Bnd(base, now) ELSE missed
    /\ last' = [e |-> "adv", d |-> d, res |-> "ok", calls |-> <<>>, sd |-> <<>>]
    /\ UNCHANGED <<cfg, run, inner, base, due, lastDone, fuzzy, nreset, lc, ncalls, sumc, sd>>

(* the Deferred returned by the latest call fires *)
FireOk ==
    /\ inner /\ inner' = FALSE
    /\ CASE run = "running" -> /\ lastDone' = now /\ due' = NextB(base, now) /\ run' = run /\ sd' = sd
         [] run = "stopreq" -> /\ run' = "stopped" /\ sd' = Append(sd, "self") /\ UNCHANGED <<lastDone, due>>
         [] OTHER           -> UNCHANGED <<run, sd, lastDone, due>>
    /\ last' = [e |-> "fire", ok |-> TRUE, res |-> "ok", calls |-> <<>>, sd |-> NewSd]
    /\ UNCHANGED <<cfg, now, base, missed, fuzzy, nreset, lc, ncalls, sumc>>

FireFail ==
    /\ inner /\ inner' = FALSE
    /\ CASE run = "running" -> /\ run' = "failed" /\ sd' = Append(sd, "fail") /\ lastDone' = now
         [] run = "stopreq" -> /\ \/ (run' = "stopped" /\ sd' = Append(sd, "self"))
                                  \/ (run' = "failed" /\ sd' = Append(sd, "fail"))
                               /\ lastDone' = lastDone
         [] OTHER           -> UNCHANGED <<run, sd, lastDone>>
    /\ last' = [e |-> "fire", ok |-> FALSE, res |-> "ok", calls |-> <<>>, sd |-> NewSd]
    /\ UNCHANGED <<cfg, now, base, due, missed, fuzzy, nreset, lc, ncalls, sumc>>

(* stop() *)
StopScheduled ==
    /\ run = "running" /\ ~inner
    /\ run' = "stopped" /\ sd' = Append(sd, "self")
    /\ last' = [e |-> "stop", res |-> "ok", calls |-> <<>>, sd |-> NewSd]
    /\ UNCHANGED <<cfg, now, inner, base, due, lastDone, missed, fuzzy, nreset, lc, ncalls, sumc>>

StopInCall ==
    /\ run = "running" /\ inner
    /\ \/ (run' = "stopreq" /\ sd' = sd)
       \/ (run' = "stopped" /\ sd' = Append(sd, "self"))
    /\ last' = [e |-> "stop", res |-> "ok", calls |-> <<>>, sd |-> NewSd]
    /\ UNCHANGED <<cfg, now, inner, base, due, lastDone, missed, fuzzy, nreset, lc, ncalls, sumc>>

StopNotRunning ==
    /\ run # "running"
    /\ last' = [e |-> "stop", res |-> "any", calls |-> <<>>, sd |-> <<>>]
    /\ UNCHANGED <<cfg, now, run, inner, base, due, lastDone, missed, fuzzy, nreset, lc, ncalls, sumc, sd>>

(* reset(): skip the pending iteration, the grid restarts at the present time *)
ResetScheduled ==
    /\ run = "running" /\ ~inner
    /\ base' = now /\ due' = now + cfg.iv /\ fuzzy' = TRUE /\ nreset' = 1
    /\ last' = [e |-> "reset", res |-> "ok", calls |-> <<>>, sd |-> <<>>]
    /\ UNCHANGED <<cfg, now, run, inner, lastDone, missed, lc, ncalls, sumc, sd>>

ResetInCall ==
    /\ run = "running" /\ inner
    /\ \/ UNCHANGED <<base, fuzzy, nreset>>
       \/ (base' = now /\ fuzzy' = TRUE /\ nreset' = 1)
    /\ last' = [e |-> "reset", res |-> "ok", calls |-> <<>>, sd |-> <<>>]
    /\ UNCHANGED <<cfg, now, run, inner, due, lastDone, missed, lc, ncalls, sumc, sd>>

ResetNotRunning ==
    /\ run # "running"
    /\ last' = [e |-> "reset", res |-> "any", calls |-> <<>>, sd |-> <<>>]
    /\ UNCHANGED <<cfg, now, run, inner, base, due, lastDone, missed, fuzzy, nreset, lc, ncalls, sumc, sd>>

-----------------------------------------------------------------------------
(* The property, as invariants over the history (closed forms, written
   independently of the incremental arithmetic in the actions). *)

\* the first x > c with x on the grid (b, iv)
FirstAfter(b, c) == CHOOSE x \in (c + 1)..(c + cfg.iv) : (x - b) % cfg.iv = 0

NoOverlap ==    \* never called while a previous call's Deferred is unfired
    ncalls >= 1 => ~lc.ovl

Due(c) == FirstAfter(c.base, IF c.prevDone > c.base THEN c.prevDone ELSE c.base)

NoDrift ==      \* every later call: at the first boundary strictly after the previous completion,
                \* in the first advance that reaches it
    (ncalls >= 2 /\ ~lc.loose) => /\ lc.prevNow < lc.due /\ lc.due <= lc.t
                                   /\ lc.due = Due(lc)

FirstCall ==    \* the first call: immediately for now=True, at start + iv otherwise
    (ncalls = 1 /\ ~lc.loose) =>
        IF cfg.nowFlag THEN lc.t = cfg.t0
        ELSE /\ lc.due <= lc.t /\ lc.prevNow < lc.due
             /\ lc.due = lc.base + cfg.iv
             /\ (~lc.rb => lc.base = cfg.t0)

CountSum ==     \* withCount: the counts sum to the number of boundaries elapsed
    (cfg.wc /\ nreset = 0 /\ ncalls >= 1) =>
        sumc = ((lc.t - cfg.t0) \div cfg.iv) + (IF cfg.nowFlag THEN 1 ELSE 0)

CountPositive == (cfg.wc /\ ncalls >= 1 /\ ~lc.loose) => lc.cnt >= 1

StartDOnce ==   \* start()'s Deferred: exactly once on stop/failure, not before
    /\ Len(sd) <= 1
    /\ (run \in {"stopped", "failed"}) <=> (Len(sd) = 1)
    /\ (run = "stopped" => sd[1] = "self") /\ (run = "failed" => sd[1] = "fail")

NoCallAfter ==  \* no call after start()'s Deferred fired
    ncalls >= 1 => lc.nsd = 0

Inv == NoOverlap /\ NoDrift /\ FirstCall /\ CountSum /\ CountPositive /\ StartDOnce /\ NoCallAfter
=============================================================================
