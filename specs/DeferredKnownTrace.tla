-------------------------- MODULE DeferredKnownTrace --------------------------
(* Classification only (see DeferredKnown.tla): executions already rejected by
   DeferredAbsTrace are replayed against the interpreter variant RunK.  Accepted here =
   completely explained by finding C01-F1.  Never used for a verdict.          *)
EXTENDS DeferredKnown, TLC, Json, IOUtils

Traces == JsonDeserialize(IOEnv.TRACE_FILE)
VARIABLES tid, l
ASSUME \A t \in 1..Len(Traces) : TLCSet(t, 1)
T == Traces[tid]
E == T.ev[l]
TInit == /\ tid \in 1..Len(Traces) /\ l = 1
         /\ InitWith([nd |-> Traces[tid].cfg.nd])
Matches == /\ last'.e = E.e /\ last'.d = E.d /\ last'.inv = E.inv /\ last'.exc = E.exc
Step(A) == /\ l <= Len(T.ev) /\ A /\ Matches /\ l' = l + 1 /\ UNCHANGED tid
TNext == \/ (E.e = "add"     /\ Step(AddWith(RunK, E.d, E.m, E.ok, E.err)))
         \/ (E.e = "fire"    /\ Step(FireWith(RunK, E.d, E.k, E.v)))
         \/ (E.e = "pause"   /\ Step(Pause(E.d)))
         \/ (E.e = "unpause" /\ Step(UnpauseWith(RunK, E.d)))
TSpec == TInit /\ [][l <= Len(T.ev) /\ TNext]_<<vars, tid, l>>
Progress == TLCSet(tid, IF TLCGet(tid) > l THEN TLCGet(tid) ELSE l)
Rejected == {<<t, TLCGet(t)>> : t \in {u \in 1..Len(Traces) : TLCGet(u) # Len(Traces[u].ev) + 1}}
Accepted == Rejected = {} \/ (PrintT(<<"REJECTED", Rejected>>) /\ FALSE)
=============================================================================
