------------------------------ MODULE SshIdent ------------------------------
(* C35, Impl layer for the identification phase: SSHTransportBase.dataReceived *as coded*
   (src/twisted/conch/ssh/transport.py) over a small symbol alphabet, against the
   reference "the version line is the first complete line starting with SSH-, lines
   before it are ignored, packets start right after it, whatever the segmentation".

   Symbols:  "X" an ordinary byte run (8 bytes when concretised), "S" the marker SSH-,
   "V" the rest of a well-formed version line (2.0-software CR), "N" a line feed,
   "P1".."Pn" the packets following the version line (each a whole packet).
   Wire = banner lines (over X/S, not starting with S, or empty) ++ <<S,V,N>> ++ packets.

   As coded:   buf += data
               if not gotVersion:
                   if buf.find("\n", buf.find("SSH-")) == -1: return        (find(-1) looks at the last byte)
                   lines = buf.split("\n")
                   for p in lines:                                           (no break)
                       if p.startswith("SSH-"): gotVersion = True; check p's version (else disconnect, return);
                                                buf = "\n".join(lines[lines.index(p)+1:])
               packet = getPacket() ... while packet                         (runs even when gotVersion is still False)
   getPacket looks at the buffer once it holds 8 bytes; anything that is not the next packet is
   garbage (ASCII text read as a length is > 1 MiB): disconnect.                                *)
EXTENDS Naturals, Sequences, FiniteSets, TLC

CONSTANTS MaxBanners, NPackets,
          Fixed        \* FALSE: the scan as coded; TRUE: the scan of proposed_fixes/C35-ident-line-scan.diff

VARIABLES wire,        \* the whole wire (sequence of symbols), fixed per behaviour
          pos,         \* symbols delivered so far
          hist,        \* sizes of the deliveries so far (history, for replay on the real code)
          buf, gotVersion, nextP, disc      \* the receiver as coded: buffer, flag, next packet expected, disconnected

vars == <<wire, pos, hist, buf, gotVersion, nextP, disc>>

PSym(i) == IF i = 1 THEN "P1" ELSE IF i = 2 THEN "P2" ELSE "P3"
Packets == [i \in 1..NPackets |-> PSym(i)]
BannerLines == {<<"N">>, <<"X", "N">>, <<"X", "X", "N">>, <<"X", "S", "N">>, <<"X", "S", "X", "N">>}
RECURSIVE Concat(_)
Concat(ss) == IF ss = <<>> THEN <<>> ELSE Head(ss) \o Concat(Tail(ss))
Wires == { Concat(bs) \o <<"S", "V", "N">> \o Packets : bs \in UNION {[1..n -> BannerLines] : n \in 0..MaxBanners} }

Bytes(sym) == CASE sym = "X" -> 8 [] sym = "S" -> 4 [] sym = "V" -> 25 [] sym = "N" -> 1 [] OTHER -> 64
RECURSIVE Size(_)
Size(s) == IF s = <<>> THEN 0 ELSE Bytes(Head(s)) + Size(Tail(s))

Init == /\ wire \in Wires /\ pos = 0 /\ hist = <<>>
        /\ buf = <<>> /\ gotVersion = FALSE /\ nextP = 1 /\ disc = FALSE

(* ---- helpers transcribing the Python ---- *)
IndexOfFrom(s, x, from) ==      \* least i >= from with s[i] = x, 0 if none   (1-based)
    IF \E i \in from..Len(s) : s[i] = x THEN CHOOSE i \in from..Len(s) : s[i] = x /\ \A j \in from..(i - 1) : s[j] # x ELSE 0
FoundNewline(s) ==              \* buf.find("\n", buf.find("SSH-")) != -1
    LET i == IndexOfFrom(s, "S", 1) IN
    IF i = 0 THEN (s # <<>> /\ s[Len(s)] = "N")          \* find(.., -1): only the last byte is looked at
    ELSE IndexOfFrom(s, "N", i) # 0
RECURSIVE Split(_)              \* s.split("\n"): sequence of pieces, the last one possibly empty / incomplete
Split(s) == LET j == IndexOfFrom(s, "N", 1) IN
            IF j = 0 THEN <<s>> ELSE <<SubSeq(s, 1, j - 1)>> \o Split(SubSeq(s, j + 1, Len(s)))
RECURSIVE Join(_)               \* "\n".join(pieces)
Join(ps) == IF ps = <<>> THEN <<>> ELSE IF Len(ps) = 1 THEN ps[1] ELSE ps[1] \o <<"N">> \o Join(Tail(ps))
StartsWithS(p) == p # <<>> /\ p[1] = "S"
Supported(p) == Len(p) >= 2 /\ p[2] = "V"      \* "SSH-" followed by a well-formed protocol version
FirstIndexEqual(ls, p) == CHOOSE i \in 1..Len(ls) : ls[i] = p /\ \A j \in 1..(i - 1) : ls[j] # p

(* the for-loop over `lines`, as a fold: state = [got, b, bad] *)
RECURSIVE Scan(_, _, _)
Scan(ls, k, st) ==
    IF k > Len(ls) \/ st.bad THEN st
    ELSE IF StartsWithS(ls[k])
         THEN IF Supported(ls[k])
              THEN Scan(ls, k + 1, [got |-> TRUE, b |-> Join(SubSeq(ls, FirstIndexEqual(ls, ls[k]) + 1, Len(ls))), bad |-> FALSE])
              ELSE [got |-> TRUE, b |-> st.b, bad |-> TRUE]        \* _unsupportedVersionReceived: disconnect, return
         ELSE Scan(ls, k + 1, st)

(* the repaired scan: complete lines only, stop at the first line starting with SSH-, consume exactly that line *)
RECURSIVE FScan(_, _)
FScan(b, start) ==
    LET end == IndexOfFrom(b, "N", start) IN
    IF end = 0 THEN [got |-> FALSE, b |-> b, bad |-> FALSE, wait |-> TRUE]
    ELSE LET line == SubSeq(b, start, end - 1) IN
         IF StartsWithS(line)
         THEN IF Supported(line) THEN [got |-> TRUE, b |-> SubSeq(b, end + 1, Len(b)), bad |-> FALSE, wait |-> FALSE]
              ELSE [got |-> TRUE, b |-> b, bad |-> TRUE, wait |-> FALSE]
         ELSE FScan(b, end + 1)

(* the getPacket/dispatch loop: state = [b, n, bad] *)
RECURSIVE Pump(_)
Pump(st) ==
    IF st.bad \/ st.b = <<>> \/ Size(st.b) < 8 THEN st
    ELSE IF st.n <= NPackets /\ Head(st.b) = PSym(st.n)
         THEN Pump([b |-> Tail(st.b), n |-> st.n + 1, bad |-> FALSE])
         ELSE [b |-> st.b, n |-> st.n, bad |-> TRUE]               \* not a packet: "bad packet length"

Deliver(k) ==
    /\ ~disc /\ k >= 1 /\ pos + k <= Len(wire)
    /\ LET b1 == buf \o SubSeq(wire, pos + 1, pos + k)
           fx == FScan(b1, 1)
           sc == IF gotVersion THEN [got |-> TRUE, b |-> b1, bad |-> FALSE]
                 ELSE IF Fixed THEN [got |-> fx.got, b |-> fx.b, bad |-> fx.bad]
                 ELSE IF ~FoundNewline(b1) THEN [got |-> FALSE, b |-> b1, bad |-> FALSE]
                 ELSE Scan(Split(b1), 1, [got |-> FALSE, b |-> b1, bad |-> FALSE])
           returnsEarly == IF Fixed THEN (~gotVersion /\ fx.wait) \/ sc.bad
                           ELSE (~gotVersion /\ ~FoundNewline(b1)) \/ sc.bad
           pm == IF returnsEarly THEN [b |-> sc.b, n |-> nextP, bad |-> sc.bad] ELSE Pump([b |-> sc.b, n |-> nextP, bad |-> FALSE])
       IN /\ buf' = pm.b /\ gotVersion' = sc.got /\ nextP' = pm.n /\ disc' = pm.bad
    /\ pos' = pos + k /\ hist' = Append(hist, k)
    /\ UNCHANGED wire

Next == \E k \in 1..Len(wire) : Deliver(k)
Spec == Init /\ [][Next]_vars

-----------------------------------------------------------------------------
(* Reference: a function of the consumed prefix only. *)
VersionEnd == CHOOSE i \in 1..Len(wire) : wire[i] = "N" /\ i >= 3 /\ wire[i - 1] = "V" /\ wire[i - 2] = "S"
                                          /\ (i = 3 \/ wire[i - 3] = "N")
RefGot == pos >= VersionEnd
RefDispatched == IF pos > VersionEnd THEN pos - VersionEnd ELSE 0

NoSpuriousDisconnect == ~disc
SegInv == ~disc => (gotVersion = RefGot /\ nextP - 1 = RefDispatched)
View == <<wire, pos, buf, gotVersion, nextP, disc>>
=============================================================================
