---------------------------- MODULE HttpTimeoutsMC ----------------------------
EXTENDS HttpTimeouts, TLC
CONSTANTS Configs, MaxNow, Depth

Modes(n) == [1..n -> {0, 1}]
\* quick: two requests, every answer mode, at most one HTTP/1.0 request
ConfigsQuick == {[to |-> t, ab |-> a, mode |-> m, ver |-> v] :
                   t \in {None, 2, 3}, a \in {None, 1, 3}, m \in Modes(2), v \in {<<1, 1>>, <<0, 1>>, <<1, 0>>}}
\* thorough: three requests
ConfigsThorough == {[to |-> t, ab |-> a, mode |-> m, ver |-> v] :
                   t \in {None, 1, 2, 3}, a \in {None, 1, 2, 4}, m \in Modes(3),
                   v \in {<<1, 1, 1>>, <<0, 1, 1>>, <<1, 0, 1>>, <<1, 1, 0>>}}
\* witnesses: timeOut shorter than abortTimeout, answers at once
ConfigsReach == {[to |-> 1, ab |-> 3, mode |-> <<0, 0>>, ver |-> <<1, 1>>]}
MaxNowQuick == 200
MaxNowThorough == 200
DepthQuick == 40
DepthThorough == 60
DepthReach == 30

Init == \E c \in Configs : InitWith(c)
Spec == Init /\ [][Next]_vars
Bound == now <= MaxNow /\ TLCGet("level") <= Depth
\* Absolute time is irrelevant to the future and to every invariant: the view keeps the distances only
\* (now - tfirst saturates at 4 >= every abortTimeout; lastAct matters only while the idle call is armed).
Min(a, b) == IF a < b THEN a ELSE b
View == <<cfg, pos, cur, handling, st, np, bad,
          IF Armed THEN idle - now ELSE None, [j \in 1..Len(aq) |-> aq[j] - now], trk,
          nlose, nabort, ntimeout, IF tfirst = None THEN None ELSE Min(now - tfirst, 4),
          IF Armed THEN now - lastAct ELSE 0, late>>
=============================================================================
