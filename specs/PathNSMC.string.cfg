SPECIFICATION Spec
CONSTANT MaxLen = 3
CONSTANT DescLen = 2
CONSTANT Symbols <- SymQuick
CONSTANT DescSymbols <- SymSix
CONSTANT Modes = {"string"}
INVARIANT LastConfined
INVARIANT NothingOutside
INVARIANT LexLemmas
PROPERTY Refines
CHECK_DEADLOCK FALSE
