---------------------------- MODULE SshPacketsMC ----------------------------
(* Exhaustive TLC run: every small wire (0..MaxB banner lines, version line, one
   handshake packet, 1..MaxP packets of 2..3 units, each observable or silent),
   with and without MAC, every tamper position class, every segmentation.      *)
EXTENDS SshPackets, TLC
CONSTANTS MaxB, MaxP

SeqsUpTo(S, lo, hi) == UNION {[1..n -> S] : n \in lo..hi}

RECURSIVE SumLen(_, _)
SumLen(s, i) == IF i = 0 THEN 0 ELSE s[i][2] + SumLen(s, i - 1)
RECURSIVE CountObs(_, _)
CountObs(s, i) == IF i = 0 THEN 0 ELSE (IF s[i][1] \in {"svc", "dbg"} THEN 1 ELSE 0) + CountObs(s, i - 1)
MkItems(s) == [i \in 1..Len(s) |->
                 [k |-> s[i][1], end |-> SumLen(s, i),
                  id |-> IF s[i][1] \in {"svc", "dbg"} THEN CountObs(s, i) ELSE 0]]

Shapes == {  [i \in 1..Len(b) |-> <<"banner", b[i]>>] \o << <<"version", 1>>, <<"hs", 2>> >>
             \o [i \in 1..Len(p) |-> <<p[i][1], p[i][2]>>]
           : b \in SeqsUpTo({1, 2}, 0, MaxB), p \in SeqsUpTo({"svc", "ign"} \X {2, 3}, 1, MaxP) }

(* tamper classes for packet j of `items`: first unit, a middle unit (if any), last unit (the MAC) *)
Tampers(items) ==
    {[tj |-> 0, treg |-> "none", tpos |-> 0]} \cup
    UNION { LET st == items[j - 1].end  en == items[j].end IN
              {[tj |-> j, treg |-> "first", tpos |-> st], [tj |-> j, treg |-> "mac", tpos |-> en - 1]}
              \cup (IF en - st > 2 THEN {[tj |-> j, treg |-> "rest", tpos |-> st + 1]} ELSE {})
          : j \in {i \in 2..Len(items) : items[i].k \in {"svc", "ign", "dbg"}} }

Configs == UNION { LET it == MkItems(s) IN
                     {[mac |-> TRUE, items |-> it, tj |-> t.tj, treg |-> t.treg, tpos |-> t.tpos] : t \in Tampers(it)}
                     \cup {[mac |-> FALSE, items |-> it, tj |-> 0, treg |-> "none", tpos |-> 0]}
                 : s \in Shapes }

MCDiscCodes == {2, 5}

ASSUME \A c \in Configs : WellFormed(c)

Init == \E c \in Configs : InitWith(c)
Spec == Init /\ [][Next]_vars
View == <<cfg, pos, dispatched, disc, flooded, phase>>
=============================================================================
