SPECIFICATION Spec
CONSTANT MaxBytes = 1
CONSTANT Depth = 40
CONSTRAINT Bound
VIEW View
INVARIANT PrefixOnly
INVARIANT AtMostOneLost
INVARIANT NoSpontaneousClose
CHECK_DEADLOCK FALSE
