---------------------------- MODULE IrcSplitTrace ----------------------------
(* Batched trace validation for C43.  A trace is one call on the real code:
     cfg.mode = "split": ev[1] = [e |-> "send", text, stream, exc]  -- IRCClient.msg / notice(user, text, limit)
                         wrote `stream` (octets) to the transport / raised exc
     cfg.mode = "low" | "ctcp": ev[1] = [e |-> "quote", text, q, back, exc] -- q = quote(text), back = dequote(q)
   CheckLen = FALSE drops the octet-limit clause (classification of a rejection only).
   Strict   = TRUE additionally compares q with the reference quoting (diagnostic only).          *)
EXTENDS IrcSplit, TLC, Json, IOUtils
CONSTANTS CheckLen, Strict

Traces == JsonDeserialize(IOEnv.TRACE_FILE)
VARIABLES tid, l
ASSUME \A t \in 1..Len(Traces) : TLCSet(t, 1)

T == Traces[tid]
E == T.ev[l]

TInit == /\ tid \in 1..Len(Traces) /\ l = 1
         /\ InitWith(Traces[tid].cfg)

ObsSend == /\ phase = "build" /\ cfg.mode = "split" /\ E.e = "send"
           /\ text' = E.text /\ stream' = E.stream /\ lines' = Lines(E.stream) /\ err' = (E.exc # "") /\ phase' = "sent"
           /\ AcceptsX(cfg, text', lines', err', CheckLen)
           /\ UNCHANGED <<cfg, q, back, msgs, queue>>

ObsQuote == /\ phase = "build" /\ cfg.mode \in {"low", "ctcp"} /\ E.e = "quote" /\ E.exc = ""
            /\ E.back = E.text
            /\ (Strict => E.q = RefQuote(cfg.mode, E.text))
            /\ text' = E.text /\ q' = E.q /\ back' = E.back /\ phase' = "quoted"
            /\ UNCHANGED <<cfg, stream, lines, err, msgs, queue>>

(* history mode (cfg.mode = "hist"): several msg / notice calls on one client, possibly with lineRate set (the
   harness supplies a fake clock as the reactor of the send queue); every event carries the octets written to the
   transport during it.
     [e |-> "send", kind, user, limit, text, exc, wrote]   [e |-> "tick", wrote]   [e |-> "drain", wrote]
   "drain" = the clock was advanced until no timer is pending: from then on each message must be complete.   *)
HSend == /\ cfg.mode = "hist" /\ E.e = "send" /\ phase = "build"
         /\ msgs' = Append(msgs, [kind |-> E.kind, user |-> E.user, limit |-> E.limit, text |-> E.text, err |-> (E.exc # "")])
         /\ DistinctPrefixes(msgs')
         /\ stream' = stream \o E.wrote /\ lines' = Lines(stream')
         /\ LinesSafeX(msgs', lines', CheckLen)
         /\ UNCHANGED <<cfg, text, phase, err, q, back, queue>>
HTick == /\ cfg.mode = "hist" /\ E.e = "tick" /\ phase = "build"
         /\ stream' = stream \o E.wrote /\ lines' = Lines(stream')
         /\ LinesSafeX(msgs, lines', CheckLen)
         /\ UNCHANGED <<cfg, text, phase, err, q, back, msgs, queue>>
HDrain == /\ cfg.mode = "hist" /\ E.e = "drain" /\ phase = "build" /\ E.exc = ""
          /\ stream' = stream \o E.wrote /\ lines' = Lines(stream')
          /\ HistOKX(msgs, lines', CheckLen)
          /\ phase' = "sent"
          /\ UNCHANGED <<cfg, text, err, q, back, msgs, queue>>

Step(A) == /\ l <= Len(T.ev) /\ A /\ QuoteOK' /\ l' = l + 1 /\ UNCHANGED tid
StepNoLen(A) == /\ l <= Len(T.ev) /\ A /\ l' = l + 1 /\ UNCHANGED tid
HNext == StepNoLen(HSend) \/ StepNoLen(HTick) \/ StepNoLen(HDrain)
TNext == IF CheckLen THEN Step(ObsSend) \/ Step(ObsQuote) \/ HNext
                     ELSE StepNoLen(ObsSend) \/ StepNoLen(ObsQuote) \/ HNext
TSpec == TInit /\ [][TNext]_<<vars, tid, l>>

Progress == TLCSet(tid, IF TLCGet(tid) > l THEN TLCGet(tid) ELSE l)
Rejected == {<<t, TLCGet(t)>> : t \in {u \in 1..Len(Traces) : TLCGet(u) # Len(Traces[u].ev) + 1}}
Accepted == Rejected = {} \/ (PrintT(<<"REJECTED", Rejected>>) /\ FALSE)
=============================================================================
