------------------------------- MODULE CoopMC -------------------------------
(* Exhaustive TLC run of Coop: up to MaxT tasks, every iterator behaviour, every
   interleaving of cooperate/coiterate/whenDone/pause/resume/stop/ticks (budget 1..MaxB)/
   Deferred firings/Cooperator.stop/start up to the bounds. *)
EXTENDS Coop, TLC
CONSTANTS MaxT, MaxW, MaxDf, MaxPc, MaxB, Depth

Init == \E st \in BOOLEAN : InitWith([started |-> st])

NCreate          == \E cw \in BOOLEAN : Create(cw)
NWhenDone        == \E t \in Tasks : WhenDone(t)
NPauseOk         == \E t \in Tasks : PauseOk(t)
NPauseFinished   == \E t \in Tasks : PauseFinished(t)
NStopFinished    == \E t \in Tasks : StopFinished(t)
NResumePaused    == \E t \in Tasks : ResumePaused(t)
NResumeNotPaused == \E t \in Tasks : ResumeNotPaused(t)
NResumeWaiting   == \E t \in Tasks : ResumeWaiting(t)
NResumeFinished  == \E t \in Tasks : ResumeFinished(t)
NStopOk          == \E t \in Tasks : StopOk(t)
NFire            == \E d \in DOMAIN dfr, ok \in BOOLEAN : Fire(d, ok)
NTickBegin       == \E b \in 1..MaxB : TickBegin(b)
NStep            == \E t \in Tasks, o \in Outcomes : Step(t, o)
NCoopStop        == \E S \in SUBSET Tasks : CoopStop(S)

Next == \/ NCreate \/ NWhenDone \/ NPauseOk \/ NPauseFinished \/ NStopFinished
        \/ NResumePaused \/ NResumeNotPaused \/ NResumeWaiting \/ NResumeFinished \/ NStopOk
        \/ NFire \/ NTickBegin \/ NStep \/ TickEnd \/ NCoopStop \/ CoopStart

Spec == Init /\ [][Next]_vars

Bound == /\ Len(tk) <= MaxT /\ Len(wd) <= MaxW /\ Len(dfr) <= MaxDf
         /\ \A t \in Tasks : tk[t].pc <= MaxPc
         /\ TLCGet("level") <= Depth
View == <<cfg, tk, wd, dfr, started, stopped, inTick, units, budget>>
=============================================================================
