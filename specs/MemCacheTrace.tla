---------------------------- MODULE MemCacheTrace ----------------------------
(* Batched trace validation of the real MemCacheProtocol against MemCache.tla.
   Every event logs: wrote (bytes put on the transport), fired (ids and outcomes of the Deferreds
   that fired during the call, in order), close (loseConnection() calls), tmo (time of the pending
   delayed call on the clock, -1 if none), exc (class of an exception escaping the call, "" if none). *)
EXTENDS MemCache, Json, IOUtils
Traces == JsonDeserialize(IOEnv.TRACE_FILE)
VARIABLES tid, l
ASSUME \A t \in 1..Len(Traces) : TLCSet(t, 1)
T == Traces[tid]
E == T.ev[l]
TInit == tid \in 1..Len(Traces) /\ l = 1 /\ InitWith([P |-> Traces[tid].cfg.P, maxkey |-> Traces[tid].cfg.maxkey])
Step(A) == /\ l <= Len(T.ev) /\ A /\ Inv'
           /\ last'.wrote = E.wrote /\ last'.fired = E.fired /\ last'.close = E.close
           /\ deadline' = E.tmo /\ E.exc = ""
           /\ l' = l + 1 /\ UNCHANGED tid
TNext == \/ (E.e = "issue"   /\ Step(Issue(E.kind, E.keys, E.val, E.f, E.x, E.cas)))
         \/ (E.e = "respond" /\ Step(Respond(E.items)) /\ last'.text = E.text)
         \/ (E.e = "deliver" /\ Step(Deliver(E.d)))
         \/ (E.e = "advance" /\ Step(Advance(E.d)))
         \/ (E.e = "lose"    /\ Step(Lose(E.cls, E.text)))
TSpec == TInit /\ [][l <= Len(T.ev) /\ TNext]_<<vars, tid, l>>
Progress == TLCSet(tid, IF TLCGet(tid) > l THEN TLCGet(tid) ELSE l)
Rejected == {<<t, TLCGet(t)>> : t \in {u \in 1..Len(Traces) : TLCGet(u) # Len(Traces[u].ev) + 1}}
Accepted == Rejected = {} \/ (PrintT(<<"REJECTED", Rejected>>) /\ FALSE)
=============================================================================
