---------------------------- MODULE DQueueTrace ----------------------------
(* Batched trace validation: every recorded execution of the real DeferredQueue
   must be a behaviour of DQueue, with every logged field matching.          *)
EXTENDS DQueue, TLC, Json, IOUtils

Traces == JsonDeserialize(IOEnv.TRACE_FILE)
VARIABLES tid, l
ASSUME \A t \in 1..Len(Traces) : TLCSet(t, 1)

T == Traces[tid]
E == T.ev[l]

TInit == /\ tid \in 1..Len(Traces) /\ l = 1
         /\ InitWith([size |-> Traces[tid].cfg.size, backlog |-> Traces[tid].cfg.backlog])

\* the spec action's predicted observable must equal what was logged
Matches == /\ last'.e = E.e /\ last'.res = E.res /\ last'.dl = E.dl

\* Inv' : the design invariants are evaluated at every step of every real execution;
\* a step that breaks one is not taken, so the trace is rejected there.
Step(A) == /\ l <= Len(T.ev) /\ A /\ Matches /\ Inv' /\ l' = l + 1 /\ UNCHANGED tid

TNext == \/ (E.e = "put" /\ Step(PutDeliver \/ PutQueue \/ PutOverflow))
         \/ (E.e = "get" /\ Step(GetNow \/ GetWait \/ GetUnderflow))
         \/ (E.e = "cancel" /\ Step(CancelWaiting(E.g) \/ CancelNoop(E.g)))

TSpec == TInit /\ [][l <= Len(T.ev) /\ TNext]_<<vars, tid, l>>

Progress == TLCSet(tid, IF TLCGet(tid) > l THEN TLCGet(tid) ELSE l)
Rejected == {<<t, TLCGet(t)>> : t \in {u \in 1..Len(Traces) : TLCGet(u) # Len(Traces[u].ev) + 1}}
Accepted == Rejected = {} \/ (PrintT(<<"REJECTED", Rejected>>) /\ FALSE)
=============================================================================
