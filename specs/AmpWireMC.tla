------------------------------ MODULE AmpWireMC ------------------------------
(* Exhaustive TLC run of AmpWire over length CLASSES with the real boundary lengths
   (keys 0,1,mid,255,256; values 0,1,mid,65535,65536; non-bytes kinds), every
   interleaving of sends and deliveries, and every split of the stream up to
   class equivalence: a delivery may end at any segment boundary, one byte before
   it or one byte after it (so: inside a length prefix, after the first / before
   the last byte of a key or value, and at every boundary).                     *)
EXTENDS AmpWire, TLC
CONSTANTS KeyLens, ValLens, Shapes, NonBytesVals    \* Shapes: set of sequences of box sizes, e.g. {<<2>>, <<1,1>>}

KeyFill(j) == IF j = 1 THEN 0 ELSE 107
ValFill(j) == IF j = 1 THEN 0 ELSE 255
Bytes(fill, n) == <<"B", Norm(<< <<fill, n>> >>)>>
Keys(j) == {Bytes(KeyFill(j), n) : n \in KeyLens} \cup {<<"S", << <<106 + j, 1>> >> >>}
Vals(j) == {Bytes(ValFill(j), n) : n \in ValLens} \cup NonBytesVals
PairsOf(j) == Keys(j) \X Vals(j)
BoxesOf(n) == IF n = 0 THEN {<<>>}
              ELSE IF n = 1 THEN {<<p>> : p \in PairsOf(1)}
              ELSE {<<pq[1], pq[2]>> : pq \in {x \in PairsOf(1) \X PairsOf(2) : x[1][1] # x[2][1]}}
RECURSIVE SeqsOf(_)
SeqsOf(sh) == IF sh = <<>> THEN {<<>>}
              ELSE {<<br[1]>> \o br[2] : br \in BoxesOf(sh[1]) \X SeqsOf(Tail(sh))}
Configs == UNION {{[boxes |-> bs] : bs \in SeqsOf(sh)} : sh \in Shapes}

Init == \E c \in Configs : InitWith(c)

RECURSIVE Cum(_, _)
Cum(s, a) == IF s = <<>> THEN {} ELSE {a + s[1]} \cup Cum(Tail(s), a + s[1])
Marks == {o \in UNION {{b - 1, b, b + 1} : b \in Cum(segs, 0)} : o > pos /\ o <= RLen(wire)}

Send == nsent < Len(cfg.boxes) /\ \E o \in Orders(Len(cfg.boxes[nsent + 1])) : SendOk(o)
Refuse == nsent < Len(cfg.boxes) /\ SendRefuse
Recv == \E o \in Marks : Deliver(o - pos)
Next == Send \/ Refuse \/ Recv
NBQuick == {<<"S", << <<118, 1>> >> >>}
NBThorough == {<<"S", << <<118, 1>> >> >>, <<"N", <<>> >>}
ShapesQuick == {<<2>>, <<1, 1>>, <<0, 1>>}
ShapesThorough == {<<2>>, <<1, 1>>, <<0, 1>>, <<1, 0>>}
ShapesThree == {<<2, 1>>, <<1, 2>>, <<1, 1, 1>>}
Spec == Init /\ [][Next]_vars

(* negative control: admit EMPTY keys as if they were representable -- RoundTrip must then fail
   (the empty string is the box terminator), which is why the property excludes them.          *)
LoosePairs(box) == \A i \in 1..Len(box) : /\ IsBytes(box[i][1]) /\ BLen(box[i][1]) <= MaxKey
                                          /\ IsBytes(box[i][2]) /\ BLen(box[i][2]) <= MaxVal
SendLoose == \E o \in Orders(Len(cfg.boxes[nsent + 1])) : SendIf(o, LoosePairs)
NextNeg == (nsent < Len(cfg.boxes) /\ SendLoose) \/ Recv
SpecNeg == Init /\ [][NextNeg]_vars
View == <<cfg, nsent, acc, ends, segs, wire, pos, m>>
=============================================================================
