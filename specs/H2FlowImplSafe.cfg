SPECIFICATION Spec
CONSTANT NS = 1
CONSTANT MaxWrite = 3
CONSTANT MaxWU = 1
CONSTANT MaxSet = 1
CONSTANT CW = {3}
CONSTANT IW = {2}
CONSTANT MF = {2}
INVARIANT NoOvershoot
INVARIANT InOrderComplete
INVARIANT NotDead
INVARIANT QueueConsistent
PROPERTY OutputLegal
CHECK_DEADLOCK FALSE
