SPECIFICATION Spec
CONSTANT MaxPlan = 3
CONSTANT MaxPc = 2
CONSTANT MaxStops = 2
CONSTANT Depth = 14
CONSTRAINT Bound
VIEW View
INVARIANT InOrderOnce
INVARIANT Complete
INVARIANT FireOnce
INVARIANT SchedExact
INVARIANT FileClosed
INVARIANT UnregOnce
INVARIANT StopForwarded
INVARIANT FailedMeansError
PROPERTY Quiet
PROPERTY Stable
PROPERTY Silent
CHECK_DEADLOCK FALSE
