SPECIFICATION Spec
CONSTRAINT Bound
VIEW View
INVARIANT NoLeak
INVARIANT RetryArmed
INVARIANT TimeoutArmed
INVARIANT TimeoutNotPast
INVARIANT NoEarlyTimeout
INVARIANT OddShape
PROPERTY StepProp
CHECK_DEADLOCK FALSE
