SPECIFICATION Fair
CONSTANT Configs <- ConfigsLive2
PROPERTY StaleAcquired
CHECK_DEADLOCK FALSE
