SPECIFICATION Spec
CONSTANT Depth = 4
CONSTANT MaxD = 2
CONSTANT MaxPause = 1
CONSTANT Plain <- PlainSmall
CONSTANT CbsOk <- CbsOkQuick
CONSTANT CbsErr <- CbsErrQuick
CONSTRAINT Bound
VIEW View
INVARIANT NoInterestingWait
CHECK_DEADLOCK FALSE
