------------------------------ MODULE AmpRPCSim ------------------------------
(* Behaviour generator (spec -> code) for C31: AmpRPC plus a history variable recording every
   scheduler step with its parameters and predicted observations; printed as JSON at Depth.
   Boxes are 2 units long; the harness maps a unit to half of the real box.  Run with
   `tlc -simulate`; the harness replays each behaviour on two real AMP peers.               *)
EXTENDS AmpRPC, TLC, Json
CONSTANTS Depth, MaxCalls
VARIABLE hist

WS == [i \in 1..8 |-> 2]
H(e, p, k, n, c, r) == [e |-> e, p |-> p, k |-> k, f |-> FALSE, n |-> n, c |-> c, r |-> r, obs |-> last'.obs]

RECURSIVE Asc(_)
Asc(S) == IF S = {} THEN <<>> ELSE LET x == CHOOSE y \in S : \A z \in S : y <= z IN <<x>> \o Asc(S \ {x})

SInit == /\ \E w \in BOOLEAN : InitWith([wac |-> w])
         /\ hist = <<>>
SNext == \/ \E p \in Peers, k \in Kinds, f \in BOOLEAN : /\ ncall < MaxCalls /\ Call(p, k, f, WS)
                                                        /\ hist' = Append(hist, [H("call", p, k, 0, 0, "") EXCEPT !.f = f])
         \/ \E p \in Peers : \E n \in 1..Avail(p) : Deliver(p, n, WS, TRUE) /\ hist' = Append(hist, H("deliver", p, "", n, 0, ""))
         \/ \E c \in 1..ncall : Fire(c, WS, TRUE) /\ hist' = Append(hist, H("fire", 0, "", 0, c, ""))
         \/ \E p \in Peers : ts[p] = "open" /\ UserClose(p) /\ hist' = Append(hist, H("close", p, "", 0, 0, ""))
         \/ (Drop /\ hist' = Append(hist, H("drop", 0, "", 0, 0, "")))
         \/ \E p \in Peers, r \in {"ConnectionDone", "ConnectionLost"} :
                Notify(p, r, Asc(Pending(p))) /\ hist' = Append(hist, H("notify", p, "", 0, 0, r))
         \/ (ts[1] = "lost" /\ ts[2] = "lost" /\ UNCHANGED <<vars, hist>>)      \* idle, so that every behaviour reaches Depth
SSpec == SInit /\ [][SNext]_<<vars, hist>>
Emit2 == TLCGet("level") < Depth \/ PrintT(<<"BEH", ToJson([cfg |-> cfg, hist |-> hist])>>)
Stop == TLCGet("level") <= Depth
=============================================================================
