-------------------------- MODULE DeferredCancelTrace --------------------------
(* Batched trace validation: every recorded execution of real Deferreds must be a
   behaviour of DeferredCancel, every logged field matching, every invariant of
   DeferredCancel holding after every step.                                     *)
EXTENDS DeferredCancel, TLC, Json, IOUtils

Traces == JsonDeserialize(IOEnv.TRACE_FILE)
VARIABLES tid, l
ASSUME \A t \in 1..Len(Traces) : TLCSet(t, 1)

T == Traces[tid]
E == T.ev[l]

TInit == /\ tid \in 1..Len(Traces) /\ l = 1
         /\ InitWith([kinds |-> Traces[tid].cfg.kinds])

\* every logged field is compared; obs (what user callbacks / cancellers saw during the call)
\* as a set without duplicates -- the property does not order the observations within one call.
SetOf(s) == {s[i] : i \in 1..Len(s)}
Matches == /\ last'.e = E.e /\ last'.x = E.x /\ last'.y = E.y
           /\ last'.exc = E.exc
           /\ last'.obs = SetOf(E.obs) /\ Len(E.obs) = Cardinality(last'.obs)

Step(A) == /\ l <= Len(T.ev) /\ A /\ Matches /\ Inv' /\ l' = l + 1 /\ UNCHANGED tid

TNext == \/ (E.e = "callback" /\ Step(Callback(E.x)))
         \/ (E.e = "errback"  /\ Step(Errback(E.x)))
         \/ (E.e = "cancel"   /\ Step(Cancel(E.x)))
         \/ (E.e = "addinner" /\ Step(AddInner(E.x)))

TSpec == TInit /\ [][l <= Len(T.ev) /\ TNext]_<<vars, tid, l>>

Progress == TLCSet(tid, IF TLCGet(tid) > l THEN TLCGet(tid) ELSE l)
Rejected == {<<t, TLCGet(t)>> : t \in {u \in 1..Len(Traces) : TLCGet(u) # Len(Traces[u].ev) + 1}}
Accepted == Rejected = {} \/ (PrintT(<<"REJECTED", Rejected>>) /\ FALSE)
=============================================================================
