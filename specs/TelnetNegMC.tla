----------------------------- MODULE TelnetNegMC -----------------------------
(* Exhaustive TLC run of TelnetNeg: all policies of both sides, all request
   sequences up to MaxReq requests, all interleavings with message deliveries. *)
EXTENDS TelnetNeg, TLC
CONSTANTS NOpt, MaxReq, Reent
Pol == [E2 -> [1..NOpt -> BOOLEAN]]
Init == \E al \in Pol, ar \in Pol : InitWith([nopt |-> NOpt, accL |-> al, accR |-> ar, maxreq |-> MaxReq, reent |-> Reent])
Spec == Init /\ [][Next]_vars
View == <<cfg, us, him, obs, reent>>
(* liveness: deliveries are fair, requests are not (at most MaxReq are ever issued) *)
FairSpec == Init /\ [][Next]_vars /\ (\A e \in E2 : WF_vars(Recv(e))) /\ WF_vars(reent # <<>> /\ Next)
Terminates == <>[]Quiescent
EveryRequestFires == \A i \in 1..MaxReq : [](Len(obs.status) >= i => <>(Len(obs.status) >= i /\ obs.status[i] = "done"))
=============================================================================
