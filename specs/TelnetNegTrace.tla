--------------------------- MODULE TelnetNegTrace ---------------------------
(* Batched trace validation (Impl-shaped layer): every recorded execution of two real
   twisted.conch.telnet.Telnet objects must be a behaviour of TelnetNeg with every logged
   field matched and every invariant holding after every step.  A trace rejected here is
   re-judged by TelnetNegAbsTrace (the property alone); only that verdict is a VIOLATION. *)
EXTENDS TelnetNeg, TLC, Json, IOUtils

Traces == JsonDeserialize(IOEnv.TRACE_FILE)
VARIABLES tid, l
ASSUME \A t \in 1..Len(Traces) : TLCSet(t, 1)

T == Traces[tid]
E == T.ev[l]

TInit == /\ tid \in 1..Len(Traces) /\ l = 1
         /\ InitWith([nopt |-> Traces[tid].cfg.nopt, accL |-> Traces[tid].cfg.accL,
                      accR |-> Traces[tid].cfg.accR, maxreq |-> 1000000, reent |-> TRUE])

Matches ==
    /\ last'.e = E.e
    /\ CASE E.e = "req"  -> /\ last'.p = E.p /\ last'.k = E.k /\ last'.o = E.o /\ last'.id = E.id
                            /\ last'.sent = E.sent /\ last'.fired = E.fired /\ last'.exc = E.exc /\ last'.re = E.re
         [] E.e = "recv" -> /\ last'.p = E.p /\ last'.m = E.m
                            /\ last'.sent = E.sent /\ last'.fired = E.fired /\ last'.exc = E.exc
         [] E.e = "quiet" -> last'.st = E.st
         [] OTHER -> FALSE

\* the follow-up a firing handler chooses is the one the trace shows next (a req event with re = TRUE)
NextRe == IF l < Len(T.ev) /\ T.ev[l + 1].e = "req" /\ T.ev[l + 1].re
          THEN <<T.ev[l + 1].p, T.ev[l + 1].k, T.ev[l + 1].o>> ELSE <<>>
Step(A) == /\ l <= Len(T.ev) /\ A /\ Matches /\ reent' = NextRe /\ Inv' /\ l' = l + 1 /\ UNCHANGED tid

TNext == \/ (E.e = "req" /\ Step(Req(E.p, E.k, E.o)))
         \/ (E.e = "recv" /\ Step(Recv(E.p)))
         \/ (E.e = "quiet" /\ Step(Quiet))

TSpec == TInit /\ [][l <= Len(T.ev) /\ TNext]_<<vars, tid, l>>

Progress == TLCSet(tid, IF TLCGet(tid) > l THEN TLCGet(tid) ELSE l)
Rejected == {<<t, TLCGet(t)>> : t \in {u \in 1..Len(Traces) : TLCGet(u) # Len(Traces[u].ev) + 1}}
Accepted == Rejected = {} \/ (PrintT(<<"REJECTED", Rejected>>) /\ FALSE)
=============================================================================
