SPECIFICATION Spec
CONSTRAINT Bound
VIEW View
INVARIANT NeverLateFire
CHECK_DEADLOCK FALSE
