SPECIFICATION Spec
CONSTANT MaxT = 2
CONSTANT MaxTh = 2
CONSTRAINT Bound
INVARIANT OneTaskPerThread
INVARIANT WithinLimit
INVARIANT OnlyLiveRun
INVARIANT AfterStop
CHECK_DEADLOCK FALSE
