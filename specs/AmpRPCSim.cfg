SPECIFICATION SSpec
CONSTANT Depth = 14
CONSTANT MaxCalls = 3
CONSTRAINT Emit2
CONSTRAINT Stop
CHECK_DEADLOCK FALSE
