SPECIFICATION Spec
CONSTANT MaxLen = 3
CONSTANT MaxAvail = 4
CONSTANT Mode = "chars"
CONSTANT MaxMsgs = 2
CONSTANT Kinds = {"msg"}
CONSTRAINT Report
CHECK_DEADLOCK FALSE
