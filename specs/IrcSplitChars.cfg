SPECIFICATION Spec
CONSTANT MaxLen = 3
CONSTANT MaxAvail = 4
CONSTANT Mode = "chars"
CONSTANT Kinds = {"msg"}
CONSTRAINT Report
CHECK_DEADLOCK FALSE
