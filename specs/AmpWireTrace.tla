---------------------------- MODULE AmpWireTrace ----------------------------
(* Batched trace validation for C30 (box layer): every recorded run of the real
   BinaryBoxProtocol.sendBox / dataReceived pair must be a behaviour of AmpWire with
   every logged field matched:
     send    : res ("ok" | "refused"), wr = the bytes the call wrote to the transport (run list)
     deliver : n bytes handed to the receiver's dataReceived; new = boxes handed to
               ampBoxReceived during this call; one = boxes produced by a ONE-PIECE parse
               (amp.parseString) of the whole prefix delivered so far (segmentation
               invariance, checked differentially); closed = the parser asked to close;
               res = "ok" or the exception class dataReceived raised.                  *)
EXTENDS AmpWire, TLC, Json, IOUtils

Traces == JsonDeserialize(IOEnv.TRACE_FILE)
VARIABLES tid, l
ASSUME \A t \in 1..Len(Traces) : TLCSet(t, 1)

T == Traces[tid]
E == T.ev[l]

TInit == /\ tid \in 1..Len(Traces) /\ l = 1
         /\ InitWith([boxes |-> Traces[tid].cfg.boxes])

MatchSend == /\ last'.e = "send" /\ last'.res = E.res /\ last'.wr = E.wr
MatchDeliver == /\ last'.e = "deliver" /\ last'.n = E.n /\ E.res = "ok"
                /\ BoxesEq(E.new, last'.new)
                /\ BoxesEq(E.one, last'.all)
                /\ E.closed = last'.closed

Step(A) == /\ l <= Len(T.ev) /\ A /\ Inv' /\ l' = l + 1 /\ UNCHANGED tid

TNext == \/ (E.e = "send" /\ Step((\/ \E o \in Orders(Len(cfg.boxes[nsent + 1])) : SendOk(o)
                                   \/ SendRefuse) /\ MatchSend))
         \/ (E.e = "deliver" /\ Step(Deliver(E.n) /\ MatchDeliver))

TSpec == TInit /\ [][l <= Len(T.ev) /\ TNext]_<<vars, tid, l>>

Progress == TLCSet(tid, IF TLCGet(tid) > l THEN TLCGet(tid) ELSE l)
Rejected == {<<t, TLCGet(t)>> : t \in {u \in 1..Len(Traces) : TLCGet(u) # Len(Traces[u].ev) + 1}}
Accepted == Rejected = {} \/ (PrintT(<<"REJECTED", Rejected>>) /\ FALSE)
=============================================================================
