--------------------------- MODULE SshChannelTrace ---------------------------
(* Batched trace validation (Impl-shaped layer): every recorded execution of a real
   SSHConnection/SSHChannel pair must be a behaviour of SshChannel with every logged field
   matched and the property observer clean after every step.  A trace rejected here is
   re-judged by SshChannelAbsTrace (the property alone); only that verdict is a VIOLATION. *)
EXTENDS SshChannel, TLC, Json, IOUtils

Traces == JsonDeserialize(IOEnv.TRACE_FILE)
VARIABLES tid, l
ASSUME \A t \in 1..Len(Traces) : TLCSet(t, 1)

T == Traces[tid]
E == T.ev[l]

TInit == /\ tid \in 1..Len(Traces) /\ l = 1
         /\ InitWith([win |-> Traces[tid].cfg.win, pkt |-> Traces[tid].cfg.pkt,
                      maxops |-> 1000000, maxn |-> 255, maxadj |-> 255])

Matches ==
    /\ last'.e = E.e /\ last'.sent = E.sent /\ last'.exc = E.exc
    /\ CASE E.e = "write" -> last'.s = E.s /\ last'.n = E.n
         [] E.e = "close" -> TRUE
         [] E.e = "sdeliver" -> last'.m = E.m /\ last'.hook = E.hook /\ last'.sw = E.sw
         [] E.e = "rdeliver" -> last'.m = E.m /\ last'.got = E.got
         [] E.e = "radjust" -> last'.n = E.n
         [] OTHER -> FALSE

Step(A) == /\ l <= Len(T.ev) /\ A /\ Matches /\ Inv' /\ l' = l + 1 /\ UNCHANGED tid

TNext == \/ (E.e = "write" /\ Step(AppWrite(E.s, E.n)))
         \/ (E.e = "close" /\ Step(AppClose))
         \/ (E.e = "sdeliver" /\ Step(SDeliver(E.hook)))
         \/ (E.e = "rdeliver" /\ Step(RDeliver))
         \/ (E.e = "radjust" /\ Step(RAdjust(E.n)))

TSpec == TInit /\ [][l <= Len(T.ev) /\ TNext]_<<vars, tid, l>>

Progress == TLCSet(tid, IF TLCGet(tid) > l THEN TLCGet(tid) ELSE l)
Rejected == {<<t, TLCGet(t)>> : t \in {u \in 1..Len(Traces) : TLCGet(u) # Len(Traces[u].ev) + 1}}
Accepted == Rejected = {} \/ (PrintT(<<"REJECTED", Rejected>>) /\ FALSE)
=============================================================================
