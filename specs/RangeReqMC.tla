----------------------------- MODULE RangeReqMC -----------------------------
(* Exhaustive TLC run over all small cases: every constructive response is allowed by the
   relation and satisfies the pointwise (byte-level) statement of the property.  With
   EmitCases = TRUE the run also prints every case it enumerated; the harness replays exactly
   those on the real static.File (Pattern C: TLC's enumeration is the test plan).            *)
EXTENDS RangeReq, TLC, Json
CONSTANTS MaxSize, MaxVal, MaxSpecs, MinSpecs, WithBad, EmitCases

Vals == 0..MaxVal
NumTokens == {[k |-> "ab", a |-> x, b |-> y] : x \in Vals, y \in Vals}       \* includes reversed (invalid) ones
             \cup {[k |-> kk, a |-> x, b |-> 0] : kk \in {"from", "suffix"}, x \in Vals}
BadTokens == {[k |-> kk, a |-> 0, b |-> 1] : kk \in (BadKinds \ {"neg"}) \cup {"space"}} \cup {[k |-> "neg", a |-> 1, b |-> 0]}
Tokens == NumTokens \cup (IF WithBad THEN BadTokens ELSE {}) \cup {[k |-> "empty", a |-> 0, b |-> 0]}
SpecSeqs == UNION {[1..n -> Tokens] : n \in MinSpecs..MaxSpecs}
Headers == {[present |-> FALSE, unit |-> "bytes", specs |-> <<>>]}
           \cup {[present |-> TRUE, unit |-> "bytes", specs |-> s] : s \in SpecSeqs}
           \cup {[present |-> TRUE, unit |-> u, specs |-> <<t>>] : u \in {"Bytes", "other", "noeq"},
                                                                    t \in {x \in NumTokens : x.a <= 1 /\ x.b <= 1}}
Cases == {[size |-> n, mod |-> 251, method |-> m, hdr |-> h] : n \in 0..MaxSize, m \in {"GET", "HEAD"}, h \in Headers}

Init == \E c \in Cases : InitWith(c)
Spec == Init /\ [][Next]_vars

CanonAllowed == resp.e = "resp" => Allowed(cfg, resp)
SomeResponse == Canon(cfg) # {}                       \* the relation is total: every case has an allowed response
Emit == ~EmitCases \/ resp.e # "init" \/ PrintT(<<"CASE", ToJson(cfg)>>)
=============================================================================
