------------------------------- MODULE FsLock -------------------------------
(* C50 -- twisted.python.lockfile.FilesystemLock.

   The file system is part of the specification: one lock path whose symlink is
   either absent (0) or carries a pid, plus the set of live pids.  A process is
   a pid in 1..cfg.n; DeadPid is a pid of a process that no longer exists (the
   owner of an initial stale lock).  Every file-system call is one action.

   Two sets of actions over the same state:

   * Abs* -- the property, nothing more.  A process calling lock()/unlock() is a
     black box that issues any file-system calls it likes (their results are
     fixed by the file-system state); only the returns of lock() and unlock()
     matter.  Verdicts on recorded executions of the real code come from these
     actions with the invariants below conjoined.
   * the protocol actions (LockCall .. UnlockRet) -- the loop of lock() and the
     body of unlock() as coded, one action per symlink/readlink/kill/rmlink
     call.  TLC checks the invariants on this design; a counterexample is
     replayed on the real code before it is reported.

   pc[p] (protocol values -> coarse value used by the property):
     idle                                   -> idle
     symlink readlink kill rmlink ret_true ret_false   -> locking
     holding                                -> holding
     u_read u_rm u_ret u_exc                -> unlocking
     unlockfailed                           -> unlockfailed
     dead                                   -> dead                                *)
EXTENDS Naturals, FiniteSets

Absent  == 0
DeadPid == 9
ParentPid == 8   \* a process that constructed lock objects before forking; alive iff cfg.parent

VARIABLES cfg,    \* [n |-> number of processes, stale |-> initial stale link, mortal |-> holders may die, parent |-> ParentPid alive]
          link,   \* Absent or the pid stored in the lock symlink
          alive,  \* set of live pids
          pc,     \* per process control state
          rd,     \* per process: pid obtained by the last readlink of lock()
          tried,  \* processes that called lock() while the link was stale (reset whenever a link becomes stale)
          last    \* the observable event of the last action

vars == <<cfg, link, alive, pc, rd, tried, last>>

Procs == 1..cfg.n
Stale == link # Absent /\ link \notin alive

InitWith(c) ==
    /\ cfg = c
    /\ link = IF c.stale THEN DeadPid ELSE Absent
    /\ alive = 1..c.n \cup (IF c.parent THEN {ParentPid} ELSE {})
    /\ pc = [p \in 1..c.n |-> "idle"]
    /\ rd = [p \in 1..c.n |-> 0]
    /\ tried = {}
    /\ last = [e |-> "init", p |-> 0, res |-> "", v |-> 0]

Coarse(s) == CASE s = "idle" -> "idle"
               [] s \in {"symlink", "readlink", "kill", "rmlink", "ret_true", "ret_false", "locking"} -> "locking"
               [] s = "holding" -> "holding"
               [] s \in {"u_read", "u_rm", "u_ret", "u_exc", "unlocking"} -> "unlocking"
               [] s = "unlockfailed" -> "unlockfailed"
               [] OTHER -> "dead"

-----------------------------------------------------------------------------
(* File-system semantics: result `res` and value `v` of a call in the current state. *)
FsSymlink(res, v) ==      \* symlink(str(v), name): atomic create, fails if the name exists
    \/ link = Absent /\ res = "ok" /\ link' = v
    \/ link # Absent /\ res = "EEXIST" /\ link' = link
FsReadlink(res, v) ==     \* readlink(name) -> v
    /\ link' = link
    /\ \/ link = Absent /\ res = "ENOENT" /\ v = 0
       \/ link # Absent /\ res = "ok" /\ v = link
FsKill(res, v) ==         \* kill(v, 0)
    /\ link' = link
    /\ \/ v \in alive /\ res = "ok"
       \/ v \notin alive /\ res = "ESRCH"
FsRmlink(res, v) ==       \* remove(name); v = the pid the removed link carried
    \/ link = Absent /\ res = "ENOENT" /\ v = 0 /\ link' = link
    \/ link # Absent /\ res = "ok" /\ v = link /\ link' = Absent

Ev(e, p, res, v) == last' = [e |-> e, p |-> p, res |-> res, v |-> v]
Goto(p, s) == pc' = [pc EXCEPT ![p] = s]

-----------------------------------------------------------------------------
(* The protocol as coded. *)
LockCall(p) ==
    /\ pc[p] = "idle"
    /\ Goto(p, "symlink")
    /\ tried' = IF Stale THEN tried \cup {p} ELSE tried
    /\ Ev("lock_call", p, "", 0)
    /\ UNCHANGED <<cfg, link, alive, rd>>

Symlink(p) ==
    /\ pc[p] = "symlink"
    /\ \E res \in {"ok", "EEXIST"} :
          /\ FsSymlink(res, p)
          /\ Goto(p, IF res = "ok" THEN "ret_true" ELSE "readlink")
          /\ Ev("symlink", p, res, p)
    /\ UNCHANGED <<cfg, alive, rd, tried>>

Readlink(p) ==
    /\ pc[p] = "readlink"
    /\ \E res \in {"ok", "ENOENT"} : \E v \in {0, link} :
          /\ FsReadlink(res, v)
          /\ Goto(p, IF res = "ok" THEN "kill" ELSE "symlink")
          /\ rd' = [rd EXCEPT ![p] = v]
          /\ Ev("readlink", p, res, v)
    /\ UNCHANGED <<cfg, alive, tried>>

Kill(p) ==
    /\ pc[p] = "kill"
    /\ \E res \in {"ok", "ESRCH"} :
          /\ FsKill(res, rd[p])
          /\ Goto(p, IF res = "ok" THEN "ret_false" ELSE "rmlink")
          /\ Ev("kill", p, res, rd[p])
    /\ UNCHANGED <<cfg, alive, rd, tried>>

Rmlink(p) ==
    /\ pc[p] = "rmlink"
    /\ \E res \in {"ok", "ENOENT"} : \E v \in {0, link} :
          /\ FsRmlink(res, v)
          /\ Goto(p, "symlink")
          /\ Ev("rmlink", p, res, v)
    /\ UNCHANGED <<cfg, alive, rd, tried>>

LockRet(p) ==
    /\ pc[p] \in {"ret_true", "ret_false"}
    /\ Goto(p, IF pc[p] = "ret_true" THEN "holding" ELSE "idle")
    /\ Ev("lock_ret", p, IF pc[p] = "ret_true" THEN "true" ELSE "false", 0)
    /\ UNCHANGED <<cfg, link, alive, rd, tried>>

UnlockCall(p) ==
    /\ pc[p] = "holding"
    /\ Goto(p, "u_read")
    /\ Ev("unlock_call", p, "", 0)
    /\ UNCHANGED <<cfg, link, alive, rd, tried>>

URead(p) ==
    /\ pc[p] = "u_read"
    /\ \E res \in {"ok", "ENOENT"} : \E v \in {0, link} :
          /\ FsReadlink(res, v)
          /\ Goto(p, IF res = "ok" /\ v = p THEN "u_rm" ELSE "u_exc")
          /\ Ev("readlink", p, res, v)
    /\ UNCHANGED <<cfg, alive, rd, tried>>

URm(p) ==
    /\ pc[p] = "u_rm"
    /\ \E res \in {"ok", "ENOENT"} : \E v \in {0, link} :
          /\ FsRmlink(res, v)
          /\ Goto(p, IF res = "ok" THEN "u_ret" ELSE "u_exc")
          /\ Ev("rmlink", p, res, v)
    /\ UNCHANGED <<cfg, alive, rd, tried>>

UnlockRet(p) ==
    /\ pc[p] \in {"u_ret", "u_exc"}
    /\ Goto(p, IF pc[p] = "u_ret" THEN "idle" ELSE "unlockfailed")
    /\ Ev("unlock_ret", p, IF pc[p] = "u_ret" THEN "ok" ELSE "EXC", 0)
    /\ UNCHANGED <<cfg, link, alive, rd, tried>>

Die(p) ==     \* the holder's process ends without unlocking
    /\ cfg.mortal
    /\ pc[p] = "holding"
    /\ Goto(p, "dead")
    /\ alive' = alive \ {p}
    /\ tried' = IF link = p THEN {} ELSE tried
    /\ Ev("die", p, "", 0)
    /\ UNCHANGED <<cfg, link, rd>>

ProcStep(p) == \/ LockCall(p) \/ Symlink(p) \/ Readlink(p) \/ Kill(p) \/ Rmlink(p) \/ LockRet(p)
               \/ UnlockCall(p) \/ URead(p) \/ URm(p) \/ UnlockRet(p)

Next == \/ \E p \in Procs : LockCall(p)
        \/ \E p \in Procs : Symlink(p)
        \/ \E p \in Procs : Readlink(p)
        \/ \E p \in Procs : Kill(p)
        \/ \E p \in Procs : Rmlink(p)
        \/ \E p \in Procs : LockRet(p)
        \/ \E p \in Procs : UnlockCall(p)
        \/ \E p \in Procs : URead(p)
        \/ \E p \in Procs : URm(p)
        \/ \E p \in Procs : UnlockRet(p)
        \/ \E p \in Procs : Die(p)

-----------------------------------------------------------------------------
(* The property layer: processes are black boxes. *)
AbsEvent(e, p, res, v) ==
    /\ p \in Procs
    /\ Ev(e, p, res, v)
    /\ UNCHANGED <<cfg, rd>>
    /\ \/ /\ e = "lock_call" /\ pc[p] = "idle" /\ Goto(p, "locking")
          /\ tried' = IF Stale THEN tried \cup {p} ELSE tried
          /\ UNCHANGED <<link, alive>>
       \/ /\ e = "lock_ret" /\ pc[p] = "locking" /\ res \in {"true", "false"}
          /\ Goto(p, IF res = "true" THEN "holding" ELSE "idle")
          /\ UNCHANGED <<link, alive, tried>>
       \/ /\ e = "unlock_call" /\ pc[p] = "holding" /\ Goto(p, "unlocking")
          /\ UNCHANGED <<link, alive, tried>>
       \/ /\ e = "unlock_ret" /\ pc[p] = "unlocking"
          /\ (res = "ok" => link # p)        \* released: the link no longer names the (live) releaser
          /\ Goto(p, IF res = "ok" THEN "idle" ELSE "unlockfailed")
          /\ UNCHANGED <<link, alive, tried>>
       \/ /\ e = "die" /\ pc[p] = "holding" /\ Goto(p, "dead")
          /\ alive' = alive \ {p}
          /\ tried' = IF link = p THEN {} ELSE tried
          /\ UNCHANGED link
       \/ /\ e \in {"symlink", "readlink", "kill", "rmlink"}
          /\ pc[p] \in {"locking", "unlocking"}
          /\ \/ e = "symlink" /\ FsSymlink(res, v)
             \/ e = "readlink" /\ FsReadlink(res, v)
             \/ e = "kill" /\ FsKill(res, v)
             \/ e = "rmlink" /\ FsRmlink(res, v)
          /\ UNCHANGED <<pc, alive, tried>>

(* End of a bounded run in which every process has finished its calls: a stale link
   that some live process tried to lock has been taken over (bounded form of
   "a lock left by a dead process can eventually be acquired"). *)
End ==
    /\ \A p \in Procs : Coarse(pc[p]) \in {"idle", "holding", "dead"}
    /\ Stale => tried = {}
    /\ Ev("end", 0, "", 0)
    /\ UNCHANGED <<cfg, link, alive, pc, rd, tried>>

-----------------------------------------------------------------------------
(* The property. *)
Holders == {p \in Procs : Coarse(pc[p]) = "holding"}
MutualExclusion == Cardinality(Holders) <= 1                       \* at most one process holds the lock
CanRelease == \A p \in Procs : pc[p] # "unlockfailed"              \* a holder's unlock() never fails
Inv == MutualExclusion /\ CanRelease

(* a stale lock is eventually acquired (checked under weak fairness of every process) *)
StaleAcquired == Stale ~> (Holders # {})
=============================================================================
