-------------------------------- MODULE Team --------------------------------
(* C49 -- twisted._threads.Team as built by twisted._threads.pool(currentLimit):
   a coordinator worker serialising the team's bookkeeping, and workers created on
   demand while busy + idle < limit.

   The coordinator and the workers are in-memory workers: every unit of work given to
   them runs only when the environment performs it (CoordStep / WorkerStep(w)), so a
   behaviour of this specification is a schedule, and every schedule can be imposed
   on the real Team.  One action per public call and per performed unit of work.
   Tasks are numbered by do() call (1, 2, ..), workers by creation.

   Where the property leaves freedom the action is nondeterministic: which idle
   worker takes a task, which backlogged task a recycled worker takes, in which
   order idle workers are quit.

   Observable interface (what `last` records and the trace validator compares):
     res  outcome of the call / of perform()
     sub  the interactions with the collaborators during the step, in order:
          <<"cdo",0>> coordinator.do   <<"cquit",0>> coordinator.quit
          <<"create",w>> createWorker made worker w   <<"wdo",w>> worker.do   <<"wquit",w>> worker.quit
          <<"run",t>> task t ran   <<"logexc",t>> logException called for it
     st   Team.statistics(): <<idle, busy, backlog>>                                         *)
EXTENDS Naturals, Integers, Sequences, FiniteSets

All == -1       \* shrink(None)

VARIABLES cfg,        \* [limit |-> initial limit, inline |-> coordinator work runs inside the call that queues it]
          limit,      \* value currently returned by currentLimit()
          quitF,      \* Team.quit() has been called
          cq,         \* coordinator queue: items [k |-> kind, a |-> argument]; kind "stop" = coordinator quit
          cquit,      \* coordinator.quit() has been called
          idle,       \* set of idle workers
          busy,       \* busy count
          pend,       \* backlog: sequence of task ids
          toShrink,   \* deferred shrink count
          shouldQuit, \* coordinator is to quit when the last busy worker is done
          nW,         \* workers created so far
          wq,         \* wq[w]: queue of worker w: task ids, 0 = stop marker
          wquit,      \* workers whose quit() was called
          nT,         \* do() calls so far
          accepted,   \* tasks whose do() was accepted
          runs,       \* runs[t]: how often task t has run
          createOk,   \* every worker so far was created while fewer than `limit` existed
          err,        \* an interaction that raises in the real objects happened (do on a quit worker, ...)
          cnt,        \* [g, s, l, q]: grow / shrink / setlimit / quit calls so far (bounds for model checking)
          last        \* observable of the last action

vars == <<cfg, limit, quitF, cq, cquit, idle, busy, pend, toShrink, shouldQuit, nW, wq, wquit,
          nT, accepted, runs, createOk, err, cnt, last>>

InitWith(c) ==
    /\ cfg = c /\ limit = c.limit
    /\ quitF = FALSE /\ cq = <<>> /\ cquit = FALSE
    /\ idle = {} /\ busy = 0 /\ pend = <<>> /\ toShrink = 0 /\ shouldQuit = FALSE
    /\ nW = 0 /\ wq = <<>> /\ wquit = {}
    /\ nT = 0 /\ accepted = {} /\ runs = <<>>
    /\ createOk = TRUE /\ err = FALSE
    /\ cnt = [g |-> 0, s |-> 0, l |-> 0, q |-> 0]
    /\ last = [e |-> "init"]

Item(k, a) == [k |-> k, a |-> a]
RemoveAt(s, i) == SubSeq(s, 1, i - 1) \o SubSeq(s, i + 1, Len(s))

-----------------------------------------------------------------------------
(* The coordinator's bookkeeping, as functions from a snapshot S of the team to the set
   of possible snapshots after the code has run (a set because of the free choices). *)
Snapshot == [idle |-> idle, busy |-> busy, pend |-> pend, toShrink |-> toShrink, nW |-> nW, wq |-> wq,
             wquit |-> wquit, cquit |-> cquit, cq |-> <<>>, sub |-> <<>>, cok |-> createOk, err |-> FALSE]

Existing(S) == S.nW - Cardinality(S.wquit)

\* worker.do(doWork(t)) + busyCount += 1      (do on a quit worker raises AlreadyQuit)
Dispatch(S, w, t) ==
    [S EXCEPT !.busy = @ + 1, !.wq[w] = Append(@, t), !.sub = Append(@, <<"wdo", w>>), !.err = @ \/ (w \in S.wquit)]

\* limitedWorkerCreator: a new worker unless busy + idle >= currentLimit()
CanCreate(S) == S.busy + Cardinality(S.idle) < limit
Create(S) ==
    [S EXCEPT !.nW = @ + 1, !.wq = Append(@, <<>>), !.sub = Append(@, <<"create", S.nW + 1>>),
              !.cok = @ /\ (Existing(S) < limit)]

\* _coordinateThisTask(t)
Coordinate(S, t) ==
    IF S.idle # {} THEN {Dispatch([S EXCEPT !.idle = @ \ {w}], w, t) : w \in S.idle}
    ELSE IF CanCreate(S) THEN {Dispatch(Create(S), S.nW + 1, t)}
    ELSE {[S EXCEPT !.pend = Append(@, t)]}

\* worker.quit(): no more work accepted, stop marker queued      (quit of a quit worker raises AlreadyQuit)
QuitWorker(S, w) ==
    [S EXCEPT !.wquit = @ \cup {w}, !.wq[w] = Append(@, 0), !.sub = Append(@, <<"wquit", w>>), !.err = @ \/ (w \in S.wquit)]

\* the loop of _quitIdlers: n times, quit an idle worker or defer
RECURSIVE QuitN(_, _)
QuitN(S, n) ==
    IF n <= 0 THEN {S}
    ELSE IF S.idle # {} THEN UNION {QuitN(QuitWorker([S EXCEPT !.idle = @ \ {w}], w), n - 1) : w \in S.idle}
    ELSE QuitN([S EXCEPT !.toShrink = @ + 1], n - 1)

\* _quitIdlers(n); sq = _shouldQuitCoordinator      (a second coordinator.quit() raises AlreadyQuit)
QuitIdlers(S, n, sq) ==
    LET k == IF n = All THEN Cardinality(S.idle) + S.busy ELSE n
    IN {IF sq /\ T.busy = 0
          THEN [T EXCEPT !.cquit = TRUE, !.cq = Append(@, Item("stop", 0)), !.sub = Append(@, <<"cquit", 0>>), !.err = @ \/ T.cquit]
          ELSE T : T \in QuitN(S, k)}

\* _recycleWorker(w)
Recycle(S, w, sq) ==
    LET S1 == [S EXCEPT !.idle = @ \cup {w}] IN
    IF S1.pend # <<>> THEN UNION {Coordinate([S1 EXCEPT !.pend = RemoveAt(@, i)], S1.pend[i]) : i \in 1..Len(S1.pend)}
    ELSE IF sq THEN QuitIdlers(S1, All, sq)
    ELSE IF S1.toShrink > 0 THEN {QuitWorker([S1 EXCEPT !.toShrink = @ - 1, !.idle = @ \ {w}], w)}
    ELSE {S1}

\* grow(n): n times, create a worker (stop if none can be created) and recycle it
RECURSIVE GrowLoop(_, _, _)
GrowLoop(S, n, sq) ==
    IF n <= 0 \/ ~CanCreate(S) THEN {S}
    ELSE UNION {GrowLoop(T, n - 1, sq) : T \in Recycle(Create(S), S.nW + 1, sq)}

\* grow(n) in which some createWorker() call raises: the iterations before it are done, the rest is not
RECURSIVE GrowFail(_, _, _)
GrowFail(S, n, sq) ==
    IF n <= 0 \/ ~CanCreate(S) THEN {}
    ELSE {[S EXCEPT !.sub = Append(@, <<"createfail", 0>>)]}
         \cup UNION {GrowFail(T, n - 1, sq) : T \in Recycle(Create(S), S.nW + 1, sq)}

Stats == <<Cardinality(idle'), busy', Len(pend')>>
Obs(e, res, n, raised, sub) == last' = [e |-> e, res |-> res, n |-> n, raised |-> raised, sub |-> sub, st |-> Stats]

-----------------------------------------------------------------------------
(* Public calls.  Each queues one unit of work on the coordinator, or is refused after quit(). *)
Call(e, n, item) ==
    /\ UNCHANGED <<cfg, limit, cquit, idle, busy, pend, toShrink, shouldQuit, nW, wq, wquit, createOk, err>>
    /\ IF quitF
         THEN /\ Obs(e, "AlreadyQuit", n, FALSE, <<>>) /\ UNCHANGED cq
         ELSE /\ Obs(e, "ok", n, FALSE, << <<"cdo", 0>> >>) /\ cq' = Append(cq, item)

Do ==
    /\ Call("do", nT + 1, Item("task", nT + 1))
    /\ nT' = nT + 1 /\ runs' = Append(runs, 0)
    /\ accepted' = IF quitF THEN accepted ELSE accepted \cup {nT + 1}
    /\ UNCHANGED <<cnt, quitF>>

Grow(n) ==
    /\ n >= 1
    /\ Call("grow", n, Item("grow", n))
    /\ cnt' = [cnt EXCEPT !.g = @ + 1]
    /\ UNCHANGED <<nT, runs, accepted, quitF>>

Shrink(n) ==
    /\ n = All \/ n >= 1
    /\ Call("shrink", n, Item("shrink", n))
    /\ cnt' = [cnt EXCEPT !.s = @ + 1]
    /\ UNCHANGED <<nT, runs, accepted, quitF>>

SetLimit(n) ==     \* the environment changes what currentLimit() returns
    /\ n >= 0 /\ limit' = n
    /\ cnt' = [cnt EXCEPT !.l = @ + 1]
    /\ UNCHANGED <<cfg, quitF, cq, cquit, idle, busy, pend, toShrink, shouldQuit, nW, wq, wquit, nT, accepted, runs, createOk, err>>
    /\ Obs("setlimit", "ok", n, FALSE, <<>>)

Quit ==            \* a second quit() raises AlreadyQuit
    /\ Call("quit", 0, Item("finish", 0))
    /\ quitF' = TRUE
    /\ cnt' = [cnt EXCEPT !.q = @ + 1]
    /\ UNCHANGED <<nT, runs, accepted>>

-----------------------------------------------------------------------------
(* The environment performs one unit of the coordinator's work. *)
CoordStep ==
    /\ cq # <<>> /\ Head(cq).k # "stop"
    /\ LET it == Head(cq)
           sq == shouldQuit \/ it.k = "finish"
           R  == CASE it.k = "task"    -> Coordinate(Snapshot, it.a)
                   [] it.k = "grow"    -> GrowLoop(Snapshot, it.a, sq)
                   [] it.k = "shrink"  -> QuitIdlers(Snapshot, it.a, sq)
                   [] it.k = "recycle" -> Recycle([Snapshot EXCEPT !.busy = @ - 1], it.a, sq)
                   [] it.k = "finish"  -> QuitIdlers(Snapshot, All, TRUE)
       IN \E T \in R :
            /\ idle' = T.idle /\ busy' = T.busy /\ pend' = T.pend /\ toShrink' = T.toShrink
            /\ nW' = T.nW /\ wq' = T.wq /\ wquit' = T.wquit /\ cquit' = T.cquit
            /\ createOk' = T.cok /\ err' = (err \/ T.err)
            /\ cq' = Tail(cq) \o T.cq
            /\ shouldQuit' = sq
            /\ Obs("coord", "true", 0, FALSE, T.sub)
    /\ UNCHANGED <<cfg, limit, quitF, nT, accepted, runs, cnt>>

(* createWorker() raises (a thread cannot be started) while the coordinator work runs inside the submitting call:
   the exception reaches the submitter, so a task submission that fails this way is not an accepted one; the
   team's bookkeeping is as if the failing creation had not been attempted.  (Trace validation only.) *)
CoordFail ==
    /\ cfg.inline /\ cq # <<>> /\ Head(cq).k \in {"task", "grow"}
    /\ LET it == Head(cq)
           R  == IF it.k = "task"
                   THEN (IF Snapshot.idle = {} /\ CanCreate(Snapshot)
                           THEN {[Snapshot EXCEPT !.sub = << <<"createfail", 0>> >>]} ELSE {})
                   ELSE GrowFail(Snapshot, it.a, shouldQuit)
       IN \E T \in R :
            /\ idle' = T.idle /\ busy' = T.busy /\ pend' = T.pend /\ toShrink' = T.toShrink
            /\ nW' = T.nW /\ wq' = T.wq /\ wquit' = T.wquit /\ cquit' = T.cquit
            /\ createOk' = T.cok /\ err' = (err \/ T.err)
            /\ cq' = Tail(cq) \o T.cq
            /\ accepted' = IF it.k = "task" THEN accepted \ {it.a} ELSE accepted
            /\ Obs("coord", "exc", 0, FALSE, T.sub)
    /\ UNCHANGED <<cfg, limit, quitF, shouldQuit, nT, runs, cnt>>

\* with an inline coordinator no coordinator work is left queued when the operation that queued it returns
InlineDone == IF cq = <<>> THEN TRUE ELSE Head(cq).k = "stop"

CoordIdle ==       \* perform() on a coordinator with nothing to do
    /\ IF cq = <<>> THEN TRUE ELSE Head(cq).k = "stop"
    /\ UNCHANGED <<cfg, limit, quitF, cq, cquit, idle, busy, pend, toShrink, shouldQuit, nW, wq, wquit, nT, accepted, runs, createOk, err, cnt>>
    /\ Obs("coord", "false", 0, FALSE, <<>>)

(* The environment lets worker w perform its next unit of work: the task runs (it may raise, then
   logException is called), then the worker reports back to the coordinator. *)
WorkerStep(w) ==
    /\ w \in 1..nW /\ wq[w] # <<>> /\ Head(wq[w]) # 0
    /\ UNCHANGED <<cfg, limit, quitF, cquit, idle, busy, pend, toShrink, shouldQuit, nW, wquit, nT, accepted, createOk, cnt>>
    /\ LET t == Head(wq[w]) IN \E raised \in BOOLEAN :
         /\ runs' = [runs EXCEPT ![t] = @ + 1]
         /\ wq' = [wq EXCEPT ![w] = Tail(@)]
         /\ cq' = Append(cq, Item("recycle", w))
         /\ err' = (err \/ cquit)             \* coordinator.do after coordinator.quit raises
         /\ Obs("work", "true", w, raised,
                << <<"run", t>> >> \o (IF raised THEN << <<"logexc", t>> >> ELSE <<>>) \o << <<"cdo", 0>> >>)

WorkerIdle(w) ==   \* perform() on a worker with nothing to do (or stopped)
    /\ w \in 1..nW /\ (IF wq[w] = <<>> THEN TRUE ELSE Head(wq[w]) = 0)
    /\ UNCHANGED <<cfg, limit, quitF, cq, cquit, idle, busy, pend, toShrink, shouldQuit, nW, wq, wquit, nT, accepted, runs, createOk, err, cnt>>
    /\ Obs("work", "false", w, FALSE, <<>>)

Next == \/ Do
        \/ \E n \in 1..2 : Grow(n)
        \/ \E n \in {All, 1, 2} : Shrink(n)
        \/ \E n \in 0..2 : SetLimit(n)
        \/ Quit
        \/ CoordStep
        \/ \E w \in 1..nW : WorkerStep(w)

-----------------------------------------------------------------------------
(* The property. *)
Tasks == 1..nT
Workers == 1..nW
TasksIn(q) == Cardinality({i \in 1..Len(q) : q[i] # 0})
InPend(t) == \E i \in 1..Len(pend) : pend[i] = t
Quiescent == /\ (cq = <<>> \/ Head(cq).k = "stop")
             /\ \A w \in Workers : wq[w] = <<>> \/ Head(wq[w]) = 0

AtMostOnce      == \A t \in Tasks : runs[t] <= 1                          \* no task runs twice
OnlyAccepted    == \A t \in Tasks : runs[t] > 0 => t \in accepted         \* a refused task never runs
CreateBelowLimit == createOk                                              \* workers only created while fewer than the limit exist
OneTaskAtOnce   == \A w \in Workers : /\ TasksIn(wq[w]) <= 1              \* a worker is never given a second task before it finished the first
                                      /\ (w \in wquit => wq[w] # <<>> /\ wq[w][Len(wq[w])] = 0)   \* nothing is queued behind a stop
NoRaise         == ~err                                                   \* the team never uses a quit worker / quit coordinator
\* once nothing is left to perform: every accepted task has run exactly once, unless it is still backlogged
\* and no worker exists (none could be created for it)
AllRun          == Quiescent => \A t \in accepted : runs[t] = 1 \/ (runs[t] = 0 /\ InPend(t) /\ nW = Cardinality(wquit))
\* ... and after quit() every worker and the coordinator have been stopped
QuitStopsAll    == (Quiescent /\ quitF) => (wquit = Workers /\ cquit)
\* no task waits in the backlog while a worker is idle
NoIdleBacklog   == pend # <<>> => idle = {}

Inv == AtMostOnce /\ OnlyAccepted /\ CreateBelowLimit /\ OneTaskAtOnce /\ NoRaise /\ AllRun /\ QuitStopsAll /\ NoIdleBacklog
=============================================================================
