----------------------------- MODULE CoopTrace -----------------------------
(* Batched trace validation: every recorded execution of the real Cooperator /
   CooperativeTask must be a behaviour of Coop with every logged field matching:
   each next() on an iterator (task, what the iterator did), each whenDone /
   coiterate Deferred result (which Deferred, what it got), each public call's
   outcome (ok / exception class), and whether the scheduler holds a tick request. *)
EXTENDS Coop, TLC, Json, IOUtils

Traces == JsonDeserialize(IOEnv.TRACE_FILE)
VARIABLES tid, l
ASSUME \A t \in 1..Len(Traces) : TLCSet(t, 1)

T == Traces[tid]
E == T.ev[l]

TInit == /\ tid \in 1..Len(Traces) /\ l = 1
         /\ InitWith([started |-> Traces[tid].cfg.started])

SeqToSet(s) == {s[i] : i \in 1..Len(s)}

Matches == /\ last'.e = E.e
           /\ ("*" \in last'.res \/ E.res \in last'.res)
           /\ Len(E.wdf) = Cardinality(last'.wdf)          \* no Deferred fired twice
           /\ SeqToSet(E.wdf) = last'.wdf                  \* the right ones, with the right result
           /\ (last'.need => E.p)                          \* runnable work => a tick has been requested

Step1(A) == /\ l <= Len(T.ev) /\ A /\ Matches /\ Inv' /\ l' = l + 1 /\ UNCHANGED tid

TNext == \/ (E.e = "cooperate" /\ Step1(Create(FALSE)))
         \/ (E.e = "coiterate" /\ Step1(Create(TRUE)))
         \/ (E.e = "whenDone" /\ Step1(WhenDone(E.t)))
         \/ (E.e = "pause" /\ Step1(PauseOk(E.t) \/ PauseFinished(E.t)))
         \/ (E.e = "resume" /\ Step1(ResumePaused(E.t) \/ ResumeNotPaused(E.t) \/ ResumeWaiting(E.t) \/ ResumeFinished(E.t)))
         \/ (E.e = "stop" /\ Step1(StopOk(E.t) \/ StopFinished(E.t)))
         \/ (E.e = "fire" /\ Step1(Fire(E.d, E.ok)))
         \/ (E.e = "tick" /\ Step1(TickBegin(E.b)))
         \/ (E.e = "next" /\ Step1(Step(E.t, E.o)))
         \/ (E.e = "tickend" /\ Step1(TickEnd))
         \/ (E.e = "coopstop" /\ Step1(\E S \in SUBSET {t \in Tasks : tk[t].fin = "none" /\ ~Runnable(t)} : CoopStop(S)))
         \/ (E.e = "coopstart" /\ Step1(CoopStart))

TSpec == TInit /\ [][l <= Len(T.ev) /\ TNext]_<<vars, tid, l>>

Progress == TLCSet(tid, IF TLCGet(tid) > l THEN TLCGet(tid) ELSE l)
Rejected == {<<t, TLCGet(t)>> : t \in {u \in 1..Len(Traces) : TLCGet(u) # Len(Traces[u].ev) + 1}}
Accepted == Rejected = {} \/ (PrintT(<<"REJECTED", Rejected>>) /\ FALSE)
=============================================================================
