SPECIFICATION Spec
CONSTANT W = 9
CONSTANT LimbSizes = {2, 3, 5, 16}
INVARIANT Trichotomy
INVARIANT LeGeAgree
INVARIANT AddGreater
INVARIANT AddRange
INVARIANT RoundTrip
INVARIANT NumCmp
INVARIANT NumAdd
INVARIANT Antisym
CHECK_DEADLOCK FALSE
