---------------------------- MODULE DnsRetryTrace ----------------------------
EXTENDS DnsRetry, Json, IOUtils
Traces == JsonDeserialize(IOEnv.TRACE_FILE)
VARIABLES tid, l
ASSUME \A t \in 1..Len(Traces) : TLCSet(t, 1)
T == Traces[tid]
E == T.ev[l]
TInit == tid \in 1..Len(Traces) /\ l = 1 /\ InitWith(Traces[tid].cfg)
\* every logged outcome of the real call is compared with the spec's observation of the step
Matches == /\ last'.sent = E.sent /\ last'.closed = E.closed /\ last'.connects = E.connects
           /\ last'.tcpsent = E.tcpsent /\ last'.fired = E.fired /\ last'.unexpected = E.unexpected
           /\ Len(timers') = E.timers /\ E.logerr = 0 /\ E.raised = ""
Step(A) == /\ l <= Len(T.ev) /\ A /\ Matches /\ Inv' /\ ExactlyOnceStep /\ now' >= now
           /\ l' = l + 1 /\ UNCHANGED tid
TNext == \/ (E.e = "lookup" /\ Step(Lookup(E.n)))
         \/ (E.e = "reply" /\ Step(Reply(E.a, E.i, E.kind, E.rc, E.v, E.qn)))
         \/ (E.e = "advance" /\ Step(Advance(E.d)))
         \/ (E.e = "fire" /\ Step(Fire))
         \/ (E.e = "connup" /\ Step(ConnUp(E.c)))
         \/ (E.e = "connfail" /\ Step(ConnFail(E.c)))
         \/ (E.e = "connlost" /\ Step(ConnLost(E.c)))
         \/ (E.e = "tcpreply" /\ Step(TcpReply(E.c, E.i, E.kind, E.rc, E.v, E.qn)))
         \/ (E.e = "end" /\ Step(End))
TSpec == TInit /\ [][l <= Len(T.ev) /\ TNext]_<<vars, tid, l>>
Progress == TLCSet(tid, IF TLCGet(tid) > l THEN TLCGet(tid) ELSE l)
Rejected == {<<t, TLCGet(t)>> : t \in {u \in 1..Len(Traces) : TLCGet(u) # Len(Traces[u].ev) + 1}}
Accepted == Rejected = {} \/ (PrintT(<<"REJECTED", Rejected>>) /\ FALSE)
=============================================================================
