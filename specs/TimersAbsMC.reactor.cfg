SPECIFICATION Spec
CONSTANT Flavours = {"reactor"}
CONSTANT MaxCalls = 3
CONSTANT Ds = {0, 1}
CONSTANT NegMax = 1
CONSTANT MaxNow = 2
CONSTANT Depth = 7
CONSTRAINT Bound
VIEW View
INVARIANT ExactlyOnce
INVARIANT NeverEarly
INVARIANT NotInBirthIteration
INVARIANT NoMissed
INVARIANT OrderElig
INVARIANT OrderAll
INVARIANT Nondecreasing
INVARIANT CreationOrder
INVARIANT Shape
INVARIANT NoStuck
CHECK_DEADLOCK FALSE
