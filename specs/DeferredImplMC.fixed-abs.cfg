SPECIFICATION Spec
CONSTANT Ops = 4
CONSTANT MaxD = 2
CONSTANT MaxPause = 1
CONSTANT Fixed = TRUE
CONSTANT Against = "abs"
CONSTANT Plain <- PlainSmall
VIEW View
INVARIANT Refines
INVARIANT RefinesObs
INVARIANT DepthOne
INVARIANT ChainBounded
INVARIANT ITypeOK
CHECK_DEADLOCK FALSE
INVARIANT AtMostOnce
INVARIANT AddOrder
INVARIANT Quiescent
INVARIANT WaitConsistent
