------------------------------ MODULE H2FlowMC ------------------------------
(* Exhaustive TLC run of the H2Flow specification with a bounded environment; the bounds are
   part of the next-state relation (not a CONSTRAINT) so that the liveness property is checked
   on the complete graph.  Fairness: the server's send loop only.                          *)
EXTENDS H2Flow, TLC
CONSTANTS NS, MaxWrite, MaxWU, MaxSet, CW, IW, MF

VARIABLES nWU, nSet     \* environment budgets (history only)
mcvars == <<vars, nWU, nSet>>

Cfgs == {[ns |-> NS, connWin0 |-> cw, initWin0 |-> iw, maxFrame0 |-> mf] : cw \in CW, iw \in IW, mf \in MF}

MCInit == /\ \E c \in Cfgs : InitWith(c)
          /\ nWU = 0 /\ nSet = 0

MCOpen == Open /\ UNCHANGED <<nWU, nSet>>
MCWindowUpdate == \E s \in 0..NS, n \in 1..2 : WindowUpdate(s, n) /\ nWU < MaxWU /\ nWU' = nWU + 1 /\ UNCHANGED nSet
MCSettings == \E iw \in 0..2, mf \in 1..2 : Settings(iw, mf) /\ (iw # initWin \/ mf # maxFrame) /\ nSet < MaxSet /\ nSet' = nSet + 1 /\ UNCHANGED nWU
MCWrite == \E s \in 1..NS, n \in 1..2 : AppWrite(s, n) /\ written[s] + n <= MaxWrite /\ UNCHANGED <<nWU, nSet>>
MCFinish == \E s \in 1..NS : AppFinish(s) /\ UNCHANGED <<nWU, nSet>>
MCSend == SendAny /\ UNCHANGED <<nWU, nSet>>
MCQuiesce == Quiesce /\ UNCHANGED <<nWU, nSet>>

MCNext == MCOpen \/ MCWindowUpdate \/ MCSettings \/ MCWrite \/ MCFinish \/ MCSend \/ MCQuiesce
Spec == MCInit /\ [][MCNext]_mcvars /\ WF_mcvars(MCSend)
SpecNoFair == MCInit /\ [][MCNext]_mcvars

(* "streams blocked on flow control resume when the window opens": a sendable stream does not stay
   sendable forever without sending (it sends, or the peer takes the window away again). *)
Resume == \A s \in 1..NS : []<>(~Sendable(s))

View == <<cfg, connWin, strWin, nOpen, written, sent, finished, ended, initWin, maxFrame, nWU, nSet>>
=============================================================================
