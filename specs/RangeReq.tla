------------------------------ MODULE RangeReq ------------------------------
(* C25 -- static file range requests (Pattern C: transcribed function).

   The function  (file size, Range header, method)  |->  set of allowed responses
   is written here from RFC 9110 section 14 (Range Requests) and 15.3.7 (206) /
   15.5.17 (416), at the strictness of the property text:

     * header absent, not understood or malformed   -> 200, whole content
     * some range-spec satisfiable                  -> 206, exactly the requested
                                                      ranges (multipart for several)
     * otherwise                                    -> 416

   A case is  cfg = [size, mod, method, hdr];  the file's byte at position i has
   the value  i % mod  (mod > size for the small exhaustive cases, so every byte is
   distinct there).  A body is described losslessly as a sequence of runs <<v, n>>:
   n consecutive bytes v, v+1, ... (mod `mod`).

   hdr = [present, unit, specs];  unit \in {"bytes", "Bytes", "other", "noeq"};
   specs = sequence of [k, a, b] with
      k = "ab"      a-b          (int-range; invalid when b < a, RFC 9110 14.1.1)
      k = "from"    a-           (int-range without last-pos)
      k = "suffix"  -a           (suffix-range of a bytes)
      k = "empty"   empty list element (RFC 9110 5.6.1.2: must be ignored)
      k = "space"   "a - b": white space inside the range-spec (see Norm below)
      any other k   is a token that does not match  range-spec  (see BadKinds)

   Freedom the property / RFC leaves, kept as nondeterminism:
     - HEAD: RFC 9110 14.2 defines range handling for GET only ("MUST ignore" for
       other methods) while 9.3.2 wants HEAD to mirror GET's header section; both the
       Range-ignoring 200 and the GET-equivalent header section are allowed; no body.
     - overlapping / adjacent ranges MAY be coalesced (15.3.7.2); several requested
       ranges of which the result is one part MAY be sent as single-part 206.
     - range-unit names are case-insensitive (14.1) but a server MAY ignore Range:
       for the unit spelled "Bytes" both readings are accepted.
     - a non-zero suffix on an empty file is satisfiable by the letter of 14.1.3 but
       has no expressible Content-Range: 416 and 200 are both accepted.
     - a 416 SHOULD (not MUST) carry Content-Range: bytes */size; its body is free. *)
EXTENDS Naturals, Integers, Sequences, FiniteSets

VARIABLES cfg, resp
vars == <<cfg, resp>>

BadKinds == {"dash", "num", "alpha", "neg", "plus", "under", "three"}
Min(x, y) == IF x < y THEN x ELSE y
Max(x, y) == IF x > y THEN x ELSE y

InitWith(c) == cfg = c /\ resp = [e |-> "init"]

-----------------------------------------------------------------------------
(* Syntax: RFC 9110 14.1.1 / 14.2 *)
ValidSpec(s) == \/ s.k = "ab" /\ s.a <= s.b
                \/ s.k = "from"
                \/ s.k = "suffix"
(* "a - b" (white space inside a range-spec) is not 1*DIGIT "-" 1*DIGIT in RFC 9110, but was legal
   under RFC 2616's implied LWS and twisted documents accepting it: read as a-b or as malformed. *)
Norm(s) == IF s.k = "space" THEN [k |-> "ab", a |-> s.a, b |-> s.b] ELSE s
Specs(h) == [i \in DOMAIN h.specs |-> Norm(h.specs[i])]
HasSpace(h) == \E i \in DOMAIN h.specs : h.specs[i].k = "space"
RealSpecs(h) == SelectSeq(Specs(h), LAMBDA s : s.k # "empty")
MalformedSet(h) == \/ RealSpecs(h) = <<>>                     \* range-set = 1#range-spec
                   \/ \E i \in DOMAIN h.specs : Specs(h)[i].k # "empty" /\ ~ValidSpec(Specs(h)[i])
MustIgnore(h) == \/ ~h.present
                 \/ h.unit = "noeq"                           \* no "=": not a ranges-specifier
                 \/ h.unit = "other"                          \* unit not understood: MUST ignore
                 \/ (h.unit \in {"bytes", "Bytes"} /\ MalformedSet(h))
MayIgnore(h)  == MustIgnore(h) \/ h.unit = "Bytes" \/ HasSpace(h)
MayHonour(h)  == ~MustIgnore(h)

(* Semantics: RFC 9110 14.1.2 *)
Satisfiable(size, s) == IF s.k = "suffix" THEN s.a > 0 /\ size > 0 ELSE s.a < size
Resolve(size, s) == CASE s.k = "ab"     -> <<s.a, Min(s.b, size - 1)>>
                      [] s.k = "from"   -> <<s.a, size - 1>>
                      [] s.k = "suffix" -> <<Max(0, size - s.a), size - 1>>
SatSpecs(c) == SelectSeq(RealSpecs(c.hdr), LAMBDA s : Satisfiable(c.size, s))
Req(c) == [i \in 1..Len(SatSpecs(c)) |-> Resolve(c.size, SatSpecs(c)[i])]
AmbiguousEmpty(c) == c.size = 0 /\ \E i \in DOMAIN c.hdr.specs : c.hdr.specs[i].k = "suffix" /\ c.hdr.specs[i].a > 0

Runs(a, n, m) == IF n <= 0 THEN <<>> ELSE << <<a % m, n>> >>
IvLen(iv) == iv[2] - iv[1] + 1
Cover(ivs) == UNION {iv[1]..iv[2] : iv \in {ivs[i] : i \in DOMAIN ivs}}
(* equality of two unions of intervals without enumerating positions: membership is piecewise
   constant and can only change at an end point or right next to one *)
InIvs(x, ivs) == \E i \in DOMAIN ivs : ivs[i][1] <= x /\ x <= ivs[i][2]
Crit(ivs) == UNION {{ivs[i][1] - 1, ivs[i][1], ivs[i][2], ivs[i][2] + 1} : i \in DOMAIN ivs}
SameCover(P, R) == \A x \in Crit(P) \cup Crit(R) : InIvs(x, P) <=> InIvs(x, R)

NoCR == <<"none", 0, 0, 0>>
IsHead(c) == c.method = "HEAD"

-----------------------------------------------------------------------------
(* The response relation.  r = [status, cr, clen, rawlen, mp, mpok, body, parts, done]:
   cr     Content-Range of the header section: <<"none",0,0,0>> | <<"range",a,b,total>> | <<"unsat",0,0,total>> | <<"bad",..>>
   clen   Content-Length value (-1 when absent);  rawlen = number of body bytes actually sent
   mp     Content-Type is multipart/byteranges;   mpok = the body parsed as that multipart, nothing else in it
   body   runs of the (non-multipart) body;       parts = << <<a, b, total, runs>>, ... >> of a multipart body
   done   the response was completed (not left hanging)                                                        *)
Framing(c, r, n, runs) ==
    IF IsHead(c) THEN r.rawlen = 0 /\ r.body = <<>> /\ (r.clen = n \/ r.clen = -1)
                 ELSE r.rawlen = n /\ r.body = runs /\ r.clen = n

Whole(c, r) == /\ r.status = 200 /\ r.cr = NoCR /\ ~r.mp /\ r.parts = <<>>
               /\ Framing(c, r, c.size, Runs(0, c.size, c.mod))

Unsat(c, r) == /\ r.status = 416 /\ ~r.mp /\ r.parts = <<>>
               /\ (r.cr = <<"unsat", 0, 0, c.size>> \/ r.cr = NoCR)
               /\ (IF IsHead(c) THEN r.rawlen = 0 ELSE r.clen = r.rawlen)

Single(c, r, iv) == /\ r.status = 206 /\ r.cr = <<"range", iv[1], iv[2], c.size>> /\ ~r.mp /\ r.parts = <<>>
                    /\ Framing(c, r, IvLen(iv), Runs(iv[1], IvLen(iv), c.mod))

PartOK(c, p) == /\ p[3] = c.size /\ 0 <= p[1] /\ p[1] <= p[2] /\ p[2] < c.size
                /\ p[4] = Runs(p[1], p[2] - p[1] + 1, c.mod)
PartIvs(P) == [i \in DOMAIN P |-> <<P[i][1], P[i][2]>>]
Disjoint(ivs) == \A i, j \in DOMAIN ivs : i # j => (ivs[i][2] < ivs[j][1] \/ ivs[j][2] < ivs[i][1])
Multi(c, r, req) ==
    /\ r.status = 206 /\ r.cr = NoCR /\ r.mp /\ r.body = <<>>
    /\ IF IsHead(c) THEN r.rawlen = 0 /\ r.parts = <<>>
       ELSE /\ r.mpok /\ r.clen = r.rawlen /\ Len(r.parts) >= 1
            /\ \A i \in DOMAIN r.parts : PartOK(c, r.parts[i])
            /\ \/ PartIvs(r.parts) = req                                   \* exactly as requested, in order
               \/ (Disjoint(PartIvs(r.parts)) /\ SameCover(PartIvs(r.parts), req))      \* coalesced

Honoured(c, r) ==
    LET req == Req(c) IN
    IF req = <<>> THEN Unsat(c, r) \/ (AmbiguousEmpty(c) /\ Whole(c, r))
    ELSE IF Len(RealSpecs(c.hdr)) = 1 THEN Single(c, r, req[1])        \* MUST NOT be multipart
    ELSE \/ Multi(c, r, req)
         \/ (r.cr[1] = "range" /\ r.cr[2] <= r.cr[3] /\ SameCover(<< <<r.cr[2], r.cr[3]>> >>, req)   \* all of it is one interval
             /\ Single(c, r, <<r.cr[2], r.cr[3]>>))

Allowed(c, r) ==
    /\ r.done
    /\ \/ (MayIgnore(c.hdr) /\ Whole(c, r))
       \/ (MayHonour(c.hdr) /\ Honoured(c, r))
       \/ (IsHead(c) /\ c.hdr.present /\ Whole(c, r))                   \* RFC 9110 14.2: Range defined for GET only

-----------------------------------------------------------------------------
(* Constructive responses (what a straightforward server sends); TLC checks
   Canon \subseteq Allowed and the byte-level clauses below on every small case. *)
SeqSum(s) == LET F[i \in 0..Len(s)] == IF i = 0 THEN 0 ELSE F[i - 1] + s[i] IN F[Len(s)]
Base(c) == [e |-> "resp", mpok |-> TRUE, done |-> TRUE, mp |-> FALSE, parts |-> <<>>]
Hd(c, n, runs) == IF IsHead(c) THEN [rawlen |-> 0, body |-> <<>>, clen |-> n] ELSE [rawlen |-> n, body |-> runs, clen |-> n]
Mk(c, status, cr, n, runs) ==
    [e |-> "resp", status |-> status, cr |-> cr, mp |-> FALSE, mpok |-> TRUE, parts |-> <<>>, done |-> TRUE,
     rawlen |-> Hd(c, n, runs).rawlen, body |-> Hd(c, n, runs).body, clen |-> Hd(c, n, runs).clen]
WholeR(c) == Mk(c, 200, NoCR, c.size, Runs(0, c.size, c.mod))
UnsatR(c) == Mk(c, 416, <<"unsat", 0, 0, c.size>>, 0, <<>>)
SingleR(c, iv) == Mk(c, 206, <<"range", iv[1], iv[2], c.size>>, IvLen(iv), Runs(iv[1], IvLen(iv), c.mod))
Overhead == 10    \* stand-in for the length of a multipart delimiter + part header
MultiR(c, ivs) ==
    LET n == SeqSum([i \in DOMAIN ivs |-> IvLen(ivs[i]) + Overhead]) + Overhead IN
    [e |-> "resp", status |-> 206, cr |-> NoCR, mp |-> TRUE, mpok |-> TRUE, done |-> TRUE, body |-> <<>>,
     rawlen |-> IF IsHead(c) THEN 0 ELSE n, clen |-> n,
     parts |-> IF IsHead(c) THEN <<>> ELSE [i \in DOMAIN ivs |-> <<ivs[i][1], ivs[i][2], c.size, Runs(ivs[i][1], IvLen(ivs[i]), c.mod)>>]]
(* maximal intervals of a set of positions, in increasing order *)
Components(S) == {<<lo, hi>> \in S \X S : lo <= hi /\ (\A z \in lo..hi : z \in S) /\ (lo - 1) \notin S /\ (hi + 1) \notin S}
SortedIvs(C) == LET F[k \in 0..Cardinality(C)] ==
                        IF k = 0 THEN <<>>
                        ELSE LET done == {F[k - 1][i] : i \in 1..(k - 1)}
                                 nxt == CHOOSE x \in C \ done : \A y \in C \ done : x[1] <= y[1]
                             IN Append(F[k - 1], nxt)
                IN F[Cardinality(C)]
Merged(req) == SortedIvs(Components(Cover(req)))

Canon(c) ==
    (IF MayIgnore(c.hdr) \/ (IsHead(c) /\ c.hdr.present) THEN {WholeR(c)} ELSE {})
    \cup
    (IF ~MayHonour(c.hdr) THEN {}
     ELSE IF Req(c) = <<>> THEN {UnsatR(c)} \cup (IF AmbiguousEmpty(c) THEN {WholeR(c)} ELSE {})
     ELSE IF Len(RealSpecs(c.hdr)) = 1 THEN {SingleR(c, Req(c)[1])}
     ELSE {MultiR(c, Req(c)), MultiR(c, Merged(Req(c)))}
          \cup (IF Len(Merged(Req(c))) = 1 THEN {SingleR(c, Merged(Req(c))[1])} ELSE {}))

Respond == /\ resp.e = "init"
           /\ \E r \in Canon(cfg) : resp' = r
           /\ UNCHANGED cfg
Next == Respond

-----------------------------------------------------------------------------
(* The property once more, pointwise on byte positions and independent of the interval
   arithmetic above (no Min/Max clipping): which positions does the header ask for? *)
Wants(c, s, i) == CASE s.k = "ab"     -> s.a <= i /\ i <= s.b
                    [] s.k = "from"   -> s.a <= i
                    [] s.k = "suffix" -> i >= c.size - s.a
                    [] OTHER          -> FALSE
Wanted(c) == {i \in 0..(c.size - 1) : \E j \in DOMAIN c.hdr.specs : Wants(c, Specs(c.hdr)[j], i)}
WantCount(c, i) == Cardinality({j \in DOMAIN c.hdr.specs : Wants(c, Specs(c.hdr)[j], i)})
(* positions delivered, decoded from runs (only meaningful while size <= mod) *)
RunPos(run) == [k \in 1..run[2] |-> run[1] + k - 1]
Flat(ss) == LET F[i \in 0..Len(ss)] == IF i = 0 THEN <<>> ELSE F[i - 1] \o ss[i] IN F[Len(ss)]
BodyPos(runs) == Flat([i \in DOMAIN runs |-> RunPos(runs[i])])
Delivered(r) == IF r.mp THEN Flat([i \in DOMAIN r.parts |-> BodyPos(r.parts[i][4])]) ELSE BodyPos(r.body)
Count(seq, x) == Cardinality({i \in DOMAIN seq : seq[i] = x})
SeqSet(seq) == {seq[i] : i \in DOMAIN seq}

Decl(c, r) ==
    r.e = "resp" =>
    LET d == Delivered(r)          \* LET-bound: evaluated once
        w == Wanted(c)
    IN
      /\ r.status \in {200, 206, 416}                                     \* never an internal error
      /\ r.done
      /\ (MustIgnore(c.hdr) => r.status = 200)                            \* absent or malformed -> whole
      /\ (r.status = 200 => (IsHead(c) \/ d = [i \in 1..c.size |-> i - 1]))
      /\ (r.status = 206 => /\ MayHonour(c.hdr) /\ w # {}
                            /\ (~IsHead(c) => /\ SeqSet(d) = w                          \* exactly the requested bytes
                                              /\ \A i \in w : Count(d, i) <= WantCount(c, i)
                                              /\ (r.mp => \A p \in DOMAIN r.parts :     \* every part announces what it carries
                                                     BodyPos(r.parts[p][4]) = [k \in 1..(r.parts[p][2] - r.parts[p][1] + 1) |-> r.parts[p][1] + k - 1])
                                              /\ (~r.mp => r.cr = <<"range", d[1], d[Len(d)], c.size>> /\ r.clen = Len(d))))
      /\ (r.status = 416 => MayHonour(c.hdr) /\ (w = {} \/ AmbiguousEmpty(c)))
      /\ (MayHonour(c.hdr) /\ ~MayIgnore(c.hdr) /\ ~IsHead(c) /\ w # {} => r.status = 206)
      /\ (~IsHead(c) => r.clen = r.rawlen)                                \* Content-Length = body length
      /\ (IsHead(c) => r.rawlen = 0)

(* evaluated where every byte of the file is distinct and the decoding is cheap *)
Inv == (cfg.size <= 16 /\ cfg.size <= cfg.mod) => Decl(cfg, resp)
=============================================================================
