------------------------------ MODULE FramingMC ------------------------------
(* Exhaustive TLC run for C16: Impl layer = the receivers' dataReceived algorithms as coded in
   twisted/protocols/basic.py (LineOnlyReceiver: split the whole buffer; LineReceiver: loop with
   split(delimiter, 1), pause flag, raw mode, re-entrant setLineMode(extra); IntNStringReceiver:
   offset loop over one buffer; NetstringReceiver: regex length parsing + payload accumulation), driven by the scripted application of Framing.tla.  For all streams
   over the alphabet up to length L and all splits (and all resume points) what the algorithm shows
   must satisfy Rel with the reference framing (ok stays TRUE).  All elements weigh 1 here.      *)
EXTENDS Framing, TLC
CONSTANTS L, Kind, LOBound   \* LOBound: which unterminated-buffer test LineOnlyReceiver has ("asis" = len(buffer) > MAX_LENGTH,
                             \* "repaired" = len(buffer) >= MAX_LENGTH + len(delimiter), proposed_fixes/C16-*); the harness uses
                             \* the variant the real code conforms to

X1 == 120
Cfgs == CASE Kind = "LO" -> {[kind |-> "LO", max |-> 2, dlm |-> d, n |-> 0] : d \in {<<13, 10>>, <<10>>}}
          [] Kind = "LR" -> {[kind |-> "LR", max |-> 2, dlm |-> d, n |-> 0] : d \in {<<13, 10>>, <<10>>}}
          [] Kind = "IN" -> {[kind |-> "IN", max |-> 2, dlm |-> <<>>, n |-> k] : k \in {1, 2}}
          [] Kind = "NS" -> {[kind |-> "NS", max |-> mx, dlm |-> <<>>, n |-> 0] : mx \in {2, 12}}
Alphabet == CASE Kind = "LO" -> {13, 10, X1, 81}
              [] Kind = "LR" -> {13, 10, X1, 80, 82, 49}
              [] Kind = "IN" -> {0, 1, 2, 3, X1, 80}
              [] Kind = "NS" -> {48, 49, 51, 58, 44, X1}

\* ---- helpers on element sequences
Drop(s, n) == SubSeq(s, n + 1, Len(s))
Take(s, n) == SubSeq(s, 1, n)
FindD(buf, d) == LET S == {i \in 1..(Len(buf) - Len(d) + 1) : SubSeq(buf, i, i + Len(d) - 1) = d}
                 IN IF S = {} THEN 0 ELSE CHOOSE i \in S : \A j \in S : i <= j
ByteOf(e) == IF IsRun(e) THEN 120 ELSE e

\* the scripted application (same script as in Framing.tla), acting on the Impl state
React(m, c, pz, rawok) ==
    IF IsQ(c) THEN [m EXCEPT !.out = Append(m.out, CLOSE), !.disc = TRUE]
    ELSE IF pz /\ IsP(c) THEN [m EXCEPT !.paused = TRUE]
    ELSE IF rawok /\ IsR(c) THEN [m EXCEPT !.raw = TRUE, !.rawleft = RawLen(c)]
    ELSE m
Exceeded(m) == [m EXCEPT !.out = m.out \o <<EXC, CLOSE>>, !.disc = TRUE]     \* default lineLengthExceeded / lengthLimitExceeded
M0 == [pay |-> <<>>, buf |-> <<>>, paused |-> FALSE, disc |-> FALSE, raw |-> FALSE, rawleft |-> 0, out |-> <<>>]

\* ---- LineOnlyReceiver.dataReceived
RECURSIVE LOLines(_, _, _)
LOLines(m, rest, c) ==       \* `for line in lines` over (buffer + data).split(delimiter); the last piece becomes the buffer
    LET i == FindD(rest, c.dlm) IN
    IF i = 0 THEN (IF (IF LOBound = "asis" THEN Len(rest) > c.max ELSE Len(rest) >= c.max + Len(c.dlm))
                   THEN Exceeded([m EXCEPT !.buf = rest]) ELSE [m EXCEPT !.buf = rest])
    ELSE LET line == Take(rest, i - 1)  tail == Drop(rest, i - 1 + Len(c.dlm))
             \* _buffer was already set to the last piece before the loop
             lastpiece == LET RECURSIVE LP(_) LP(r) == LET j == FindD(r, c.dlm) IN IF j = 0 THEN r ELSE LP(Drop(r, j - 1 + Len(c.dlm))) IN LP(tail)
         IN IF m.disc THEN [m EXCEPT !.buf = lastpiece]
            ELSE IF Len(line) > c.max THEN Exceeded([m EXCEPT !.buf = lastpiece])
            ELSE LOLines(React([m EXCEPT !.out = Append(m.out, <<"line", line>>)], line, FALSE, FALSE), tail, c)
LOData(m, data, c) == LOLines([m EXCEPT !.out = <<>>], m.buf \o data, c)

\* ---- LineReceiver.dataReceived
RECURSIVE LRLoop(_, _)
LRLoop(m, c) ==
    IF m.buf = <<>> \/ m.paused THEN m
    ELSE IF ~m.raw THEN
        LET i == FindD(m.buf, c.dlm) IN
        IF i = 0 THEN (IF Len(m.buf) >= c.max + Len(c.dlm) THEN Exceeded([m EXCEPT !.buf = <<>>]) ELSE m)
        ELSE LET line == Take(m.buf, i - 1)  m1 == [m EXCEPT !.buf = Drop(m.buf, i - 1 + Len(c.dlm))] IN
             IF Len(line) > c.max THEN Exceeded([m1 EXCEPT !.buf = <<>>])
             ELSE LET m2 == React([m1 EXCEPT !.out = Append(m1.out, <<"line", line>>)], line, TRUE, TRUE) IN
                  IF m2.disc THEN m2 ELSE LRLoop(m2, c)
    ELSE LET data == m.buf  k == IF Len(data) < m.rawleft THEN Len(data) ELSE m.rawleft
             m1 == [m EXCEPT !.buf = <<>>, !.out = Append(m.out, <<"raw", Take(data, k)>>), !.rawleft = m.rawleft - k] IN
         \* rawDataReceived: when the raw segment is complete the application calls setLineMode(rest);
         \* that re-enters dataReceived, which (busy) only appends rest to the buffer
         IF m1.rawleft = 0 THEN LRLoop([m1 EXCEPT !.raw = FALSE, !.buf = Drop(data, k)], c) ELSE LRLoop(m1, c)
LRData(m, data, c) == LRLoop([m EXCEPT !.out = <<>>, !.buf = m.buf \o data], c)
LRResume(m, c) == LRData([m EXCEPT !.paused = FALSE], <<>>, c)

\* ---- IntNStringReceiver.dataReceived
RECURSIVE BE(_, _)
BE(s, k) == IF k = 0 THEN 0 ELSE BE(s, k - 1) * 256 + ByteOf(s[k])
RECURSIVE INLoop(_, _, _, _)
INLoop(m, all, off, c) ==
    IF Len(all) >= off + c.n /\ ~m.paused THEN
        LET len == BE(SubSeq(all, off + 1, off + c.n), c.n)  end == off + c.n + len IN
        IF len > c.max THEN Exceeded([m EXCEPT !.buf = all])
        ELSE IF Len(all) < end THEN [m EXCEPT !.buf = Drop(all, off)]
        ELSE LET pkt == SubSeq(all, off + c.n + 1, end) IN
             INLoop(React([m EXCEPT !.out = Append(m.out, <<"str", pkt>>)], pkt, TRUE, FALSE), all, end, c)
    ELSE [m EXCEPT !.buf = Drop(all, off)]
INData(m, data, c) == INLoop([m EXCEPT !.out = <<>>], m.buf \o data, 0, c)
INResume(m, c) == INData([m EXCEPT !.paused = FALSE], <<>>, c)

\* ---- NetstringReceiver.dataReceived (regex-driven length parsing, BytesIO payload)
IsDig(e) == e \in 48..57
RECURSIVE LeadDigits(_, _)
LeadDigits(r, i) == IF i <= Len(r) /\ IsDig(r[i]) THEN LeadDigits(r, i + 1) ELSE i - 1
NumLen(r) == IF r = <<>> \/ ~IsDig(r[1]) THEN 0 ELSE IF r[1] = 48 THEN 1 ELSE LeadDigits(r, 1)    \* (0|[1-9]\d*)
RECURSIVE Dec(_, _)
Dec(r, k) == IF k = 0 THEN 0 ELSE Cap(Dec(r, k - 1) * 10 + (r[k] - 48))
MaxLenSize(mx) == (IF mx <= 1 THEN 0 ELSE IF mx <= 10 THEN 1 ELSE IF mx <= 100 THEN 2 ELSE 3) + 1   \* ceil(log10(MAX)) + 1
LenOK(r, k, c) == k <= MaxLenSize(c.max) /\ Dec(r, k) <= c.max                                     \* _extractLength does not raise
NSBroken(m) == [m EXCEPT !.out = Append(m.out, CLOSE), !.disc = TRUE]                               \* _handleParseError
RECURSIVE NSLoop(_, _)
NSLoop(m, c) ==
    IF m.buf = <<>> THEN m
    ELSE IF ~m.raw THEN                                     \* raw = FALSE: _PARSING_LENGTH, TRUE: _PARSING_PAYLOAD
        LET k == NumLen(m.buf) IN
        IF k > 0 /\ Len(m.buf) > k /\ m.buf[k + 1] = 58 THEN
            IF LenOK(m.buf, k, c) THEN NSLoop([m EXCEPT !.raw = TRUE, !.rawleft = Dec(m.buf, k) + 1, !.pay = <<>>, !.buf = Drop(m.buf, k + 1)], c)
            ELSE NSBroken(m)
        ELSE IF k > 0 /\ k = Len(m.buf) THEN (IF LenOK(m.buf, k, c) THEN m ELSE NSBroken(m))       \* partial length
        ELSE NSBroken(m)
    ELSE LET have == Len(m.pay)  need == m.rawleft - have IN
         IF Len(m.buf) >= need THEN
             LET pay == m.pay \o Take(m.buf, need)  m1 == [m EXCEPT !.buf = Drop(m.buf, need), !.pay = pay] IN
             IF pay[Len(pay)] # 44 THEN NSBroken(m1)
             ELSE LET msg == Take(pay, Len(pay) - 1) IN
                  NSLoop(React([m1 EXCEPT !.raw = FALSE, !.out = Append(m1.out, <<"str", msg>>)], msg, FALSE, FALSE) , c)
         ELSE [m EXCEPT !.pay = m.pay \o m.buf, !.buf = <<>>]
\* React's disc flag must not stop a NetstringReceiver (it never looks at transport.disconnecting)
NSData(m, data, c) == NSLoop([m EXCEPT !.out = <<>>, !.buf = m.buf \o data], c)

DataReceived(m, data, c) == CASE c.kind = "NS" -> NSData(m, data, c) [] c.kind = "LO" -> LOData(m, data, c) [] c.kind = "LR" -> LRData(m, data, c) [] OTHER -> INData(m, data, c)
ResumeProducing(m, c) == IF c.kind = "LR" THEN LRResume(m, c) ELSE INResume(m, c)

\* ---- all streams, all splits, all resume points
VARIABLES m, ok, refAll, ext
mcvars == <<vars, m, ok, refAll, ext>>
MCInit == /\ \E c \in Cfgs : InitWith(c, <<>>)
          /\ m = M0 /\ ok = TRUE /\ refAll = R0(cfg) /\ ext = 0
MCExtend == \E e \in Alphabet :
    /\ ext < L /\ ext' = ext + 1 /\ ~refAll.dead /\ ~refAll.free
    /\ Extend(e) /\ refAll' = Step(refAll, e, cfg)
    /\ UNCHANGED <<m, ok>>
Do(n, r) == /\ m' = r /\ Advance(n, r.out) /\ ok' = Rel(ref', obs') /\ UNCHANGED <<refAll, ext>>
HasK(out, k) == \E i \in 1..Len(out) : out[i][1] = k
DeliverMsg   == \E n \in 1..(Len(str) - pos) : LET r == DataReceived(m, SubSeq(str, pos + 1, pos + n), cfg) IN
                   (HasK(r.out, "line") \/ HasK(r.out, "str") \/ HasK(r.out, "raw")) /\ ~HasK(r.out, "exc") /\ Do(n, r)
DeliverExc   == \E n \in 1..(Len(str) - pos) : LET r == DataReceived(m, SubSeq(str, pos + 1, pos + n), cfg) IN
                   HasK(r.out, "exc") /\ Do(n, r)
DeliverQuiet == \E n \in 1..(Len(str) - pos) : LET r == DataReceived(m, SubSeq(str, pos + 1, pos + n), cfg) IN
                   r.out = <<>> /\ Do(n, r)
DeliverClose == \E n \in 1..(Len(str) - pos) : LET r == DataReceived(m, SubSeq(str, pos + 1, pos + n), cfg) IN
                   r.out # <<>> /\ ~(HasK(r.out, "line") \/ HasK(r.out, "str") \/ HasK(r.out, "raw") \/ HasK(r.out, "exc")) /\ Do(n, r)
MCResume == /\ m.paused
            /\ LET r == ResumeProducing(m, cfg) IN m' = r /\ ResumeAdvance(r.out) /\ ok' = Rel(ref, obs')
            /\ UNCHANGED <<refAll, ext>>
MCNext == MCExtend \/ DeliverMsg \/ DeliverExc \/ DeliverQuiet \/ DeliverClose \/ MCResume
MCSpec == MCInit /\ [][MCNext]_mcvars
Ok == ok
View == <<cfg, str, pos, ref, obs, m, ok, ext>>
=============================================================================
