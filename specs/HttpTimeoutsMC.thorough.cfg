SPECIFICATION Spec
CONSTRAINT Bound
VIEW View
CONSTANT Configs <- ConfigsThorough
CONSTANT MaxNow <- MaxNowThorough
CONSTANT Depth <- DepthThorough
INVARIANT NoIdleWhileHandling
INVARIANT DeadlineExact
INVARIANT Guarded
INVARIANT AbortAfterTimeout
INVARIANT AbortOnce
INVARIANT TimeoutCloses
INVARIANT NoLeak
INVARIANT TrkSane
PROPERTY StepProp
CHECK_DEADLOCK FALSE
