SPECIFICATION Spec
CONSTANT Depth = 8
CONSTANT MaxD = 4
CONSTRAINT Bound
VIEW View
INVARIANT OneResult
INVARIANT SwallowOnce
INVARIANT CancellerOnce
INVARIANT CancelFires
INVARIANT Waits
PROPERTY CancelFiredNoEffect
CHECK_DEADLOCK FALSE
