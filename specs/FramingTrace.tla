---------------------------- MODULE FramingTrace ----------------------------
(* Batched trace validation for C16.  Besides the reference relation, every step carries `one`:
   the events of a one-piece run of the same real receiver on the consumed prefix; whenever the split
   run is not paused the two must agree up to the first close request (segmentation invariance as the
   property states it).  When the stream was produced by the real send method, `want` lists the
   messages sent and the reference framing of the whole stream must be exactly those.              *)
EXTENDS Framing, TLC, Json, IOUtils

Traces == JsonDeserialize(IOEnv.TRACE_FILE)
VARIABLES tid, l
ASSUME \A t \in 1..Len(Traces) : TLCSet(t, 1)

T == Traces[tid]
E == T.ev[l]

TInit == /\ tid \in 1..Len(Traces) /\ l = 1
         /\ InitWith([kind |-> Traces[tid].cfg.kind, max |-> Traces[tid].cfg.max,
                      dlm |-> Traces[tid].cfg.dlm, n |-> Traces[tid].cfg.n], Traces[tid].str)

\* "the same up to the first close request": a run that asked to close is compared only up to there
SameAsOnePiece == (~obs'.paused) =>
                    LET o1 == AddEvents(O0, E.one, 1, FALSE) IN
                    IF o1.closed = obs'.closed THEN o1.ev = obs'.ev
                    ELSE IF o1.closed THEN IsPrefix(o1.ev, obs'.ev) ELSE IsPrefix(obs'.ev, o1.ev)
WantOK == (T.haswant /\ l = Len(T.ev)) => (pos' = Len(str) /\ RefEvents(ref') = T.want /\ obs'.ev = T.want)

TStep(A) == /\ l <= Len(T.ev) /\ A /\ Inv' /\ SameAsOnePiece /\ WantOK /\ l' = l + 1 /\ UNCHANGED tid

TNext == \/ (E.e = "data" /\ TStep(Deliver(E.n, E.out)))
         \/ (E.e = "resume" /\ TStep(Resume(E.out)))

TSpec == TInit /\ [][l <= Len(T.ev) /\ TNext]_<<vars, tid, l>>

Progress == TLCSet(tid, IF TLCGet(tid) > l THEN TLCGet(tid) ELSE l)
Rejected_ == {<<t, TLCGet(t)>> : t \in {u \in 1..Len(Traces) : TLCGet(u) # Len(Traces[u].ev) + 1}}
Accepted == Rejected_ = {} \/ (PrintT(<<"REJECTED", Rejected_>>) /\ FALSE)
=============================================================================
