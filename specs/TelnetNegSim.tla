----------------------------- MODULE TelnetNegSim -----------------------------
(* Behaviour generator (spec -> code): TelnetNeg plus a history variable holding the
   predicted observable event of every step; printed as JSON when a behaviour reaches
   Depth.  The harness replays the requests/deliveries on two real Telnet objects.  *)
EXTENDS TelnetNeg, TLC, Json
CONSTANTS Depth, NOpt
VARIABLE hist
Pol == [E2 -> [1..NOpt -> BOOLEAN]]
SInit == /\ \E al \in Pol, ar \in Pol :
              InitWith([nopt |-> NOpt, accL |-> al, accR |-> ar, maxreq |-> Depth, reent |-> TRUE])
         /\ hist = <<>>
SNext == Next /\ hist' = Append(hist, last')
SSpec == SInit /\ [][SNext]_<<vars, hist>>
CfgOut == [nopt |-> cfg.nopt,
           accL |-> [e \in 1..2 |-> [o \in 1..NOpt |-> cfg.accL[e][o]]],
           accR |-> [e \in 1..2 |-> [o \in 1..NOpt |-> cfg.accR[e][o]]]]
Emit2 == TLCGet("level") < Depth \/ PrintT(<<"BEH", ToJson([cfg |-> CfgOut, hist |-> hist])>>)
Stop == TLCGet("level") <= Depth
=============================================================================
