---------------------------- MODULE DTimeoutTrace ----------------------------
EXTENDS DTimeout, TLC, Json, IOUtils
Traces == JsonDeserialize(IOEnv.TRACE_FILE)
VARIABLES tid, l
ASSUME \A t \in 1..Len(Traces) : TLCSet(t, 1)
T == Traces[tid]
E == T.ev[l]
C == Traces[tid].cfg
TInit == tid \in 1..Len(Traces) /\ l = 1
         /\ InitWith([src |-> C.src, canc |-> C.canc, gate |-> C.gate, lt |-> C.lt, fk |-> C.fk])
Matches == /\ last'.probes = E.probes /\ last'.otcs = E.otcs /\ last'.canc = E.canc /\ last'.fr = E.fr
           /\ last'.exc = E.exc /\ last'.calls = E.calls
Step(A) == l <= Len(T.ev) /\ A /\ Inv' /\ StepOK /\ Matches /\ l' = l + 1 /\ UNCHANGED tid
TNext == \/ (E.e = "addTimeout" /\ Step(AddTimeout(E.t, E.k)))
         \/ (E.e = "callback" /\ Step(Callback))
         \/ (E.e = "errback" /\ Step(Errback))
         \/ (E.e = "release" /\ Step(Release))
         \/ (E.e = "cancel" /\ Step(Cancel))
         \/ (E.e = "advance" /\ Step(Advance(E.d)))
TSpec == TInit /\ [][l <= Len(T.ev) /\ TNext]_<<vars, tid, l>>
Progress == TLCSet(tid, IF TLCGet(tid) > l THEN TLCGet(tid) ELSE l)
Rejected == {<<t, TLCGet(t)>> : t \in {u \in 1..Len(Traces) : TLCGet(u) # Len(Traces[u].ev) + 1}}
Accepted == Rejected = {} \/ (PrintT(<<"REJECTED", Rejected>>) /\ FALSE)
=============================================================================
