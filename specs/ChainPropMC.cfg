SPECIFICATION Spec
CONSTANT MaxN = 3
CONSTANT MaxF = 2
CONSTRAINT Bound
VIEW View
INVARIANT TypeOK
INVARIANT DepthConstant
INVARIANT Complete
CHECK_DEADLOCK FALSE
