SPECIFICATION SSpec
CONSTANT Depth = 6
CONSTANT Mode = "resolve"
CONSTRAINT Emit
CONSTRAINT Stop
CHECK_DEADLOCK FALSE
