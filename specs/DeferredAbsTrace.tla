-------------------------- MODULE DeferredAbsTrace --------------------------
(* Batched trace validation for C01: every recorded execution of real
   twisted.internet.defer.Deferred objects must be a behaviour of the reference
   interpreter DeferredAbs, with every logged observable matching:
   the sequence of user-callback invocations (callback id, which function of the
   entry, kind and value of its argument) caused by each operation, and the
   exception class escaping the operation ("" = none).                        *)
EXTENDS DeferredAbs, TLC, Json, IOUtils

Traces == JsonDeserialize(IOEnv.TRACE_FILE)
VARIABLES tid, l
ASSUME \A t \in 1..Len(Traces) : TLCSet(t, 1)

T == Traces[tid]
E == T.ev[l]

TInit == /\ tid \in 1..Len(Traces) /\ l = 1
         /\ InitWith([nd |-> Traces[tid].cfg.nd])

\* the interpreter's predicted observable must equal what was logged
Matches == /\ last'.e = E.e /\ last'.d = E.d /\ last'.inv = E.inv /\ last'.exc = E.exc

\* a mismatch is reported with the interpreter's prediction (diagnostic only; the verdict is the rejection)
Explain == PrintT(<<"MISMATCH", tid, l, last'.inv, last'.exc>>)
Step(A) == /\ l <= Len(T.ev) /\ A /\ (IF Matches THEN TRUE ELSE Explain /\ FALSE) /\ Inv' /\ l' = l + 1 /\ UNCHANGED tid

TAdd     == E.e = "add"     /\ Step(Add(E.d, E.m, E.ok, E.err))
TFire    == E.e = "fire"    /\ Step(Fire(E.d, E.k, E.v))
TPause   == E.e = "pause"   /\ Step(Pause(E.d))
TUnpause == E.e = "unpause" /\ Step(Unpause(E.d))

TNext == TAdd \/ TFire \/ TPause \/ TUnpause

TSpec == TInit /\ [][l <= Len(T.ev) /\ TNext]_<<vars, tid, l>>

Progress == TLCSet(tid, IF TLCGet(tid) > l THEN TLCGet(tid) ELSE l)
Rejected == {<<t, TLCGet(t)>> : t \in {u \in 1..Len(Traces) : TLCGet(u) # Len(Traces[u].ev) + 1}}
Accepted == Rejected = {} \/ (PrintT(<<"REJECTED", Rejected>>) /\ FALSE)
=============================================================================
