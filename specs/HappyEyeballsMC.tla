--------------------------- MODULE HappyEyeballsMC ---------------------------
EXTENDS HappyEyeballs, TLC
Init == \E n \in 0..3, dl \in 1..2 : InitWith([n |-> n, delay |-> dl])
Spec == Init /\ [][Next]_vars
Bound == now <= 9 /\ TLCGet("level") <= 12
View == <<cfg, now, att, nextStart, exhausted, ticking, nextAt, res, lastFail, last.e>>
=============================================================================
