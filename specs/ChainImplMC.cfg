SPECIFICATION Spec
CONSTANT MaxN = 6
INVARIANT Refines
INVARIANT RefinesObs
INVARIANT DepthOne
INVARIANT ChainBounded
INVARIANT ITypeOK
INVARIANT Done
CHECK_DEADLOCK FALSE
