SPECIFICATION Spec
CONSTANT MaxN = 8
INVARIANT Refines
INVARIANT RefinesObs
INVARIANT DepthOne
INVARIANT ChainBounded
INVARIANT ITypeOK
INVARIANT Done
CHECK_DEADLOCK FALSE
