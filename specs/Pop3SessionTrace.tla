-------------------------- MODULE Pop3SessionTrace --------------------------
(* Batched trace validation for X13: every event of every real execution must be a step of Pop3Session whose
   observation (lines written + realm/mailbox/logout calls in order, escaping exception, transport closing) equals
   the logged one; the invariants and the action properties are evaluated on every step. *)
EXTENDS Pop3Session, TLC, Json, IOUtils
Traces == JsonDeserialize(IOEnv.TRACE_FILE)
VARIABLES tid, l
ASSUME \A t \in 1..Len(Traces) : TLCSet(t, 1)
T == Traces[tid]
E == T.ev[l]
TInit == tid \in 1..Len(Traces) /\ l = 1 /\ InitWith([msgs |-> Traces[tid].cfg.msgs])
Step(A) == /\ l <= Len(T.ev) /\ A /\ Inv' /\ ActProps
           /\ last'.obs = E.obs /\ last'.exc = E.exc /\ last'.closing = E.closing
           /\ l' = l + 1 /\ UNCHANGED tid
TNext == \/ (E.e = "connect" /\ Step(Connect))
         \/ (E.e = "line" /\ Step(Line(E.cmd)))
         \/ (E.e = "fire" /\ Step(Fire(E.k, E.ok)))
         \/ (E.e = "run" /\ Step(Run))
         \/ (E.e = "lost" /\ Step(Lost))
TSpec == TInit /\ [][l <= Len(T.ev) /\ TNext]_<<vars, tid, l>>
Progress == TLCSet(tid, IF TLCGet(tid) > l THEN TLCGet(tid) ELSE l)
Rejected == {<<t, TLCGet(t)>> : t \in {u \in 1..Len(Traces) : TLCGet(u) # Len(Traces[u].ev) + 1}}
Accepted == Rejected = {} \/ (PrintT(<<"REJECTED", Rejected>>) /\ FALSE)
=============================================================================
