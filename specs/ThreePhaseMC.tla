---------------------------- MODULE ThreePhaseMC ----------------------------
(* Exhaustive exploration: every history of at most MaxT registrations from outside (any
   phase, kinds MCKinds), MaxR removals, MaxF firings, with the Deferreds of a firing fired
   in every order.  KindSet = "simple": triggers that leave the event alone (plain, defer);
   "reent": also triggers that, while running, register a plain trigger for each phase or
   remove trigger h (h in 1..MaxT+1: earlier, later, themselves, not yet existing). *)
EXTENDS ThreePhase, TLC
CONSTANTS MaxT, MaxR, MaxF, KindSet
VARIABLES nR, nF
mcvars == <<vars, nR, nF>>

Act(op, ph, ret, h) == [op |-> op, ph |-> ph, ret |-> ret, h |-> h, more |-> <<>>]
Scripted == {[ret |-> "plain", acts |-> <<Act("add", ph, "plain", 0)>>] : ph \in Phases}
            \cup {[ret |-> "plain", acts |-> <<Act("rm", "-", "-", h)>>] : h \in 1..(MaxT + 1)}
MCKinds == IF KindSet = "simple" THEN {K("plain"), K("defer")} ELSE {K("plain"), K("defer")} \cup Scripted

Init == InitWith([api |-> "raw"]) /\ nR = 0 /\ nF = 0

DoAdd        == nT < MaxT /\ (\E ph \in Phases, k \in MCKinds : Add(ph, k)) /\ UNCHANGED <<nR, nF>>
DoRemoveOk   == nR < MaxR /\ (\E h \in 1..nT : RemoveOk(h)) /\ nR' = nR + 1 /\ UNCHANGED nF
DoRemoveGone == nR < MaxR /\ (\E h \in 1..nT : RemoveGone(h, "ValueError")) /\ nR' = nR + 1 /\ UNCHANGED nF
DoFire       == nF < MaxF /\ Fire /\ nF' = nF + 1 /\ UNCHANGED nR
DoFireDeferred == (\E d \in pend : FireDeferred(d, "ok")) /\ UNCHANGED <<nR, nF>>
DoFireLoose  == (\E d \in loose : FireLoose(d, "ok")) /\ UNCHANGED <<nR, nF>>
MCNext == DoAdd \/ DoRemoveOk \/ DoRemoveGone \/ DoFire \/ DoFireDeferred \/ DoFireLoose
Spec == Init /\ [][MCNext]_mcvars

\* `last` is an observation of the step, not state: keep of it only what the invariants read
View == <<before, during, after, kind, phase, nT, state, pend, loose, ran, cur, removed, nR, nF,
          IF last.e \in {"fire", "fired"} THEN <<last.e, last.fin, last.late>> ELSE <<"-", FALSE, {}>> >>

(* vacuity guards: the interesting situations are reachable *)
ReachWaitingTwo  == ~(Cardinality(pend) >= 2 /\ during # <<>> /\ after # <<>>)
\* a trigger registered by a running trigger of the same phase ran after an earlier-registered pending one
ReachSamePhaseAdd == ~(last.e = "fire" /\ \E i \in 1..Len(last.sub) : last.sub[i].op = "add"
                          /\ phase[last.sub[i].x] = phase[last.sub[i].by] /\ last.sub[i].x \in Range(last.ran)
                          /\ \E t \in Range(last.ran) : t > last.sub[i].by /\ t < last.sub[i].x /\ phase[t] = phase[last.sub[i].by])
ReachLate        == ~(last.e = "fire" /\ last.fin /\ last.late # {} /\ during # <<>>)
ReachRmPending   == ~(last.e = "fire" /\ \E i \in 1..Len(last.sub) : last.sub[i].op = "rm" /\ last.sub[i].res = "ok")
=============================================================================
