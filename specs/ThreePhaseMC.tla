---------------------------- MODULE ThreePhaseMC ----------------------------
(* Exhaustive exploration: every history of at most MaxT registrations (any phase,
   kinds MCKinds), MaxR removals, MaxF firings, with the Deferreds of a firing fired
   in every order. *)
EXTENDS ThreePhase, TLC
CONSTANTS MaxT, MaxR, MaxF, MCKinds
VARIABLES nR, nF
mcvars == <<vars, nR, nF>>

Init == InitWith([api |-> "raw"]) /\ nR = 0 /\ nF = 0

DoAdd        == nT < MaxT /\ (\E ph \in Phases, k \in MCKinds : Add(ph, k)) /\ UNCHANGED <<nR, nF>>
DoRemoveOk   == nR < MaxR /\ (\E h \in 1..nT : RemoveOk(h)) /\ nR' = nR + 1 /\ UNCHANGED nF
DoRemoveGone == nR < MaxR /\ (\E h \in 1..nT : RemoveGone(h, "ValueError")) /\ nR' = nR + 1 /\ UNCHANGED nF
DoFire       == nF < MaxF /\ Fire /\ nF' = nF + 1 /\ UNCHANGED nR
DoFireDeferred == (\E d \in pend : FireDeferred(d, "ok")) /\ UNCHANGED <<nR, nF>>
DoFireLoose  == (\E d \in loose : FireLoose(d, "ok")) /\ UNCHANGED <<nR, nF>>
MCNext == DoAdd \/ DoRemoveOk \/ DoRemoveGone \/ DoFire \/ DoFireDeferred \/ DoFireLoose
Spec == Init /\ [][MCNext]_mcvars

\* `last` is an observation of the step, not state: keep of it only what the invariants read
View == <<before, during, after, kind, phase, nT, state, pend, loose, ran, cur, removed, nR, nF,
          IF last.e \in {"fire", "fired"} THEN <<last.e, last.fin>> ELSE <<"-", FALSE>> >>

(* vacuity guards: the interesting situations are reachable *)
ReachWaitingTwo  == ~(Cardinality(pend) >= 2 /\ during # <<>> /\ after # <<>>)
ReachAllPhases   == ~(\E i, j, k \in 1..Len(cur) : phase[cur[i]] = "before" /\ phase[cur[j]] = "during" /\ phase[cur[k]] = "after")
=============================================================================
