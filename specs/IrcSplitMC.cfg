SPECIFICATION Spec
CONSTANT MaxLen = 3
CONSTANT MaxAvail = 5
CONSTANT Mode = "split"
CONSTANT MaxMsgs = 2
CONSTANT Kinds = {"msg"}
INVARIANT SplitOK
CHECK_DEADLOCK FALSE
