SPECIFICATION Spec
CONSTANT MaxLen = 3
CONSTANT MaxAvail = 5
CONSTANT Mode = "split"
CONSTANT Kinds = {"msg"}
INVARIANT SplitOK
CHECK_DEADLOCK FALSE
