------------------------------- MODULE Framing -------------------------------
(* C16 -- framed-message receivers (twisted.protocols.basic), Pattern B.
   Stream element: 0..255 = that byte; 1000+n = a run of n bytes 'x' (long messages, kept whole
   by the generator).  Event = <<kind, content>>, kind in "line" "raw" "str" "exc" "close".
   Reference framing = fold of a byte-at-a-time automaton (Step) over the consumed prefix, hence
   independent of segmentation by construction.  It yields the events every receiver MUST have
   produced (must), whether the stream is finished for comparison purposes (dead: over-long /
   invalid / application asked to close), and whether an oversize report is permitted already
   although the delimiter has not arrived (opt: the property leaves that timing free).
   The test application is part of the model: a message starting with 'Q' makes it call
   transport.loseConnection(), 'P' pauseProducing(), 'R'<digit d> (LineReceiver) setRawMode()
   for d bytes followed by setLineMode(rest).                                                  *)
EXTENDS Naturals, Integers, Sequences, FiniteSets

IsRun(e) == e >= 1000
Wt(e)    == IF IsRun(e) THEN e - 1000 ELSE 1
EXC   == <<"exc", <<>>>>
CLOSE == <<"close", <<>>>>
Last(s) == s[Len(s)]
IsPrefix(a, b) == Len(a) <= Len(b) /\ \A i \in 1..Len(a) : a[i] = b[i]
\* contents are kept canonical: adjacent runs are merged
App2(s, e) == IF IsRun(e) /\ s # <<>> /\ IsRun(Last(s)) THEN [s EXCEPT ![Len(s)] = @ + (e - 1000)] ELSE Append(s, e)
Cat2(a, b) == IF a # <<>> /\ b # <<>> /\ IsRun(Last(a)) /\ IsRun(b[1])
              THEN [a EXCEPT ![Len(a)] = @ + (b[1] - 1000)] \o SubSeq(b, 2, Len(b)) ELSE a \o b
EndsWith(s, d) == Len(s) >= Len(d) /\ SubSeq(s, Len(s) - Len(d) + 1, Len(s)) = d
Cap(v) == IF v > 4000000 THEN 4000000 ELSE v
Pow256(k) == IF k = 0 THEN 1 ELSE IF k = 1 THEN 256 ELSE IF k = 2 THEN 65536 ELSE 16777216

\* the test application's reaction to a delivered message
IsQ(c) == Len(c) >= 1 /\ c[1] = 81
IsP(c) == Len(c) >= 1 /\ c[1] = 80
IsR(c) == Len(c) >= 2 /\ c[1] = 82 /\ c[2] \in 49..57
RawLen(c) == c[2] - 48

R0(c) == [must |-> <<>>, dead |-> FALSE, opt |-> FALSE, free |-> FALSE,
          mode |-> IF c.kind \in {"LR", "LO"} THEN "line" ELSE "len",
          cur |-> <<>>, cw |-> 0, left |-> 0, val |-> 0, nd |-> 0]

Msg(s, ev, c) ==    \* a message is delivered; the application may react
    LET s2 == [s EXCEPT !.must = Append(s.must, ev), !.cur = <<>>, !.cw = 0, !.opt = FALSE, !.val = 0, !.nd = 0] IN
    IF IsQ(ev[2]) THEN [s2 EXCEPT !.dead = TRUE]
    ELSE IF c.kind = "LR" /\ IsR(ev[2]) THEN [s2 EXCEPT !.mode = "raw", !.left = RawLen(ev[2])]
    ELSE s2
Over(s) == [s EXCEPT !.must = Append(s.must, EXC), !.dead = TRUE, !.opt = FALSE, !.cur = <<>>]
Dead(s) == [s EXCEPT !.dead = TRUE, !.opt = FALSE]

LineStep(s, e, c) ==
    LET w == Wt(e)  cur2 == App2(s.cur, e)  cw2 == s.cw + w  d == c.dlm IN
    IF s.mode = "raw" THEN
        IF w > s.left THEN [s EXCEPT !.free = TRUE]
        ELSE IF w = s.left THEN [s EXCEPT !.must = Append(s.must, <<"raw", cur2>>), !.mode = "line", !.cur = <<>>, !.cw = 0, !.left = 0]
        ELSE [s EXCEPT !.cur = cur2, !.left = s.left - w]
    ELSE IF EndsWith(cur2, d) THEN
        LET content == SubSeq(cur2, 1, Len(cur2) - Len(d)) IN
        IF cw2 - Len(d) > c.max THEN Over(s)                       \* a longer line is never delivered
        ELSE Msg(s, <<"line", content>>, c)                        \* a line within the maximum is never rejected
    ELSE LET sp == IF Len(d) = 2 /\ e = d[1] THEN 1 ELSE 0 IN     \* a trailing proper prefix of the delimiter may still complete it
         [s EXCEPT !.cur = cur2, !.cw = cw2, !.opt = (cw2 - sp > c.max)]

NetStep(s, e, c) ==
    LET w == Wt(e) IN
    CASE s.mode = "len" ->
           IF e \in 48..57 THEN
               IF s.nd = 0 THEN [s EXCEPT !.val = e - 48, !.nd = 1, !.dead = (e - 48 > c.max)]
               ELSE IF s.val = 0 THEN Dead(s)                      \* leading zero
               ELSE LET v == Cap(s.val * 10 + (e - 48)) IN [s EXCEPT !.val = v, !.nd = s.nd + 1, !.dead = (v > c.max)]
           ELSE IF e = 58 /\ s.nd > 0 THEN [s EXCEPT !.mode = IF s.val = 0 THEN "comma" ELSE "pay", !.left = s.val, !.cur = <<>>]
           ELSE Dead(s)
      [] s.mode = "pay" ->
           IF w > s.left THEN [s EXCEPT !.free = TRUE]
           ELSE [s EXCEPT !.cur = App2(s.cur, e), !.left = s.left - w, !.mode = IF w = s.left THEN "comma" ELSE "pay"]
      [] OTHER -> IF e = 44 THEN [Msg(s, <<"str", s.cur>>, c) EXCEPT !.mode = "len"] ELSE Dead(s)

IntStep(s, e, c) ==
    LET w == Wt(e) IN
    IF s.mode = "len" THEN
        IF IsRun(e) THEN [s EXCEPT !.free = TRUE]
        ELSE LET v == Cap(s.val * 256 + e)  k == s.nd + 1 IN
             IF k < c.n THEN [s EXCEPT !.val = v, !.nd = k, !.opt = (v > c.max \div Pow256(c.n - k))]
             ELSE IF v > c.max THEN Over(s)                         \* a longer string is never delivered
             ELSE IF v = 0 THEN Msg(s, <<"str", <<>>>>, c)
             ELSE [s EXCEPT !.mode = "pay", !.left = v, !.cur = <<>>, !.val = 0, !.nd = 0, !.opt = FALSE]
    ELSE IF w > s.left THEN [s EXCEPT !.free = TRUE]
    ELSE IF w = s.left THEN [Msg(s, <<"str", App2(s.cur, e)>>, c) EXCEPT !.mode = "len"]
    ELSE [s EXCEPT !.cur = App2(s.cur, e), !.left = s.left - w]

Step(s, e, c) == IF s.dead \/ s.free THEN s
                 ELSE IF c.kind \in {"LR", "LO"} THEN LineStep(s, e, c)
                 ELSE IF c.kind = "NS" THEN NetStep(s, e, c) ELSE IntStep(s, e, c)
\* left fold of Step over str[i..j]; split in halves above 32 elements so that the evaluation depth stays logarithmic
RECURSIVE Fold(_, _, _, _, _)
Fold(s, str, i, j, c) ==
    IF i > j THEN s
    ELSE IF s.dead THEN s                 \* absorbing; the test also forces s (TLC passes arguments lazily: no chain of pending Steps)
    ELSE IF j - i < 32 THEN Fold(Step(s, str[i], c), str, i + 1, j, c)
    ELSE LET mid == (i + j) \div 2 IN Fold(Fold(s, str, i, mid, c), str, mid + 1, j, c)

\* events the receiver must have produced for the consumed prefix (an unfinished raw segment counts)
RefEvents(s) == IF s.mode = "raw" /\ s.cur # <<>> THEN Append(s.must, <<"raw", s.cur>>) ELSE s.must

\* observed events are compared up to the first close request, adjacent raw chunks coalesced
RECURSIVE AddEvents(_, _, _, _)
AddEvents(o, out, i, pz) ==      \* pz: the receiver is pausable (LineReceiver, IntN)        \* o = [ev |-> normalised events, closed |-> BOOLEAN, paused |-> BOOLEAN]
    IF i > Len(out) \/ o.closed THEN o
    ELSE LET x == out[i] IN
         AddEvents(IF x[1] = "close" THEN [o EXCEPT !.closed = TRUE]
                   ELSE IF x[1] = "raw" /\ o.ev # <<>> /\ Last(o.ev)[1] = "raw"
                        THEN [o EXCEPT !.ev[Len(o.ev)] = <<"raw", Cat2(Last(o.ev)[2], x[2])>>]
                   ELSE [o EXCEPT !.ev = Append(o.ev, x), !.paused = o.paused \/ (pz /\ x[1] \in {"line", "str"} /\ IsP(x[2]))],
                   out, i + 1, pz)
O0 == [ev |-> <<>>, closed |-> FALSE, paused |-> FALSE]

Rel(s, o) ==
    LET R == RefEvents(s) IN
    \/ s.free
    \/ o.closed /\ ((o.ev = R /\ s.dead) \/ (s.opt /\ o.ev = Append(R, EXC)))
    \/ ~o.closed /\ o.paused /\ IsPrefix(o.ev, R)
    \/ ~o.closed /\ ~o.paused /\ (o.ev = R \/ (s.opt /\ o.ev = Append(R, EXC)))

-----------------------------------------------------------------------------
VARIABLES cfg,   \* [kind |-> "LR"|"LO"|"NS"|"IN", max |-> MAX_LENGTH, dlm |-> delimiter, n |-> prefix length]
          str,   \* the stream
          pos,   \* elements delivered so far
          ref,   \* reference automaton state after str[1..pos]
          obs,   \* what the receiver has shown so far: [ev, closed, paused] (normalised, up to first close)
          last
vars == <<cfg, str, pos, ref, obs, last>>

Pausable == cfg.kind \in {"LR", "IN"}
InitWith(c, s) == cfg = c /\ str = s /\ pos = 0 /\ ref = R0(c) /\ obs = O0 /\ last = [e |-> "init"]

\* dataReceived(str[pos+1 .. pos+n]) showed the events `out`
Advance(n, out) ==
    /\ ~obs.closed /\ n >= 0 /\ pos + n <= Len(str)
    /\ ref' = Fold(ref, str, pos + 1, pos + n, cfg)
    /\ pos' = pos + n
    /\ obs' = AddEvents(obs, out, 1, Pausable)
    /\ last' = [e |-> "data", n |-> n, out |-> out]
    /\ UNCHANGED <<cfg, str>>
Deliver(n, out) == Advance(n, out) /\ Rel(ref', obs')

\* resumeProducing() showed the events `out`
ResumeAdvance(out) ==
    /\ ~obs.closed /\ obs.paused
    /\ obs' = AddEvents([obs EXCEPT !.paused = FALSE], out, 1, Pausable)
    /\ last' = [e |-> "resume", out |-> out]
    /\ UNCHANGED <<cfg, str, pos, ref>>
Resume(out) == ResumeAdvance(out) /\ Rel(ref, obs')

Extend(e) == /\ ~obs.closed /\ str' = Append(str, e) /\ last' = [e |-> "extend"]
             /\ UNCHANGED <<cfg, pos, ref, obs>>

\* The property as state invariants (consequences of Rel at every step)
Msgs(evs) == SelectSeq(evs, LAMBDA x : x[1] \in {"line", "str"})
RECURSIVE Weight(_, _)
Weight(c, i) == IF i > Len(c) THEN 0 ELSE Wt(c[i]) + Weight(c, i + 1)
NeverTooLong == ref.free \/ \A i \in 1..Len(obs.ev) : obs.ev[i][1] \in {"line", "str"} => Weight(obs.ev[i][2], 1) <= cfg.max
NoInvention  == ref.free \/ IsPrefix(Msgs(obs.ev), Msgs(RefEvents(ref)))
NoLoss       == (ref.free \/ obs.paused) \/ Len(Msgs(obs.ev)) = Len(Msgs(RefEvents(ref)))
Inv == NeverTooLong /\ NoInvention /\ NoLoss
=============================================================================
