---------------------------- MODULE HappyEyeballs ----------------------------
(* Extension X04 -- twisted.internet.endpoints.HostnameEndpoint.connect: staggered connection
   attempts to every resolved address (one more attempt each attemptDelay), first success wins and
   cancels the rest, failure only when every address was tried and failed, cancellation.
   Times are integers; the attempt ticker is a LoopingCall on a stepped clock (one tick per advance
   that crosses a boundary, next tick at the first boundary strictly after the advance's end).     *)
EXTENDS Naturals, Integers, Sequences, FiniteSets

VARIABLES cfg,        \* [n |-> number of resolved addresses, delay |-> attemptDelay]
          now,
          att,        \* 1..n -> "idle" | "pending" | "ok" | "failed" | "cancelled"
          nextStart,  \* index of the next address to try
          exhausted,  \* the ticker found no address left
          ticking,    \* the ticker is still scheduled
          nextAt,     \* time of the next tick
          res,        \* <<"none",0>> | <<"ok",i>> | <<"fail",i>> | <<"cancelled",0>> | <<"nodns",0>>
          lastFail,   \* index of the most recent failed attempt (0 = none)
          last
vars == <<cfg, now, att, nextStart, exhausted, ticking, nextAt, res, lastFail, last>>

Pending == {i \in 1..cfg.n : att[i] = "pending"}
Done == res[1] # "none"
RECURSIVE Asc(_)
Asc(S) == IF S = {} THEN <<>> ELSE LET m == CHOOSE x \in S : \A y \in S : x <= y IN <<m>> \o Asc(S \ {m})

InitWith(c) ==
    /\ cfg = c /\ now = 0
    /\ att = [i \in 1..c.n |-> "idle"]
    /\ nextStart = 1 /\ exhausted = FALSE /\ ticking = FALSE /\ nextAt = 0
    /\ res = <<"none", 0>> /\ lastFail = 0
    /\ last = [e |-> "init"]

(* connect(): name resolution completes at once; the first attempt starts immediately *)
Connect ==
    /\ last.e = "init"
    /\ IF cfg.n = 0
         THEN /\ res' = <<"nodns", 0>>
              /\ last' = [e |-> "connect", started |-> <<>>, cancelled |-> <<>>, res |-> <<"nodns", 0>>]
              /\ UNCHANGED <<att, nextStart, ticking, nextAt>>
         ELSE /\ att' = [att EXCEPT ![1] = "pending"]
              /\ nextStart' = 2
              /\ ticking' = TRUE
              /\ nextAt' = now + cfg.delay
              /\ last' = [e |-> "connect", started |-> <<1>>, cancelled |-> <<>>, res |-> res]
              /\ UNCHANGED res
    /\ UNCHANGED <<cfg, now, exhausted, lastFail>>

(* checkDone as evaluated at a tick that finds the address list exhausted *)
Advance(d) ==
    LET t == now + d
        tick == ticking /\ nextAt <= t
        starts == tick /\ nextStart <= cfg.n
        ends == tick /\ nextStart > cfg.n
        failNow == ends /\ Pending = {} /\ ~Done
    IN
    /\ last.e # "init" /\ d \in Nat
    /\ now' = t
    /\ att' = IF starts THEN [att EXCEPT ![nextStart] = "pending"] ELSE att
    /\ nextStart' = IF starts THEN nextStart + 1 ELSE nextStart
    /\ exhausted' = (exhausted \/ ends)
    /\ res' = IF failNow THEN <<"fail", lastFail>> ELSE res
    /\ ticking' = (ticking /\ ~failNow)
    /\ nextAt' = IF tick THEN ((t \div cfg.delay) + 1) * cfg.delay ELSE nextAt
    /\ last' = [e |-> "advance", d |-> d, started |-> IF starts THEN <<nextStart>> ELSE <<>>, cancelled |-> <<>>, res |-> res']
    /\ UNCHANGED <<cfg, lastFail>>

(* attempt i connects: it wins unless a result already exists; every other pending attempt is cancelled *)
Succeed(i) ==
    /\ i \in Pending /\ ~Done
    /\ att' = [j \in 1..cfg.n |-> IF j = i THEN "ok" ELSE IF att[j] = "pending" THEN "cancelled" ELSE att[j]]
    /\ res' = <<"ok", i>>
    /\ ticking' = FALSE
    /\ last' = [e |-> "succeed", i |-> i, started |-> <<>>, cancelled |-> Asc(Pending \ {i}), res |-> res']
    /\ UNCHANGED <<cfg, now, nextStart, exhausted, nextAt, lastFail>>

(* attempt i fails: only when every address has been tried (the ticker noticed) and none is pending does the result fail,
   with the most recent failure *)
Fail(i) ==
    LET failNow == exhausted /\ Pending = {i} /\ ~Done IN
    /\ i \in Pending /\ ~Done
    /\ att' = [att EXCEPT ![i] = "failed"]
    /\ lastFail' = i
    /\ res' = IF failNow THEN <<"fail", i>> ELSE res
    /\ ticking' = (ticking /\ ~failNow)
    /\ last' = [e |-> "fail", i |-> i, started |-> <<>>, cancelled |-> <<>>, res |-> res']
    /\ UNCHANGED <<cfg, now, nextStart, exhausted, nextAt>>

(* the caller cancels the Deferred returned by connect() *)
Cancel ==
    /\ last.e # "init"
    /\ IF Done THEN /\ UNCHANGED <<att, res, ticking>>
                    /\ last' = [e |-> "cancel", started |-> <<>>, cancelled |-> <<>>, res |-> res]
       ELSE /\ att' = [j \in 1..cfg.n |-> IF att[j] = "pending" THEN "cancelled" ELSE att[j]]
            /\ res' = <<"cancelled", 0>>
            /\ ticking' = FALSE
            /\ last' = [e |-> "cancel", started |-> <<>>, cancelled |-> Asc(Pending), res |-> res']
    /\ UNCHANGED <<cfg, now, nextStart, exhausted, nextAt, lastFail>>

Next == \/ Connect
        \/ \E d \in 0..3 : Advance(d)
        \/ \E i \in 1..cfg.n : Succeed(i)
        \/ \E i \in 1..cfg.n : Fail(i)
        \/ Cancel
-----------------------------------------------------------------------------
OneWinner   == Cardinality({i \in 1..cfg.n : att[i] = "ok"}) <= 1
NoStragglers == Done => Pending = {}                         \* once there is a result no attempt is left running
InOrder     == \A i, j \in 1..cfg.n : (i < j /\ att[j] # "idle") => att[i] # "idle"
Staggered   == \A i \in 1..cfg.n : att[i] # "idle" => (i - 1) * cfg.delay <= now   \* attempt i never before (i-1)*delay
FailOnlyAfterAll == res[1] = "fail" => (\A i \in 1..cfg.n : att[i] = "failed")
OkMeansOk   == res[1] = "ok" => att[res[2]] = "ok"
Inv == OneWinner /\ NoStragglers /\ InOrder /\ Staggered /\ FailOnlyAfterAll /\ OkMeansOk
\* the result never changes once set
ResultStable == [][res[1] # "none" => res' = res]_vars
=============================================================================
