--------------------------- MODULE SmtpDataTrace ---------------------------
(* Batched trace validation of real SMTPClient -> SMTP/ESMTP transfers against SmtpData.

   events:  {"e":"send",   "body":[bytes], "wire":[bytes], "pre":[items]}         client mode
            {"e":"inject", "body":[bytes], "tail":[bytes], "wire":[bytes], "pre":[items]}   server mode
            {"e":"deliver","k":n, "out":[items], "exc":"", "one":[items]}
            {"e":"end",    "sent":[codes]}
   items:   ["l", bytes] IMessage.lineReceived, ["eom", []] IMessage.eomReceived,
            ["r", [code]] a reply line written by the server, ["lost", []] IMessage.connectionLost *)
EXTENDS SmtpData, TLC, Json, IOUtils

Traces == JsonDeserialize(IOEnv.TRACE_FILE)
VARIABLES tid, l
ASSUME \A t \in 1..Len(Traces) : TLCSet(t, 1)

T == Traces[tid]
E == T.ev[l]

TInit == /\ tid \in 1..Len(Traces) /\ l = 1
         /\ InitWith([mode |-> Traces[tid].cfg.mode, rcvd |-> Traces[tid].cfg.rcvd])

(* Design invariants conjoined primed into the steps; each step conjoins those that mention a
   variable it changes (SenderInv speaks about body and wire only). *)
Step(A, I) == /\ l <= Len(T.ev) /\ A /\ I /\ l' = l + 1 /\ UNCHANGED tid
\* per delivery: the real server's output is compared with the machine's (E.out) and with the real one-piece run
\* of the prefix (E.one); the reference decoding of the whole stream is evaluated once everything is consumed.
RecvInv == RefInvSync /\ NoLoss /\ EndOnlyAtTerminator /\ EndToEnd

TSend    == /\ E.e = "send"   /\ Step(Send(E.body, E.wire), Inv')            /\ E.pre = last'.pre
TInject  == /\ E.e = "inject" /\ Step(Inject(E.body, E.tail, E.wire), Inv')  /\ E.pre = last'.pre
TDeliver == /\ E.e = "deliver"
            /\ Step(Deliver(E.k), RecvInv')
            /\ E.exc = ""
            /\ E.out = last'.out
            /\ E.one = out'
TEnd     == /\ E.e = "end" /\ Step(End, RecvInv') /\ E.sent = last'.codes

TNext == TSend \/ TInject \/ TDeliver \/ TEnd
TSpec == TInit /\ [][l <= Len(T.ev) /\ TNext]_<<vars, tid, l>>

Progress == TLCSet(tid, IF TLCGet(tid) > l THEN TLCGet(tid) ELSE l)
Rejected == {<<t, TLCGet(t)>> : t \in {u \in 1..Len(Traces) : TLCGet(u) # Len(Traces[u].ev) + 1}}
Accepted == Rejected = {} \/ (PrintT(<<"REJECTED", Rejected>>) /\ FALSE)
=============================================================================
