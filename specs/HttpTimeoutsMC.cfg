SPECIFICATION Spec
CONSTRAINT Bound
VIEW View
CONSTANT Configs <- ConfigsQuick
CONSTANT MaxNow <- MaxNowQuick
CONSTANT Depth <- DepthQuick
INVARIANT NoIdleWhileHandling
INVARIANT DeadlineExact
INVARIANT Guarded
INVARIANT AbortAfterTimeout
INVARIANT AbortOnce
INVARIANT TimeoutCloses
INVARIANT NoLeak
INVARIANT TrkSane
PROPERTY StepProp
CHECK_DEADLOCK FALSE
