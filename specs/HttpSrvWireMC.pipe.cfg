SPECIFICATION Spec
CONSTANT MaxReqs = 2
CONSTANT Level = 1
INVARIANT RoundTrip
INVARIANT Accepts
INVARIANT Rejects
INVARIANT Prefixes
CHECK_DEADLOCK FALSE
