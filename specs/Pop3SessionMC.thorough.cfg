SPECIFICATION Spec
CONSTANTS
  MaxN = 2
  MaxQ = 2
  MaxSess = 2
  MaxLater = 1
  Depth = 6
  Full = TRUE
CONSTRAINT Bound
VIEW View
INVARIANT ReplyConservation
INVARIANT NoStuckQueue
INVARIANT MarksSane
INVARIANT ExpungeOnlyAfterQuit
INVARIANT PendingMsgLive
INVARIANT LogoutDiscipline
PROPERTY Props
CHECK_DEADLOCK FALSE
