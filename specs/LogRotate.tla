------------------------------ MODULE LogRotate ------------------------------
(* C53 -- twisted.python.logfile.LogFile: rotating log files lose and reorder nothing.

   Abs layer = the property.  Every write call hands over one chunk (identity c,
   numbered in call order; size szs[c] in bytes).  State: the retained rotated files
   oldest first (`rot`, each a sequence of chunk ids), the current file (`cur`),
   everything written by completed write calls (`written`).  Observable: after every
   call the directory is listed (`view`): a sequence of <<index, content>> with the
   numeric suffix as index (0 = the current file), highest index (= oldest) first.

   The property, clause by clause:
     * rotated files oldest-first + current = a suffix of everything written, nothing
       lost, duplicated or reordered inside it (Suffix; with no retention count the
       suffix is everything: NoLoss);
     * every rotated file was at least rotateLength bytes when rotated (a write may
       rotate only if Size(cur) >= L; whether it must is left open -- the property
       does not say when rotation happens);
     * with a retention count N exactly the newest N rotated files are kept;
     * a crash during rotation never reorders retained data and, without a retention
       count, loses none (after a crash the retained chunks are a subsequence of what
       was retained before, equal to it when N = 0).  After a crash in a history with a
       retention count ("dirty"), later rotations are only required to keep at most N
       rotated files, in order, including the file just rotated: the crash clause
       promises no more (see notes/C53.md).
   cfg.L = 0 stands for rotateLength=None (never rotate), cfg.N = 0 for
   maxRotatedFiles=None (keep everything).                                        *)
EXTENDS Naturals, Integers, Sequences, FiniteSets

VARIABLES cfg,      \* [L |-> rotateLength or 0, N |-> maxRotatedFiles or 0]
          rot,      \* retained rotated files, oldest first: sequence of contents
          cur,      \* content of the current file
          written,  \* chunk ids of all completed writes, in order
          szs,      \* szs[c] = size in bytes of chunk c (chunks are numbered 1, 2, ... in call order)
          pend,     \* what happened since the last view: <<>> | <<"write", c>> | <<"crash", c>> | <<"reopen">>
          mode,     \* "up" | "busy" | "down"
          dirty,    \* a crash happened in a history with a retention count
          ncr, nre, ok, last

absvars == <<cfg, rot, cur, written, szs, pend, mode, dirty, ncr, nre, ok, last>>

InitWith(c) ==
    /\ cfg = c
    /\ rot = <<>> /\ cur = <<>> /\ written = <<>> /\ szs = <<>>
    /\ pend = <<>> /\ mode = "up" /\ dirty = FALSE
    /\ ncr = 0 /\ nre = 0 /\ ok = TRUE
    /\ last = [e |-> "init"]

L == cfg.L
N == cfg.N

RECURSIVE Size(_), Flat(_)
Size(c) == IF c = <<>> THEN 0 ELSE (IF Head(c) \in 1..Len(szs) THEN szs[Head(c)] ELSE 0) + Size(Tail(c))
Flat(fs) == IF fs = <<>> THEN <<>> ELSE Head(fs) \o Flat(Tail(fs))
Range(s) == {s[i] : i \in 1..Len(s)}
LastN(s, n) == IF Len(s) <= n THEN s ELSE SubSeq(s, Len(s) - n + 1, Len(s))
IsSuffix(a, b) == Len(a) <= Len(b) /\ a = SubSeq(b, Len(b) - Len(a) + 1, Len(b))
NoDup(s) == \A i, j \in 1..Len(s) : i # j => s[i] # s[j]
(* a is an order-preserving sub-sequence of the duplicate-free sequence b *)
IsSubseq(a, b) ==
    /\ NoDup(a) /\ Range(a) \subseteq Range(b)
    /\ \A i, j \in 1..Len(a) : i < j =>
          (CHOOSE p \in 1..Len(b) : b[p] = a[i]) < (CHOOSE p \in 1..Len(b) : b[p] = a[j])

(* ---- views ---- *)
WellFormed(v) == \A i, j \in 1..Len(v) : i < j => v[i][1] > v[j][1] /\ v[j][1] >= 0
RotOf(v) == LET r == SelectSeq(v, LAMBDA e : e[1] > 0) IN [i \in 1..Len(r) |-> r[i][2]]
CurOf(v) == IF v # <<>> /\ v[Len(v)][1] = 0 THEN v[Len(v)][2] ELSE <<>>

MayRotate == L > 0 /\ Size(cur) >= L

KeepOk(r, full) ==
    IF N = 0 THEN r = full
    ELSE IF ~dirty THEN r = LastN(full, N)
    ELSE /\ Len(r) <= N /\ r # <<>> /\ r[Len(r)] = full[Len(full)]
         /\ IsSubseq(Flat(r), Flat(full))

AfterWrite(c, v) ==
    \/ /\ RotOf(v) = rot /\ CurOf(v) = Append(cur, c)                       \* appended
    \/ /\ MayRotate /\ CurOf(v) = <<c>> /\ KeepOk(RotOf(v), Append(rot, cur))  \* rotated, then appended

AfterReopen(v) == RotOf(v) = rot /\ CurOf(v) = cur

AfterCrash(v) ==
    LET old == Flat(rot) \o cur
        new == Flat(RotOf(v)) \o CurOf(v)
    IN  IF ~MayRotate THEN RotOf(v) = rot /\ CurOf(v) = cur      \* no rotation may have begun
        ELSE IF N = 0 THEN new = old                            \* nothing lost, nothing reordered
        ELSE IsSubseq(new, old)                                 \* nothing reordered

Allowed(v) ==
    /\ WellFormed(v)
    /\ IF pend = <<>> THEN AfterReopen(v)
       ELSE IF pend[1] = "write" THEN AfterWrite(pend[2], v)
       ELSE IF pend[1] = "crash" THEN AfterCrash(v)
       ELSE AfterReopen(v)

(* ---- public calls ---- *)
AWrite(c, sz) ==
    /\ mode = "up" /\ pend = <<>> /\ c = Len(szs) + 1 /\ sz >= 1
    /\ szs' = Append(szs, sz)
    /\ pend' = <<"write", c>> /\ mode' = "busy"
    /\ last' = [e |-> "write", c |-> c, sz |-> sz]
    /\ UNCHANGED <<cfg, rot, cur, written, dirty, ncr, nre, ok>>

ARetOk ==
    /\ mode = "busy"
    /\ written' = Append(written, pend[2])
    /\ mode' = "up"
    /\ last' = [e |-> "ret", res |-> "ok"]
    /\ UNCHANGED <<cfg, rot, cur, szs, pend, dirty, ncr, nre, ok>>

(* the process dies inside rotate() called by this write: the chunk itself was not written *)
ACrash ==
    /\ mode = "busy"
    /\ pend' = <<"crash", pend[2]>> /\ mode' = "down"
    /\ dirty' = (dirty \/ N > 0) /\ ncr' = ncr + 1
    /\ last' = [e |-> "crash"]
    /\ UNCHANGED <<cfg, rot, cur, written, szs, nre, ok>>

(* a new process opens the log (LogFile(...)) *)
ARestart ==
    /\ mode = "down"
    /\ mode' = "up"
    /\ last' = [e |-> "restart"]
    /\ UNCHANGED <<cfg, rot, cur, written, szs, pend, dirty, ncr, nre, ok>>

(* reopen() on the same object, or close() + a new LogFile(...) without a crash *)
AReopen ==
    /\ mode = "up" /\ pend = <<>>
    /\ pend' = <<"reopen">> /\ nre' = nre + 1
    /\ last' = [e |-> "reopen"]
    /\ UNCHANGED <<cfg, rot, cur, written, szs, mode, dirty, ncr, ok>>

AView(v) ==
    /\ mode = "up"
    /\ ok' = (ok /\ Allowed(v))
    /\ rot' = RotOf(v) /\ cur' = CurOf(v)
    /\ pend' = <<>>
    /\ last' = [e |-> "view"]
    /\ UNCHANGED <<cfg, written, szs, mode, dirty, ncr, nre>>

(* ---- the summary clauses, consequences of the step-wise ones ---- *)
Suffix == pend = <<>> /\ ok => IsSuffix(Flat(rot) \o cur, written)
NoLoss == pend = <<>> /\ ok /\ N = 0 => Flat(rot) \o cur = written
Retention == pend = <<>> /\ ok /\ N > 0 /\ ~dirty => Len(rot) <= N

Inv == ok /\ Suffix /\ NoLoss /\ Retention
=============================================================================
