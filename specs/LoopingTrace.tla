---------------------------- MODULE LoopingTrace ----------------------------
(* Batched trace validation: every recorded execution of the real LoopingCall on a
   task.Clock must be a behaviour of Looping with every logged field matching:
   the calls of the function made during each public call (clock reading, count,
   behaviour), the results delivered to start()'s Deferred, the public call's outcome. *)
EXTENDS Looping, TLC, Json, IOUtils

Traces == JsonDeserialize(IOEnv.TRACE_FILE)
VARIABLES tid, l
ASSUME \A t \in 1..Len(Traces) : TLCSet(t, 1)

T == Traces[tid]
E == T.ev[l]

TInit == /\ tid \in 1..Len(Traces) /\ l = 1
         /\ InitWith([iv |-> Traces[tid].cfg.iv, nowFlag |-> Traces[tid].cfg.nowFlag,
                      wc |-> Traces[tid].cfg.wc, t0 |-> Traces[tid].cfg.t0,
                      strict |-> Traces[tid].cfg.strict])

Matches == /\ last'.e = E.e
           /\ last'.calls = E.calls
           /\ last'.sd = E.sd
           /\ (last'.res = "any" \/ last'.res = E.res)

Step(A) == /\ l <= Len(T.ev) /\ A /\ Matches /\ Inv' /\ l' = l + 1 /\ UNCHANGED tid

\* behaviour of the function in the (at most one) call logged with this event
HasCall == Len(E.calls) = 1
B1 == E.calls[1].b

TStart == E.e = "start" /\ Step(IF Len(E.calls) >= 1 THEN StartNow(B1) ELSE StartLater)
TAdv   == E.e = "adv" /\ Step(IF Len(E.calls) >= 1 THEN AdvanceCall(E.d, B1, IF E.calls[1].c > 0 THEN E.calls[1].c ELSE 0) ELSE AdvanceQuiet(E.d))
TFire  == E.e = "fire" /\ Step(IF E.ok THEN FireOk ELSE FireFail)
TStop  == E.e = "stop" /\ Step(StopScheduled \/ StopInCall \/ StopNotRunning)
TReset == E.e = "reset" /\ Step(ResetScheduled \/ ResetInCall \/ ResetNotRunning)

TNext == TStart \/ TAdv \/ TFire \/ TStop \/ TReset

TSpec == TInit /\ [][l <= Len(T.ev) /\ TNext]_<<vars, tid, l>>

Progress == TLCSet(tid, IF TLCGet(tid) > l THEN TLCGet(tid) ELSE l)
Rejected == {<<t, TLCGet(t)>> : t \in {u \in 1..Len(Traces) : TLCGet(u) # Len(Traces[u].ev) + 1}}
Accepted == Rejected = {} \/ (PrintT(<<"REJECTED", Rejected>>) /\ FALSE)
=============================================================================
