SPECIFICATION TSpec
CONSTANT Strict = TRUE
CONSTRAINT Progress
POSTCONDITION Accepted
CHECK_DEADLOCK FALSE
