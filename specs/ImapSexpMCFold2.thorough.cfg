SPECIFICATION Spec
CONSTANT MaxOctets = 4
CONSTANT MaxItems = 1
CONSTANT MaxDepth = 1
CONSTANT MaxLists = 1
CONSTANT Stepwise = FALSE
INVARIANT RoundTrip
INVARIANT StepwiseIsRefParse
CHECK_DEADLOCK FALSE
