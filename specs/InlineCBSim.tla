------------------------------ MODULE InlineCBSim ------------------------------
(* Behaviour generator (spec -> code).  InlineCB plus a history variable recording every
   event; a behaviour is printed as JSON the first time it is between two driver calls at
   depth >= Depth.  The harness turns the environment's moves of each invocation into a
   scripted body, performs the driver's calls on the real objects and compares what really
   happened with the predicted events.
   To make the prediction reproducible the machinery's moves are given priority over the
   bodies' moves (the specification itself leaves that order free), and each invocation has
   a mode: `async def` bodies cannot yield plain values or coroutine objects. *)
EXTENDS InlineCBMC, Json
CONSTANT Depth
VARIABLES hist, mode

Modes == {"icb", "coro", "gened"}
SysMove == CancellerCalledA \/ LeafFiresA \/ ResumeA \/ FireResultA
GenOnly(g) == mode[g] # "coro"
EnvMove == \/ YieldLeafA \/ YieldChildA
           \/ \E g \in Invs : GenOnly(g) /\ YieldVal(g, 7)
           \/ ReturnA \/ RaiseA
DrvMove == DFireA \/ DCancelA \/ DCancelLeafA \/ End

SInit == Init /\ hist = <<>> /\ mode = [g \in 1..NG |-> "-"]
SNext == /\ \/ (ENABLED SysMove /\ SysMove /\ UNCHANGED mode)
            \/ (~ENABLED SysMove /\ (EnvMove \/ DrvMove) /\ UNCHANGED mode)
            \/ (~ENABLED SysMove /\ \E m \in Modes : Start(m) /\ mode' = [mode EXCEPT ![1] = m])
            \/ (~ENABLED SysMove /\ \E g \in Invs, m \in Modes : Spawn(g, m) /\ mode' = [mode EXCEPT ![nG + 1] = m])
            \/ (~ENABLED SysMove /\ \E g \in Invs, m \in Modes : GenOnly(g) /\ SpawnYield(g, m) /\ mode' = [mode EXCEPT ![nG + 1] = m])
         /\ hist' = Append(hist, last')
SSpec == SInit /\ [][SNext]_<<vars, hist, mode>>

Emit == IF TLCGet("level") >= Depth /\ ~inCall /\ nG >= 1
        THEN PrintT(<<"BEH", ToJson([cfg |-> cfg, hist |-> hist])>>) /\ FALSE
        ELSE TRUE
Stop == TLCGet("level") <= Depth + 40
=============================================================================
