---------------------------- MODULE ClientSvcImplSim ----------------------------
(* Behaviour generator for the Impl layer: random walks of ClientService AS CODED (ClientSvcImpl),
   unrestricted environment.  Prints {cfg, ops, ev}: the ops in the adapter's vocabulary and the event
   records the model predicts.  The harness runs the ops on the real service and compares event by
   event (obs as sets): a difference is `impl_drift` (the model misrepresents the code), never a verdict. *)
EXTENDS Naturals, Integers, Sequences, FiniteSets, TLC, Json
CONSTANT Depth
VARIABLES M, cfg, ops, ev
Impl == INSTANCE ClientSvcImpl
Modes == {"async", "ok", "fail"}
SInit == \E h \in BOOLEAN, sc \in BOOLEAN, cm \in Modes, hm \in Modes, p \in {<<1, 2>>, <<2, 3, 5>>} :
           /\ cfg = [hook |-> h, syncClose |-> sc, pol |-> p, cmode |-> cm, hmode |-> hm]
           /\ M = Impl!MInit(cfg) /\ ops = <<>> /\ ev = <<>>
O(op) == [op |-> op, k |-> 0, then |-> "none", c |-> 0, d |-> 0, m |-> "-"]
Thens == {"none", "start", "stop", "when"}
OpsOf(m) ==
    {O("start")} \cup {[O("stop") EXCEPT !.then = t] : t \in Thens}
    \cup {[O("when") EXCEPT !.k = k, !.then = t] : k \in (0 - 1)..3, t \in Thens}
    \cup (IF m.att # 0 THEN {O("succeed"), O("fail")} ELSE {})
    \cup {[O("prepok") EXCEPT !.c = c] : c \in m.hooks} \cup {[O("prepfail") EXCEPT !.c = c] : c \in m.hooks}
    \cup {[O("drop") EXCEPT !.c = c] : c \in m.conns}
    \cup {[O("adv") EXCEPT !.d = d] : d \in 1..3}
    \cup {[O("cmode") EXCEPT !.m = x] : x \in Modes} \cup {[O("hmode") EXCEPT !.m = x] : x \in Modes}
JOp(o) == CASE o.op \in {"start", "succeed", "fail"} -> <<o.op>>
            [] o.op = "stop" -> <<"stop", o.then>>
            [] o.op = "when" -> <<"when", o.k, o.then>>
            [] o.op \in {"prepok", "prepfail", "drop"} -> <<o.op, o.c>>
            [] o.op = "adv" -> <<"adv", o.d>>
            [] OTHER -> <<o.op, o.m>>
SNext == \E o \in OpsOf(M) : LET r == Impl!Exec(M, o)
                             IN M' = r.st /\ ops' = Append(ops, JOp(o)) /\ ev' = Append(ev, r.ev) /\ UNCHANGED cfg
SSpec == SInit /\ [][SNext]_<<M, cfg, ops, ev>>
Emit == TLCGet("level") < Depth \/ PrintT(<<"BEH", ToJson([cfg |-> cfg, ops |-> ops, ev |-> ev])>>)
Stop == TLCGet("level") <= Depth
=============================================================================
