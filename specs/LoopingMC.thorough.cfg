SPECIFICATION Spec
CONSTANT MaxIv = 3
CONSTANT Horizon = 9
CONSTANT MaxD = 7
CONSTANT MaxOps = 9
CONSTANT Stricts = {TRUE}
CONSTANT T0s = {0, 2}
CONSTRAINT Bound
VIEW View
INVARIANT NoOverlap
INVARIANT NoDrift
INVARIANT FirstCall
INVARIANT CountSum
INVARIANT CountPositive
INVARIANT StartDOnce
INVARIANT NoCallAfter
CHECK_DEADLOCK FALSE
