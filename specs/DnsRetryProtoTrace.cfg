SPECIFICATION TSpec
CONSTRAINT Progress
POSTCONDITION Accepted
CHECK_DEADLOCK FALSE
