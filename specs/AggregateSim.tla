----------------------------- MODULE AggregateSim -----------------------------
(* Behaviour generator (spec -> code): Aggregate plus a history variable recording the
   predicted observable of every call; printed as JSON at depth Depth.  The order in
   which the aggregate cancels inputs is fixed to index order here so that the
   prediction is reproducible on the real code (the property leaves it free; the
   trace specification accepts any order). *)
EXTENDS AggregateMC, Json
CONSTANT Depth
VARIABLE hist

Sorted(S) == LET f[k \in 0..N] == IF k = 0 THEN <<>> ELSE IF k \in S THEN Append(f[k - 1], k) ELSE f[k - 1]
             IN f[N]

SFire == \E i \in Inputs, o \in {"ok", "err"} :
           LET S == CascadeSet(<<Firing(i, <<o, i>>, Direct)>>, built, FALSE) IN
           \E kc \in [S -> Kinds] : Fire(i, o, Sorted(S), Total(S, kc))
SCancelInput == \E i \in Inputs, k \in Kinds :
           LET S == CascadeSet(<<CancelF(i, k)>>, built, FALSE) IN
           \E kc \in [S -> Kinds] : CancelInput(i, k, Sorted(S), Total(S, kc))
SConstruct == LET S == CascadeSet(<<>>, TRUE, FALSE) IN
           \E kc \in [S -> Kinds] : Construct(Sorted(S), Total(S, kc))
SCancelAgg == LET S == CascadeSet(<<>>, TRUE, TRUE) IN
           \E kc \in [S -> Kinds] : CancelAgg(Sorted(S), Total(S, kc))

SInit == Init /\ hist = <<>>
SNext == (SFire \/ SCancelInput \/ CancelInputNoopA \/ SConstruct \/ SCancelAgg) /\ hist' = Append(hist, last')
SSpec == SInit /\ [][SNext]_<<vars, hist>>
Emit == TLCGet("level") < Depth \/ PrintT(<<"BEH", ToJson([cfg |-> cfg, hist |-> hist])>>)
Stop == TLCGet("level") <= Depth
=============================================================================
