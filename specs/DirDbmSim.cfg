SPECIFICATION SSpec
CONSTANT Depth = 36
CONSTANT NKeys = 2
CONSTRAINT Emit
CONSTRAINT Stop
CHECK_DEADLOCK FALSE
