SPECIFICATION Spec
CONSTANT MaxBody = 2
CONSTANT Rich = FALSE
VIEW View
INVARIANT AllAnalysable
INVARIANT Inv
INVARIANT IdealAccepted
INVARIANT BuggyRejected
CHECK_DEADLOCK FALSE
