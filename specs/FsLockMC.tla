------------------------------ MODULE FsLockMC ------------------------------
(* Exhaustive TLC runs of the lock protocol (all interleavings of the file-system calls). *)
EXTENDS FsLock, TLC
Cfg(n, s, m) == [n |-> n, stale |-> s, mortal |-> m, parent |-> FALSE]
\* no stale lock can ever exist: nobody dies, no initial stale link
ConfigsSafe2  == {Cfg(n, FALSE, FALSE) : n \in 1..2}
ConfigsSafe3  == {Cfg(n, FALSE, FALSE) : n \in 1..3}
\* a stale lock exists initially and/or holders may die
ConfigsStale2 == {Cfg(2, TRUE, FALSE), Cfg(2, FALSE, TRUE), Cfg(2, TRUE, TRUE)}
ConfigsStale3 == ConfigsStale2 \cup {Cfg(3, TRUE, FALSE), Cfg(3, FALSE, TRUE), Cfg(3, TRUE, TRUE)}
\* liveness: an initial stale link, immortal processes that keep calling lock()/unlock()
ConfigsLive2  == {Cfg(n, TRUE, FALSE) : n \in 1..2}
ConfigsLive3  == {Cfg(n, TRUE, FALSE) : n \in 1..3}
CONSTANT Configs
Init == \E c \in Configs : InitWith(c)
Spec == Init /\ [][Next]_vars
Fair == Spec /\ \A p \in 1..3 : WF_vars(p \in Procs /\ ProcStep(p))
View == <<cfg, link, alive, pc, rd>>
=============================================================================
