SPECIFICATION Spec
CONSTRAINT Bound
VIEW View
CONSTANT Configs <- ConfigsRdT
CONSTANT Ops <- OpsRd
CONSTANT MSizes <- SizesRd
CONSTANT Depth <- DepthRdT
CONSTANT Advs <- AdvsRd
INVARIANT LimitRespected
INVARIANT CountExact
INVARIANT RegExact
INVARIANT TypSane
INVARIANT RelayOnce
INVARIANT OneChain
INVARIANT NoStuckPause
INVARIANT NoSpuriousThrottle
INVARIANT IdsSane
PROPERTY StepProp
CHECK_DEADLOCK FALSE
