SPECIFICATION MCSpec
CONSTANT L = 5
CONSTANT Mode = "main"
VIEW View
INVARIANT Ok
INVARIANT Inv
CHECK_DEADLOCK FALSE
