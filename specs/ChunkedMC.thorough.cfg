SPECIFICATION MCSpec
CONSTANT L = 5
VIEW View
INVARIANT Ok
INVARIANT Inv
CHECK_DEADLOCK FALSE
