----------------------------- MODULE DeferredAbs -----------------------------
(* C01 -- twisted.internet.defer.Deferred: the sequential reference interpreter of
   the documented chaining rules.

   A program is a sequence of top-level operations on Deferreds 1..cfg.nd:
     Add(d, m, ok, err)   addCallback / addErrback / addBoth / addCallbacks
     Fire(d, k, v)        callback(v) (k = "ok") / errback(E_v) (k = "err")
     Pause(d), Unpause(d)
   Each user callback has a scripted behaviour
     <<"pass",0>>     return the argument        <<"ret",v>>      return value v
     <<"raise",e>>    raise E_e                  <<"retfail",e>>  return Failure(E_e)
     <<"retdef",t>>   return Deferred t          <<"thru",0>>     (no user function on this side)
   The documented rules, transcribed:
     R1  a Deferred runs its callbacks, oldest first, as soon as it has a result, is not
         paused and is not waiting for another Deferred; each entry is consumed when run;
         the callback side is chosen by the kind of the current result (Failure -> errback).
     R2  the value returned becomes the result; a raised exception / returned Failure makes
         the result a Failure.
     R3  a callback returning Deferred t: if t has a result and is neither paused nor
         waiting, the outer Deferred takes t's result at once and t is left holding None;
         otherwise the outer Deferred waits for t: it resumes -- with t's result, t again
         left holding None -- after every callback that was on t when the wait began,
         and before any callback added to t later.
     R4  pause()/unpause() nest; callbacks run only at pause count zero.
   Every operation is one atomic action: the recursive operator Run computes the
   invocations (callback id, side, input) it causes and the new state.  Values are small
   ints (0 is None), exception classes small ints.  cfg is a variable (one TLC run covers
   every nd).                                                                         *)
EXTENDS Naturals, Integers, Sequences, FiniteSets

VARIABLES cfg,    \* [nd |-> number of Deferreds]
          res,    \* res[d]: <<"none",0>> | <<"ok",v>> | <<"err",e>> | <<"wait",t>>
          up,     \* up[d]: unmatched user pause() calls
          cbs,    \* cbs[d]: pending entries, oldest first
          nId,    \* callback entries added so far (ids 1..nId, in add order)
          ran,    \* ids of entries consumed by a run
          last    \* observable outcome of the last operation

vars == <<cfg, res, up, cbs, nId, ran, last>>

D == 1..cfg.nd
Thru == <<"thru", 0>>
NoneRes == <<"none", 0>>
PyNone == <<"ok", 0>>

\* entry of a callback list.  cont # 0: "resume Deferred cont" (R3), no user function.
UserEntry(i, m, ok, err) == [id |-> i, m |-> m, ok |-> ok, err |-> err, cont |-> 0]
ContEntry(x) == [id |-> 0, m |-> "cont", ok |-> Thru, err |-> Thru, cont |-> x]

HasResult(r) == r[1] \in {"ok", "err"}
\* st = [res, up, cbs]
Runnable(st, d) == HasResult(st.res[d]) /\ st.up[d] = 0

\* R2: what a behaviour makes of its input (a result pair); <<"def",t>> = returned Deferred t
Outcome(b, in) ==
    CASE b[1] = "pass"    -> in
      [] b[1] = "thru"    -> in
      [] b[1] = "ret"     -> <<"ok", b[2]>>
      [] b[1] = "raise"   -> <<"err", b[2]>>
      [] b[1] = "retfail" -> <<"err", b[2]>>
      [] b[1] = "retdef"  -> <<"def", b[2]>>

SideName(entry, kind) == IF entry.m = "both" THEN "both" ELSE kind

RECURSIVE Run(_, _)
\* Run(st, d): run d's callbacks as far as the rules allow.  Returns [st, inv, ran].
Run(st, d) ==
    IF ~Runnable(st, d) \/ st.cbs[d] = <<>> THEN [st |-> st, inv |-> <<>>, ran |-> {}]
    ELSE
      LET c   == Head(st.cbs[d])
          st1 == [st EXCEPT !.cbs[d] = Tail(@)]
      IN IF c.cont # 0 THEN
           \* R3, second half: hand the result to the waiting Deferred, keep None
           LET x   == c.cont
               st2 == [st1 EXCEPT !.res[x] = st.res[d], !.res[d] = PyNone]
               r1  == Run(st2, x)
               r2  == Run(r1.st, d)
           IN [st |-> r2.st, inv |-> r1.inv \o r2.inv, ran |-> r1.ran \cup r2.ran]
         ELSE
           LET in   == st.res[d]
               b    == IF in[1] = "ok" THEN c.ok ELSE c.err
               out  == Outcome(b, in)
               this == IF b = Thru THEN <<>> ELSE << <<c.id, SideName(c, in[1]), in[1], in[2]>> >>
               st2  == IF out[1] = "def" THEN
                         LET t == out[2] IN
                         IF Runnable(st1, t)
                         THEN [st1 EXCEPT !.res[d] = st1.res[t], !.res[t] = PyNone]
                         ELSE [st1 EXCEPT !.res[d] = <<"wait", t>>,
                                          !.cbs[t] = Append(@, ContEntry(d))]
                       ELSE [st1 EXCEPT !.res[d] = out]
               r    == Run(st2, d)
           IN [st |-> r.st, inv |-> this \o r.inv, ran |-> {c.id} \cup r.ran]

St == [res |-> res, up |-> up, cbs |-> cbs]

Commit(r, ev) ==
    /\ res' = r.st.res /\ up' = r.st.up /\ cbs' = r.st.cbs
    /\ ran' = ran \cup r.ran
    /\ last' = [ev EXCEPT !.inv = r.inv]

InitWith(c) ==
    /\ cfg = c
    /\ res = [d \in 1..c.nd |-> NoneRes]
    /\ up = [d \in 1..c.nd |-> 0]
    /\ cbs = [d \in 1..c.nd |-> <<>>]
    /\ nId = 0 /\ ran = {}
    /\ last = [e |-> "init", d |-> 0, inv |-> <<>>, exc |-> ""]

\* behaviours a program may script; a callback never returns the Deferred it is attached to
ValidBeh(d, b) == b[1] = "retdef" => (b[2] \in D /\ b[2] # d)

\* Add(d, m, ok, err): one of the four add* methods.  m \in {"cb","eb","both","cbs"}.
\* (The operations take the runner R as a parameter only so that DeferredKnown.tla, which
\*  classifies already-rejected executions, can reuse them; the interpreter uses Run.)
AddWith(R(_, _), d, m, ok, err) ==
    /\ d \in D /\ ValidBeh(d, ok) /\ ValidBeh(d, err)
    /\ CASE m = "cb"   -> ok # Thru /\ err = Thru
         [] m = "eb"   -> ok = Thru /\ err # Thru
         [] m = "both" -> ok # Thru /\ err = ok
         [] m = "cbs"  -> ok # Thru /\ err # Thru
    /\ nId' = nId + 1
    /\ LET st0 == [St EXCEPT !.cbs[d] = Append(@, UserEntry(nId + 1, m, ok, err))]
       IN Commit(R(st0, d), [e |-> "add", d |-> d, m |-> m, ok |-> ok, err |-> err, inv |-> <<>>, exc |-> ""])
    /\ UNCHANGED cfg

\* callback(v) / errback(E_v) on a Deferred that has not been fired
FireWith(R(_, _), d, k, v) ==
    /\ d \in D /\ res[d] = NoneRes /\ k \in {"ok", "err"}
    /\ LET st0 == [St EXCEPT !.res[d] = <<k, v>>]
       IN Commit(R(st0, d), [e |-> "fire", d |-> d, k |-> k, v |-> v, inv |-> <<>>, exc |-> ""])
    /\ UNCHANGED <<cfg, nId>>

Pause(d) ==
    /\ d \in D
    /\ up' = [up EXCEPT ![d] = @ + 1]
    /\ last' = [e |-> "pause", d |-> d, inv |-> <<>>, exc |-> ""]
    /\ UNCHANGED <<cfg, res, cbs, nId, ran>>

UnpauseWith(R(_, _), d) ==
    /\ d \in D /\ up[d] > 0
    /\ LET st0 == [St EXCEPT !.up[d] = @ - 1]
       IN Commit(R(st0, d), [e |-> "unpause", d |-> d, inv |-> <<>>, exc |-> ""])
    /\ UNCHANGED <<cfg, nId>>

\* the operations of the reference interpreter
Add(d, m, ok, err) == AddWith(Run, d, m, ok, err)
Fire(d, k, v)      == FireWith(Run, d, k, v)
Unpause(d)         == UnpauseWith(Run, d)

-----------------------------------------------------------------------------
(* The property as invariants of the interpreter. *)
Range(s) == {s[i] : i \in 1..Len(s)}
PendingIds(d) == {cbs[d][i].id : i \in {j \in 1..Len(cbs[d]) : cbs[d][j].cont = 0}}
AllPending == UNION {PendingIds(d) : d \in D}

\* every callback entry is either still pending (exactly once, on one Deferred) or has run -- never both
AtMostOnce ==
    /\ AllPending \cap ran = {}
    /\ AllPending \cup ran = 1..nId
    /\ \A d1, d2 \in D : d1 # d2 => PendingIds(d1) \cap PendingIds(d2) = {}
    /\ \A d \in D : \A i, j \in 1..Len(cbs[d]) :
           (i # j /\ cbs[d][i].cont = 0 /\ cbs[d][j].cont = 0) => cbs[d][i].id # cbs[d][j].id
\* pending entries are in add order; what an operation ran was run in add order per Deferred
AddOrder ==
    \A d \in D : \A i, j \in 1..Len(cbs[d]) :
        (i < j /\ cbs[d][i].cont = 0 /\ cbs[d][j].cont = 0) => cbs[d][i].id < cbs[d][j].id
\* R1: after every operation, a Deferred that can run has nothing left to run
Quiescent == \A d \in D : (HasResult(res[d]) /\ up[d] = 0) => cbs[d] = <<>>
\* R3: d waits for t  <=>  exactly one resume entry for d, and it is on t
Holders(d) == UNION {{<<t, i>> : i \in {j \in 1..Len(cbs[t]) : cbs[t][j].cont = d}} : t \in D}
WaitConsistent ==
    \A d \in D :
        IF res[d][1] = "wait"
        THEN \E i \in 1..Len(cbs[res[d][2]]) : Holders(d) = {<<res[d][2], i>>}
        ELSE Holders(d) = {}
\* invocation inputs are results (never a Deferred, never "no result")
InputsAreResults == \A i \in 1..Len(last.inv) : last.inv[i][3] \in {"ok", "err"}
LastRanOnce == \A i, j \in 1..Len(last.inv) : i # j => last.inv[i][1] # last.inv[j][1]

Inv == AtMostOnce /\ AddOrder /\ Quiescent /\ WaitConsistent /\ InputsAreResults /\ LastRanOnce
=============================================================================
