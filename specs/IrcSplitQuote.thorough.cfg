SPECIFICATION Spec
CONSTANT MaxLen = 6
CONSTANT MaxAvail = 0
CONSTANT Mode = "quote"
CONSTANT MaxMsgs = 2
CONSTANT Kinds = {"msg"}
INVARIANT QuoteOK
INVARIANT QuoteClean
CHECK_DEADLOCK FALSE
