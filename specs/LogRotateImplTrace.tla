-------------------------- MODULE LogRotateImplTrace --------------------------
(* C53 Impl binding (drift detector, never a verdict): the complete event sequence of a
   real execution, including every mutating file-system call, must be a behaviour of
   LogRotateImpl, and every directory listing must equal the model directory.        *)
EXTENDS LogRotateImpl, TLC, Json, IOUtils

Traces == JsonDeserialize(IOEnv.TRACE_FILE)
VARIABLES tid, l
ASSUME \A t \in 1..Len(Traces) : TLCSet(t, 1)

T == Traces[tid]
E == T.ev[l]

TInit == /\ tid \in 1..Len(Traces) /\ l = 1
         /\ ImplInitWith([L |-> Traces[tid].cfg.L, N |-> Traces[tid].cfg.N])

Step(A) == /\ l <= Len(T.ev) /\ A /\ l' = l + 1 /\ UNCHANGED tid

FsStep == RotStep \/ RotMove \/ RotOpen \/ Data \/ RestartCreate

TNext == \/ (E.e = "write" /\ Step(IWrite(E.c, E.sz, E.tsz)))
         \/ (E.e = "ret" /\ E.res = "ok" /\ Step(Ret))
         \/ (E.e = "crash" /\ Step(ICrash))
         \/ (E.e = "restart" /\ Step(IRestart))
         \/ (E.e = "reopen" /\ Step(IReopen))
         \/ (E.e = "view" /\ E.v = DirView(dir) /\ Step(IView))
         \/ (E.e = "fs" /\ Step(FsStep /\ last' = [e |-> "fs", op |-> E.op, a |-> E.a, b |-> E.b, v |-> E.v, cls |-> E.cls, ok |-> E.ok]))

TSpec == TInit /\ [][l <= Len(T.ev) /\ TNext]_<<vars, tid, l>>

Progress == TLCSet(tid, IF TLCGet(tid) > l THEN TLCGet(tid) ELSE l)
Rejected == {<<t, TLCGet(t)>> : t \in {u \in 1..Len(Traces) : TLCGet(u) # Len(Traces[u].ev) + 1}}
Accepted == Rejected = {} \/ (PrintT(<<"REJECTED", Rejected>>) /\ FALSE)
=============================================================================
