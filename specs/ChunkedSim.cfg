SPECIFICATION SSpec
CONSTANT L = 8
CONSTANT Mode = "main"
CONSTANT Depth = 12
CONSTRAINT Emit
CONSTRAINT Stop
CHECK_DEADLOCK FALSE
