SPECIFICATION SSpec
CONSTANT Depth = 12
CONSTANT MaxD = 4
CONSTANT MaxPause = 2
CONSTANT Plain <- PlainFull
CONSTANT CbsOk <- CbsErrFull
CONSTANT CbsErr <- CbsErrFull
CONSTRAINT Emit
CONSTRAINT Stop
CHECK_DEADLOCK FALSE
