----------------------------- MODULE ThreePhase -----------------------------
(* C12 -- system event triggers (twisted.internet.base._ThreePhaseEvent and
   ReactorBase.addSystemEventTrigger / removeSystemEventTrigger / fireSystemEvent).

   State = what the property talks about: which triggers are registered for which
   phase (in registration order), which have been removed, which have run and in
   which order, which Deferreds returned by before-triggers are still unfired.
   Triggers are numbered in registration order (ids 1..nT); a trigger's behaviour
   when called is its kind:
       "plain"   returns None            "raise"  raises an exception
       "defer"   returns a Deferred that the environment fires later (callback or errback)
       "fired"   returns an already fired Deferred
   One action per public call outcome.  A public call runs triggers synchronously;
   its observable is the sequence of trigger ids it ran.

   Where the property is silent the specification is nondeterministic: the result of
   removing a trigger that is no longer registered (the code raises ValueError, or
   only warns while a firing is in progress).  Overlapping firings of the same event
   (fireSystemEvent while Deferreds of a previous firing are outstanding) are outside
   the property and are not generated.                                           *)
EXTENDS Naturals, Sequences, FiniteSets

VARIABLES cfg,      \* [api |-> "raw" | "reactor"]   (which public API the execution used)
          before, during, after,   \* registered, not yet run: sequences of trigger ids
          kind,     \* sequence: kind[id]
          phase,    \* sequence: phase[id] \in {"before","during","after"}
          nT,       \* triggers registered so far
          state,    \* "Base" | "Waiting" (before-phase done, Deferreds outstanding)
          pend,     \* ids of before-triggers whose Deferred has not fired (current firing)
          loose,    \* ids of during/after "defer" triggers that ran: their Deferreds are ignored
          ran,      \* every trigger run so far, in order (all firings)
          cur,      \* triggers run by the current / most recent firing, in order
          removed,  \* ids removed while still registered
          last      \* observable outcome of the last public call

vars == <<cfg, before, during, after, kind, phase, nT, state, pend, loose, ran, cur, removed, last>>

Phases == {"before", "during", "after"}
Kinds  == {"plain", "raise", "defer", "fired"}

InitWith(c) ==
    /\ cfg = c
    /\ before = <<>> /\ during = <<>> /\ after = <<>>
    /\ kind = <<>> /\ phase = <<>> /\ nT = 0
    /\ state = "Base" /\ pend = {} /\ loose = {}
    /\ ran = <<>> /\ cur = <<>> /\ removed = {}
    /\ last = [e |-> "init"]

Range(s) == {s[i] : i \in 1..Len(s)}
Without(s, x) == SelectSeq(s, LAMBDA y : y # x)
Defers(s) == {s[i] : i \in {j \in 1..Len(s) : kind[s[j]] = "defer"}}
Registered == Range(before) \cup Range(during) \cup Range(after)

(* addTrigger / addSystemEventTrigger: always succeeds, in any state. *)
Add(ph, k) ==
    /\ ph \in Phases /\ k \in Kinds
    /\ nT' = nT + 1
    /\ kind' = Append(kind, k) /\ phase' = Append(phase, ph)
    /\ before' = IF ph = "before" THEN Append(before, nT + 1) ELSE before
    /\ during' = IF ph = "during" THEN Append(during, nT + 1) ELSE during
    /\ after'  = IF ph = "after"  THEN Append(after,  nT + 1) ELSE after
    /\ last' = [e |-> "add", ph |-> ph, k |-> k, id |-> nT + 1]
    /\ UNCHANGED <<cfg, state, pend, loose, ran, cur, removed>>

(* removeTrigger of a trigger that is still registered: it will not run. *)
RemoveOk(h) ==
    /\ h \in Registered
    /\ before' = Without(before, h) /\ during' = Without(during, h) /\ after' = Without(after, h)
    /\ removed' = removed \cup {h}
    /\ last' = [e |-> "remove", h |-> h, res |-> "ok"]
    /\ UNCHANGED <<cfg, kind, phase, nT, state, pend, loose, ran, cur>>

(* removeTrigger of a trigger that already ran or was already removed: nothing
   changes; the property does not say what the call reports. *)
RemoveGone(h, r) ==
    /\ h \in 1..nT /\ h \notin Registered
    /\ r \in {"ok", "ValueError"}
    /\ last' = [e |-> "remove", h |-> h, res |-> r]
    /\ UNCHANGED <<cfg, before, during, after, kind, phase, nT, state, pend, loose, ran, cur, removed>>

(* fireEvent / fireSystemEvent: all before-triggers in registration order; if none of
   them returned an unfired Deferred, the during- and then the after-triggers follow
   in the same call.  Exceptions raised by triggers do not escape and stop nothing. *)
Fire ==
    /\ state = "Base"
    /\ LET waitFor == Defers(before)
           now == IF waitFor = {} THEN before \o during \o after ELSE before
       IN /\ pend' = waitFor
          /\ state' = IF waitFor = {} THEN "Base" ELSE "Waiting"
          /\ before' = <<>>
          /\ during' = IF waitFor = {} THEN <<>> ELSE during
          /\ after'  = IF waitFor = {} THEN <<>> ELSE after
          /\ loose' = IF waitFor = {} THEN loose \cup Defers(during \o after) ELSE loose
          /\ ran' = ran \o now
          /\ cur' = now
          /\ last' = [e |-> "fire", res |-> "ok", ran |-> now, fin |-> (waitFor = {})]
    /\ UNCHANGED <<cfg, kind, phase, nT, removed>>

(* The environment fires (callback or errback) the Deferred returned by before-trigger d.
   The last one to fire lets the during- and after-triggers run, inside that call. *)
FireDeferred(d, how) ==
    /\ d \in pend /\ how \in {"ok", "err"}
    /\ LET left == pend \ {d}
           now == IF left = {} THEN during \o after ELSE <<>>
       IN /\ pend' = left
          /\ state' = IF left = {} THEN "Base" ELSE "Waiting"
          /\ during' = IF left = {} THEN <<>> ELSE during
          /\ after'  = IF left = {} THEN <<>> ELSE after
          /\ loose' = IF left = {} THEN loose \cup Defers(during \o after) ELSE loose
          /\ ran' = ran \o now
          /\ cur' = cur \o now
          /\ last' = [e |-> "fired", d |-> d, how |-> how, res |-> "ok", ran |-> now, fin |-> (left = {})]
    /\ UNCHANGED <<cfg, before, kind, phase, nT, removed>>

(* Deferreds returned by during/after triggers are ignored: firing one runs nothing. *)
FireLoose(d, how) ==
    /\ d \in loose /\ how \in {"ok", "err"}
    /\ loose' = loose \ {d}
    /\ last' = [e |-> "fired", d |-> d, how |-> how, res |-> "ok", ran |-> <<>>, fin |-> FALSE]
    /\ UNCHANGED <<cfg, before, during, after, kind, phase, nT, state, pend, ran, cur, removed>>

Next == \/ \E ph \in Phases, k \in Kinds : Add(ph, k)
        \/ \E h \in 1..nT : RemoveOk(h)
        \/ \E h \in 1..nT, r \in {"ok", "ValueError"} : RemoveGone(h, r)
        \/ Fire
        \/ \E d \in pend, how \in {"ok", "err"} : FireDeferred(d, how)
        \/ \E d \in loose, how \in {"ok", "err"} : FireLoose(d, how)

-----------------------------------------------------------------------------
(* The property, as invariants over the run history. *)
PhaseNo(id) == IF phase[id] = "before" THEN 1 ELSE IF phase[id] = "during" THEN 2 ELSE 3

ExactlyOnce ==      \* no trigger runs twice (over all firings)
    \A i, j \in 1..Len(ran) : i # j => ran[i] # ran[j]

OnlyRemaining ==    \* a removed trigger never runs; only registered triggers run
    /\ Range(ran) \cap removed = {}
    /\ Range(ran) \subseteq 1..nT

Accounted ==        \* every trigger is exactly one of: still registered, removed, run
    /\ \A id \in 1..nT : (IF id \in Registered THEN 1 ELSE 0) + (IF id \in removed THEN 1 ELSE 0)
                         + (IF id \in Range(ran) THEN 1 ELSE 0) = 1
    /\ Len(before) + Len(during) + Len(after) = Cardinality(Registered)
    /\ \A id \in Range(before) : phase[id] = "before"
    /\ \A id \in Range(during) : phase[id] = "during"
    /\ \A id \in Range(after)  : phase[id] = "after"

PhaseOrder ==       \* within a firing: before, then during, then after; registration order inside a phase
    \A i, j \in 1..Len(cur) : i < j =>
        \/ PhaseNo(cur[i]) < PhaseNo(cur[j])
        \/ (PhaseNo(cur[i]) = PhaseNo(cur[j]) /\ cur[i] < cur[j])

DeferredGate ==     \* no during/after trigger runs while a before-trigger's Deferred is unfired
    /\ (state = "Waiting") = (pend # {})
    /\ pend # {} => \A i \in 1..Len(cur) : phase[cur[i]] = "before"
    /\ pend \subseteq {id \in Range(cur) : kind[id] = "defer" /\ phase[id] = "before"}

Complete ==         \* a finished firing leaves no during/after trigger behind; a fire call no before-trigger
    /\ (last.e \in {"fire", "fired"} /\ last.fin) => (state = "Base" /\ during = <<>> /\ after = <<>>)
    /\ last.e = "fire" => before = <<>>

Inv == ExactlyOnce /\ OnlyRemaining /\ Accounted /\ PhaseOrder /\ DeferredGate /\ Complete
=============================================================================
