----------------------------- MODULE ThreePhase -----------------------------
(* C12 -- system event triggers (twisted.internet.base._ThreePhaseEvent and
   ReactorBase.addSystemEventTrigger / removeSystemEventTrigger / fireSystemEvent).

   State = what the property talks about: which triggers are registered for which
   phase (in registration order), which have been removed, which have run and in
   which order, which Deferreds returned by before-triggers are still unfired.
   Triggers are numbered in registration order (ids 1..nT).  A trigger's behaviour
   when called is its kind, a record [ret, acts]:
     ret   "plain" returns None, "raise" raises, "defer" returns a Deferred that the
           environment fires later (callback or errback), "fired" returns a fired Deferred,
           "chained" returns a Deferred that has been called but whose result is an unfired inner
           Deferred (it has not fired until the environment fires the inner one), "paused" returns
           a called but paused Deferred (it fires when the environment unpauses it)
     acts  what the trigger does, while it runs, to the event it belongs to, before it
           returns/raises: a sequence of
             [op |-> "add", ph, ret, more]  register a new trigger (kind [ret, more]) for phase ph
             [op |-> "rm", h]               remove trigger h (if such a trigger was ever registered)
           (all act records carry the fields op, ph, ret, h, more; unused ones are "-", 0, <<>>).
   One action per public call outcome.  A public call runs triggers synchronously; its
   observable is the sequence of trigger ids it ran (ran) and what the triggers' own
   registrations/removals reported (sub).

   Registration while the event is firing (the property: "for any registration and
   removal ... every remaining trigger exactly once ... in registration order"):
   a trigger registered for the phase that is running, or for a later phase, runs in
   this firing, after the earlier-registered triggers of that phase; a trigger
   registered for a phase that is already over stays registered for the next firing;
   a pending trigger removed by a running trigger does not run.

   Where the property is silent the specification is nondeterministic: the result of
   removing a trigger that is no longer registered (the code raises ValueError, or
   only warns while a firing is in progress).  Overlapping firings of the same event
   (fireSystemEvent while Deferreds of a previous firing are outstanding) are outside
   the property and are not generated.                                           *)
EXTENDS Naturals, Sequences, FiniteSets

VARIABLES cfg,      \* [api |-> "raw" | "reactor"]   (which public API the execution used)
          before, during, after,   \* registered, not yet run: sequences of trigger ids
          kind,     \* sequence: kind[id] = [ret, acts]
          phase,    \* sequence: phase[id] \in {"before","during","after"}
          nT,       \* triggers registered so far
          state,    \* "Base" | "Waiting" (before-phase done, Deferreds outstanding)
          pend,     \* ids of before-triggers whose Deferred has not fired (current firing)
          loose,    \* ids of during/after "defer" triggers that ran: their Deferreds are ignored
          ran,      \* every trigger run so far, in order (all firings)
          cur,      \* triggers run by the current / most recent firing, in order
          removed,  \* ids removed while still registered
          last      \* observable outcome of the last public call

vars == <<cfg, before, during, after, kind, phase, nT, state, pend, loose, ran, cur, removed, last>>

Phases == {"before", "during", "after"}
Rets   == {"plain", "raise", "defer", "fired", "chained", "paused"}
Unfired(r) == r \in {"defer", "chained", "paused"}   \* returns a Deferred that has not fired yet
K(r)   == [ret |-> r, acts |-> <<>>]            \* a trigger that does nothing to the event

InitWith(c) ==
    /\ cfg = c
    /\ before = <<>> /\ during = <<>> /\ after = <<>>
    /\ kind = <<>> /\ phase = <<>> /\ nT = 0
    /\ state = "Base" /\ pend = {} /\ loose = {}
    /\ ran = <<>> /\ cur = <<>> /\ removed = {}
    /\ last = [e |-> "init"]

Range(s) == {s[i] : i \in 1..Len(s)}
Without(s, x) == SelectSeq(s, LAMBDA y : y # x)
Defers(s) == {s[i] : i \in {j \in 1..Len(s) : Unfired(kind[s[j]].ret)}}
Registered == Range(before) \cup Range(during) \cup Range(after)

PhaseNo(ph) == IF ph = "before" THEN 1 ELSE IF ph = "during" THEN 2 ELSE 3
WellFormed(k) == k.ret \in Rets      \* (acts are interpreted below; any sequence of act records is a behaviour)

(* addTrigger / addSystemEventTrigger from outside a firing call: always succeeds, in any state. *)
Add(ph, k) ==
    /\ ph \in Phases /\ WellFormed(k)
    /\ nT' = nT + 1
    /\ kind' = Append(kind, k) /\ phase' = Append(phase, ph)
    /\ before' = IF ph = "before" THEN Append(before, nT + 1) ELSE before
    /\ during' = IF ph = "during" THEN Append(during, nT + 1) ELSE during
    /\ after'  = IF ph = "after"  THEN Append(after,  nT + 1) ELSE after
    /\ last' = [e |-> "add", ph |-> ph, k |-> k, id |-> nT + 1]
    /\ UNCHANGED <<cfg, state, pend, loose, ran, cur, removed>>

(* removeTrigger of a trigger that is still registered: it will not run. *)
RemoveOk(h) ==
    /\ h \in Registered
    /\ before' = Without(before, h) /\ during' = Without(during, h) /\ after' = Without(after, h)
    /\ removed' = removed \cup {h}
    /\ last' = [e |-> "remove", h |-> h, res |-> "ok"]
    /\ UNCHANGED <<cfg, kind, phase, nT, state, pend, loose, ran, cur>>

(* removeTrigger of a trigger that already ran or was already removed: nothing
   changes; the property does not say what the call reports. *)
RemoveGone(h, r) ==
    /\ h \in 1..nT /\ h \notin Registered
    /\ r \in {"ok", "ValueError"}
    /\ last' = [e |-> "remove", h |-> h, res |-> r]
    /\ UNCHANGED <<cfg, before, during, after, kind, phase, nT, state, pend, loose, ran, cur, removed>>

-----------------------------------------------------------------------------
(* Running triggers.  A run works on a record st of everything a running trigger can
   change: the three lists, kind/phase/nT (new registrations), removed, and what the
   call has observed so far: ran, sub (results of the triggers' own registrations and
   removals), waits / ign (Deferreds returned by before / other triggers), late (ids
   registered for a phase that was already over). *)
StOf == [before |-> before, during |-> during, after |-> after, kind |-> kind, phase |-> phase,
         nT |-> nT, removed |-> removed, ran |-> <<>>, sub |-> <<>>, waits |-> {}, ign |-> {}, late |-> {}]

RECURSIVE ApplyActs(_, _, _, _)
ApplyActs(st, by, acts, running) ==      \* running = the phase whose triggers are being run
    IF acts = <<>> THEN st
    ELSE LET a == Head(acts)
             id == st.nT + 1
             reg == Range(st.before) \cup Range(st.during) \cup Range(st.after)
             st2 ==
               IF a.op = "add" THEN
                   [st EXCEPT ![a.ph] = Append(@, id),
                              !.kind = Append(@, [ret |-> a.ret, acts |-> a.more]),
                              !.phase = Append(@, a.ph),
                              !.nT = id,
                              !.late = IF PhaseNo(a.ph) < PhaseNo(running) THEN @ \cup {id} ELSE @,
                              !.sub = Append(@, [by |-> by, op |-> "add", x |-> id, res |-> "ok"])]
               ELSE IF a.h \in reg THEN
                   [st EXCEPT !.before = Without(@, a.h), !.during = Without(@, a.h), !.after = Without(@, a.h),
                              !.removed = @ \cup {a.h},
                              !.sub = Append(@, [by |-> by, op |-> "rm", x |-> a.h, res |-> "ok"])]
               ELSE [st EXCEPT !.sub = Append(@, [by |-> by, op |-> "rm", x |-> a.h,
                                                   res |-> IF a.h \in 1..st.nT THEN "gone" ELSE "nohandle"])]
         IN ApplyActs(st2, by, Tail(acts), running)

RECURSIVE RunList(_, _)
RunList(st, which) ==        \* run the triggers of one phase until none is left (new ones included)
    IF st[which] = <<>> THEN st
    ELSE LET t == Head(st[which])
             st1 == [st EXCEPT ![which] = Tail(@), !.ran = Append(@, t)]
             st2 == ApplyActs(st1, t, st.kind[t].acts, which)
             st3 == IF Unfired(st.kind[t].ret)
                    THEN (IF which = "before" THEN [st2 EXCEPT !.waits = @ \cup {t}] ELSE [st2 EXCEPT !.ign = @ \cup {t}])
                    ELSE st2
         IN RunList(st3, which)

RunRest(st) == RunList(RunList(st, "during"), "after")

\* what removal of a no longer registered trigger by a running trigger reports is free (as for RemoveGone)
SubMatches(pred, logged) ==
    /\ Len(pred) = Len(logged)
    /\ \A i \in 1..Len(pred) :
          /\ pred[i].by = logged[i].by /\ pred[i].op = logged[i].op /\ pred[i].x = logged[i].x
          /\ IF pred[i].res = "gone" THEN logged[i].res \in {"ok", "ValueError"} ELSE pred[i].res = logged[i].res

Commit(st) ==      \* the part of a run's result that is state
    /\ before' = st.before /\ during' = st.during /\ after' = st.after
    /\ kind' = st.kind /\ phase' = st.phase /\ nT' = st.nT /\ removed' = st.removed
    /\ ran' = ran \o st.ran

(* fireEvent / fireSystemEvent: all before-triggers in registration order; if none of
   them returned an unfired Deferred, the during- and then the after-triggers follow
   in the same call.  Exceptions raised by triggers do not escape and stop nothing. *)
Fire ==
    /\ state = "Base"
    /\ LET s1 == RunList(StOf, "before")
           st == IF s1.waits = {} THEN RunRest(s1) ELSE s1
       IN /\ Commit(st)
          /\ pend' = s1.waits
          /\ state' = IF s1.waits = {} THEN "Base" ELSE "Waiting"
          /\ loose' = loose \cup st.ign
          /\ cur' = st.ran
          /\ last' = [e |-> "fire", res |-> "ok", ran |-> st.ran, sub |-> st.sub, fin |-> (s1.waits = {}), late |-> st.late]
    /\ UNCHANGED cfg

(* The environment fires (callback or errback) the Deferred returned by before-trigger d.
   The last one to fire lets the during- and after-triggers run, inside that call. *)
FireDeferred(d, how) ==
    /\ d \in pend /\ how \in {"ok", "err"}
    /\ LET left == pend \ {d}
           st == IF left = {} THEN RunRest(StOf) ELSE StOf
       IN /\ Commit(st)
          /\ pend' = left
          /\ state' = IF left = {} THEN "Base" ELSE "Waiting"
          /\ loose' = loose \cup st.ign
          /\ cur' = cur \o st.ran
          /\ last' = [e |-> "fired", d |-> d, how |-> how, res |-> "ok", ran |-> st.ran, sub |-> st.sub,
                      fin |-> (left = {}), late |-> st.late]
    /\ UNCHANGED cfg

(* Deferreds returned by during/after triggers are ignored: firing one runs nothing. *)
FireLoose(d, how) ==
    /\ d \in loose /\ how \in {"ok", "err"}
    /\ loose' = loose \ {d}
    /\ last' = [e |-> "fired", d |-> d, how |-> how, res |-> "ok", ran |-> <<>>, sub |-> <<>>, fin |-> FALSE, late |-> {}]
    /\ UNCHANGED <<cfg, before, during, after, kind, phase, nT, state, pend, ran, cur, removed>>

\* (the design spec has no Next of its own: kinds are an unbounded space; see ThreePhaseMC / ThreePhaseSim)

-----------------------------------------------------------------------------
(* The property, as invariants over the run history. *)
PhaseOf(id) == PhaseNo(phase[id])

ExactlyOnce ==      \* no trigger runs twice (over all firings)
    \A i, j \in 1..Len(ran) : i # j => ran[i] # ran[j]

OnlyRemaining ==    \* a removed trigger never runs; only registered triggers run
    /\ Range(ran) \cap removed = {}
    /\ Range(ran) \subseteq 1..nT

Accounted ==        \* every trigger is exactly one of: still registered, removed, run
    /\ \A id \in 1..nT : (IF id \in Registered THEN 1 ELSE 0) + (IF id \in removed THEN 1 ELSE 0)
                         + (IF id \in Range(ran) THEN 1 ELSE 0) = 1
    /\ Len(before) + Len(during) + Len(after) = Cardinality(Registered)
    /\ \A id \in Range(before) : phase[id] = "before"
    /\ \A id \in Range(during) : phase[id] = "during"
    /\ \A id \in Range(after)  : phase[id] = "after"

PhaseOrder ==       \* within a firing: before, then during, then after; registration order inside a phase
    \A i, j \in 1..Len(cur) : i < j =>
        \/ PhaseOf(cur[i]) < PhaseOf(cur[j])
        \/ (PhaseOf(cur[i]) = PhaseOf(cur[j]) /\ cur[i] < cur[j])

DeferredGate ==     \* no during/after trigger runs while a before-trigger's Deferred is unfired
    /\ (state = "Waiting") = (pend # {})
    /\ pend # {} => \A i \in 1..Len(cur) : phase[cur[i]] = "before"
    /\ pend \subseteq {id \in Range(cur) : Unfired(kind[id].ret) /\ phase[id] = "before"}

Complete ==         \* a finished firing leaves behind only triggers registered, during it, for a phase already over
    /\ (last.e \in {"fire", "fired"} /\ last.fin) =>
           (state = "Base" /\ (Range(during) \cup Range(after)) \subseteq last.late)
    /\ last.e = "fire" => Range(before) \subseteq last.late

Inv == ExactlyOnce /\ OnlyRemaining /\ Accounted /\ PhaseOrder /\ DeferredGate /\ Complete
=============================================================================
