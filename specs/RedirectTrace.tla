---------------------------- MODULE RedirectTrace ----------------------------
(* Batched trace validation: every recorded run of the real RedirectAgent /
   BrowserLikeRedirectAgent over the recording inner agent must be a behaviour of Redirect,
   with every logged field matching.  Events: "req" (a request reached the inner agent:
   method, parsed URI, sensitive header names present), "resp" (what the inner agent answered),
   "done" (how the wrapper's Deferred fired).                                               *)
EXTENDS Redirect, TLC, Json, IOUtils

Traces == JsonDeserialize(IOEnv.TRACE_FILE)
VARIABLES tid, l
ASSUME \A t \in 1..Len(Traces) : TLCSet(t, 1)

T == Traces[tid]
E == T.ev[l]
ToSet(s) == {s[i] : i \in DOMAIN s}

TInit == /\ tid \in 1..Len(Traces) /\ l = 1
         /\ InitWith([agent |-> Traces[tid].cfg.agent, limit |-> Traces[tid].cfg.limit, method |-> Traces[tid].cfg.method,
                      uri |-> Traces[tid].cfg.uri, given |-> ToSet(Traces[tid].cfg.given)])

Step(A) == /\ l <= Len(T.ev) /\ A /\ Inv' /\ l' = l + 1 /\ UNCHANGED tid

MatchReq == /\ last'.method = E.method /\ last'.uri = E.uri /\ last'.sens = ToSet(E.sens)
            /\ Cardinality(ToSet(E.sens)) = Len(E.sens)
MatchDone == last'.res = E.res /\ last'.code = E.code

TNext == \/ (E.e = "req" /\ Step((Start \/ Follow(ToSet(E.sens))) /\ MatchReq))
         \/ (E.e = "resp" /\ Step(Respond(E.code, E.loc)))
         \/ (E.e = "done" /\ Step((FinishOk \/ FinishFail) /\ MatchDone))

TSpec == TInit /\ [][l <= Len(T.ev) /\ TNext]_<<vars, tid, l>>

Progress == TLCSet(tid, IF TLCGet(tid) > l THEN TLCGet(tid) ELSE l)
Rejected == {<<t, TLCGet(t)>> : t \in {u \in 1..Len(Traces) : TLCGet(u) # Len(Traces[u].ev) + 1}}
Accepted == Rejected = {} \/ (PrintT(<<"REJECTED", Rejected>>) /\ FALSE)
=============================================================================
