SPECIFICATION Spec
CONSTANT Budget = 3
CONSTANT MaxField = 2
CONSTANT NegControl = FALSE
CONSTANT Rich = FALSE
VIEW View
INVARIANT OracleAccepts
INVARIANT OracleRejects
CHECK_DEADLOCK FALSE
