----------------------------- MODULE HttpClient -----------------------------
(* C23 -- HTTP client completes every request exactly once with the exact body.

   Abs layer.  State = what the property talks about:
     the response stream the server sends (cfg.stream, octets), how much of it has
     been delivered to the client (consumed), whether the connection was lost,
     the request Deferred (unfired | response | failure), whether a body consumer
     is attached, the octets passed to its dataReceived, and how often / with what
     reason class its connectionLost was called.
   The reference analysis An (computed once from the stream with the parser of
   HttpMsgSyntax: interim 1xx responses skipped, RFC 9112 6.3 framing) says where
   the head of the final response ends, which stream positions are body octets and
   where the message is complete; so "headers complete", "body bytes received" and
   "whole body arrived" are functions of the consumed prefix, and segmentation
   cannot matter.

   Actions = what the environment does (deliver k more octets, lose the
   connection, call deliverBody later) together with the callbacks observed during
   that call (obs).  An action is enabled only if the observed callbacks are
   allowed:
     * the request Deferred fires exactly once: with the response during the
       delivery that completes the head of the final response, otherwise with a
       failure when the connection is lost;
     * consumer data is, at every moment, a prefix of the body octets received, and
       equals them once the consumer's connectionLost has been called;
     * consumer connectionLost is called at most once, and exactly once by the time
       the connection is lost (or deliverBody is called after that): ResponseDone
       iff the whole body arrived, PotentialDataLoss iff the body is close-delimited,
       any other class for a truncated body.  The property does not say how soon
       after the last body octet ResponseDone is reported, so it may come with any
       later event.
   cfg = [stream, head (request method was HEAD), dbody ("now": deliverBody is
   called in the Deferred's callback; "later": by a separate call; "never")].     *)
EXTENDS HttpMsgSyntax

VARIABLES cfg, an, started, consumed, lostConn, reqD, att, del, lc, lr, last
vars == <<cfg, an, started, consumed, lostConn, reqD, att, del, lc, lr, last>>

-----------------------------------------------------------------------------
(* Reference analysis of a complete response stream. *)
Range1(a, b) == [i \in 1..(IF b >= a THEN b - a + 1 ELSE 0) |-> a + i - 1]
RECURSIVE SegPositions(_, _)
SegPositions(segs, i) == IF i > Len(segs) THEN <<>> ELSE Range1(segs[i][1], segs[i][1] + segs[i][2] - 1) \o SegPositions(segs, i + 1)

RECURSIVE AnalyseFrom(_, _, _, _)
AnalyseFrom(w, p, isHead, depth) ==
    LET hl == HeadLines(w, p, <<>>)
    IN IF ~hl.ok THEN hl
       ELSE IF \E k \in 1..Len(hl.lines) : \E i \in 1..Len(hl.lines[k]) : IsLineBreakOctet(hl.lines[k][i]) THEN Bad("bare-CR-or-LF-in-head")
       ELSE LET s == StatusLine(hl.lines[1])
                fl == [k \in 1..(Len(hl.lines) - 1) |-> FieldLine(hl.lines[k + 1])]
            IN IF ~s.ok THEN s
               ELSE IF \E k \in 1..Len(fl) : ~fl[k].ok THEN Bad("field-line")
               ELSE IF s.code \in 100..199
                    THEN IF depth >= 3 THEN Bad("too-many-interim-responses") ELSE AnalyseFrom(w, hl.body, isHead, depth + 1)
               ELSE LET hs == [k \in 1..Len(fl) |-> <<fl[k].n, fl[k].v>>]
                        te == HdrVals(hs, NTransferEncoding)
                        cl == HdrVals(hs, NContentLength)
                        hdrEnd == hl.body - 1
                        n == Len(w)
                    IN IF isHead \/ s.code = 204 \/ s.code = 304
                       THEN IF n # hdrEnd THEN Bad("octets-after-bodyless-response")
                            ELSE [ok |-> TRUE, code |-> s.code, hdrEnd |-> hdrEnd, framing |-> "none", pp |-> <<>>, endPos |-> hdrEnd]
                       ELSE IF Len(te) > 0
                       THEN IF ~(Len(te) = 1 /\ LowerSeq(te[1]) = VChunked) THEN Bad("final-coding-not-chunked")
                            ELSE LET c == ChunkedFrom(w, hl.body, <<>>)
                                 IN IF ~c.ok THEN c
                                    ELSE IF c.end # n THEN Bad("octets-after-chunked-body")
                                    ELSE [ok |-> TRUE, code |-> s.code, hdrEnd |-> hdrEnd, framing |-> "chunked",
                                          pp |-> SegPositions(c.segs, 1), endPos |-> c.end]
                       ELSE IF Len(cl) > 0
                       THEN LET c == CLValue(cl)
                            IN IF ~c.ok THEN c
                               ELSE IF n # hdrEnd + c.n THEN Bad("stream-length-differs-from-content-length")
                               ELSE [ok |-> TRUE, code |-> s.code, hdrEnd |-> hdrEnd, framing |-> "length",
                                     pp |-> Range1(hdrEnd + 1, n), endPos |-> n]
                       ELSE [ok |-> TRUE, code |-> s.code, hdrEnd |-> hdrEnd, framing |-> "close",
                             pp |-> Range1(hdrEnd + 1, n), endPos |-> 0]
Analyse(w, isHead) == AnalyseFrom(w, 1, isHead, 0)

HdrDone(n) == n >= an.hdrEnd
Complete(n) == an.endPos # 0 /\ n >= an.endPos
NRecv(n) == Cardinality({i \in 1..Len(an.pp) : an.pp[i] <= n})
Received(n) == [i \in 1..NRecv(n) |-> cfg.stream[an.pp[i]]]
PrefixOf(a, b) == Len(a) <= Len(b) /\ \A i \in 1..Len(a) : a[i] = b[i]

InitWith(c) ==
    /\ cfg = c
    /\ an = Analyse(c.stream, c.head)
    /\ started = FALSE
    /\ consumed = 0 /\ lostConn = FALSE
    /\ reqD = "unfired" /\ att = FALSE /\ del = <<>> /\ lc = 0 /\ lr = "none"
    /\ last = [e |-> "init"]

-----------------------------------------------------------------------------
(* Observed callbacks: records [k, code, b, r].
     k = "resp": request Deferred fired with a response of status code
     k = "fail": request Deferred fired with a failure
     k = "data": consumer.dataReceived(b)
     k = "lost": consumer.connectionLost(reason of class r)                      *)
St == [reqD |-> reqD, att |-> att, del |-> del, lc |-> lc, lr |-> lr, ok |-> TRUE]
RECURSIVE ApplyObs(_, _, _)
ApplyObs(st, obs, i) ==
    IF i > Len(obs) \/ ~st.ok THEN st
    ELSE LET o == obs[i]
         IN IF o.k = "resp"
            THEN IF st.reqD # "unfired" \/ o.code # an.code THEN [st EXCEPT !.ok = FALSE]
                 ELSE ApplyObs([st EXCEPT !.reqD = "response", !.att = (cfg.dbody = "now")], obs, i + 1)
            ELSE IF o.k = "fail"
            THEN IF st.reqD # "unfired" THEN [st EXCEPT !.ok = FALSE]
                 ELSE ApplyObs([st EXCEPT !.reqD = "failure"], obs, i + 1)
            ELSE IF o.k = "data"
            THEN IF ~st.att \/ st.lc # 0 THEN [st EXCEPT !.ok = FALSE]
                 ELSE ApplyObs([st EXCEPT !.del = st.del \o o.b], obs, i + 1)
            ELSE IF o.k = "lost"
            THEN IF ~st.att \/ st.lc # 0 THEN [st EXCEPT !.ok = FALSE]
                 ELSE ApplyObs([st EXCEPT !.lc = 1, !.lr = o.r], obs, i + 1)
            ELSE [st EXCEPT !.ok = FALSE]

\* what must hold of the consumer once the connection is gone and a consumer is attached
FinalOK(st, n) ==
    /\ st.lc = 1 /\ st.del = Received(n)
    /\ IF an.framing = "close" THEN st.lr = "PotentialDataLoss"
       ELSE IF Complete(n) THEN st.lr = "ResponseDone"
       ELSE st.lr \notin {"ResponseDone", "PotentialDataLoss"}
\* what must hold while the connection is up, n octets consumed
LiveOK(st, n) ==
    /\ PrefixOf(st.del, Received(n))
    /\ st.lc = 1 => (st.lr = "ResponseDone" /\ Complete(n) /\ st.del = Received(n))

DeliverPost(k, obs) ==     \* state after delivering k more octets with callbacks obs (ok = allowed)
    LET n == consumed + k
        st == ApplyObs(St, obs, 1)
    IN [st EXCEPT !.ok = /\ st.ok
                          /\ (HdrDone(n) => st.reqD = "response") /\ (~HdrDone(n) => st.reqD = "unfired")
                          /\ LiveOK(st, n)]
DeliverBodyPost(obs) ==
    LET st == ApplyObs([St EXCEPT !.att = TRUE], obs, 1)
    IN [st EXCEPT !.ok = /\ st.ok /\ st.reqD = reqD
                          /\ (IF lostConn THEN FinalOK(st, consumed) ELSE LiveOK(st, consumed))]
ConnLostPost(obs) ==
    LET st == ApplyObs(St, obs, 1)
    IN [st EXCEPT !.ok = /\ st.ok
                          /\ st.reqD = (IF reqD = "unfired" THEN "failure" ELSE reqD)
                          /\ (st.att => FinalOK(st, consumed))]

Take(st) == /\ st.ok /\ reqD' = st.reqD /\ att' = st.att /\ del' = st.del /\ lc' = st.lc /\ lr' = st.lr

Start ==      \* the request has been written; the stream is one the reference can analyse
    /\ ~started /\ an.ok /\ started' = TRUE
    /\ last' = [e |-> "start"]
    /\ UNCHANGED <<cfg, an, consumed, lostConn, reqD, att, del, lc, lr>>
Deliver(k, obs) ==
    /\ started /\ ~lostConn /\ k >= 1 /\ consumed + k <= Len(cfg.stream)
    /\ Take(DeliverPost(k, obs))
    /\ consumed' = consumed + k
    /\ last' = [e |-> "deliver"]
    /\ UNCHANGED <<cfg, an, started, lostConn>>
DeliverBody(obs) ==     \* response.deliverBody(consumer) called outside the Deferred's callback
    /\ started /\ cfg.dbody = "later" /\ reqD = "response" /\ ~att
    /\ Take(DeliverBodyPost(obs))
    /\ last' = [e |-> "deliverBody"]
    /\ UNCHANGED <<cfg, an, started, consumed, lostConn>>
ConnLost(obs) ==
    /\ started /\ ~lostConn
    /\ Take(ConnLostPost(obs))
    /\ lostConn' = TRUE
    /\ last' = [e |-> "connLost"]
    /\ UNCHANGED <<cfg, an, started, consumed>>

-----------------------------------------------------------------------------
(* The property as state invariants (each is a consequence of the action guards;
   TLC checks them on the specification and, primed, at every step of every
   recorded execution). *)
DeferredOnceAndTimely ==
    /\ (started /\ ~lostConn) => (reqD = "response" <=> HdrDone(consumed))
    /\ lostConn => reqD # "unfired"
    /\ reqD = "failure" => lostConn /\ ~HdrDone(consumed)
BodyExact == PrefixOf(del, Received(consumed)) /\ (lc = 1 => del = Received(consumed))
ConsumerLostOnce ==
    /\ lc \in {0, 1} /\ (lc = 1 => att)
    /\ (lostConn /\ att) => /\ lc = 1
                            /\ (an.framing = "close" => lr = "PotentialDataLoss")
                            /\ (an.framing # "close" /\ Complete(consumed) => lr = "ResponseDone")
                            /\ (an.framing # "close" /\ ~Complete(consumed) => lr \notin {"ResponseDone", "PotentialDataLoss"})
    /\ (lc = 1 /\ lr = "ResponseDone") => Complete(consumed)
Inv == started => (DeferredOnceAndTimely /\ BodyExact /\ ConsumerLostOnce)
=============================================================================
