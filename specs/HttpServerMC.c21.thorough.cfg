SPECIFICATION Spec
CONSTANT Units = {"RL11", "RL10", "HC1", "HCC", "HEX", "NL", "B"}
CONSTANT MaxD = 2
CONSTANT MaxReq = 3
CONSTANT MaxHdr = 1
CONSTANT MaxBuf = 3
CONSTANT MaxSent = 14
CONSTANT NDs = {2}
CONSTRAINT Bound
VIEW View
CHECK_DEADLOCK FALSE
INVARIANT SegInv
INVARIANT OneAtATime
INVARIANT RespInOrder
INVARIANT NoInterimInsideResponse
INVARIANT NotifyOnce
INVARIANT NotifyComplete
INVARIANT Handled
