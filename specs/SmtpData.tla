------------------------------ MODULE SmtpData ------------------------------
(* C40 -- SMTP transfers message bodies transparently (RFC 5321 section 4.5.2).

   Bytes are integers; the classes that matter are DOT, CR, LF, COLON and "other".
   A body is a flat byte string without CR made of LF-terminated lines.

     DataWire(body)  reference serialisation: each line dot-stuffed, CRLF-terminated, then ".CRLF"
     Dec(w)          reference server: CRLF lines; a line "." ends the data; a leading "." is
                     removed; lines after the end are commands (each answered by one reply)
     Feed(m, b)      incremental server machine, one byte at a time

   "The server's documented header handling": the delivery's Received: line is handed to the message
   before the data (logged as `pre`), and a blank line is inserted before the first body line when
   that line is non-empty and contains no colon (smtp.py: "Add a blank line between the generated
   Received:-header and the message body if the message comes in without any headers").

   cfg.mode = "client": the wire of the data phase is what the real SMTPClient produced
   cfg.mode = "server": the harness stuffs the body itself (checked here against DataWire) and may
                        pipeline a command line after the terminator.                          *)
EXTENDS Naturals, Integers, Sequences, FiniteSets

(* TLC passes operator arguments unevaluated and, inside actions, re-evaluates them at every use;
   Strict binds the argument to its value once (a bound variable is a value), which keeps the
   recursive runs below linear instead of exponential in the length of a delivery. *)
Strict(Op(_), x) == CHOOSE r \in {Op(v) : v \in {x}} : TRUE

DOT   == 46
CR    == 13
LF    == 10
COLON == 58

Line(c) == <<"l", c>>            \* IMessage.lineReceived(c)
EOM     == <<"eom", <<>> >>      \* IMessage.eomReceived()
R(code) == <<"r", <<code>> >>    \* one reply line written by the server (a command was processed / data accepted)

HasColon(c) == \E i \in 1..Len(c) : c[i] = COLON

RECURSIVE Concat(_)
Concat(ss) == IF ss = <<>> THEN <<>> ELSE Head(ss) \o Concat(Tail(ss))

-----------------------------------------------------------------------------
(* Body lines and the reference serialisation *)
RECURSIVE LinesFrom(_, _, _)
LinesFromV(b, i, cur) ==
    IF i > Len(b) THEN (IF cur = <<>> THEN <<>> ELSE <<cur>>)
    ELSE IF b[i] = LF THEN <<cur>> \o LinesFrom(b, i + 1, <<>>)
    ELSE LinesFrom(b, i + 1, Append(cur, b[i]))
LinesFrom(b, i, cur) == LET G(c) == LET F(v) == LinesFromV(b, v, c) IN Strict(F, i) IN Strict(G, cur)
BodyLines(b) == LinesFrom(b, 1, <<>>)
WellFormedBody(b) == (IF b = <<>> THEN TRUE ELSE b[Len(b)] = LF) /\ \A i \in 1..Len(b) : b[i] # CR

StuffLine(L) == (IF L # <<>> /\ L[1] = DOT THEN <<DOT>> ELSE <<>>) \o L \o <<CR, LF>>
Terminator == <<DOT, CR, LF>>
DataWire(b) == LET ls == BodyLines(b) IN Concat([i \in 1..Len(ls) |-> StuffLine(ls[i])]) \o Terminator

\* what the message object must see for body b (after the header handling), then end of message, then the 250
WithBlank(ls) == IF ls # <<>> /\ ls[1] # <<>> /\ ~HasColon(ls[1]) THEN << <<>> >> \o ls ELSE ls
Expected(b) == LET ls == WithBlank(BodyLines(b)) IN [i \in 1..Len(ls) |-> Line(ls[i])] \o <<EOM, R(250)>>

-----------------------------------------------------------------------------
(* Reference server over a whole prefix *)
RECURSIVE CrlfLines(_, _, _)
CrlfLinesV(w, i, cur) ==
    IF i > Len(w) THEN <<>>                                   \* an unterminated tail yields nothing
    ELSE IF w[i] = CR /\ i < Len(w) /\ w[i + 1] = LF THEN <<cur>> \o CrlfLines(w, i + 2, <<>>)
    ELSE CrlfLines(w, i + 1, Append(cur, w[i]))
CrlfLines(w, i, cur) == LET G(c) == LET F(v) == CrlfLinesV(w, v, c) IN Strict(F, i) IN Strict(G, cur)

RSET == <<82, 83, 69, 84>>
Reply(L) == IF L = RSET THEN 250 ELSE 500       \* the only pipelined commands the harness uses: RSET, or an unknown verb

RECURSIVE DecLines(_, _, _, _)
DecLinesV(ls, k, first, data) ==
    IF k > Len(ls) THEN <<>>
    ELSE LET L == ls[k] IN
      IF ~data THEN <<R(Reply(L))>> \o DecLines(ls, k + 1, first, FALSE)
      ELSE IF L = <<DOT>> THEN <<EOM, R(250)>> \o DecLines(ls, k + 1, first, FALSE)
      ELSE LET c == IF L # <<>> /\ L[1] = DOT THEN Tail(L) ELSE L IN
           (IF first /\ c # <<>> /\ ~HasColon(c) THEN <<Line(<<>>)>> ELSE <<>>)
             \o <<Line(c)>> \o DecLines(ls, k + 1, FALSE, TRUE)
DecLines(ls, k, first, data) == LET F(v) == DecLinesV(ls, v, first, data) IN Strict(F, k)

Dec(w) == LET G(ls) == DecLines(ls, 1, TRUE, TRUE)
              F(v) == Strict(G, CrlfLines(v, 1, <<>>))
          IN Strict(F, w)

EndsWithCRLF(w) == Len(w) >= 2 /\ w[Len(w) - 1] = CR /\ w[Len(w)] = LF
(* The client's data phase is right iff a reference server reading it hands the message exactly the
   body's lines, sees the end of data exactly at the end of what was sent, and nothing else. *)
SenderOK(ex, w) == Dec(w) = ex /\ EndsWithCRLF(w)          \* ex = Expected(body)

-----------------------------------------------------------------------------
(* Incremental server machine *)
M0 == [buf |-> <<>>, data |-> TRUE, first |-> TRUE, items |-> <<>>]

LineDone(m, L) ==
    IF ~m.data THEN [m EXCEPT !.buf = <<>>, !.items = Append(@, R(Reply(L)))]
    ELSE IF L = <<DOT>> THEN [m EXCEPT !.buf = <<>>, !.data = FALSE, !.items = @ \o <<EOM, R(250)>>]
    ELSE LET c == IF L # <<>> /\ L[1] = DOT THEN Tail(L) ELSE L IN
         [m EXCEPT !.buf = <<>>, !.first = FALSE,
                   !.items = @ \o (IF m.first /\ c # <<>> /\ ~HasColon(c) THEN <<Line(<<>>)>> ELSE <<>>) \o <<Line(c)>>]

FeedV(m, b) ==
    IF b = LF /\ m.buf # <<>> /\ m.buf[Len(m.buf)] = CR
    THEN LineDone(m, SubSeq(m.buf, 1, Len(m.buf) - 1))
    ELSE [m EXCEPT !.buf = Append(@, b)]
Feed(m, b) == LET F(v) == FeedV(v, b) IN Strict(F, m)

RECURSIVE FeedFrom(_, _, _)
FeedFromV(m, s, i) == IF i > Len(s) THEN m ELSE FeedFrom(Feed(m, s[i]), s, i + 1)
FeedFrom(m, s, i) == LET F(v) == FeedFromV(m, s, v) IN Strict(F, i)
FeedAll(m, s) == LET F(v) == FeedFrom(m, v, 1) IN Strict(F, s)

-----------------------------------------------------------------------------
VARIABLES cfg,        \* [mode |-> "client" | "server", rcvd |-> bytes of the Received: line or <<>>]
          body,       \* the message body given to the client (or stuffed by the harness)
          wire,       \* bytes of the data phase on the wire, client -> server
          sent,       \* TRUE once the data phase has been produced
          exp,        \* Expected(body), computed once when the body is known (see ExpInv)
          consumed, mach, out, last

vars == <<cfg, body, wire, sent, exp, consumed, mach, out, last>>

Ctl(m) == [buf |-> m.buf, data |-> m.data, first |-> m.first]

InitWith(c) ==
    /\ cfg = c /\ body = <<>> /\ wire = <<>> /\ sent = FALSE /\ exp = <<>> /\ consumed = 0
    /\ mach = Ctl(M0) /\ out = <<>> /\ last = [e |-> "init"]

Pre == IF cfg.rcvd # <<>> THEN <<Line(cfg.rcvd)>> ELSE <<>>

(* The real client sent body b as w.  Whether w is acceptable is SenderInv. *)
Send(b, w) ==
    /\ cfg.mode = "client" /\ ~sent
    /\ body' = b /\ wire' = w /\ sent' = TRUE /\ exp' = Expected(b)
    /\ last' = [e |-> "send", pre |-> Pre]
    /\ UNCHANGED <<cfg, consumed, mach, out>>

(* The harness sent body b itself, followed by pipelined command bytes tl. *)
Inject(b, tl, w) ==
    /\ cfg.mode = "server" /\ ~sent
    /\ w = DataWire(b) \o tl
    /\ body' = b /\ wire' = w /\ sent' = TRUE /\ exp' = Expected(b)
    /\ last' = [e |-> "inject", pre |-> Pre]
    /\ UNCHANGED <<cfg, consumed, mach, out>>

Deliver(k) ==
    /\ sent /\ k \in 1..(Len(wire) - consumed)
    /\ LET m == FeedAll([buf |-> mach.buf, data |-> mach.data, first |-> mach.first, items |-> <<>>],
                        SubSeq(wire, consumed + 1, consumed + k)) IN
         /\ mach' = Ctl(m)
         /\ out' = out \o m.items
         /\ last' = [e |-> "deliver", k |-> k, out |-> m.items]
    /\ consumed' = consumed + k
    /\ UNCHANGED <<cfg, body, wire, sent, exp>>

(* The client's sentMail callback fired with these codes (exactly one 250) once everything was delivered. *)
End ==
    /\ cfg.mode = "client" /\ sent /\ consumed = Len(wire)
    /\ last' = [e |-> "end", codes |-> <<250>>]
    /\ UNCHANGED <<cfg, body, wire, sent, exp, consumed, mach, out>>

-----------------------------------------------------------------------------
Consumed == SubSeq(wire, 1, consumed)
IsPrefix(s, t) == Len(s) <= Len(t) /\ \A i \in 1..Len(s) : s[i] = t[i]
Kinds(items) == {items[i][1] : i \in 1..Len(items)}

RefInv     == out = Dec(Consumed)                                              \* any segmentation
ExpInv     == sent => exp = Expected(body)
SenderInv  == (cfg.mode = "client" /\ sent) => (WellFormedBody(body) /\ SenderOK(exp, wire))
NoLoss     == (cfg.mode = "client" /\ sent) => IsPrefix(out, exp)              \* exactly the body's lines, in order
EndOnlyAtTerminator ==                                                          \* not before the client's final "."
    (cfg.mode = "client" /\ sent /\ consumed < Len(wire)) => ~("eom" \in Kinds(out) \/ "r" \in Kinds(out))
EndToEnd   == (cfg.mode = "client" /\ sent /\ consumed = Len(wire)) => out = exp

RefInvSync == consumed = Len(wire) => out = Dec(wire)     \* RefInv where everything sent has been consumed

Inv == RefInv /\ SenderInv /\ NoLoss /\ EndOnlyAtTerminator /\ EndToEnd
=============================================================================
