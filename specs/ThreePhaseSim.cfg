SPECIFICATION SSpec
CONSTANT Depth = 14
CONSTANT MaxT = 8
CONSTRAINT Stop
CHECK_DEADLOCK FALSE
