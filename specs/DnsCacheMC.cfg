SPECIFICATION Spec
CONSTANT MaxNow = 5
CONSTANT MaxLevel = 6
CONSTRAINT Bound
VIEW View
INVARIANT NeverLate
INVARIANT NeverEarly
INVARIANT Current
INVARIANT OneTimer
INVARIANT Tracked
INVARIANT NoOverdue
CHECK_DEADLOCK FALSE
