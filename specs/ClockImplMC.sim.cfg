SPECIFICATION Spec
CONSTANT MaxCalls = 5
CONSTANT Ds = {0, 1, 2}
CONSTANT NegMax = 2
CONSTANT MaxNow = 8
CONSTANT Depth = 90
CONSTRAINT Bound
VIEW View
PROPERTY Refines
INVARIANT ListIsLive
INVARIANT SortedInLoop
INVARIANT DelayNonNeg
CHECK_DEADLOCK FALSE
