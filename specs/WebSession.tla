------------------------------ MODULE WebSession ------------------------------
(* Extension X08 -- twisted.web.server session life cycle on a controlled clock:
   Site.makeSession / Site.getSession, Session.touch / expire / notifyOnExpire / sessionTimeout,
   the expiration timer started by startCheckingExpiration, and Request.getSession (the cookie path).
   Sessions, callbacks and requests are numbered in creation order.  Times are integers.

   Implementation-shaped.  Deliberate deviations from what a reader of the docstrings would expect
   (each is what the code does; see notes/X08.md "Oddities"):
     D1  touch() of a session that expired through its timer raises AlreadyCalled, touch() of a session
         that was expired explicitly returns quietly (the cancelled timer was forgotten).
     D2  expire() of an already expired session raises KeyError (nothing else happens).
     D3  a notifyOnExpire callback that raises aborts expire(): later callbacks never run, and when the
         expire() was explicit the timer stays scheduled ("aborted"); it later fires into a KeyError,
         and touch() keeps re-arming it.
     D4  Request.getSession() returns the request's cached session even after that session was expired
         explicitly (D1: touch is quiet), i.e. a session Site.getSession no longer knows.
     D5  a session found through the cookie is NOT touched by Request.getSession (only a second call on
         the same request touches it).
     D6  callbacks registered after expiry are accepted and never called.                              *)
EXTENDS Naturals, Integers, Sequences, FiniteSets

Called  == -1      \* timer value: the timer has fired (Session still holds the spent DelayedCall)
NoTimer == -2      \* timer value: cancelled by expire() and forgotten
Bogus   == -1      \* cookie value: a uid no session ever had
ErrKey == 1  ErrCb == 2  ErrCalled == 3

VARIABLES cfg,      \* [timeout |-> class-level Session.sessionTimeout of the site's sessionFactory]
          now,
          ns,       \* sessions made so far
          st,       \* 1..ns -> "live" | "timer" (expired by its timer) | "explicit" (expired by expire())
          timer,    \* 1..ns -> deadline of the pending expiration call | Called | NoTimer
          tmo,      \* 1..ns -> the session's current sessionTimeout attribute
          cbs,      \* 1..ns -> sequence of callback ids registered with notifyOnExpire
          ncb, bad, \* callbacks registered so far; the ones that raise
          runs,     \* 1..ncb -> how often the callback has been called
          regDead,  \* callbacks registered on an already expired session
          nreq, rq, ck,   \* requests: cached session (0 = none) and received cookie (0 none | session | Bogus)
          lastMod,  \* 1..ns -> Session.lastModified
          due,      \* history: 1..ns -> last (touch | creation) time of the live session + the timeout used
          expAt,    \* history: 1..ns -> time of expiry (-1 while live)
          aborted,  \* history: sessions whose explicit expire() was cut short by a raising callback (D3)
          last
vars == <<cfg, now, ns, st, timer, tmo, cbs, ncb, bad, runs, regDead, nreq, rq, ck, lastMod, due, expAt, aborted, last>>

S == 1..ns
Live == {s \in S : st[s] = "live"}
Pending == {s \in S : timer[s] >= 0}

InitWith(c) ==
    /\ cfg = c /\ now = 0 /\ ns = 0
    /\ st = <<>> /\ timer = <<>> /\ tmo = <<>> /\ cbs = <<>> /\ ncb = 0 /\ bad = {} /\ runs = <<>> /\ regDead = {}
    /\ nreq = 0 /\ rq = <<>> /\ ck = <<>>
    /\ lastMod = <<>> /\ due = <<>> /\ expAt = <<>> /\ aborted = {}
    /\ last = [e |-> "init"]

RECURSIVE Asc(_)
Asc(X) == IF X = {} THEN <<>> ELSE LET m == CHOOSE x \in X : \A y \in X : x <= y IN <<m>> \o Asc(X \ {m})
RECURSIVE ByTimer(_)     \* session ids ordered by (deadline, id)
ByTimer(X) == IF X = {} THEN <<>> ELSE
    LET m == CHOOSE x \in X : \A y \in X : timer[x] < timer[y] \/ (timer[x] = timer[y] /\ x <= y)
    IN <<m>> \o ByTimer(X \ {m})
LiveSeq == Asc(Live)                                               \* what probing Site.getSession shows
TimerSeq == LET o == ByTimer(Pending) IN [i \in 1..Len(o) |-> timer[o[i]]]   \* what clock.getDelayedCalls shows

(* callbacks actually called by one expire(): up to and including the first that raises (D3) *)
RECURSIVE Prefix(_)
Prefix(q) == IF q = <<>> THEN <<>> ELSE IF Head(q) \in bad THEN <<Head(q)>> ELSE <<Head(q)>> \o Prefix(Tail(q))
HasBad(q) == \E i \in 1..Len(q) : q[i] \in bad
Range(q) == {q[i] : i \in 1..Len(q)}
CbOut(q) == LET p == Prefix(q) IN [i \in 1..Len(p) |-> <<"cb", p[i]>>]
Ran(X) == [c \in 1..ncb |-> runs[c] + (IF c \in X THEN 1 ELSE 0)]


(* Site.makeSession(): a fresh uid, registered, timer armed at now + sessionTimeout *)
Make ==
    /\ ns' = ns + 1
    /\ st' = Append(st, "live") /\ timer' = Append(timer, now + cfg.timeout) /\ tmo' = Append(tmo, cfg.timeout)
    /\ cbs' = Append(cbs, <<>>) /\ lastMod' = Append(lastMod, now)
    /\ due' = Append(due, now + cfg.timeout) /\ expAt' = Append(expAt, -1)
    /\ last' = [e |-> "make", res |-> <<"ok", ns + 1>>, out |-> <<>>, fresh |-> TRUE, n |-> ns + 1]
    /\ UNCHANGED <<cfg, now, ncb, bad, runs, regDead, nreq, rq, ck, aborted>>

(* Site.getSession(uid): the session while it is live, KeyError otherwise (u = 0: a uid never issued) *)
Get(u) ==
    /\ u \in 0..ns
    /\ last' = [e |-> "get", res |-> IF u \in Live THEN <<"ok", u>> ELSE <<"err", ErrKey>>, out |-> <<>>]
    /\ UNCHANGED <<cfg, now, ns, st, timer, tmo, cbs, ncb, bad, runs, regDead, nreq, rq, ck, lastMod, due, expAt, aborted>>

(* Session.touch(): lastModified := now; a pending timer is pushed to now + sessionTimeout (D1, D3) *)
Touch(s) ==
    /\ s \in S
    /\ lastMod' = [lastMod EXCEPT ![s] = now]
    /\ timer' = IF timer[s] >= 0 THEN [timer EXCEPT ![s] = now + tmo[s]] ELSE timer
    /\ due' = IF s \in Live THEN [due EXCEPT ![s] = now + tmo[s]] ELSE due
    /\ last' = [e |-> "touch", res |-> IF timer[s] = Called THEN <<"err", ErrCalled>> ELSE <<"ok", 0>>, out |-> <<>>, lm |-> now]
    /\ UNCHANGED <<cfg, now, ns, st, tmo, cbs, ncb, bad, runs, regDead, nreq, rq, ck, expAt, aborted>>

(* Session.expire() called by the user (D2, D3) *)
Expire(s) ==
    /\ s \in S
    /\ IF s \notin Live
         THEN /\ last' = [e |-> "expire", res |-> <<"err", ErrKey>>, out |-> <<>>]
              /\ UNCHANGED <<st, timer, runs, expAt, aborted>>
         ELSE /\ st' = [st EXCEPT ![s] = "explicit"]
              /\ expAt' = [expAt EXCEPT ![s] = now]
              /\ runs' = Ran(Range(Prefix(cbs[s])))
              /\ timer' = IF HasBad(cbs[s]) THEN timer ELSE [timer EXCEPT ![s] = NoTimer]
              /\ aborted' = IF HasBad(cbs[s]) THEN aborted \cup {s} ELSE aborted
              /\ last' = [e |-> "expire", res |-> IF HasBad(cbs[s]) THEN <<"err", ErrCb>> ELSE <<"ok", 0>>, out |-> CbOut(cbs[s])]
    /\ UNCHANGED <<cfg, now, ns, tmo, cbs, ncb, bad, regDead, nreq, rq, ck, lastMod, due>>

(* Session.notifyOnExpire(cb); b = the callback will raise (D6) *)
Notify(s, b) ==
    /\ s \in S /\ b \in BOOLEAN
    /\ ncb' = ncb + 1
    /\ cbs' = [cbs EXCEPT ![s] = Append(@, ncb + 1)]
    /\ bad' = IF b THEN bad \cup {ncb + 1} ELSE bad
    /\ runs' = Append(runs, 0)
    /\ regDead' = IF s \in Live THEN regDead ELSE regDead \cup {ncb + 1}
    /\ last' = [e |-> "notify", res |-> <<"ok", 0>>, out |-> <<>>]
    /\ UNCHANGED <<cfg, now, ns, st, timer, tmo, nreq, rq, ck, lastMod, due, expAt, aborted>>

(* session.sessionTimeout = t: takes effect at the next touch() *)
SetTmo(s, t) ==
    /\ s \in S /\ t \in Nat
    /\ tmo' = [tmo EXCEPT ![s] = t]
    /\ last' = [e |-> "settmo", res |-> <<"ok", 0>>, out |-> <<>>]
    /\ UNCHANGED <<cfg, now, ns, st, timer, cbs, ncb, bad, runs, regDead, nreq, rq, ck, lastMod, due, expAt, aborted>>

(* the clock advances by d: every pending timer whose deadline is reached fires, in deadline order (the order
   among equal deadlines is the reactor's business: `order` is any deadline-sorted enumeration of the due
   timers).  A timer of a live session expires it and runs its callbacks; a raising callback escapes into
   the reactor (D3); the timer of an aborted session finds nothing to delete: KeyError in the reactor.     *)
DueAt(t) == {s \in Pending : timer[s] <= t}
Orders(D) == {o \in [1..Cardinality(D) -> D] :
                 \A i, j \in 1..Cardinality(D) : i < j => (o[i] # o[j] /\ timer[o[i]] <= timer[o[j]])}
FireOut(s) == IF s \in Live THEN CbOut(cbs[s]) \o (IF HasBad(cbs[s]) THEN << <<"err", ErrCb>> >> ELSE <<>>)
                            ELSE << <<"err", ErrKey>> >>
RECURSIVE FireAll(_, _)
FireAll(o, i) == IF i > Len(o) THEN <<>> ELSE FireOut(o[i]) \o FireAll(o, i + 1)
Advance(d, order) ==
    LET t == now + d
        D == DueAt(t)
        X == D \cap Live
    IN
    /\ d \in Nat /\ order \in Orders(D)
    /\ now' = t
    /\ st' = [s \in S |-> IF s \in X THEN "timer" ELSE st[s]]
    /\ timer' = [s \in S |-> IF s \in D THEN Called ELSE timer[s]]
    /\ expAt' = [s \in S |-> IF s \in X THEN t ELSE expAt[s]]
    /\ runs' = Ran(UNION {Range(Prefix(cbs[s])) : s \in X})
    /\ last' = [e |-> "advance", res |-> <<"ok", 0>>, out |-> FireAll(order, 1)]
    /\ UNCHANGED <<cfg, ns, tmo, cbs, ncb, bad, regDead, nreq, rq, ck, lastMod, due, aborted>>
CanonOrder(D) == ByTimer(D)

(* a new request arrives carrying cookie c: 0 = none, s = the uid of session s, Bogus = an unknown uid *)
NewReq(c) ==
    /\ c \in (0..ns) \cup {Bogus}
    /\ nreq' = nreq + 1 /\ rq' = Append(rq, 0) /\ ck' = Append(ck, c)
    /\ last' = [e |-> "newreq", res |-> <<"ok", nreq + 1>>, out |-> <<>>]
    /\ UNCHANGED <<cfg, now, ns, st, timer, tmo, cbs, ncb, bad, runs, regDead, lastMod, due, expAt, aborted>>

(* Request.getSession(): the cached session is touched and kept unless touch raises (D1, D4); otherwise the
   cookie is looked up with Site.getSession (D5); otherwise a new session is made and its cookie is set. *)
RGet(r) ==
    LET c0 == rq[r]
        fails == c0 # 0 /\ timer[c0] = Called
        rearm == c0 # 0 /\ timer[c0] >= 0
        c1 == IF fails THEN 0 ELSE c0
        lm1 == IF c0 # 0 THEN [lastMod EXCEPT ![c0] = now] ELSE lastMod
        tm1 == IF rearm THEN [timer EXCEPT ![c0] = now + tmo[c0]] ELSE timer
        du1 == IF rearm /\ c0 \in Live THEN [due EXCEPT ![c0] = now + tmo[c0]] ELSE due
        byCookie == c1 = 0 /\ ck[r] \in Live
        mk == c1 = 0 /\ ~byCookie
        c2 == IF c1 # 0 THEN c1 ELSE IF byCookie THEN ck[r] ELSE ns + 1
    IN
    /\ r \in 1..nreq
    /\ rq' = [rq EXCEPT ![r] = c2]
    /\ IF mk THEN /\ ns' = ns + 1
                  /\ st' = Append(st, "live") /\ timer' = Append(tm1, now + cfg.timeout) /\ tmo' = Append(tmo, cfg.timeout)
                  /\ cbs' = Append(cbs, <<>>) /\ lastMod' = Append(lm1, now)
                  /\ due' = Append(du1, now + cfg.timeout) /\ expAt' = Append(expAt, -1)
            ELSE /\ timer' = tm1 /\ lastMod' = lm1 /\ due' = du1
                 /\ UNCHANGED <<ns, st, tmo, cbs, expAt>>
    /\ last' = [e |-> "rget", res |-> <<"ok", c2>>, out |-> <<>>, new |-> mk, cookie |-> mk, cachedDead |-> (c1 # 0 /\ c1 \notin Live)]
    /\ UNCHANGED <<cfg, now, ncb, bad, runs, regDead, nreq, ck, aborted>>

Next == \/ Make
        \/ \E u \in 0..ns : Get(u)
        \/ \E s \in S : Touch(s)
        \/ \E s \in S : Expire(s)
        \/ \E s \in S, b \in BOOLEAN : Notify(s, b)
        \/ \E s \in S, t \in {0, 3} : SetTmo(s, t)
        \/ \E d \in 0..2 : Advance(d, CanonOrder(DueAt(now + d)))
        \/ \E c \in (0..ns) \cup {Bogus} : NewReq(c)
        \/ \E r \in 1..nreq : RGet(r)
-----------------------------------------------------------------------------
(* what a user relies on *)
\* a live session always has exactly its expiration timer pending, at (last touch | creation) + the timeout then in force
LiveArmed  == \A s \in Live : timer[s] >= now /\ timer[s] = due[s] /\ expAt[s] = -1
\* no timer survives an advance that reaches it: a session expires at the first advance reaching its deadline
NoOverdue  == last.e = "advance" => \A s \in Pending : timer[s] > now
\* never earlier than promised
NoEarly    == \A s \in S : st[s] = "timer" => expAt[s] >= due[s]
\* no timer leak: an expired session has no scheduled call -- except after an aborted explicit expire (D3)
NoLeak     == \A s \in S \ Live : /\ (timer[s] >= 0 => s \in aborted)
                                  /\ (st[s] = "timer" => timer[s] = Called)
                                  /\ (st[s] = "explicit" /\ s \notin aborted => timer[s] = NoTimer)
\* every callback at most once; never before expiry; exactly once at expiry unless shadowed by an earlier raising one (D3, D6)
Shadowed(s, i) == \E j \in 1..(i - 1) : cbs[s][j] \in bad
CbOnce     == \A c \in 1..ncb : runs[c] <= 1
CbAtExpiry == \A s \in S : \A i \in 1..Len(cbs[s]) :
                 LET c == cbs[s][i] IN
                 /\ (s \in Live => runs[c] = 0)
                 /\ (c \in regDead => runs[c] = 0)
                 /\ (s \notin Live /\ c \notin regDead /\ ~Shadowed(s, i) => runs[c] = 1)
\* Request.getSession hands out a live session -- except a cached, explicitly expired one (D4)
RGetLive   == last.e = "rget" => (last.res[2] \in Live \/ (last.cachedDead /\ st[last.res[2]] = "explicit" /\ ~last.new))
\* a request never caches a session it was not given
ReqSane    == \A r \in 1..nreq : rq[r] \in 0..ns
Inv == LiveArmed /\ NoOverdue /\ NoEarly /\ NoLeak /\ CbOnce /\ CbAtExpiry /\ RGetLive /\ ReqSane
\* expiry is final (exactly once): an expired session never becomes live again, and ids are never reused
FinalStep  == /\ ns' >= ns
              /\ \A s \in S : st[s] # "live" => st'[s] = st[s] /\ expAt'[s] = expAt[s]
              /\ \A c \in 1..ncb : runs'[c] >= runs[c]
Final == [][FinalStep]_vars
=============================================================================
