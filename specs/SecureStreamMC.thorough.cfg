SPECIFICATION Spec
CONSTANT MaxBytes = 2
CONSTANT Depth = 40
CONSTRAINT Bound
VIEW View
INVARIANT PrefixOnly
INVARIANT AtMostOneLost
INVARIANT NoSpontaneousClose
CHECK_DEADLOCK FALSE
