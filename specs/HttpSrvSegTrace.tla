--------------------------- MODULE HttpSrvSegTrace ---------------------------
(* C18 trace validation.  T.whole = observations of fresh real connections that got the first n
   bytes of the stream in one piece (one entry per n that a split run reaches); each event =
   observation of a real connection that got the same n bytes in several deliveries, E.w = the
   index of the one-piece observation of the same n bytes.                                    *)
EXTENDS HttpSrvSeg, TLC, Json, IOUtils

Traces == JsonDeserialize(IOEnv.TRACE_FILE)
VARIABLES tid, l
ASSUME \A t \in 1..Len(Traces) : TLCSet(t, 1)

T == Traces[tid]
E == T.ev[l]

TInit == tid \in 1..Len(Traces) /\ l = 1 /\ InitWith(Traces[tid].cfg)

Step(A) == l <= Len(T.ev) /\ A /\ Inv' /\ l' = l + 1 /\ UNCHANGED tid
TNext == E.e = "cut" /\ E.w <= Len(T.whole) /\ Step(Cut(E.n, E.split, T.whole[E.w]))

TSpec == TInit /\ [][l <= Len(T.ev) /\ TNext]_<<vars, tid, l>>

Progress == TLCSet(tid, IF TLCGet(tid) > l THEN TLCGet(tid) ELSE l)
Rejected == {<<t, TLCGet(t)>> : t \in {u \in 1..Len(Traces) : TLCGet(u) # Len(Traces[u].ev) + 1}}
Accepted == Rejected = {} \/ (PrintT(<<"REJECTED", Rejected>>) /\ FALSE)
=============================================================================
