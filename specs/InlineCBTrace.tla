---------------------------- MODULE InlineCBTrace ----------------------------
(* Batched trace validation: every recorded execution of real inlineCallbacks
   generators / coroutines must be a behaviour of InlineCB.  Each logged event --
   driver call, observation made by a body, by a result observer, by a canceller or
   by a leaf Deferred's first callback -- is one action; every field is compared. *)
EXTENDS InlineCB, TLC, Json, IOUtils

Traces == JsonDeserialize(IOEnv.TRACE_FILE)
VARIABLES tid, l
ASSUME \A t \in 1..Len(Traces) : TLCSet(t, 1)

T == Traces[tid]
E == T.ev[l]
CK(d) == T.cfg.ck[d]

TInit == /\ tid \in 1..Len(Traces) /\ l = 1
         /\ InitWith([nd |-> Traces[tid].cfg.nd, ng |-> Traces[tid].cfg.ng])

Matches == /\ last'.e = E.e /\ last'.g = E.g /\ last'.x = E.x /\ last'.k = E.k /\ last'.v = E.v

Step(A) == /\ l <= Len(T.ev) /\ A /\ Matches /\ Inv' /\ l' = l + 1 /\ UNCHANGED tid

InLeaves(d) == d \in 1..T.cfg.nd
InInvs(g) == g \in 1..T.cfg.ng

TNext == \/ (E.e = "start" /\ Step(Start(E.k)))
         \/ (E.e = "fire" /\ Step(DFire(E.x, E.k)))
         \/ (E.e = "cancel" /\ Step(DCancel(E.g)))
         \/ (E.e = "cancelleaf" /\ Step(DCancelLeaf(E.x)))
         \/ (E.e = "end" /\ Step(End))
         \/ (E.e = "cc" /\ InLeaves(E.x) /\ Step(CancellerCalled(E.x, CK(E.x))))
         \/ (E.e = "in" /\ InLeaves(E.x) /\ Step(LeafFires(E.x, CK(E.x))))
         \/ (E.e = "resume" /\ InInvs(E.g) /\ Step(Resume(E.g)))
         \/ (E.e = "res" /\ InInvs(E.g) /\ Step(FireResult(E.g)))
         \/ (E.e = "yield" /\ E.k = "d" /\ InInvs(E.g) /\ Step(YieldLeaf(E.g, E.x)))
         \/ (E.e = "yield" /\ E.k = "v" /\ InInvs(E.g) /\ Step(YieldVal(E.g, E.x)))
         \/ (E.e = "yield" /\ E.k = "g" /\ InInvs(E.g) /\ Step(YieldChild(E.g, E.x)))
         \/ (E.e = "spawn" /\ InInvs(E.g) /\ Step(Spawn(E.g, E.k)))
         \/ (E.e = "spawnyield" /\ InInvs(E.g) /\ Step(SpawnYield(E.g, E.k)))
         \/ (E.e \in {"return", "raise"} /\ InInvs(E.g) /\ Step(Finish(E.g, E.e, <<E.k, E.v>>)))

TSpec == TInit /\ [][l <= Len(T.ev) /\ TNext]_<<vars, tid, l>>

Progress == TLCSet(tid, IF TLCGet(tid) > l THEN TLCGet(tid) ELSE l)
Rejected == {<<t, TLCGet(t)>> : t \in {u \in 1..Len(Traces) : TLCGet(u) # Len(Traces[u].ev) + 1}}
Accepted == Rejected = {} \/ (PrintT(<<"REJECTED", Rejected>>) /\ FALSE)
=============================================================================
