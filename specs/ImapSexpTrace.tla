---------------------------- MODULE ImapSexpTrace ----------------------------
(* Batched trace validation for C42.  A trace is one use of the real code:
     ev[1]: [e |-> "ser",   x, out, exc]  -- collapseNestedLists(structure x) returned the octets out
     ev[2]: [e |-> "parse", toks, exc]    -- the client's parser applied to out returned toks (flattened)
   Verdict (Strict = FALSE): no exception and toks = Expected(x)  (the property; the serialised form is
   left free).  Strict = TRUE additionally requires the reference tokeniser to recover x from the real
   serialiser's output (diagnostic: which side is at fault; never a verdict).                        *)
EXTENDS ImapSexp, TLC, Json, IOUtils
CONSTANT Strict

Traces == JsonDeserialize(IOEnv.TRACE_FILE)
VARIABLES tid, l
ASSUME \A t \in 1..Len(Traces) : TLCSet(t, 1)

T == Traces[tid]
E == T.ev[l]

TInit == /\ tid \in 1..Len(Traces) /\ l = 1
         /\ InitWith([stepwise |-> FALSE])

ObsSer == /\ phase = "build" /\ E.e = "ser" /\ E.exc = ""
          /\ (Strict => LET r == RefParse(E.out) IN ~r.err /\ r.out = Expected(E.x))
          /\ toks' = E.x /\ stream' = E.out /\ phase' = "parse"
          /\ UNCHANGED <<cfg, cur, depth, pos, pm>>

\* diagnostic route: the octets are the REFERENCE serialisation of x (checked here), fed to the real parser
ObsRefSer == /\ phase = "build" /\ E.e = "refser"
             /\ E.out = Ser(E.x)
             /\ toks' = E.x /\ stream' = E.out /\ phase' = "parse"
             /\ UNCHANGED <<cfg, cur, depth, pos, pm>>

ObsParse == /\ phase = "parse" /\ E.e = "parse" /\ E.exc = ""
            /\ Holds(toks, E.toks)
            /\ phase' = "done"
            /\ UNCHANGED <<cfg, toks, cur, depth, stream, pos, pm>>

Step(A) == /\ l <= Len(T.ev) /\ A /\ l' = l + 1 /\ UNCHANGED tid
TNext == Step(ObsSer) \/ Step(ObsRefSer) \/ Step(ObsParse)
TSpec == TInit /\ [][TNext]_<<vars, tid, l>>

Progress == TLCSet(tid, IF TLCGet(tid) > l THEN TLCGet(tid) ELSE l)
Rejected == {<<t, TLCGet(t)>> : t \in {u \in 1..Len(Traces) : TLCGet(u) # Len(Traces[u].ev) + 1}}
Accepted == Rejected = {} \/ (PrintT(<<"REJECTED", Rejected>>) /\ FALSE)
=============================================================================
