-------------------------- MODULE ThreePhaseTrace --------------------------
(* Batched trace validation: every recorded execution of the real _ThreePhaseEvent /
   ReactorBase system-event API must be a behaviour of ThreePhase, every logged field
   (ids, call results, the exact sequence of triggers each call ran) matching.      *)
EXTENDS ThreePhase, TLC, Json, IOUtils

Traces == JsonDeserialize(IOEnv.TRACE_FILE)
VARIABLES tid, l
ASSUME \A t \in 1..Len(Traces) : TLCSet(t, 1)

T == Traces[tid]
E == T.ev[l]

TInit == /\ tid \in 1..Len(Traces) /\ l = 1
         /\ InitWith([api |-> Traces[tid].cfg.api])

Step(A, M) == /\ l <= Len(T.ev) /\ A /\ M /\ Inv' /\ l' = l + 1 /\ UNCHANGED tid

MAdd    == last'.id = E.id /\ E.res = "ok" /\ E.ran = <<>>
MRemove == last'.res = E.res /\ E.ran = <<>>
MRun    == last'.res = E.res /\ last'.ran = E.ran /\ SubMatches(last'.sub, E.sub)

TNext == \/ (E.e = "add"    /\ Step(Add(E.ph, [ret |-> E.k, acts |-> E.acts]), MAdd))
         \/ (E.e = "remove" /\ Step(RemoveOk(E.h) \/ RemoveGone(E.h, E.res), MRemove))
         \/ (E.e = "fire"   /\ Step(Fire, MRun))
         \/ (E.e = "fired"  /\ Step(FireDeferred(E.d, E.how) \/ FireLoose(E.d, E.how), MRun))

TSpec == TInit /\ [][l <= Len(T.ev) /\ TNext]_<<vars, tid, l>>

Progress == TLCSet(tid, IF TLCGet(tid) > l THEN TLCGet(tid) ELSE l)
Rejected == {<<t, TLCGet(t)>> : t \in {u \in 1..Len(Traces) : TLCGet(u) # Len(Traces[u].ev) + 1}}
Accepted == Rejected = {} \/ (PrintT(<<"REJECTED", Rejected>>) /\ FALSE)
=============================================================================
