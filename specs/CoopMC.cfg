SPECIFICATION Spec
CONSTANT MaxT = 2
CONSTANT MaxW = 2
CONSTANT MaxDf = 2
CONSTANT MaxPc = 2
CONSTANT MaxB = 2
CONSTANT Depth = 8
CONSTRAINT Bound
VIEW View
INVARIANT NoStarvation
INVARIANT WhenDoneOnce
INVARIANT ResultMatches
INVARIANT StoppedMeansIdle
INVARIANT WaitsOnOwn
CHECK_DEADLOCK FALSE
