------------------------------ MODULE LockSemSim ------------------------------
(* Behaviour generator (spec -> code): LockSem plus a history variable recording the
   predicted observable of every step; printed as JSON once a behaviour reaches Depth. *)
EXTENDS LockSem, TLC, Json
CONSTANT Depth
VARIABLE hist
Configs == {[limit |-> 1, lock |-> TRUE]} \cup {[limit |-> n, lock |-> FALSE] : n \in 1..3}
SInit == /\ \E c \in Configs : InitWith(c)
         /\ hist = <<>>
\* sets are printed as sequences by ToJson; the harness compares rr as a set
SNext == Next /\ hist' = Append(hist, last')
SSpec == SInit /\ [][SNext]_<<vars, hist>>
Emit == TLCGet("level") < Depth \/ PrintT(<<"BEH", ToJson([cfg |-> cfg, hist |-> hist])>>)
Stop == TLCGet("level") <= Depth
=============================================================================
