----------------------------- MODULE FsLockSim -----------------------------
(* Behaviour generator (spec -> code): random behaviours of the lock protocol with the predicted observable
   of every step; the harness imposes each schedule on the real lock()/unlock() and compares.            *)
EXTENDS FsLock, TLC, Json, Sequences
CONSTANT Depth
VARIABLE hist
SInit == /\ \E n \in 2..3, s \in BOOLEAN, m \in BOOLEAN : InitWith([n |-> n, stale |-> s, mortal |-> m, parent |-> FALSE])
         /\ hist = <<>>
SNext == Next /\ hist' = Append(hist, last')
SSpec == SInit /\ [][SNext]_<<vars, hist>>
Emit == TLCGet("level") < Depth \/ PrintT(<<"BEH", ToJson([cfg |-> cfg, hist |-> hist])>>)
Stop == TLCGet("level") <= Depth
=============================================================================
