SPECIFICATION Spec
CONSTANT MaxCalls = 2
CONSTANT MaxHandles = 1
CONSTANT KindSet = {"Later", "Give"}
CONSTANT Flags = {TRUE, FALSE}
CONSTANT Hows = {"ok", "err", "errx"}
CONSTANT Reasons = {2}
CONSTANT NObj = {1}
CONSTANT Depth = 6
CONSTRAINT Bound
VIEW View
INVARIANT ExactlyOnce
INVARIANT OwnResult
INVARIANT NothingPendingAfterLoss
INVARIANT WaitingExact
INVARIANT IdsDistinct
INVARIANT RefBalance
INVARIANT HandleDenotes
INVARIANT NoLeak
INVARIANT NeverBroken
PROPERTY ResultStable
CHECK_DEADLOCK FALSE
