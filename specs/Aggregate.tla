------------------------------ MODULE Aggregate ------------------------------
(* C04 -- twisted.internet.defer.DeferredList / gatherResults / race.

   Abs layer: the state is what the property names -- the outcome each input
   Deferred fired with, the order in which the aggregate learnt those outcomes,
   the aggregate's result, which inputs the aggregate cancelled, and what a
   callback added to an input *after* construction of the aggregate sees.

   The aggregate's result is a *function* AggOf(order, outcomes) written
   declaratively from the property text; every public call is one action whose
   observable (`last`) is predicted from it.  The order in which an aggregate
   cancels several inputs inside one call is left free (parameter `order`).

   Identities: input i (1-based) succeeds with value i, fails with error i; a
   canceller of kind 2 fires the input with value 10+i, kind 3 with error 10+i;
   kinds 0 (no canceller) and 1 (canceller that does nothing) make cancel() fire
   CancelledError.  Outcomes are pairs <<kind, id>>.

   cfg = [kind |-> "dlist" | "gather" | "race", foc, foe, ce |-> BOOLEAN, n |-> 1..]
   is a VARIABLE so one TLC run covers all configurations.                    *)
EXTENDS Naturals, Integers, Sequences, FiniteSets

VARIABLES cfg,      \* configuration record (see above)
          built,    \* has the aggregate been constructed
          st,       \* st[i]: outcome input i fired with, or Unfired
          ord,      \* sequence of input ids in the order the aggregate learnt their outcome
          agg,      \* the aggregate's result (NoAgg while unfired)
          nAgg,     \* number of times the aggregate's callbacks were fired
          aggCanc,  \* inputs that were cancelled by the aggregate
          wasCanc,  \* cancel() was called on the aggregate while it had not fired
          last      \* observable outcome of the last public call

vars == <<cfg, built, st, ord, agg, nAgg, aggCanc, wasCanc, last>>

N       == cfg.n
Inputs  == 1..N
Kinds   == 0..3
Unfired == <<"unfired", 0>>
NoPair  == <<"-", 0>>
NoAgg   == [t |-> "none", i |-> 0, o |-> NoPair, l |-> <<>>]

IsOk(o)   == o[1] = "ok"
IsFail(o) == o[1] \in {"err", "cancelled"}
Fired(s)  == {j \in DOMAIN s : s[j] # Unfired}

\* what cancel() makes an unfired input fire with, by canceller kind
COutcome(i, k) == IF k \in {0, 1} THEN <<"cancelled", 0>>
                  ELSE IF k = 2 THEN <<"ok", 10 + i>> ELSE <<"err", 10 + i>>

Min(S) == CHOOSE x \in S : \A y \in S : x <= y
Range(q) == {q[k] : k \in 1..Len(q)}
IsPermOf(q, S) == Len(q) = Cardinality(S) /\ Range(q) = S

\* position in q of the first input whose outcome satisfies P (0 if none)
FirstPos(q, s, P(_)) ==
    LET S == {k \in 1..Len(q) : P(s[q[k]])} IN IF S = {} THEN 0 ELSE Min(S)

-----------------------------------------------------------------------------
(* The aggregate's result as a function of what it has learnt (q = order, s = outcomes). *)

DListCore(q, s, foc, foe) ==
    LET pOk  == IF foc THEN FirstPos(q, s, IsOk) ELSE 0
        pEr  == IF foe THEN FirstPos(q, s, IsFail) ELSE 0
        pAll == IF Len(q) = N THEN N ELSE 0
        cands == {pOk, pEr, pAll} \ {0}
    IN IF cands = {} THEN NoAgg
       ELSE LET p == Min(cands) IN
            IF p = pOk THEN [t |-> "one", i |-> q[p], o |-> s[q[p]], l |-> <<>>]
            ELSE IF p = pEr THEN [t |-> "firsterr", i |-> q[p], o |-> s[q[p]], l |-> <<>>]
            ELSE [t |-> "list", i |-> 0, o |-> NoPair,
                  l |-> [k \in 1..N |-> <<IF IsOk(s[k]) THEN "T" ELSE "F", s[k][1], s[k][2]>>]]

GatherAgg(q, s) ==
    LET r == DListCore(q, s, FALSE, TRUE) IN
    IF r.t = "firsterr" THEN [t |-> "fail", i |-> 0, o |-> r.o, l |-> <<>>]
    ELSE IF r.t = "list" THEN [t |-> "vals", i |-> 0, o |-> NoPair,
                               l |-> [k \in 1..N |-> <<"-", s[k][1], s[k][2]>>]]
    ELSE r

RaceAgg(q, s) ==
    LET pOk == FirstPos(q, s, IsOk) IN
    IF pOk # 0 THEN [t |-> "race", i |-> q[pOk], o |-> s[q[pOk]], l |-> <<>>]
    ELSE IF Len(q) = N THEN [t |-> "group", i |-> 0, o |-> NoPair,
                             l |-> [k \in 1..N |-> <<"-", s[k][1], s[k][2]>>]]
    ELSE NoAgg

AggOf(q, s) == IF cfg.kind = "dlist" THEN DListCore(q, s, cfg.foc, cfg.foe)
               ELSE IF cfg.kind = "gather" THEN GatherAgg(q, s)
               ELSE RaceAgg(q, s)

\* what a callback added to an input after construction sees for raw outcome o
LateOut(o) == IF IsFail(o) /\ cfg.ce THEN <<"none", 0>> ELSE o
HasLate == cfg.kind # "race"       \* the property says nothing about race's inputs

-----------------------------------------------------------------------------
InitWith(c) ==
    /\ cfg = c /\ built = FALSE
    /\ st = [i \in 1..c.n |-> Unfired]
    /\ ord = <<>> /\ agg = NoAgg /\ nAgg = 0 /\ aggCanc = {} /\ wasCanc = FALSE
    /\ last = [e |-> "init"]

(* A firing: input i fires with outcome o; c = canceller kind if it fired because
   cancel() was called on it, 9 if callback()/errback() was called directly. *)
Direct == 9
Firing(i, o, c) == [i |-> i, o |-> o, c |-> c]
CancelF(i, k)   == Firing(i, COutcome(i, k), k)

StAfter(s, F) == [j \in DOMAIN s |->
                    IF \E k \in 1..Len(F) : F[k].i = j
                    THEN F[CHOOSE k \in 1..Len(F) : F[k].i = j].o ELSE s[j]]
Ids(F) == [k \in 1..Len(F) |-> F[k].i]

\* observable: canceller invocations ("cc") and the outcome each input fired with ("in"), in order
InsOf(F) ==
    LET f[k \in 0..Len(F)] ==
          IF k = 0 THEN <<>>
          ELSE f[k - 1]
               \o (IF F[k].c \in {1, 2, 3} THEN << <<"cc", F[k].i, "-", 0>> >> ELSE <<>>)
               \o << <<"in", F[k].i, F[k].o[1], F[k].o[2]>> >>
    IN f[Len(F)]

FiredInIndexOrder(s) ==
    LET f[k \in 0..N] == IF k = 0 THEN <<>>
                         ELSE IF s[k] # Unfired THEN Append(f[k - 1], k) ELSE f[k - 1]
    IN f[N]

(* The set of inputs the aggregate must cancel inside a call that starts with the
   firings `prim` (cancelAll: the call is cancel() on the aggregate). *)
CascadeSet(prim, builtAfter, cancelAll) ==
    LET stP  == StAfter(st, prim)
        ordP == IF ~builtAfter THEN <<>>
                ELSE IF built THEN ord \o Ids(prim) ELSE FiredInIndexOrder(stP)
        aggP == IF builtAfter THEN AggOf(ordP, stP) ELSE NoAgg
        need == /\ builtAfter /\ agg = NoAgg
                /\ \/ cancelAll
                   \/ cfg.kind = "race" /\ aggP.t = "race"
    IN IF need THEN Inputs \ Fired(stP) ELSE {}

(* One public call.  head = [e, i, o]; prim = the firings the caller performs
   directly; order/ks = the order in which, and the canceller kinds with which,
   the aggregate cancels the inputs it must cancel. *)
Do(head, prim, builtAfter, cancelAll, order, ks) ==
    LET cset == CascadeSet(prim, builtAfter, cancelAll)
        F    == prim \o [k \in 1..Len(order) |-> CancelF(order[k], ks[order[k]])]
        st2  == StAfter(st, F)
        ord2 == IF ~builtAfter THEN <<>>
                ELSE IF built THEN ord \o Ids(F)
                ELSE FiredInIndexOrder(StAfter(st, prim)) \o order
        agg2 == IF builtAfter THEN AggOf(ord2, st2) ELSE NoAgg
        firesNow == agg = NoAgg /\ agg2 # NoAgg
        lateSet == IF ~builtAfter \/ ~HasLate THEN {}
                   ELSE IF built THEN {<<F[k].i, LateOut(F[k].o)[1], LateOut(F[k].o)[2]>> : k \in 1..Len(F)}
                   ELSE {<<j, LateOut(st2[j])[1], LateOut(st2[j])[2]>> : j \in Fired(st2)}
    IN /\ IsPermOf(order, cset)
       /\ st' = st2 /\ ord' = ord2 /\ built' = builtAfter
       /\ agg' = agg2
       /\ nAgg' = nAgg + (IF firesNow THEN 1 ELSE 0)
       /\ aggCanc' = aggCanc \cup cset
       /\ wasCanc' = (wasCanc \/ (cancelAll /\ agg = NoAgg))
       /\ last' = [e |-> head.e, i |-> head.i, o |-> head.o, ret |-> "ok",
                   ins |-> InsOf(F),
                   agg |-> IF firesNow THEN <<agg2>> ELSE <<>>,
                   late |-> lateSet]
       /\ UNCHANGED cfg

(* Assumption on the environment (documented in notes/C04.md): inputs fired before
   the aggregate exists are fired in index order, so that "first" is unambiguous. *)
PreOrderOk(i) == built \/ \A j \in Fired(st) : j < i

\* d_i.callback(value) / d_i.errback(error) on an unfired input
Fire(i, o, order, ks) ==
    /\ i \in Inputs /\ st[i] = Unfired /\ o \in {"ok", "err"} /\ PreOrderOk(i)
    /\ Do([e |-> "fire", i |-> i, o |-> o], <<Firing(i, <<o, i>>, Direct)>>, built, FALSE, order, ks)

\* d_i.cancel() on an unfired input with canceller kind k
CancelInput(i, k, order, ks) ==
    /\ i \in Inputs /\ st[i] = Unfired /\ PreOrderOk(i)
    /\ Do([e |-> "cancelin", i |-> i, o |-> "-"], <<CancelF(i, k)>>, built, FALSE, order, ks)

\* d_i.cancel() on an input that has fired: no effect
CancelInputNoop(i) ==
    /\ i \in Inputs /\ st[i] # Unfired
    /\ Do([e |-> "cancelin", i |-> i, o |-> "-"], <<>>, built, FALSE, <<>>, <<>>)

\* DeferredList(...) / gatherResults(...) / race(...) over the n inputs, then observers added
Construct(order, ks) ==
    /\ ~built
    /\ Do([e |-> "construct", i |-> 0, o |-> "-"], <<>>, TRUE, FALSE, order, ks)

\* cancel() on the aggregate: every unfired input is cancelled if the aggregate has not fired
CancelAgg(order, ks) ==
    /\ built
    /\ Do([e |-> "cancelagg", i |-> 0, o |-> "-"], <<>>, TRUE, TRUE, order, ks)

-----------------------------------------------------------------------------
(* The property, as invariants (stated independently of AggOf). *)
PosIn(q, i) == CHOOSE k \in 1..Len(q) : q[k] = i
Before(q, i, j) == PosIn(q, i) < PosIn(q, j)
AllFired == Fired(st) = Inputs

TypeOK == /\ agg.t \in {"none", "one", "firsterr", "list", "fail", "vals", "race", "group"}
          /\ Range(ord) \subseteq Fired(st)
          /\ (built => Range(ord) = Fired(st))

\* fires exactly once: never more than once, and once every input has fired it has fired
FiresOnce == /\ nAgg <= 1 /\ (nAgg = 1) = (agg # NoAgg)
             /\ (built /\ AllFired => agg # NoAgg)
             /\ (~built => agg = NoAgg)

\* all-results form: only after all inputs, (success, result) pairs in input order
ListForm == agg.t \in {"list", "vals", "group"} =>
              /\ AllFired /\ Len(agg.l) = N
              /\ \A k \in Inputs : agg.l[k][2] = st[k][1] /\ agg.l[k][3] = st[k][2]
              /\ agg.t = "list"  => \A k \in Inputs : agg.l[k][1] = (IF IsOk(st[k]) THEN "T" ELSE "F")
              /\ agg.t = "vals"  => \A k \in Inputs : IsOk(st[k])
              /\ agg.t = "group" => \A k \in Inputs : IsFail(st[k])
              /\ agg.t = "list"  => cfg.kind = "dlist" /\ (cfg.foc => \A k \in Inputs : ~IsOk(st[k]))
                                                       /\ (cfg.foe => \A k \in Inputs : ~IsFail(st[k]))

\* first-success form: (result, index) of the first success, nothing that should have fired it earlier
FirstSuccess == agg.t \in {"one", "race"} =>
              /\ agg.i \in Range(ord) /\ agg.o = st[agg.i] /\ IsOk(agg.o)
              /\ \A j \in Range(ord) : IsOk(st[j]) /\ j # agg.i => Before(ord, agg.i, j)
              /\ agg.t = "one" => cfg.kind = "dlist" /\ cfg.foc
                                  /\ (cfg.foe => \A j \in Range(ord) : IsFail(st[j]) => Before(ord, agg.i, j))
              /\ agg.t = "race" => cfg.kind = "race"

\* first-failure form
FirstFailure == agg.t \in {"firsterr", "fail"} =>
              /\ \E i \in Range(ord) :
                    /\ (agg.t = "firsterr" => agg.i = i) /\ agg.o = st[i] /\ IsFail(st[i])
                    /\ \A j \in Range(ord) : IsFail(st[j]) /\ j # i => Before(ord, i, j)
                    /\ (cfg.kind = "dlist" /\ cfg.foc => \A j \in Range(ord) : IsOk(st[j]) => Before(ord, i, j))
              /\ (agg.t = "firsterr" => cfg.kind = "dlist" /\ cfg.foe)
              /\ (agg.t = "fail" => cfg.kind = "gather")

\* when asked, the aggregate does not wait for the remaining inputs
Prompt == built /\ agg = NoAgg =>
              /\ (cfg.kind = "dlist" /\ cfg.foc => \A j \in Fired(st) : ~IsOk(st[j]))
              /\ (cfg.kind = "dlist" /\ cfg.foe => \A j \in Fired(st) : ~IsFail(st[j]))
              /\ (cfg.kind = "gather" => \A j \in Fired(st) : ~IsFail(st[j]))
              /\ (cfg.kind = "race" => \A j \in Fired(st) : ~IsOk(st[j]))

\* race cancels every other input; a cancelled (unfired) aggregate cancels its inputs:
\* afterwards no input is left unfired, and only unfired inputs were ever cancelled
Cancels == /\ aggCanc \subseteq Fired(st)
           /\ (agg.t = "race" => AllFired)
           /\ (wasCanc => AllFired)

Inv == TypeOK /\ FiresOnce /\ ListForm /\ FirstSuccess /\ FirstFailure /\ Prompt /\ Cancels
=============================================================================
