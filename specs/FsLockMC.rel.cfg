SPECIFICATION Spec
CONSTANT Configs <- ConfigsStale2
VIEW View
INVARIANT CanRelease
CHECK_DEADLOCK FALSE
