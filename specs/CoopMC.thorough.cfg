SPECIFICATION Spec
CONSTANT MaxT = 3
CONSTANT MaxW = 3
CONSTANT MaxDf = 2
CONSTANT MaxPc = 2
CONSTANT MaxB = 2
CONSTANT Depth = 9
CONSTRAINT Bound
VIEW View
INVARIANT NoStarvation
INVARIANT WhenDoneOnce
INVARIANT ResultMatches
INVARIANT StoppedMeansIdle
INVARIANT WaitsOnOwn
CHECK_DEADLOCK FALSE
