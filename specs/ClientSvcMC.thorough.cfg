SPECIFICATION Spec
CONSTANT Depth = 5
CONSTANT MaxW = 2
CONSTANT MaxS = 2
CONSTANT MaxAtt = 3
CONSTANT MaxNow = 4
CONSTRAINT Bound
VIEW View
INVARIANT OneConn
INVARIANT RetryInv
INVARIANT WaitInv
INVARIANT StopInv
INVARIANT FiredOnce
CHECK_DEADLOCK FALSE
