SPECIFICATION Spec
CONSTANT ND = 3
CONSTANT FireOuts = {"ok", "err", "berr"}
CONSTANT RaiseKinds = {"err", "berr", "cancelled"}
CONSTANT NG = 2
CONSTANT MaxLevel = 30
CONSTRAINT Bound
VIEW View
INVARIANT TypeOK
INVARIANT ResultOnce
INVARIANT NothingOwed
INVARIANT CancelExact
INVARIANT NoStuck
PROPERTY Stable
PROPERTY ResumeExact
CHECK_DEADLOCK FALSE
