SPECIFICATION Spec
CONSTANT NOpt = 1
CONSTANT Reent = TRUE
CONSTANT MaxReq = 7
VIEW View
INVARIANT NoViol
INVARIANT AgreeWhenQuiet
INVARIANT AllFiredWhenQuiet
INVARIANT NoException
INVARIANT MsgBound
INVARIANT FlagsConsistent
CHECK_DEADLOCK FALSE
