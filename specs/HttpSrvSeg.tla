----------------------------- MODULE HttpSrvSeg -----------------------------
(* C18 -- segmentation invariance of the HTTP/1.1 server connection, exactly as the
   property states it (differential): for a byte stream and a split of it into
   deliveries, what the application received (method, target, version, field
   lines, body of every request, in order) and the bytes the server wrote after
   consuming n bytes in several deliveries equal what a fresh connection does
   when the same n bytes arrive in one piece -- up to the point where the server
   closes the connection (after which a real transport delivers nothing more, so
   the split run's output stays what it was and must equal the one-piece output
   of every longer prefix).

   An observation is a record [reqs |-> sequence of requests, wire |-> bytes
   written, closed |-> the server asked the transport to close].  The only state
   is how many comparisons were made and whether the split run has closed.
   The design-level counterpart (the channel algorithm's output is a function of
   the consumed prefix, for all item streams and all splits) is model-checked in
   HttpServerMC.                                                              *)
EXTENDS Naturals, Sequences

VARIABLES cfg,      \* [mode |-> "now" | "later" | "end"]  when the deterministic resource answers: inside process(),
                    \*   right after every delivery call, or only after the last delivery (then one comparison, at the end)
          ncmp,     \* comparisons made
          closedAt, \* 0, or the stream position at which a split run was seen closed
          last

vars == <<cfg, ncmp, closedAt, last>>

InitWith(c) == cfg = c /\ ncmp = 0 /\ closedAt = 0 /\ last = [e |-> "init"]

(* After n bytes: the split run shows sp, the one-piece run of the same n bytes shows wh. *)
Cut(n, sp, wh) ==
    /\ sp.reqs = wh.reqs          \* same requests, same order, same content
    /\ sp.wire = wh.wire          \* same bytes written
    /\ sp.closed = wh.closed      \* closed at the same point
    /\ ncmp' = ncmp + 1
    /\ closedAt' = IF sp.closed /\ closedAt = 0 THEN n ELSE closedAt
    /\ last' = [e |-> "cut", n |-> n]
    /\ UNCHANGED cfg

Inv == ncmp >= 0
=============================================================================
