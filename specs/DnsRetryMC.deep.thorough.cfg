SPECIFICATION Spec
CONSTRAINT BoundDeepT
VIEW View
INVARIANT OnePlace
INVARIANT ResultIffDone
INVARIANT TimerSound
INVARIANT NoLeak
INVARIANT Schedule
INVARIANT TimeoutAfterAll
INVARIANT OnePerName
INVARIANT TcpIdsUnique
INVARIANT PendHasConn
INVARIANT UpSound
PROPERTY ExactlyOnce
PROPERTY TimeMonotone
CHECK_DEADLOCK FALSE
