------------------------------ MODULE TPoolMC ------------------------------
EXTENDS TPool, TLC
CONSTANTS MaxT, MaxTh
Init == \E m \in 1..2 : InitWith([max |-> m])
Spec == Init /\ [][Next]_vars
Bound == nT <= MaxT /\ nTh <= MaxTh
=============================================================================
