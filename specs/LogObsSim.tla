------------------------------ MODULE LogObsSim ------------------------------
(* Behaviour generator (spec -> code): LogObs with the publisher's deliveries predicted
   by the code-shaped algorithm (ImplDelivery), plus the predicted observable of every step. *)
EXTENDS LogObs, TLC, Json
CONSTANTS Depth, MaxO, MaxRaising
VARIABLE hist
Segs == {"a", "ab", "b"}
NS1 == {<<x>> : x \in Segs}
NS2 == {<<x, y>> : x \in Segs, y \in Segs}
NS3 == {<<x, y, z>> : x \in {"a", "ab"}, y \in Segs, z \in {"a", "b"}}
Raising == Cardinality({o \in 1..nO : okind[o] # "ok"})
SInit == /\ \E d \in Levels, s \in {None, 0, 1, 2, 3, 5} : InitWith([default |-> d, size |-> s])
         /\ hist = <<>>
Case == /\ Len(hist) < Depth
        /\ \/ (nO < MaxO /\ \E kd \in (IF Raising < MaxRaising THEN OKinds ELSE {"ok"}) : AddObs(nO + 1, kd))
           \/ \E o \in 1..nO : AddObs(o, okind[o])
           \/ \E o \in 1..nO : RemoveObs(o)
           \/ Publish(ImplDelivery(obs, okind, nEv + 1))
           \/ \E ns \in {<<>>} \cup NS1 \cup NS2, lv \in Levels : SetLevel(ns, lv)
           \/ ClearLevels
           \/ \E ns \in NS1 \cup NS2 \cup NS3, lv \in Levels : FilterEvent(ns, lv)
           \/ \E ns \in {<<>>} \cup NS1 \cup NS2 \cup NS3 : QueryLevel(ns)
           \/ BufEvent
           \/ Replay
        /\ hist' = Append(hist, last')
Finish == /\ Len(hist) = Depth
          /\ PrintT(<<"BEH", ToJson([cfg |-> cfg, hist |-> hist])>>)
          /\ hist' = <<>> /\ last' = [e |-> "done"]
          /\ UNCHANGED <<cfg, obs, okind, nO, nEv, seen, due, flt, buf, nBuf>>
SNext == Case \/ Finish
SSpec == SInit /\ [][SNext]_<<vars, hist>>
Stop == last.e # "done"
=============================================================================
