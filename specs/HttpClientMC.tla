---------------------------- MODULE HttpClientMC ----------------------------
(* Exhaustive TLC run for C23 on the specification itself.
   Response streams are built by a reference serialiser from items (optional
   interim 100 response; status 200 / 204; Content-Length, chunked -- every way of
   cutting the body into at most two chunks, optional extension and trailer --, or
   close-delimited; bodies over representative octets incl. CR and '0'; GET and
   HEAD).  An ideal client (callbacks as early as possible, or ResponseDone
   reported late) is driven through EVERY segmentation (Deliver(k) for every k)
   and connection loss at EVERY octet position, with deliverBody now / later (at
   any moment, also after the loss) / never.  TLC checks
     Inv            : the property invariants in every reachable state,
     IdealAccepted  : in every state every next step of the ideal client is allowed
                      (the specification never demands the impossible),
     BuggyRejected  : each of a list of wrong callback sequences is refused
                      (Deferred fired twice / early / never, extra or altered body
                      octet, ResponseDone for a truncated body, PotentialDataLoss
                      for a framed one, consumer connectionLost twice or never).   *)
EXTENDS HttpClient, TLC, Integers
CONSTANTS MaxBody, Rich

BodySyms == IF Rich THEN {120, 13, 48} ELSE {120, 13}
Seqs(S, n) == UNION {[1..k -> S] : k \in 0..n}
CRLF == <<CR, LF>>
RECURSIVE ToHex(_)
ToHex(n) == LET d == n % 16
                ch == IF d < 10 THEN 48 + d ELSE 87 + d
            IN IF n < 16 THEN <<ch>> ELSE ToHex(n \div 16) \o <<ch>>
Dig3(c) == <<48 + (c \div 100), 48 + ((c \div 10) % 10), 48 + (c % 10)>>
StatusL(c) == <<72, 84, 84, 80, 47, 49, 46, 49, SP>> \o Dig3(c) \o <<SP>> \o CRLF
Interim == StatusL(100) \o CRLF
NCL == NContentLength
HdrLine(n, v) == n \o <<COLON>> \o v \o CRLF
Chunk(d, ext) == ToHex(Len(d)) \o (IF ext THEN <<SEMI, 97>> ELSE <<>>) \o CRLF \o d \o CRLF
LastChunk(tr) == <<48, CR, LF>> \o (IF tr THEN HdrLine(<<116>>, <<118>>) ELSE <<>>) \o CRLF
Chunkings(b) == {<<b>>} \cup {<<SubSeq(b, 1, i), SubSeq(b, i + 1, Len(b))>> : i \in 1..(Len(b) - 1)}
RECURSIVE Chunks(_, _, _)
Chunks(cs, i, ext) == IF i > Len(cs) THEN <<>> ELSE (IF cs[i] = <<>> THEN <<>> ELSE Chunk(cs[i], ext)) \o Chunks(cs, i + 1, ext)

Streams(isHead) ==
    LET pre == {<<>>, Interim}
    IN {p \o StatusL(204) \o CRLF : p \in pre}
       \cup (IF isHead
             THEN {p \o StatusL(200) \o HdrLine(NCL, <<53>>) \o CRLF : p \in pre} \cup {StatusL(200) \o HdrLine(NTransferEncoding, VChunked) \o CRLF, StatusL(200) \o CRLF}
             ELSE {p \o StatusL(200) \o HdrLine(NCL, <<48 + Len(b)>>) \o CRLF \o b : p \in pre, b \in Seqs(BodySyms, MaxBody)}
                  \cup {StatusL(200) \o CRLF \o b : b \in Seqs(BodySyms, MaxBody)}
                  \cup {p \o StatusL(200) \o HdrLine(NTransferEncoding, VChunked) \o CRLF \o Chunks(cs, 1, x) \o LastChunk(x) :
                            p \in pre, x \in BOOLEAN, cs \in UNION {Chunkings(b) : b \in Seqs(BodySyms, MaxBody)}})

-----------------------------------------------------------------------------
O(k, c, b, r) == [k |-> k, code |-> c, b |-> b, r |-> r]
Suffix(s, n) == SubSeq(s, n + 1, Len(s))
FinalReason == IF an.framing = "close" THEN "PotentialDataLoss" ELSE IF Complete(consumed) THEN "ResponseDone" ELSE "ResponseFailed"

IdealDeliver(k, eager) ==
    LET n == consumed + k
        fires == ~HdrDone(consumed) /\ HdrDone(n)
        att2 == att \/ (fires /\ cfg.dbody = "now")
        new == IF att2 /\ lc = 0 THEN Suffix(Received(n), Len(del)) ELSE <<>>
    IN (IF fires THEN <<O("resp", an.code, <<>>, "")>> ELSE <<>>)
       \o (IF new # <<>> THEN <<O("data", 0, new, "")>> ELSE <<>>)
       \o (IF att2 /\ lc = 0 /\ Complete(n) /\ eager THEN <<O("lost", 0, <<>>, "ResponseDone")>> ELSE <<>>)
IdealDeliverBody(eager) ==
    (IF Received(consumed) # <<>> THEN <<O("data", 0, Received(consumed), "")>> ELSE <<>>)
    \o (IF lostConn THEN <<O("lost", 0, <<>>, FinalReason)>>
        ELSE IF Complete(consumed) /\ eager THEN <<O("lost", 0, <<>>, "ResponseDone")>> ELSE <<>>)
IdealConnLost ==
    (IF reqD = "unfired" THEN <<O("fail", 0, <<>>, "")>> ELSE <<>>)
    \o (IF att /\ lc = 0 THEN <<O("lost", 0, <<>>, FinalReason)>> ELSE <<>>)

CanDeliverBody == cfg.dbody = "later" /\ reqD = "response" /\ ~att
IdealAccepted ==
    started =>
       /\ ~lostConn => /\ \A k \in 1..(Len(cfg.stream) - consumed), eager \in BOOLEAN : DeliverPost(k, IdealDeliver(k, eager)).ok
                       /\ ConnLostPost(IdealConnLost).ok
       /\ CanDeliverBody => \A eager \in BOOLEAN : DeliverBodyPost(IdealDeliverBody(eager)).ok

Resp == O("resp", an.code, <<>>, "")
LostD == O("lost", 0, <<>>, "ResponseDone")
BuggyDeliver(k) ==
    LET n == consumed + k
        id == IdealDeliver(k, TRUE)
        fires == ~HdrDone(consumed) /\ HdrDone(n)
        att2 == att \/ (fires /\ cfg.dbody = "now")
    IN (IF fires THEN {[tag |-> "fired-twice", obs |-> <<Resp>> \o id], [tag |-> "not-fired", obs |-> Tail(id)],
                       [tag |-> "fired-with-failure", obs |-> <<O("fail", 0, <<>>, "")>> \o Tail(id)],
                       [tag |-> "wrong-status", obs |-> <<O("resp", an.code + 1, <<>>, "")>> \o Tail(id)]}
        ELSE {[tag |-> IF HdrDone(n) THEN "fired-again" ELSE "fired-early", obs |-> <<Resp>> \o id]})
       \cup (IF att2 /\ lc = 0
             THEN {[tag |-> "extra-body-octet", obs |-> SelectSeq(id, LAMBDA o : o.k # "lost") \o <<O("data", 0, <<120>>, "")>>],
                   [tag |-> "potential-data-loss-while-connected", obs |-> SelectSeq(id, LAMBDA o : o.k # "lost") \o <<O("lost", 0, <<>>, "PotentialDataLoss")>>]}
                  \cup (IF Complete(n) THEN {[tag |-> "lost-twice", obs |-> id \o <<LostD>>]}
                        ELSE {[tag |-> "done-before-complete", obs |-> id \o <<LostD>>]})
                  \cup (IF Suffix(Received(n), Len(del)) # <<>>
                        THEN {[tag |-> "body-octet-dropped", obs |-> SelectSeq(id, LAMBDA o : o.k = "resp") \o <<LostD>>],
                              [tag |-> "body-octet-altered",
                               obs |-> [i \in 1..Len(id) |-> IF id[i].k = "data" THEN O("data", 0, <<(id[i].b[1] + 1) % 256>> \o Tail(id[i].b), "") ELSE id[i]]]}
                        ELSE {})
             ELSE {[tag |-> "data-without-consumer", obs |-> id \o <<O("data", 0, <<120>>, "")>>],
                   [tag |-> "lost-without-consumer", obs |-> id \o <<LostD>>]})
BuggyConnLost ==
    LET id == IdealConnLost
    IN (IF reqD = "unfired" THEN {[tag |-> "never-fired", obs |-> Tail(id)], [tag |-> "failed-twice", obs |-> <<id[1]>> \o id],
                                  [tag |-> "response-after-loss", obs |-> <<Resp>> \o Tail(id)]}
        ELSE {[tag |-> "fired-after-fired", obs |-> <<O("fail", 0, <<>>, "")>> \o id]})
       \cup (IF att /\ lc = 0
             THEN {[tag |-> "consumer-never-told", obs |-> SelectSeq(id, LAMBDA o : o.k # "lost")],
                   [tag |-> "consumer-told-twice", obs |-> id \o <<O("lost", 0, <<>>, FinalReason)>>]}
                  \cup {[tag |-> "wrong-reason", obs |-> SelectSeq(id, LAMBDA o : o.k # "lost") \o <<O("lost", 0, <<>>, r)>>] :
                            r \in {"ResponseDone", "PotentialDataLoss", "ResponseFailed"} \ {FinalReason}}
             ELSE IF att THEN {[tag |-> "consumer-told-again", obs |-> id \o <<O("lost", 0, <<>>, lr)>>]}
             ELSE {})
BuggyRejected ==
    (started /\ ~lostConn) =>
       /\ \A k \in 1..(Len(cfg.stream) - consumed) : \A m \in BuggyDeliver(k) :
             ~DeliverPost(k, m.obs).ok \/ (PrintT(<<"NOT-REJECTED", m.tag, k, consumed, m.obs>>) /\ FALSE)
       /\ \A m \in BuggyConnLost : ~ConnLostPost(m.obs).ok \/ (PrintT(<<"NOT-REJECTED", m.tag, consumed, m.obs>>) /\ FALSE)

-----------------------------------------------------------------------------
ASSUME \A k \in 101..106 : TLCSet(k, 0)
Seen(k, name) == TLCGet(k) = 1 \/ (TLCSet(k, 1) /\ PrintT(<<"ACTION", name>>))

Init == \E h \in BOOLEAN, db \in {"now", "later", "never"} : \E s \in Streams(h) : InitWith([stream |-> s, head |-> h, dbody |-> db])
DoStart == Start /\ Seen(101, "DoStart")
DoDeliver == \E k \in 1..(Len(cfg.stream) - consumed), eager \in BOOLEAN : Deliver(k, IdealDeliver(k, eager)) /\ Seen(102, "DoDeliver")
DoDeliverBody == \E eager \in BOOLEAN : DeliverBody(IdealDeliverBody(eager)) /\ Seen(103, "DoDeliverBody")
DoConnLost == ConnLost(IdealConnLost) /\ Seen(104, "DoConnLost")
Next == DoStart \/ DoDeliver \/ DoDeliverBody \/ DoConnLost
Spec == Init /\ [][Next]_vars
View == <<cfg, started, consumed, lostConn, reqD, att, del, lc, lr>>
\* every stream offered to the model must be analysable, and the vacuity guard of the invariants
AllAnalysable == an.ok
=============================================================================
