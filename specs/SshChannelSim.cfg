SPECIFICATION SSpec
CONSTANT Depth = 18
CONSTANT MaxWin = 5
CONSTANT MaxPkt = 4
CONSTANT MaxN = 6
CONSTANT MaxAdj = 4
CONSTRAINT Emit2
CONSTRAINT Stop
CHECK_DEADLOCK FALSE
