---------------------------- MODULE StrportsTrace ----------------------------
(* Batched trace validation for C46.  A trace is one use of the real code:
     cfg  : layout / target / keys / fill / prefix / off (see Strports.tla), quoter = "real"
     ev[1]: [e |-> "quote", text, q, exc]    -- quoteStringArgument(text) returned q
     ev[2]: [e |-> "parse", desc, args, kw, exc] -- the description handed to the real parser
                                                 and the args / kwargs it produced
   Verdict (Strict = FALSE): the description is the one the spec assembles from the observed q,
   no exception, and Holds (the text is found at its position).  With Strict = TRUE the observed
   parse must in addition equal the grammar machine's RefParse(desc) (diagnostic only: a
   rejection under Strict that is accepted otherwise is reported as drift, never as a violation). *)
EXTENDS Strports, TLC, Json, IOUtils
CONSTANT Strict

Traces == JsonDeserialize(IOEnv.TRACE_FILE)
VARIABLES tid, l
ASSUME \A t \in 1..Len(Traces) : TLCSet(t, 1)

T == Traces[tid]
E == T.ev[l]

TInit == /\ tid \in 1..Len(Traces) /\ l = 1
         /\ InitWith(Traces[tid].cfg)

\* quoteStringArgument(text) -> q : the property leaves the quoted form free
ObsQuote == /\ phase = "build" /\ E.e = "quote" /\ E.exc = ""
            /\ text' = E.text
            /\ desc' = Assemble(cfg, E.q)
            /\ phase' = "tok"
            /\ UNCHANGED <<cfg, pos, m>>

\* the real parser's result for that description
ObsParse == /\ phase = "tok" /\ E.e = "parse" /\ E.exc = ""
            /\ E.desc = desc
            /\ Holds(cfg, text, E.args, E.kw)
            /\ (Strict => LET r == RefParse(desc) IN
                           /\ ~r.err /\ r.kw = E.kw
                           /\ SubSeq(r.args, 2 - cfg.off, Len(r.args)) = E.args)   \* off = 0: the prefix is not handed on
            /\ phase' = "done"
            /\ UNCHANGED <<cfg, text, desc, pos, m>>

Step(A) == /\ l <= Len(T.ev) /\ A /\ l' = l + 1 /\ UNCHANGED tid
TNext == Step(ObsQuote) \/ Step(ObsParse)
TSpec == TInit /\ [][TNext]_<<vars, tid, l>>

Progress == TLCSet(tid, IF TLCGet(tid) > l THEN TLCGet(tid) ELSE l)
Rejected == {<<t, TLCGet(t)>> : t \in {u \in 1..Len(Traces) : TLCGet(u) # Len(Traces[u].ev) + 1}}
Accepted == Rejected = {} \/ (PrintT(<<"REJECTED", Rejected>>) /\ FALSE)
=============================================================================
