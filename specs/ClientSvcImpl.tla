----------------------------- MODULE ClientSvcImpl -----------------------------
(* C58, Impl layer -- ClientService AS CODED (src/twisted/application/_client_service.py):
   the automat state table of makeMachine(), _Core (awaitingConnected, stopWaiters, failedAttempts),
   the Deferred chain of attemptConnection (endpoint -> prepareConnection -> _connectionMade, errback
   _connectionFailed, cancel() forwarded to whichever Deferred is pending), and AUTOMAT'S DISPATCH:
   an input arriving while another input's outputs run is queued when it returns None and raises
   RuntimeError otherwise; the state changes before the outputs run; an input without a transition
   raises NoTransition; queued inputs run after the outputs, in order; when an output raises, the
   queue is dropped.  Exceptions raised inside Deferred callbacks are swallowed by the Deferred
   (a failing _connectionMade is routed to _connectionFailed, as the chain does).

   The environment is the adapter's: endpoint answering async / ok / fail inside connect(), hook
   answering ok / fail / async, transport reporting the close later or inside loseConnection(),
   user callbacks that call startService / stopService / whenConnected when their Deferred fires.
   A Deferred that has already fired when it is returned runs the user's callback right after the
   call returns (outside the transition); one that fires later runs it inside the transition.

   One top-level call or stimulus is executed functionally by Exec, yielding the new state and the
   event record the adapter would log: [e, a, k, then, m, res, newid, obs (set), nested (sequence)].
   ClientSvcImplMC feeds these records to the property specification ClientSvc.                *)
EXTENDS Naturals, Integers, Sequences, FiniteSets, TLC

None == -1
Ob(k, i, r, c) == [k |-> k, i |-> i, r |-> r, c |-> c]

MInit(c) ==
    [ hook |-> c.hook, syncClose |-> c.syncClose, pol |-> c.pol, cmode |-> c.cmode, hmode |-> c.hmode,
      st |-> "Init", running |-> FALSE, fa |-> 0,
      aw |-> <<>>,            \* awaitingConnected: [id, rem (-1 = None), then]
      sw |-> <<>>,            \* stopWaiters: [id, then]
      data |-> 0,             \* state-specific data: attempt id (Connecting) / connection id (Connected)
      chain |-> <<>>,         \* per attempt (index = attempt id): [ph |-> "ep" | "hook" | "done", c |-> connection, acc |-> handed to the machine (`accepted`)]
      att |-> 0,              \* attempt pending at the endpoint (environment)
      conns |-> {},           \* open connections (environment)
      hooks |-> {},           \* connections whose hook Deferred is pending (environment)
      timerAt |-> None, now |-> 0,
      inTrans |-> FALSE, post |-> <<>>, exc |-> "none",
      nW |-> 0, nS |-> 0, nConn |-> 0,
      firedNow |-> <<>>,      \* Deferreds that were already fired when returned: their callbacks run after the call
      cur |-> [kind |-> "-", id |-> 0],   \* the Deferred the top-level call in progress is about to return (no callback attached yet)
      obs |-> {}, nres |-> <<>> ]

Max(a, b) == IF a > b THEN a ELSE b
Min(a, b) == IF a < b THEN a ELSE b
Pol(M, n) == M.pol[Max(1, Min(n, Len(M.pol)))]
AddObs(M, k, i) == [M EXCEPT !.obs = @ \cup {Ob(k, i, "-", 0)}]
In(k) == [k |-> k, c |-> 0, n |-> 0, then |-> "none", lim |-> None]          \* a machine input (n: id of the Deferred it returns)

RECURSIVE Send(_, _), Drain(_), Transition(_, _), FireWaiters(_, _, _, _), FireStops(_, _), NestedCall(_, _, _, _)
RECURSIVE ChainFail(_, _), Made(_, _, _), Establish(_, _), AttemptConnection(_), CancelAttempt(_, _), DropConn(_, _)

(* ---- automat dispatch ---- *)
Send(M, inp) ==
    IF M.exc # "none" THEN M
    ELSE IF M.inTrans
    THEN IF inp.k \in {"stop", "when"} THEN [M EXCEPT !.exc = "RuntimeError"]
         ELSE [M EXCEPT !.post = Append(@, inp)]
    ELSE LET outer == M.post
             M1 == Transition([M EXCEPT !.inTrans = TRUE, !.post = <<>>], inp)
             M2 == [M1 EXCEPT !.inTrans = FALSE]
         IN IF M2.exc # "none" THEN [M2 EXCEPT !.post = outer]           \* the queue of this input is dropped
            ELSE [Drain(M2) EXCEPT !.post = outer]

Drain(M) ==
    IF M.post = <<>> \/ M.exc # "none" THEN M
    ELSE LET rest == Tail(M.post)
             M1 == Send([M EXCEPT !.post = <<>>], Head(M.post))
         IN IF M1.exc # "none" THEN M1 ELSE Drain([M1 EXCEPT !.post = rest])

(* a call made by a user callback: by = "w"/"s", id = the Deferred whose callback it is *)
NestedCall(M, by, id, call) ==
    IF call = "none" THEN M
    ELSE LET rec(res, nid) == [by |-> by, id |-> id, call |-> call, res |-> res, newid |-> nid]
         IN CASE call = "start" ->
                   LET M1 == IF M.running THEN M ELSE Send([M EXCEPT !.running = TRUE], In("start"))
                   IN [M1 EXCEPT !.nres = Append(@, rec("ok", 0))]
              [] call = "stop" ->
                   LET M1 == Send([M EXCEPT !.running = FALSE], [In("stop") EXCEPT !.n = M.nS + 1])
                   IN IF M1.exc # "none"
                      THEN [M1 EXCEPT !.exc = "none", !.nres = Append(@, rec("EXC:" \o M1.exc, 0))]  \* raised into the callback
                      ELSE [M1 EXCEPT !.nS = @ + 1, !.nres = Append(@, rec("ok", M.nS + 1))]
              [] OTHER ->
                   LET M1 == Send(M, [In("when") EXCEPT !.n = M.nW + 1])
                   IN IF M1.exc # "none"
                      THEN [M1 EXCEPT !.exc = "none", !.nres = Append(@, rec("EXC:" \o M1.exc, 0))]
                      ELSE [M1 EXCEPT !.nW = @ + 1, !.nres = Append(@, rec("ok", M.nW + 1))]

(* fire whenConnected Deferreds (sequence of [id, rem, then]) in order; callbacks run at once *)
FireWaiters(M, ws, r, c) ==
    IF ws = <<>> THEN M
    ELSE LET w  == Head(ws)
             M1 == [M EXCEPT !.obs = @ \cup {Ob("w", w.id, r, c)}]
         IN IF M.cur = [kind |-> "w", id |-> w.id]
            THEN FireWaiters([M EXCEPT !.firedNow = Append(@, [kind |-> "w", id |-> w.id, then |-> w.then, r |-> r, c |-> c])], Tail(ws), r, c)
            ELSE FireWaiters(NestedCall(M1, "w", w.id, w.then), Tail(ws), r, c)
FireStops(M, ss) ==
    IF ss = <<>> THEN M
    ELSE LET s  == Head(ss)
             M1 == [M EXCEPT !.obs = @ \cup {Ob("s", s.id, "OK", 0)}]
         IN IF M.cur = [kind |-> "s", id |-> s.id]
            THEN FireStops([M EXCEPT !.firedNow = Append(@, [kind |-> "s", id |-> s.id, then |-> s.then, r |-> "OK", c |-> 0])], Tail(ss))
            ELSE FireStops(NestedCall(M1, "s", s.id, s.then), Tail(ss))

Unawait(M, r, c) == FireWaiters([M EXCEPT !.aw = <<>>], M.aw, r, c)                 \* _Core.unawait
FinishStopping(M) == FireStops([M EXCEPT !.sw = <<>>], M.sw)                          \* _Core.finishStopping

WaitForRetry(M) ==                                                                      \* state Waiting's data factory
    LET n == M.fa + 1
    IN AddObs([M EXCEPT !.fa = n, !.timerAt = M.now + Pol(M, n), !.data = 0], "policy", n)

FailedWhenConnecting(M) ==
    LET ready == SelectSeq(M.aw, LAMBDA w : w.rem # None /\ w.rem <= 1)          \* `remaining is None` / `remaining <= 1`
        keep  == SelectSeq(M.aw, LAMBDA w : ~(w.rem # None /\ w.rem <= 1))
        dec   == [i \in 1..Len(keep) |-> IF keep[i].rem = None THEN keep[i] ELSE [keep[i] EXCEPT !.rem = @ - 1]]
    IN FireWaiters([M EXCEPT !.aw = dec], ready, "ERR", 0)

(* ---- the Deferred chain of attemptConnection ---- *)
Swallow(M) == [M EXCEPT !.exc = "none", !.obs = IF M.exc = "none" THEN @ ELSE @ \cup {Ob("swallowed", 0, M.exc, 0)}]
ChainFail(M, a) ==          \* the chain of attempt a delivers a failure: errback c._connectionFailed
    Swallow(Send([M EXCEPT !.chain[a].ph = "done"], In("_connectionFailed")))
Made(M, a, c) ==            \* ... delivers the prepared protocol: callback c._connectionMade, then the errback if that raised
    LET M1 == Send([M EXCEPT !.chain[a].ph = "done", !.chain[a].acc = TRUE], [In("_connectionMade") EXCEPT !.c = c])   \* made(): accepted.append(True)
    IN IF M1.exc = "none" THEN M1
       ELSE Swallow(Send([M1 EXCEPT !.exc = "none"], In("_connectionFailed")))
Establish(M, a) ==          \* the endpoint's Deferred fires with a protocol
    LET c  == M.nConn + 1
        M1 == [M EXCEPT !.nConn = c, !.conns = @ \cup {c}, !.att = IF @ = a THEN 0 ELSE @, !.chain[a] = [ph |-> "hook", c |-> c, acc |-> FALSE]]
    IN IF ~M.hook THEN Made(M1, a, c)
       ELSE LET M2 == AddObs(M1, "prep", c)
            IN CASE M.hmode = "ok"   -> Made(M2, a, c)
                 [] M.hmode = "fail" -> ChainFail(M2, a)
                 [] OTHER            -> [M2 EXCEPT !.hooks = @ \cup {c}]
AttemptConnection(M) ==     \* state Connecting's data factory
    LET a  == Len(M.chain) + 1
        M1 == AddObs([M EXCEPT !.chain = Append(@, [ph |-> "ep", c |-> 0, acc |-> FALSE]), !.data = a, !.att = a], "connect", a)
    IN CASE M.cmode = "ok"   -> Establish(M1, a)
         [] M.cmode = "fail" -> ChainFail([M1 EXCEPT !.att = 0], a)
         [] OTHER            -> M1
CancelAttempt(M, a) ==      \* attempt.cancel()
    CASE M.chain[a].ph = "ep"   -> ChainFail(AddObs([M EXCEPT !.att = 0], "cancel", a), a)
      [] M.chain[a].ph = "hook" /\ M.chain[a].c \in M.hooks -> ChainFail([M EXCEPT !.hooks = @ \ {M.chain[a].c}], a)
      [] OTHER                  -> M
DropConn(M, c) ==           \* the transport reports the loss: proxy.connectionLost -> disconnected() of the attempt that made c
    LET a  == CHOOSE x \in 1..Len(M.chain) : M.chain[x].c = c
        M1 == [M EXCEPT !.conns = @ \ {c}]
    IN IF M.chain[a].acc THEN Send(M1, In("_clientDisconnected"))      \* the accepted connection: an input of the machine
       ELSE CancelAttempt(M1, a)                                        \* lost before it was accepted: connectingProxy.cancel()
LoseConnection(M, c) ==
    LET M1 == AddObs(M, "lose", c)
    IN IF M.syncClose /\ c \in M.conns THEN DropConn(M1, c) ELSE M1

(* ---- the state table; outputs of a transition run with the data of the state it leaves ---- *)
WaitStop(M, id, then) == [M EXCEPT !.sw = Append(@, [id |-> id, then |-> then])]
Await(M, id, k, then) == [M EXCEPT !.aw = Append(@, [id |-> id, rem |-> k, then |-> then])]
FiredNow(M, kind, id, then, r, c) == [M EXCEPT !.firedNow = Append(@, [kind |-> kind, id |-> id, then |-> then, r |-> r, c |-> c])]
NoTrans(M) == [M EXCEPT !.exc = "NoTransition"]

Transition(M, inp) ==
    LET st == M.st
        d  == M.data
        To(s) == [M EXCEPT !.st = s]
    IN CASE inp.k = "start" ->
              CASE st \in {"Init", "Stopped"} -> AttemptConnection(To("Connecting"))
                [] st = "Disconnecting"       -> To("Restarting")
                [] OTHER                      -> M
         [] inp.k = "stop" ->
              CASE st \in {"Init", "Stopped"} -> FiredNow(Unawait(To("Stopped"), "ERR", 0), "s", inp.n, inp.then, "OK", 0)   \* immediateStop
                [] st = "Connecting"    -> CancelAttempt(WaitStop(To("Disconnecting"), inp.n, inp.then), d)
                [] st = "Waiting"       ->
                      LET M1 == WaitStop(To("Stopped"), inp.n, inp.then)
                          M2 == Unawait(M1, "ERR", 0)
                      IN FinishStopping([M2 EXCEPT !.timerAt = None])
                [] st = "Connected"     -> LoseConnection(WaitStop(To("Disconnecting"), inp.n, inp.then), d)
                [] OTHER                -> WaitStop(To("Disconnecting"), inp.n, inp.then)   \* Disconnecting, Restarting
         [] inp.k = "when" ->
              CASE st = "Connected" -> FiredNow(M, "w", inp.n, inp.then, "OK", d)
                [] st = "Stopped"   -> FiredNow(M, "w", inp.n, inp.then, "ERR", 0)
                [] OTHER            -> Await(M, inp.n, inp.lim, inp.then)
         [] inp.k = "_connectionMade" ->
              IF st = "Connecting" THEN Unawait([To("Connected") EXCEPT !.fa = 0, !.data = inp.c], "OK", inp.c)
              ELSE NoTrans(M)
         [] inp.k = "_connectionFailed" ->
              CASE st = "Connecting"    -> FailedWhenConnecting(WaitForRetry(To("Waiting")))
                [] st = "Connected"     -> WaitForRetry(To("Waiting"))
                [] st = "Disconnecting" -> FinishStopping(Unawait(To("Stopped"), "ERR", 0))
                [] OTHER                -> NoTrans(M)
         [] inp.k = "_reconnect" ->
              IF st = "Waiting" THEN AttemptConnection(To("Connecting")) ELSE NoTrans(M)
         [] inp.k = "_clientDisconnected" ->
              CASE st = "Connected"     -> WaitForRetry(To("Waiting"))
                [] st = "Disconnecting" -> FinishStopping(Unawait(To("Stopped"), "ERR", 0))
                [] st = "Restarting"    -> FinishStopping(AttemptConnection(To("Connecting")))
                [] OTHER                -> NoTrans(M)
         [] OTHER -> NoTrans(M)

(* ---- the adapter: one top-level call / stimulus -> new state + logged event ---- *)
RECURSIVE RunFiredNow(_)
RunFiredNow(M) ==           \* callbacks of Deferreds that were already fired when returned (run outside any transition)
    IF M.firedNow = <<>> THEN M
    ELSE LET f  == Head(M.firedNow)
             M1 == [M EXCEPT !.firedNow = Tail(@), !.obs = @ \cup {Ob(f.kind, f.id, f.r, f.c)}]
         IN RunFiredNow(NestedCall(M1, f.kind, f.id, f.then))

Ev(e) == [e |-> e, a |-> 0, k |-> 0, then |-> "none", m |-> "-", res |-> "ok", newid |-> 0]
Fresh(M) == [M EXCEPT !.obs = {}, !.nres = <<>>, !.exc = "none", !.firedNow = <<>>, !.cur = [kind |-> "-", id |-> 0]]
Finish(M, ev) ==
    LET M1 == RunFiredNow([M EXCEPT !.cur = [kind |-> "-", id |-> 0]])
        r  == IF M1.exc = "none" THEN "ok" ELSE "EXC:" \o M1.exc
    IN [st |-> [M1 EXCEPT !.exc = "none"], ev |-> [ev EXCEPT !.res = r] @@ [obs |-> M1.obs, nested |-> M1.nres]]

\* o: [op, k, then, c, d, m]
Exec(M0, o) ==
    LET M == Fresh(M0)
    IN CASE o.op = "start" ->
              Finish(IF M.running THEN M ELSE Send([M EXCEPT !.running = TRUE], In("start")), Ev("start"))
         [] o.op = "stop" ->
              LET M1 == Send([M EXCEPT !.running = FALSE, !.cur = [kind |-> "s", id |-> M.nS + 1]], [In("stop") EXCEPT !.n = M.nS + 1, !.then = o.then])
              IN Finish([M1 EXCEPT !.nS = @ + 1], [Ev("stop") EXCEPT !.then = o.then, !.newid = M.nS + 1])
         [] o.op = "when" ->
              LET M1 == Send([M EXCEPT !.cur = [kind |-> "w", id |-> M.nW + 1]], [In("when") EXCEPT !.n = M.nW + 1, !.then = o.then, !.lim = o.k])
              IN Finish([M1 EXCEPT !.nW = @ + 1], [Ev("when") EXCEPT !.k = o.k, !.then = o.then, !.newid = M.nW + 1])
         [] o.op = "succeed"  -> Finish(Establish(M, M.att), [Ev("succeed") EXCEPT !.a = M.att])
         [] o.op = "fail"     -> Finish(ChainFail([M EXCEPT !.att = 0], M.att), [Ev("fail") EXCEPT !.a = M.att])
         [] o.op = "prepok"   ->
              LET a == CHOOSE x \in 1..Len(M.chain) : M.chain[x].ph = "hook" /\ M.chain[x].c = o.c
              IN Finish(Made([M EXCEPT !.hooks = @ \ {o.c}], a, o.c), [Ev("prepok") EXCEPT !.a = o.c])
         [] o.op = "prepfail" ->
              LET a == CHOOSE x \in 1..Len(M.chain) : M.chain[x].ph = "hook" /\ M.chain[x].c = o.c
              IN Finish(ChainFail([M EXCEPT !.hooks = @ \ {o.c}], a), [Ev("prepfail") EXCEPT !.a = o.c])
         [] o.op = "drop"     -> Finish(DropConn(M, o.c), [Ev("drop") EXCEPT !.a = o.c])
         [] o.op = "adv"      ->
              LET M1 == [M EXCEPT !.now = @ + o.d]
              IN Finish(IF M1.timerAt # None /\ M1.timerAt <= M1.now THEN Send([M1 EXCEPT !.timerAt = None], In("_reconnect")) ELSE M1,
                        [Ev("adv") EXCEPT !.a = o.d])
         [] o.op = "cmode"    -> Finish([M EXCEPT !.cmode = o.m], [Ev("cmode") EXCEPT !.m = o.m])
         [] OTHER             -> Finish([M EXCEPT !.hmode = o.m], [Ev("hmode") EXCEPT !.m = o.m])
=============================================================================
