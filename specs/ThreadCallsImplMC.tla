--------------------------- MODULE ThreadCallsImplMC ---------------------------
EXTENDS ThreadCallsImpl, TLC
CONSTANTS MaxN, Waker
Ns == {<<a>> : a \in 0..MaxN + 1} \cup {<<a, b>> : a, b \in 0..MaxN}
Init == \E n \in Ns : IInitWith([n |-> n, waker |-> Waker])
Spec == Init /\ [][INext]_ivars /\ Fair
\* reachability (must be violated): a producer appends in the window between Check and Block
NeverWindow == ~(rs = "Checked" /\ queue # <<>>)
NeverLeftover == ~(rs = "Checked" /\ queue # <<>> /\ \A p \in PI : pc[p] = "idle" /\ wake)
=============================================================================
