SPECIFICATION Spec
CONSTANT Ops = 5
CONSTANT MaxD = 2
CONSTANT MaxPause = 1
CONSTANT Fixed = FALSE
CONSTANT Against = "abs"
CONSTANT Plain <- PlainTiny
VIEW View
INVARIANT RefinesObs
INVARIANT DepthOne
INVARIANT ChainBounded
INVARIANT ITypeOK
CHECK_DEADLOCK FALSE
