SPECIFICATION Spec
CONSTANT Ops = 5
CONSTANT MaxD = 2
CONSTANT MaxPause = 1
CONSTANT Modes <- ModesCodedAbs
CONSTANT Plain <- PlainTiny
VIEW View
INVARIANT RefinesObs
CHECK_DEADLOCK FALSE
