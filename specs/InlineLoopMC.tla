----------------------------- MODULE InlineLoopMC -----------------------------
EXTENDS InlineLoop, TLC
CONSTANTS MaxN, Unfold
Scripts(n) == [1..n -> {"fired", "unfired"}]
Init == \E n \in 0..MaxN : \E s \in Scripts(n) : InitWith([n |-> n, script |-> s, unfold |-> Unfold])
Spec == Init /\ [][Next]_vars
=============================================================================
