SPECIFICATION Spec
CONSTANT NS = 1
CONSTANT MaxWrite = 2
CONSTANT MaxWU = 1
CONSTANT MaxSet = 0
CONSTANT CW = {3}
CONSTANT IW = {1}
CONSTANT MF = {2}
INVARIANT NoOvershoot
INVARIANT InOrderComplete
INVARIANT NotDead
INVARIANT QueueConsistent
PROPERTY OutputLegal
PROPERTY Resume
CHECK_DEADLOCK FALSE
