--------------------------- MODULE AmpWireArgTrace ---------------------------
(* Batched trace validation for C30 (argument structure): a real amp.Command with ONE
   argument of the given type serialises the given value through Command.makeArguments
   + AmpBox.serialize ("enc": res, wr = bytes) and decodes it back through amp.parseString +
   Command.parseArguments ("dec": v = decoded value in canonical form).  The real encoder's
   bytes must pass the reference decoder (WireOK) and the real decoder's value must equal
   the reference decoder's and the original.                                              *)
EXTENDS AmpWireArg, TLC, Json, IOUtils

Traces == JsonDeserialize(IOEnv.TRACE_FILE)
VARIABLES tid, l
ASSUME \A t \in 1..Len(Traces) : TLCSet(t, 1)

T == Traces[tid]
E == T.ev[l]

TInit == /\ tid \in 1..Len(Traces) /\ l = 1
         /\ AInitWith([name |-> Traces[tid].cfg.name, t |-> Traces[tid].cfg.t, v |-> Traces[tid].cfg.v])

Step(A) == /\ l <= Len(T.ev) /\ A /\ ArgInv' /\ l' = l + 1 /\ UNCHANGED tid

TNext == \/ (E.e = "enc" /\ E.res = "ok" /\ Step(EncodeOk(E.wr)))
         \/ (E.e = "enc" /\ E.res = "refused" /\ E.wr = <<>> /\ Step(EncodeRefuse))
         \/ (E.e = "dec" /\ E.res = "ok" /\ Step(Decode /\ adec' = E.v))

TSpec == TInit /\ [][l <= Len(T.ev) /\ TNext]_<<avars, tid, l>>

Progress == TLCSet(tid, IF TLCGet(tid) > l THEN TLCGet(tid) ELSE l)
Rejected == {<<t, TLCGet(t)>> : t \in {u \in 1..Len(Traces) : TLCGet(u) # Len(Traces[u].ev) + 1}}
Accepted == Rejected = {} \/ (PrintT(<<"REJECTED", Rejected>>) /\ FALSE)
=============================================================================
