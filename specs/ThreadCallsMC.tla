----------------------------- MODULE ThreadCallsMC -----------------------------
(* Exhaustive check of the Abs layer: the guarded Issue/Run actions of ThreadCalls imply the
   clauses of C13, stated here over the execution history `ran`. *)
EXTENDS ThreadCalls, TLC
CONSTANT MaxN
VARIABLE ran      \* history: sequence of [p, i, thr, idle, lat] in execution order

Ns == {<<a>> : a \in 0..MaxN} \cup {<<a, b>> : a, b \in 0..MaxN} \cup {<<a, b, c>> : a, b, c \in 0..1}
Init == (\E n \in Ns : InitWith([n |-> n])) /\ ran = <<>>

IssueStep == \E p \in P, idle \in BOOLEAN : Issue(p, idle) /\ UNCHANGED ran
RunStep == \E p \in P : \E i \in 1..cfg.n[p], thr \in Threads, lat \in 0..MaxLat :
              /\ Run(p, i, thr, lat)
              /\ ran' = Append(ran, [p |-> p, i |-> i, thr |-> thr, idle |-> (<<p, i>> \in idl), lat |-> lat])
MCNext == IssueStep \/ RunStep
Spec == Init /\ [][MCNext]_<<vars, ran>>

R == 1..Len(ran)
ExactlyOnce      == \A a, b \in R : a # b => ~(ran[a].p = ran[b].p /\ ran[a].i = ran[b].i)
PerProducerOrder == \A a, b \in R : (a < b /\ ran[a].p = ran[b].p) => ran[a].i < ran[b].i
OnlyIssued       == \A a \in R : ran[a].i \in 1..issued[ran[a].p]
NoGap            == \A a \in R : \A j \in 1..ran[a].i : \E b \in 1..a : ran[b].p = ran[a].p /\ ran[b].i = j
ReactorThread    == \A a \in R : ran[a].thr = "R"
IdlePrompt       == \A a \in R : ran[a].idle => ran[a].lat = 0
AtQuiescence     == Quiescent => \A p \in P : \A i \in 1..cfg.n[p] : \E a \in R : ran[a].p = p /\ ran[a].i = i
\* vacuity: these must be violated (reachability of the interesting states)
NeverQuiescentNonTrivial == ~(Quiescent /\ Len(ran) >= 3 /\ \E a \in R : ran[a].idle)
NeverLate == \A a \in R : ran[a].lat = 0
\* both at once (one TLC run in the quick tier)
NeverBoth == ~(Quiescent /\ Len(ran) >= 3 /\ (\E a \in R : ran[a].idle) /\ (\E a \in R : ran[a].lat > 0))
=============================================================================
