----------------------------- MODULE TimersAbsMC -----------------------------
(* Exhaustive check that the abstract timer semantics (TimersAbs) implies every clause of
   C08 / C09 as stated in TimersProp, for both flavours, with and without negative delay(). *)
EXTENDS TimersProp, TLC
CONSTANTS Flavours, MaxCalls, Ds, NegMax, MaxNow, Depth
NegDs == {0 - k : k \in 1..NegMax}

Init == \E f \in Flavours, n \in BOOLEAN : InitWith([flavour |-> f, neg |-> n])

NCallLater     == \E d \in Ds : PCallLater(d)
NCancelOk      == \E i \in Ids : PCancelOk(i)
NCancelRefused == \E i \in Ids : PCancelRefused(i)
NResetOk       == \E i \in Ids, d \in Ds : PResetOk(i, d)
NResetRefused  == \E i \in Ids : PResetRefused(i, 1)
NDelayOk       == \E i \in Ids, d \in Ds \cup NegDs : PDelayOk(i, d)
NDelayRefused  == \E i \in Ids : PDelayRefused(i, 1)
NGdc           == PGdc
NTimeout       == \E v \in 0..MaxNow, b \in BOOLEAN : PTimeout(v, b)
NAdvanceReactor == \E d \in Ds : d > 0 /\ PAdvanceReactor(d)
NIterBegin     == PIterBegin
NAdvanceClock  == \E d \in Ds : PAdvanceClock(d)
NRunBegin      == \E i \in Ids : PRunBegin(i)
NRunEnd        == PRunEnd
NIterEnd       == PIterEnd

Next == \/ NCallLater \/ NCancelOk \/ NCancelRefused \/ NResetOk \/ NResetRefused
        \/ NDelayOk \/ NDelayRefused \/ NGdc \/ NTimeout
        \/ NAdvanceReactor \/ NIterBegin \/ NAdvanceClock \/ NRunBegin \/ NRunEnd \/ NIterEnd
Spec == Init /\ [][Next]_vars

Bound == Len(calls) <= MaxCalls /\ now <= MaxNow /\ TLCGet("level") <= Depth
(* observations that change nothing are kept out of the state space *)
View == <<cfg, now, calls, iter, phase, running, runs, firstOK, doneNow>>

(* the run phase can always make progress: either some call may start or the phase may end *)
NoStuck == (phase = "iter" /\ running = 0) => (ENABLED NRunBegin \/ ENABLED NIterEnd)
=============================================================================
