SPECIFICATION Spec
CONSTANT MaxT = 4
CONSTANT MaxR = 1
CONSTANT MaxF = 2
CONSTANT KindSet = "simple"
VIEW View
INVARIANT ExactlyOnce
INVARIANT OnlyRemaining
INVARIANT Accounted
INVARIANT PhaseOrder
INVARIANT DeferredGate
INVARIANT Complete
CHECK_DEADLOCK FALSE
