SPECIFICATION Spec
CONSTANT MaxOctets = 1
CONSTANT MaxItems = 2
CONSTANT MaxDepth = 1
CONSTANT MaxLists = 1
CONSTANT Stepwise = TRUE
INVARIANT RoundTrip
INVARIANT StepwiseIsRefParse
CHECK_DEADLOCK FALSE
