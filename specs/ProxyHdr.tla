------------------------------ MODULE ProxyHdr ------------------------------
(* C47 -- PROXY protocol headers are parsed regardless of segmentation.

   A stream is described abstractly by cfg (chosen by TLC in the exhaustive run, by the generator
   in conformance runs, which also concretises it to bytes):

     valid    the stream begins with a valid PROXY v1/v2 header
     hlen     valid: length of that header in bytes (v1: through CRLF; v2: 16 + declared length)
     hasaddr  valid: the header carries addresses the receiver must use (PROXY command with a
              specified family/protocol); otherwise (LOCAL, UNKNOWN, UNSPEC) the real ones stay
     src,dst  the header's addresses   rpeer,rhost  the underlying transport's addresses
     bad      invalid: position of the first byte after which the prefix is no valid header's prefix
     dec      invalid: position by which any receiver has the whole offending line / declared block
              (v1: end of line, or 108 when no CRLF shows up; v2: 16 or 16 + declared length)
     payload  valid: the application bytes following the header
     total    length of the whole stream

   The property, as a relation between the consumed prefix and what the wrapped protocol has seen:
     valid  : never closed; application bytes seen = the payload bytes consumed so far, nothing before
              the header is complete; once it is complete getPeer/getHost give the header's addresses
              (or the real ones when the header carries none)
     invalid: the application never sees a byte; the connection is closed at the latest when `dec`
              bytes have been consumed, and not before the `bad` byte has been consumed (a prefix
              that can still become a valid header must not be refused).  Timing in between is free.
   Nothing is delivered after the close request (the harness stops, as a TCP transport does).

   `Machine` below is an incremental wrapper design (Undecided / V1 / V2 / Passthrough / Closed) that
   buffers until it can decide; TLC checks it against the relation for every segmentation.        *)
EXTENDS Naturals, Integers, Sequences, FiniteSets

VARIABLES cfg,
          consumed,    \* bytes handed to the wrapper so far
          delivered,   \* bytes the wrapped protocol has received so far
          closed,      \* connection close requested (loseConnection, or an exception out of dataReceived)
          mst,         \* design machine: "undecided" | "v1" | "v2" | "pass" | "closed"
          last

vars == <<cfg, consumed, delivered, closed, mst, last>>

InitWith(c) ==
    /\ cfg = c /\ consumed = 0 /\ delivered = <<>> /\ closed = FALSE
    /\ mst = "undecided" /\ last = [e |-> "init"]

Min(a, b) == IF a < b THEN a ELSE b
Max(a, b) == IF a > b THEN a ELSE b

\* payload bytes lying in stream positions (a, b]  (positions counted from 1, header first)
PayloadBetween(a, b) ==
    IF b <= cfg.hlen THEN <<>>
    ELSE SubSeq(cfg.payload, Max(a, cfg.hlen) - cfg.hlen + 1, b - cfg.hlen)

ExpPeer == IF cfg.hasaddr THEN cfg.src ELSE cfg.rpeer
ExpHost == IF cfg.hasaddr THEN cfg.dst ELSE cfg.rhost

(* what may be observed after the prefix of length n has been consumed: app = bytes given to the
   application during the step from m to n, cl = close requested by then *)
StepOK(m, n, app, cl) ==
    IF cfg.valid
    THEN app = PayloadBetween(m, n) /\ ~cl
    ELSE /\ app = <<>>
         /\ (cl => n >= cfg.bad)
         /\ (n >= cfg.dec => cl)

AddrOK(n, peer, host) == (cfg.valid /\ n >= cfg.hlen) => (peer = ExpPeer /\ host = ExpHost)

-----------------------------------------------------------------------------
(* Design machine.  It sees the stream only through what a parser can know after n bytes:
   - whether the first n bytes still match a signature (n < bad, or the stream is valid)
   - which signature it is (cfg.ver) once enough bytes are there (v2: 12 of 16, v1: 5 of 8)
   - the end of the header (hlen / dec). *)
SigLen == IF cfg.ver = 2 THEN 16 ELSE 6     \* bytes needed to commit to a version: v2 fixed part, "PROXY "

MachineStep(st, n) ==          \* state after having buffered n bytes in total, starting from st
    CASE st = "undecided" ->
            IF ~cfg.valid /\ cfg.bad <= SigLen /\ n >= cfg.bad THEN "closed"      \* signature mismatch seen
            ELSE IF n < SigLen THEN "undecided"
            ELSE IF cfg.ver = 2 THEN "v2" ELSE "v1"
      [] OTHER -> st

MachineSettle(st, n) ==        \* header-level decision once committed to a version
    IF st \in {"v1", "v2"}
    THEN IF cfg.valid THEN (IF n >= cfg.hlen THEN "pass" ELSE st)
         ELSE (IF n >= cfg.dec THEN "closed" ELSE st)
    ELSE st

MachineNext(st, n) == MachineSettle(MachineStep(st, n), n)

-----------------------------------------------------------------------------
(* One dataReceived(k bytes) on the wrapper.  cl: did it request a close by the end of this call. *)
Deliver(k, cl) ==
    /\ ~closed
    /\ k \in 1..(cfg.total - consumed)
    /\ LET n == consumed + k
           app == IF cfg.valid THEN PayloadBetween(consumed, n) ELSE <<>> IN
         /\ StepOK(consumed, n, app, cl)
         /\ consumed' = n
         /\ delivered' = delivered \o app
         /\ closed' = cl
         /\ mst' = MachineNext(mst, n)
         /\ last' = [e |-> "deliver", k |-> k, app |-> app, closed |-> cl]
    /\ UNCHANGED cfg

-----------------------------------------------------------------------------
DeliveredOK == IF cfg.valid THEN delivered = PayloadBetween(0, consumed) ELSE delivered = <<>>
ClosedOK    == /\ (cfg.valid => ~closed)
               /\ (closed => ~cfg.valid /\ consumed >= cfg.bad)
               /\ ((~cfg.valid /\ consumed >= cfg.dec) => closed)
\* the buffering design stays inside the relation: it has closed only when allowed, must have closed
\* when required, and passes data through exactly when the header is complete
MachineOK   == /\ (mst = "closed" => ~cfg.valid /\ consumed >= cfg.bad)
               /\ ((~cfg.valid /\ consumed >= cfg.dec) => mst = "closed")
               /\ (mst = "pass" <=> (cfg.valid /\ consumed >= cfg.hlen))
CfgOK       == /\ (cfg.valid => cfg.total = cfg.hlen + Len(cfg.payload) /\ cfg.hlen >= 8)
               /\ (~cfg.valid => cfg.bad >= 1 /\ cfg.dec >= cfg.bad)

Inv == DeliveredOK /\ ClosedOK /\ CfgOK
=============================================================================
