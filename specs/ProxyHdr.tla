------------------------------ MODULE ProxyHdr ------------------------------
(* C47 -- PROXY protocol headers are parsed regardless of segmentation.

   A stream is described abstractly by cfg: the fields of its (would-be) header as they stand in
   the bytes -- lexed from the real bytes by the adapter in conformance runs, enumerated by TLC in
   the exhaustive run -- and THIS MODULE classifies it as valid / invalid following the PROXY
   protocol specification (v1 section 2.1, v2 section 2.2):

     ver      2: first byte is the first byte of the v2 signature; 1: first byte is "P"; 0: neither
     v2       [sigbad  position (1..12) of the first byte differing from the signature, 0 if intact
               vn, cn  version and command nibbles of byte 13
               fn, pn  family and protocol nibbles of byte 14
               len     declared length (bytes 15-16)]
     v1       [w       position (1..6) of the first byte differing from "PROXY ", 0 if intact
               line    length of the first line including its CRLF, 0 if the stream has no CRLF
               toks    the space-separated tokens after "PROXY ", each [cls, pos]; cls is one of
                       "TCP4" "TCP6" "UNKNOWN" (exact words), "ip4" "ip6" (a well-formed address of
                       that family), "port" (decimal 0..65535), "empty", "junk"; pos = position of
                       its first byte]
     src,dst  the addresses the header carries (text), rpeer,rhost the underlying transport's
     rest     the bytes following the header's structural end (16 + len / the CRLF)
     total    length of the whole stream

   Classification:
     v2 valid  iff signature intact, version 2, command LOCAL(0) or PROXY(1), and for PROXY: family in
               0..3, protocol in 0..2 ("other values ... must be rejected as invalid by receivers"),
               and, when both are specified, len >= the family's address block (12 / 36 / 216).
               LOCAL: everything after the command is ignored.  Addresses are used only for PROXY
               with family and protocol both specified; otherwise the real endpoints stay.
     v1 valid  iff "PROXY " intact, CRLF within the first 107 bytes, and either the protocol word is
               UNKNOWN (rest of the line ignored) or it is TCP4/TCP6 followed by exactly four
               single-space-separated fields: two addresses of that family and two ports ("any sequence
               which does not exactly match the protocol must be discarded and cause the receiver to
               abort the connection").
     Bad       invalid: position of the first byte after which the prefix can be refused (start of
               the first offending field; never later than where refusal becomes certain)
     Dec       invalid: position by which any receiver holds the whole offending line / declared block

   The property, as a relation between the consumed prefix and what the wrapped protocol has seen:
     valid  : never closed; application bytes = the `rest` bytes consumed so far, none before the header
              is complete; once complete getPeer/getHost give the header's addresses (or the real ones)
     invalid: the application never sees a byte; closed at the latest when Dec bytes are consumed and not
              before the Bad byte has been consumed.  Timing in between is free.
   Nothing is delivered after the close request (the harness stops, as a TCP transport does).

   `Machine` is an incremental wrapper design (undecided / v1 / v2 / pass / closed) that buffers until it
   can decide; TLC checks it against the relation for every segmentation.                          *)
EXTENDS Naturals, Integers, Sequences, FiniteSets

VARIABLES cfg,
          consumed,    \* bytes handed to the wrapper so far
          delivered,   \* bytes the wrapped protocol has received so far
          closed,      \* connection close requested (loseConnection, or an exception out of dataReceived)
          mst,         \* design machine: "undecided" | "v1" | "v2" | "pass" | "closed"
          last

vars == <<cfg, consumed, delivered, closed, mst, last>>

InitWith(c) ==
    /\ cfg = c /\ consumed = 0 /\ delivered = <<>> /\ closed = FALSE
    /\ mst = "undecided" /\ last = [e |-> "init"]

Min(a, b) == IF a < b THEN a ELSE b
Max(a, b) == IF a > b THEN a ELSE b
SetMin(S) == CHOOSE x \in S : \A y \in S : x <= y

-----------------------------------------------------------------------------
(* Classification, version 2 *)
V2 == cfg.v2
AddrLen(fn) == CASE fn = 1 -> 12 [] fn = 2 -> 36 [] fn = 3 -> 216 [] OTHER -> 0
V2Specified == V2.fn \in 1..3 /\ V2.pn \in 1..2
V2Bad == IF V2.sigbad > 0 THEN V2.sigbad
         ELSE IF V2.vn # 2 THEN 13
         ELSE IF V2.cn \notin {0, 1} THEN 13
         ELSE IF V2.cn = 0 THEN 0
         ELSE IF V2.fn \notin 0..3 \/ V2.pn \notin 0..2 THEN 14
         ELSE IF V2Specified /\ V2.len < AddrLen(V2.fn) THEN 16
         ELSE 0
V2Dec == IF V2.sigbad > 0 \/ V2.vn # 2 THEN 16 ELSE 16 + V2.len

(* Classification, version 1 *)
V1 == cfg.v1
NT == Len(V1.toks)
Cls(j) == V1.toks[j].cls
Overlong == V1.line = 0 \/ V1.line > 107
AddrCls(p) == IF p = "TCP4" THEN "ip4" ELSE "ip6"
Want(p) == <<p, AddrCls(p), AddrCls(p), "port", "port">>
\* index of the first offending token; NT + 1 when a token is missing; 0 when the tokens are right
V1BadTok ==
    IF NT = 0 THEN 1
    ELSE IF Cls(1) = "UNKNOWN" THEN 0
    ELSE IF Cls(1) \notin {"TCP4", "TCP6"} THEN 1
    ELSE LET mism == {j \in 2..5 : IF j > NT THEN TRUE ELSE Cls(j) # Want(Cls(1))[j]} IN
         IF mism # {} THEN Min(SetMin(mism), NT + 1) ELSE IF NT > 5 THEN 6 ELSE 0
TokPos(j) == IF j <= NT THEN V1.toks[j].pos ELSE IF V1.line > 0 THEN V1.line - 1 ELSE 106
V1Bad == IF V1.w > 0 THEN V1.w
         ELSE LET tb == IF V1BadTok = 0 THEN 0 ELSE TokPos(V1BadTok) IN
              IF Overlong THEN (IF tb > 0 THEN Min(tb, 106) ELSE 106) ELSE tb
V1Dec == IF Overlong THEN 108 ELSE V1.line

Bad     == CASE cfg.ver = 2 -> V2Bad [] cfg.ver = 1 -> V1Bad [] OTHER -> 1
Dec     == CASE cfg.ver = 2 -> V2Dec [] cfg.ver = 1 -> V1Dec [] OTHER -> 16
Valid   == Bad = 0
HLen    == IF cfg.ver = 2 THEN 16 + V2.len ELSE V1.line
HasAddr == IF cfg.ver = 2 THEN V2.cn = 1 /\ V2Specified ELSE (cfg.ver = 1 /\ NT >= 1 /\ Cls(1) \in {"TCP4", "TCP6"})

-----------------------------------------------------------------------------
\* payload bytes lying in stream positions (a, b]  (positions counted from 1, header first)
PayloadBetween(a, b) ==
    IF b <= HLen THEN <<>>
    ELSE SubSeq(cfg.rest, Max(a, HLen) - HLen + 1, b - HLen)

ExpPeer == IF HasAddr THEN cfg.src ELSE cfg.rpeer
ExpHost == IF HasAddr THEN cfg.dst ELSE cfg.rhost

(* what may be observed after the prefix of length n has been consumed: app = bytes given to the
   application during the step from m to n, cl = close requested by then *)
StepOK(m, n, app, cl) ==
    IF Valid
    THEN app = PayloadBetween(m, n) /\ ~cl
    ELSE /\ app = <<>>
         /\ (cl => n >= Bad)
         /\ (n >= Dec => cl)

AddrOK(n, peer, host) == (Valid /\ n >= HLen) => (peer = ExpPeer /\ host = ExpHost)

-----------------------------------------------------------------------------
(* Design machine.  It sees the stream only through what a parser can know after n bytes. *)
SigLen == IF cfg.ver = 2 THEN 16 ELSE 6     \* bytes needed to commit to a version: v2 fixed part, "PROXY "

MachineStep(st, n) ==          \* state after having buffered n bytes in total, starting from st
    CASE st = "undecided" ->
            IF ~Valid /\ Bad <= SigLen /\ n >= Bad THEN "closed"      \* mismatch in the fixed part seen
            ELSE IF n < SigLen THEN "undecided"
            ELSE IF cfg.ver = 2 THEN "v2" ELSE "v1"
      [] OTHER -> st

MachineSettle(st, n) ==        \* header-level decision once committed to a version
    IF st \in {"v1", "v2"}
    THEN IF Valid THEN (IF n >= HLen THEN "pass" ELSE st)
         ELSE (IF n >= Dec THEN "closed" ELSE st)
    ELSE st

MachineNext(st, n) == MachineSettle(MachineStep(st, n), n)

-----------------------------------------------------------------------------
(* One dataReceived(k bytes) on the wrapper.  cl: did it request a close by the end of this call. *)
Deliver(k, cl) ==
    /\ ~closed
    /\ k \in 1..(cfg.total - consumed)
    /\ LET n == consumed + k
           app == IF Valid THEN PayloadBetween(consumed, n) ELSE <<>> IN
         /\ StepOK(consumed, n, app, cl)
         /\ consumed' = n
         /\ delivered' = delivered \o app
         /\ closed' = cl
         /\ mst' = MachineNext(mst, n)
         /\ last' = [e |-> "deliver", k |-> k, app |-> app, closed |-> cl]
    /\ UNCHANGED cfg

-----------------------------------------------------------------------------
DeliveredOK == IF Valid THEN delivered = PayloadBetween(0, consumed) ELSE delivered = <<>>
ClosedOK    == /\ (Valid => ~closed)
               /\ (closed => ~Valid /\ consumed >= Bad)
               /\ ((~Valid /\ consumed >= Dec) => closed)
\* the buffering design stays inside the relation
MachineOK   == /\ (mst = "closed" => ~Valid /\ consumed >= Bad)
               /\ ((~Valid /\ consumed >= Dec) => mst = "closed")
               /\ (mst = "pass" <=> (Valid /\ consumed >= HLen))
\* the descriptor is coherent (self-check of lexer / enumeration)
CfgOK       == /\ cfg.ver \in {0, 1, 2}
               /\ (Valid => cfg.total = HLen + Len(cfg.rest) /\ HLen >= 8)
               /\ (~Valid => Bad >= 1 /\ Dec >= Bad)
               /\ (cfg.ver = 1 /\ V1.line = 0 => cfg.total >= 108)

Inv == DeliveredOK /\ ClosedOK /\ CfgOK
=============================================================================
