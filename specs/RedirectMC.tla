----------------------------- MODULE RedirectMC -----------------------------
(* Exhaustive TLC run: all redirect chains up to Depth responses over a small universe of
   origins, paths, Location forms and status codes, both agents, all methods, limits 0..2. *)
EXTENDS Redirect, TLC
CONSTANTS Depth, Mode      \* Mode "methods": every agent/method/limit/code over a tiny URI universe;  "resolve": one agent/method, the full URI universe

U(scheme, host, port, abs, segs, hasq, hasf) ==
    [scheme |-> scheme, host |-> host, port |-> port, abs |-> abs, segs |-> segs,
     hasq |-> hasq, q |-> IF hasq THEN "k=1" ELSE "", hasf |-> hasf, f |-> IF hasf THEN "top" ELSE ""]
Auths == {<<"http", "a.test", "">>, <<"http", "a.test", "8080">>, <<"http", "b.test", "">>, <<"https", "a.test", "">>, <<"http", "a.test", "80">>}
StartUris == {U(a[1], a[2], a[3], p # <<>>, p, hq, hf) : a \in {<<"http", "a.test", "">>, <<"https", "a.test", "">>},
                                                            p \in {<<>>, <<"x">>, <<"x", "y">>, <<"x", "">>}, hq \in BOOLEAN, hf \in BOOLEAN}

R(kind, scheme, host, port, abs, segs, hasq, hasf) ==
    [kind |-> kind, scheme |-> scheme, host |-> host, port |-> port, abs |-> abs, segs |-> segs,
     hasq |-> hasq, q |-> IF hasq THEN "n=2" ELSE "", hasf |-> hasf, f |-> IF hasf THEN "sec" ELSE ""]
AbsPaths == {<<>>, <<"">>, <<"y">>, <<"y", "z", "">>}     \* no dot segments in absolute-URI / network-path references (see notes/C27.md)
Refs == {R("abs", a[1], a[2], a[3], p # <<>>, p, FALSE, hf) : a \in Auths, p \in AbsPaths, hf \in BOOLEAN}
        \cup {R("net", "", a[2], a[3], p # <<>>, p, FALSE, FALSE) : a \in Auths, p \in {<<>>, <<"y">>}}
        \cup {R("path", "", "", "", TRUE, p, hq, FALSE) : p \in {<<"">>, <<"y">>, <<"y", "z">>, <<"..", "y">>, <<".", "y", "">>}, hq \in BOOLEAN}
        \cup {R("path", "", "", "", FALSE, p, hq, hf) : p \in {<<>>, <<"y">>, <<"y", "">>, <<"..", "y">>, <<".", "y">>, <<"..">>, <<".">>, <<"..", "..", "y">>, <<"y", "..", "z">>},
                                                          hq \in BOOLEAN, hf \in BOOLEAN}
        \cup {R("missing", "", "", "", FALSE, <<>>, FALSE, FALSE)}
Names == {"authorization", "x-secret"}
SmallUris == {U("http", "a.test", "", TRUE, <<"x">>, FALSE, FALSE)}
SmallRefs == {R("path", "", "", "", FALSE, <<"y">>, FALSE, FALSE), R("abs", "http", "b.test", "", TRUE, <<"y">>, FALSE, FALSE),
              R("missing", "", "", "", FALSE, <<>>, FALSE, FALSE)}
Cfgs == IF Mode = "methods"
        THEN {[agent |-> ag, limit |-> n, method |-> m, uri |-> u, given |-> g] :
                 ag \in {"strict", "browser"}, n \in 0..3, m \in {"GET", "HEAD", "POST"}, u \in SmallUris, g \in {{}, Names}}
        ELSE {[agent |-> "strict", limit |-> 2, method |-> "GET", uri |-> u, given |-> g] : u \in StartUris, g \in {{}, {"authorization"}}}
TheRefs == IF Mode = "methods" THEN SmallRefs ELSE Refs
TheCodes == IF Mode = "methods" THEN RedirectCodes \cup {200, 404} ELSE {302, 200}

Init == \E c \in Cfgs : InitWith(c)
Env == hops < Depth /\ \E code \in TheCodes, loc \in TheRefs : Respond(code, loc)     \* at most Depth answered redirects
Spec == Init /\ [][Next \/ Env]_vars
Bound == TLCGet("level") <= 2 * Depth + 4
View == <<cfg, phase, cur, prev, hops, resp, last>>
(* Resolve agrees with itself through re-serialisation: resolving the absolute form of a target gives the target *)
AsRef(u) == [kind |-> "abs", scheme |-> u.scheme, host |-> u.host, port |-> u.port, abs |-> u.abs, segs |-> u.segs,
             hasq |-> u.hasq, q |-> u.q, hasf |-> u.hasf, f |-> u.f]
Idempotent == last.e = "req" /\ hops > 0 => Resolve(prev.uri, AsRef(last.uri)) = last.uri
=============================================================================
