--------------------------- MODULE FtpSessionTrace ---------------------------
(* Batched trace validation of real twisted.protocols.ftp.FTP sessions against FtpSession.tla.
   Every event carries every observation; all of them are compared, and the design invariants are
   evaluated (primed) at every step of every real execution. *)
EXTENDS FtpSession, TLC, Json, IOUtils
Traces == JsonDeserialize(IOEnv.TRACE_FILE)
VARIABLES tid, l
ASSUME \A t \in 1..Len(Traces) : TLCSet(t, 1)
T == Traces[tid]
E == T.ev[l]
TInit == tid \in 1..Len(Traces) /\ l = 1 /\ InitWith([T |-> Traces[tid].cfg.T])
Matches == /\ x'.codes = E.codes /\ x'.sh = E.sh /\ x'.op = E.op /\ x'.stop = E.stop /\ x'.dcl = E.dcl
           /\ x'.dw = E.dw /\ x'.lo = E.lo /\ x'.rlo = E.rlo /\ x'.login = E.login
           /\ (IF x'.tleft > 0 THEN 1 ELSE 0) = E.tm
           /\ x'.pz = E.paused /\ x'.quit = E.lc
Step(A) == l <= Len(T.ev) /\ A /\ Inv' /\ Matches /\ l' = l + 1 /\ UNCHANGED tid
TNext == \/ (E.e = "open"  /\ Step(Open))
         \/ (E.e = "cmd"   /\ Step(Cmd(E.c, E.a)))
         \/ (E.e = "dconn" /\ Step(DConn) /\ x'.acc = E.acc)
         \/ (E.e = "dfail" /\ Step(DFail))
         \/ (E.e = "adv"   /\ Step(Adv(E.d)))
         \/ (E.e = "dpump" /\ Step(DPump))
         \/ (E.e = "ddata" /\ Step(DData))
         \/ (E.e = "dlost" /\ Step(DLost))
         \/ (E.e = "clost" /\ Step(CLost))
TSpec == TInit /\ [][l <= Len(T.ev) /\ TNext]_<<vars, tid, l>>
Progress == TLCSet(tid, IF TLCGet(tid) > l THEN TLCGet(tid) ELSE l)
Rejected == {<<t, TLCGet(t)>> : t \in {u \in 1..Len(Traces) : TLCGet(u) # Len(Traces[u].ev) + 1}}
Accepted == Rejected = {} \/ (PrintT(<<"REJECTED", Rejected>>) /\ FALSE)
=============================================================================
