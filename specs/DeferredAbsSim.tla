---------------------------- MODULE DeferredAbsSim ----------------------------
(* Behaviour generator (spec -> code) for C01: programs drawn by TLC from the reference
   interpreter, with the predicted observable of every operation; printed as JSON once a
   behaviour reaches Depth.  The harness runs each program on real Deferreds; the recorded
   execution (with its real observables) is then validated by TLC like any other.      *)
EXTENDS DeferredAbsMC, Json
VARIABLE hist
SInit == Init /\ hist = <<>>
SNext == Next /\ hist' = Append(hist, last')
SSpec == SInit /\ [][SNext]_<<vars, hist>>
Emit == TLCGet("level") < Depth \/ PrintT(<<"BEH", ToJson([cfg |-> cfg, hist |-> hist])>>)
Stop == TLCGet("level") <= Depth
=============================================================================
