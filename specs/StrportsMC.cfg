SPECIFICATION Spec
CONSTANT MaxLen = 3
CONSTANT NSlots = 3
CONSTANT Quoter = "ref"
INVARIANT RoundTrip
INVARIANT MachineIsRefParse
CHECK_DEADLOCK FALSE
