---------------------------- MODULE SecureStream ----------------------------
(* C17 -- twisted.protocols.tls: a TLS client (side 0) and server (side 1) over an
   in-memory transport, as seen by the two applications and the two underlying
   transports.

   State = what the property talks about: how many bytes each application wrote
   before its (effective) loseConnection, how many the peer application received,
   connectionLost notifications, whether the TLS layer closed the underlying
   transports.  TLS record boundaries, handshake flights, buffering inside the TLS
   layer and the timing of deliveries are unconstrained; the strict clauses are
     * an application receives a prefix of what its peer wrote before the peer's
       loseConnection (in order, nothing repeated, nothing written afterwards),
       and nothing after its own connectionLost                      (AppData);
     * at most one connectionLost per application, and only on a connection that
       somebody closed                                                   (Lost);
     * the TLS layer closes an underlying transport only on a connection that
       somebody closed                                                 (TClose);
     * at quiescence (all wire bytes delivered, clock drained, transports that were
       asked to close have closed): if somebody called loseConnection both
       applications got exactly one connectionLost and both underlying transports
       were closed; an application that did not itself call loseConnection has
       received everything its peer wrote before the peer's loseConnection
       (an application that did close is only guaranteed a prefix, as with any
       transport)                                                     (Quiesce).
   Bytes written after loseConnection while a producer is registered may be
   delivered (documented: the connection is closed when the producer is
   unregistered) but are not required to be.                                       *)
EXTENDS Naturals, Integers, Sequences, FiniteSets

VARIABLES cfg,         \* [variant]
          acc,         \* [0..1 -> Nat] bytes side p wrote before its loseConnection (must reach a passive peer)
          may,         \* [0..1 -> Nat] acc + bytes written after loseConnection while a producer was registered (may be delivered)
          rcvd,        \* [0..1 -> Nat] bytes delivered to side p's application
          loseCalled,  \* [0..1 -> BOOLEAN]
          prod,        \* [0..1 -> BOOLEAN] producer registered
          hs,          \* [0..1 -> BOOLEAN] handshakeCompleted delivered
          lost,        \* [0..1 -> Nat] connectionLost calls on side p's application
          tclosed,     \* [0..1 -> BOOLEAN] TLS layer asked side p's underlying transport to close / abort
          xclosed,     \* [0..1 -> BOOLEAN] side p's underlying transport reported connectionLost to the TLS layer
          last

vars == <<cfg, acc, may, rcvd, loseCalled, prod, hs, lost, tclosed, xclosed, last>>
Sides == {0, 1}
Peer(p) == 1 - p
AnyLose == loseCalled[0] \/ loseCalled[1]

InitWith(c) ==
    /\ cfg = c
    /\ acc = [p \in Sides |-> 0] /\ may = [p \in Sides |-> 0] /\ rcvd = [p \in Sides |-> 0]
    /\ loseCalled = [p \in Sides |-> FALSE] /\ prod = [p \in Sides |-> FALSE] /\ hs = [p \in Sides |-> FALSE]
    /\ lost = [p \in Sides |-> 0] /\ tclosed = [p \in Sides |-> FALSE] /\ xclosed = [p \in Sides |-> FALSE]
    /\ last = [e |-> "init"]

(* ---- applications ---- *)
Write(p, n) ==
    /\ n >= 1
    /\ acc' = [acc EXCEPT ![p] = IF ~loseCalled[p] THEN @ + n ELSE @]
    /\ may' = [may EXCEPT ![p] = IF ~loseCalled[p] \/ prod[p] THEN @ + n ELSE @]
    /\ last' = [e |-> "write", p |-> p, n |-> n]
    /\ UNCHANGED <<cfg, rcvd, loseCalled, prod, hs, lost, tclosed, xclosed>>

Lose(p) ==
    /\ loseCalled' = [loseCalled EXCEPT ![p] = TRUE]
    /\ last' = [e |-> "lose", p |-> p]
    /\ UNCHANGED <<cfg, acc, may, rcvd, prod, hs, lost, tclosed, xclosed>>

Reg(p) ==
    /\ ~prod[p]
    /\ prod' = [prod EXCEPT ![p] = TRUE]
    /\ last' = [e |-> "reg", p |-> p]
    /\ UNCHANGED <<cfg, acc, may, rcvd, loseCalled, hs, lost, tclosed, xclosed>>

Unreg(p) ==
    /\ prod[p]
    /\ prod' = [prod EXCEPT ![p] = FALSE]
    /\ last' = [e |-> "unreg", p |-> p]
    /\ UNCHANGED <<cfg, acc, may, rcvd, loseCalled, hs, lost, tclosed, xclosed>>

(* ---- environment steps without effect on the property's state ---- *)
Deliver(d, k) ==      \* k bytes of the encrypted stream from side d reach the peer
    /\ k >= 1
    /\ last' = [e |-> "deliver", d |-> d, k |-> k]
    /\ UNCHANGED <<cfg, acc, may, rcvd, loseCalled, prod, hs, lost, tclosed, xclosed>>

Tick ==
    /\ last' = [e |-> "tick"]
    /\ UNCHANGED <<cfg, acc, may, rcvd, loseCalled, prod, hs, lost, tclosed, xclosed>>

XClose(p) ==          \* the underlying transport, asked to close, has closed
    /\ tclosed[p] /\ ~xclosed[p]
    /\ xclosed' = [xclosed EXCEPT ![p] = TRUE]
    /\ last' = [e |-> "xclose", p |-> p]
    /\ UNCHANGED <<cfg, acc, may, rcvd, loseCalled, prod, hs, lost, tclosed>>

Eof(p) ==             \* the peer's transport has closed and everything it sent was delivered
    /\ xclosed[Peer(p)] /\ ~xclosed[p]
    /\ xclosed' = [xclosed EXCEPT ![p] = TRUE]
    /\ last' = [e |-> "eof", p |-> p]
    /\ UNCHANGED <<cfg, acc, may, rcvd, loseCalled, prod, hs, lost, tclosed>>

(* ---- what the TLS layer does (observable) ---- *)
Hs(p) ==
    /\ ~hs[p]
    /\ hs' = [hs EXCEPT ![p] = TRUE]
    /\ last' = [e |-> "hs", p |-> p]
    /\ UNCHANGED <<cfg, acc, may, rcvd, loseCalled, prod, lost, tclosed, xclosed>>

AppData(p, n) ==      \* dataReceived on side p's application: the next n bytes of what the peer wrote
    /\ n >= 1
    /\ lost[p] = 0
    /\ rcvd[p] + n <= may[Peer(p)]
    /\ rcvd' = [rcvd EXCEPT ![p] = @ + n]
    /\ last' = [e |-> "data", p |-> p, n |-> n, off |-> rcvd[p]]
    /\ UNCHANGED <<cfg, acc, may, loseCalled, prod, hs, lost, tclosed, xclosed>>

Lost(p, clean) ==
    /\ lost[p] = 0
    /\ AnyLose
    /\ lost' = [lost EXCEPT ![p] = 1]
    /\ last' = [e |-> "lost", p |-> p, clean |-> clean]
    /\ UNCHANGED <<cfg, acc, may, rcvd, loseCalled, prod, hs, tclosed, xclosed>>

TClose(p, abort) ==
    /\ ~tclosed[p]
    /\ AnyLose
    /\ tclosed' = [tclosed EXCEPT ![p] = TRUE]
    /\ last' = [e |-> "tclose", p |-> p, abort |-> abort]
    /\ UNCHANGED <<cfg, acc, may, rcvd, loseCalled, prod, hs, lost, xclosed>>

Passive(p) == ~loseCalled[p]

Quiesce ==
    /\ AnyLose => \A p \in Sides : lost[p] = 1 /\ xclosed[p]
    /\ ~AnyLose => \A p \in Sides : lost[p] = 0 /\ ~tclosed[p] /\ ~xclosed[p]
    /\ \A p \in Sides : Passive(p) => rcvd[p] >= acc[Peer(p)]
    /\ last' = [e |-> "quiesce", open |-> <<~xclosed[0], ~xclosed[1]>>]
    /\ UNCHANGED <<cfg, acc, may, rcvd, loseCalled, prod, hs, lost, tclosed, xclosed>>

-----------------------------------------------------------------------------
PrefixOnly == \A p \in Sides : rcvd[p] <= may[Peer(p)] /\ acc[p] <= may[p]
AtMostOneLost == \A p \in Sides : lost[p] <= 1
NoSpontaneousClose == (\E p \in Sides : lost[p] > 0 \/ tclosed[p]) => AnyLose
Inv == PrefixOnly /\ AtMostOneLost /\ NoSpontaneousClose
=============================================================================
