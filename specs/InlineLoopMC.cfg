SPECIFICATION Spec
CONSTANT MaxN = 8
CONSTANT Unfold = TRUE
INVARIANT ConstDepth
INVARIANT StackBounded
INVARIANT Completes
INVARIANT NoLostWakeup
CHECK_DEADLOCK FALSE
