------------------------------ MODULE ChunkedSim ------------------------------
(* Behaviour generator (spec -> code) for C22: ChunkedMC (streams grown symbol by symbol from
   grammatical seeds, delivered in arbitrary pieces to the Impl-layer decoder) plus a history of the
   predicted observable of every call.  The harness replays each behaviour on the real decoder: the
   real run is validated against the reference by TLC as usual, and a difference from the Impl
   layer's prediction is counted as impl_drift (never a violation by itself).                     *)
EXTENDS ChunkedMC, Json
CONSTANT Depth
VARIABLE hist
SInit == MCInit /\ hist = <<>>
SNext == MCNext /\ hist' = IF last'.e = "extend" THEN hist ELSE Append(hist, last')
SSpec == SInit /\ [][SNext]_<<mcvars, hist>>
Emit == TLCGet("level") < Depth \/ PrintT(<<"BEH", ToJson([cfg |-> cfg, str |-> str, hist |-> hist])>>)
Stop == TLCGet("level") <= Depth
=============================================================================
