SPECIFICATION Spec
CONSTANT Depth = 10
CONSTANT MaxD = 3
CONSTRAINT Bound
VIEW View
INVARIANT OneResult
INVARIANT SwallowOnce
INVARIANT CancellerOnce
INVARIANT CancelFires
INVARIANT Waits
PROPERTY CancelFiredNoEffect
CHECK_DEADLOCK FALSE
