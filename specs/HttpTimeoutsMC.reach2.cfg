SPECIFICATION Spec
CONSTRAINT Bound
VIEW View
CONSTANT Configs <- ConfigsReach
CONSTANT MaxNow <- MaxNowThorough
CONSTANT Depth <- DepthReach
INVARIANT NeverTwoAborts
CHECK_DEADLOCK FALSE
