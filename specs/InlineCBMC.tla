------------------------------ MODULE InlineCBMC ------------------------------
(* Exhaustive TLC run of InlineCB: every behaviour of the environment (bodies that
   await, yield values, start nested invocations, return, raise) and of the driver
   (fire in any order with any outcome, before or after the start; cancel at every
   suspension point), for ND leaf Deferreds and NG invocations. *)
EXTENDS InlineCB, TLC
CONSTANTS ND, NG, MaxLevel,
          FireOuts,    \* outcomes the driver fires leaves with (failure kinds are opaque to the spec)
          RaiseKinds   \* kinds of exception a body raises uncaught

Init == InitWith([nd |-> ND, ng |-> NG])

Outs == {<<"ok", 21>>, <<"err", 31>>, <<"cancelled", 0>>}

StartA == Start("any")
DFireA == \E d \in Leaves, o \in FireOuts : DFire(d, o)
DCancelA == \E g \in Invs : DCancel(g)
DCancelLeafA == \E d \in Leaves : DCancelLeaf(d)
CancellerCalledA == \E d \in Leaves, k \in Kinds : CancellerCalled(d, k)
LeafFiresA == \E d \in Leaves, k \in Kinds : LeafFires(d, k)
ResumeA == \E g \in Invs : Resume(g)
FireResultA == \E g \in Invs : FireResult(g)
YieldLeafA == \E g \in Invs, d \in Leaves : YieldLeaf(g, d)
YieldValA == \E g \in Invs : YieldVal(g, 7)
YieldChildA == \E g \in Invs, c \in Invs : YieldChild(g, c)
SpawnA == \E g \in Invs : Spawn(g, "any")
SpawnYieldA == \E g \in Invs : SpawnYield(g, "any")
ReturnA == \E g \in Invs : Finish(g, "return", <<"ok", 21>>)
RaiseA == \E g \in Invs, k \in RaiseKinds : Finish(g, "raise", <<k, IF k = "cancelled" THEN 0 ELSE 31>>)

Next == StartA \/ DFireA \/ DCancelA \/ DCancelLeafA \/ End
        \/ CancellerCalledA \/ LeafFiresA \/ ResumeA \/ FireResultA
        \/ YieldLeafA \/ YieldValA \/ YieldChildA \/ SpawnA \/ SpawnYieldA \/ ReturnA \/ RaiseA
Spec == Init /\ [][Next]_vars

\* action properties: a result never changes once fired; a leaf's outcome never changes
Stable == [][/\ \A g \in Invs : res[g] # None2 => res'[g] = res[g]
             /\ \A d \in Leaves : dst[d] # None2 => dst'[d] = dst[d]]_vars
\* a body is resumed only with the outcome of what it awaited
ResumeExact == [][\A g \in Invs : phase[g] = "waiting" /\ phase'[g] = "running" =>
                     /\ last'.e = "resume" /\ last'.g = g
                     /\ <<last'.k, last'.v>> = Outcome(on[g])]_vars
\* every call can be completed: whenever nothing more can happen inside a call, the system is quiescent
NoStuck == inCall /\ ~ENABLED (CancellerCalledA \/ LeafFiresA \/ ResumeA \/ FireResultA \/ YieldLeafA \/ YieldValA
                               \/ YieldChildA \/ SpawnA \/ SpawnYieldA \/ ReturnA \/ RaiseA) => Quiescent

Bound == TLCGet("level") <= MaxLevel
View == <<cfg, inCall, stack, nG, phase, on, out, res, nres, par, joined, hidden, dst, dAw, creq, sysCanc, mayCanc>>
=============================================================================
