SPECIFICATION Spec
CONSTANT MaxBytes = 2
INVARIANT Inv
INVARIANT CleanWhenOrderly
INVARIANT CompleteWhenOrderly
INVARIANT EofAfterAll
INVARIANT QuietAfterLost
CHECK_DEADLOCK FALSE
