---------------------------- MODULE SerialTrace ----------------------------
(* Every comparison / addition performed on the real SerialNumber class must be
   the outcome Serial computes from RFC 1982 for the same operands, field by field. *)
EXTENDS Serial, TLC, Json, IOUtils

Traces == JsonDeserialize(IOEnv.TRACE_FILE)
VARIABLES tid, l
ASSUME \A t \in 1..Len(Traces) : TLCSet(t, 1)

T == Traces[tid]
E == T.ev[l]

TInit == /\ tid \in 1..Len(Traces) /\ l = 1
         /\ InitWith([bits |-> Traces[tid].cfg.bits, lb |-> Traces[tid].cfg.lb])

MatchCmp == /\ last'.lt = E.lt /\ last'.gt = E.gt /\ last'.eq = E.eq /\ last'.ne = E.ne
            /\ last'.le = E.le /\ last'.ge = E.ge
MatchAdd == /\ last'.res = E.res
            /\ (E.res = "ok" => /\ last'.v = E.v /\ last'.gts = E.gts
                                /\ last'.lts = E.lts /\ last'.eqs = E.eqs)

Step(A, M) == /\ l <= Len(T.ev) /\ A /\ M /\ Inv' /\ l' = l + 1 /\ UNCHANGED tid

TNext == \/ (E.e = "cmp" /\ Step(Cmp(E.a, E.b), MatchCmp))
         \/ (E.e = "add" /\ Step(AddOk(E.s, E.n) \/ AddRefused(E.s, E.n), MatchAdd))

TSpec == TInit /\ [][l <= Len(T.ev) /\ TNext]_<<vars, tid, l>>

Progress == TLCSet(tid, IF TLCGet(tid) > l THEN TLCGet(tid) ELSE l)
Rejected == {<<t, TLCGet(t)>> : t \in {u \in 1..Len(Traces) : TLCGet(u) # Len(Traces[u].ev) + 1}}
Accepted == Rejected = {} \/ (PrintT(<<"REJECTED", Rejected>>) /\ FALSE)
=============================================================================
