------------------------------- MODULE ConnPool -------------------------------
(* Extension X02 -- twisted.web.client.HTTPConnectionPool (persistent connection cache)
   composed with HTTP11ClientProtocol's QUIESCENT notification.
   Connections are numbered in creation order; each belongs to one key.
   A connection is in exactly one place: in use (one request outstanding), cached, or gone.
   Implementation-shaped: eviction counts dead-but-undiscovered cached connections, as coded. *)
EXTENDS Naturals, Integers, Sequences, FiniteSets

VARIABLES cfg,       \* [max |-> n, timeout |-> t]
          now,
          cached,    \* key -> sequence of connection ids, oldest first
          deadline,  \* connection id -> time at which its cache entry expires (only for cached)
          inuse,     \* set of connection ids with a request outstanding
          dead,      \* cached connections the peer has closed (the pool has not noticed yet)
          closed,    \* connections the pool asked to close (loseConnection/abort)
          keyOf,     \* connection id -> key
          nconn,
          putseq,    \* connection id -> sequence number of its latest return to the cache; putseq[0-th] unused
          nput,
          korder,    \* keys in the order they first received a cache entry (since the last CloseAll)
          last
vars == <<cfg, now, cached, deadline, inuse, dead, closed, keyOf, nconn, putseq, nput, korder, last>>
Keys == {1, 2}

InitWith(c) ==
    /\ cfg = c /\ now = 0
    /\ cached = [k \in Keys |-> <<>>]
    /\ deadline = <<>> /\ inuse = {} /\ dead = {} /\ closed = {} /\ keyOf = <<>> /\ nconn = 0
    /\ putseq = <<>> /\ nput = 0 /\ korder = <<>>
    /\ last = [e |-> "init"]

Range(s) == {s[i] : i \in 1..Len(s)}
RECURSIVE DropDead(_)
DropDead(q) == IF q = <<>> THEN <<>> ELSE IF Head(q) \in dead THEN DropDead(Tail(q)) ELSE q
Without(q, S) == SelectSeq(q, LAMBDA x : x \notin S)

(* getConnection(key): the oldest cached connection that is still quiescent is reused (dead ones found
   on the way are discarded); otherwise a new connection is opened. *)
Get(k) ==
    LET q == DropDead(cached[k]) IN
    /\ k \in Keys
    /\ IF q # <<>>
         THEN /\ inuse' = inuse \cup {Head(q)}
              /\ cached' = [cached EXCEPT ![k] = Tail(q)]
              /\ last' = [e |-> "get", k |-> k, c |-> Head(q), new |-> FALSE, closed |-> <<>>]
              /\ UNCHANGED <<nconn, keyOf>>
         ELSE /\ nconn' = nconn + 1
              /\ keyOf' = Append(keyOf, k)
              /\ inuse' = inuse \cup {nconn + 1}
              /\ cached' = [cached EXCEPT ![k] = <<>>]
              /\ last' = [e |-> "get", k |-> k, c |-> nconn + 1, new |-> TRUE, closed |-> <<>>]
    /\ dead' = dead \ (Range(cached[k]) \ Range(q))     \* discarded entries are forgotten
    /\ UNCHANGED <<cfg, now, deadline, closed, putseq, nput, korder>>

(* the outstanding request on c completes with a persistent response: c is returned to the cache;
   if the cache for its key is full the oldest entry is closed and dropped. *)
Finish(c) ==
    LET k == keyOf[c]  q == cached[k]  full == Len(q) = cfg.max IN
    /\ c \in inuse
    /\ inuse' = inuse \ {c}
    /\ cached' = [cached EXCEPT ![k] = Append(IF full /\ q # <<>> THEN Tail(q) ELSE q, c)]
    /\ closed' = IF full /\ q # <<>> THEN closed \cup {Head(q)} ELSE closed
    /\ dead' = IF full /\ q # <<>> THEN dead \ {Head(q)} ELSE dead
    /\ deadline' = [i \in 1..nconn |-> IF i = c THEN now + cfg.timeout ELSE IF i \in DOMAIN deadline THEN deadline[i] ELSE 0]
    /\ last' = [e |-> "finish", c |-> c,
                closed |-> IF full /\ q # <<>> /\ Head(q) \notin dead THEN <<Head(q)>> ELSE <<>>]
    /\ nput' = nput + 1
    /\ putseq' = [i \in 1..nconn |-> IF i = c THEN nput + 1 ELSE IF i \in DOMAIN putseq THEN putseq[i] ELSE 0]
    /\ korder' = IF \E i \in 1..Len(korder) : korder[i] = k THEN korder ELSE Append(korder, k)
    /\ UNCHANGED <<cfg, now, keyOf, nconn>>

(* the response says Connection: close: the connection is not cached *)
FinishClose(c) ==
    /\ c \in inuse
    /\ inuse' = inuse \ {c}
    /\ last' = [e |-> "finishclose", c |-> c, closed |-> <<>>]
    /\ UNCHANGED <<cfg, now, cached, deadline, dead, closed, keyOf, nconn, putseq, nput, korder>>

(* the peer closes an idle cached connection; the pool is not told *)
Die(c) ==
    /\ \E k \in Keys : c \in Range(cached[k])
    /\ c \notin dead
    /\ dead' = dead \cup {c}
    /\ last' = [e |-> "die", c |-> c, closed |-> <<>>]
    /\ UNCHANGED <<cfg, now, cached, deadline, inuse, closed, keyOf, nconn, putseq, nput, korder>>

AllCached == UNION {Range(cached[k]) : k \in Keys}
Expired(t) == {c \in AllCached : deadline[c] <= t}
RECURSIVE SortByDeadline(_)
SortByDeadline(S) == IF S = {} THEN <<>> ELSE
    LET m == CHOOSE x \in S : \A y \in S : deadline[x] < deadline[y] \/ (deadline[x] = deadline[y] /\ putseq[x] <= putseq[y])
    IN <<m>> \o SortByDeadline(S \ {m})

(* the clock advances: every cache entry whose timeout is reached is closed and removed *)
Advance(d) ==
    LET ex == Expired(now + d) IN
    /\ d \in Nat
    /\ now' = now + d
    /\ cached' = [k \in Keys |-> Without(cached[k], ex)]
    /\ closed' = closed \cup ex
    /\ dead' = dead \ ex
    /\ last' = [e |-> "advance", d |-> d, closed |-> SortByDeadline(ex \ dead)]
    /\ UNCHANGED <<cfg, deadline, inuse, keyOf, nconn, putseq, nput, korder>>

RECURSIVE InKeyOrder(_)
InKeyOrder(ks) == IF ks = <<>> THEN <<>> ELSE Without(cached[Head(ks)], dead) \o InKeyOrder(Tail(ks))

(* closeCachedConnections(): every cached connection is closed, key by key in first-use order *)
CloseAll ==
    /\ cached' = [k \in Keys |-> <<>>]
    /\ closed' = closed \cup AllCached
    /\ dead' = {}
    /\ last' = [e |-> "closeall", closed |-> InKeyOrder(korder)]
    /\ korder' = <<>>
    /\ UNCHANGED <<cfg, now, deadline, inuse, keyOf, nconn, putseq, nput>>

Next == \/ \E k \in Keys : Get(k)
        \/ \E c \in 1..nconn : Finish(c)
        \/ \E c \in 1..nconn : FinishClose(c)
        \/ \E c \in 1..nconn : Die(c)
        \/ \E d \in 0..3 : Advance(d)
        \/ CloseAll

-----------------------------------------------------------------------------
CacheBound   == \A k \in Keys : Len(cached[k]) <= cfg.max
OnePlace     == /\ inuse \cap AllCached = {}
                /\ \A k \in Keys : \A i, j \in 1..Len(cached[k]) : i # j => cached[k][i] # cached[k][j]
                /\ \A k \in Keys : \A c \in Range(cached[k]) : keyOf[c] = k
NoClosedLive == (inuse \cup AllCached) \cap closed = {}     \* nothing the pool closed is handed out or cached
NoOverdue    == \A c \in AllCached : deadline[c] > now \/ cfg.timeout = 0 \/ deadline[c] >= now
Inv == CacheBound /\ OnePlace /\ NoClosedLive
=============================================================================
