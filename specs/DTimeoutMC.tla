----------------------------- MODULE DTimeoutMC -----------------------------
EXTENDS DTimeout, TLC
CONSTANTS MaxNow, MaxLevel
Cfgs == {[src |-> "user", canc |-> c, gate |-> g, lt |-> 0, fk |-> "na"] : c \in CancKinds \ {"errc"}, g \in BOOLEAN}
        \cup {[src |-> "later", canc |-> "later", gate |-> FALSE, lt |-> t, fk |-> f] : t \in 1..2, f \in FKinds}
Init == \E c \in Cfgs : InitWith(c)
Spec == Init /\ [][Next]_vars
Bound == now <= MaxNow /\ TLCGet("level") <= MaxLevel
View == <<cfg, now, [s EXCEPT !.probes = <<>>, !.otcs = <<>>, !.canc = 0, !.fr = 0]>>
=============================================================================
