-------------------------- MODULE TelnetDataTrace --------------------------
(* Batched trace validation: every recorded execution of the real TelnetTransport (sender)
   and the real Telnet / TelnetTransport (receiver) must be a behaviour of TelnetData with
   every logged field matching and every invariant holding after every step.

   events:  {"e":"write", "kind":"write"|"seq", "app":[[bytes]..], "wire":[bytes]}
            {"e":"inject", "wire":[bytes]}
            {"e":"deliver", "k":n, "out":[items], "exc":"", "one":[items]}
            "out" = what the peer's callbacks saw during this delivery, "one" = what a fresh
            peer saw when given the whole consumed prefix in one piece.                    *)
EXTENDS TelnetData, TLC, Json, IOUtils

Traces == JsonDeserialize(IOEnv.TRACE_FILE)
VARIABLES tid, l
ASSUME \A t \in 1..Len(Traces) : TLCSet(t, 1)

T == Traces[tid]
E == T.ev[l]

TInit == /\ tid \in 1..Len(Traces) /\ l = 1
         /\ InitWith([mode |-> Traces[tid].cfg.mode])

(* The design invariants are conjoined primed into the steps, so a real execution breaking one is
   rejected at that step.  A write/inject step conjoins the per-call form of SenderInv/ValidWire
   (CallInv, see TelnetData); a delivery conjoins the invariants over what the peer has received;
   the reference decoding of the whole stream (RefInv) is evaluated wherever the peer has consumed
   everything written so far (RefInvSync), and at every cut the real peer's output is compared with
   the machine's (E.out) and with the real one-piece run of that prefix (E.one). *)
Step(A, I) == /\ l <= Len(T.ev) /\ A /\ I /\ l' = l + 1 /\ UNCHANGED tid
WireInv == CallInv /\ NoLoss /\ EndToEnd
RecvInv == RefInvSync /\ NoCommands /\ NoLoss /\ EndToEnd

TWrite   == /\ E.e = "write"
            /\ E.kind \in {"write", "seq"}
            /\ (E.kind = "write" => Len(E.app) = 1)
            /\ Step(WriteCall(E.kind, E.app, E.wire), WireInv')
TInject  == /\ E.e = "inject" /\ Step(Inject(E.wire), WireInv')
TDeliver == /\ E.e = "deliver"
            /\ Step(Deliver(E.k), RecvInv')
            /\ E.exc = ""                 \* no exception escaped dataReceived
            /\ E.out = last'.out          \* what the real peer saw in this delivery = the spec's
            /\ E.one = out'               \* segmentation: same as the one-piece run of the prefix

TNext == TWrite \/ TInject \/ TDeliver
TSpec == TInit /\ [][l <= Len(T.ev) /\ TNext]_<<vars, tid, l>>

Progress == TLCSet(tid, IF TLCGet(tid) > l THEN TLCGet(tid) ELSE l)
Rejected == {<<t, TLCGet(t)>> : t \in {u \in 1..Len(Traces) : TLCGet(u) # Len(Traces[u].ev) + 1}}
Accepted == Rejected = {} \/ (PrintT(<<"REJECTED", Rejected>>) /\ FALSE)
=============================================================================
