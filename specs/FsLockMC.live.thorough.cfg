SPECIFICATION Fair
CONSTANT Configs <- ConfigsLive3
PROPERTY StaleAcquired
CHECK_DEADLOCK FALSE
