------------------------------ MODULE ReconnectMC ------------------------------
EXTENDS Reconnect, TLC
\* jitter configurations need factor = 2 and an even maxDelay so that mu*(2+j)/2 is an integer
Cf(i, fa, m, r, t, j) == [init |-> i, factor |-> fa, maxd |-> m, maxr |-> r, tmo |-> t, jit |-> j]
ConfigsQ == {Cf(i, 2, 4, r, t, 0) : i \in {1, 2}, r \in {None, 2}, t \in {0, 2}}
       \cup {Cf(1, 2, 5, 0, 0, 0), Cf(1, 3, 10, 1, 0, 0)}
       \cup {Cf(1, 2, 4, r, t, 1) : r \in {None, 2}, t \in {0, 2}}
ConfigsT == {Cf(i, 2, m, r, t, 0) : i \in {1, 2, 3}, m \in {4, 5}, r \in {None, 0, 2}, t \in {0, 2}}
       \cup {Cf(1, 3, 10, r, 0, 0) : r \in {None, 1}}
       \cup {Cf(i, 2, 4, r, t, 1) : i \in {1, 2}, r \in {None, 2}, t \in {0, 2}}
SpecQ == (\E c \in ConfigsQ : InitWith(c)) /\ [][Next]_vars
SpecT == (\E c \in ConfigsT : InitWith(c)) /\ [][Next]_vars
BoundQ == now <= 16 /\ f.retries <= 4 /\ TLCGet("level") <= 9
BoundT == now <= 24 /\ f.retries <= 5 /\ TLCGet("level") <= 11
View == <<cfg, now, conn, tmoAt, f>>
StepProp == [][StepOK]_vars
=============================================================================
