SPECIFICATION Spec
CONSTANT MaxT = 3
CONSTANT MaxR = 0
CONSTANT MaxF = 1
CONSTANT KindSet = "reent"
INVARIANT ReachLate
CHECK_DEADLOCK FALSE
