------------------------------ MODULE TimersAbs ------------------------------
(* C08 / C09 -- abstract semantics of timed calls (IReactorTime.callLater and the
   IDelayedCall returned by it), shared by the two providers checked here:

     cfg.flavour = "reactor" : ReactorBase.  The clock is moved from outside; calls run
                               in iterations (runUntilCurrent); `now` is fixed during an
                               iteration; a call created during an iteration is not
                               eligible in that iteration.
     cfg.flavour = "clock"   : task.Clock.  Advance(d) moves the clock and is itself the
                               run phase; calls created inside it are eligible at once.

   State = what the property texts talk about: the current time, and for every call its
   currently scheduled time and whether it is pending, ran or was cancelled.  User code
   (CallLater / Cancel / Reset / Delay / Gdc) executes either at top level (phase "idle")
   or inside a running call (running # 0).  Where the property leaves freedom the
   action is nondeterministic: tie order between calls scheduled for the same time
   (except the creation-order clause of C09), the value of timeout() below its bound.
   Times are integers (dyadic rationals scaled by the harness).                        *)
EXTENDS Naturals, Integers, Sequences, FiniteSets

VARIABLES cfg,      \* [flavour |-> "reactor" | "clock", neg |-> BOOLEAN (negative delay() amounts may occur)]
          now,      \* current time
          calls,    \* sequence of [t, st, born, moved]; index = creation order = call id
          iter,     \* number of run phases (iterations / advances) started so far
          phase,    \* "idle" | "iter"
          running,  \* id of the call whose function is executing, 0 if none
          last      \* observable outcome of the last action

avars == <<cfg, now, calls, iter, phase, running, last>>

Ids        == 1..Len(calls)
Pending    == {i \in Ids : calls[i].st = "P"}
IsReactor  == cfg.flavour = "reactor"
UserCtx    == phase = "idle" \/ running # 0        \* user code can execute here
Eligible(i) == /\ calls[i].st = "P" /\ calls[i].t <= now
               /\ (IsReactor => calls[i].born < iter)
EligibleSet == {i \in Ids : Eligible(i)}

AInitWith(c) ==
    /\ cfg = c /\ now = 0 /\ calls = <<>> /\ iter = 0 /\ phase = "idle" /\ running = 0
    /\ last = [e |-> "init"]

---------------------------------------------------------------------------
(* user operations *)
CallLater(d) ==
    /\ UserCtx /\ d >= 0
    /\ calls' = Append(calls, [t |-> now + d, st |-> "P", born |-> iter, moved |-> FALSE])
    /\ last' = [e |-> "later", d |-> d, id |-> Len(calls) + 1, t |-> now + d]
    /\ UNCHANGED <<cfg, now, iter, phase, running>>

Refused(i) == IF calls[i].st = "R" THEN "AlreadyCalled" ELSE "AlreadyCancelled"

CancelOk(i) ==
    /\ UserCtx /\ i \in Ids /\ calls[i].st = "P"
    /\ calls' = [calls EXCEPT ![i].st = "C"]
    /\ last' = [e |-> "cancel", id |-> i, res |-> "ok"]
    /\ UNCHANGED <<cfg, now, iter, phase, running>>

CancelRefused(i) ==
    /\ UserCtx /\ i \in Ids /\ calls[i].st # "P"
    /\ last' = [e |-> "cancel", id |-> i, res |-> Refused(i)]
    /\ UNCHANGED <<cfg, now, calls, iter, phase, running>>

(* reset(d): the call is now scheduled for now + d *)
ResetOk(i, d) ==
    /\ UserCtx /\ i \in Ids /\ calls[i].st = "P" /\ d >= 0
    /\ calls' = [calls EXCEPT ![i].t = now + d, ![i].moved = TRUE]
    /\ last' = [e |-> "reset", id |-> i, d |-> d, res |-> "ok", t |-> now + d]
    /\ UNCHANGED <<cfg, now, iter, phase, running>>

ResetRefused(i, d) ==
    /\ UserCtx /\ i \in Ids /\ calls[i].st # "P"
    /\ last' = [e |-> "reset", id |-> i, d |-> d, res |-> Refused(i), t |-> 0]
    /\ UNCHANGED <<cfg, now, calls, iter, phase, running>>

(* delay(d): the call is now scheduled d later than it was (d < 0: sooner) *)
DelayOk(i, d) ==
    /\ UserCtx /\ i \in Ids /\ calls[i].st = "P" /\ (d < 0 => cfg.neg)
    /\ calls' = [calls EXCEPT ![i].t = calls[i].t + d, ![i].moved = TRUE]
    /\ last' = [e |-> "delay", id |-> i, d |-> d, res |-> "ok", t |-> calls[i].t + d]
    /\ UNCHANGED <<cfg, now, iter, phase, running>>

DelayRefused(i, d) ==
    /\ UserCtx /\ i \in Ids /\ calls[i].st # "P"
    /\ last' = [e |-> "delay", id |-> i, d |-> d, res |-> Refused(i), t |-> 0]
    /\ UNCHANGED <<cfg, now, calls, iter, phase, running>>

(* getDelayedCalls() lists exactly the pending calls *)
Gdc ==
    /\ UserCtx
    /\ last' = [e |-> "gdc", ids |-> Pending]
    /\ UNCHANGED <<cfg, now, calls, iter, phase, running>>

(* timeout(): never more than the time until the earliest pending call; "none" (sleep
   forever) only when nothing is pending.  Asked between iterations. *)
MinT(S) == CHOOSE m \in {calls[i].t : i \in S} : \A j \in S : calls[j].t >= m
TimeoutOK(v, none) ==
    Pending # {} => /\ ~none
                    /\ v <= (IF MinT(Pending) > now THEN MinT(Pending) - now ELSE 0)
Timeout(v, none) ==
    /\ IsReactor /\ phase = "idle" /\ TimeoutOK(v, none)
    /\ last' = [e |-> "timeout", v |-> v, none |-> none]
    /\ UNCHANGED <<cfg, now, calls, iter, phase, running>>

---------------------------------------------------------------------------
(* time and run phases *)
AdvanceReactor(d) ==        \* the controlled clock moves; nothing runs until an iteration
    /\ IsReactor /\ phase = "idle" /\ d >= 0
    /\ now' = now + d
    /\ last' = [e |-> "adv", d |-> d]
    /\ UNCHANGED <<cfg, calls, iter, phase, running>>

IterBegin ==                \* runUntilCurrent() starts
    /\ IsReactor /\ phase = "idle"
    /\ phase' = "iter" /\ iter' = iter + 1
    /\ last' = [e |-> "iter"]
    /\ UNCHANGED <<cfg, now, calls, running>>

AdvanceClock(d) ==          \* Clock.advance(d): move the clock and start running
    /\ ~IsReactor /\ phase = "idle" /\ d >= 0
    /\ now' = now + d /\ phase' = "iter" /\ iter' = iter + 1
    /\ last' = [e |-> "adv", d |-> d]
    /\ UNCHANGED <<cfg, calls, running>>

(* A call starts running: it is eligible, no eligible call is scheduled earlier, and
   (C09) among never-rescheduled calls for the same time the oldest goes first.
   From this moment the call counts as called, not pending. *)
TieOK(i) == IsReactor \/ \A j \in EligibleSet :
               (calls[j].t = calls[i].t /\ ~calls[j].moved /\ ~calls[i].moved) => j >= i
RunBegin(i) ==
    /\ phase = "iter" /\ running = 0 /\ i \in Ids /\ Eligible(i)
    /\ \A j \in EligibleSet : calls[j].t >= calls[i].t
    /\ TieOK(i)
    /\ calls' = [calls EXCEPT ![i].st = "R"]
    /\ running' = i
    /\ last' = [e |-> "run", id |-> i, now |-> now, gdc |-> Pending \ {i}]
    /\ UNCHANGED <<cfg, now, iter, phase>>

RunEnd ==
    /\ running # 0
    /\ running' = 0
    /\ last' = [e |-> "ret"]
    /\ UNCHANGED <<cfg, now, calls, iter, phase>>

(* the run phase may end only when no eligible call is left *)
IterEnd ==
    /\ phase = "iter" /\ running = 0 /\ EligibleSet = {}
    /\ phase' = "idle"
    /\ last' = [e |-> "iterend"]
    /\ UNCHANGED <<cfg, now, calls, iter, running>>
=============================================================================
