SPECIFICATION Spec
CONSTANT Configs <- ConfigsStale3
VIEW View
INVARIANT CanRelease
CHECK_DEADLOCK FALSE
