SPECIFICATION Spec
CONSTANT KeyLens = {0, 1, 255, 256}
CONSTANT ValLens = {0, 1, 65535, 65536}
CONSTANT NonBytesVals <- NBQuick
CONSTANT Shapes <- ShapesQuick
VIEW View
INVARIANT RoundTrip
INVARIANT NeverClosed
INVARIANT AllAtEnd
INVARIANT WireIsSer
CHECK_DEADLOCK FALSE
