---------------------------- MODULE AggregateImpl ----------------------------
(* Impl layer for C04: the algorithms as coded in twisted.internet.defer --
   DeferredList._cbDeferred (resultList, finishedCount, `if not self.called`),
   gatherResults (= DeferredList(fireOnOneErrback) + _parseDeferredListResult) and the
   succeeded / failed closures of race (winner, failure_state, sort) -- run in lock step
   with the Abs specification Aggregate.  TLC checks that for every behaviour the result
   computed by the coded algorithm is the result the property demands (ImplRefines), and
   that the algorithm never tries to fire the aggregate a second time.
   The coded cancellation order (list order) is used for the cascade. *)
EXTENDS AggregateMC

VARIABLE impl     \* [rl, fc, win, fs, iagg, dbl]: resultList, finishedCount, winner, failure_state, result, double-fire flag

NoEntry == <<"N", "none", 0>>
Entry(o) == <<IF IsOk(o) THEN "T" ELSE "F", o[1], o[2]>>
FireI(S, r) == IF S.iagg = NoAgg THEN [S EXCEPT !.iagg = r] ELSE [S EXCEPT !.dbl = TRUE]

\* DeferredList._cbDeferred(result, index, succeeded)
CbDeferred(S, i, o) ==
    LET S1 == [S EXCEPT !.rl = [S.rl EXCEPT ![i] = Entry(o)], !.fc = S.fc + 1] IN
    IF S1.iagg # NoAgg THEN S1                                      \* if not self.called:
    ELSE IF IsOk(o) /\ cfg.foc THEN FireI(S1, [t |-> "one", i |-> i, o |-> o, l |-> <<>>])
    ELSE IF IsFail(o) /\ cfg.foe THEN FireI(S1, [t |-> "firsterr", i |-> i, o |-> o, l |-> <<>>])
    ELSE IF S1.fc = Len(S1.rl) THEN FireI(S1, [t |-> "list", i |-> 0, o |-> NoPair, l |-> S1.rl])
    ELSE S1

\* race: succeeded(this_output, this_index) / failed(failure, this_index)
RaceCb(S, i, o) ==
    IF IsOk(o)
    THEN IF S.win = 0 THEN FireI([S EXCEPT !.win = i], [t |-> "race", i |-> i, o |-> o, l |-> <<>>]) ELSE S
    ELSE LET fs2 == Append(S.fs, <<i, o>>) IN
         IF Len(fs2) = N
         THEN FireI([S EXCEPT !.fs = fs2],
                    [t |-> "group", i |-> 0, o |-> NoPair,      \* failure_state.sort(): by index
                     l |-> [k \in 1..N |-> LET e == CHOOSE x \in Range(fs2) : x[1] = k IN <<"-", e[2][1], e[2][2]>>]])
         ELSE [S EXCEPT !.fs = fs2]

Cb(S, i, o) == IF cfg.kind = "race" THEN RaceCb(S, i, o) ELSE CbDeferred(S, i, o)
Absorb(S, q) == LET f[k \in 0..Len(q)] == IF k = 0 THEN S ELSE Cb(f[k - 1], q[k][1], q[k][2]) IN f[Len(q)]

\* gatherResults: .addCallback(_parseDeferredListResult); the FirstError failure passes through
GatherMap(r) == IF r.t = "list" THEN [t |-> "vals", i |-> 0, o |-> NoPair, l |-> [k \in 1..Len(r.l) |-> <<"-", r.l[k][2], r.l[k][3]>>]]
                ELSE IF r.t = "firsterr" THEN [t |-> "fail", i |-> 0, o |-> r.o, l |-> <<>>]
                ELSE r
ImplAgg == IF cfg.kind = "gather" THEN GatherMap(impl.iagg) ELSE impl.iagg

Sorted(S) == LET f[k \in 0..N] == IF k = 0 THEN <<>> ELSE IF k \in S THEN Append(f[k - 1], k) ELSE f[k - 1] IN f[N]
Pairs(q, s) == [k \in 1..Len(q) |-> <<q[k], s[q[k]]>>]
Below(q, w) == SelectSeq(q, LAMBDA j : j < w)
Above(q, w) == SelectSeq(q, LAMBDA j : j > w)

\* the sequence of (index, outcome) the aggregate's callbacks are invoked with during this call
Seen(prim, order, ks, builtAfter) ==
    LET F   == prim \o [k \in 1..Len(order) |-> CancelF(order[k], ks[order[k]])]
        st2 == StAfter(st, F)
    IN IF ~builtAfter THEN <<>>
       ELSE IF built THEN [k \in 1..Len(F) |-> <<F[k].i, F[k].o>>]
       ELSE \* construction: callbacks are attached in list order; already fired inputs run them at once
            LET pre == FiredInIndexOrder(st)
                oks == {j \in Fired(st) : IsOk(st[j])}
            IN IF cfg.kind # "race" \/ oks = {} THEN Pairs(pre, st2)
               ELSE LET w == Min(oks) IN   \* the winner cancels the rest while the loop is at index w
                    Pairs(Below(pre, w) \o <<w>> \o Below(order, w) \o Above(FiredInIndexOrder(st2), w), st2)

Step(prim, order, ks, builtAfter) == impl' = Absorb(impl, Seen(prim, order, ks, builtAfter))

IInit == Init /\ impl = [rl |-> [k \in 1..cfg.n |-> NoEntry], fc |-> 0, win |-> 0, fs |-> <<>>, iagg |-> NoAgg, dbl |-> FALSE]

IFire == \E i \in Inputs, o \in {"ok", "err"} :
           LET p == <<Firing(i, <<o, i>>, Direct)>>
               S == CascadeSet(p, built, FALSE) IN
           \E kc \in [S -> Kinds] : Fire(i, o, Sorted(S), Total(S, kc)) /\ Step(p, Sorted(S), Total(S, kc), built)
ICancelInput == \E i \in Inputs, k \in Kinds :
           LET p == <<CancelF(i, k)>>
               S == CascadeSet(p, built, FALSE) IN
           \E kc \in [S -> Kinds] : CancelInput(i, k, Sorted(S), Total(S, kc)) /\ Step(p, Sorted(S), Total(S, kc), built)
ICancelInputNoop == CancelInputNoopA /\ UNCHANGED impl
IConstruct == LET S == CascadeSet(<<>>, TRUE, FALSE) IN
           \E kc \in [S -> Kinds] : Construct(Sorted(S), Total(S, kc)) /\ Step(<<>>, Sorted(S), Total(S, kc), TRUE)
ICancelAgg == LET S == CascadeSet(<<>>, TRUE, TRUE) IN
           \E kc \in [S -> Kinds] : CancelAgg(Sorted(S), Total(S, kc)) /\ Step(<<>>, Sorted(S), Total(S, kc), TRUE)

INext == IFire \/ ICancelInput \/ ICancelInputNoop \/ IConstruct \/ ICancelAgg
ISpec == IInit /\ [][INext]_<<vars, impl>>

\* the coded algorithm computes exactly the result the property demands, and never fires twice
ImplRefines == ImplAgg = agg /\ ~impl.dbl
\* bookkeeping facts of the code
ImplBook == /\ impl.fc = Cardinality({k \in 1..N : impl.rl[k] # NoEntry}) \/ cfg.kind = "race"
            /\ (cfg.kind = "race" /\ impl.win # 0 => impl.iagg.t = "race" /\ impl.iagg.i = impl.win)

IView == <<View, impl>>
=============================================================================
