-------------------------- MODULE ReactorLifeTrace --------------------------
(* Batched trace validation of real ReactorBase executions (harness/props/x03.py) against ReactorLife.
   Every logged event is compared as a whole record (`last' = E`: name, arguments, result and the public
   `running` attribute read when the event was logged); silent steps of twisted consume no event. *)
EXTENDS ReactorLife, TLC, Json, IOUtils
Traces == JsonDeserialize(IOEnv.TRACE_FILE)
VARIABLES tid, l
ASSUME \A t \in 1..Len(Traces) : TLCSet(t, 1)
T == Traces[tid]
E == T.ev[l]
TInit == tid \in 1..Len(Traces) /\ l = 1 /\ Init
Props == /\ ((sdMark < 0 /\ sdMark' >= 0) => \A c \in pend : c.t > Top.snap)
         /\ (startedBefore => Loops' <= Loops)
         /\ (Loops' < Loops => ~started)
Step(A) == /\ A /\ Inv' /\ Props /\ last' = E /\ l' = l + 1 /\ UNCHANGED tid
Tau(A) == /\ A /\ Inv' /\ Props /\ UNCHANGED <<tid, l>>
TNext == \/ (E.e = "cwr" /\ Step(Cwr(E.f)))
         \/ (E.e = "trig" /\ Step(Trig(E.ev, E.ph, E.f)))
         \/ (E.e = "later" /\ Step(Later(E.d, E.f)))
         \/ (E.e = "stop" /\ Step(Stop))
         \/ (E.e = "crash" /\ Step(Crash))
         \/ (E.e = "run" /\ Step(Run))
         \/ (E.e = "adv" /\ Step(Adv(E.d)))
         \/ (E.e = "fire" /\ Step(Fire(E.f)))
         \/ (E.e = "end" /\ Step(End(E.out)))
         \/ (E.e = "cb" /\ Step(CallBefore(E.f) \/ CallPhase(E.f) \/ CallNow(E.f) \/ CallTimed(E.f)))
         \/ (E.e = "iter" /\ Step(Iter))
         \/ (E.e = "returned" /\ Step(Returned))
         \/ (E.e = "cwrret" /\ Step(CwrRet))
         \/ (E.e = "firedone" /\ Step(FireDone))
         \/ Tau(Silent)
TSpec == TInit /\ [][l <= Len(T.ev) /\ TNext]_<<vars, tid, l>>
Progress == TLCSet(tid, IF TLCGet(tid) > l THEN TLCGet(tid) ELSE l)
Rejected == {<<t, TLCGet(t)>> : t \in {u \in 1..Len(Traces) : TLCGet(u) # Len(Traces[u].ev) + 1}}
Accepted == Rejected = {} \/ (PrintT(<<"REJECTED", Rejected>>) /\ FALSE)
=============================================================================
