--------------------------- MODULE SshChanLifeTrace ---------------------------
(* Batched trace validation: every recorded execution of a real SSHConnection pair must be a behaviour of
   SshChanLife with every logged field equal, all invariants holding after every step and StepOK on every step. *)
EXTENDS SshChanLife, TLC, Json, IOUtils
Traces == JsonDeserialize(IOEnv.TRACE_FILE)
VARIABLES tid, l
ASSUME \A t \in 1..Len(Traces) : TLCSet(t, 1)
T == Traces[tid]
E == T.ev[l]
TInit == tid \in 1..Len(Traces) /\ l = 1 /\ InitWith([auto |-> Traces[tid].cfg.auto])
\* same multiset; the spec's callback lists never contain a duplicate (each channel / Deferred appears once)
Perm(a, b) == Len(a) = Len(b) /\ Range(a) = Range(b) /\ Cardinality(Range(a)) = Len(a)
Step(A) == /\ l <= Len(T.ev) /\ A /\ Inv' /\ StepOK
           /\ last'.e = E.e /\ last'.s = E.s /\ last'.sent = E.sent /\ last'.exc = E.exc
           /\ l' = l + 1 /\ UNCHANGED tid
TNext == \/ (E.e = "open" /\ Step(Open(E.s, E.k)) /\ last'.cb = E.cb)
         \/ (E.e = "deliver" /\ Step(Deliver(E.s)) /\ last'.m = E.m /\ last'.cb = E.cb)
         \/ (E.e = "eof" /\ Step(Eof(E.s, E.c)) /\ last'.cb = E.cb)
         \/ (E.e = "write" /\ Step(Write(E.s, E.c)) /\ last'.cb = E.cb)
         \/ (E.e = "close" /\ Step(Close(E.s, E.c)) /\ last'.cb = E.cb)
         \/ (E.e = "request" /\ Step(Request(E.s, E.c, E.k, E.w)) /\ last'.cb = E.cb /\ last'.ret = E.ret)
         \/ (E.e = "resolve" /\ Step(Resolve(E.s, E.c, E.i, E.ok)) /\ last'.cb = E.cb /\ last'.err = E.err)
         \/ (E.e = "stop" /\ Step(Stop(E.s)) /\ Perm(last'.cb, E.cb))
TSpec == TInit /\ [][l <= Len(T.ev) /\ TNext]_<<vars, tid, l>>
Progress == TLCSet(tid, IF TLCGet(tid) > l THEN TLCGet(tid) ELSE l)
Rejected == {<<t, TLCGet(t)>> : t \in {u \in 1..Len(Traces) : TLCGet(u) # Len(Traces[u].ev) + 1}}
Accepted == Rejected = {} \/ (PrintT(<<"REJECTED", Rejected>>) /\ FALSE)
=============================================================================
