SPECIFICATION MCSpec
CONSTANT L = 4
CONSTANT Mode = "quoted"
VIEW View
INVARIANT Ok
INVARIANT Inv
CHECK_DEADLOCK FALSE
