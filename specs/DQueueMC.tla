------------------------------ MODULE DQueueMC ------------------------------
EXTENDS DQueue, TLC
CONSTANT Depth
Lims == {None, 0, 1, 2}
Init == \E s \in Lims, b \in Lims : InitWith([size |-> s, backlog |-> b])
Spec == Init /\ [][Next]_vars
Bound == nObj + nGet + Cardinality(cancelled) <= Depth /\ TLCGet("level") <= Depth + 2
View == <<cfg, pending, waiting, deliv, cancelled, nObj, nGet, accepted>>
=============================================================================
