------------------------------ MODULE DTimeout ------------------------------
(* Extension X17 -- twisted.internet.defer.Deferred.addTimeout and twisted.internet.task.deferLater
   on a stepped clock (task.Clock).

   One Deferred d.  Its source is either the user (d = Deferred(canceller); the user fires it with
   callback / errback) or deferLater(clock, lt, f) (a delayed call fires it with f's result; its canceller
   cancels that call).  Optionally the first callback of d (the "gate") answers a success with a fresh inner
   Deferred, so that d is "called" but its chain is paused until the inner Deferred fires ("release").
   Then comes probe 0 (an addBoth that records what it sees and passes it on), and after every
   addTimeout(t, clock, onTimeoutCancel) another probe; probe i therefore sees the outcome as translated by
   timeouts 1..i.  addTimeout number i contributes to d's chain
        convert_i : if timeout i has expired, onTimeoutCancel_i(result, t_i) (default: CancelledError -> TimeoutError)
        cancelT_i : cancel delayed call i when it is still pending
   and its delayed call, when it runs, sets the "expired" flag and calls d.cancel().

   Results are triples <<kind, name, n>>: <<"OK", value-name, 0>>, <<"ERR", exception class, n>> where n is the
   timeout carried by a TimeoutError (0 otherwise).                                                          *)
EXTENDS Naturals, Integers, Sequences, FiniteSets

VARIABLES cfg,     \* [src |-> "user"|"later", canc |-> canceller kind, gate |-> BOOLEAN, lt |-> deferLater delay, fk |-> kind of f]
          now,
          s,       \* the machine state (record, see InitWith)
          last     \* what the last public call let the user observe
vars == <<cfg, now, s, last>>

NoRes      == <<"NONE", "", 0>>
OKv(x)     == <<"OK", x, 0>>
ERRv(x)    == <<"ERR", x, 0>>
Cancelled  == ERRv("CancelledError")
TimeoutErr(t) == <<"ERR", "TimeoutError", t>>
OtcKinds   == {"default", "value", "reraise", "other"}
CancKinds  == {"none", "ignore", "errc", "value", "erro"}
FKinds     == {"val", "raise", "nil"}
FRes       == CASE cfg.fk = "val" -> OKv("fv") [] cfg.fk = "raise" -> ERRv("FError") [] OTHER -> OKv("None")

InitWith(c) ==
    /\ cfg = c /\ now = 0
    /\ s = [tmo    |-> <<>>,       \* timeouts in the order added: [dl, t, otc, st \in {"armed","fired","cancelled"}, hit]
            dcalled |-> FALSE,     \* d.called
            dsup   |-> FALSE,      \* d swallows the next callback/errback (cancelled without a canceller)
            inner  |-> "none",     \* the gate's inner Deferred: "none" | "waiting" | "fired"
            isup   |-> FALSE,      \* same as dsup, for the inner Deferred
            later  |-> IF c.src = "later" THEN "armed" ELSE "na",    \* deferLater's delayed call
            fruns  |-> 0,          \* times f has run
            ncanc  |-> 0,          \* times the user's canceller has run
            pr     |-> <<NoRes>>,  \* pr[i+1] = what probe i saw (NoRes: not fired yet)
            first  |-> "none",     \* what fired d: "result" | "timeout" | "cancel"
            probes |-> <<>>, otcs |-> <<>>, canc |-> 0, fr |-> 0]     \* per-event observation accumulators
    /\ last = [e |-> "init"]

Clr(x) == [x EXCEPT !.probes = <<>>, !.otcs = <<>>, !.canc = 0, !.fr = 0]
N(x) == Len(x.tmo)
Complete(x) == x.pr[1] # NoRes
Cur(x) == x.pr[Len(x.pr)]

(* onTimeoutCancel kinds.  default = _cancelledToTimedOutError: a CancelledError failure becomes TimeoutError(t),
   any other failure is re-raised unchanged, a success is returned unchanged. *)
Otc(kind, r, t) ==
    CASE kind = "default" -> IF r[1] = "ERR" /\ r[2] = "CancelledError" THEN TimeoutErr(t) ELSE r
      [] kind = "value"   -> OKv("ov")
      [] kind = "reraise" -> r
      [] OTHER            -> ERRv("OtherError")

(* the result r reaches stage i (convert_i, cancelT_i, probe_i) and runs on to the end of the chain *)
RECURSIVE Stages(_, _, _)
Stages(x, r, i) ==
    IF i > N(x) THEN x
    ELSE LET tm == x.tmo[i]
             r2 == IF tm.hit THEN Otc(tm.otc, r, tm.t) ELSE r
             x2 == [x EXCEPT !.otcs = IF tm.hit /\ tm.otc # "default" THEN Append(@, <<i, r[1], r[2], r[3], tm.t>>) ELSE @,
                             !.tmo[i].st = IF @ = "armed" THEN "cancelled" ELSE @,
                             !.pr[i + 1] = r2,
                             !.probes = Append(@, <<i, r2[1], r2[2], r2[3]>>)]
         IN Stages(x2, r2, i + 1)

(* the result r comes out of the gate (or d has no gate): probe 0, then every stage *)
RunChain(x, r) == Stages([x EXCEPT !.pr[1] = r, !.probes = Append(@, <<0, r[1], r[2], r[3]>>)], r, 1)

(* d, not yet called, is fired with r *)
Fire(x, r, why) ==
    LET x1 == [x EXCEPT !.dcalled = TRUE, !.first = why] IN
    IF cfg.gate /\ r[1] = "OK" THEN [x1 EXCEPT !.inner = "waiting"] ELSE RunChain(x1, r)

(* d.cancel() *)
CancelD(x, why) ==
    IF ~x.dcalled THEN
        IF cfg.src = "later" THEN Fire([x EXCEPT !.later = "cancelled"], Cancelled, why)
        ELSE IF cfg.canc = "none" THEN Fire([x EXCEPT !.dsup = TRUE], Cancelled, why)
        ELSE LET x1 == [x EXCEPT !.ncanc = @ + 1, !.canc = @ + 1] IN
             CASE cfg.canc = "value" -> Fire(x1, OKv("cv"), why)
               [] cfg.canc = "erro"  -> Fire(x1, ERRv("CancellerError"), why)
               [] OTHER              -> Fire(x1, Cancelled, why)          \* "ignore", "errc"
    ELSE IF x.inner = "waiting" THEN RunChain([x EXCEPT !.inner = "fired", !.isup = TRUE], Cancelled)   \* forwarded to the inner Deferred
    ELSE x

(* delayed call i runs: 0 = deferLater's call, i >= 1 = timeout i *)
RunCall(x, i) ==
    IF i = 0 THEN Fire([x EXCEPT !.later = "fired", !.fruns = @ + 1, !.fr = @ + 1], FRes, "result")
    ELSE CancelD([x EXCEPT !.tmo[i].hit = TRUE, !.tmo[i].st = "fired"], "timeout")

TimeOf(x, i) == IF i = 0 THEN cfg.lt ELSE x.tmo[i].dl
Due(x, t) == {i \in 0..N(x) : IF i = 0 THEN x.later = "armed" /\ cfg.lt <= t ELSE x.tmo[i].st = "armed" /\ x.tmo[i].dl <= t}
(* task.Clock.advance: due calls run in order of time, ties in order of creation *)
RECURSIVE Drain(_, _)
Drain(x, t) ==
    IF Due(x, t) = {} THEN x
    ELSE LET i == CHOOSE a \in Due(x, t) : \A b \in Due(x, t) : TimeOf(x, a) < TimeOf(x, b) \/ (TimeOf(x, a) = TimeOf(x, b) /\ a <= b)
         IN Drain(RunCall(x, i), t)

Calls(x) == (IF cfg.src = "later" THEN << <<cfg.lt, x.later>> >> ELSE <<>>) \o [i \in 1..N(x) |-> <<x.tmo[i].dl, x.tmo[i].st>>]
Obs(name, x, exc) == [e |-> name, probes |-> x.probes, otcs |-> x.otcs, canc |-> x.canc, fr |-> x.fr, exc |-> exc, calls |-> Calls(x)]
-----------------------------------------------------------------------------
(* d.addTimeout(t, clock, onTimeoutCancel of kind k), followed by a new probe.  On a Deferred whose chain has already
   run to its end the new callbacks run at once: the result is not translated and the fresh delayed call is cancelled. *)
AddTimeout(t, k) ==
    /\ t \in Nat /\ k \in OtcKinds
    /\ LET x  == Clr(s)
           tm == [dl |-> now + t, t |-> t, otc |-> k, st |-> "armed", hit |-> FALSE]
           x1 == [x EXCEPT !.tmo = Append(@, tm), !.pr = Append(@, NoRes)]
           x2 == IF Complete(x) THEN Stages(x1, Cur(x), N(x1)) ELSE x1
       IN s' = x2 /\ last' = Obs("addTimeout", x2, "")
    /\ UNCHANGED <<cfg, now>>

(* d.callback(v) / d.errback(UserError()) by the user: fires d; on a d that was cancelled without a canceller the first
   such call is swallowed silently; otherwise AlreadyCalledError *)
UserFire(name, r) ==
    LET x == Clr(s) IN
    IF ~x.dcalled THEN LET x1 == Fire(x, r, "result") IN [s |-> x1, o |-> Obs(name, x1, "")]
    ELSE IF x.dsup THEN LET x1 == [x EXCEPT !.dsup = FALSE] IN [s |-> x1, o |-> Obs(name, x1, "")]
    ELSE [s |-> x, o |-> Obs(name, x, "AlreadyCalledError")]
Callback ==
    /\ cfg.src = "user"
    /\ s' = UserFire("callback", OKv("v")).s /\ last' = UserFire("callback", OKv("v")).o
    /\ UNCHANGED <<cfg, now>>
Errback ==
    /\ cfg.src = "user"
    /\ s' = UserFire("errback", ERRv("UserError")).s /\ last' = UserFire("errback", ERRv("UserError")).o
    /\ UNCHANGED <<cfg, now>>

(* the inner Deferred handed out by the gate is fired with a value *)
Release ==
    /\ s.inner # "none"
    /\ LET x == Clr(s) IN
       IF x.inner = "waiting" THEN LET x1 == RunChain([x EXCEPT !.inner = "fired"], OKv("gv")) IN s' = x1 /\ last' = Obs("release", x1, "")
       ELSE IF x.isup THEN LET x1 == [x EXCEPT !.isup = FALSE] IN s' = x1 /\ last' = Obs("release", x1, "")
       ELSE s' = x /\ last' = Obs("release", x, "AlreadyCalledError")
    /\ UNCHANGED <<cfg, now>>

Cancel ==
    /\ LET x1 == CancelD(Clr(s), "cancel") IN s' = x1 /\ last' = Obs("cancel", x1, "")
    /\ UNCHANGED <<cfg, now>>

Advance(d) ==
    /\ d \in Nat
    /\ now' = now + d
    /\ LET x1 == Drain(Clr(s), now + d) IN s' = x1 /\ last' = Obs("advance", x1, "")
    /\ UNCHANGED cfg

MaxT == 2
Next == \/ (N(s) < MaxT /\ \E t \in 0..2, k \in OtcKinds : AddTimeout(t, k))
        \/ Callback
        \/ Errback
        \/ Release
        \/ Cancel
        \/ \E d \in 0..2 : Advance(d)
-----------------------------------------------------------------------------
(* What a user relies on. *)
Hits      == {i \in 1..N(s) : s.tmo[i].hit}
Armed     == {i \in 1..N(s) : s.tmo[i].st = "armed"}
Exotic    == cfg.gate /\ cfg.canc = "value"       \* a canceller that answers with a success which the gate then parks
PlainCanc == cfg.src = "later" \/ cfg.canc \in {"none", "ignore", "errc"}
SetProbes == {k \in 1..Len(s.pr) : s.pr[k] # NoRes}

\* no timer leak: once d has a result that is not parked in the gate, nothing of ours is pending on the clock
NoLeak == (s.dcalled /\ s.inner # "waiting") => (Armed = {} /\ s.later # "armed")
\* every probe fires together with the others (the chain never stops half-way) and not before d is called
AllOrNone == /\ (SetProbes = {} \/ SetProbes = 1..Len(s.pr))
             /\ (Complete(s) => (s.dcalled /\ s.inner # "waiting"))
             /\ ((s.dcalled /\ s.inner # "waiting") => Complete(s))
\* the user's canceller runs at most once; a timeout that expires cancels d once
CancellerOnce == s.ncanc <= 1
OneExpiry == ~Exotic => Cardinality(Hits) <= 1
\* never early, never left pending past the deadline by an advance
Timely == \A i \in 1..N(s) : /\ (s.tmo[i].hit => (s.tmo[i].dl <= now /\ s.tmo[i].st = "fired"))
                            /\ (s.tmo[i].st = "armed" => s.tmo[i].dl >= now)
                            /\ (s.tmo[i].st = "fired" => s.tmo[i].hit)
\* TimeoutError(t) is only ever reported when a default-translated timeout of t really expired at or before that probe
TimeoutIsReal == \A k \in SetProbes : (s.pr[k][1] = "ERR" /\ s.pr[k][2] = "TimeoutError") =>
                     \E i \in Hits : i < k /\ s.tmo[i].otc = "default" /\ s.tmo[i].t = s.pr[k][3]
\* a result that came first is what every probe sees; nothing expired, nobody was cancelled
ResultWins == (s.first = "result" /\ ~cfg.gate) =>
                  /\ Hits = {} /\ s.ncanc = 0
                  /\ \A k \in SetProbes : s.pr[k] = s.pr[1]
                  /\ Complete(s) /\ s.pr[1] \in (IF cfg.src = "later" THEN {FRes} ELSE {OKv("v"), ERRv("UserError")})
\* a user's cancel that came first is reported as the cancellation outcome, never as a timeout
UserCancel == (s.first = "cancel" /\ ~Exotic) =>
                  /\ Hits = {}
                  /\ \A k \in SetProbes : s.pr[k] = s.pr[1]
                  /\ (PlainCanc => (Complete(s) /\ s.pr[1] = Cancelled))
\* a timeout that came first, default translation everywhere, plain canceller: the outcome is TimeoutError(t of the one that expired)
TimeoutWins == (s.first = "timeout" /\ ~cfg.gate /\ PlainCanc /\ \A i \in 1..N(s) : s.tmo[i].otc = "default") =>
                  /\ Cardinality(Hits) = 1
                  /\ \A i \in Hits : /\ \A k \in 1..Len(s.pr) : s.pr[k] = IF k <= i THEN Cancelled ELSE TimeoutErr(s.tmo[i].t)
\* deferLater: f runs at most once, exactly when its call fires, never before lt, never after a cancel
Later == /\ s.fruns <= 1
         /\ (cfg.src = "user" => (s.later = "na" /\ s.fruns = 0))
         /\ (cfg.src = "later" => /\ (s.later = "fired") = (s.fruns = 1)
                                  /\ (s.later = "fired" => now >= cfg.lt)
                                  /\ (s.later = "armed" => (now <= cfg.lt /\ ~s.dcalled))
                                  /\ (s.later = "cancelled" => (s.fruns = 0 /\ s.first # "result")))
Inv == NoLeak /\ AllOrNone /\ CancellerOnce /\ OneExpiry /\ Timely /\ TimeoutIsReal /\ ResultWins /\ UserCancel /\ TimeoutWins /\ Later

\* step properties: a probe fires once and what it saw never changes; d stays called; a delayed call that ran or was cancelled stays so
StepOK == /\ Len(s'.pr) >= Len(s.pr) /\ N(s') >= N(s)
          /\ \A k \in 1..Len(s.pr) : s.pr[k] # NoRes => s'.pr[k] = s.pr[k]
          /\ (s.dcalled => s'.dcalled)
          /\ (s.first # "none" => s'.first = s.first)
          /\ \A i \in 1..N(s) : /\ (s.tmo[i].st # "armed" => s'.tmo[i].st = s.tmo[i].st)
                               /\ (s.tmo[i].hit => s'.tmo[i].hit)
                               /\ s'.tmo[i].dl = s.tmo[i].dl
          /\ (s.later \in {"fired", "cancelled"} => s'.later = s.later)
          /\ s'.fruns >= s.fruns /\ s'.ncanc >= s.ncanc
Stable == [][StepOK]_vars
=============================================================================
