--------------------------- MODULE HttpRespWireMC ---------------------------
(* Exhaustive TLC run for C20 on the specification itself.

   A reference server (ModelWires: every framing the property allows, built by a
   reference serialiser written here) is driven through all call sequences over
   representative octets of every byte class, within a total-length budget.
   TLC checks, in every reachable state,
     OracleAccepts : every reference serialisation is accepted by Judge
                     (Parse(Ser(x)) = x -- the oracle raises no false alarm), and
     OracleRejects : every member of a list of wrong serialisations (injected
                     reason phrase, unsanitised value, body on HEAD/204/304, missing
                     last-chunk, undelimited body on an open connection, duplicated
                     write, dropped / duplicated header, wrong status, ";" kept in a
                     cookie) is rejected by Judge (the oracle has teeth).          *)
EXTENDS HttpRespWire, TLC, Integers
CONSTANTS Budget, MaxField, NegControl, Rich
ASSUME Budget \in Nat /\ MaxField \in Nat

\* representative octets of the classes that matter in each position (Rich = all of them)
ReasonSyms == IF Rich THEN {120, 32, 13, 10, 0, 233} ELSE {120, 13, 10, 0}
NameSyms == IF Rich THEN {97, 45, 32, 58, 233, 13} ELSE {97, 32, 58}
ValSyms == IF Rich THEN {120, 32, 13, 10, 0, 233, 58, 9} ELSE {120, 32, 13, 10, 0}
CookSyms == IF Rich THEN {120, 59, 61, 13, 32} ELSE {120, 59, 13}
BodySyms == IF Rich THEN {120, 13, 10, 48} ELSE {13, 48}
Seqs(S, n) == UNION {[1..k -> S] : k \in 0..n}

(* Budget: every non-default choice costs 1, every symbol costs 1 (small-scope bound on the whole call sequence). *)
RECURSIVE SumCost(_, _)
SumCost(cs, i) == IF i > Len(cs) THEN 0 ELSE cs[i] + SumCost(cs, i + 1)
HdrCost(h) == IF h[1] = NContentLength THEN 1 ELSE 1 + Len(h[1]) + Len(h[2])
CookieCost(c) == 1 + Len(c.k) + Len(c.v) + SumCost([i \in 1..Len(c.attrs) |-> 1 + Len(c.attrs[i][2])], 1) + Len(c.flags)
Used == (IF code # 200 THEN 1 ELSE 0) + (IF reasonSet THEN 1 + Len(reason) ELSE 0)
        + SumCost([i \in 1..Len(hdrs) |-> HdrCost(hdrs[i])], 1)
        + SumCost([i \in 1..Len(cookies) |-> CookieCost(cookies[i])], 1)
        + SumCost([i \in 1..Len(writes) |-> 1 + Len(writes[i])], 1)
Left == Budget - Used
\* symbols available to a new item (the item itself costs 1)
Lim == IF Left - 1 < MaxField THEN Left - 1 ELSE MaxField
Fits(n) == n >= 0

APath == <<112, 97, 116, 104>>
FSecure == <<115, 101, 99, 117, 114, 101>>

-----------------------------------------------------------------------------
(* reference serialiser *)
CRLF == <<CR, LF>>
Dig3(c) == <<48 + (c \div 100), 48 + ((c \div 10) % 10), 48 + (c % 10)>>
RECURSIVE ToHex(_)
ToHex(n) == LET d == n % 16
                ch == IF d < 10 THEN 48 + d ELSE 87 + d
            IN IF n < 16 THEN <<ch>> ELSE ToHex(n \div 16) \o <<ch>>
StatusBytes(rsn) == <<72, 84, 84, 80, 47, 49, 46, 48 + cfg.minor, SP>> \o Dig3(code) \o <<SP>> \o rsn \o CRLF
ModelReason == IF reasonSet THEN UnsafeToSpace(reason, 1, TRUE) ELSE <<79, 75>>
HdrLine(n, v) == n \o <<COLON, SP>> \o v \o CRLF
HdrBytesOf(hs, raw) == Concat([i \in 1..Len(hs) |-> HdrLine(hs[i][1], IF raw THEN hs[i][2] ELSE UnsafeToSpace(hs[i][2], 1, TRUE))], 1)
San(s, keepSemi) == IF keepSemi THEN UnsafeToSpace(s, 1, TRUE) ELSE SemiToSpace(UnsafeToSpace(s, 1, TRUE))
CookieBytes(c, keepSemi) ==
    San(c.k, keepSemi) \o <<EQUALS>> \o San(c.v, keepSemi)
    \o Concat([i \in 1..Len(c.attrs) |-> <<SEMI, SP>> \o c.attrs[i][1] \o <<EQUALS>> \o San(c.attrs[i][2], keepSemi)], 1)
    \o Concat([i \in 1..Len(c.flags) |-> <<SEMI, SP>> \o c.flags[i]], 1)
CookieLines(keepSemi) == Concat([k \in 1..Len(cookies) |-> HdrLine(NSetCookie, CookieBytes(cookies[k], keepSemi))], 1)
Chunk(d) == ToHex(Len(d)) \o CRLF \o d \o CRLF
LastChunk == <<48, CR, LF, CR, LF>>
ChunksPerWrite == Concat([i \in 1..Len(writes) |-> IF writes[i] = <<>> THEN <<>> ELSE Chunk(writes[i])], 1)
ChunkWhole(b) == IF b = <<>> THEN <<>> ELSE Chunk(b)
TELine == HdrLine(NTransferEncoding, VChunked)
HasUserCL == NContentLength \in UserNames
HeadBytes(extra) == StatusBytes(ModelReason) \o HdrBytesOf(hdrs, FALSE) \o extra \o CookieLines(FALSE) \o CRLF
Closings == IF cfg.minor = 0 THEN {TRUE} ELSE BOOLEAN

ModelWires ==
    IF NoBody \/ HasUserCL
    THEN {[w |-> HeadBytes(<<>>) \o (IF NoBody THEN <<>> ELSE Body), cl |-> c] : c \in Closings}
    ELSE IF cfg.minor = 1
    THEN {[w |-> HeadBytes(TELine) \o b \o LastChunk, cl |-> c] : b \in {ChunksPerWrite, ChunkWhole(Body)}, c \in BOOLEAN}
    ELSE {[w |-> HeadBytes(<<>>) \o Body, cl |-> TRUE]}

Framed(head(_), b) ==     \* a correct framing of body b behind the given head-without-blank-line builder
    IF NoBody THEN head(<<>>) \o CRLF
    ELSE IF HasUserCL \/ cfg.minor = 0 THEN head(<<>>) \o CRLF \o b
    ELSE head(TELine) \o CRLF \o ChunkWhole(b) \o LastChunk
DefaultHead(extra) == StatusBytes(ModelReason) \o HdrBytesOf(hdrs, FALSE) \o extra \o CookieLines(FALSE)
DefCl == cfg.minor = 0

BuggyWires ==
    (IF reasonSet /\ HasUnsafe(reason)
     THEN {[tag |-> "reason-verbatim", cl |-> DefCl,
            w |-> Framed(LAMBDA x : StatusBytes(reason) \o HdrBytesOf(hdrs, FALSE) \o x \o CookieLines(FALSE), Body)]}
     ELSE {})
    \cup (IF \E i \in 1..Len(hdrs) : HasUnsafe(hdrs[i][2])
          THEN {[tag |-> "value-verbatim", cl |-> DefCl,
                 w |-> Framed(LAMBDA x : StatusBytes(ModelReason) \o HdrBytesOf(hdrs, TRUE) \o x \o CookieLines(FALSE), Body)]}
          ELSE {})
    \cup (IF \E k \in 1..Len(cookies) : Has(cookies[k].v, SEMI) \/ Has(cookies[k].k, SEMI)
          THEN {[tag |-> "cookie-semicolon-kept", cl |-> DefCl,
                 w |-> Framed(LAMBDA x : StatusBytes(ModelReason) \o HdrBytesOf(hdrs, FALSE) \o x \o CookieLines(TRUE), Body)]}
          ELSE {})
    \cup (IF NoBody /\ Body # <<>>
          THEN {[tag |-> "body-on-bodyless", cl |-> DefCl, w |-> DefaultHead(<<>>) \o CRLF \o Body],
                [tag |-> "chunked-body-on-bodyless", cl |-> DefCl, w |-> DefaultHead(TELine) \o CRLF \o ChunkWhole(Body) \o LastChunk]}
          ELSE {})
    \cup (IF ~NoBody /\ ~HasUserCL /\ cfg.minor = 1
          THEN {[tag |-> "no-last-chunk", cl |-> c, w |-> DefaultHead(TELine) \o CRLF \o ChunkWhole(Body)] : c \in BOOLEAN}
               \cup {[tag |-> "undelimited-on-open-connection", cl |-> FALSE, w |-> DefaultHead(<<>>) \o CRLF \o Body]}
               \cup {[tag |-> "chunk-size-off-by-one", cl |-> FALSE,
                      w |-> DefaultHead(TELine) \o CRLF \o ToHex(Len(Body) + 1) \o CRLF \o Body \o CRLF \o LastChunk]}
          ELSE {})
    \cup (IF ~NoBody /\ Len(writes) > 0 /\ writes[Len(writes)] # <<>>
          THEN {[tag |-> "write-duplicated", cl |-> DefCl, w |-> Framed(DefaultHead, Body \o writes[Len(writes)])]}
               \cup (IF HasUserCL THEN {} ELSE {[tag |-> "write-dropped", cl |-> DefCl, w |-> Framed(DefaultHead, Concat(SubSeq(writes, 1, Len(writes) - 1), 1))]})
          ELSE {})
    \cup (IF Len(hdrs) > 0
          THEN {[tag |-> "header-dropped", cl |-> DefCl,
                 w |-> Framed(LAMBDA x : StatusBytes(ModelReason) \o HdrBytesOf(SubSeq(hdrs, 1, Len(hdrs) - 1), FALSE) \o x \o CookieLines(FALSE), Body)],
                [tag |-> "header-duplicated", cl |-> DefCl,
                 w |-> Framed(LAMBDA x : StatusBytes(ModelReason) \o HdrBytesOf(Append(hdrs, hdrs[1]), FALSE) \o x \o CookieLines(FALSE), Body)]}
          ELSE {})
    \cup (IF Len(cookies) > 0
          THEN {[tag |-> "cookie-dropped", cl |-> DefCl, w |-> Framed(LAMBDA x : StatusBytes(ModelReason) \o HdrBytesOf(hdrs, FALSE) \o x, Body)]}
          ELSE {})
    \cup (IF NegControl THEN {[tag |-> "neg-control", cl |-> m.cl, w |-> m.w] : m \in ModelWires} ELSE {})
    \cup {[tag |-> "extra-header", cl |-> DefCl,
           w |-> Framed(LAMBDA x : StatusBytes(ModelReason) \o HdrBytesOf(hdrs, FALSE) \o x \o HdrLine(<<122, 122, 122>>, <<49>>) \o CookieLines(FALSE), Body)]}

OracleAccepts == (phase = "open" /\ AppConsistent) => \A m \in ModelWires : Judge(m.w, m.cl)
OracleRejects == (phase = "open" /\ AppConsistent) =>
                    \A m \in BuggyWires : ~Judge(m.w, m.cl) \/ (PrintT(<<"NOT-REJECTED", m.tag, m.w>>) /\ FALSE)

-----------------------------------------------------------------------------
(* Vacuity guard without -coverage (its instrumentation makes the recursive parser two orders of
   magnitude slower): every action reports itself once per worker through a TLC register. *)
ASSUME \A k \in 101..109 : TLCSet(k, 0)
Seen(k, name) == TLCGet(k) = 1 \/ (TLCSet(k, 1) /\ PrintT(<<"ACTION", name>>))
Init == \E mi \in {0, 1}, h \in BOOLEAN : InitWith([minor |-> mi, head |-> h])

Stage0 == hdrs = <<>> /\ cookies = <<>> /\ writes = <<>> /\ ~reasonSet /\ code = 200
Stage1 == cookies = <<>> /\ writes = <<>>
Stage2 == writes = <<>>

DoSetCodeOk == Stage0 /\ Left >= 1 /\ \E c \in {200, 204, 304, 404}, rs \in BOOLEAN :
                   \E r \in (IF rs THEN Seqs(ReasonSyms, IF c = 200 THEN Lim ELSE Lim - 1) ELSE {<<>>}) :
                       (c # 200 \/ rs) /\ SetCodeOk(c, rs, r) /\ Seen(101, "DoSetCodeOk")
DoSetCodeRefused == Stage0 /\ Left >= 1 /\ \E r \in Seqs(ReasonSyms, Lim) : SetCodeRefused(200, TRUE, r) /\ Seen(102, "DoSetCodeRefused")
DoSetHeaderOk == Stage1 /\ Left >= 2 /\ Len(hdrs) < 2 /\ \E n \in Seqs(NameSyms, Lim) : \E v \in Seqs(ValSyms, Lim - Len(n)) :
                     SetHeaderOk(n, v, FALSE) /\ Seen(103, "DoSetHeaderOk")
DoSetHeaderRefused == Stage1 /\ Left >= 1 /\ Len(hdrs) < 2 /\ \E n \in Seqs(NameSyms, Lim) : \E v \in Seqs(ValSyms, Lim - Len(n)) :
                          SetHeaderRefused(n, v, FALSE) /\ Seen(104, "DoSetHeaderRefused")
DoSetContentLength == Stage1 /\ Left >= 1 /\ ~HasUserCL /\ \E d \in {48, 49, 50} : SetHeaderOk(NContentLength, <<d>>, FALSE) /\ Seen(105, "DoSetContentLength")
DoAddCookieOk == Stage2 /\ Left >= 1 /\ Len(cookies) < 1 /\ \E k \in Seqs(CookSyms, Lim) : \E v \in Seqs(CookSyms, Lim - Len(k)) :
                     \E at \in {<<>>} \cup {<< <<APath, p>> >> : p \in Seqs(CookSyms, Lim - Len(k) - Len(v) - 1)}, fl \in {<<>>, <<FSecure>>} :
                         /\ (Len(fl) = 0 \/ Lim - Len(k) - Len(v) - (IF at = <<>> THEN 0 ELSE 1 + Len(at[1][2])) >= 1)
                         /\ AddCookieOk(k, v, at, fl, FALSE) /\ Seen(106, "DoAddCookieOk")
DoAddCookieRefused == Stage2 /\ Left >= 1 /\ Len(cookies) < 1 /\ \E k \in Seqs(CookSyms, Lim) : \E v \in Seqs(CookSyms, Lim - Len(k)) :
                          AddCookieRefused(k, v, <<>>, <<>>, FALSE) /\ Seen(107, "DoAddCookieRefused")
DoWrite == Left >= 1 /\ Len(writes) < 3 /\ \E d \in Seqs(BodySyms, Lim) : Write(d) /\ Seen(108, "DoWrite")
DoFinish == \E m \in ModelWires : Finish(m.w, m.cl) /\ Seen(109, "DoFinish")

Next == DoSetCodeOk \/ DoSetCodeRefused \/ DoSetHeaderOk \/ DoSetHeaderRefused \/ DoSetContentLength
        \/ DoAddCookieOk \/ DoAddCookieRefused \/ DoWrite \/ DoFinish
Spec == Init /\ [][Next]_vars
View == <<cfg, phase, code, reasonSet, reason, hdrs, cookies, writes, wire, closed>>
=============================================================================
