SPECIFICATION Spec
CONSTANT Depth = 10
CONSTANT MaxAcq = 6
CONSTRAINT Bound
VIEW View
INVARIANT Safe
INVARIANT NoIdleWaiter
INVARIANT Fifo
INVARIANT NoCancelledGrant
INVARIANT Accounting
INVARIANT RunReleaseOnce
CHECK_DEADLOCK FALSE
