SPECIFICATION Spec
CONSTANT MaxOps = 3
CONSTANT MaxCrash = 2
CONSTANT Win = TRUE
CONSTRAINT Bound
VIEW View
INVARIANT Inv
INVARIANT IdleOk
CHECK_DEADLOCK FALSE
