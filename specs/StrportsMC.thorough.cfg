SPECIFICATION Spec
CONSTANT MaxLen = 4
CONSTANT NSlots = 3
CONSTANT Quoter = "ref"
INVARIANT RoundTrip
INVARIANT MachineIsRefParse
CHECK_DEADLOCK FALSE
