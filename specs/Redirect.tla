------------------------------ MODULE Redirect ------------------------------
(* C27 -- redirect-following agents (twisted.web.client.RedirectAgent and
   BrowserLikeRedirectAgent) over an inner agent.

   State = what the property talks about: the request that is outstanding at the inner
   agent (method, URI), how many redirects were followed, the URI / origin of the
   original request, which sensitive headers the caller supplied.  One action per
   observable step:
      Start            the wrapper issues the caller's request to the inner agent
      Respond(c, loc)  (environment) the inner agent answers with status c and Location loc
      Follow(S)        the wrapper issues the follow-up request, carrying the sensitive headers S
      Finish(kind)     the wrapper's Deferred fires (response returned / failure)

   URIs are structured, RFC 3986 section 3: [scheme, host, port, abs, segs, hasq, q, hasf, f];
   a path is (abs ? "/" : "") \o Join(segs, "/"); the empty path is abs = FALSE, segs = <<>>.
   A Location is a reference [kind, ...]: "abs" (scheme://authority path), "net" (//authority path),
   "path" (absolute, relative or empty path), "missing" (no Location header).
   Resolve() is the transformation of RFC 3986 5.2.2 with remove_dot_segments (5.2.4) and
   merge (5.2.3), plus the fragment inheritance of RFC 9110 10.2.2.                            *)
EXTENDS Naturals, Sequences, FiniteSets

VARIABLES cfg,      \* [agent, limit, method, uri, given]   given = set of sensitive header names the caller supplied
          phase,    \* "idle" | "waiting" (request outstanding) | "answered" (redirect/response received) | "done"
          cur,      \* [method, uri] of the outstanding / last request
          prev,     \* [method, uri] of the request that received the last redirect followed
          hops,     \* follow-up requests issued so far
          resp,     \* last response received [code, loc]
          last      \* observable of the last step
vars == <<cfg, phase, cur, prev, hops, resp, last>>

RedirectCodes == {301, 302, 303, 307, 308}

-----------------------------------------------------------------------------
(* RFC 3986 *)
RemoveDots(segs) ==
    LET F[i \in 0..Len(segs)] ==
          IF i = 0 THEN <<>>
          ELSE LET s == segs[i]
                   st == F[i - 1]
                   isLast == (i = Len(segs))
                   popped == IF st = <<>> THEN <<>> ELSE SubSeq(st, 1, Len(st) - 1)
               IN IF s = "." THEN (IF isLast THEN Append(st, "") ELSE st)
                  ELSE IF s = ".." THEN (IF isLast THEN Append(popped, "") ELSE popped)
                  ELSE Append(st, s)
    IN F[Len(segs)]

EmptyPath(x) == ~x.abs /\ x.segs = <<>>
Merge(B, R) == IF B.segs = <<>> THEN R.segs                                 \* base has an authority and an empty path
               ELSE SubSeq(B.segs, 1, Len(B.segs) - 1) \o R.segs            \* all but the last segment of the base

Resolve(B, R) ==
    LET auth == IF R.kind \in {"abs", "net"} THEN R ELSE B
        pq == IF R.kind \in {"abs", "net"} \/ R.abs
                 THEN [abs |-> ~EmptyPath(R), segs |-> IF EmptyPath(R) THEN <<>> ELSE RemoveDots(R.segs), hasq |-> R.hasq, q |-> R.q]
              ELSE IF EmptyPath(R)
                 THEN [abs |-> B.abs, segs |-> B.segs, hasq |-> IF R.hasq THEN TRUE ELSE B.hasq, q |-> IF R.hasq THEN R.q ELSE B.q]
              ELSE [abs |-> TRUE, segs |-> RemoveDots(Merge(B, R)), hasq |-> R.hasq, q |-> R.q]
    IN [scheme |-> IF R.kind = "abs" THEN R.scheme ELSE B.scheme,
        host |-> auth.host, port |-> auth.port,
        abs |-> pq.abs, segs |-> pq.segs, hasq |-> pq.hasq, q |-> pq.q,
        hasf |-> IF R.hasf THEN TRUE ELSE B.hasf, f |-> IF R.hasf THEN R.f ELSE B.f]

EffPort(u) == IF u.port # "" THEN u.port ELSE IF u.scheme = "https" THEN "443" ELSE "80"
Origin(u) == <<u.scheme, u.host, EffPort(u)>>

-----------------------------------------------------------------------------
(* Which method may the follow-up request use?  "REFUSE" = the agent may decline to follow.
   307/308 preserve the method (RFC 9110 15.4.8/15.4.9; the property); both agents document that
   307-like codes are only followed automatically for GET and HEAD.  303 -> GET.  301/302: the
   strict agent treats them like 307, the browser-like agent documents "behave like 303".        *)
NextMethods(agent, code, m) ==
    CASE code \in {307, 308} -> IF m \in {"GET", "HEAD"} THEN {m} ELSE {m, "REFUSE"}
      [] code = 303 -> {"GET"}
      [] code \in {301, 302} -> IF agent = "browser" THEN {"GET"}
                                ELSE IF m \in {"GET", "HEAD"} THEN {m} ELSE {m, "REFUSE"}

InitWith(c) ==
    /\ cfg = c /\ phase = "idle" /\ cur = [method |-> c.method, uri |-> c.uri]
    /\ prev = [method |-> c.method, uri |-> c.uri]
    /\ hops = 0 /\ resp = [code |-> 0] /\ last = [e |-> "init"]

Start ==
    /\ phase = "idle"
    /\ phase' = "waiting"
    /\ last' = [e |-> "req", method |-> cfg.method, uri |-> cfg.uri, sens |-> cfg.given]
    /\ UNCHANGED <<cfg, cur, prev, hops, resp>>

Respond(code, loc) ==
    /\ phase = "waiting"
    /\ phase' = "answered"
    /\ resp' = [code |-> code, loc |-> loc]
    /\ last' = [e |-> "resp", code |-> code, loc |-> loc]
    /\ UNCHANGED <<cfg, cur, prev, hops>>

CanFollow == /\ resp.code \in RedirectCodes /\ resp.loc.kind # "missing" /\ hops < cfg.limit
MustFollow == CanFollow /\ "REFUSE" \notin NextMethods(cfg.agent, resp.code, cur.method)

(* the follow-up request: target resolved against the URI of the request that received the
   redirect; sensitive headers only towards the original request's origin *)
Follow(S) ==
    /\ phase = "answered" /\ CanFollow
    /\ \E m \in NextMethods(cfg.agent, resp.code, cur.method) \ {"REFUSE"} :
         LET target == Resolve(cur.uri, resp.loc) IN
         /\ S \subseteq cfg.given
         /\ (S # {} => Origin(target) = Origin(cfg.uri))
         /\ cur' = [method |-> m, uri |-> target]
         /\ last' = [e |-> "req", method |-> m, uri |-> target, sens |-> S]
    /\ prev' = cur
    /\ hops' = hops + 1
    /\ phase' = "waiting"
    /\ UNCHANGED <<cfg, resp>>

FinishOk ==      \* a response that is not a redirect is the result
    /\ phase = "answered" /\ resp.code \notin RedirectCodes
    /\ phase' = "done" /\ last' = [e |-> "done", res |-> "ok", code |-> resp.code]
    /\ UNCHANGED <<cfg, cur, prev, hops, resp>>

FinishFail ==    \* a redirect that is not followed ends the request (how it is reported is left free: failure or the 3xx itself)
    /\ phase = "answered" /\ resp.code \in RedirectCodes /\ ~MustFollow
    /\ phase' = "done"
    /\ \E r \in {"fail", "ok"} : last' = [e |-> "done", res |-> r, code |-> resp.code]
    /\ UNCHANGED <<cfg, cur, prev, hops, resp>>

Next == \/ Start
        \/ \E S \in SUBSET cfg.given : Follow(S)
        \/ FinishOk
        \/ FinishFail

-----------------------------------------------------------------------------
(* The property as state invariants (evaluated on the model and at every step of every real trace) *)
LimitInv   == hops <= cfg.limit
ConfineInv == last.e = "req" => (last.sens # {} => Origin(last.uri) = Origin(cfg.uri))
NoDotsInv  == last.e = "req" /\ hops > 0 => \A i \in DOMAIN last.uri.segs : last.uri.segs[i] \notin {".", ".."}
MethodInv  == last.e = "req" /\ hops > 0 =>
                 /\ (resp.code \in {307, 308} => last.method = prev.method)
                 /\ (resp.code = 303 => last.method = "GET")
TargetInv  == last.e = "req" /\ hops > 0 =>         \* algebraic facts about the resolved target (independent of Resolve's case split)
                 /\ (resp.loc.kind = "abs" => Origin(last.uri) = <<resp.loc.scheme, resp.loc.host, EffPort([scheme |-> resp.loc.scheme, port |-> resp.loc.port])>>)
                 /\ (resp.loc.kind = "path" => Origin(last.uri) = Origin(prev.uri))
                 /\ (resp.loc.hasf => last.uri.hasf /\ last.uri.f = resp.loc.f)
                 /\ (last.uri.abs \/ last.uri.segs = <<>>)
Inv == LimitInv /\ ConfineInv /\ NoDotsInv /\ MethodInv /\ TargetInv
=============================================================================
