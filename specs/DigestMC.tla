------------------------------ MODULE DigestMC ------------------------------
(* Exhaustive TLC run: histories of Issue / Tick / Respond over 2 addresses, <= MaxCh challenges,
   clock <= MaxNow; on every reachable state the property (Decl) and the memory-less verification
   (Alg) agree for EVERY response in the symbolic response space (invariant Equiv).          *)
EXTENDS Digest, TLC
CONSTANTS MaxCh, MaxNow

Addrs == {1, 2, 3}        \* 3 = "no address" (None, "", b"" are spellings of it)
NonceClasses == {"G", "Tsent", "Tboth", "other", "missing"}
OpaqueClasses == {"G", "other", "Tmac", "TkeyN", "TkeyA", "TkeyT", "forged", "Mjunk"} \cup OpShapes
AllG == [f \in RestFields |-> "G"]
RestClasses(f) == CASE f = "username" -> {"T", "missing", "empty"}
                    [] f = "realm" -> {"Tsent", "Thashed"}
                    [] f = "uri" -> {"T", "missing"}
                    [] f = "response" -> {"T", "Tcase", "missing", "short"}
                    [] f = "nc" -> {"T", "missing"}
                    [] f = "cnonce" -> {"T", "missing"}
                    [] f = "qop" -> {"T", "missing"}
                    [] f = "algorithm" -> {"absent", "T", "Munknown"}
                    [] f = "extra" -> {"nonascii-key", "nonascii-val", "garbage"}
Rests == {AllG} \cup UNION {{[AllG EXCEPT ![f] = c] : c \in RestClasses(f)} : f \in RestFields}      \* single-field mutations
(* Decl and Alg depend on the remaining fields only through RestOK: three representatives suffice for Equiv
   (all genuine / one free class / one altered); every single-field mutation is enumerated for the transitions. *)
RepRests == {AllG, [AllG EXCEPT !["realm"] = "Tsent"], [AllG EXCEPT !["uri"] = "T"]}
Mk(c, o, a, p, nc, oc, rs) == [ch |-> c, o |-> o, from |-> a, pw |-> p, mode |-> "auth", nonce |-> nc, opaque |-> oc, rest |-> rs]
Resps == {Mk(c, o, a, p, nc, oc, rs) : c \in 1..Len(issued), o \in 1..Len(issued), a \in Addrs, p \in {"p1"},
                                       nc \in NonceClasses, oc \in OpaqueClasses, rs \in RepRests}
SomeResps == {Mk(c, c, issued[c].a, "p1", "G", "G", rs) : c \in 1..Len(issued), rs \in Rests}
             \cup {Mk(c, c, a, p, "G", oc, AllG) : c \in 1..Len(issued), a \in Addrs, p \in Passwords, oc \in OpaqueClasses \ {"other"}}
             \cup {Mk(c, o, a, "p1", nc, "other", AllG) : c \in 1..Len(issued), o \in 1..Len(issued), a \in Addrs, nc \in {"G", "other"}}
             \cup {Mk(c, c, a, "p1", nc, "G", AllG) : c \in 1..Len(issued), a \in Addrs, nc \in NonceClasses}

Init == \E L \in {0, 1}, al \in {"md5", "sha"} : InitWith([L |-> L, algo |-> al])
MCNext == \/ (Len(issued) < MaxCh /\ \E a \in Addrs : Issue(a))
          \/ (now < MaxNow /\ Tick(1))
          \/ \E r \in SomeResps : Respond(r)
Spec == Init /\ [][MCNext]_vars

Equiv == \A r \in Resps : \A p \in Passwords : Alg(r, p) = Decl(r, p)
(* the accepting case is reachable and unique per response: at most one password is accepted *)
OnePassword == \A r \in Resps : Cardinality({p \in Passwords : Decl(r, p)}) <= 1
View == <<cfg, now, issued>>       \* `last` (the observable) is not part of the explored state
=============================================================================
