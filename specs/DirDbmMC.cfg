SPECIFICATION Spec
CONSTANT MaxOps = 3
CONSTANT MaxCrash = 2
CONSTANT NKeys = 2
CONSTRAINT Bound
VIEW View
INVARIANT Inv
INVARIANT IdleOk
INVARIANT PcMode
CHECK_DEADLOCK FALSE
