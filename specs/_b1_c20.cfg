SPECIFICATION Spec
CONSTANT Budget = 1
CONSTANT MaxField = 2
VIEW View
INVARIANT OracleAccepts
INVARIANT OracleRejects
INVARIANT Inv
CHECK_DEADLOCK FALSE
