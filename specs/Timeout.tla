------------------------------- MODULE Timeout -------------------------------
(* Extension X01 -- twisted.protocols.policies.TimeoutMixin on a controlled clock.
   A protocol has at most one pending timeout.  setTimeout(p) arms / re-arms / disarms it,
   resetTimeout() pushes the deadline to now + period when armed, and timeoutConnection()
   is called exactly once when the clock reaches the deadline; afterwards the mixin is
   disarmed (resetTimeout does nothing) until the next setTimeout(p).                   *)
EXTENDS Naturals, Integers, Sequences
None == -1
VARIABLES now, period, deadline, fired, last
vars == <<now, period, deadline, fired, last>>

Init == now = 0 /\ period = None /\ deadline = None /\ fired = 0 /\ last = [e |-> "init"]

SetTimeout(p) ==
    /\ p \in Nat \cup {None}
    /\ last' = [e |-> "set", p |-> p, prev |-> period, fired |-> 0]
    /\ period' = p
    /\ deadline' = IF p = None THEN None ELSE now + p
    /\ UNCHANGED <<now, fired>>

Reset ==
    /\ last' = [e |-> "reset", fired |-> 0]
    /\ deadline' = IF deadline # None /\ period # None THEN now + period ELSE deadline
    /\ UNCHANGED <<now, period, fired>>

\* advance(d): task.Clock semantics - the timeout fires iff its deadline is reached
Advance(d) ==
    /\ d \in Nat
    /\ now' = now + d
    /\ LET hit == deadline # None /\ deadline <= now + d IN
       /\ fired' = IF hit THEN fired + 1 ELSE fired
       /\ deadline' = IF hit THEN None ELSE deadline
       /\ last' = [e |-> "advance", d |-> d, fired |-> IF hit THEN 1 ELSE 0]
    /\ UNCHANGED period

Next == (\E p \in 0..3 \cup {None} : SetTimeout(p)) \/ Reset \/ (\E d \in 0..4 : Advance(d))

\* never fires early, never stays armed past its deadline
Armed == deadline # None => period # None
Inv == Armed /\ (deadline # None => deadline >= now)
=============================================================================
