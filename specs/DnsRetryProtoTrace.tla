-------------------------- MODULE DnsRetryProtoTrace --------------------------
EXTENDS DnsRetryProto, Json, IOUtils
Traces == JsonDeserialize(IOEnv.TRACE_FILE)
VARIABLES tid, l
ASSUME \A t \in 1..Len(Traces) : TLCSet(t, 1)
T == Traces[tid]
E == T.ev[l]
TInit == tid \in 1..Len(Traces) /\ l = 1 /\ InitWith(Traces[tid].cfg)
Matches == /\ last'.sent = E.sent /\ last'.listens = E.listens /\ last'.fired = E.fired
           /\ last'.unexpected = E.unexpected /\ Len(timers') = E.timers /\ E.logerr = 0 /\ E.raised = ""
Step(A) == l <= Len(T.ev) /\ A /\ Matches /\ Inv' /\ ExactlyOnceStep /\ l' = l + 1 /\ UNCHANGED tid
TNext == \/ (E.e = "query" /\ Step(Query(E.k, E.t)))
         \/ (E.e = "deliver" /\ Step(Deliver(E.i, E.v)))
         \/ (E.e = "garbage" /\ Step(Garbage))
         \/ (E.e = "advance" /\ Step(Advance(E.d)))
         \/ (E.e = "fire" /\ Step(Fire))
         \/ (E.e = "rmresend" /\ Step(RemoveResend(E.i)))
         \/ (E.e = "stop" /\ Step(Stop))
         \/ (E.e = "end" /\ Step(End))
TSpec == TInit /\ [][l <= Len(T.ev) /\ TNext]_<<vars, tid, l>>
Progress == TLCSet(tid, IF TLCGet(tid) > l THEN TLCGet(tid) ELSE l)
Rejected == {<<t, TLCGet(t)>> : t \in {u \in 1..Len(Traces) : TLCGet(u) # Len(Traces[u].ev) + 1}}
Accepted == Rejected = {} \/ (PrintT(<<"REJECTED", Rejected>>) /\ FALSE)
=============================================================================
