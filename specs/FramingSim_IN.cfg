SPECIFICATION SSpec
CONSTANT L = 9
CONSTANT Kind = "IN"
CONSTANT LOBound = "asis"
CONSTANT Depth = 13
CONSTRAINT Emit
CONSTRAINT Stop
CHECK_DEADLOCK FALSE
