--------------------------------- MODULE Coop ---------------------------------
(* C11 -- twisted.internet.task.Cooperator / CooperativeTask with a capturing
   scheduler and a work-unit-count termination predicate.

   State = what the property talks about: for every task whether it is finished
   (and how), how often the user paused it, whether it waits on a Deferred it
   yielded, how long it has been waiting for a turn; every whenDone / coiterate
   Deferred and whether it fired.  Tasks, yielded Deferreds and whenDone
   Deferreds are numbered in creation order (identity kept).  What an iterator
   does on next() (value / unfired Deferred / already fired Deferred / raise /
   exhaust) is chosen by the environment.

   Freedom the property leaves, kept nondeterministic here:
   * WHICH runnable task is advanced next -- any, as long as no task that stays
     runnable waits more than StarveK * (number of runnable tasks) work units;
   * the result of resume() on a task that is not user-paused but waits on its
     own Deferred, and of resume() on a finished task;
   * whether Cooperator.stop() finishes paused / waiting tasks at once or when
     they would next become runnable.                                        *)
EXTENDS Naturals, Integers, Sequences, FiniteSets

VARIABLES cfg,      \* [started |-> BOOLEAN]  (Cooperator(started=...))
          tk,       \* sequence of task records (see NewTask)
          wd,       \* sequence of [t |-> task, fired |-> 0/1]: Deferreds returned by whenDone()/coiterate()
          dfr,      \* sequence of [t |-> owner task, st |-> "unfired" | "ok" | "fail"]: Deferreds yielded by iterators
          started, stopped,     \* Cooperator.start() / stop()
          inTick, units, budget,\* a scheduler tick is in progress; work units done in it; units allowed
          last      \* observable outcome of the last action

vars == <<cfg, tk, wd, dfr, started, stopped, inTick, units, budget, last>>

StarveK == 4

NewTask == [fin |-> "none",    \* "none" | "TaskDone" | "TaskStopped" | "TaskFailed" | "SchedulerStopped"
            res |-> "none",    \* what whenDone Deferreds get: "iter" | "TaskStopped" | "Boom" | "InnerFail" | "SchedulerStopped"
            pc |-> 0,          \* pause() calls not yet matched by resume()
            wait |-> 0,        \* id of the unfired Deferred it yielded (0: none)
            age |-> 0,         \* work units given to others since it last ran / became runnable
            peak |-> 0]        \* largest number of runnable tasks seen during that wait

InitWith(c) ==
    /\ cfg = c /\ tk = <<>> /\ wd = <<>> /\ dfr = <<>>
    /\ started = c.started /\ stopped = FALSE
    /\ inTick = FALSE /\ units = 0 /\ budget = 0
    /\ last = [e |-> "init"]

Max(a, b) == IF a > b THEN a ELSE b
Tasks == 1..Len(tk)
RunnableIn(tks, t) == tks[t].fin = "none" /\ tks[t].pc = 0 /\ tks[t].wait = 0
Runnable(t) == RunnableIn(tk, t)
RunSet == {t \in Tasks : Runnable(t)}
\* when true the scheduler must have been asked for a tick
NeedIn(tks, st, sp) == st /\ ~sp /\ \E t \in DOMAIN tks : RunnableIn(tks, t)
NeedTick == NeedIn(tk, started, stopped)

\* finish every task in S with state f / result r
Fin(tks, S, f, r) == [t \in DOMAIN tks |-> IF t \in S THEN [tks[t] EXCEPT !.fin = f, !.res = r] ELSE tks[t]]
\* ... which fires each of their unfired whenDone Deferreds, once
WdFire(S) == [i \in DOMAIN wd |-> IF wd[i].t \in S /\ wd[i].fired = 0 THEN [wd[i] EXCEPT !.fired = 1] ELSE wd[i]]
WdObs(S, r) == {<<i, r>> : i \in {j \in DOMAIN wd : wd[j].t \in S /\ wd[j].fired = 0}}

\* task t (in tks) may just have become runnable: it joins the rotation, or, when the
\* cooperator has been stopped, is finished with SchedulerStopped
ArriveSet(tks, t) == IF RunnableIn(tks, t) /\ stopped THEN {t} ELSE {}
Arrive(tks, t) == IF ~RunnableIn(tks, t) THEN tks
                  ELSE IF stopped THEN Fin(tks, {t}, "SchedulerStopped", "SchedulerStopped")
                  ELSE [tks EXCEPT ![t].age = 0, ![t].peak = 0]

(* cooperate(iterator) -> task ; coiterate(iterator) -> Deferred (cw) *)
Create(cw) ==
    /\ ~inTick
    /\ LET t == Len(tk) + 1
           nt == IF stopped THEN [NewTask EXCEPT !.fin = "SchedulerStopped", !.res = "SchedulerStopped"] ELSE NewTask
       IN /\ tk' = Append(tk, nt)
          /\ wd' = IF cw THEN Append(wd, [t |-> t, fired |-> IF stopped THEN 1 ELSE 0]) ELSE wd
          /\ last' = [e |-> IF cw THEN "coiterate" ELSE "cooperate", res |-> {"ok"},
                      wdf |-> IF cw /\ stopped THEN {<<Len(wd) + 1, "SchedulerStopped">>} ELSE {},
                      need |-> NeedIn(tk', started, stopped)]
    /\ UNCHANGED <<cfg, dfr, started, stopped, inTick, units, budget>>

WhenDone(t) ==
    /\ ~inTick /\ t \in Tasks
    /\ LET done == tk[t].fin # "none" IN
       /\ wd' = Append(wd, [t |-> t, fired |-> IF done THEN 1 ELSE 0])
       /\ last' = [e |-> "whenDone", t |-> t, res |-> {"ok"},
                   wdf |-> IF done THEN {<<Len(wd) + 1, tk[t].res>>} ELSE {}, need |-> NeedTick]
    /\ UNCHANGED <<cfg, tk, dfr, started, stopped, inTick, units, budget>>

PauseOk(t) ==
    /\ ~inTick /\ t \in Tasks /\ tk[t].fin = "none"
    /\ tk' = [tk EXCEPT ![t].pc = @ + 1]
    /\ last' = [e |-> "pause", t |-> t, res |-> {"ok"}, wdf |-> {}, need |-> NeedIn(tk', started, stopped)]
    /\ UNCHANGED <<cfg, wd, dfr, started, stopped, inTick, units, budget>>

\* operations on finished tasks raise the matching exception
OpFinished(t, op) ==
    /\ ~inTick /\ t \in Tasks /\ tk[t].fin # "none"
    /\ last' = [e |-> op, t |-> t, res |-> {tk[t].fin}, wdf |-> {}, need |-> NeedTick]
    /\ UNCHANGED <<cfg, tk, wd, dfr, started, stopped, inTick, units, budget>>

PauseFinished(t) == OpFinished(t, "pause")
StopFinished(t) == OpFinished(t, "stop")

ResumePaused(t) ==
    /\ ~inTick /\ t \in Tasks /\ tk[t].fin = "none" /\ tk[t].pc > 0
    /\ LET tk1 == [tk EXCEPT ![t].pc = @ - 1]
           S == ArriveSet(tk1, t)
       IN /\ tk' = Arrive(tk1, t)
          /\ wd' = WdFire(S)
          /\ last' = [e |-> "resume", t |-> t, res |-> {"ok"}, wdf |-> WdObs(S, "SchedulerStopped"), need |-> NeedIn(tk', started, stopped)]
    /\ UNCHANGED <<cfg, dfr, started, stopped, inTick, units, budget>>

ResumeNotPaused(t) ==
    /\ ~inTick /\ t \in Tasks /\ tk[t].fin = "none" /\ tk[t].pc = 0 /\ tk[t].wait = 0
    /\ last' = [e |-> "resume", t |-> t, res |-> {"NotPaused"}, wdf |-> {}, need |-> NeedTick]
    /\ UNCHANGED <<cfg, tk, wd, dfr, started, stopped, inTick, units, budget>>

\* not paused by the user, but waiting on the Deferred it yielded: whatever resume() answers,
\* the task keeps waiting
ResumeWaiting(t) ==
    /\ ~inTick /\ t \in Tasks /\ tk[t].fin = "none" /\ tk[t].pc = 0 /\ tk[t].wait # 0
    /\ \/ /\ last' = [e |-> "resume", t |-> t, res |-> {"*"}, wdf |-> {}, need |-> NeedTick]
          /\ UNCHANGED <<tk, wd>>
       \/ /\ stopped         \* the cooperator was stopped: the task may be finished on this occasion (it is not advanced)
          /\ tk' = Fin(tk, {t}, "SchedulerStopped", "SchedulerStopped")
          /\ wd' = WdFire({t})
          /\ last' = [e |-> "resume", t |-> t, res |-> {"*"}, wdf |-> WdObs({t}, "SchedulerStopped"), need |-> FALSE]
    /\ UNCHANGED <<cfg, dfr, started, stopped, inTick, units, budget>>

ResumeFinished(t) ==
    /\ ~inTick /\ t \in Tasks /\ tk[t].fin # "none"
    /\ last' = [e |-> "resume", t |-> t, res |-> {"ok", "NotPaused", tk[t].fin}, wdf |-> {}, need |-> NeedTick]
    /\ UNCHANGED <<cfg, tk, wd, dfr, started, stopped, inTick, units, budget>>

StopOk(t) ==
    /\ ~inTick /\ t \in Tasks /\ tk[t].fin = "none"
    /\ tk' = Fin(tk, {t}, "TaskStopped", "TaskStopped")
    /\ wd' = WdFire({t})
    /\ last' = [e |-> "stop", t |-> t, res |-> {"ok"}, wdf |-> WdObs({t}, "TaskStopped"), need |-> NeedIn(tk', started, stopped)]
    /\ UNCHANGED <<cfg, dfr, started, stopped, inTick, units, budget>>

(* a Deferred yielded by an iterator fires *)
Fire(d, ok) ==
    /\ ~inTick /\ d \in DOMAIN dfr /\ dfr[d].st = "unfired"
    /\ dfr' = [dfr EXCEPT ![d].st = IF ok THEN "ok" ELSE "fail"]
    /\ LET t == dfr[d].t
           tk1 == [tk EXCEPT ![t].wait = 0]
       IN IF tk[t].fin # "none"            \* finished meanwhile (stopped): its completion stands
          THEN /\ tk' = tk1 /\ wd' = wd
               /\ last' = [e |-> "fire", d |-> d, ok |-> ok, res |-> {"ok"}, wdf |-> {}, need |-> NeedIn(tk', started, stopped)]
          ELSE IF ok
          THEN LET S == ArriveSet(tk1, t) IN
               /\ tk' = Arrive(tk1, t) /\ wd' = WdFire(S)
               /\ last' = [e |-> "fire", d |-> d, ok |-> ok, res |-> {"ok"}, wdf |-> WdObs(S, "SchedulerStopped"), need |-> NeedIn(tk', started, stopped)]
          ELSE /\ tk' = Fin(tk1, {t}, "TaskFailed", "InnerFail") /\ wd' = WdFire({t})
               /\ last' = [e |-> "fire", d |-> d, ok |-> ok, res |-> {"ok"}, wdf |-> WdObs({t}, "InnerFail"), need |-> NeedIn(tk', started, stopped)]
    /\ UNCHANGED <<cfg, started, stopped, inTick, units, budget>>

(* the scheduler runs the tick it was asked for; b = work units the termination predicate allows *)
TickBegin(b) ==
    /\ ~inTick /\ inTick' = TRUE /\ units' = 0 /\ budget' = b
    /\ last' = [e |-> "tick", b |-> b, res |-> {"ok"}, wdf |-> {}, need |-> FALSE]
    /\ UNCHANGED <<cfg, tk, wd, dfr, started, stopped>>

Outcomes == {"val", "dfr", "dfrok", "dfrfail", "exh", "raise"}

\* one work unit: next() on the iterator of task t, which must be runnable; no other runnable
\* task may thereby exceed the bounded wait
Step(t, o) ==
    /\ inTick /\ units < budget /\ t \in Tasks /\ Runnable(t)
    /\ LET R == Cardinality(RunSet)
           aged == [u \in DOMAIN tk |-> IF u # t /\ Runnable(u)
                                        THEN [tk[u] EXCEPT !.age = @ + 1, !.peak = Max(@, R)] ELSE tk[u]]
           tk1 == [aged EXCEPT ![t].age = 0, ![t].peak = 0]
           S == IF o \in {"exh", "raise", "dfrfail"} THEN {t} ELSE {}
           r == CASE o = "exh" -> "iter" [] o = "raise" -> "Boom" [] OTHER -> "InnerFail"
       IN /\ \A u \in RunSet \ {t} : aged[u].age <= StarveK * aged[u].peak
          /\ dfr' = IF o = "dfr" THEN Append(dfr, [t |-> t, st |-> "unfired"]) ELSE dfr
          /\ tk' = CASE o = "dfr" -> [tk1 EXCEPT ![t].wait = Len(dfr) + 1]
                     [] o = "exh" -> Fin(tk1, {t}, "TaskDone", "iter")
                     [] o \in {"raise", "dfrfail"} -> Fin(tk1, {t}, "TaskFailed", r)
                     [] OTHER -> tk1
          /\ wd' = WdFire(S)
          /\ last' = [e |-> "next", t |-> t, o |-> o, res |-> {"ok"}, wdf |-> WdObs(S, r), need |-> FALSE]
    /\ units' = units + 1
    /\ UNCHANGED <<cfg, started, stopped, inTick, budget>>

TickEnd ==
    /\ inTick /\ (units = budget \/ RunSet = {})
    /\ inTick' = FALSE
    /\ last' = [e |-> "tickend", res |-> {"ok"}, wdf |-> {}, need |-> NeedTick]
    /\ UNCHANGED <<cfg, tk, wd, dfr, started, stopped, units, budget>>

(* Cooperator.stop(): every unfinished task is finished with SchedulerStopped -- the runnable ones now *)
CoopStop(S) ==
    /\ ~inTick /\ S \subseteq {t \in Tasks : tk[t].fin = "none" /\ ~Runnable(t)}
    /\ LET C == RunSet \cup S IN
       /\ tk' = Fin(tk, C, "SchedulerStopped", "SchedulerStopped")
       /\ wd' = WdFire(C)
       /\ last' = [e |-> "coopstop", res |-> {"ok"}, wdf |-> WdObs(C, "SchedulerStopped"), need |-> FALSE]
    /\ stopped' = TRUE
    /\ UNCHANGED <<cfg, dfr, started, inTick, units, budget>>

CoopStart ==
    /\ ~inTick /\ started' = TRUE /\ stopped' = FALSE
    /\ last' = [e |-> "coopstart", res |-> {"ok"}, wdf |-> {}, need |-> NeedIn(tk, TRUE, FALSE)]
    /\ UNCHANGED <<cfg, tk, wd, dfr, inTick, units, budget>>

-----------------------------------------------------------------------------
(* The property as invariants. *)
Finished(t) == tk[t].fin # "none"

NoStarvation == \A t \in RunSet : tk[t].age <= StarveK * tk[t].peak

WhenDoneOnce ==     \* fired at most once; fired iff its task is finished
    \A i \in DOMAIN wd : /\ wd[i].fired \in {0, 1}
                         /\ (wd[i].fired = 1) <=> Finished(wd[i].t)

ResultMatches ==    \* the iterator on exhaustion, the failure or the stop reason otherwise
    \A t \in Tasks :
        CASE tk[t].fin = "none"             -> tk[t].res = "none"
          [] tk[t].fin = "TaskDone"         -> tk[t].res = "iter"
          [] tk[t].fin = "TaskStopped"      -> tk[t].res = "TaskStopped"
          [] tk[t].fin = "TaskFailed"       -> tk[t].res \in {"Boom", "InnerFail"}
          [] tk[t].fin = "SchedulerStopped" -> tk[t].res = "SchedulerStopped"
          [] OTHER -> FALSE

StoppedMeansIdle == stopped => RunSet = {}

WaitsOnOwn == \A t \in Tasks : tk[t].wait # 0 => (tk[t].wait \in DOMAIN dfr /\ dfr[tk[t].wait].t = t /\ dfr[tk[t].wait].st = "unfired")

Inv == NoStarvation /\ WhenDoneOnce /\ ResultMatches /\ StoppedMeansIdle /\ WaitsOnOwn
=============================================================================
