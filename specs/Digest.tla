------------------------------- MODULE Digest -------------------------------
(* C48 -- HTTP Digest credentials (twisted.cred.credentials.DigestCredentialFactory /
   DigestedCredentials), symbolic model.

   Hash and Mac are uninterpreted injective constructors: a hash value *is* the tuple of
   its inputs, a MAC is <<key, nonce, address, time>>; the factory key is "K", anything a
   client can compute by itself carries the key "E".  A challenge is identified by its index
   in `issued` (its nonce); its opaque is the term  Gen(c).

   A client response is described field by field with a *class*; TermOf-style operators below
   give each class its meaning as terms (what is sent, what went into the response hash).  Two
   formulations are then compared by TLC on every state and response:
      Decl(r, p)  the property: the response was computed with password p over an unaltered
                  challenge issued to the requesting address, within its lifetime;
      Alg(r, p)   the verification as a server without memory of issued challenges can do it:
                  recompute the MAC over the key part of the opaque, compare key part with the
                  sent nonce / the peer address / the clock, recompute the response hash.
   The trace spec accepts a real run iff decode / checkPassword agree with Decl.            *)
EXTENDS Naturals, Integers, Sequences, FiniteSets

VARIABLES cfg,      \* [L |-> challenge lifetime, algo |-> "md5" | "sha"]
          now,      \* clock (seconds, relative)
          issued,   \* sequence of [a |-> address index, t |-> issue time]; index = nonce
          last      \* observable of the last step
vars == <<cfg, now, issued, last>>

Passwords == {"p1", "p2"}
RestFields == {"username", "realm", "uri", "response", "nc", "cnonce", "qop", "algorithm", "extra"}

InitWith(c) == cfg = c /\ now = 0 /\ issued = <<>> /\ last = [e |-> "init"]

-----------------------------------------------------------------------------
(* classes -> terms *)
Gen(c) == [shape |-> "ok", canon |-> TRUE, mac |-> <<"K", c, issued[c].a, issued[c].t>>,
           n |-> c, a |-> issued[c].a, t |-> issued[c].t]

NonceS(r) == CASE r.nonce = "G" -> r.ch          \* the nonce as sent (0: a value never issued, -1: absent)
               [] r.nonce = "Tsent" -> 0
               [] r.nonce = "Tboth" -> 0
               [] r.nonce = "other" -> r.o
               [] r.nonce = "missing" -> -1
NonceH(r) == CASE r.nonce = "G" -> r.ch          \* the nonce that went into the response hash
               [] r.nonce = "Tsent" -> r.ch
               [] r.nonce = "Tboth" -> 0
               [] r.nonce = "other" -> r.o
               [] r.nonce = "missing" -> r.ch

OpShapes == {"Mnodash", "Mmanydash", "Mbadpad", "Mfewparts", "Mbadtime", "missing", "empty"}
OpS(r) == LET g == Gen(r.ch) IN
          CASE r.opaque = "G" -> g
            [] r.opaque = "other" -> Gen(r.o)
            [] r.opaque = "Tmac" -> [g EXCEPT !.mac = <<"junk", 0, 0, 0>>]        \* digest part altered
            [] r.opaque = "TkeyN" -> [g EXCEPT !.n = 0]                            \* key part re-encoded with another nonce, MAC kept
            [] r.opaque = "TkeyA" -> [g EXCEPT !.a = r.from]                       \* ... with the requester's own address
            [] r.opaque = "TkeyT" -> [g EXCEPT !.t = now]                          \* ... with a fresh time stamp
            [] r.opaque = "forged" -> [shape |-> "ok", canon |-> TRUE, mac |-> <<"E", NonceS(r), r.from, now>>,
                                       n |-> NonceS(r), a |-> r.from, t |-> now]   \* built by the client with its own key
            [] r.opaque = "Mjunk" -> [g EXCEPT !.canon = FALSE]                    \* bytes outside the base64 alphabet inserted
            [] OTHER -> [g EXCEPT !.shape = r.opaque]                              \* syntactically broken (OpShapes)

(* the remaining fields: is what was sent what was hashed, and is it the true value? *)
GenuineRest(r, f) ==
    \/ r.rest[f] = "G"
    \/ (f = "algorithm" /\ r.rest[f] = "absent" /\ cfg.algo = "md5")     \* RFC 2617: algorithm defaults to MD5
FreeRest(r, f) ==        \* the sent value is not covered by the hash / the server documents a default: either verdict
    \/ (f = "realm" /\ r.rest[f] = "Tsent")
    \/ (f = "qop" /\ r.rest[f] = "missing")
    \/ (f = "extra" /\ r.rest[f] # "G")
HasFree(r) == \E f \in RestFields : FreeRest(r, f)
RestOK(r) == \A f \in RestFields : GenuineRest(r, f) \/ FreeRest(r, f)

-----------------------------------------------------------------------------
Fresh(t) == now - t <= cfg.L

(* the property *)
Decl(r, p) ==
    \E c \in 1..Len(issued) :
        /\ r.from = issued[c].a /\ Fresh(issued[c].t)
        /\ OpS(r) = Gen(c) /\ NonceS(r) = c /\ NonceH(r) = c
        /\ p = r.pw /\ RestOK(r)

(* verification without a table of issued challenges *)
DecodeOK(r) ==
    LET op == OpS(r) IN
    /\ r.rest["username"] \notin {"missing", "empty"}
    /\ NonceS(r) # -1
    /\ op.shape = "ok" /\ op.canon
    /\ op.n = NonceS(r) /\ op.a = r.from /\ Fresh(op.t)
    /\ op.mac = <<"K", op.n, op.a, op.t>>
Alg(r, p) == DecodeOK(r) /\ NonceS(r) = NonceH(r) /\ p = r.pw /\ RestOK(r)

-----------------------------------------------------------------------------
Issue(a) ==
    /\ issued' = Append(issued, [a |-> a, t |-> now])
    /\ last' = [e |-> "issue", a |-> a, n |-> Len(issued) + 1]
    /\ UNCHANGED <<cfg, now>>

Tick(d) ==
    /\ now' = now + d
    /\ last' = [e |-> "tick", d |-> d]
    /\ UNCHANGED <<cfg, issued>>

(* decode() then checkPassword("p1"), checkPassword("p2") on the result *)
Outcomes(r) ==
    LET acc == [dec |-> "creds", chk |-> <<IF r.pw = "p1" THEN "T" ELSE "F", IF r.pw = "p2" THEN "T" ELSE "F">>]
        rej == {[dec |-> "LoginFailed", chk |-> <<"-", "-">>], [dec |-> "creds", chk |-> <<"F", "F">>]}
    IN IF Decl(r, r.pw) THEN (IF HasFree(r) THEN {acc} \cup rej ELSE {acc}) ELSE rej

Respond(r) ==
    /\ r.ch \in 1..Len(issued) /\ (r.o = 0 \/ r.o \in 1..Len(issued))
    /\ \E out \in Outcomes(r) : last' = [e |-> "respond", dec |-> out.dec, chk |-> out.chk]
    /\ UNCHANGED <<cfg, now, issued>>

-----------------------------------------------------------------------------
(* state invariants *)
NoncesUnique == \A i, j \in 1..Len(issued) : i # j => Gen(i) # Gen(j)
Inv == NoncesUnique
=============================================================================
