SPECIFICATION Spec
CONSTANT MaxApp = 5
CONSTANT MaxWire = 4
VIEW View
INVARIANT RefInv
INVARIANT SenderInv
INVARIANT ValidWire
INVARIANT NoCommands
INVARIANT NoLoss
INVARIANT EndToEnd
INVARIANT RoundTrip
INVARIANT CallInv
INVARIANT RefInvSync
CHECK_DEADLOCK FALSE
