----------------------------- MODULE WriteBufImpl -----------------------------
(* C14, Impl layer -- the write path of twisted.internet.abstract.FileDescriptor AS CODED:
   dataBuffer / offset / _tempDataBuffer / _tempDataLen, SEND_LIMIT, _maybePauseProducer with
   _isSendBufferFull (len(dataBuffer) + _tempDataLen > bufferSize, consumed prefix included),
   producer / streamingProducer / producerPaused (never reset by un/registerProducer),
   disconnecting, _writeDisconnecting, _writeDisconnected, connected / disconnected.

   Buffer contents are sequences of stream positions, so order, duplication and loss of bytes
   are visible.  One public call (with everything it triggers synchronously: producer
   callbacks, their nested write/unregister/loseConnection calls, the reactor's reaction to a
   doWrite result) is executed functionally by Exec, yielding the new state and the sequence
   of observable micro-events in program order -- the same vocabulary the adapter logs.
   The OS's answer to writeSomeData is chosen by the environment (acc in -1..len).

   WriteBufImplMC emits these micro-events one per step into the WriteBufAbs acceptor and TLC
   checks that every one is accepted (variable ok) plus the acceptor's invariants.            *)
EXTENDS Naturals, Integers, Sequences, FiniteSets, TLC

\* ---- sequence helpers
Range(a, n) == [i \in 1..n |-> a + i - 1]                    \* positions a .. a+n-1
RECURSIVE Flat(_)
Flat(ss) == IF ss = <<>> THEN <<>> ELSE Head(ss) \o Flat(Tail(ss))
RECURSIVE SumSeq(_)
SumSeq(s) == IF s = <<>> THEN 0 ELSE Head(s) + SumSeq(Tail(s))
Consecutive(s) == \A i \in 1..(Len(s) - 1) : s[i + 1] = s[i] + 1

NoScript == <<>>
IInit(c) ==
    [ bufferSize |-> c.bufferSize, sendLimit |-> c.sendLimit,
      buf |-> <<>>, off |-> 0, tmp |-> <<>>, tlen |-> 0,
      conn |-> TRUE, dconn |-> FALSE, disc |-> FALSE, wding |-> FALSE, wded |-> FALSE,
      prod |-> "none", ppaused |-> FALSE, script |-> NoScript,
      inW |-> FALSE, next |-> 0, d |-> 0, evs |-> <<>> ]

Emit(I, e) == [I EXCEPT !.evs = Append(@, e)]
Begin(I, e) == [Emit(I, e @@ [d |-> I.d]) EXCEPT !.d = @ + 1]
EndCall(I, of, r) == Emit([I EXCEPT !.d = @ - 1], [e |-> "end", of |-> of, r |-> r, d |-> I.d - 1])

StartWriting(I) == IF I.inW THEN I ELSE Emit([I EXCEPT !.inW = TRUE], [e |-> "addw"])
StopWriting(I)  == IF I.inW THEN Emit([I EXCEPT !.inW = FALSE], [e |-> "rmw"]) ELSE I

MaybePause(I) ==
    IF I.prod = "push" /\ Len(I.buf) + I.tlen > I.bufferSize
    THEN Emit([I EXCEPT !.ppaused = TRUE], [e |-> "pause"]) ELSE I

ConnectionLost(I) ==
    LET I1 == [I EXCEPT !.dconn = TRUE, !.conn = FALSE]
        I2 == IF I1.prod # "none" THEN Emit([I1 EXCEPT !.prod = "none", !.script = NoScript], [e |-> "pstop"]) ELSE I1
    IN Emit(StopWriting(I2), [e |-> "closed"])

WriteBody(I, n) ==          \* FileDescriptor.write
    LET I1 == [I EXCEPT !.next = @ + n]
    IN IF ~I.conn \/ I.wded \/ n = 0 THEN I1
       ELSE StartWriting(MaybePause([I1 EXCEPT !.tmp = Append(@, Range(I.next, n)), !.tlen = @ + n]))
CallWrite(I, n) == EndCall(WriteBody(Begin(I, [e |-> "write", n |-> n]), n), "write", "ok")

RECURSIVE Chunks(_, _)
Chunks(a, ns) == IF ns = <<>> THEN <<>> ELSE <<Range(a, Head(ns))>> \o Chunks(a + Head(ns), Tail(ns))
WriteSeqBody(I, ns) ==      \* FileDescriptor.writeSequence
    LET tot == SumSeq(ns)
        I1  == [I EXCEPT !.next = @ + tot]
    IN IF ~I.conn \/ ns = <<>> \/ I.wded THEN I1
       ELSE StartWriting(MaybePause([I1 EXCEPT !.tmp = @ \o Chunks(I.next, ns), !.tlen = @ + tot]))
CallWriteSeq(I, ns) == EndCall(WriteSeqBody(Begin(I, [e |-> "writeseq", ns |-> ns]), ns), "writeseq", "ok")

CallUnreg(I) ==             \* _ConsumerMixin.unregisterProducer
    LET I1 == [Begin(I, [e |-> "unreg"]) EXCEPT !.prod = "none", !.script = NoScript]
        I2 == IF I1.conn /\ I1.disc THEN StartWriting(I1) ELSE I1
    IN EndCall(I2, "unreg", "ok")

CallLose(I) ==              \* FileDescriptor.loseConnection
    LET I1 == Begin(I, [e |-> "lose"])
        I2 == IF I1.conn /\ ~I1.disc
              THEN IF I1.wded THEN ConnectionLost(StopWriting(I1))
                   ELSE [StartWriting(I1) EXCEPT !.disc = TRUE]
              ELSE I1
    IN EndCall(I2, "lose", "ok")

\* the recording producer's resumeProducing: logs, then performs the next action of its script
ResumeProducer(I) ==
    LET I1 == Emit(I, [e |-> "resume"])
    IN IF I1.script = NoScript THEN I1
       ELSE LET a  == Head(I1.script)
                I2 == [I1 EXCEPT !.script = Tail(@)]
            IN CASE a.a = "w"   -> CallWrite(I2, a.n)
                 [] a.a = "ws"  -> CallWriteSeq(I2, a.ns)
                 [] a.a = "fin" -> CallLose(CallUnreg(I2))
                 [] OTHER       -> I2

CallReg(I, kind, script) == \* _ConsumerMixin.registerProducer
    LET I1 == Begin(I, [e |-> "reg", r |-> kind])
    IN IF I1.prod # "none" THEN EndCall(I1, "reg", "EXC:RuntimeError")
       ELSE IF I1.dconn THEN EndCall(Emit(I1, [e |-> "pstop"]), "reg", "ok")
       ELSE LET I2 == [I1 EXCEPT !.prod = kind, !.script = script]
            IN EndCall(IF kind = "pull" THEN ResumeProducer(I2) ELSE I2, "reg", "ok")

CallLoseW(I) == EndCall(StartWriting([Begin(I, [e |-> "losew"]) EXCEPT !.wding = TRUE]), "losew", "ok")
CallOther(I, nm) == EndCall(Begin(I, [e |-> nm]), nm, "ok")

\* what every reactor does with a non-None doWrite result
ReactorLost(I) == EndCall(ConnectionLost(StopWriting(Begin(I, [e |-> "lost"]))), "lost", "ok")

Offered(I) ==               \* the data doWrite will pass to writeSomeData
    LET merged == Len(I.buf) - I.off < I.sendLimit
        b == IF merged THEN SubSeq(I.buf, I.off + 1, Len(I.buf)) \o Flat(I.tmp) ELSE I.buf
        o == IF merged THEN 0 ELSE I.off
    IN SubSeq(b, o + 1, Len(b))

CallDoWrite(I, acc) ==      \* FileDescriptor.doWrite; acc = the OS's answer (-1: error)
    LET I0 == Begin(I, [e |-> "dowrite"])
        merged == Len(I0.buf) - I0.off < I0.sendLimit
        I1 == IF merged THEN [I0 EXCEPT !.buf = SubSeq(I0.buf, I0.off + 1, Len(I0.buf)) \o Flat(I0.tmp),
                                        !.off = 0, !.tmp = <<>>, !.tlen = 0]
              ELSE I0
        data == SubSeq(I1.buf, I1.off + 1, Len(I1.buf))
        I2 == Emit(I1, [e |-> "wsd", off |-> IF data = <<>> THEN 0 ELSE data[1], len |-> Len(data), acc |-> acc,
                        contig |-> Consecutive(data)])
    IN IF acc < 0 THEN ReactorLost(EndCall(I2, "dowrite", "lost"))
       ELSE LET I3 == [I2 EXCEPT !.off = @ + acc]
            IN IF I3.off = Len(I3.buf) /\ I3.tlen = 0
               THEN LET I4 == StopWriting([I3 EXCEPT !.buf = <<>>, !.off = 0])
                    IN IF I4.prod # "none" /\ (I4.prod = "pull" \/ I4.ppaused)
                       THEN EndCall(ResumeProducer([I4 EXCEPT !.ppaused = FALSE]), "dowrite", "none")
                       ELSE IF I4.disc THEN ReactorLost(EndCall(I4, "dowrite", "done"))
                       ELSE IF I4.wding THEN EndCall(Emit([I4 EXCEPT !.wded = TRUE], [e |-> "wclose"]), "dowrite", "none")
                       ELSE EndCall(I4, "dowrite", "none")
               ELSE EndCall(I3, "dowrite", "none")

\* ops: records [op, n, ns, kind, script, acc]
Exec(I, o) ==
    LET J == [I EXCEPT !.evs = <<>>]
    IN CASE o.op = "write"    -> CallWrite(J, o.n)
         [] o.op = "writeseq" -> CallWriteSeq(J, o.ns)
         [] o.op = "reg"      -> CallReg(J, o.kind, o.script)
         [] o.op = "unreg"    -> CallUnreg(J)
         [] o.op = "lose"     -> CallLose(J)
         [] o.op = "losew"    -> CallLoseW(J)
         [] o.op = "dowrite"  -> CallDoWrite(J, o.acc)
         [] OTHER             -> CallOther(J, o.op)

CanDoWrite(I) == I.inW /\ I.conn
=============================================================================
