---------------------------- MODULE FsLockTrace ----------------------------
(* Batched trace validation of executions of the real FilesystemLock.lock()/unlock().
   cfg.mode = "abs"  : the verdict layer -- processes are black boxes, the file-system results must be
                       those of the specification's file system, and the property (Inv) must hold after
                       every event.  A trace rejected here is a violation.
   cfg.mode = "impl" : fidelity of the protocol model used for exhaustive model checking -- the real code
                       must issue exactly the calls of the protocol actions.  A trace rejected here is
                       reported as model drift, never as a violation.                                  *)
EXTENDS FsLock, TLC, Json, IOUtils, Sequences

Traces == JsonDeserialize(IOEnv.TRACE_FILE)
VARIABLES tid, l
ASSUME \A t \in 1..Len(Traces) : TLCSet(t, 1)

T == Traces[tid]
E == T.ev[l]

TInit == /\ tid \in 1..Len(Traces) /\ l = 1
         /\ InitWith([n |-> Traces[tid].cfg.n, stale |-> Traces[tid].cfg.stale, mortal |-> Traces[tid].cfg.mortal, parent |-> Traces[tid].cfg.parent])

Matches == last'.e = E.e /\ last'.p = E.p /\ last'.res = E.res /\ last'.v = E.v

Adv == l' = l + 1 /\ UNCHANGED tid

AbsStep  == /\ T.cfg.mode = "abs"
            /\ \/ (E.e # "end" /\ AbsEvent(E.e, E.p, E.res, E.v))
               \/ (E.e = "end" /\ End)
            /\ Matches /\ Inv' /\ Adv

ImplOf(e, p) == \/ (e = "lock_call"   /\ LockCall(p))
                \/ (e = "symlink"     /\ Symlink(p))
                \/ (e = "readlink"    /\ (Readlink(p) \/ URead(p)))
                \/ (e = "kill"        /\ Kill(p))
                \/ (e = "rmlink"      /\ (Rmlink(p) \/ URm(p)))
                \/ (e = "lock_ret"    /\ LockRet(p))
                \/ (e = "unlock_call" /\ UnlockCall(p))
                \/ (e = "unlock_ret"  /\ UnlockRet(p))
                \/ (e = "die"         /\ Die(p))
                \/ (e = "end"         /\ Ev("end", 0, "", 0) /\ UNCHANGED <<cfg, link, alive, pc, rd, tried>>)

ImplStep == /\ T.cfg.mode = "impl"
            /\ (E.e = "end" \/ E.p \in Procs)
            /\ ImplOf(E.e, E.p) /\ Matches /\ Adv

TNext == AbsStep \/ ImplStep
TSpec == TInit /\ [][l <= Len(T.ev) /\ TNext]_<<vars, tid, l>>

Progress == TLCSet(tid, IF TLCGet(tid) > l THEN TLCGet(tid) ELSE l)
Rejected == {<<t, TLCGet(t)>> : t \in {u \in 1..Len(Traces) : TLCGet(u) # Len(Traces[u].ev) + 1}}
Accepted == Rejected = {} \/ (PrintT(<<"REJECTED", Rejected>>) /\ FALSE)
=============================================================================
