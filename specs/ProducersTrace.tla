--------------------------- MODULE ProducersTrace ---------------------------
EXTENDS Producers, TLC, Json, IOUtils
Traces == JsonDeserialize(IOEnv.TRACE_FILE)
VARIABLES tid, l
ASSUME \A t \in 1..Len(Traces) : TLCSet(t, 1)
T == Traces[tid]
E == T.ev[l]
TInit == /\ tid \in 1..Len(Traces) /\ l = 1
         /\ InitWith([kind |-> Traces[tid].cfg.kind, plan |-> Traces[tid].cfg.plan, rs |-> Traces[tid].cfg.rs,
                      unreg |-> Traces[tid].cfg.unreg])
\* every logged field of the event is compared with what the spec's action produces
Matches == /\ last'.e = E.e /\ last'.res = E.res /\ last'.w = E.w /\ last'.reads = E.reads /\ last'.fired = E.fired
           /\ last'.closes = E.closes /\ last'.unreg = E.unreg /\ last'.pstop = E.pstop /\ last'.reg = E.reg
           /\ last'.logged = E.logged /\ last'.p = E.p /\ last'.seq = E.seq
Step(A) == l <= Len(T.ev) /\ A /\ Inv' /\ StepOK /\ Matches /\ l' = l + 1 /\ UNCHANGED tid
TNext == \/ (E.e = "start" /\ Step(Start))
         \/ (E.e = "tick" /\ Step(FbpTick \/ FsTick \/ P2pTick))
         \/ (E.e = "pause" /\ Step(Pause \/ FsdPause))
         \/ (E.e = "resume" /\ Step(Resume))
         \/ (E.e = "stop" /\ Step(FbpStop \/ FsStop \/ P2pStop))
         \/ (E.e = "cancel" /\ Step(FbpCancel))
         \/ (E.e = "pull" /\ Step(FsdPull))
         \/ (E.e = "unreg" /\ Step(Unregister))
TSpec == TInit /\ [][l <= Len(T.ev) /\ TNext]_<<vars, tid, l>>
Progress == TLCSet(tid, IF TLCGet(tid) > l THEN TLCGet(tid) ELSE l)
Rejected == {<<t, TLCGet(t)>> : t \in {u \in 1..Len(Traces) : TLCGet(u) # Len(Traces[u].ev) + 1}}
Accepted == Rejected = {} \/ (PrintT(<<"REJECTED", Rejected>>) /\ FALSE)
=============================================================================
