-------------------------- MODULE DirDbmImplTrace --------------------------
(* C51 Impl binding (drift detector, never a verdict).  The complete recorded event
   sequence -- public calls, every mutating file-system call of the real code, the
   injected crash, the raw directory listing -- must be a behaviour of DirDbmImpl:
   the real code issues exactly the file-system calls of the modelled algorithm, in
   that order, and the FsModel directory equals the real directory at every listing. *)
EXTENDS DirDbmImpl, TLC, Json, IOUtils

Traces == JsonDeserialize(IOEnv.TRACE_FILE)
VARIABLES tid, l
ASSUME \A t \in 1..Len(Traces) : TLCSet(t, 1)

T == Traces[tid]
E == T.ev[l]
Range(s) == {s[i] : i \in 1..Len(s)}

TInit == /\ tid \in 1..Len(Traces) /\ l = 1
         /\ ImplInitWith([ve |-> Traces[tid].cfg.ve])

Step(A) == /\ l <= Len(T.ev) /\ A /\ l' = l + 1 /\ UNCHANGED tid

FsStep == \/ SOpen \/ (E.cls \in {"part", "all"} /\ SWrite(E.cls)) \/ SRemove \/ SRename \/ DRemove \/ DRemoveFail
          \/ (\E n \in todoN : RNew(n)) \/ (\E n \in todoR : RRpl(n))

TNext == \/ (E.e = "set" /\ Step(ISet(E.k, E.v)))
         \/ (E.e = "del" /\ Step(IDel(E.k)))
         \/ (E.e = "ret" /\ Step((SRet \/ DRet \/ DRetErr \/ RRet) /\ last'.res = E.res))
         \/ (E.e = "crash" /\ Step(ICrash))
         \/ (E.e = "reopen" /\ Step(IReopen))
         \/ (E.e = "view" /\ E.res = "ok" /\ Step(pc = "idle" /\ AView(Range(E.kv)) /\ UNCHANGED implvars))
         \/ (E.e = "ls" /\ E.res = "ok" /\ Range(E.files) = DirKv(dir) /\ Step(UNCHANGED vars))
         \/ (E.e = "fs" /\ Step(FsStep /\ last' = [e |-> "fs", op |-> E.op, a |-> E.a, b |-> E.b, v |-> E.v, cls |-> E.cls, ok |-> E.ok]))

TSpec == TInit /\ [][l <= Len(T.ev) /\ TNext]_<<vars, tid, l>>

Progress == TLCSet(tid, IF TLCGet(tid) > l THEN TLCGet(tid) ELSE l)
Rejected == {<<t, TLCGet(t)>> : t \in {u \in 1..Len(Traces) : TLCGet(u) # Len(Traces[u].ev) + 1}}
Accepted == Rejected = {} \/ (PrintT(<<"REJECTED", Rejected>>) /\ FALSE)
=============================================================================
