----------------------------- MODULE WebSessionMC -----------------------------
EXTENDS WebSession, TLC
CONSTANTS MaxS, MaxCb, MaxReq, MaxNow, MaxLevel
Init == \E t \in {1, 2} : InitWith([timeout |-> t])
Spec == Init /\ [][Next]_vars
Bound == ns <= MaxS /\ ncb <= MaxCb /\ nreq <= MaxReq /\ now <= MaxNow /\ TLCGet("level") <= MaxLevel
View == <<cfg, now, ns, st, timer, tmo, cbs, ncb, bad, runs, regDead, nreq, rq, ck, lastMod, due, expAt, aborted, last.e>>
=============================================================================
