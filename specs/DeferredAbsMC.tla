---------------------------- MODULE DeferredAbsMC ----------------------------
(* Exhaustive TLC run of the reference interpreter: every program of at most Depth
   operations over at most MaxD Deferreds with the behaviour alphabet below.  *)
EXTENDS DeferredAbs, TLC
CONSTANTS Depth, MaxD, MaxPause, Plain, CbsOk, CbsErr

PlainFull  == {<<"pass", 0>>, <<"ret", 1>>, <<"raise", 1>>, <<"retfail", 2>>}
PlainSmall == {<<"ret", 1>>, <<"raise", 1>>}
CbsOkQuick == {<<"raise", 1>>, <<"retdef", 1>>, <<"retdef", 2>>, <<"retdef", 3>>}
CbsErrQuick == {<<"ret", 1>>, <<"retdef", 1>>, <<"retdef", 2>>, <<"retdef", 3>>}
CbsErrFull  == PlainFull \cup {<<"retdef", t>> : t \in 1..4}
Behs(d) == Plain \cup {<<"retdef", t>> : t \in D \ {d}}

\* CbsErr: the errback halves tried with addCallbacks (a config-level cut of the alphabet)
AddCb   == \E d \in D : \E b \in Behs(d) : Add(d, "cb", b, Thru)
AddEb   == \E d \in D : \E b \in Behs(d) : Add(d, "eb", Thru, b)
AddBoth == \E d \in D : \E b \in Behs(d) : Add(d, "both", b, b)
AddCbs  == \E d \in D : \E b1 \in Behs(d) \cap CbsOk, b2 \in Behs(d) \cap CbsErr : Add(d, "cbs", b1, b2)
FireOk  == \E d \in D : Fire(d, "ok", 1)
FireErr == \E d \in D : Fire(d, "err", 1)
DoPause == \E d \in D : up[d] < MaxPause /\ Pause(d)
DoUnpause == \E d \in D : Unpause(d)

Init == \E n \in 1..MaxD : InitWith([nd |-> n])
Next == \/ AddCb \/ AddEb \/ AddBoth \/ AddCbs \/ FireOk \/ FireErr \/ DoPause \/ DoUnpause
Spec == Init /\ [][Next]_vars

Bound == TLCGet("level") <= Depth
View == <<cfg, res, up, cbs, nId, ran>>

\* vacuity witness, negated: TLC must VIOLATE it (DeferredAbsMC.witness.cfg) -- a state in which one
\* Deferred waits for another, a callback added later is pending behind the resume entry, and both carry pauses
NoInterestingWait ==
    ~(\E d \in D : /\ res[d][1] = "wait" /\ up[d] > 0
                   /\ \E i \in 1..Len(cbs[res[d][2]]) : cbs[res[d][2]][i].cont = d /\ i < Len(cbs[res[d][2]]))
=============================================================================
