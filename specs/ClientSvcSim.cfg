SPECIFICATION SSpec
CONSTANT Depth = 13
CONSTRAINT Emit
CONSTRAINT Stop1
CHECK_DEADLOCK FALSE
