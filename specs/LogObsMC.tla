------------------------------ MODULE LogObsMC ------------------------------
(* Exhaustive exploration of LogObs, one component per behaviour (part):
   pub : <= MaxO observers of every kind, added / removed / re-added in every order,
         <= MaxE publishes, each delivered as the code's algorithm does (ImplDelivery) whenever
         that meets the property.  ImplRefines (checked by its own configuration) states that
         the algorithm as coded meets the property (ValidDelivery) for every registration;
         a counterexample is replayed on the real LogPublisher by the harness.
   flt : namespaces over segments Segs up to depth NsDepth, <= MaxS set/clear calls with
         levels MCLevels, every event namespace/level after each.
   buf : every size in Sizes, <= MaxB events, replay anywhere.                         *)
EXTENDS LogObs, TLC
CONSTANTS MaxO, MaxE, MaxOps, Segs, NsDepth, MaxS, MCLevels, MaxSize, MaxB
Sizes == {None} \cup 0..MaxSize
VARIABLES part, nOps
mcvars == <<vars, part, nOps>>

RECURSIVE SeqsUpTo(_)
SeqsUpTo(n) == IF n = 0 THEN {<<>>} ELSE SeqsUpTo(n - 1) \cup {Append(s, x) : s \in {t \in SeqsUpTo(n - 1) : Len(t) = n - 1}, x \in Segs}
Namespaces == SeqsUpTo(NsDepth)

Init == /\ part \in {"pub", "flt", "buf"} /\ nOps = 0
        /\ \/ (part = "pub" /\ InitWith([default |-> 2, size |-> None]))
           \/ (part = "flt" /\ \E d \in MCLevels : InitWith([default |-> d, size |-> None]))
           \/ (part = "buf" /\ \E s \in Sizes : InitWith([default |-> 2, size |-> s]))

Tick == nOps' = nOps + 1 /\ UNCHANGED part
Same == UNCHANGED <<part, nOps>>

DoAddNew   == part = "pub" /\ nOps < MaxOps /\ nO < MaxO /\ (\E kd \in OKinds : AddObs(nO + 1, kd)) /\ Tick
DoAddAgain == part = "pub" /\ nOps < MaxOps /\ (\E o \in 1..nO : AddObs(o, okind[o])) /\ Tick
DoRemove   == part = "pub" /\ nOps < MaxOps /\ (\E o \in 1..nO : RemoveObs(o)) /\ Tick
DoPublish  == part = "pub" /\ nEv < MaxE /\ Publish(ImplDelivery(obs, okind, nEv + 1)) /\ Same

DoSetLevel == part = "flt" /\ nOps < MaxS /\ (\E ns \in Namespaces, lv \in MCLevels : SetLevel(ns, lv)) /\ Tick
DoClear    == part = "flt" /\ nOps < MaxS /\ nOps > 0 /\ ClearLevels /\ Tick
DoFilter   == part = "flt" /\ last.e \notin {"filter", "level"} /\ (\E ns \in Namespaces \ {<<>>}, lv \in MCLevels : FilterEvent(ns, lv)) /\ Same
DoQuery    == part = "flt" /\ last.e \notin {"filter", "level"} /\ (\E ns \in Namespaces : QueryLevel(ns)) /\ Same

DoBuf      == part = "buf" /\ nBuf < MaxB /\ BufEvent /\ Same
DoReplay   == part = "buf" /\ last.e # "replay" /\ Replay /\ Same

MCNext == DoAddNew \/ DoAddAgain \/ DoRemove \/ DoPublish \/ DoSetLevel \/ DoClear \/ DoFilter \/ DoQuery \/ DoBuf \/ DoReplay
Spec == Init /\ [][MCNext]_mcvars

\* the algorithm as coded always satisfies the property, for every set of registered observers
ImplRefines == part = "pub" => ValidDelivery(obs, okind, nEv + 1, ImplDelivery(obs, okind, nEv + 1))

\* vacuity: nested failure reports and shadowed namespace levels are reachable
ReachNested == ~(last.e = "publish" /\ \E i \in 1..Len(last.dl) : last.dl[i].k = "rep" /\ last.dl[i].raised)
ReachShadow == ~(last.e = "filter" /\ Cardinality({p \in Prefixes(last.ns) : p \in DOMAIN flt}) >= 3 /\ ~last.pass)
=============================================================================
