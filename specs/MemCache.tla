------------------------------- MODULE MemCache -------------------------------
(* Extension X16 -- twisted.protocols.memcache.MemCacheProtocol: command pipelining.
   A client issues commands; each returns a Deferred.  Accepted commands are written to the
   transport and queued; the server answers them in order; the answer bytes arrive in
   arbitrary fragments.  One timeout guards the whole queue; when it expires every outstanding
   command fails and the transport is asked to close.  Connection loss fails the rest.

   Server answers are sequences of *items* (status line, VALUE line, DATA payload, STAT line,
   END ...); an item is complete when all its bytes including the trailing CRLF have arrived
   (payloads are taken by declared length, never by looking for CRLF inside them).

   Implementation-shaped.  Deliberate deviations from what a reader of the API might expect
   are marked "ODDITY" and described in notes/X16.md.                                         *)
EXTENDS Naturals, Integers, Sequences, FiniteSets, TLC

None == -1
CRLF == "\r\n"

VARIABLES cfg,       \* [P |-> timeout period (>= 1), maxkey |-> MAX_KEY_LENGTH]
          now, deadline,   \* the single TimeoutMixin timer (None = not armed)
          phase,     \* "open" | "closing" (timeout asked the transport to close) | "lost"
          queue,     \* outstanding commands, oldest first: [id, kind, multi, rows, curk]
          srvq,      \* server side: accepted commands not yet answered: [id, kind, keys, rows0]
          stream,    \* server side: answer items sent and not yet completely received
          got,       \* bytes of Head(stream) already received
          nextid,
          \* history (ghost) variables for the invariants
          count,     \* id -> number of times the command's Deferred has fired
          accepted,  \* ids of accepted (written) commands in order
          byresp,    \* ids fired by a completed server answer, in order
          expect,    \* id -> outcome the server's answer stands for (declarative reading)
          bad,       \* ids that fired by answer with an outcome different from expect[id]
          last       \* observation of the last step
vars == <<cfg, now, deadline, phase, queue, srvq, stream, got, nextid, count, accepted, byresp, expect, bad, last>>

SetKinds   == {"set", "add", "replace", "append", "prepend", "cas"}
GetKinds   == {"get", "gets", "getm", "getsm"}
IncKinds   == {"incr", "decr"}
NoKeyKinds == {"stats", "version", "flush_all"}
Kinds      == SetKinds \cup GetKinds \cup IncKinds \cup {"delete"} \cup NoKeyKinds
Multi(kind) == kind \in {"getm", "getsm"}
Arity(kind) == IF kind \in {"gets", "getsm"} THEN 3 ELSE 2

\* ---- outcomes: <<"OK"|"ERR", type-or-class, rows>>, row = <<key, flags/int, cas, value, present, arity>>
Row1(f, v)    == <<<<"", f, "", v, 1, 0>>>>
Bool(b)       == <<"OK", "bool", Row1(IF b THEN 1 ELSE 0, "")>>
Err(cls, txt) == <<"ERR", cls, Row1(0, txt)>>
Unset         == <<"NONE", "", <<>>>>
KeyTypeMsg == "Invalid type for key: <class 'str'>, expecting bytes"
ValTypeMsg == "Invalid type for value: <class 'str'>, expecting bytes"
TimedOut   == Err("TimeoutError", "Connection timeout")

InitWith(c) ==
    /\ cfg = c /\ now = 0 /\ deadline = None /\ phase = "open"
    /\ queue = <<>> /\ srvq = <<>> /\ stream = <<>> /\ got = 0 /\ nextid = 1
    /\ count = <<>> /\ accepted = <<>> /\ byresp = <<>> /\ expect = <<>> /\ bad = {}
    /\ last = [e |-> "init", wrote |-> "", fired |-> <<>>, close |-> 0]

\* ---- issuing a command ------------------------------------------------------------------
\* keys: sequence of [s |-> text, b |-> is a bytes object]; val: [s, b]
RECURSIVE KeysCheck(_, _)
KeysCheck(keys, checklen) ==
    IF keys = <<>> THEN ""
    ELSE IF ~Head(keys).b THEN KeyTypeMsg
    ELSE IF checklen /\ Len(Head(keys).s) > cfg.maxkey THEN "Key too long"
    ELSE KeysCheck(Tail(keys), checklen)

Validate(kind, keys, val) ==
    IF kind \in NoKeyKinds THEN ""
    ELSE \* ODDITY: delete() checks the key's type but not its length
         LET k == KeysCheck(keys, kind # "delete") IN
         IF k # "" THEN k
         ELSE IF kind \in SetKinds /\ ~val.b THEN ValTypeMsg ELSE ""

RECURSIVE JoinKeys(_)
JoinKeys(keys) == IF keys = <<>> THEN "" ELSE " " \o Head(keys).s \o JoinKeys(Tail(keys))
WireName(kind) == IF kind = "getm" THEN "get" ELSE IF kind = "getsm" THEN "gets" ELSE kind
\* the bytes a command puts on the transport
Wire(kind, keys, val, f, x, cas) ==
    CASE kind \in SetKinds -> kind \o JoinKeys(keys) \o " " \o ToString(f) \o " " \o ToString(x) \o " "
                              \o ToString(Len(val.s)) \o (IF cas = "" THEN "" ELSE " " \o cas) \o CRLF \o val.s \o CRLF
      [] kind \in GetKinds -> WireName(kind) \o JoinKeys(keys) \o CRLF
      [] kind \in IncKinds -> kind \o JoinKeys(keys) \o " " \o ToString(f) \o CRLF
      [] kind = "delete"   -> "delete" \o JoinKeys(keys) \o CRLF
      [] kind = "stats"    -> (IF val.s = "" THEN "stats" ELSE "stats " \o val.s) \o CRLF
      [] OTHER             -> kind \o CRLF

RECURSIVE Dedupe(_, _)
Dedupe(keys, seen) ==
    IF keys = <<>> THEN <<>>
    ELSE IF Head(keys).s \in seen THEN Dedupe(Tail(keys), seen)
    ELSE <<Head(keys).s>> \o Dedupe(Tail(keys), seen \cup {Head(keys).s})
\* what a get-family command reports when the server returns nothing for a key: flags 0, no value
InitRows(kind, keys) ==
    IF kind \in {"get", "gets"} THEN <<<<"", 0, "", "", 0, Arity(kind)>>>>
    ELSE IF Multi(kind) THEN LET ks == Dedupe(keys, {}) IN [i \in 1..Len(ks) |-> <<ks[i], 0, "", "", 0, Arity(kind)>>]
    ELSE <<>>

Shape(kind, keys, f, x, cas) ==
    /\ kind \in Kinds
    /\ IF kind \in NoKeyKinds THEN keys = <<>> ELSE IF Multi(kind) THEN Len(keys) >= 1 ELSE Len(keys) = 1
    /\ kind \in {"append", "prepend"} => f = 0 /\ x = 0
    /\ kind # "cas" => cas = ""
    /\ f \in Nat /\ x \in Nat

Bump(cnt, entries) == [i \in 1..Len(cnt) |-> cnt[i] + Cardinality({j \in 1..Len(entries) : entries[j][1] = i})]
FailAll(q, out) == [i \in 1..Len(q) |-> <<q[i].id, out>>]

\* the call fails at once: the Deferred it returns has already failed, nothing is written, nothing is queued
\* (the "not connected" test comes first, then validation)
IssueRejected(kind, keys, val, f, x, cas) ==
    LET msg == Validate(kind, keys, val)
        out == IF phase = "lost" THEN Err("RuntimeError", "not connected") ELSE Err("ClientError", msg)
    IN
    /\ Shape(kind, keys, f, x, cas)
    /\ phase = "lost" \/ msg # ""
    /\ nextid' = nextid + 1
    /\ expect' = Append(expect, Unset)
    /\ count' = Append(count, 1)
    /\ last' = [e |-> "issue", wrote |-> "", fired |-> <<<<nextid, out>>>>, close |-> 0]
    /\ UNCHANGED <<cfg, now, deadline, phase, queue, srvq, stream, got, accepted, byresp, bad>>

\* the command is written and joins the queue
\* ODDITY: phase "closing" (after a timeout, before connectionLost) still accepts, writes and re-arms the timeout
IssueAccepted(kind, keys, val, f, x, cas) ==
    /\ Shape(kind, keys, f, x, cas)
    /\ phase # "lost" /\ Validate(kind, keys, val) = ""
    /\ nextid' = nextid + 1
    /\ expect' = Append(expect, Unset)
    /\ count' = Append(count, 0)
    /\ queue' = Append(queue, [id |-> nextid, kind |-> kind, multi |-> Multi(kind), rows |-> InitRows(kind, keys), curk |-> ""])
    /\ srvq' = Append(srvq, [id |-> nextid, kind |-> kind, keys |-> {keys[i].s : i \in 1..Len(keys)},
                            rows0 |-> InitRows(kind, keys)])
    /\ accepted' = Append(accepted, nextid)
    /\ deadline' = IF queue = <<>> THEN now + cfg.P ELSE deadline    \* armed by the first of a burst only
    /\ last' = [e |-> "issue", wrote |-> Wire(kind, keys, val, f, x, cas), fired |-> <<>>, close |-> 0]
    /\ UNCHANGED <<cfg, now, phase, stream, got, byresp, bad>>

Issue(kind, keys, val, f, x, cas) == IssueRejected(kind, keys, val, f, x, cas) \/ IssueAccepted(kind, keys, val, f, x, cas)

\* ---- the server answers the oldest unanswered command ---------------------------------------
\* item = [k |-> kind, s |-> key / stat name, f |-> flags / number, c |-> cas, v |-> payload / text, m |-> declared length]
ItemText(it) ==
    CASE it.k = "VALUE"   -> "VALUE " \o it.s \o " " \o ToString(it.f) \o " " \o ToString(it.m)
                             \o (IF it.c = "" THEN "" ELSE " " \o it.c) \o CRLF
      [] it.k = "DATA"    -> it.v \o CRLF
      [] it.k = "STAT"    -> "STAT " \o it.s \o " " \o it.v \o CRLF
      [] it.k = "VERSION" -> "VERSION " \o it.v \o CRLF
      [] it.k = "NUM"     -> ToString(it.f) \o CRLF
      [] it.k \in {"CLIENT_ERROR", "SERVER_ERROR"} -> it.k \o " " \o it.v \o CRLF
      [] OTHER            -> it.k \o CRLF
RECURSIVE ItemsText(_)
ItemsText(items) == IF items = <<>> THEN "" ELSE ItemText(Head(items)) \o ItemsText(Tail(items))
\* items in flight carry their byte length n (computed once, when the server sends them)
Sized(it) == [k |-> it.k, s |-> it.s, f |-> it.f, c |-> it.c, v |-> it.v, m |-> it.m, n |-> Len(ItemText(it))]
RECURSIVE SumLen(_)
SumLen(items) == IF items = <<>> THEN 0 ELSE Head(items).n + SumLen(Tail(items))
Remaining == SumLen(stream) - got

ErrKinds == {"ERROR", "CLIENT_ERROR", "SERVER_ERROR"}
One(items, ks) == Len(items) = 1 /\ items[1].k \in ks
NPairs(items) == (Len(items) - 1) \div 2
WellFormed(c, items) ==
    \/ One(items, ErrKinds)
    \/ c.kind \in (SetKinds \ {"cas"}) /\ One(items, {"STORED", "NOT_STORED"})
    \/ c.kind = "cas" /\ One(items, {"STORED", "EXISTS", "NOT_FOUND"})
    \/ c.kind \in IncKinds /\ One(items, {"NUM", "NOT_FOUND"}) /\ items[1].f \in Nat
    \/ c.kind = "delete" /\ One(items, {"DELETED", "NOT_FOUND"})
    \/ c.kind = "version" /\ One(items, {"VERSION"})
    \/ c.kind = "flush_all" /\ One(items, {"OK"})
    \/ c.kind = "stats" /\ Len(items) >= 1 /\ items[Len(items)].k = "END"
          /\ \A i \in 1..(Len(items) - 1) : items[i].k = "STAT"
    \/ c.kind \in GetKinds /\ Len(items) % 2 = 1 /\ items[Len(items)].k = "END"
          /\ \A j \in 1..NPairs(items) :
                LET V == items[2 * j - 1]  D == items[2 * j] IN
                /\ V.k = "VALUE" /\ D.k = "DATA" /\ V.m = Len(D.v) /\ V.s \in c.keys
                /\ (V.c = "") = (Arity(c.kind) = 2)

Max(S) == CHOOSE x \in S : \A y \in S : y <= x
\* declarative reading of an answer: what the command's Deferred must fire with
GetRows(c, items, rows) ==
    [i \in 1..Len(rows) |->
        LET J == {j \in 1..NPairs(items) : ~Multi(c.kind) \/ items[2 * j - 1].s = rows[i][1]} IN
        IF J = {} THEN rows[i]
        ELSE LET V == items[2 * Max(J) - 1]  D == items[2 * Max(J)] IN <<rows[i][1], V.f, V.c, D.v, 1, rows[i][6]>>]
StatRows(items) ==
    LET n == Len(items) - 1
        firsts == SelectSeq([i \in 1..n |-> i], LAMBDA i : \A j \in 1..(i - 1) : items[j].s # items[i].s)
    IN [p \in 1..Len(firsts) |->
          LET nm == items[firsts[p]].s IN <<nm, 0, "", items[Max({j \in 1..n : items[j].s = nm})].v, 1, 1>>]
Expected(c, rows, items) ==
    LET h == items[1] IN
    CASE h.k = "ERROR"        -> Err("NoSuchCommand", "")
      [] h.k = "CLIENT_ERROR" -> Err("ClientError", "b'" \o h.v \o "'")
      [] h.k = "SERVER_ERROR" -> Err("ServerError", "b'" \o h.v \o "'")
      [] h.k \in {"STORED", "DELETED", "OK"}           -> Bool(TRUE)
      [] h.k \in {"NOT_STORED", "EXISTS", "NOT_FOUND"} -> Bool(FALSE)
      [] h.k = "NUM"     -> <<"OK", "int", Row1(h.f, "")>>
      [] h.k = "VERSION" -> <<"OK", "bytes", Row1(0, h.v)>>
      [] OTHER -> IF c.kind = "stats" THEN <<"OK", "dict", StatRows(items)>>
                  ELSE <<"OK", IF Multi(c.kind) THEN "dict" ELSE "tuple", GetRows(c, items, rows)>>

Respond(items) ==
    /\ phase = "open" /\ srvq # <<>>
    /\ WellFormed(Head(srvq), items)
    /\ stream' = stream \o [i \in 1..Len(items) |-> Sized(items[i])]
    /\ srvq' = Tail(srvq)
    /\ expect' = [expect EXCEPT ![Head(srvq).id] = Expected(Head(srvq), Head(srvq).rows0, items)]
    /\ last' = [e |-> "respond", wrote |-> "", fired |-> <<>>, close |-> 0, text |-> ItemsText(items)]
    /\ UNCHANGED <<cfg, now, deadline, phase, queue, got, nextid, count, accepted, byresp, bad>>

\* ---- receiving: the parser, one completed item at a time (as coded) ---------------------------
Pop(q, out)     == [q |-> Tail(q), f |-> <<<<Head(q).id, out>>>>]
Upd(q, rows, k) == [q |-> <<[Head(q) EXCEPT !.rows = rows, !.curk = k]>> \o Tail(q), f |-> <<>>]
Apply(q, it) ==
    LET h == Head(q)  R == h.rows IN
    CASE it.k \in {"STORED", "DELETED", "OK"}           -> Pop(q, Bool(TRUE))
      [] it.k \in {"NOT_STORED", "NOT_FOUND", "EXISTS"} -> Pop(q, Bool(FALSE))
      [] it.k = "NUM"          -> Pop(q, <<"OK", "int", Row1(it.f, "")>>)
      [] it.k = "VERSION"      -> Pop(q, <<"OK", "bytes", Row1(0, it.v)>>)
      [] it.k = "ERROR"        -> Pop(q, Err("NoSuchCommand", ""))
      [] it.k = "CLIENT_ERROR" -> Pop(q, Err("ClientError", "b'" \o it.v \o "'"))
      [] it.k = "SERVER_ERROR" -> Pop(q, Err("ServerError", "b'" \o it.v \o "'"))
      [] it.k = "VALUE" -> Upd(q, [i \in 1..Len(R) |-> IF ~h.multi \/ R[i][1] = it.s
                                       THEN <<R[i][1], it.f, it.c, R[i][4], R[i][5], R[i][6]>> ELSE R[i]], it.s)
      [] it.k = "DATA"  -> Upd(q, [i \in 1..Len(R) |-> IF ~h.multi \/ R[i][1] = h.curk
                                       THEN <<R[i][1], R[i][2], R[i][3], it.v, 1, R[i][6]>> ELSE R[i]], h.curk)
      [] it.k = "STAT"  -> Upd(q, IF \E i \in 1..Len(R) : R[i][1] = it.s
                                    THEN [i \in 1..Len(R) |-> IF R[i][1] = it.s THEN <<it.s, 0, "", it.v, 1, 1>> ELSE R[i]]
                                    ELSE Append(R, <<it.s, 0, "", it.v, 1, 1>>), "")
      [] it.k = "END"   -> Pop(q, <<"OK", IF h.multi \/ h.kind = "stats" THEN "dict" ELSE "tuple",
                                    \* getMultiple without identifiers drops the cas column
                                    IF h.kind = "getm" THEN [i \in 1..Len(R) |-> <<R[i][1], R[i][2], "", R[i][4], R[i][5], R[i][6]>>] ELSE R>>)

(* avail = bytes available for Head(st) onwards; base = bytes of Head(st) that had arrived before this fragment.
   line: some line completed (lineReceived ran);  act: lineReceived or rawDataReceived ran (both call resetTimeout);
   a payload sees rawDataReceived for every fragment that brings at least one of its bytes. *)
RECURSIVE Consume(_, _, _, _, _, _, _)
Consume(st, avail, base, q, fired, line, act) ==
    IF st = <<>> THEN [st |-> st, got |-> 0, q |-> q, fired |-> fired, line |-> line, act |-> act]
    ELSE LET it == Head(st)  n == it.n IN
         IF avail >= n
           THEN LET r == Apply(q, it) IN
                Consume(Tail(st), avail - n, 0, r.q, fired \o r.f, line \/ it.k # "DATA", TRUE)
           ELSE [st |-> st, got |-> avail, q |-> q, fired |-> fired, line |-> line,
                 act |-> act \/ (it.k = "DATA" /\ avail > base)]

Deliver(d) ==
    /\ phase = "open" /\ stream # <<>> /\ d \in 1..Remaining
    /\ \E r \in {Consume(stream, got + d, got, queue, <<>>, FALSE, FALSE)} :
         /\ stream' = r.st /\ got' = r.got /\ queue' = r.q
         /\ deadline' = IF r.line /\ r.q = <<>> THEN None                       \* nothing pending: timeout removed
                        ELSE IF r.act /\ deadline # None THEN now + cfg.P     \* activity pushes the deadline
                        ELSE deadline
         /\ count' = Bump(count, r.fired)
         /\ byresp' = byresp \o [i \in 1..Len(r.fired) |-> r.fired[i][1]]
         /\ bad' = bad \cup {r.fired[i][1] : i \in {j \in 1..Len(r.fired) : r.fired[j][2] # expect[r.fired[j][1]]}}
         /\ last' = [e |-> "deliver", wrote |-> "", fired |-> r.fired, close |-> 0]
    /\ UNCHANGED <<cfg, now, phase, srvq, nextid, accepted, expect>>

\* ---- time ------------------------------------------------------------------------------------
Tick(d) ==
    /\ d \in Nat /\ now' = now + d
    /\ ~(deadline # None /\ deadline <= now + d)
    /\ last' = [e |-> "advance", wrote |-> "", fired |-> <<>>, close |-> 0]
    /\ UNCHANGED <<cfg, deadline, phase, queue, srvq, stream, got, nextid, count, accepted, byresp, expect, bad>>

\* timeoutConnection: every outstanding command fails, the transport is asked to close
Expire(d) ==
    /\ d \in Nat /\ now' = now + d
    /\ deadline # None /\ deadline <= now + d
    /\ deadline' = None /\ queue' = <<>>
    /\ count' = Bump(count, FailAll(queue, TimedOut))
    \* ODDITY: a timer left armed by connectionLost fires here too and calls loseConnection() again
    /\ phase' = IF phase = "lost" THEN "lost" ELSE "closing"
    /\ srvq' = <<>> /\ stream' = <<>> /\ got' = 0      \* a closing transport delivers nothing more
    /\ last' = [e |-> "advance", wrote |-> "", fired |-> FailAll(queue, TimedOut), close |-> 1]
    /\ UNCHANGED <<cfg, nextid, accepted, byresp, expect, bad>>

Advance(d) == Tick(d) \/ Expire(d)

\* ---- connectionLost(reason) -------------------------------------------------------------------
Lose(cls, txt) ==
    /\ phase # "lost" /\ phase' = "lost"
    /\ queue' = <<>> /\ srvq' = <<>> /\ stream' = <<>> /\ got' = 0
    /\ count' = Bump(count, FailAll(queue, Err(cls, txt)))
    /\ last' = [e |-> "lose", wrote |-> "", fired |-> FailAll(queue, Err(cls, txt)), close |-> 0]
    \* ODDITY: the pending timeout is not cancelled
    /\ UNCHANGED <<cfg, now, deadline, nextid, accepted, byresp, expect, bad>>

-----------------------------------------------------------------------------
Ids  == 1..(nextid - 1)
QIds == {queue[i].id : i \in 1..Len(queue)}
\* every command's Deferred fires exactly once: never twice, and a command that is no longer outstanding has fired
ExactlyOnce == \A i \in Ids : count[i] = IF i \in QIds THEN 0 ELSE 1
QueueOrder  == \A i \in 1..(Len(queue) - 1) : queue[i].id < queue[i + 1].id
\* the k-th completed answer fires the k-th accepted command ...
Fifo        == Len(byresp) <= Len(accepted) /\ \A j \in 1..Len(byresp) : byresp[j] = accepted[j]
\* ... with the outcome that answer stands for, whatever the fragmentation
Matched     == bad = {}
\* an outstanding command is always guarded by a timeout no further than P away
Guarded     == queue # <<>> => deadline # None /\ deadline > now /\ deadline <= now + cfg.P
\* no timeout is left around when nothing is outstanding (weakened by the ODDITY: only while not lost)
NoIdleTimer == (phase # "lost" /\ queue = <<>>) => deadline = None
Dead        == phase = "lost" => queue = <<>>
ServerSync  == phase = "open" => Len(queue) >= Len(srvq)
Inv == ExactlyOnce /\ QueueOrder /\ Fifo /\ Matched /\ Guarded /\ NoIdleTimer /\ Dead /\ ServerSync

\* action properties
TimeoutFailsAll == [][(last'.e = "advance" /\ last'.close = 1) =>
                        (queue' = <<>> /\ phase' # "open" /\ Len(last'.fired) = Len(queue)
                         /\ \A i \in 1..Len(queue) : last'.fired[i] = <<queue[i].id, TimedOut>>)]_vars
LossFailsAll    == [][last'.e = "lose" => (queue' = <<>> /\ Len(last'.fired) = Len(queue))]_vars
RejectsUnwritten == [][last'.e = "issue" => ((last'.wrote = "") = (Len(last'.fired) = 1))
                        /\ (phase = "lost" => last'.wrote = "")]_vars
=============================================================================
