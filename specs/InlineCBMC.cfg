SPECIFICATION Spec
CONSTANT ND = 2
CONSTANT FireOuts = {"ok", "berr"}
CONSTANT RaiseKinds = {"berr", "cancelled"}
CONSTANT NG = 2
CONSTANT MaxLevel = 26
CONSTRAINT Bound
VIEW View
INVARIANT TypeOK
INVARIANT ResultOnce
INVARIANT NothingOwed
INVARIANT CancelExact
INVARIANT NoStuck
PROPERTY Stable
PROPERTY ResumeExact
CHECK_DEADLOCK FALSE
