SPECIFICATION Spec
CONSTANT NS = 2
CONSTANT MaxWrite = 2
CONSTANT MaxWU = 2
CONSTANT MaxSet = 1
CONSTANT CW = {1, 3}
CONSTANT IW = {0, 2}
CONSTANT MF = {1, 2}
VIEW View
INVARIANT NoOvershoot
INVARIANT InOrderComplete
PROPERTY Resume
CHECK_DEADLOCK FALSE
