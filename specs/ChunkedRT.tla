------------------------------ MODULE ChunkedRT ------------------------------
(* C22 round trip on the specification: for generated chunk lists, extensions (token, quoted-string
   with quoted-pair, several per line), trailer fields and extra bytes,
   Fold(S0, Enc(x) \o extra) finishes with body = x and extra = extra.                          *)
EXTENDS Chunked, TLC
VARIABLE rt
\* ---- (2) round trip over generated chunk lists, extensions, trailers, extra bytes
Datas == {<<97>>, <<CR, LF>>, <<48, CR>>, <<59, 49, 10>>}
Exts == {<<>>, <<59, 97>>, <<59, 97, 61, 98>>, <<59, 97, 61, 34, 32, 92, 34, 59, 34>>, <<59, 33, 59, 98, 61, 34, 34>>}
Trs == {<<>>, << <<97, 58, 98>> >>, << <<97, 58>>, <<88, 45, 49, 58, 32, 34, 255>> >>}
Extras == {<<>>, <<CR>>, <<48, CR, LF, CR, LF>>}
RTInit == rt \in [ch : {<<>>} \cup {<<d>> : d \in Datas} \cup {<<d1, d2>> : d1 \in Datas, d2 \in Datas},
                  e1 : Exts, e2 : {<<>>, <<59, 97, 61, 34, 32, 92, 34, 59, 34>>}, e3 : Exts, tr : Trs, extra : Extras]
          /\ InitWith([lmax |-> 1024, tmax |-> 65536], <<>>)
RTSpec == RTInit /\ [][UNCHANGED <<rt, vars>>]_<<rt, vars>>
RTExts == IF Len(rt.ch) = 0 THEN <<rt.e3>> ELSE IF Len(rt.ch) = 1 THEN <<rt.e1, rt.e3>> ELSE <<rt.e1, rt.e2, rt.e3>>
RTWire == Enc(rt.ch, RTExts, rt.tr) \o rt.extra
RoundTrip == LET r == Fold(S0, RTWire, 1, Len(RTWire), 1024, 65536) IN
             r.ph = "FIN" /\ r.body = Flatten(rt.ch, 1) /\ r.extra = rt.extra
=============================================================================
