SPECIFICATION Spec
CONSTANTS
  MaxN = 1
  MaxQ = 2
  MaxSess = 2
  MaxLater = 1
  Depth = 5
CONSTRAINT Bound
VIEW View
INVARIANT ReplyConservation
INVARIANT NoStuckQueue
INVARIANT MarksSane
INVARIANT ExpungeOnlyAfterQuit
INVARIANT PendingMsgLive
INVARIANT LogoutDiscipline
CHECK_DEADLOCK FALSE
