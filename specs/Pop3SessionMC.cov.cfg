SPECIFICATION Spec
CONSTANTS
  MaxN = 0
  MaxQ = 1
  MaxSess = 2
  MaxLater = 1
  Depth = 4
  Full = FALSE
CONSTRAINT Bound
VIEW View
INVARIANT ReplyConservation
INVARIANT NoStuckQueue
INVARIANT MarksSane
INVARIANT ExpungeOnlyAfterQuit
INVARIANT PendingMsgLive
INVARIANT LogoutDiscipline
CHECK_DEADLOCK FALSE
