SPECIFICATION Spec
CONSTANT MaxOctets = 2
CONSTANT MaxItems = 2
CONSTANT MaxDepth = 2
CONSTANT MaxLists = 2
CONSTANT Stepwise = TRUE
INVARIANT RoundTrip
INVARIANT StepwiseIsRefParse
CHECK_DEADLOCK FALSE
