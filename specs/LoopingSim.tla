------------------------------ MODULE LoopingSim ------------------------------
(* Behaviour generator (spec -> code): Looping plus a history variable recording the
   predicted observable of every step, printed as JSON once a behaviour reaches Depth. *)
EXTENDS Looping, TLC, Json
CONSTANTS Depth, MaxD
VARIABLE hist
SInit == /\ \E iv \in 1..4, nf \in BOOLEAN, w \in BOOLEAN, s \in {0, 1, 3} :
              InitWith([iv |-> iv, nowFlag |-> nf, wc |-> w, t0 |-> s, strict |-> TRUE])
         /\ hist = <<>>
Next == \/ \E bh \in Behs : StartNow(bh)
        \/ StartLater
        \/ \E d \in 1..MaxD, bh \in Behs : AdvanceCall(d, bh, 0)
        \/ \E d \in 1..MaxD : AdvanceQuiet(d)
        \/ FireOk \/ FireFail
        \/ StopScheduled \/ StopInCall
        \/ ResetScheduled \/ ResetInCall
SNext == Next /\ hist' = Append(hist, last')
SSpec == SInit /\ [][SNext]_<<vars, hist>>
Emit == TLCGet("level") < Depth \/ PrintT(<<"BEH", ToJson([cfg |-> cfg, hist |-> hist])>>)
Stop == TLCGet("level") <= Depth
=============================================================================
