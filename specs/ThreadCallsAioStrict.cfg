SPECIFICATION Spec
CONSTANT Clock = "strict"
CONSTANT MaxN = 3
INVARIANT AExactlyOnce
INVARIANT APerProducerOrder
INVARIANT HeapOK
CHECK_DEADLOCK FALSE
