SPECIFICATION Spec
CONSTANT MaxApp = 6
CONSTANT MaxWire = 6
VIEW View
INVARIANT RefInv
INVARIANT SenderInv
INVARIANT ValidWire
INVARIANT NoCommands
INVARIANT NoLoss
INVARIANT EndToEnd
INVARIANT RoundTrip
INVARIANT CallInv
INVARIANT RefInvSync
CHECK_DEADLOCK FALSE
