-------------------------- MODULE DeferredFsLockTrace --------------------------
EXTENDS DeferredFsLock, TLC, Json, IOUtils
Traces == JsonDeserialize(IOEnv.TRACE_FILE)
VARIABLES tid, l
ASSUME \A t \in 1..Len(Traces) : TLCSet(t, 1)
T == Traces[tid]
E == T.ev[l]
TInit == tid \in 1..Len(Traces) /\ l = 1 /\ InitWith([iv |-> Traces[tid].cfg.iv])
\* every logged field is compared
Matches == /\ last'.ret = E.ret /\ last'.exc = E.exc /\ last'.logged = E.logged
           /\ last'.res = E.res /\ last'.nf = E.nf /\ last'.calls = E.calls
           /\ last'.locked = E.locked /\ last'.exists = E.exists
Step(A) == l <= Len(T.ev) /\ A /\ Inv' /\ StepOK /\ Matches /\ l' = l + 1 /\ UNCHANGED tid
TNext == \/ (E.e = "call" /\ Step(Call(E.tmo)))
         \/ (E.e = "adv" /\ Step(Advance(E.d)))
         \/ (E.e = "cancel" /\ Step(Cancel))
         \/ (E.e = "oacq" /\ Step(OtherAcq))
         \/ (E.e = "orel" /\ Step(OtherRel))
         \/ (E.e = "unlock" /\ Step(Unlock))
TSpec == TInit /\ [][l <= Len(T.ev) /\ TNext]_<<vars, tid, l>>
Progress == TLCSet(tid, IF TLCGet(tid) > l THEN TLCGet(tid) ELSE l)
Rejected == {<<t, TLCGet(t)>> : t \in {u \in 1..Len(Traces) : TLCGet(u) # Len(Traces[u].ev) + 1}}
Accepted == Rejected = {} \/ (PrintT(<<"REJECTED", Rejected>>) /\ FALSE)
=============================================================================
