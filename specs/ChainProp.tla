------------------------------ MODULE ChainProp ------------------------------
(* C02 -- chaining depth never exhausts the stack.

   The property, stated on observables.  One trace = one chain shape run at several
   lengths n.  A run produces a fixed sequence of observations (link callbacks, probe
   callbacks, generator/coroutine resumptions), each carrying
       who   which kind of observation point ("link", "own", "res", "gen")
       i     which link of the chain
       in    the argument the callback / resumption received
       f     the number of Python frames between the driver and the observation point.
   The property: every run completes (no RecursionError -- an exception is not an action
   of this spec), every observation arrives exactly once, in order, with the predicted
   argument, and f is the same for every observation of one kind: within a run (does not
   grow along the chain) and across runs of different lengths (does not grow with n).
   No absolute frame count is fixed: the first observation of each kind sets the base.

   Shapes (d_1 .. d_n; link_i is d_i's first callback, probe_i its second, pass-through):
     S1  link_i returns d_(i+1); fired outermost first: d_1 .. d_n; link_n ends the chain;
         the result travels back through probe_n .. probe_1 in one cascade.
     S2  same chain fired innermost first: d_n .. d_1; each link finds the next Deferred fired.
     S3  as S1 but every d_i is fired while paused and the chain is driven by unpause().
     S4  as S2, driven by unpause().
     S1E as S1 with failures throughout: fired by errback, links are errbacks, link_n raises.
     S6  one Deferred with n callbacks, callback i returns an already-fired Deferred.
     G1/G2  inlineCallbacks generator / coroutine awaiting n already-fired Deferreds.
     G3/G4  the same awaiting n already-failed Deferreds (caught each time).
     G5/G6  generator / coroutine awaiting n already-fired Deferreds of rotating kinds: Deferred,
            DeferredList([..]), gatherResults([..]), a trivial user subclass of Deferred.
   cfg.kind: how the chain ends ("ok": link_n returns n+1; "err": link_n raises E1).
   cfg.extra (S1..S4, S1E): links that carry more callbacks than link + probe --
     "pre"   a pass-through callback pre_i added to d_i BEFORE its link;
     "post"  a pass-through callback late_(i+1) added to d_(i+1) AFTER link_i has returned it,
             i.e. after d_i was chained to it (cascade shapes: it sits behind the resume entry
             and runs, with None, once the waiter has been resumed) or took its result
             (stepwise shapes: it runs at once, with None);
     "both"  both;   "none"  neither.                                                  *)
EXTENDS Naturals, Integers, Sequences, FiniteSets

VARIABLES cfg,     \* [shape |-> ..., kind |-> "ok" | "err"]
          n,       \* length of the run in progress (0: none)
          pos,     \* observations seen in this run
          base,    \* base[who]: frames of the first observation of that kind (0: none yet)
          runs,    \* set of lengths completed
          last

vars == <<cfg, n, pos, base, runs, last>>

Whos == {"link", "own", "res", "gen", "pre", "late"}
Cascade == {"S1", "S3", "S1E"}
Stepwise == {"S2", "S4"}
Gens == {"G1", "G2", "G3", "G4", "G5", "G6"}
Shapes == Cascade \cup Stepwise \cup {"S6"} \cup Gens

Final(c, m) == IF c.shape = "S1E" \/ c.kind = "err" THEN <<"err", 1>> ELSE <<"ok", m + 1>>
P(c) == IF c.extra \in {"pre", "both"} THEN 1 ELSE 0      \* callbacks before the link
Q(c) == IF c.extra \in {"post", "both"} THEN 1 ELSE 0     \* callbacks added after being returned
Total(c, m) == IF c.shape \in Cascade \cup Stepwise THEN m * (P(c) + 2) + Q(c) * (IF m > 0 THEN m - 1 ELSE 0) ELSE m
FireVal(c, i) == IF c.shape = "S1E" THEN <<"err", 2>> ELSE <<"ok", i>>
PyNone == <<"none", 0>>

\* j-th observation of a run of length m: <<who, i, in>>
Exp(c, m, j) ==
    CASE c.shape \in Cascade ->
           \* driving phase: (pre_i,) link_i for i = 1..m; then own_m, res_(m-1) .. res_1, late_2 .. late_m
           LET w == P(c) + 1
               d == m * w
           IN IF j <= d THEN
                LET i == (j - 1) \div w + 1
                    r == ((j - 1) % w) + 1
                IN IF P(c) = 1 /\ r = 1 THEN <<"pre", i, FireVal(c, i)>> ELSE <<"link", i, FireVal(c, i)>>
              ELSE IF j = d + 1 THEN <<"own", m, Final(c, m)>>
              ELSE IF j <= d + m THEN <<"res", m - (j - d) + 1, Final(c, m)>>
              ELSE <<"late", j - d - m + 1, PyNone>>
      [] c.shape \in Stepwise ->
           \* step for i = m: (pre,) link, own; steps for i = m-1 .. 1: (pre,) link, own, (late_(i+1))
           LET w1 == P(c) + 2
               w  == P(c) + 2 + Q(c)
               s  == IF j <= w1 THEN 1 ELSE 2 + (j - w1 - 1) \div w
               r  == IF j <= w1 THEN j ELSE ((j - w1 - 1) % w) + 1
               i  == m - s + 1
           IN IF P(c) = 1 /\ r = 1 THEN <<"pre", i, <<"ok", i>> >>
              ELSE IF r = P(c) + 1 THEN <<"link", i, <<"ok", i>> >>
              ELSE IF r = P(c) + 2 THEN <<"own", i, Final(c, m)>>
              ELSE <<"late", i + 1, PyNone>>
      [] c.shape = "S6" -> <<"link", j, <<"ok", j - 1>> >>
      [] c.shape \in {"G1", "G2", "G5", "G6"} -> <<"gen", j, <<"ok", j>> >>
      [] c.shape \in {"G3", "G4"} -> <<"gen", j, <<"err", 1>> >>

\* what the outermost Deferred finally holds
Result(c, m) == IF c.shape \in Cascade \cup Stepwise THEN Final(c, m) ELSE <<"ok", m>>

InitWith(c) ==
    /\ cfg = c /\ n = 0 /\ pos = 0 /\ runs = {}
    /\ base = [w \in Whos |-> 0]
    /\ last = [e |-> "init"]

Begin(m) ==
    /\ n = 0 /\ m > 0 /\ m \notin runs
    /\ n' = m /\ pos' = 0
    /\ last' = [e |-> "begin", n |-> m]
    /\ UNCHANGED <<cfg, base, runs>>

\* an observation point reached with f frames between it and the driver
Observe(f) ==
    /\ n > 0 /\ pos < Total(cfg, n) /\ f > 0
    /\ LET x == Exp(cfg, n, pos + 1) IN
       /\ base[x[1]] \in {0, f}                       \* the property: constant depth
       /\ base' = [base EXCEPT ![x[1]] = f]
       /\ last' = [e |-> "obs", who |-> x[1], i |-> x[2], in |-> x[3], f |-> f]
    /\ pos' = pos + 1
    /\ UNCHANGED <<cfg, n, runs>>

\* the run completed: every observation arrived, the outermost Deferred holds the result
End ==
    /\ n > 0 /\ pos = Total(cfg, n)
    /\ runs' = runs \cup {n}
    /\ n' = 0 /\ pos' = 0
    /\ last' = [e |-> "end", n |-> n, res |-> Result(cfg, n), exc |-> ""]
    /\ UNCHANGED <<cfg, base>>

-----------------------------------------------------------------------------
TypeOK == /\ n \in Nat /\ pos \in 0..Total(cfg, n) /\ \A w \in Whos : base[w] \in Nat
\* depth observed so far is a single number per observation kind, whatever the lengths run
DepthConstant == last.e = "obs" => base[last.who] = last.f
\* a finished run saw exactly its observations
Complete == last.e = "end" => pos = 0 /\ last.n \in runs
Inv == TypeOK /\ DepthConstant /\ Complete
=============================================================================
