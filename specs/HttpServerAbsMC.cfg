SPECIFICATION Spec
CONSTANT MaxReq = 2
CONSTANT Depth = 8
CONSTRAINT Bound
VIEW View
INVARIANT OneAtATime
INVARIANT InOrder
INVARIANT NoInterleave
INVARIANT NotifyMeaning
INVARIANT FinOnlyReceived
CHECK_DEADLOCK FALSE
