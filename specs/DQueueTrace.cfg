SPECIFICATION TSpec
CONSTRAINT Progress
INVARIANT Inv
POSTCONDITION Accepted
CHECK_DEADLOCK FALSE
