---------------------------- MODULE PbBrokerTrace ----------------------------
(* Batched trace validation for X06: every recorded run of two real pb.Broker instances over the
   scheduler-controlled in-memory pipes must be a behaviour of PbBroker, with the complete ordered
   observation list of every step (remote_ method invocations, callRemote Deferred firings with class
   and value, DeadReferenceError raised, transport writes with message type / id / size / object id,
   disconnect notification), the number of exported objects and the number of registered pending requests of both brokers matched, and the
   invariants of PbBroker evaluated after every step.                                              *)
EXTENDS PbBroker, TLC, Json, IOUtils

Traces == JsonDeserialize(IOEnv.TRACE_FILE)
VARIABLES tid, l
ASSUME \A t \in 1..Len(Traces) : TLCSet(t, 1)

T == Traces[tid]
E == T.ev[l]

TInit == /\ tid \in 1..Len(Traces) /\ l = 1
         /\ InitWith([nobj |-> Traces[tid].cfg.nobj])

WSof(o) == LET w == SelectSeq(o, LAMBDA x : x[1] = "wr") IN [i \in 1..Len(w) |-> w[i][5]]

Step(A) == /\ l <= Len(T.ev) /\ A /\ obs' = E.obs /\ Lo' = E.lo /\ Wa' = E.wa /\ Inv' /\ StableStep
           /\ l' = l + 1 /\ UNCHANGED tid

TNext == \/ (E.e = "call" /\ Step(Call(E.p, E.t, E.k, E.j, E.f, WSof(E.obs))))
         \/ (E.e = "deliver" /\ Step(Deliver(E.p, E.n, WSof(E.obs))))
         \/ (E.e = "fire" /\ Step(Fire(E.c, E.how, WSof(E.obs))))
         \/ (E.e = "release" /\ Step(Release(E.h, WSof(E.obs))))
         \/ (E.e = "lose" /\ Step(Lose(E.p, E.r)))

TSpec == TInit /\ [][l <= Len(T.ev) /\ TNext]_<<vars, tid, l>>

Progress == TLCSet(tid, IF TLCGet(tid) > l THEN TLCGet(tid) ELSE l)
Rejected == {<<t, TLCGet(t)>> : t \in {u \in 1..Len(Traces) : TLCGet(u) # Len(Traces[u].ev) + 1}}
Accepted == Rejected = {} \/ (PrintT(<<"REJECTED", Rejected>>) /\ FALSE)
=============================================================================
