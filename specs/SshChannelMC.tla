----------------------------- MODULE SshChannelMC -----------------------------
(* Exhaustive TLC run of SshChannel: all windows/packet sizes 1..MaxWin/1..MaxPkt, all
   sequences of <= MaxOps application calls (write to 3 streams, loseConnection, manual window
   grants) interleaved with all message deliveries.

   The run does not stop at the first broken clause: a state in which the observer has flagged
   a clause is recorded as a class <<clauses, event kind>> and not explored further; the set of
   classes is printed at the end (POSTCONDITION).  For every class the harness asks TLC for a
   shortest counterexample (NotClass as INVARIANT) and replays it on the real objects.        *)
EXTENDS SshChannel, TLC, IOUtils
CONSTANTS MaxWin, MaxPkt, MaxOps, MaxN, MaxAdj
Init == \E w \in 1..MaxWin, p \in 1..MaxPkt :
           InitWith([win |-> w, pkt |-> p, maxops |-> MaxOps, maxn |-> MaxN, maxadj |-> MaxAdj])
Spec == Init /\ [][Next]_vars
View == <<cfg, snd, rcv, nops, obs>>
ASSUME TLCSet(1, {})
Collect == obs.viol = {} \/ (TLCSet(1, TLCGet(1) \cup {<<obs.viol, last.e>>}) /\ FALSE)
Classes == PrintT(<<"CLASSES", TLCGet(1)>>)
Clean == obs.viol = {}
NotClass == ~(IOEnv.VCLAUSE \in obs.viol /\ last.e = IOEnv.VEVENT)
=============================================================================
