SPECIFICATION SSpec
CONSTANT Depth = 28
CONSTRAINT Emit
CONSTRAINT Stop
CHECK_DEADLOCK FALSE
