SPECIFICATION Spec
VIEW View
INVARIANT Reach2
CHECK_DEADLOCK FALSE
