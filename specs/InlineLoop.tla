------------------------------ MODULE InlineLoop ------------------------------
(* C02, algorithm level, generators/coroutines: the `while 1` loop of _inlineCallbacks
   with its `waiting` pair and _gotResultInlineCallbacks, as coded, with an explicit
   activation stack.  The generator awaits cfg.script[1..n], each Deferred either already
   "fired" when yielded or "unfired" (fired later by the driver).

   Frames:  "inline"  an activation of _inlineCallbacks
            "got"     an activation of _gotResultInlineCallbacks (called by addBoth when
                      the Deferred is fired, or by the driver's callback() later)
            "fire"    the driver's callback() on an awaited Deferred
   cfg.unfold = TRUE : as coded -- a fired Deferred's result is parked in waiting[1] and
                       the loop goes on in the same activation
                FALSE: the naive algorithm (every result re-enters _inlineCallbacks
                       recursively) -- only used as a witness that the invariants bite.
   Each resumption of the generator records the stack depth.  Property: for scripts of
   already-fired Deferreds the depth is the same at every resumption, whatever n; for any
   script the stack never exceeds four activations (fire, got, inline, got); the generator always completes.   *)
EXTENDS Naturals, Sequences, FiniteSets

VARIABLES cfg,      \* [n, script, unfold]
          stack,    \* activation stack (sequence of frame names)
          pc,       \* what the top activation does next
          i,        \* awaits issued so far
          got,      \* index of the await whose result is being delivered
          w0, w1,   \* the waiting pair, per await (fresh after every use, as the code resets it)
          fired,    \* awaits whose Deferred has fired
          depths,   \* set of stack depths seen at generator resumptions
          finished  \* the generator returned and the result Deferred was fired

vars == <<cfg, stack, pc, i, got, w0, w1, fired, depths, finished>>

Push(f) == Append(stack, f)
Pop == SubSeq(stack, 1, Len(stack) - 1)
Top == stack[Len(stack)]

InitWith(c) ==
    /\ cfg = c
    /\ stack = <<"inline">> /\ pc = "send" /\ i = 0 /\ got = 0
    /\ w0 = [j \in 1..c.n |-> TRUE] /\ w1 = [j \in 1..c.n |-> FALSE]
    /\ fired = {j \in 1..c.n : c.script[j] = "fired"}
    /\ depths = {} /\ finished = FALSE

\* gen.send(result): the generator runs to its next yield (or returns)
Send ==
    /\ pc = "send" /\ Top = "inline"
    /\ depths' = IF i > 0 THEN depths \cup {Len(stack)} ELSE depths
    /\ IF i = cfg.n
       THEN /\ finished' = TRUE /\ pc' = "ret" /\ stack' = Pop /\ UNCHANGED i    \* StopIteration: callback, return
       ELSE /\ i' = i + 1 /\ pc' = "add" /\ UNCHANGED <<stack, finished>>
    /\ UNCHANGED <<cfg, got, w0, w1, fired>>

\* result.addBoth(_gotResultInlineCallbacks, waiting, ...)
AddBoth ==
    /\ pc = "add" /\ Top = "inline"
    /\ IF i \in fired
       THEN /\ stack' = Push("got") /\ got' = i /\ pc' = "got"     \* runs synchronously
       ELSE /\ pc' = IF cfg.unfold THEN "check" ELSE "ret"
            /\ stack' = IF cfg.unfold THEN stack ELSE Pop            \* naive: just return
            /\ UNCHANGED got
    /\ UNCHANGED <<cfg, i, w0, w1, fired, depths, finished>>

\* _gotResultInlineCallbacks
Got ==
    /\ pc = "got" /\ Top = "got"
    /\ IF cfg.unfold /\ w0[got]
       THEN /\ w0' = [w0 EXCEPT ![got] = FALSE] /\ w1' = [w1 EXCEPT ![got] = TRUE]
            /\ stack' = Pop /\ pc' = "ret"
       ELSE /\ stack' = Push("inline") /\ pc' = "send"               \* _inlineCallbacks(r, ...)
            /\ UNCHANGED <<w0, w1>>
    /\ UNCHANGED <<cfg, i, got, fired, depths, finished>>

\* `if waiting[0]:` after addBoth returned
Check ==
    /\ pc = "check" /\ Top = "inline"
    /\ IF w0[i]
       THEN /\ w0' = [w0 EXCEPT ![i] = FALSE] /\ stack' = Pop /\ pc' = "ret"   \* not fired yet: return
       ELSE /\ pc' = "send" /\ UNCHANGED <<w0, stack>>                          \* result = waiting[1]; loop
    /\ UNCHANGED <<cfg, i, got, w1, fired, depths, finished>>

\* a frame returned to its caller
Ret ==
    /\ pc = "ret" /\ stack # <<>>
    /\ CASE Top = "inline" -> /\ pc' = IF cfg.unfold THEN "check" ELSE "ret"     \* back from addBoth
                              /\ stack' = IF cfg.unfold THEN stack ELSE Pop
         [] Top = "got"    -> /\ stack' = Pop /\ pc' = "ret"
         [] Top = "fire"   -> /\ stack' = Pop /\ pc' = "ret"
    /\ UNCHANGED <<cfg, i, got, w0, w1, fired, depths, finished>>

Idle == pc = "ret" /\ stack = <<>>

\* the driver fires the unfired Deferred the generator is suspended on
Fire ==
    /\ Idle /\ ~finished /\ i > 0 /\ i \notin fired
    /\ fired' = fired \cup {i}
    /\ stack' = <<"fire", "got">> /\ got' = i /\ pc' = "got"
    /\ UNCHANGED <<cfg, i, w0, w1, depths, finished>>

Next == Send \/ AddBoth \/ Got \/ Check \/ Ret \/ Fire

-----------------------------------------------------------------------------
AllFired == \A j \in 1..cfg.n : cfg.script[j] = "fired"
\* the property: stack use does not grow with the number of awaits
ConstDepth   == AllFired => Cardinality(depths) <= 1
StackBounded == Len(stack) <= 4
\* every await was resumed exactly once and the generator completed
Completes == (Idle /\ (i = 0 \/ i \in fired)) => (finished /\ i = cfg.n)
NoLostWakeup == Idle => (finished \/ (i > 0 /\ i \notin fired))
=============================================================================
