------------------------- MODULE AtomicFileImplTrace -------------------------
(* C52 Impl binding (drift detector, never a verdict): the complete event sequence of
   a real execution -- including every mutating file-system call and the raw directory
   listings -- must be a behaviour of AtomicFileImpl.                               *)
EXTENDS AtomicFileImpl, TLC, Json, IOUtils

Traces == JsonDeserialize(IOEnv.TRACE_FILE)
VARIABLES tid, l
ASSUME \A t \in 1..Len(Traces) : TLCSet(t, 1)

T == Traces[tid]
E == T.ev[l]
Range(s) == {s[i] : i \in 1..Len(s)}
Cfg(t) == [kind |-> Traces[t].cfg.kind, init |-> Traces[t].cfg.init, ve |-> Traces[t].cfg.ve, win |-> FALSE]

TInit == /\ tid \in 1..Len(Traces) /\ l = 1 /\ ImplInitWith(Cfg(tid))

Step(A) == /\ l <= Len(T.ev) /\ A /\ l' = l + 1 /\ UNCHANGED tid

FsStep == \/ Create \/ (E.cls \in {"part", "all"} /\ Write(E.cls)) \/ WinRemove \/ Rename

TNext == \/ (E.e = "save" /\ Step(ISave(E.v, E.nch)))
         \/ (E.e = "ret" /\ E.res = "ok" /\ Step(Ret))
         \/ (E.e = "crash" /\ Step(ICrash))
         \/ (E.e = "view" /\ E.t = TgtView(dir) /\ Step(pc = "idle" /\ AView(E.t) /\ UNCHANGED implvars))
         \/ (E.e = "ls" /\ Range(E.files) = DirLs(dir) /\ Step(UNCHANGED vars))
         \/ (E.e = "fs" /\ Step(FsStep /\ last' = [e |-> "fs", op |-> E.op, a |-> E.a, b |-> E.b, v |-> E.v, cls |-> E.cls, ok |-> E.ok]))

TSpec == TInit /\ [][l <= Len(T.ev) /\ TNext]_<<vars, tid, l>>

Progress == TLCSet(tid, IF TLCGet(tid) > l THEN TLCGet(tid) ELSE l)
Rejected == {<<t, TLCGet(t)>> : t \in {u \in 1..Len(Traces) : TLCGet(u) # Len(Traces[u].ev) + 1}}
Accepted == Rejected = {} \/ (PrintT(<<"REJECTED", Rejected>>) /\ FALSE)
=============================================================================
