SPECIFICATION WildSpec
CONSTRAINT WildDeepBound
VIEW View
INVARIANT Forest
INVARIANT RunConsistent
INVARIANT NoDouble
INVARIANT NameIndex
INVARIANT Watchers
PROPERTY WildStepInv
CHECK_DEADLOCK FALSE
