------------------------------ MODULE ChunkedMC ------------------------------
(* Exhaustive TLC run for C22.
   Impl layer: _ChunkedTransferDecoder's algorithm as coded (one growing buffer, find of CRLF
       from a resumption index _start, per-state handlers looped while they return True).  For all
       streams over Alphabet up to length L and all splits, what the algorithm shows per call must
       be Allowed by the reference automaton of Chunked.tla (ok stays TRUE).
   (The Enc/Dec round trip is in ChunkedRT.)                                                    *)
EXTENDS Chunked, TLC
CONSTANTS L, Mode      \* Mode "main": size lines, bodies, trailers; "quoted": quoted-string extension values (quoted-pair handling)

Alphabet == IF Mode = "main" THEN {48, 49, 50, 103, 59, 0, CR, LF}          \* '0' '1' '2' 'g' ';' NUL CR LF
            ELSE {34, 92, 103, 0, CR, LF}                                  \* '"' '\' 'g' NUL CR LF
Cfgs == IF Mode = "main" THEN {[lmax |-> 1024, tmax |-> 65536], [lmax |-> 4, tmax |-> 6]} ELSE {[lmax |-> 1024, tmax |-> 65536]}

\* ---- the algorithm as coded
CodeExtChars == {9} \cup (32..91) \cup (93..126) \cup (128..255)     \* _chunkExtChars
M0 == [state |-> "CHUNK_LENGTH", buf |-> <<>>, start |-> 0, length |-> 0, tsize |-> 0]
O0 == [body |-> <<>>, fin |-> <<>>, exc |-> ""]

\* bytes.find(b"\r\n", st) with 0-based indices; -1 when absent
Find(buf, st) == LET S == {i \in st..(Len(buf) - 2) : i >= 0 /\ buf[i + 1] = CR /\ buf[i + 2] = LF}
                 IN IF S = {} THEN -1 ELSE CHOOSE i \in S : \A j \in S : i <= j
FindSemi(buf, n) == LET S == {i \in 0..(n - 1) : buf[i + 1] = SEMI}
                    IN IF S = {} THEN -1 ELSE CHOOSE i \in S : \A j \in S : i <= j
Drop(buf, n) == SubSeq(buf, n + 1, Len(buf))
RECURSIVE HexInt(_, _)
HexInt(s, n) == IF n = 0 THEN 0 ELSE HexInt(s, n - 1) * 16 + HexVal(s[n])
Err(m, o) == [m |-> m, o |-> [o EXCEPT !.exc = "Malformed"], go |-> FALSE]

\* _chunkExtQuotedString.sub(b'""', ext), applied when the extension contains a backslash:
\*   "(?:[\t !#-\[\]-~\x80-\xff]|\\[\t -~\x80-\xff])*"   (leftmost, non-overlapping; the alternatives are disjoint, no backtracking choice)
CodeQd(b) == b \in {9, 32, 33} \cup (35..91) \cup (93..126) \cup (128..255)
CodeQp(b) == b \in {9} \cup (32..126) \cup (128..255)
RECURSIVE QEnd(_, _)
QEnd(e, k) == IF k > Len(e) THEN 0 ELSE IF e[k] = DQ THEN k
              ELSE IF e[k] = BSL THEN (IF k + 1 <= Len(e) /\ CodeQp(e[k + 1]) THEN QEnd(e, k + 2) ELSE 0)
              ELSE IF CodeQd(e[k]) THEN QEnd(e, k + 1) ELSE 0
RECURSIVE StripQuoted(_, _)
StripQuoted(e, i) == IF i > Len(e) THEN <<>>
                     ELSE IF e[i] = DQ /\ QEnd(e, i + 1) > 0 THEN <<DQ, DQ>> \o StripQuoted(e, QEnd(e, i + 1) + 1)
                     ELSE <<e[i]>> \o StripQuoted(e, i + 1)
CheckedExt(ext) == IF \E i \in 1..Len(ext) : ext[i] = BSL THEN StripQuoted(ext, 1) ELSE ext

HChunkLength(m, o, c) ==
    LET eol == Find(m.buf, m.start) IN
    IF eol >= c.lmax \/ (eol = -1 /\ Len(m.buf) > c.lmax) THEN Err(m, o)
    ELSE IF eol = -1 THEN [m |-> [m EXCEPT !.start = Len(m.buf) - 1], o |-> o, go |-> FALSE]
    ELSE LET semi == FindSemi(m.buf, eol)
             eolen == IF semi = -1 THEN eol ELSE semi
             ext == SubSeq(m.buf, eolen + 2, eol)
         IN IF eolen = 0 \/ \E i \in 1..eolen : ~IsHex(m.buf[i]) THEN Err(m, o)
            ELSE IF \E i \in 1..Len(CheckedExt(ext)) : CheckedExt(ext)[i] \notin CodeExtChars THEN Err(m, o)
            ELSE LET len == HexInt(m.buf, eolen) IN
                 [m |-> [m EXCEPT !.state = IF len = 0 THEN "TRAILER" ELSE "BODY", !.length = len,
                                  !.buf = Drop(m.buf, eol + 2), !.start = 0], o |-> o, go |-> TRUE]

HCrlf(m, o) ==
    IF Len(m.buf) < 2 THEN [m |-> m, o |-> o, go |-> FALSE]
    ELSE IF m.buf[1] # CR \/ m.buf[2] # LF THEN Err(m, o)
    ELSE [m |-> [m EXCEPT !.state = "CHUNK_LENGTH", !.buf = Drop(m.buf, 2)], o |-> o, go |-> TRUE]

HTrailer(m, o, c) ==
    LET eol == Find(m.buf, m.start) IN
    IF eol = -1 THEN
        IF m.tsize + Len(m.buf) + (IF m.buf[Len(m.buf)] = CR THEN 1 ELSE 2) > c.tmax THEN Err(m, o)
        ELSE [m |-> m, o |-> o, go |-> FALSE]
    ELSE IF eol > 0 THEN
        LET m2 == [m EXCEPT !.buf = Drop(m.buf, eol + 2), !.start = 0, !.tsize = m.tsize + eol + 2] IN
        IF m2.tsize > c.tmax THEN Err(m2, o) ELSE [m |-> m2, o |-> o, go |-> TRUE]
    ELSE [m |-> [m EXCEPT !.buf = <<>>, !.state = "FINISHED"],
          o |-> [o EXCEPT !.fin = Append(o.fin, Drop(m.buf, 2))], go |-> FALSE]

HBody(m, o) ==
    IF Len(m.buf) >= m.length
    THEN [m |-> [m EXCEPT !.buf = Drop(m.buf, m.length), !.state = "CRLF"],
          o |-> [o EXCEPT !.body = o.body \o SubSeq(m.buf, 1, m.length)], go |-> TRUE]
    ELSE [m |-> [m EXCEPT !.buf = <<>>, !.length = m.length - Len(m.buf)],
          o |-> [o EXCEPT !.body = o.body \o m.buf], go |-> TRUE]

Handler(m, o, c) ==
    CASE m.state = "CHUNK_LENGTH" -> HChunkLength(m, o, c)
      [] m.state = "CRLF" -> HCrlf(m, o)
      [] m.state = "TRAILER" -> HTrailer(m, o, c)
      [] m.state = "BODY" -> HBody(m, o)
      [] OTHER -> [m |-> m, o |-> [o EXCEPT !.exc = "RuntimeError"], go |-> FALSE]

RECURSIVE Loop(_, _, _)
Loop(m, o, c) == IF m.buf = <<>> THEN [m |-> m, o |-> o]
                 ELSE LET r == Handler(m, o, c) IN IF r.go THEN Loop(r.m, r.o, c) ELSE [m |-> r.m, o |-> r.o]
DataReceived(m, data, c) == Loop([m EXCEPT !.buf = m.buf \o data], O0, c)

\* ---- (1) all streams, all splits
VARIABLES m, ok, refAll, ext
mcvars == <<vars, m, ok, refAll, ext>>
\* seeds: grammatical prefixes (undelivered), so that streams reaching every phase are within L extensions
Seeds == IF Mode = "main"
         THEN {<<>>, <<49, 59>>, <<49, CR, LF, 103>>, <<50, CR, LF, CR>>, <<48, CR, LF>>, <<48, CR, LF, 103, 58>>,
               <<49, CR, LF, 59, CR, LF, 48, CR, LF>>}
         ELSE {<<49, 59, 103, 61, 34>>, <<48, 59, 103, 61, 34, 92>>}          \* 1;g="   and   0;g="\
MCInit == /\ \E c \in Cfgs, s \in Seeds : InitWith(c, s)
          /\ m = M0 /\ ok = TRUE /\ refAll = Fold(S0, str, 1, Len(str), cfg.lmax, cfg.tmax) /\ ext = 0

MCExtend == \E e \in (IF refAll.bad THEN {CR, LF, 103} ELSE Alphabet) :   \* a doomed size line is only extended by representatives
    /\ ext < L /\ ext' = ext + 1 /\ refAll.ph \notin {"REJ", "FREE"}
    /\ Extend(e) /\ refAll' = Step(refAll, e, cfg.lmax, cfg.tmax)
    /\ UNCHANGED <<m, ok>>

Call(n) == DataReceived(m, SubSeq(str, pos + 1, pos + n), cfg)
Do(n, r) == /\ m' = r.m /\ Advance(n, r.o) /\ ok' = Allowed(ref', got', r.o) /\ UNCHANGED <<refAll, ext>>
\* one action per kind of observable outcome of a dataReceived call (vacuity guard via -coverage)
DeliverFin   == \E n \in 1..(Len(str) - pos) : LET r == Call(n) IN r.o.fin # <<>> /\ Do(n, r)
DeliverErr   == \E n \in 1..(Len(str) - pos) : LET r == Call(n) IN r.o.exc # "" /\ Do(n, r)
DeliverBody  == \E n \in 1..(Len(str) - pos) : LET r == Call(n) IN r.o.fin = <<>> /\ r.o.exc = "" /\ r.o.body # <<>> /\ Do(n, r)
DeliverQuiet == \E n \in 1..(Len(str) - pos) : LET r == Call(n) IN r.o.fin = <<>> /\ r.o.exc = "" /\ r.o.body = <<>> /\ Do(n, r)
MCEof == LET x == IF m.state = "FINISHED" THEN "" ELSE "DataLoss" IN
         /\ EofAdvance(x) /\ ok' = EofAllowed(ref, x) /\ UNCHANGED <<m, refAll, ext>>

MCNext == MCExtend \/ DeliverFin \/ DeliverErr \/ DeliverBody \/ DeliverQuiet \/ MCEof
MCSpec == MCInit /\ [][MCNext]_mcvars
Ok == ok
View == <<cfg, str, pos, ref, got, done, m, ok, ext>>

=============================================================================
