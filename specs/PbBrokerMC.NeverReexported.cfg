SPECIFICATION Spec
CONSTANT MaxCalls = 2
CONSTANT MaxHandles = 2
CONSTANT KindSet = {"Now", "Later", "Give"}
CONSTANT Flags = {FALSE}
CONSTANT Hows = {"ok"}
CONSTANT Reasons = {1}
CONSTANT NObj = {1}
CONSTANT Depth = 12
CONSTRAINT Bound
VIEW View
INVARIANT NeverReexported
CHECK_DEADLOCK FALSE
