---------------------------- MODULE ChainPropTrace ----------------------------
(* Batched trace validation for C02: recorded runs of real Deferred chains /
   inlineCallbacks generators / coroutines must be behaviours of ChainProp with every
   logged field matching (observation kind, link index, argument, frame count, result).
   A RecursionError (or any exception escaping the driver's calls) is logged in "exc"
   and matches no action.                                                      *)
EXTENDS ChainProp, TLC, Json, IOUtils

Traces == JsonDeserialize(IOEnv.TRACE_FILE)
VARIABLES tid, l
ASSUME \A t \in 1..Len(Traces) : TLCSet(t, 1)
T == Traces[tid]
E == T.ev[l]

TInit == /\ tid \in 1..Len(Traces) /\ l = 1
         /\ InitWith([shape |-> Traces[tid].cfg.shape, kind |-> Traces[tid].cfg.kind, extra |-> Traces[tid].cfg.extra])

Step(A) == /\ l <= Len(T.ev) /\ A /\ Inv' /\ l' = l + 1 /\ UNCHANGED tid

TBegin == E.e = "begin" /\ Step(Begin(E.n))
TObs   == E.e = "obs" /\ Step(Observe(E.f))
                      /\ last'.who = E.who /\ last'.i = E.i /\ last'.in = E.in /\ last'.f = E.f
TEnd   == E.e = "end" /\ Step(End) /\ last'.n = E.n /\ last'.res = E.res /\ last'.exc = E.exc

TNext == TBegin \/ TObs \/ TEnd
TSpec == TInit /\ [][l <= Len(T.ev) /\ TNext]_<<vars, tid, l>>

Progress == TLCSet(tid, IF TLCGet(tid) > l THEN TLCGet(tid) ELSE l)
Rejected == {<<t, TLCGet(t)>> : t \in {u \in 1..Len(Traces) : TLCGet(u) # Len(Traces[u].ev) + 1}}
Accepted == Rejected = {} \/ (PrintT(<<"REJECTED", Rejected>>) /\ FALSE)
=============================================================================
