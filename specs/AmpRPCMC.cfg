SPECIFICATION Spec
CONSTANT MaxCalls = 2
CONSTANT MaxPerPeer = 2
CONSTANT KindSet = {"NowOk", "NowDecl", "NowFatal", "NowUndecl", "LaterOk", "LaterDecl", "LaterFatal", "LaterUndecl", "Never"}
CONSTANT Flags = {FALSE}
CONSTANT QC = {TRUE, FALSE}
VIEW View
INVARIANT ExactlyOnce
INVARIANT OwnResult
INVARIANT NonePendingAfterLoss
INVARIANT NeverOnlyLoss
INVARIANT WhyOK
CHECK_DEADLOCK FALSE
