----------------------------- MODULE TeamTrace -----------------------------
(* Batched trace validation: every recorded execution of the real Team (memory coordinator and
   workers, schedule chosen by the harness) must be a behaviour of Team, with every logged field
   matching and every invariant holding after every step.                                      *)
EXTENDS Team, TLC, Json, IOUtils

Traces == JsonDeserialize(IOEnv.TRACE_FILE)
VARIABLES tid, l
ASSUME \A t \in 1..Len(Traces) : TLCSet(t, 1)

T == Traces[tid]
E == T.ev[l]

TInit == /\ tid \in 1..Len(Traces) /\ l = 1
         /\ InitWith([limit |-> Traces[tid].cfg.limit, inline |-> Traces[tid].cfg.inline])

Matches == /\ last'.e = E.e /\ last'.res = E.res /\ last'.n = E.n /\ last'.raised = E.raised
           /\ last'.sub = E.sub /\ last'.st = E.st

\* E.fin: last event of a harness operation; with the inline (LockWorker) coordinator nothing may stay queued then
Step(A) == /\ l <= Len(T.ev) /\ A /\ Matches /\ Inv'
           /\ ((T.cfg.inline /\ E.fin) => InlineDone')
           /\ l' = l + 1 /\ UNCHANGED tid

TNext == \/ (E.e = "do" /\ Step(Do))
         \/ (E.e = "grow" /\ Step(Grow(E.n)))
         \/ (E.e = "shrink" /\ Step(Shrink(E.n)))
         \/ (E.e = "setlimit" /\ Step(SetLimit(E.n)))
         \/ (E.e = "quit" /\ Step(Quit))
         \/ (E.e = "coord" /\ Step(CoordStep \/ CoordIdle \/ CoordFail))
         \/ (E.e = "work" /\ Step(WorkerStep(E.n) \/ WorkerIdle(E.n)))

TSpec == TInit /\ [][l <= Len(T.ev) /\ TNext]_<<vars, tid, l>>

Progress == TLCSet(tid, IF TLCGet(tid) > l THEN TLCGet(tid) ELSE l)
Rejected == {<<t, TLCGet(t)>> : t \in {u \in 1..Len(Traces) : TLCGet(u) # Len(Traces[u].ev) + 1}}
Accepted == Rejected = {} \/ (PrintT(<<"REJECTED", Rejected>>) /\ FALSE)
=============================================================================
