--------------------------- MODULE DeferredCancelSim ---------------------------
(* Behaviour generator (spec -> code): DeferredCancel plus a history variable recording
   the predicted observable of every step; printed as JSON once a behaviour reaches Depth. *)
EXTENDS DeferredCancel, TLC, Json
CONSTANT Depth, MaxD
VARIABLE hist
Configs == {[kinds |-> ks] : ks \in [1..MaxD -> CKinds]}
SInit == /\ \E c \in Configs : InitWith(c)
         /\ hist = <<>>
SNext == Next /\ hist' = Append(hist, last')
SSpec == SInit /\ [][SNext]_<<vars, hist>>
Emit == TLCGet("level") < Depth \/ PrintT(<<"BEH", ToJson([cfg |-> cfg, hist |-> hist])>>)
Stop == TLCGet("level") <= Depth
=============================================================================
