SPECIFICATION Spec
CONSTANT MaxIv = 3
CONSTANT Horizon = 5
CONSTANT MaxD = 3
CONSTANT MaxOps = 6
CONSTANT Stricts = {FALSE}
CONSTANT T0s = {2}
CONSTRAINT Bound
VIEW View
INVARIANT NoOverlap
INVARIANT NoDrift
INVARIANT FirstCall
INVARIANT CountSum
INVARIANT CountPositive
INVARIANT StartDOnce
INVARIANT NoCallAfter
CHECK_DEADLOCK FALSE
