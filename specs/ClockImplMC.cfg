SPECIFICATION Spec
CONSTANT MaxCalls = 3
CONSTANT Ds = {0, 1}
CONSTANT NegMax = 1
CONSTANT MaxNow = 2
CONSTANT Depth = 7
CONSTRAINT Bound
VIEW View
PROPERTY Refines
INVARIANT ListIsLive
INVARIANT SortedInLoop
INVARIANT DelayNonNeg
CHECK_DEADLOCK FALSE
