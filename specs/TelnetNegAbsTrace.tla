-------------------------- MODULE TelnetNegAbsTrace --------------------------
(* Batched trace validation against the PROPERTY ALONE (Abs layer, TelnetNegObs):
   the recorded events drive the observer; every event after which a clause of the
   property is broken is printed (<<"VIOL", trace, event, clauses>>) and the trace is rejected; the
   rest of the trace is still examined (the flagged clauses are cleared).  This is
   the verdict layer: it knows nothing about how the negotiation is implemented.      *)
EXTENDS TelnetNegObs, TLC, Json, IOUtils

Traces == JsonDeserialize(IOEnv.TRACE_FILE)
VARIABLES tid, l, obs
ASSUME \A t \in 1..Len(Traces) : TLCSet(t, 1) /\ TLCSet(Len(Traces) + t, 0)

T == Traces[tid]
E == T.ev[l]

TInit == tid \in 1..Len(Traces) /\ l = 1 /\ obs = ObsInit

TNext == /\ l <= Len(T.ev)
         /\ LET o2 == Observe(obs, T.cfg, E) IN
              /\ IF o2.viol = {} THEN TRUE ELSE PrintT(<<"VIOL", tid, l, o2.viol>>) /\ TLCSet(Len(Traces) + tid, 1)
              /\ obs' = [o2 EXCEPT !.viol = {}] /\ l' = l + 1 /\ UNCHANGED tid

TSpec == TInit /\ [][TNext]_<<obs, tid, l>>

Progress == TLCSet(tid, IF TLCGet(tid) > l THEN TLCGet(tid) ELSE l)
Rejected == {<<t, TLCGet(t)>> : t \in {u \in 1..Len(Traces) : TLCGet(u) # Len(Traces[u].ev) + 1 \/ TLCGet(Len(Traces) + u) = 1}}
Accepted == Rejected = {} \/ (PrintT(<<"REJECTED", Rejected>>) /\ FALSE)
=============================================================================
