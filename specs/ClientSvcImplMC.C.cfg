SPECIFICATION Spec
CONSTANT Depth = 3
CONSTANT Assume = {"D", "E"}
CONSTRAINT Bound
VIEW View
INVARIANT Accepted
CHECK_DEADLOCK FALSE
