SPECIFICATION MCSpec
CONSTANT L = 6
CONSTANT Kind = "LO"
CONSTANT LOBound = "repaired"
VIEW View
INVARIANT Ok
INVARIANT Inv
CHECK_DEADLOCK FALSE
