SPECIFICATION MCSpec
CONSTANT L = 6
CONSTANT Kind = "LO"
VIEW View
INVARIANT Ok
INVARIANT Inv
CHECK_DEADLOCK FALSE
