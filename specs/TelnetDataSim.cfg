SPECIFICATION SSpec
CONSTANT MaxApp = 14
CONSTANT MaxWire = 18
CONSTANT Depth = 14
CONSTRAINT EmitBeh
CONSTRAINT Stop
CHECK_DEADLOCK FALSE
