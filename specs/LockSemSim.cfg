SPECIFICATION SSpec
CONSTANT Depth = 16
CONSTRAINT Emit
CONSTRAINT Stop
CHECK_DEADLOCK FALSE
