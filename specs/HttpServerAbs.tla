--------------------------- MODULE HttpServerAbs ---------------------------
(* C21 -- application side of one HTTP/1.1 server connection (twisted.web.http
   HTTPChannel + Request), Abs layer = the property and nothing more:

     * the application is handed at most one request at a time, the next only
       after the previous response has finished (finish() called);
     * response segments appear on the wire in request order and contiguous
       (nothing of another response, and no 1xx written by the channel, inside
       a response);
     * every notifyFinish Deferred fires exactly once: with None iff its
       response finished, with a failure iff the connection was lost while the
       request was still in the application.

   Requests are numbered in stream order (identity kept, content abstracted).
   The environment decides when complete requests arrive (Deliver), how the
   application answers (Write / FinishCall now, later or never), when the
   transport pauses / resumes the channel and when the connection is lost.
   The property fixes no timing for the hand-over or for the notification, so
   Recv and Notify may happen at any later step; End states what must have
   happened once the connection is quiescent.  cfg is a VARIABLE.            *)
EXTENDS Naturals, Sequences, FiniteSets

VARIABLES cfg,      \* [closing |-> <<BOOLEAN, ...>>]: closing[r] = request r is the last one the
                    \*   server may process (HTTP/1.0, or Connection: close)
          avail,    \* number of complete requests that have reached the server
          nRecv,    \* requests handed to the application so far (ids 1..nRecv)
          active,   \* request now in the application (0 = none)
          tail,     \* request whose finish() was just called and which may still emit its last segments
          fin,      \* requests whose response finished
          lost,     \* connection lost
          lostAct,  \* request that was in the application when the connection was lost (0 = none)
          ph,       \* ph[r] \in {"none","head","end"}: how far the response of r got on the wire
          nf,       \* nf[r] = sequence over "pending" | "none" | "fail", one per notifyFinish() Deferred of r
          wire,     \* request ids of the response segments written, in wire order
          ended,    \* End was taken
          last      \* observable of the last step

vars == <<cfg, avail, nRecv, active, tail, fin, lost, lostAct, ph, nf, wire, ended, last>>

InitWith(c) ==
    /\ cfg = c
    /\ avail = 0 /\ nRecv = 0 /\ active = 0 /\ tail = 0 /\ fin = {}
    /\ lost = FALSE /\ lostAct = 0
    /\ ph = <<>> /\ nf = <<>> /\ wire = <<>> /\ ended = FALSE
    /\ last = [e |-> "init"]

NReq == Len(cfg.closing)

(* k further complete requests have arrived (k = 0: bytes that complete nothing). *)
Deliver(k) ==
    /\ ~lost /\ ~ended /\ avail + k <= NReq
    /\ avail' = avail + k
    /\ last' = [e |-> "deliver", k |-> k]
    /\ UNCHANGED <<cfg, nRecv, active, tail, fin, lost, lostAct, ph, nf, wire, ended>>

(* The application is handed request r with nd notifyFinish Deferreds: only the next
   request in stream order, only when no other request is in the application.       *)
Recv(r, nd) ==
    /\ ~lost /\ ~ended
    /\ r = nRecv + 1 /\ r <= avail
    /\ active = 0
    /\ nRecv' = r /\ active' = r /\ tail' = 0
    /\ ph' = Append(ph, "none")
    /\ nf' = Append(nf, [d \in 1..nd |-> "pending"])
    /\ last' = [e |-> "recv", r |-> r, nd |-> nd]
    /\ UNCHANGED <<cfg, avail, fin, lost, lostAct, wire, ended>>

(* A response segment of request r reaches the transport: only from the request in
   the application, or from the one whose finish() is completing, head first.       *)
Seg(k, r) ==
    /\ ~ended
    /\ r # 0 /\ (r = active \/ r = tail)
    /\ \/ k = "head" /\ ph[r] = "none" /\ ph' = [ph EXCEPT ![r] = "head"]
       \/ k = "body" /\ ph[r] = "head" /\ ph' = ph
       \/ k = "end"  /\ ph[r] = "head" /\ r = tail /\ ph' = [ph EXCEPT ![r] = "end"]
    /\ wire' = Append(wire, r)
    /\ last' = [e |-> "seg", k |-> k, r |-> r]
    /\ UNCHANGED <<cfg, avail, nRecv, active, tail, fin, lost, lostAct, nf, ended>>

(* "100 Continue" written by the channel itself: never inside a response. *)
SegContinue ==
    /\ ~ended /\ ~lost
    /\ active = 0
    /\ tail' = 0
    /\ wire' = Append(wire, 0)
    /\ last' = [e |-> "seg", k |-> "r100", r |-> 0]
    /\ UNCHANGED <<cfg, avail, nRecv, active, fin, lost, lostAct, ph, nf, ended>>

(* The application writes more of the response of the request it holds (no effect by itself). *)
WriteCall(r) ==
    /\ ~ended /\ r # 0 /\ (r = active \/ (lost /\ r = lostAct))
    /\ last' = [e |-> "write", r |-> r]
    /\ UNCHANGED <<cfg, avail, nRecv, active, tail, fin, lost, lostAct, ph, nf, wire, ended>>

(* finish() on the request in the application: the response is finished. *)
FinishCall(r) ==
    /\ ~ended /\ ~lost
    /\ r # 0 /\ r = active
    /\ fin' = fin \cup {r} /\ active' = 0 /\ tail' = r
    /\ last' = [e |-> "finish", r |-> r]
    /\ UNCHANGED <<cfg, avail, nRecv, lost, lostAct, ph, nf, wire, ended>>

(* finish() after the connection was lost: the response can no longer finish. *)
LateFinish(r) ==
    /\ ~ended /\ lost /\ r # 0 /\ r = lostAct
    /\ last' = [e |-> "finish", r |-> r]
    /\ UNCHANGED <<cfg, avail, nRecv, active, tail, fin, lost, lostAct, ph, nf, wire, ended>>

(* A notifyFinish Deferred of r fires: once; None iff the response finished,
   failure iff the connection was lost while r was in the application.        *)
Notify(r, d, v) ==
    /\ ~ended
    /\ r \in 1..nRecv /\ d \in 1..Len(nf[r]) /\ nf[r][d] = "pending"
    /\ \/ v = "none" /\ r \in fin
       \/ v = "fail" /\ lost /\ r = lostAct
    /\ nf' = [nf EXCEPT ![r][d] = v]
    /\ last' = [e |-> "notify", r |-> r, d |-> d, v |-> v]
    /\ UNCHANGED <<cfg, avail, nRecv, active, tail, fin, lost, lostAct, ph, wire, ended>>

(* notifyFinish() called from inside a notifyFinish callback of r: one more Deferred of r, which has to
   fire exactly once like the others (None iff finished, failure iff lost while in the application). *)
NotifyRequest(r, d) ==
    /\ ~ended
    /\ r \in 1..nRecv /\ d = Len(nf[r]) + 1
    /\ \E x \in 1..Len(nf[r]) : nf[r][x] # "pending"          \* made while r's Deferreds are being fired
    /\ nf' = [nf EXCEPT ![r] = Append(@, "pending")]
    /\ last' = [e |-> "nfreq", r |-> r, d |-> d]
    /\ UNCHANGED <<cfg, avail, nRecv, active, tail, fin, lost, lostAct, ph, wire, ended>>

Lose ==
    /\ ~lost /\ ~ended
    /\ lost' = TRUE /\ lostAct' = active /\ active' = 0 /\ tail' = 0
    /\ last' = [e |-> "lost"]
    /\ UNCHANGED <<cfg, avail, nRecv, fin, ph, nf, wire, ended>>

(* The transport tells the channel to stop / resume producing: allowed at any time. *)
Pause ==
    /\ ~lost /\ ~ended /\ last' = [e |-> "pause"]
    /\ UNCHANGED <<cfg, avail, nRecv, active, tail, fin, lost, lostAct, ph, nf, wire, ended>>
Resume ==
    /\ ~lost /\ ~ended /\ last' = [e |-> "resume"]
    /\ UNCHANGED <<cfg, avail, nRecv, active, tail, fin, lost, lostAct, ph, nf, wire, ended>>

(* A public call returned.  Only finish() after connection loss may raise (RuntimeError, documented). *)
Ret(x) ==
    /\ ~ended
    /\ x = "ok" \/ (lost /\ x = "EXC:RuntimeError")
    /\ last' = [e |-> "ret", x |-> x]
    /\ UNCHANGED <<cfg, avail, nRecv, active, tail, fin, lost, lostAct, ph, nf, wire, ended>>

RECURSIVE FirstClosing(_, _)
FirstClosing(r, n) == IF r > n THEN n ELSE IF cfg.closing[r] THEN r ELSE FirstClosing(r + 1, n)
Expected == FirstClosing(1, avail)     \* requests the server must have handed over once idle

Settled(r) == \A d \in 1..Len(nf[r]) : nf[r][d] # "pending"

(* Quiescence: everything delivered, every Later resource finished, transport resumed.
   No Deferred of a finished / interrupted request is still unfired, and if the
   connection is alive and idle every arrived request up to the first closing
   one has been handed over (in order -- nothing lost, nothing skipped; whether
   anything after a closing request is processed is C19's business, not C21's). *)
End ==
    /\ ~ended
    /\ \A r \in 1..nRecv : (r \in fin \/ (lost /\ r = lostAct)) => Settled(r)
    /\ (~lost /\ active = 0) => nRecv >= Expected
    /\ ended' = TRUE
    /\ last' = [e |-> "end"]
    /\ UNCHANGED <<cfg, avail, nRecv, active, tail, fin, lost, lostAct, ph, nf, wire>>

NDs == 0..2
Next == \/ \E k \in 0..2 : Deliver(k)
        \/ \E nd \in NDs : Recv(nRecv + 1, nd)
        \/ \E k \in {"head", "body", "end"} : \E r \in {active, tail} : Seg(k, r)
        \/ SegContinue
        \/ WriteCall(active) \/ WriteCall(lostAct)
        \/ FinishCall(active)
        \/ LateFinish(lostAct)
        \/ \E r \in 1..nRecv : \E d \in 1..Len(nf[r]) : \E v \in {"none", "fail"} : Notify(r, d, v)
        \/ \E r \in 1..nRecv : (Len(nf[r]) < 3 /\ NotifyRequest(r, Len(nf[r]) + 1))
        \/ Lose \/ Pause \/ Resume
        \/ Ret("ok") \/ Ret("EXC:RuntimeError")
        \/ End

-----------------------------------------------------------------------------
(* The property as state invariants (consequences of the guards above; TLC
   checks them on the design and, primed, at every step of every real run).  *)
OneAtATime ==        \* the request in the application is the latest one and all earlier ones finished
    active # 0 => /\ active = nRecv
                  /\ \A r \in 1..(active - 1) : r \in fin
InOrder ==           \* wire: request order (0 = interim 100 Continue, written between responses)
    \A i, j \in 1..Len(wire) : (i < j /\ wire[i] # 0 /\ wire[j] # 0) => wire[i] <= wire[j]
NoInterleave ==      \* each response contiguous: when the wire switches to a response, nothing of it was written before
    \A i \in 2..Len(wire) : (wire[i] # 0 /\ wire[i] # wire[i - 1]) => \A j \in 1..(i - 1) : wire[j] # wire[i]
NotifyMeaning ==
    \A r \in 1..nRecv : \A d \in 1..Len(nf[r]) :
        /\ nf[r][d] = "none" => r \in fin
        /\ nf[r][d] = "fail" => (lost /\ r = lostAct /\ r \notin fin)
FinOnlyReceived == fin \subseteq 1..nRecv /\ nRecv <= avail
Inv == OneAtATime /\ InOrder /\ NoInterleave /\ NotifyMeaning /\ FinOnlyReceived
=============================================================================
