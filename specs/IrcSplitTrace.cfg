SPECIFICATION TSpec
CONSTANT CheckLen = TRUE
CONSTANT Strict = FALSE
CONSTRAINT Progress
POSTCONDITION Accepted
CHECK_DEADLOCK FALSE
