SPECIFICATION Spec
CONSTANT MaxReq = 3
CONSTANT Depth = 10
CONSTRAINT Bound
VIEW View
INVARIANT OneAtATime
INVARIANT InOrder
INVARIANT NoInterleave
INVARIANT NotifyMeaning
INVARIANT FinOnlyReceived
CHECK_DEADLOCK FALSE
