SPECIFICATION Spec
CONSTANT MaxF = 2
CONSTANT MaxNow = 1
CONSTANT MaxStack = 4
CONSTANT Depth = 100
CONSTRAINT Bound
VIEW View
INVARIANT IdleAtTopLevel
INVARIANT RunningImpliesStarted
INVARIANT UserInCallback
INVARIANT AtMostOnce
INVARIANT ShutdownPhaseOrder
INVARIANT BeforeDelays
INVARIANT CwrNotLost
INVARIANT StopShutsDown
INVARIANT ShutdownNeedsStop
PROPERTY DueCallsBeforeShutdown
PROPERTY NoRunAfterStop
PROPERTY ReturnOnlyAfterCrash
CHECK_DEADLOCK FALSE
