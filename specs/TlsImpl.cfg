SPECIFICATION Spec
CONSTANT MaxWrites = 4
CONSTANT Variant = "coded"
VIEW View
INVARIANT OutInOrder
INVARIANT NothingAfterLose
INVARIANT CloseAfterData
INVARIANT ClosesWhenDone
INVARIANT AtMostOneClose
CHECK_DEADLOCK FALSE
