------------------------------ MODULE Strports ------------------------------
(* C46 -- endpoint description ("strports") quoting.

   Characters are code points (integers).  The grammar distinguishes three of
   them: COLON (next argument), EQUALS (keyword assignment), BSLASH (escape);
   everything else is payload (the exhaustive run uses one ASCII and one
   non-ASCII representative).

   Abs layer (the property):  Holds(cfg, text, args, kw) -- after parsing a
   description in which quote(text) was inserted in slot cfg.target, the parsed
   value at that position is exactly text.  Nothing else is demanded.

   Grammar machine (the description grammar as documented by serverFromString /
   _tokenize: ':' separates arguments, the first unescaped '=' of an argument
   makes it a keyword argument, '\' takes the next character literally).
   It is run (a) with the reference quoter RefSet (property satisfiable on the
   grammar) and (b) with the quoter as coded in endpoints.quoteStringArgument
   (CodedSet) -- the Impl layer, whose predictions are replayed on the real code.

   cfg is a VARIABLE:  [layout  : sequence of "p" (positional) / "k" (keyword), one per slot,
                        target  : slot that carries the quoted text,
                        keys    : per slot, the keyword name (<<>> for "p" slots),
                        fill    : per slot, the content of the non-target slots,
                        prefix  : endpoint type name,
                        off     : 1 if the parsed args include the prefix, else 0,
                        quoter  : "ref" | "coded" | "real"]                                  *)
EXTENDS Naturals, Integers, Sequences, FiniteSets

COLON  == 58
EQUALS == 61
BSLASH == 92

RefSet   == {BSLASH, COLON, EQUALS}     \* a quoter that satisfies the property on this grammar
CodedSet == {BSLASH, COLON, EQUALS}     \* endpoints.quoteStringArgument as coded (since fix b86a94a; before: {BSLASH, COLON})

VARIABLES cfg, text, phase, desc, pos, m
vars == <<cfg, text, phase, desc, pos, m>>

-----------------------------------------------------------------------------
(* helpers *)
RECURSIVE Flat(_)
Flat(ss) == IF Len(ss) = 0 THEN <<>> ELSE Head(ss) \o Flat(Tail(ss))

QuoteSet(S, t) == Flat([i \in 1..Len(t) |-> IF t[i] \in S THEN <<BSLASH, t[i]>> ELSE <<t[i]>>])

Slot(c, qq, i) == <<COLON>>
                  \o (IF c.layout[i] = "k" THEN c.keys[i] \o <<EQUALS>> ELSE <<>>)
                  \o (IF i = c.target THEN qq ELSE c.fill[i])
Assemble(c, qq) == c.prefix \o Flat([i \in 1..Len(c.layout) |-> Slot(c, qq, i)])

-----------------------------------------------------------------------------
(* the grammar machine: one step per character of the description *)
M0 == [cur |-> <<>>, sofar |-> <<>>, args |-> <<>>, kw |-> <<>>, esc |-> FALSE, eqok |-> TRUE, err |-> FALSE]

KwPut(kw, k, v) == IF \E i \in 1..Len(kw) : kw[i][1] = k
                   THEN [i \in 1..Len(kw) |-> IF kw[i][1] = k THEN <<k, v>> ELSE kw[i]]
                   ELSE Append(kw, <<k, v>>)
Add(mm, sf) == IF Len(sf) = 1 THEN [mm EXCEPT !.args = Append(@, sf[1])]
                              ELSE [mm EXCEPT !.kw = KwPut(@, sf[1], sf[2])]

Kind(mm, c) == IF mm.esc THEN "escaped"
               ELSE IF c = COLON THEN "colon"
               ELSE IF c = EQUALS /\ mm.eqok THEN "equals"
               ELSE IF c = BSLASH THEN "backslash"
               ELSE "plain"                       \* includes '=' inside a keyword value

MStep(mm, c) ==
    CASE Kind(mm, c) = "escaped"   -> [mm EXCEPT !.cur = Append(@, c), !.esc = FALSE]
      [] Kind(mm, c) = "colon"     -> [Add(mm, Append(mm.sofar, mm.cur)) EXCEPT !.cur = <<>>, !.sofar = <<>>, !.eqok = TRUE]
      [] Kind(mm, c) = "equals"    -> [mm EXCEPT !.sofar = Append(@, mm.cur), !.cur = <<>>, !.eqok = FALSE]
      [] Kind(mm, c) = "backslash" -> [mm EXCEPT !.esc = TRUE]
      [] OTHER                     -> [mm EXCEPT !.cur = Append(@, c)]

MEnd(mm) == IF mm.esc THEN [mm EXCEPT !.err = TRUE]      \* dangling escape: not a description
            ELSE [Add(mm, Append(mm.sofar, mm.cur)) EXCEPT !.cur = <<>>, !.sofar = <<>>]

RECURSIVE RunFrom(_, _, _)
RunFrom(mm, d, i) == IF i > Len(d) THEN MEnd(mm) ELSE RunFrom(MStep(mm, d[i]), d, i + 1)
RefParse(d) == RunFrom(M0, d, 1)                  \* the grammar as one operator (used by the trace spec)

-----------------------------------------------------------------------------
(* the property *)
PosIndex(c) == c.off + Cardinality({i \in 1..c.target : c.layout[i] = "p"})
Holds(c, t, args, kw) ==
    IF c.layout[c.target] = "p"
    THEN Len(args) >= PosIndex(c) /\ args[PosIndex(c)] = t
    ELSE \E i \in 1..Len(kw) : kw[i][1] = c.keys[c.target] /\ kw[i][2] = t

-----------------------------------------------------------------------------
(* state machine used by the exhaustive run: build a text symbol by symbol, quote it,
   assemble the description, tokenise it character by character *)
InitWith(c) == /\ cfg = c /\ text = <<>> /\ phase = "build"
               /\ desc = <<>> /\ pos = 1 /\ m = M0

Extend(sym) == /\ phase = "build"
               /\ text' = Append(text, sym)
               /\ UNCHANGED <<cfg, phase, desc, pos, m>>

QSet == IF cfg.quoter = "ref" THEN RefSet ELSE CodedSet
DoQuote == /\ phase = "build"
           /\ desc' = Assemble(cfg, QuoteSet(QSet, text))
           /\ phase' = "tok" /\ pos' = 1 /\ m' = M0
           /\ UNCHANGED <<cfg, text>>

TokPre == phase = "tok" /\ pos <= Len(desc)
TokEscaped   == /\ TokPre /\ Kind(m, desc[pos]) = "escaped"
                /\ m' = MStep(m, desc[pos]) /\ pos' = pos + 1 /\ UNCHANGED <<cfg, text, phase, desc>>
TokColon     == /\ TokPre /\ Kind(m, desc[pos]) = "colon"
                /\ m' = MStep(m, desc[pos]) /\ pos' = pos + 1 /\ UNCHANGED <<cfg, text, phase, desc>>
TokEquals    == /\ TokPre /\ Kind(m, desc[pos]) = "equals"
                /\ m' = MStep(m, desc[pos]) /\ pos' = pos + 1 /\ UNCHANGED <<cfg, text, phase, desc>>
TokBackslash == /\ TokPre /\ Kind(m, desc[pos]) = "backslash"
                /\ m' = MStep(m, desc[pos]) /\ pos' = pos + 1 /\ UNCHANGED <<cfg, text, phase, desc>>
TokPlain     == /\ TokPre /\ Kind(m, desc[pos]) = "plain"
                /\ m' = MStep(m, desc[pos]) /\ pos' = pos + 1 /\ UNCHANGED <<cfg, text, phase, desc>>

Finish == /\ phase = "tok" /\ pos > Len(desc)
          /\ m' = MEnd(m) /\ phase' = "done"
          /\ UNCHANGED <<cfg, text, desc, pos>>

RoundTrip == phase = "done" => (~m.err /\ Holds(cfg, text, m.args, m.kw))
\* the step machine and the one-shot operator agree (so the trace spec may use RefParse)
MachineIsRefParse == phase = "done" => m = RefParse(desc)
=============================================================================
