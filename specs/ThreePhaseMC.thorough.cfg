SPECIFICATION Spec
CONSTANT MaxT = 5
CONSTANT MaxR = 1
CONSTANT MaxF = 1
CONSTANT KindSet = "simple"
VIEW View
INVARIANT ExactlyOnce
INVARIANT OnlyRemaining
INVARIANT Accounted
INVARIANT PhaseOrder
INVARIANT DeferredGate
INVARIANT Complete
CHECK_DEADLOCK FALSE
