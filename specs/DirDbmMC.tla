------------------------------ MODULE DirDbmMC ------------------------------
(* Exhaustive TLC run of the DirDBM algorithm: every history of <= MaxOps set /
   replace / delete operations on Keys, a crash between any two file-system calls,
   inside the write (none / part / all) and inside recovery (<= MaxCrash crashes in
   one history, so nested crashes during recovery are included), plain reopens. *)
EXTENDS DirDbmImpl, TLC
CONSTANTS MaxOps, MaxCrash, NKeys
Keys == 1..NKeys

Init == \E e \in {0, 2} : ImplInitWith([ve |-> e])

MSet == \E k \in Keys : ISet(k, nop + 1)
MDel == \E k \in Keys : IDel(k)
MWrite == \E c \in FsWriteClasses : SWrite(c)
MRNew == \E n \in todoN : RNew(n)
MRRpl == \E n \in todoR : RRpl(n)

Next == \/ MSet \/ MDel \/ SOpen \/ MWrite \/ SRemove \/ SRename \/ SRet
        \/ DRemove \/ DRemoveFail \/ DRet \/ DRetErr
        \/ ICrash \/ IReopen \/ MRNew \/ MRRpl \/ RRet \/ IView

Spec == Init /\ [][Next]_vars

Bound == /\ nop <= MaxOps /\ ncr <= MaxCrash /\ nre <= ncr + 1
         /\ TLCGet("level") <= 8 * (MaxOps + MaxCrash) + 8
View == <<cfg, db, infl, mode, nop, ncr, nre, ok, dir, pc, ext, todoN, todoR>>
=============================================================================
