SPECIFICATION Spec
CONSTANT MaxN = 2
INVARIANT NeverLate
CHECK_DEADLOCK FALSE
