------------------------------ MODULE TimersSim ------------------------------
(* Behaviour generator (spec -> code): TimersAbs/TimersProp plus a history variable recording the
   predicted observable of every step; printed as JSON once a behaviour reaches Depth.  Run with
   `tlc -simulate`; the harness turns each behaviour into a history (operations between a call's run
   and ret become that call's script), runs it on the real object and compares.                     *)
EXTENDS TimersProp, TLC, Json
CONSTANTS Flavours, MaxCalls, Ds, NegMax, MaxNow, Depth
VARIABLES hist, quiet        \* quiet = user operations since the last clock/run-phase step (keeps behaviours moving)
NegDs == {0 - k : k \in 1..NegMax}

SInit == /\ \E f \in Flavours, n \in BOOLEAN : InitWith([flavour |-> f, neg |-> n])
         /\ hist = <<>> /\ quiet = 0
UserOp == \/ \E d \in Ds : PCallLater(d)
          \/ \E i \in Ids : PCancelOk(i) \/ PCancelRefused(i)
          \/ \E i \in Ids, d \in {0, 1} : PResetOk(i, d)
          \/ \E i \in Ids, d \in {1} \cup NegDs : PDelayOk(i, d)
          \/ PGdc
Move   == \/ \E d \in Ds : PAdvanceReactor(d) \/ PAdvanceClock(d)
          \/ PIterBegin
          \/ \E i \in Ids : PRunBegin(i)
          \/ PRunEnd
          \/ PIterEnd
Core == \/ (quiet < 3 /\ UserOp /\ quiet' = quiet + 1)
        \/ (Move /\ quiet' = 0)
(* a gdc set is printed as a JSON array in no particular order; the harness sorts it *)
SNext == Core /\ Len(calls') <= MaxCalls /\ now' <= MaxNow /\ hist' = Append(hist, last')
SSpec == SInit /\ [][SNext]_<<vars, hist, quiet>>
Emit == TLCGet("level") < Depth \/ PrintT(<<"BEH", ToJson([cfg |-> cfg, hist |-> hist])>>)
Stop == TLCGet("level") <= Depth
=============================================================================
