SPECIFICATION SSpec
CONSTANT Depth = 16
CONSTANT NOpt = 2
CONSTRAINT Emit2
CONSTRAINT Stop
CHECK_DEADLOCK FALSE
