SPECIFICATION Spec
VIEW View
INVARIANT Reach1
CHECK_DEADLOCK FALSE
