----------------------------- MODULE RedirectSim -----------------------------
(* Behaviour generator (spec -> code): Redirect plus a history variable; each behaviour is a
   configuration, the chain of answers of the inner agent and the requests the specification
   predicts.  The harness feeds the answers to the real agent and compares.               *)
EXTENDS RedirectMC, Json
VARIABLE hist
SimCfgs == {[agent |-> ag, limit |-> n, method |-> m, uri |-> u, given |-> g] :
               ag \in {"strict", "browser"}, n \in 0..3, m \in {"GET", "HEAD", "POST"}, u \in StartUris,
               g \in {{}, {"authorization"}, {"authorization", "cookie", "proxy-authorization", "x-secret"}}}
SInit == /\ \E c \in SimCfgs : InitWith(c)
         /\ hist = <<>>
SEnv == \E code \in RedirectCodes \cup {200, 404}, loc \in Refs : Respond(code, loc)
\* the generator always carries the sensitive headers where the property allows it (one deterministic choice of S)
SFollow == \E S \in SUBSET cfg.given : Follow(S) /\ (S = {} \/ S = cfg.given) /\ (Origin(Resolve(cur.uri, resp.loc)) = Origin(cfg.uri) => S = cfg.given)
SNext == (Start \/ SEnv \/ SFollow \/ FinishOk \/ FinishFail) /\ hist' = Append(hist, last')
SSpec == SInit /\ [][SNext]_<<vars, hist>>
Emit == phase # "done" \/ PrintT(<<"BEH", ToJson([cfg |-> cfg, hist |-> hist])>>)
Stop == TLCGet("level") <= 2 * Depth + 4
=============================================================================
