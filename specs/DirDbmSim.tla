------------------------------ MODULE DirDbmSim ------------------------------
(* Behaviour generator (spec -> code) for C51: random behaviours of the Impl layer
   (operations, file-system calls, crashes anywhere incl. inside recovery) with the
   predicted observable of every step; printed as JSON when a behaviour reaches Depth.
   The harness drives the real DirDBM along each behaviour (same operations, process
   killed at the same file-system call) and compares the calls the real code issues
   with the predicted ones; TLC then validates the real execution as usual.      *)
EXTENDS DirDbmImpl, TLC, Json
CONSTANTS Depth, NKeys
VARIABLE hist
Keys == 1..NKeys
SInit == ImplInitWith([ve |-> 0]) /\ hist = <<>>
MSet == \E k \in Keys : ISet(k, nop + 1)
MDel == \E k \in Keys : IDel(k)
MWrite == \E c \in {"part", "all"} : SWrite(c)
MRNew == \E n \in todoN : RNew(n)
MRRpl == \E n \in todoR : RRpl(n)
Step == \/ MSet \/ MDel \/ SOpen \/ MWrite \/ SRemove \/ SRename \/ SRet
        \/ DRemove \/ DRemoveFail \/ DRet \/ DRetErr
        \/ ICrash \/ IReopen \/ MRNew \/ MRRpl \/ RRet \/ IView
SNext == Step /\ hist' = Append(hist, last')
SSpec == SInit /\ [][SNext]_<<vars, hist>>
Emit == TLCGet("level") < Depth \/ PrintT(<<"BEH", ToJson([cfg |-> cfg, hist |-> hist])>>)
Stop == TLCGet("level") <= Depth
=============================================================================
