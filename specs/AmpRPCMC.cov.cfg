SPECIFICATION Spec
CONSTANT MaxCalls = 1
CONSTANT MaxPerPeer = 1
CONSTANT KindSet = {"NowOk", "NowDeclSub", "LaterFatalSub", "LaterUndecl", "Never"}
CONSTANT Flags = {TRUE, FALSE}
CONSTANT QC = {TRUE, FALSE}
VIEW View
INVARIANT ExactlyOnce
INVARIANT OwnResult
INVARIANT NonePendingAfterLoss
INVARIANT NeverOnlyLoss
INVARIANT WhyOK
CHECK_DEADLOCK FALSE
