SPECIFICATION Spec
CONSTANT MaxLen = 4
CONSTANT NSlots = 3
CONSTANT Quoter = "coded"
INVARIANT MachineIsRefParse
CONSTRAINT Emit
CHECK_DEADLOCK FALSE
