SPECIFICATION Spec
CONSTANT MaxBytes = 2
INVARIANT NeverAbortPrefix
CHECK_DEADLOCK FALSE
