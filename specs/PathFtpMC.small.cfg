SPECIFICATION Spec
CONSTANT MaxLen = 1
CONSTANT RnfrLen = 1
CONSTANT Depth = 1
CONSTANT Symbols <- SymSmall
CONSTANT Wd0s <- WdAll
CONSTANT Anons = {FALSE}
CONSTANT Nul <- MCNul
CONSTANT PP <- MCPP
CONSTANT Modes = {"component", "string"}
VIEW View
ACTION_CONSTRAINT EmitCover
INVARIANT WdInside
INVARIANT TreeOk
PROPERTY StepConfined
CHECK_DEADLOCK FALSE
